(* C08 (limit clause) from the GENERATED integrands — group I.
   The two large-waist limits (Proofs/C05_waistlimit_walkoff.v: coincidence closure; Proofs/PM_singles_limit.v: singles closure; both at
   fixed walk-off-to-waist ratio, all diffraction coefficients present) give limit integrands whose integrals are, for round beams at
   perfect phase matching,
       coincidences   |1/2 Int| = (4/Sigma) F(x),        singles   1/4 IntInt = R / ((Ws^2 + Wp^2) Wp^2 Ws^2 / 4),
   and   Wi^2 coinc^2 / singles = eta F^2 / R = Spec.Overlap.limit_ratio  (the property's no-diffraction statement; eta, F, R, x are
   grpG's definitions, not duplicated).  The RATE of convergence (1e-4 in the property text) is validated by C08's oracle. *)
From Coq Require Import Reals Lra Psatz.
From Coquelicot Require Import Coquelicot.
From SpdVerif Require Import Base.Rx Base.CxPM Model.PMParams Model.PMLimit Spec.Overlap Proofs.C08_overlap Gen.PMIntegrand Gen.PMSingles
  Proofs.C05_closure Proofs.C05_limit Proofs.C05_sinc Proofs.C05_waistlimit_walkoff Proofs.PM_singles_limit Proofs.C08_limit_generated.
Local Open Scope R_scope.

Lemma erf_bridge x : Overlap.erf x = PMLimit.erf x.
Proof.
  unfold Overlap.erf, PMLimit.erf. f_equal. apply RInt_ext. intros t _. f_equal. ring.
Qed.

Section RoundBeams.
  Variables (Wp Ws Wi L tanrho psi : R).
  Hypothesis HWp : 0 < Wp.
  Hypothesis HWs : 0 < Ws.
  Hypothesis HWi : 0 < Wi.

  Let wp := Wp ^ 2.
  Let ss := Ws ^ 2.
  Let si := Wi ^ 2.
  Let Sigma := Sig ss si wp.
  Let nn := L * tanrho / 2.

  Lemma wp_pos : 0 < wp. Proof. unfold wp. nra. Qed.
  Lemma ss_pos : 0 < ss. Proof. unfold ss. nra. Qed.
  Lemma si_pos : 0 < si. Proof. unfold si. nra. Qed.
  Lemma Sigma_pos : 0 < Sigma. Proof. apply Sig_pos; [apply ss_pos | apply si_pos | left; apply wp_pos]. Qed.

  (* limit integrand of the coincidences at perfect phase matching (ff = 0), no apodization *)
  Definition coinc_limit_integrand : R -> C := zd_closure wp wp ss si psi 0 0 nn.
  Definition coinc_limit : R := Cmod (Cmult (RtoC (1 / 2)) (Cint coinc_limit_integrand (-1) 1)).

  Lemma walk_x_eq : walk_x Wp Ws Wi L tanrho = 2 * (Rabs nn * sqrt ((ss + si) / Sigma)).
  Proof.
    pose proof wp_pos. pose proof ss_pos. pose proof si_pos. pose proof Sigma_pos as HS.
    unfold walk_x, nn. fold wp.
    replace (/ Ws ^ 2) with (/ ss) by reflexivity. replace (/ Wi ^ 2) with (/ si) by reflexivity.
    assert (E : wp + / (/ ss + / si) = Sigma / (ss + si)) by (unfold Sigma, Sig; field; repeat split; lra).
    rewrite E.
    replace ((ss + si) / Sigma) with (/ (Sigma / (ss + si))) by (field; split; lra).
    rewrite sqrt_inv.
    replace (L * tanrho / 2) with ((L * tanrho) * / 2) by field. rewrite (Rabs_mult (L * tanrho) (/ 2)), (Rabs_pos_eq (/ 2)) by lra. field.
    apply Rgt_not_eq, sqrt_lt_R0. apply Rdiv_lt_0_compat; lra.
  Qed.

  Theorem coinc_limit_value : coinc_limit = 4 / Sigma * F_walkoff (walk_x Wp Ws Wi L tanrho).
  Proof.
    pose proof wp_pos as Hp. pose proof ss_pos as Hs. pose proof si_pos as Hi. pose proof Sigma_pos as HS.
    assert (HK : 4 / sqrt (Sig ss si wp * Sig ss si wp) = 4 / Sigma).
    { fold Sigma. rewrite sqrt_square by lra. reflexivity. }
    unfold coinc_limit, coinc_limit_integrand. destruct (Req_dec nn 0) as [Hn|Hn].
    - rewrite Hn. rewrite (plane_wave_modulus wp wp ss si psi 0 0 Hs Hi (Rlt_le _ _ Hp) (Rlt_le _ _ Hp)).
      rewrite HK, sinc_0, Rabs_R1, walk_x_eq, Hn, Rabs_R0, Rmult_0_l, Rmult_0_r, F_walkoff_0. ring.
    - rewrite (walkoff_peak wp wp ss si nn psi 0 Hs Hi (Rlt_le _ _ Hp) (Rlt_le _ _ Hp) Hn).
      rewrite Cmod_mult, Cmod_Cexp, Cmod_R. cbn [fst]. rewrite exp_0, Rmult_1_r, HK.
      fold Sigma. rewrite <- walk_x_eq.
      set (x := walk_x Wp Ws Wi L tanrho).
      assert (Hx : 0 < x).
      { unfold x. rewrite walk_x_eq. apply Rmult_lt_0_compat; [lra|]. apply Rmult_lt_0_compat; [apply Rabs_pos_lt; assumption|].
        apply sqrt_lt_R0. apply Rdiv_lt_0_compat; lra. }
      unfold F_walkoff. destruct (Req_EM_T x 0) as [E|_]; [lra|]. rewrite erf_bridge.
      pose proof (F_walkoff_range x Hx) as [HF _]. unfold F_walkoff in HF. destruct (Req_EM_T x 0) as [E|_]; [lra|].
      rewrite erf_bridge in HF.
      rewrite Rabs_pos_eq; [reflexivity|]. apply Rmult_le_pos; [left; apply Rdiv_lt_0_compat; lra | lra].
  Qed.

  (* limit integrand of the signal singles at perfect phase matching (c3 = L Delta k = 0), no apodization *)
  Definition singles_limit_integrand (z1 z2 : R) : C := singles_limit_value (fun _ => 1) wp wp ss (L * tanrho) 0 z1 z2.
  Definition singles_limit : R :=
    / 4 * RInt (fun z1 => RInt (fun z2 => Cmod (singles_limit_integrand z1 z2)) (-1) 1) (-1) 1.

  Let D0 := (ss + wp) * wp * ss / 4.

  Lemma D0_eq : 8 * sqrt (P0 wp wp ss) = D0.
  Proof.
    pose proof wp_pos. pose proof ss_pos. unfold P0, D0.
    replace ((ss + wp) * (ss + wp) * wp * wp * (ss * ss) / 1024) with (((ss + wp) * wp * ss / 32) * ((ss + wp) * wp * ss / 32)) by field.
    rewrite sqrt_square; [field|]. apply Rlt_le, Rdiv_lt_0_compat; [|lra]. repeat apply Rmult_lt_0_compat; lra.
  Qed.

  Lemma singles_exponent_is_R_exponent z1 z2 :
    singles_limit_exponent wp ss (L * tanrho) z1 z2 = R_exponent Wp Ws (walk_d L tanrho z1) (walk_d L tanrho z2).
  Proof.
    pose proof wp_pos. pose proof ss_pos. unfold singles_limit_exponent, R_exponent, walk_d. fold wp ss. field. repeat split; lra.
  Qed.

  Lemma singles_integrand_modulus z1 z2 : Cmod (singles_limit_integrand z1 z2) = / D0 * R_integrand Wp Ws L tanrho z1 z2.
  Proof.
    pose proof wp_pos. pose proof ss_pos.
    assert (HD : 0 < D0) by (unfold D0; apply Rdiv_lt_0_compat; [repeat apply Rmult_lt_0_compat; lra | lra]).
    unfold singles_limit_integrand, singles_limit_value. rewrite Cmod_mult, Cmod_Cexp, Cmod_R. cbn [fst].
    rewrite D0_eq, singles_exponent_is_R_exponent. unfold R_integrand.
    rewrite Rabs_pos_eq; [field; lra|]. apply Rlt_le, Rdiv_lt_0_compat; lra.
  Qed.

  Theorem singles_limit_value_eq : singles_limit = R_walkoff Wp Ws L tanrho / D0.
  Proof.
    unfold singles_limit, R_walkoff.
    rewrite (RInt_ext (fun z1 => RInt (fun z2 => Cmod (singles_limit_integrand z1 z2)) (-1) 1)
                      (fun z1 => / D0 * RInt (fun z2 => R_integrand Wp Ws L tanrho z1 z2) (-1) 1)).
    - rewrite RInt_Rmult_l by (apply R_outer_ex; assumption). field.
      pose proof wp_pos. pose proof ss_pos. unfold D0. apply Rgt_not_eq. apply Rdiv_lt_0_compat; [repeat apply Rmult_lt_0_compat; lra | lra].
    - intros z1 _.
      rewrite (RInt_ext (fun z2 => Cmod (singles_limit_integrand z1 z2)) (fun z2 => / D0 * R_integrand Wp Ws L tanrho z1 z2)).
      + apply RInt_Rmult_l. apply R_inner_ex; assumption.
      + intros z2 _. apply singles_integrand_modulus.
  Qed.

  (* the property's limit statement: (coincidence intensity) / (signal-singles intensity) -> eta F^2 / R;
     by C08_ratio_structure that ratio is sec(theta_i) Wi^2 |pm|^2 / pm_singles; collinear: sec = 1 *)
  Theorem limit_ratio_from_integrands : Wi ^ 2 * coinc_limit ^ 2 / singles_limit = limit_ratio Wp Ws Wi L tanrho.
  Proof.
    pose proof wp_pos as Hp. pose proof ss_pos as Hs. pose proof si_pos as Hi. pose proof Sigma_pos as HS.
    rewrite coinc_limit_value, singles_limit_value_eq. unfold limit_ratio.
    pose proof (R_walkoff_range Wp Ws L tanrho HWp HWs) as [HR _].
    set (F := F_walkoff _). set (Rw := R_walkoff _ _ _ _) in *.
    (* eta in terms of the squared waists *)
    pose proof (W_h_pos Wp Ws HWp HWs) as Hh. pose proof (W_h_spec Wp Ws HWp HWs) as Hspec.
    set (Wh := W_h Wp Ws) in *.
    assert (Eh : Wh ^ 2 = wp * ss / (wp + ss)).
    { assert (Hh2 : 0 < Wh ^ 2) by nra.
      assert (E : / Wh ^ 2 = (wp + ss) / (wp * ss)) by (rewrite Hspec; unfold wp, ss; field; split; nra).
      rewrite <- (Rinv_inv (Wh ^ 2)), E. field. split; lra. }
    unfold eta. replace ((2 * Wi * Wh / (Wi ^ 2 + Wh ^ 2)) ^ 2) with (4 * Wi ^ 2 * Wh ^ 2 / ((Wi ^ 2 + Wh ^ 2) * (Wi ^ 2 + Wh ^ 2))).
    2:{ field. nra. }
    rewrite Eh. fold si. unfold D0, Sigma, Sig. unfold Sigma, Sig in HS. field. repeat split; first [lra | nra].
  Qed.
End RoundBeams.


(* ---- capstone, on the generated integrands: a collinear setup with round beams Wp, Ws, Wi, no apodization, at a frequency pair of perfect
   phase matching (ff = L Delta k_z / 2 = 0).  Scale the three waists and the walk-off length by s.  Then
     s^4 pm_integrand  -> Lc(z)   and   s^6 pms_integrand -> Ls(z1, z2)   pointwise as s -> infinity,  and
     Wi^2 |1/2 Int Lc|^2 / (1/4 IntInt |Ls|) = eta F^2 / R = limit_ratio Wp Ws Wi L tan(rho). *)
Lemma singles_C3_is_2ff p : pms_C3 p = 2 * pm_ff p.
Proof. unfold pms_C3, pms_C7, pm_ff. change (pms_k_p p) with (pm_k_p p). change (pms_dksi p) with (pm_dksi p). lra. Qed.

Theorem limit_ratio_generated p Wp Ws Wi :
  pm_collinear p ->
  p_wpx p = Wp -> p_wpy p = Wp -> p_wsx p = Ws -> p_wsy p = Ws -> p_wix p = Wi -> p_wiy p = Wi ->
  0 < Wp -> 0 < Ws -> 0 < Wi ->
  (forall z, p_apod p z = 1) -> pm_ff p = 0 -> pms_k_p p <> 0 -> pms_k_s p <> 0 ->
  let psi := pm_ks_f p * p_z0s p + pm_ki_f p * p_z0i p + pm_ee p in
  let Lc := coinc_limit_integrand Wp Ws Wi (p_L p) (tan (p_rho p)) psi in
  let Ls := singles_limit_integrand Wp Ws (p_L p) (tan (p_rho p)) in
  (forall z, filterlim (fun s => Cmult (RtoC ((s * s) * (s * s))) (pm_integrand (pm_scale_wr s p) z)) (Rbar_locally p_infty) (locally (Lc z))) /\
  (forall z1 z2, filterlim (fun s => Cmult (RtoC ((s * s) * (s * s) * (s * s))) (pms_integrand (pm_scale_wr s p) z1 z2))
                           (Rbar_locally p_infty) (locally (Ls z1 z2))) /\
  Wi ^ 2 * Cmod (Cmult (RtoC (1 / 2)) (Cint Lc (-1) 1)) ^ 2 /
    (/ 4 * RInt (fun z1 => RInt (fun z2 => Cmod (Ls z1 z2)) (-1) 1) (-1) 1) = limit_ratio Wp Ws Wi (p_L p) (tan (p_rho p)).
Proof.
  intros Hc Epx Epy Esx Esy Eix Eiy HWp HWs HWi Hapod Hff Hkp Hks psi Lc Ls.
  assert (EWx : pm_Wx_SQ p = Wp ^ 2) by (unfold pm_Wx_SQ; rewrite Epx; ring).
  assert (EWy : pm_Wy_SQ p = Wp ^ 2) by (unfold pm_Wy_SQ; rewrite Epy; ring).
  assert (EWs : pm_Ws_SQ p = Ws ^ 2) by (unfold pm_Ws_SQ; rewrite Esx, Esy; ring).
  assert (EWi : pm_Wi_SQ p = Wi ^ 2) by (unfold pm_Wi_SQ; rewrite Eix, Eiy; ring).
  assert (Hs2 : 0 < Ws ^ 2) by nra. assert (Hi2 : 0 < Wi ^ 2) by nra. assert (Hp2 : 0 < Wp ^ 2) by nra.
  split; [|split].
  - intros z.
    assert (EL : Lc z = plane_wave_valueW (p_apod p) (pm_Wx_SQ p) (pm_Wy_SQ p) (pm_Ws_SQ p) (pm_Wi_SQ p) (0.5 * p_L p * tan (p_rho p))
                                       (pm_ks_f p * p_z0s p + pm_ki_f p * p_z0i p) (pm_ee p) (pm_ff p) z).
    { unfold Lc, coinc_limit_integrand, zd_closure, plane_wave_valueW.
      rewrite (closure_zero_diffraction (fun _ => 1) (Wp ^ 2) (Wp ^ 2) (Ws ^ 2) (Wi ^ 2) (p_L p * tan (p_rho p) / 2) psi 0 0 z Hs2 Hi2
                 (Rlt_le _ _ Hp2) (Rlt_le _ _ Hp2)).
      rewrite EWx, EWy, EWs, EWi, Hapod, Hff. unfold psi.
      assert (En : p_L p * tan (p_rho p) / 2 = 0.5 * p_L p * tan (p_rho p)) by lra. rewrite En.
      replace (pm_ks_f p * p_z0s p + pm_ki_f p * p_z0i p + pm_ee p + 0 + 0 * z) with (pm_ks_f p * p_z0s p + pm_ki_f p * p_z0i p + pm_ee p + 0 * z) by ring.
      reflexivity. }
    rewrite EL. apply coincidence_integrand_limit; [assumption | rewrite EWs | rewrite EWi]; assumption.
  - intros z1 z2.
    assert (EL : Ls z1 z2 = singles_limit_value (p_apod p) (pms_Wx_SQ p) (pms_Wy_SQ p) (pms_Ws_SQ p) (p_L p * tan (p_rho p)) (pms_C3 p) z1 z2).
    { unfold Ls, singles_limit_integrand. change (pms_Wx_SQ p) with (pm_Wx_SQ p). change (pms_Wy_SQ p) with (pm_Wy_SQ p).
      change (pms_Ws_SQ p) with (pm_Ws_SQ p). rewrite EWx, EWy, EWs, singles_C3_is_2ff, Hff.
      unfold singles_limit_value. rewrite !Hapod. do 3 f_equal. ring. }
    rewrite EL. apply singles_integrand_limit; try assumption.
    + change (pms_Ws_SQ p) with (pm_Ws_SQ p). rewrite EWs. assumption.
    + change (pms_Wx_SQ p) with (pm_Wx_SQ p). rewrite EWx. assumption.
    + change (pms_Wy_SQ p) with (pm_Wy_SQ p). rewrite EWy. assumption.
  - apply (limit_ratio_from_integrands Wp Ws Wi (p_L p) (tan (p_rho p)) psi HWp HWs HWi).
Qed.
