(* C01 obligations for KTP: n_y switches Sellmeier form at 1.2 um. *)
From Coq Require Import Reals List Lra.
From Interval Require Import Tactic.
From SpdVerif Require Import Base.Rx Spec.CrystalTypes Spec.Published Gen.Crystals Proofs.Sellmeier Proofs.C01_tac.
Import ListNotations.
Local Open Scope R_scope.

Lemma matches ax l T : in_window KTP l -> temp_ok T -> n_of KTP ax l T = published KTP ax l T.
Proof.
  intros Hw HT; window_bounds Hw; unfold temp_ok in HT.
  destruct ax; unfold_gen; unfold published; cbn [pub_sell pub_dn].
  2: destruct (Rlt_dec l 1.2).
  all: sell_simpl; f_equal; [f_equal; dec_norm; field; nra | lra].
Qed.

Lemma defined ax l T : in_window KTP l -> temp_ok T -> sell_defined (pub_sell KTP ax l T) (l ^ 2).
Proof.
  intros Hw HT; window_bounds Hw; unfold temp_ok in HT.
  destruct ax; cbn [pub_sell].
  2: destruct (Rlt_dec l 1.2).
  all: unfold sell_defined; cbn [sP1 sP2]; sell_simpl; repeat split; repeat constructor; cbn [snd]; try nra; interval.
Qed.

Lemma bounds ax l T : in_window KTP l -> temp_ok T -> 1 < n_of KTP ax l T < 4.
Proof.
  intros Hw HT. rewrite matches by assumption. window_bounds Hw; unfold temp_ok in HT.
  destruct ax; unfold published; cbn [pub_sell pub_dn].
  2: destruct (Rlt_dec l 1.2).
  all: sell_simpl; split; interval with (i_bisect l, i_bisect T).
Qed.

(* the two published n_y forms *)
Definition sy_a : sellmeier := {| sA := 2.14559; sP1 := [(0.87629, 0.0485)]; sP2 := []; sD := 0.01173 |}.
Definition sy_b : sellmeier := {| sA := 2.0993; sP1 := [(0.922683, 0.0467695)]; sP2 := []; sD := 0.0138408 |}.

Lemma sy_a_decr x1 x2 : 0.1 <= x1 -> x1 < x2 -> sell_eval sy_a x2 < sell_eval sy_a x1.
Proof. intros. apply sell_decreasing; [assumption | solve_ok | solve_ok | cbn [sD sy_a]; lra | unfold sy_a; solve_strict]. Qed.

Lemma sy_b_decr x1 x2 : 0.1 <= x1 -> x1 < x2 -> sell_eval sy_b x2 < sell_eval sy_b x1.
Proof. intros. apply sell_decreasing; [assumption | solve_ok | solve_ok | cbn [sD sy_b]; lra | unfold sy_b; solve_strict]. Qed.

(* at the switch point the second form is the smaller one: the jump is downward *)
Lemma sy_jump_down : sell_eval sy_b (1.2 ^ 2) < sell_eval sy_a (1.2 ^ 2).
Proof. unfold sy_a, sy_b; sell_simpl. interval. Qed.

Lemma decreasing ax l1 l2 T :
  in_window KTP l1 -> in_window KTP l2 -> temp_ok T -> l1 < l2 -> n_of KTP ax l2 T < n_of KTP ax l1 T.
Proof.
  intros Hw1 Hw2 HT Hlt.
  rewrite !matches by assumption.
  pose proof (defined ax l2 T Hw2 HT) as (_ & _ & Hpos).
  window_bounds Hw1. window_bounds Hw2.
  assert (Hx : l1 ^ 2 < l2 ^ 2) by (apply sq_lt; lra).
  assert (Hx1 : 0.1 <= l1 ^ 2) by (simpl; nra).
  unfold published. apply sqrt_plus_lt; [lra|].
  destruct ax; cbn [pub_sell] in *.
  - apply sell_decreasing; [assumption | solve_ok | solve_ok | cbn [sD]; lra | solve_strict].
  - fold sy_a sy_b in *.
    destruct (Rlt_dec l2 1.2) as [H2|H2]; destruct (Rlt_dec l1 1.2) as [H1|H1]; try lra.
    + apply sy_a_decr; assumption.
    + (* l1 < 1.2 <= l2 *)
      assert (Ha : l1 ^ 2 < 1.2 ^ 2) by (apply sq_lt; lra).
      pose proof (sy_a_decr (l1 ^ 2) (1.2 ^ 2) Hx1 Ha) as Hda.
      pose proof sy_jump_down as Hj.
      destruct (Req_dec l2 1.2) as [->|Hne]; [lra|].
      assert (Hb : 1.2 ^ 2 < l2 ^ 2) by (apply sq_lt; lra).
      pose proof (sy_b_decr (1.2 ^ 2) (l2 ^ 2) ltac:(simpl; lra) Hb) as Hdb. lra.
    + apply sy_b_decr; assumption.
  - apply sell_decreasing; [assumption | solve_ok | solve_ok | cbn [sD]; lra | solve_strict].
Qed.

Lemma class l T : in_window KTP l -> temp_ok T ->
  n_of KTP AX l T < n_of KTP AZ l T /\ n_of KTP AY l T < n_of KTP AZ l T.
Proof.
  intros Hw HT. rewrite !matches by assumption. window_bounds Hw; unfold temp_ok in HT.
  unfold published; cbn [pub_sell pub_dn]. split.
  2: destruct (Rlt_dec l 1.2).
  all: sell_simpl; apply Rminus_gt_0_lt; interval with (i_bisect l, i_bisect T, i_depth 30).
Qed.

Lemma temperature ax l T : in_window KTP l -> temp_ok T ->
  n_of KTP ax l T = n_of KTP ax l 20 + pub_dn KTP ax * (T - 20).
Proof.
  intros Hw HT; rewrite !matches by (try assumption; unfold temp_ok; lra).
  unfold published. destruct ax; cbn [pub_sell pub_dn]; lra.
Qed.
