(* Tactics used by the generated correspondence cases (coq/Cases/, never committed). *)
From Coq Require Import Reals Lra List QArith.
From Interval Require Import Tactic.
From SpdVerif Require Import Base.Rx Spec.CrystalTypes Spec.Published Gen.Crystals Proofs.Sellmeier.
Local Open Scope R_scope.

(* decide every [Rlt_dec a b] on closed rational arguments *)
Ltac split_ifs :=
  repeat match goal with
  | |- context [Rlt_dec ?a ?b] => destruct (Rlt_dec a b); try (exfalso; lra)
  | |- context [Rle_dec ?a ?b] => destruct (Rle_dec a b); try (exfalso; lra)
  | |- context [Rgt_dec ?a ?b] => destruct (Rgt_dec a b); try (exfalso; lra)
  | |- context [Rge_dec ?a ?b] => destruct (Rge_dec a b); try (exfalso; lra)
  end.

Ltac case_gen :=
  unfold get_indices, indices_BBO_1, indices_KTP, indices_BiBO_1, indices_LiNbO3_1, indices_LiNb_MgO,
    indices_KDP_1, indices_AgGaSe2_1, indices_AgGaSe2_2, indices_LiIO3_2, indices_LiIO3_1, indices_AgGaS2_1;
  cbn [proj fst snd]; split_ifs; interval with (i_prec 64).

Ltac case_pub :=
  unfold published; cbn [pub_sell pub_dn]; split_ifs; cbv zeta; sell_simpl; unfold gayer_f; interval with (i_prec 64).
