(* PM singles (for C08) — the sub-expressions of the GENERATED singles closure (Gen/PMSingles.v: pms_closure) as functions of complex
   atoms, their homogeneity under scaling of the waists, and their values on the real axis (all diffraction terms zero). *)
From Coq Require Import Reals Lra Psatz QArith.
From Coquelicot Require Import Coquelicot.
From SpdVerif Require Import Base.Rx Base.CxPM Base.CxCont Model.PMParams Gen.PMSingles.
Local Open Scope R_scope.

(* the sub-expressions of the singles closure as functions of complex atoms (copied from Gen/PMSingles.v: pms_closure;
   [closure_as_core] below checks by conversion that the generated closure is exactly this composition) *)
Definition sEE (imag w2 b6 c5 X11 X12 C9 a1 a2 : C) : C :=
  (Cmult (RtoC 0.25) (Cminus (Cplus (Cplus (Copp w2) (Cmult imag b6)) (Cmult (Cdiv c5 X11) (Cmult (Cminus C9 (Cmult imag a1)) (Cminus C9 (Cmult imag a1))))) (Cmult (Cdiv (Cmult imag c5) X12) (Cmult (Cplus C9 (Cmult imag a2)) (Cplus C9 (Cmult imag a2)))))).
Definition sFF (imag w2 b6 c5 Y21 Y22 C10 a1 a2 : C) : C :=
  (Cmult (RtoC 0.25) (Cplus (Cminus (Cplus (Copp w2) (Cmult imag b6)) (Cmult (Cdiv c5 Y21) (Cmult (Cplus (Cmult imag C10) a1) (Cplus (Cmult imag C10) a1)))) (Cmult (Cdiv (Cmult imag c5) Y22) (Cmult (Cplus (Cmult (Copp imag) C10) a2) (Cplus (Cmult (Copp imag) C10) a2))))).
Definition sGG (imag ksc alpha3 X11 X12 C9 a1 a2 : C) : C :=
  (Cmult ksc (Cplus (Cmult (Cdiv (Cconj alpha3) X12) (Cminus (Cmult imag C9) a2)) (Cmult (Cdiv alpha3 X11) (Cplus (Copp C9) (Cmult imag a1))))).
Definition sHH (imag hl b0 ksc b3 b4 Y21 Y22 C10 a1 a2 : C) : C :=
  (Cmult hl (Cplus (Cmult imag b0) (Cmult ksc (Cplus (Cmult (Cdiv b3 Y21) (Cminus (Cmult (Copp imag) C10) a1)) (Cmult (Cdiv b4 Y22) (Cplus C10 (Cmult imag a2))))))).
Definition sIIrho (imag q b3s b4s Y21 Y22 : C) : C :=
  (Cmult q (Cplus (Cdiv b3s Y21) (Cdiv (Cmult imag b4s) Y22))).
Definition sIIgam (imag kk alpha3 X11 X12 : C) : C :=
  (Cmult kk (Cminus (Cdiv (Cmult alpha3 alpha3) X11) (Cdiv (Cmult imag (Cmult (Cconj alpha3) (Cconj alpha3))) X12))).
Definition sNum (GG EE HH FF II : C) : C :=
  (Cexp (Cplus (Cminus (Cdiv (Copp (Cmult GG GG)) (Cmult (RtoC 4) EE)) (Cdiv (Cmult HH HH) (Cmult (RtoC 4) FF))) II)).
Definition sDen (AA1 BB1 AA2 BB2 EE FF : C) : C :=
  (Cmult (RtoC 8) (Csqrt (Cmult (Cmult (Cmult (Cmult (Cmult AA1 BB1) AA2) BB2) EE) FF))).

Lemma closure_as_core apod L M2 Wx_SQ Wy_SQ k_s z0 GAM4s KpKs C3 C4 C5 C9 C10 LRho LRho_sq alpha1 alpha2 alpha3 k_p_L KpKs4inv imag z1 z2 :
  pms_closure apod L M2 Wx_SQ Wy_SQ k_s z0 GAM4s KpKs C3 C4 C5 C9 C10 LRho LRho_sq alpha1 alpha2 alpha3 k_p_L KpKs4inv imag z1 z2 =
  let B0 := z1 - z2 in
  let A1 := 2 * z0 - L * z1 in let A2 := 2 * z0 - L * z2 in
  let B6a := C4 * B0 * 1 / M2 in
  let gamma1 := Cmult (RtoC (- k_p_L * (1 - z1) / 1 + k_s * A1 / 1)) imag in
  let gamma2 := Cmult (RtoC (- k_p_L * (1 - z2) / 1 + k_s * A2 / 1)) imag in
  let Ha := Cplus alpha1 gamma1 in let Hb := Cplus alpha2 gamma1 in
  let Hc := Cminus (Cconj alpha1) gamma2 in let Hd := Cminus (Cconj alpha2) gamma2 in
  let ks := k_s * 1 / 1 in
  let AA1 := Cmult (Cminus Ha (Cmult C9 (RtoC ks))) (RtoC KpKs4inv) in
  let AA2 := Cmult (Cminus Hc (Cmult C9 (RtoC ks))) (RtoC KpKs4inv) in
  let BB1 := Cmult (Cminus Hb (Cmult C10 (RtoC ks))) (RtoC KpKs4inv) in
  let BB2 := Cmult (Cminus Hd (Cmult C10 (RtoC ks))) (RtoC KpKs4inv) in
  let X11 := Cminus (Cmult C9 (RtoC ks)) Ha in
  let X12 := Cmult (Cminus Hc (Cmult C9 (RtoC ks))) imag in
  let Y21 := Cminus (Cmult C10 (RtoC ks)) Hb in
  let Y22 := Cmult (Cminus Hd (Cmult C10 (RtoC ks))) imag in
  let EE := sEE imag (2 * (Wx_SQ / M2), 0) (RtoC B6a) (RtoC C5) X11 X12 C9 (RtoC (A1 / 1)) (RtoC (A2 / 1)) in
  let FF := sFF imag (2 * (Wy_SQ / M2), 0) (RtoC B6a) (RtoC C5) Y21 Y22 C10 (RtoC (A1 / 1)) (RtoC (A2 / 1)) in
  let GG := sGG imag (RtoC ks) alpha3 X11 X12 C9 (RtoC (A1 / 1)) (RtoC (A2 / 1)) in
  let HH := sHH imag (RtoC (0.5 * (LRho / 1))) (RtoC B0) (RtoC ks) (RtoC (1 + z1)) (RtoC (1 + z2)) Y21 Y22 C10 (RtoC (A1 / 1)) (RtoC (A2 / 1)) in
  let IIrho := sIIrho imag (RtoC (0.25 * KpKs * (LRho_sq / M2))) (RtoC (- (1 + z1) ^ 2)) (RtoC ((1 + z2) ^ 2)) Y21 Y22 in
  let IIgam := sIIgam imag (RtoC KpKs) alpha3 X11 X12 in
  let IIdelk := Cplus (RtoC (2 * (GAM4s / 1 / 1))) (Cmult (Cmult (Cmult (RtoC 0.5) imag) (RtoC (C3 / 1))) (RtoC B0)) in
  Cdiv (Cmult (RtoC (apod z1 * apod z2)) (sNum GG EE HH FF (Cplus (Cplus IIrho IIgam) IIdelk))) (sDen AA1 BB1 AA2 BB2 EE FF).
Proof. reflexivity. Qed.

Local Open Scope C_scope.

Lemma Cinv_0 : Cinv (RtoC 0) = RtoC 0.
Proof. unfold Cinv, RtoC; cbn [fst snd]. apply injective_projections; cbn [fst snd]; unfold Rdiv; ring. Qed.

Lemma Cinv_mult_total (a b : C) : Cinv (a * b) = Cinv a * Cinv b.
Proof.
  destruct (Ceq_dec a (RtoC 0)) as [->|Ha]; [rewrite Cmult_0_l, Cinv_0; ring|].
  destruct (Ceq_dec b (RtoC 0)) as [->|Hb]; [rewrite Cmult_0_r, Cinv_0; ring|].
  field. split; assumption.
Qed.

Lemma Cdiv_scale_total (l x y : C) : l <> RtoC 0 -> Cdiv (l * x) (l * y) = Cdiv x y.
Proof.
  intros Hl. unfold Cdiv. rewrite Cinv_mult_total.
  replace (l * x * (/ l * / y)) with ((l * / l) * (x * / y)) by ring.
  replace (l * / l) with (RtoC 1) by (field; assumption). ring.
Qed.

Lemma hom_EE (J l w2 b6 c5 X11 X12 C9 a1 a2 : C) : l <> RtoC 0 -> X11 <> RtoC 0 -> X12 <> RtoC 0 ->
  sEE J (l * w2) (l * b6) c5 (l * X11) (l * X12) (l * C9) (l * a1) (l * a2) = l * sEE J w2 b6 c5 X11 X12 C9 a1 a2.
Proof. intros Hl H1 H2. unfold sEE. generalize (RtoC 0.25). intros q. field. repeat split; assumption. Qed.

Lemma hom_FF (J l w2 b6 c5 Y21 Y22 C10 a1 a2 : C) : l <> RtoC 0 -> Y21 <> RtoC 0 -> Y22 <> RtoC 0 ->
  sFF J (l * w2) (l * b6) c5 (l * Y21) (l * Y22) (l * C10) (l * a1) (l * a2) = l * sFF J w2 b6 c5 Y21 Y22 C10 a1 a2.
Proof. intros Hl H1 H2. unfold sFF. generalize (RtoC 0.25). intros q. field. repeat split; assumption. Qed.

Lemma hom_HH (J l s hl b0 k b3 b4 Y21 Y22 C10 a1 a2 : C) : l <> RtoC 0 -> Y21 <> RtoC 0 -> Y22 <> RtoC 0 ->
  sHH J (s * hl) b0 k b3 b4 (l * Y21) (l * Y22) (l * C10) (l * a1) (l * a2) = s * sHH J hl b0 k b3 b4 Y21 Y22 C10 a1 a2.
Proof. intros Hl H1 H2. unfold sHH. field. repeat split; assumption. Qed.

Lemma hom_IIrho (J l q b3s b4s Y21 Y22 : C) : l <> RtoC 0 -> Y21 <> RtoC 0 -> Y22 <> RtoC 0 ->
  sIIrho J (l * q) b3s b4s (l * Y21) (l * Y22) = sIIrho J q b3s b4s Y21 Y22.
Proof. intros Hl H1 H2. unfold sIIrho. field. repeat split; assumption. Qed.

Lemma Cconj_0 : Cconj (RtoC 0) = RtoC 0.
Proof. unfold Cconj, RtoC; cbn [fst snd]. apply injective_projections; cbn [fst snd]; ring. Qed.

Lemma sGG_0 (J k X11 X12 C9 a1 a2 : C) : sGG J k (RtoC 0) X11 X12 C9 a1 a2 = RtoC 0.
Proof. unfold sGG, Cdiv. rewrite Cconj_0. ring. Qed.
Lemma sIIgam_0 (J kk X11 X12 : C) : sIIgam J kk (RtoC 0) X11 X12 = RtoC 0.
Proof. unfold sIIgam, Cdiv. rewrite Cconj_0. ring. Qed.

(* ---- the core expressions on the real axis (all diffraction terms zero): small component computations with J = (0, 1) *)
Local Open Scope R_scope.
Lemma C_pair_eq' (a b c d : R) : a = c -> b = d -> (a, b) = ((c, d) : C).
Proof. intros -> ->. reflexivity. Qed.

Lemma sEE_axis (w c5 x c9 : R) : x <> 0 ->
  sEE (0, 1) (RtoC w) (RtoC 0) (RtoC c5) (RtoC x) (Cmult (RtoC (- x)) (0, 1)) (RtoC c9) (RtoC 0) (RtoC 0) =
  RtoC (0.25 * (- w + 2 * c5 * c9 * c9 / x)).
Proof.
  intros Hx. unfold sEE, Cdiv, Cinv, Cminus, Cplus, Copp, Cmult, RtoC; cbn [fst snd].
  apply C_pair_eq'; (unfold Q2R; cbn [Qnum Qden]); field; repeat split; try assumption; nra.
Qed.

Lemma sFF_axis (w c5 y c10 : R) : y <> 0 ->
  sFF (0, 1) (RtoC w) (RtoC 0) (RtoC c5) (RtoC y) (Cmult (RtoC (- y)) (0, 1)) (RtoC c10) (RtoC 0) (RtoC 0) =
  RtoC (0.25 * (- w + 2 * c5 * c10 * c10 / y)).
Proof.
  intros Hy. unfold sFF, Cdiv, Cinv, Cminus, Cplus, Copp, Cmult, RtoC; cbn [fst snd].
  apply C_pair_eq'; (unfold Q2R; cbn [Qnum Qden]); field; repeat split; try assumption; nra.
Qed.

Lemma sHH_axis (hl b0 k b3 b4 y c10 : R) : y <> 0 ->
  sHH (0, 1) (RtoC hl) (RtoC b0) (RtoC k) (RtoC b3) (RtoC b4) (RtoC y) (Cmult (RtoC (- y)) (0, 1)) (RtoC c10) (RtoC 0) (RtoC 0) =
  (0, hl * (b0 - k * c10 * (b3 - b4) / y)).
Proof.
  intros Hy. unfold sHH, Cdiv, Cinv, Cminus, Cplus, Copp, Cmult, RtoC; cbn [fst snd].
  apply C_pair_eq'; field; repeat split; try assumption; nra.
Qed.

Lemma sIIrho_axis (q b3s b4s y : R) : y <> 0 ->
  sIIrho (0, 1) (RtoC q) (RtoC b3s) (RtoC b4s) (RtoC y) (Cmult (RtoC (- y)) (0, 1)) = RtoC (q * (b3s - b4s) / y).
Proof.
  intros Hy. unfold sIIrho, Cdiv, Cinv, Cminus, Cplus, Copp, Cmult, RtoC; cbn [fst snd].
  apply C_pair_eq'; field; repeat split; try assumption; nra.
Qed.
