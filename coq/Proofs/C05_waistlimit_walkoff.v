(* C05 / C08 — large-waist limit of the generated coincidence closure with the walk-off length scaled like the waists: the limit is the
   full zero-diffraction closed form including the walk-off Gaussian (Proofs/C05_waistlimit.v keeps the walk-off fixed, which then
   vanishes in the limit).  Same proof, with n |-> s n. *)
From Coq Require Import Reals Lra Psatz QArith.
From Coquelicot Require Import Coquelicot.
From SpdVerif Require Import Base.Rx Base.CxPM Base.CxCont Model.PMParams Gen.PMIntegrand Proofs.C06_algebra Proofs.C06_swap Proofs.C06_defined
  Proofs.C05_closure Proofs.C05_limit Proofs.C05_waistlimit.
Local Open Scope R_scope.

Section WaistLimitW.
  Variables (apod : R -> R) (wx wy ss si dls dli cs ci ds di m nn psi_h ee ff z : R).
  Hypothesis Hss : 0 < ss.
  Hypothesis Hsi : 0 < si.
  Hypothesis Hwx : 0 <= wx.
  Hypothesis Hwy : 0 <= wy.

  (* the closure with all squared waists multiplied by lam (collinear coefficients: As = (-(Wx^2 + Ws^2)/4, -DEL2s), ...), times lam^2 *)
  Definition scaledW (s : R) : C :=
    Cmult (RtoC ((s * s) * (s * s)))
      (pm_closure apod 1 (- (s * s) * (wx + ss) / 4, - dls) (- (s * s) * (wx + si) / 4, - dli) (- (s * s) * (wy + ss) / 4, - dls)
                  (- (s * s) * (wy + si) / 4, - dli) cs ci ds di (- (s * s) * wx / 2, 0) (- (s * s) * wy / 2, 0) m (s * nn) (0, psi_h)
                  (RtoC 0) (RtoC 0) (RtoC 0) ee ff z).

  Definition plane_wave_valueW : C :=
    Cmult (RtoC (apod z * (4 / sqrt (Sig ss si wx * Sig ss si wy)) * exp (- (nn * nn * (ss + si) / Sig ss si wy) * ((1 + z) * (1 + z)))))
          (Cexp (0, psi_h + ee + ff * z)).

  (* the same in eps = 1 / lam *)
  Let b1 := - dls + (cs + ds * z).
  Let b3 := - dli + (ci + di * z).
  Let b8 := - (m * z).
  Definition A1eW (e : R) : C := (- (wx + ss) / 4, e * b1).
  Definition A3eW (e : R) : C := (- (wx + si) / 4, e * b3).
  Definition A2eW (e : R) : C := (- (wy + ss) / 4, e * b1).
  Definition A4eW (e : R) : C := (- (wy + si) / 4, e * b3).
  Definition A8eW (e : R) : C := (- wx / 2, e * b8).
  Definition A9eW (e : R) : C := (- wy / 2, e * b8).
  Let A6 : C := (0, nn * (1 + z)).
  Let A10 : C := (0, psi_h + ee + ff * z).
  Definition d1eW (e : R) : C := pm_det (A1eW e) (A3eW e) (A8eW e).
  Definition d2eW (e : R) : C := pm_det (A2eW e) (A4eW e) (A9eW e).
  Definition EeW (e : R) : C :=
    Cminus A10 (Cmult (Cmult (Cmult A6 A6) (Cminus (Cplus (A2eW e) (A4eW e)) (A9eW e))) (Cinv (d2eW e))).
  Definition GeW (e : R) : C :=
    Cmult (RtoC (apod z)) (Cmult (Cexp (EeW e)) (Cinv (Csqrt (Cmult (d1eW e) (d2eW e))))).

  Lemma d1e_neqW e : d1eW e <> RtoC 0.
  Proof.
    unfold d1eW. apply pm_det_nonzero; unfold A1eW, A3eW, A8eW; cbn [fst snd]; try lra.
    assert (0 < ss * si) by (apply Rmult_lt_0_compat; assumption). nra.
  Qed.
  Lemma d2e_neqW e : d2eW e <> RtoC 0.
  Proof.
    unfold d2eW. apply pm_det_nonzero; unfold A2eW, A4eW, A9eW; cbn [fst snd]; try lra.
    assert (0 < ss * si) by (apply Rmult_lt_0_compat; assumption). nra.
  Qed.

  Lemma scaled_eqW s : 0 < s -> scaledW s = GeW (/ (s * s)).
  Proof.
    intros Hs. set (lam := s * s). assert (Hl : 0 < lam) by (unfold lam; nra).
    unfold scaledW, pm_closure. fold lam. cbv zeta.
    set (e := / lam). assert (Hle : lam * e = 1) by (unfold e; field; lra).
    (* the coefficients are lam times the eps-coefficients *)
    assert (E1 : Cplus (- lam * (wx + ss) / 4, - dls) (0, (cs + ds * z) * 1 / 1) = Cmult (RtoC lam) (A1eW e)).
    { unfold A1eW, b1, Cplus, Cmult, RtoC; cbn [fst snd]. apply C_pair_eq; [field|]. replace (lam * (e * (- dls + (cs + ds * z)))) with ((lam * e) * (- dls + (cs + ds * z))) by ring. rewrite Hle. field. }
    assert (E3 : Cplus (- lam * (wx + si) / 4, - dli) (0, (ci + di * z) * 1 / 1) = Cmult (RtoC lam) (A3eW e)).
    { unfold A3eW, b3, Cplus, Cmult, RtoC; cbn [fst snd]. apply C_pair_eq; [field|]. replace (lam * (e * (- dli + (ci + di * z)))) with ((lam * e) * (- dli + (ci + di * z))) by ring. rewrite Hle. field. }
    assert (E2 : Cplus (- lam * (wy + ss) / 4, - dls) (0, (cs + ds * z) * 1 / 1) = Cmult (RtoC lam) (A2eW e)).
    { unfold A2eW, b1, Cplus, Cmult, RtoC; cbn [fst snd]. apply C_pair_eq; [field|]. replace (lam * (e * (- dls + (cs + ds * z)))) with ((lam * e) * (- dls + (cs + ds * z))) by ring. rewrite Hle. field. }
    assert (E4 : Cplus (- lam * (wy + si) / 4, - dli) (0, (ci + di * z) * 1 / 1) = Cmult (RtoC lam) (A4eW e)).
    { unfold A4eW, b3, Cplus, Cmult, RtoC; cbn [fst snd]. apply C_pair_eq; [field|]. replace (lam * (e * (- dli + (ci + di * z)))) with ((lam * e) * (- dli + (ci + di * z))) by ring. rewrite Hle. field. }
    assert (E8 : Cminus (- lam * wx / 2, 0) (0, m * z * 1 / 1) = Cmult (RtoC lam) (A8eW e)).
    { unfold A8eW, b8, Cminus, Cplus, Copp, Cmult, RtoC; cbn [fst snd]. apply C_pair_eq; [field|]. replace (lam * (e * - (m * z))) with ((lam * e) * - (m * z)) by ring. rewrite Hle. field. }
    assert (E9 : Cminus (- lam * wy / 2, 0) (0, m * z * 1 / 1) = Cmult (RtoC lam) (A9eW e)).
    { unfold A9eW, b8, Cminus, Cplus, Copp, Cmult, RtoC; cbn [fst snd]. apply C_pair_eq; [field|]. replace (lam * (e * - (m * z))) with ((lam * e) * - (m * z)) by ring. rewrite Hle. field. }
    assert (E6 : ((0, s * nn / 1 * (1 + z)) : C) = Cmult (RtoC s) A6).
    { unfold A6, Cmult, RtoC; cbn [fst snd]. apply C_pair_eq; field. }
    assert (E10 : Cplus (0, psi_h) (0, (ee + ff * z) / 1) = A10) by (unfold A10, Cplus; cbn [fst snd]; apply C_pair_eq; field).
    rewrite E1, E2, E3, E4, E8, E9, E6, E10.
    set (a1 := A1eW e). set (a2 := A2eW e). set (a3 := A3eW e). set (a4 := A4eW e). set (a8 := A8eW e). set (a9 := A9eW e).
    set (L := RtoC lam).
    assert (HL : L <> RtoC 0) by (apply RtoC_neq_0; lra).
    (* determinants scale by lam^2 *)
    assert (D1 : Cminus (Cmult (Cmult (RtoC 4) (Cmult L a1)) (Cmult L a3)) (Cmult (Cmult L a8) (Cmult L a8)) = Cmult (Cmult L L) (d1eW e)).
    { unfold d1eW, pm_det. fold a1 a3 a8. ring. }
    assert (D2 : Cminus (Cmult (Cmult (RtoC 4) (Cmult L a2)) (Cmult L a4)) (Cmult (Cmult L a9) (Cmult L a9)) = Cmult (Cmult L L) (d2eW e)).
    { unfold d2eW, pm_det. fold a2 a4 a9. ring. }
    pose proof (d1e_neqW e) as Hd1. pose proof (d2e_neqW e) as Hd2.
    (* exponent *)
    match goal with |- context [Cexp ?x] =>
      replace x with (pm_expo (Cmult L a1) (Cmult L a2) (Cmult L a3) (Cmult L a4) (RtoC 0) (Cmult (RtoC s) A6) (RtoC 0) (Cmult L a8) (Cmult L a9) A10)
    end.
    2:{ unfold pm_expo. replace (Cmult (RtoC 0) (RtoC 0)) with (RtoC 0); [reflexivity|].
        unfold Cmult, RtoC; cbn [fst snd]. apply C_pair_eq; ring. }
    assert (Ha1 : a1 <> RtoC 0) by (apply C_neq_0_of_re; unfold a1, A1eW; cbn [fst]; lra).
    assert (Ha2 : a2 <> RtoC 0) by (apply C_neq_0_of_re; unfold a2, A2eW; cbn [fst]; lra).
    rewrite pm_expo_collinear.
    2:{ apply Cmult_neq_0; assumption. }
    2:{ apply Cmult_neq_0; assumption. }
    2:{ unfold pm_det. rewrite D1. apply Cmult_neq_0; [apply Cmult_neq_0|]; assumption. }
    2:{ unfold pm_det. rewrite D2. apply Cmult_neq_0; [apply Cmult_neq_0|]; assumption. }
    unfold pm_det at 1. rewrite D1, D2.
    assert (EE : Cminus A10 (Cdiv (Cmult (Cmult (Cmult (RtoC s) A6) (Cmult (RtoC s) A6)) (Cminus (Cplus (Cmult L a2) (Cmult L a4)) (Cmult L a9))) (Cmult (Cmult L L) (d2eW e))) = EeW e).
    { unfold EeW. fold a2 a4 a9.
      assert (Ess : Cmult (RtoC s) (RtoC s) = L) by (unfold L, lam; rewrite RtoC_mult; reflexivity).
      replace (Cmult (Cmult (RtoC s) A6) (Cmult (RtoC s) A6)) with (Cmult L (Cmult A6 A6)) by (rewrite <- Ess; ring).
      field. split; assumption. }
    rewrite EE.
    (* denominator *)
    replace (Cmult (Cmult (Cmult L L) (d1eW e)) (Cmult (Cmult L L) (d2eW e)))
      with (Cmult (RtoC ((lam * lam) * (lam * lam))) (Cmult (d1eW e) (d2eW e))).
    2:{ unfold L. rewrite !RtoC_mult. ring. }
    rewrite Csqrt_scale by nra.
    unfold GeW.
    assert (Hsq : Csqrt (Cmult (d1eW e) (d2eW e)) <> RtoC 0) by (apply Csqrt_neq_0, Cmult_neq_0; assumption).
    rewrite RtoC_mult. fold L. field. split; assumption.
  Qed.

  (* ---- continuity of GeW at 0 *)
  Lemma cont_linW (a b : R) (x : R) : continuous (fun e : R => ((a, e * b) : C)) x.
  Proof.
    apply (continuous_Cpair (U := R_UniformSpace) (fun _ => a) (fun e => e * b)).
    - apply continuous_const.
    - apply (ex_derive_continuous (fun e : R => e * b)). auto_derive. exact I.
  Qed.

  Lemma cont_RtoC_id (x : R) : continuous (fun e : R => RtoC e) x.
  Proof. apply continuous_RtoC. Qed.

  Lemma cont_A1eW x : continuous A1eW x. Proof. apply cont_linW. Qed.
  Lemma cont_A2eW x : continuous A2eW x. Proof. apply cont_linW. Qed.
  Lemma cont_A3eW x : continuous A3eW x. Proof. apply cont_linW. Qed.
  Lemma cont_A4eW x : continuous A4eW x. Proof. apply cont_linW. Qed.
  Lemma cont_A8eW x : continuous A8eW x. Proof. apply cont_linW. Qed.
  Lemma cont_A9eW x : continuous A9eW x. Proof. apply cont_linW. Qed.

  Lemma cont_detW (f g h : R -> C) x :
    continuous f x -> continuous g x -> continuous h x -> continuous (fun e => pm_det (f e) (g e) (h e)) x.
  Proof.
    intros Hf Hg Hh. unfold pm_det.
    apply (cont_Cminus (fun e => Cmult (Cmult (RtoC 4) (f e)) (g e)) (fun e => Cmult (h e) (h e))).
    - apply (cont_Cmult (fun e => Cmult (RtoC 4) (f e)) g); [|assumption].
      apply (cont_Cmult (fun _ => RtoC 4) f); [apply cont_Cconst | assumption].
    - apply (cont_Cmult h h); assumption.
  Qed.

  Lemma cont_d1eW x : continuous d1eW x.
  Proof. apply (cont_detW A1eW A3eW A8eW); [apply cont_A1eW | apply cont_A3eW | apply cont_A8eW]. Qed.
  Lemma cont_d2eW x : continuous d2eW x.
  Proof. apply (cont_detW A2eW A4eW A9eW); [apply cont_A2eW | apply cont_A4eW | apply cont_A9eW]. Qed.

  Lemma cont_EeW x : continuous EeW x.
  Proof.
    unfold EeW.
    apply (cont_Cminus (fun _ => A10) (fun e => Cmult (Cmult (Cmult A6 A6) (Cminus (Cplus (A2eW e) (A4eW e)) (A9eW e))) (Cinv (d2eW e)))).
    - apply cont_Cconst.
    - apply (cont_Cmult (fun e => Cmult (Cmult A6 A6) (Cminus (Cplus (A2eW e) (A4eW e)) (A9eW e))) (fun e => Cinv (d2eW e))).
      + apply (cont_Cmult (fun _ => Cmult A6 A6) (fun e => Cminus (Cplus (A2eW e) (A4eW e)) (A9eW e))); [apply cont_Cconst|].
        apply (cont_Cminus (fun e => Cplus (A2eW e) (A4eW e)) A9eW); [|apply cont_A9eW].
        apply (cont_Cplus A2eW A4eW); [apply cont_A2eW | apply cont_A4eW].
      + apply (continuous_comp d2eW Cinv); [apply cont_d2eW | apply continuous_Cinv, d2e_neqW].
  Qed.

  Lemma d1e_0W : d1eW 0 = RtoC (Sig ss si wx / 4).
  Proof.
    unfold d1eW, pm_det, A1eW, A3eW, A8eW, Sig, Cminus, Cplus, Copp, Cmult, RtoC; cbn [fst snd]. apply C_pair_eq; field.
  Qed.
  Lemma d2e_0W : d2eW 0 = RtoC (Sig ss si wy / 4).
  Proof.
    unfold d2eW, pm_det, A2eW, A4eW, A9eW, Sig, Cminus, Cplus, Copp, Cmult, RtoC; cbn [fst snd]. apply C_pair_eq; field.
  Qed.

  Lemma P0_posW : 0 < Sig ss si wx * Sig ss si wy / 16.
  Proof.
    pose proof (Sig_pos ss si Hss Hsi wx Hwx). pose proof (Sig_pos ss si Hss Hsi wy Hwy). nra.
  Qed.

  Lemma P_0W : Cmult (d1eW 0) (d2eW 0) = RtoC (Sig ss si wx * Sig ss si wy / 16).
  Proof. rewrite d1e_0W, d2e_0W, <- RtoC_mult. f_equal. field. Qed.

  Lemma cont_GeW : continuous GeW 0.
  Proof.
    unfold GeW.
    apply (cont_Cmult (fun _ => RtoC (apod z)) (fun e => Cmult (Cexp (EeW e)) (Cinv (Csqrt (Cmult (d1eW e) (d2eW e)))))); [apply cont_Cconst|].
    apply (cont_Cmult (fun e => Cexp (EeW e)) (fun e => Cinv (Csqrt (Cmult (d1eW e) (d2eW e))))).
    - apply (continuous_comp EeW Cexp); [apply cont_EeW | apply continuous_Cexp].
    - apply (continuous_comp (fun e => Csqrt (Cmult (d1eW e) (d2eW e))) Cinv).
      + apply (continuous_comp (fun e => Cmult (d1eW e) (d2eW e)) Csqrt).
        * apply (cont_Cmult d1eW d2eW); [apply cont_d1eW | apply cont_d2eW].
        * rewrite P_0W. apply continuous_Csqrt_pos, P0_posW.
      + apply continuous_Cinv, Csqrt_neq_0, Cmult_neq_0; [apply d1e_neqW | apply d2e_neqW].
  Qed.

  Lemma Ge_0W : GeW 0 = plane_wave_valueW.
  Proof.
    unfold GeW, plane_wave_valueW.
    pose proof (Sig_pos ss si Hss Hsi wx Hwx) as H1. pose proof (Sig_pos ss si Hss Hsi wy Hwy) as H2.
    assert (E0 : EeW 0 = Cplus (RtoC (- (nn * nn * (ss + si) / Sig ss si wy) * ((1 + z) * (1 + z)))) (0, psi_h + ee + ff * z)).
    { unfold EeW. rewrite d2e_0W. unfold A10, A6, A2eW, A4eW, A9eW, Cminus, Cplus, Copp, Cinv, Cmult, RtoC; cbn [fst snd].
      apply C_pair_eq; field; lra. }
    rewrite E0, Cexp_plus, Cexp_real, P_0W, Csqrt_real_nonneg by (left; apply P0_posW).
    assert (Hsq : sqrt (Sig ss si wx * Sig ss si wy / 16) = sqrt (Sig ss si wx * Sig ss si wy) / 4).
    { replace (Sig ss si wx * Sig ss si wy / 16) with (Sig ss si wx * Sig ss si wy * (/ 4 * / 4)) by field.
      rewrite sqrt_mult by nra. rewrite sqrt_square by lra. field. }
    rewrite Hsq.
    assert (Hs0 : sqrt (Sig ss si wx * Sig ss si wy) <> 0) by (apply Rgt_not_eq, sqrt_lt_R0; nra).
    set (sq := sqrt _) in *. set (ex := exp _). set (ph := Cexp _). destruct ph as [pr pi].
    unfold Cinv, Cmult, RtoC; cbn [fst snd]. apply C_pair_eq; field; assumption.
  Qed.

  (* C05/C08: with the walk-off length scaled like the waists (fixed walk-off-to-waist ratio) the limit of the closure is the full
     zero-diffraction closed form INCLUDING walk-off:  s^4 closure(waists x s, n x s) -> apod (4/sqrt(Sx Sy)) exp(-a^2(1+z)^2) e^{i(psi0 + ff z)} *)
  Theorem waist_limitW : filterlim scaledW (Rbar_locally p_infty) (locally plane_wave_valueW).
  Proof.
    rewrite <- Ge_0W.
    apply (filterlim_ext_loc (fun s => GeW (/ (s * s)))).
    - exists 0. intros s Hs. symmetry. apply scaled_eqW. exact Hs.
    - apply (filterlim_comp _ _ _ (fun s : R => / (s * s)) GeW (Rbar_locally p_infty) (locally 0) (locally (GeW 0))).
      + apply (filterlim_comp _ _ _ (fun s : R => s * s) Rinv (Rbar_locally p_infty) (Rbar_locally p_infty) (locally 0)).
        * intros P [M HM]. exists (Rmax 1 M). intros s Hs. apply HM. pose proof (Rmax_l 1 M). pose proof (Rmax_r 1 M). nra.
        * apply (filterlim_Rbar_inv p_infty). discriminate.
      + apply cont_GeW.
  Qed.
End WaistLimitW.