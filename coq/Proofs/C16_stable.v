(* C16: converting the exported configuration again reproduces it (second round trip is stable), over the reals.
   Uses: round4 idempotent, angle normalisation is the identity on its range, -|z| = z for z <= 0, x*u/u = x. *)
From Coq Require Import Reals QArith Qreals Lra Lia ZArith String List Bool.
From SpdVerif Require Import Base.Rx Base.CfgNumOps Model.NumInst Spec.ConfigSpec Gen.ConfigTables Spec.ConfigUnits
  Model.ConfigTypes Model.Config Gen.ConfigConv Proofs.C16_round Proofs.C16_roundtrip.
Import ListNotations.
Local Open Scope R_scope.

Lemma nrem_euclid_R x m : nrem_euclid R_ops x m = rem_euclid x m.
Proof. reflexivity. Qed.

Lemma normalize_angle_deg x : 0 <= x < 360 -> normalize_angle R_ops (x * deg) = x * deg.
Proof.
  intros [H1 H2]. unfold normalize_angle. rewrite nrem_euclid_R, ntwo_pi_R. apply rem_euclid_id.
  unfold deg. pose proof PI_RGT_0. split; [nra | nra].
Qed.

Lemma normalize_signed_deg x : -180 < x <= 180 -> normalize_angle_signed R_ops (x * deg) = x * deg.
Proof.
  intros [H1 H2]. unfold normalize_angle_signed. rewrite nrem_euclid_R, ntwo_pi_R. cbn [nltb npi nsub R_ops].
  pose proof PI_RGT_0 as Hpi. unfold deg.
  destruct (Rle_dec 0 x) as [Hx | Hx].
  - rewrite rem_euclid_id by (split; nra).
    destruct (Rlt_dec PI (x * (PI / 180))); [exfalso; nra | reflexivity].
  - rewrite rem_euclid_shift by (try split; nra).
    destruct (Rlt_dec PI (x * (PI / 180) + 2 * PI)); [lra | exfalso; nra].
Qed.

Lemma div_nonpos x u : x <= 0 -> 0 < u -> x / u <= 0.
Proof. intros Hx Hu. unfold Rdiv. pose proof (Rinv_0_lt_compat u Hu). nra. Qed.

Lemma mul_div_cancel x u : u <> 0 -> x * u / u = x.
Proof. intros. field. assumption. Qed.

Lemma cfg_ext (a b : spdc_cfg R) :
  c_crystal a = c_crystal b -> c_pump a = c_pump b -> c_signal a = c_signal b -> c_idler a = c_idler b ->
  c_pp a = c_pp b -> c_deff a = c_deff b -> a = b.
Proof. destruct a, b; cbn; intros; subst; reflexivity. Qed.

Section Stable.
  Variable U : units R.
  Variable K : oracles R.
  Variable minpos : R.
  Variable rj : bool.     (* does the code reject an explicit period of 0? (the theorem holds either way) *)
  Variable rg : bool.     (* is the Gaussian apodization FWHM exported rounded? *)
  Variable rz : bool.     (* is the idler waist position exported rounded? (the theorem holds either way) *)

  (* the class of setups for which the statement holds: angles not within 0.5e-4 degrees of the wrap-around of their
     range (there the exported 360.0000 / -180.0000 re-imports as 0 / +180), waist positions stored as non-positive
     offsets, and -- when poling is on -- exported signal wavelength longer than the exported pump wavelength (otherwise
     compute_sign panics on a tree without the up-front wavelength check) and an exported period that did not round to 0 *)
  Definition beam_angles_ok (b : beam R) : Prop :=
    0 <= round4 (b_phi b / deg) < 360 /\ -180 < round4 (b_theta b / deg) <= 180.
  Definition reimportable (s : spdc R) : Prop :=
    u_milliw U <> 0 /\ u_volt U <> 0 /\
    beam_angles_ok (s_signal s) /\ beam_angles_ok (s_idler s) /\ s_zs s <= 0 /\ s_zi s <= 0 /\
    match s_pp s with
    | PolOff => True
    | PolOn period _ _ => 0 < round4 (period / micro) /\ round4 (b_wavelength (s_pump s) / nano) < round4 (b_wavelength (s_signal s) / nano)
    end.

  Lemma beam_reimport pol b wp cs : beam_angles_ok b ->
    exists b2, beam_of_cfg R_ops K pol (beam_spec b wp) cs = Ok b2 /\ b_pol b2 = pol /\
               b_phi b2 = round4 (b_phi b / deg) * deg /\ b_theta b2 = round4 (b_theta b / deg) * deg /\
               b_wavelength b2 = round4 (b_wavelength b / nano) * nano /\ b_waist b2 = round4 (b_waist b / micro) * micro.
  Proof.
    intros [Hphi Hth]. unfold beam_of_cfg, beam_spec. cbn [bc_theta_deg bc_theta_ext_deg bc_phi_deg bc_wavelength_nm bc_waist_um].
    eexists. split; [reflexivity |]. unfold set_angles, beam_new. cbn [b_pol b_phi b_theta b_wavelength b_waist nmul R_ops].
    rewrite u_deg_R, u_nano_R, u_micro_R.
    rewrite (normalize_angle_deg _ Hphi), (normalize_signed_deg _ Hth). repeat split; reflexivity.
  Qed.

  Lemma beam_spec_reimport b b2 wp :
    b_phi b2 = round4 (b_phi b / deg) * deg -> b_theta b2 = round4 (b_theta b / deg) * deg ->
    b_wavelength b2 = round4 (b_wavelength b / nano) * nano -> b_waist b2 = round4 (b_waist b / micro) * micro ->
    beam_spec b2 wp = beam_spec b wp.
  Proof.
    intros H1 H2 H3 H4. unfold beam_spec. rewrite H1, H2, H3, H4.
    pose proof deg_pos. pose proof nano_pos. pose proof micro_pos.
    rewrite !mul_div_cancel by lra. rewrite !round4_idempotent. reflexivity.
  Qed.

  Theorem stable_spec s : reimportable s ->
    exists s2, try_as_spdc_steps R_ops U K minpos rj (as_config_spec rz rg U s) = Ok (s2, []) /\
               as_config_spec rz rg U s2 = as_config_spec rz rg U s.
  Proof.
    intros (Hmw & Hv & Hsig & Hidl & Hzs & Hzi & Hpp).
    pose proof deg_pos as Hdeg. pose proof nano_pos as Hnano. pose proof micro_pos as Hmicro. pose proof pico_pos as Hpico.
    unfold Config.try_as_spdc_steps, signal_step.
    set (c1 := as_config_spec rz rg U s).
    destruct (beam_reimport (signal_polarization (cs_pm (cfg_cs0 R_ops c1))) (s_signal s) (round4 (s_zs s / micro)) (cfg_cs0 R_ops c1) Hsig)
      as (sig2 & Hsig2 & Hsp & Hsphi & Hsth & Hswl & Hsw).
    change (c_signal c1) with (beam_spec (s_signal s) (round4 (s_zs s / micro))).
    rewrite Hsig2. cbn [bind].
    (* poling *)
    assert (Hpol : exists pp2, poling_step R_ops K minpos rj c1 sig2 = Ok (pp2, []) /\
                   poling_spec rg pp2 = c_pp c1).
    { unfold poling_step, poling_of_cfg. subst c1. cbn [as_config_spec c_pp]. unfold poling_spec at 1 3.
      destruct (s_pp s) as [| period sg a].
      - exists PolOff. split; reflexivity.
      - destruct Hpp as [Hr0 Hlt].
        assert (Hnz : (rj && neqb R_ops (round4 (period / micro)) (n0 R_ops))%bool = false).
        { rewrite n0_R. cbn [neqb R_ops]. destruct (Req_EM_T (round4 (period / micro)) 0); [exfalso; lra | apply Bool.andb_false_r]. }
        rewrite Hnz. unfold compute_sign, signal_le_pump.
        cbn [cfg_pump as_config_spec c_pump pump_of_cfg set_angles beam_new b_wavelength pc_wavelength_nm nleb nmul R_ops].
        rewrite Hswl, u_nano_R.
        destruct (Rle_dec (round4 (b_wavelength (s_signal s) / nano) * nano) (round4 (b_wavelength (s_pump s) / nano) * nano)) as [Hle | Hnle];
          [exfalso; nra |].
        cbn [bind]. eexists. split; [reflexivity |].
        assert (Hr : 0 <= round4 (period / micro)) by lra.
        unfold poling_new, sign_mul, sign_of. cbn [nltb nneg nabs nmul R_ops]. rewrite u_micro_R, n0_R.
        rewrite (Rabs_pos_eq _ Hr).
        assert (Hap : forall a0, apod_spec rg (apod_of_cfg R_ops (apod_spec rg a0)) = apod_spec rg a0).
        { intros a0. destruct a0; cbn [apod_spec apod_of_cfg]; try reflexivity.
          cbn [nmul R_ops]. rewrite u_micro_R. rewrite mul_div_cancel by lra.
          destruct rg; [rewrite round4_idempotent |]; reflexivity. }
        set (z := o_dkz0 K sig2 _ _).
        destruct (Rlt_dec z 0); cbn [nneg R_ops].
        + destruct (Rlt_dec 0 (- round4 (period / micro) * micro)); [exfalso; nra |].
          cbn [poling_spec]. rewrite Hap.
          replace (- (- round4 (period / micro) * micro) / micro) with (round4 (period / micro)) by (field; lra).
          rewrite round4_idempotent. reflexivity.
        + destruct (Rlt_dec 0 (round4 (period / micro) * micro)).
          * cbn [poling_spec]. rewrite Hap.
            rewrite mul_div_cancel by lra. rewrite round4_idempotent. reflexivity.
          * exfalso; nra. }
    destruct Hpol as (pp2 & Hpp2 & Hppc). rewrite Hpp2. cbn [bind fst snd].
    unfold theta_step. subst c1. cbn [as_config_spec c_crystal cc_theta_deg is_auto bind].
    set (c1 := as_config_spec rz rg U s) in *.
    set (wi := if rz then round4 (s_zi s / micro) else s_zi s / micro).
    unfold idler_step. change (c_idler c1) with (Param (beam_spec (s_idler s) wi)). cbv iota.
    destruct (beam_reimport (idler_polarization (cs_pm (cfg_cs0 R_ops c1))) (s_idler s) wi (cfg_cs0 R_ops c1) Hidl)
      as (idl2 & Hidl2 & Hip & Hiphi & Hith & Hiwl & Hiw).
    rewrite Hidl2. cbn [bind fst snd].
    eexists. split; [reflexivity |].
    apply cfg_ext; unfold finish_spdc; cbn [as_config_spec c_crystal c_pump c_signal c_idler c_pp c_deff
      s_crystal s_signal s_idler s_pump s_bandwidth s_power s_threshold s_pp s_zs s_zi s_deff].
    - (* crystal *)
      subst c1. unfold cfg_cs0, crystal_of_cfg.
      cbn [as_config_spec c_crystal cc_kind cc_pm cc_phi_deg cc_theta_deg cc_length_um cc_temperature_c cc_counter
           cs_kind cs_pm cs_phi cs_theta cs_length cs_temperature cs_counter nmul nadd R_ops].
      rewrite u_deg_R, u_micro_R, kelvin_offset_R. unfold celsius_of_kelvin.
      rewrite !mul_div_cancel by lra.
      replace (round4 (cs_temperature (s_crystal s) - 27315 / 100) + 27315 / 100 - 27315 / 100)
        with (round4 (cs_temperature (s_crystal s) - 27315 / 100)) by ring.
      rewrite !round4_idempotent. reflexivity.
    - (* pump *)
      subst c1. unfold cfg_pump, pump_of_cfg, set_angles, beam_new.
      cbn [as_config_spec c_pump pc_wavelength_nm pc_waist_um pc_bandwidth_nm pc_power_mw pc_threshold b_wavelength b_waist nmul R_ops].
      rewrite u_nano_R, u_micro_R. rewrite !mul_div_cancel by (try lra; assumption). rewrite !round4_idempotent. reflexivity.
    - (* signal *)
      subst c1. unfold focus_step, explicit_focus.
      cbn [as_config_spec c_signal beam_spec bc_waist_pos_um fst nneg nabs nmul R_ops]. rewrite u_micro_R.
      assert (Hz : round4 (s_zs s / micro) <= 0).
      { apply round4_nonpos. apply div_nonpos; assumption. }
      rewrite (Rabs_left1 _ Hz), Ropp_involutive, mul_div_cancel by lra. rewrite round4_idempotent.
      apply beam_spec_reimport; assumption.
    - (* idler *)
      subst c1. unfold focus_step, explicit_focus, idler_focus_cfg.
      cbn [as_config_spec c_idler beam_spec bc_waist_pos_um fst nneg nabs nmul R_ops]. rewrite u_micro_R.
      assert (Hz0 : s_zi s / micro <= 0) by (apply div_nonpos; assumption).
      fold wi.
      assert (Hz : wi <= 0) by (unfold wi; destruct rz; [apply round4_nonpos |]; assumption).
      rewrite (Rabs_left1 _ Hz), Ropp_involutive, mul_div_cancel by lra.
      assert (Hwi : (if rz then round4 wi else wi) = wi) by (unfold wi; destruct rz; [apply round4_idempotent | reflexivity]).
      rewrite Hwi. f_equal. apply beam_spec_reimport; assumption.
    - (* poling *)
      exact Hppc.
    - (* deff *)
      subst c1. cbn [as_config_spec c_deff nmul ndiv R_ops]. rewrite u_pico_R.
      replace (round4 (s_deff s / (pico / u_volt U)) * pico / u_volt U / (pico / u_volt U))
        with (round4 (s_deff s / (pico / u_volt U))) by (field; split; [assumption | lra]).
      apply round4_idempotent.
  Qed.

  Theorem stable s : rz = export_rounds_idler_waist_position -> rg = export_rounds_gaussian_fwhm -> reimportable s ->
    exists s2, try_as_spdc_steps R_ops U K minpos rj (as_config R_ops U s) = Ok (s2, []) /\
               as_config R_ops U s2 = as_config R_ops U s.
  Proof.
    intros Hrz Hrg Hre. destruct (stable_spec s Hre) as (s2 & H1 & H2). exists s2.
    rewrite !as_config_matches_spec, <- Hrz, <- Hrg. auto.
  Qed.
End Stable.

Arguments reimportable U s : clear implicits.

(* non-vacuity: a concrete re-importable setup *)
Definition example_units : units R := {| u_milliw := 1; u_volt := 1000 |}.
Definition example_setup : spdc R :=
  {| s_crystal := {| cs_kind := "KTP"; cs_pm := Type2_e_eo; cs_phi := 0; cs_theta := 0; cs_length := 1; cs_temperature := 300; cs_counter := false |};
     s_signal := {| b_pol := Extraordinary; b_phi := 0; b_theta := 0; b_wavelength := 1; b_waist := 1 |};
     s_idler := {| b_pol := Ordinary; b_phi := 0; b_theta := 0; b_wavelength := 1; b_waist := 1 |};
     s_pump := {| b_pol := Extraordinary; b_phi := 0; b_theta := 0; b_wavelength := 1; b_waist := 1 |};
     s_bandwidth := 1; s_power := 1; s_threshold := 1; s_pp := PolOff; s_zs := 0; s_zi := 0; s_deff := 1 |}.

Lemma reimportable_example : reimportable example_units example_setup.
Proof.
  unfold reimportable, beam_angles_ok, example_units, example_setup.
  cbn [u_milliw u_volt s_signal s_idler s_zs s_zi s_pp b_phi b_theta].
  replace (0 / deg) with 0 by (unfold Rdiv; ring). rewrite round4_0.
  repeat split; lra.
Qed.
