(* C06 — from the integrand to the joint spectrum, grid sums and rates (generated definitions of Gen/PMIntegrand.v). *)
From Coq Require Import Reals Lra List Bool FunctionalExtensionality.
From Coquelicot Require Import Coquelicot.
From SpdVerif Require Import Base.Rx Base.CxPM Model.PMParams Gen.PMIntegrand Proofs.C06_algebra Proofs.C06_swap Proofs.C06_defined.
Import ListNotations.
Local Open Scope R_scope.

(* ---- pump envelope, support box, normalisation are symmetric *)
Lemma sw_pump_spectral_amplitude p w : pm_pump_spectral_amplitude (pm_swap p) w = pm_pump_spectral_amplitude p w.
Proof. reflexivity. Qed.

Lemma sw_alpha p :
  pm_pump_spectral_amplitude (pm_swap p) (p_omega_s (pm_swap p) + p_omega_i (pm_swap p)) =
  pm_pump_spectral_amplitude p (p_omega_s p + p_omega_i p).
Proof.
  rewrite sw_pump_spectral_amplitude. cbn [pm_swap p_omega_s p_omega_i]. f_equal. ring.
Qed.

Lemma sw_invalid_frequencies p : pm_invalid_frequencies (pm_swap p) = pm_invalid_frequencies p.
Proof.
  unfold pm_invalid_frequencies. cbn [pm_swap p_omega_s p_omega_i p_omega_p0].
  rewrite (Rabs_minus_sym (p_omega_i p) (p_omega_s p)).
  destruct (Rle_dec (p_omega_s p) 0), (Rle_dec (p_omega_i p) 0), (Rgt_dec (p_omega_s p) (p_omega_p0 p)),
    (Rgt_dec (p_omega_i p) (p_omega_p0 p)), (Rgt_dec (Rabs (p_omega_s p - p_omega_i p)) (0.75 * p_omega_p0 p)); reflexivity.
Qed.

Lemma sw_common_norm p : pm_common_norm (pm_swap p) = pm_common_norm p.
Proof.
  unfold pm_common_norm.
  cbn [pm_swap p_pp_on p_wpx p_wpy p_deff p_L p_omega_s p_omega_i p_n_s p_n_i p_power p_lambda_p p_bw].
  rewrite (Rmult_comm (p_omega_i p) (p_omega_s p)), (Rmult_comm (p_n_i p) (p_n_s p)). reflexivity.
Qed.

Lemma sw_jsi_normalization p : pm_jsi_normalization (pm_swap p) = pm_jsi_normalization p.
Proof.
  unfold pm_jsi_normalization. rewrite sw_common_norm.
  cbn [pm_swap p_theta_s_e p_theta_i_e p_wsx p_wsy p_wix p_wiy]. ring.
Qed.

(* ---- quadrature: ANY functional Q of the integrand (Simpson, adaptive, Gauss-Kronrod, ... all are functions of the integrand) *)
Section AnyQuadrature.
  Variable Q : (R -> C) -> R -> R -> C.

  Lemma sw_fiber_coupling p : pm_physical p -> pm_fiber_coupling Q (pm_swap p) = pm_fiber_coupling Q p.
  Proof.
    intros H. unfold pm_fiber_coupling. do 2 f_equal.
    apply functional_extensionality. intro z. apply integrand_exchange_physical, H.
  Qed.

  Lemma sw_jsa_raw p : pm_physical p -> pm_jsa_raw Q (pm_swap p) = pm_jsa_raw Q p.
  Proof.
    intros H. unfold pm_jsa_raw. rewrite sw_invalid_frequencies, sw_alpha, sw_fiber_coupling by assumption.
    cbn [pm_swap p_thr]. reflexivity.
  Qed.

  (* C06 clause 2: JointSpectrum::jsa of the exchanged setup at (omega_i, omega_s) = jsa of the setup at (omega_s, omega_i),
     as complex numbers (hence in magnitude and in phase) *)
  Theorem jsa_exchange p : pm_physical p -> pm_jsa Q (pm_swap p) = pm_jsa Q p.
  Proof.
    intros H. unfold pm_jsa. rewrite sw_jsa_raw, sw_jsi_normalization by assumption. reflexivity.
  Qed.

  Corollary jsa_exchange_modulus p : pm_physical p -> Cmod (pm_jsa Q (pm_swap p)) = Cmod (pm_jsa Q p).
  Proof. intros H. rewrite jsa_exchange by assumption. reflexivity. Qed.

  Theorem jsi_exchange p : pm_physical p -> pm_jsi Q (pm_swap p) = pm_jsi Q p.
  Proof.
    intros H. unfold pm_jsi. rewrite sw_jsa_raw, sw_jsi_normalization by assumption. reflexivity.
  Qed.

  (* ---- grids and rates.  S: scalars of the setup per frequency pair; Ssw: scalars of the exchanged Rust setup per frequency pair.
     [exchange_tie] is what the harness checks bit-for-bit on every run (kind "pt": p_sw = pm_swap p). *)
  Variable S Ssw : R -> R -> pm_params.
  Definition exchange_tie : Prop := forall ws wi, Ssw wi ws = pm_swap (S ws wi).
  Definition transpose (pts : list (R * R)) : list (R * R) := map (fun x => (snd x, fst x)) pts.

  Lemma grid_sum_ext (f g : R -> R -> R) pts :
    (forall x, In x pts -> f (fst x) (snd x) = g (fst x) (snd x)) -> pm_grid_sum f pts = pm_grid_sum g pts.
  Proof.
    unfold pm_grid_sum. induction pts as [|x l IH]; intros H; cbn [map fold_right]; [reflexivity|].
    rewrite (H x (or_introl eq_refl)), IH; [reflexivity|]. intros y Hy. apply H. right; exact Hy.
  Qed.

  Lemma grid_sum_transpose (f : R -> R -> R) pts : pm_grid_sum f (transpose pts) = pm_grid_sum (fun a b => f b a) pts.
  Proof.
    unfold pm_grid_sum, transpose. rewrite map_map. reflexivity.
  Qed.

  (* the JSI summed over a grid = the exchanged setup's JSI summed over the transposed grid *)
  Theorem jsi_grid_sum_exchange pts dw2 :
    exchange_tie -> (forall x, In x pts -> pm_physical (S (fst x) (snd x))) ->
    pm_grid_sum (fun ws wi => pm_jsi Q (Ssw ws wi) * dw2) (transpose pts) =
    pm_grid_sum (fun ws wi => pm_jsi Q (S ws wi) * dw2) pts.
  Proof.
    intros Ht Hp. rewrite grid_sum_transpose. apply grid_sum_ext. intros x Hx. cbn beta.
    rewrite Ht, jsi_exchange by (apply Hp, Hx). reflexivity.
  Qed.

  (* get_counts_correction is NOT exchange symmetric: it contains the signal's group index (and the pump's), not the idler's.
     Exactly: *)
  Lemma counts_correction_exchange p :
    p_lambda_p p <> 0 -> p_n_s0 p <> 0 -> p_n_i0 p <> 0 -> p_n_p0 p <> 0 ->
    pm_counts_correction (pm_swap p) * p_ng_s p = pm_counts_correction p * p_ng_i p.
  Proof.
    intros. unfold pm_counts_correction.
    cbn [pm_swap p_lambda_i p_lambda_s p_ng_s p_ng_p p_lambda_p p_n_s0 p_n_i0 p_n_p0]. field. repeat split; assumption.
  Qed.

  Lemma counts_correction_exchange_eq p :
    p_ng_s p = p_ng_i p -> pm_counts_correction (pm_swap p) = pm_counts_correction p.
  Proof.
    intros E. unfold pm_counts_correction.
    cbn [pm_swap p_lambda_i p_lambda_s p_ng_s p_ng_p p_lambda_p p_n_s0 p_n_i0 p_n_p0]. rewrite E.
    rewrite (Rmult_comm (p_lambda_s p) (p_lambda_i p)).
    replace (p_lambda_p p * p_n_i0 p * p_n_s0 p) with (p_lambda_p p * p_n_s0 p * p_n_i0 p) by ring. reflexivity.
  Qed.

  (* C06 clause 3 (coincidence rate): the rate of the exchanged setup over the transposed grid equals the rate of the setup
     times ng_i / ng_s;  it is invariant exactly when the correction factor is (e.g. equal group indices). *)
  Theorem counts_coincidences_exchange p0 pts dw2 :
    exchange_tie -> (forall x, In x pts -> pm_physical (S (fst x) (snd x))) ->
    pm_counts_correction (pm_swap p0) = pm_counts_correction p0 ->
    pm_counts_coincidences Q Ssw (pm_swap p0) (transpose pts) dw2 = pm_counts_coincidences Q S p0 pts dw2.
  Proof.
    intros Ht Hp Hc. unfold pm_counts_coincidences. rewrite Hc, jsi_grid_sum_exchange by assumption. reflexivity.
  Qed.

  Theorem counts_coincidences_exchange_ratio p0 pts dw2 :
    exchange_tie -> (forall x, In x pts -> pm_physical (S (fst x) (snd x))) ->
    p_lambda_p p0 <> 0 -> p_n_s0 p0 <> 0 -> p_n_i0 p0 <> 0 -> p_n_p0 p0 <> 0 ->
    pm_counts_coincidences Q Ssw (pm_swap p0) (transpose pts) dw2 * p_ng_s p0 =
    pm_counts_coincidences Q S p0 pts dw2 * p_ng_i p0.
  Proof.
    intros Ht Hp H1 H2 H3 H4. unfold pm_counts_coincidences. rewrite jsi_grid_sum_exchange by assumption.
    pose proof (counts_correction_exchange p0 H1 H2 H3 H4) as E.
    set (G := pm_grid_sum _ _). replace (pm_counts_correction (pm_swap p0) * G * p_ng_s p0)
      with (pm_counts_correction (pm_swap p0) * p_ng_s p0 * G) by ring. rewrite E. ring.
  Qed.

  (* idler singles: spectrum and rate are computed through the exchanged setup (jsis = singles JSI as a function of the scalars) *)
  Variable jsis : pm_params -> R.

  Theorem singles_idler_spectrum_structural pts :
    pm_jsi_singles_idler_range jsis Ssw pts = map (fun x => jsis (Ssw (fst x) (snd x))) (transpose pts).
  Proof. unfold pm_jsi_singles_idler_range, transpose. rewrite map_map. reflexivity. Qed.

  Theorem singles_idler_rate_exchange p0 pts dw2 :
    pm_counts_correction (pm_swap p0) = pm_counts_correction p0 ->
    pm_counts_singles_idler jsis Ssw p0 pts dw2 = pm_counts_singles_signal jsis Ssw (pm_swap p0) (transpose pts) dw2.
  Proof.
    intros Hc. unfold pm_counts_singles_idler, pm_counts_singles_signal. rewrite Hc, grid_sum_transpose. reflexivity.
  Qed.

  Theorem singles_idler_rate_exchange_ratio p0 pts dw2 :
    p_lambda_p p0 <> 0 -> p_n_s0 p0 <> 0 -> p_n_i0 p0 <> 0 -> p_n_p0 p0 <> 0 ->
    pm_counts_singles_idler jsis Ssw p0 pts dw2 * p_ng_i p0 =
    pm_counts_singles_signal jsis Ssw (pm_swap p0) (transpose pts) dw2 * p_ng_s p0.
  Proof.
    intros H1 H2 H3 H4. unfold pm_counts_singles_idler, pm_counts_singles_signal. rewrite grid_sum_transpose.
    pose proof (counts_correction_exchange p0 H1 H2 H3 H4) as E. set (G := pm_grid_sum _ _).
    replace (pm_counts_correction (pm_swap p0) * G * p_ng_s p0) with (pm_counts_correction (pm_swap p0) * p_ng_s p0 * G) by ring.
    rewrite E. ring.
  Qed.
End AnyQuadrature.
