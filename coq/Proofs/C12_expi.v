(* C12 — composite Simpson on amp * exp(i k x): the textbook error bound |b-a| h^4 k^4 |amp| / 180, proved for every
   interval, every k <> 0, every complex amplitude and every even number of divisions >= 2 (hence for every accepted divs
   of the translated entry point).  Route: closed form of one panel on cos/sin, the scalar inequality
   |t (4 + 2 cos t)/3 - 2 sin t| <= |t|^5/90 (three integrations of a sign condition), triangle inequality over panels. *)
From Coq Require Import Reals QArith ZArith List Bool Lra Lia.
From Coquelicot Require Import Coquelicot.
From SpdVerif Require Import Base.NumOps Gen.Integration Model.Quadrature Proofs.C12_base Proofs.C12_simpson Proofs.C12_rule.
Import ListNotations.
Local Open Scope R_scope.

(* a function vanishing at 0 with non-negative derivative on [0,T] is non-negative there *)
Lemma nonneg_from_deriv : forall (f df : R -> R) (T : R),
  (forall x, 0 <= x <= T -> is_derive f x (df x)) -> (forall x, 0 <= x <= T -> 0 <= df x) -> f 0 = 0 ->
  forall t, 0 <= t <= T -> 0 <= f t.
Proof.
  intros f df T Hd Hp H0 t Ht.
  destruct (Req_dec t 0) as [->|Hne]; [lra|].
  destruct (MVT_gen f 0 t df) as [c [Hc Heq]].
  - intros x Hx. rewrite Rmin_left, Rmax_right in Hx by lra. apply Hd. lra.
  - intros x Hx. rewrite Rmin_left, Rmax_right in Hx by lra.
    apply continuity_pt_filterlim. apply (ex_derive_continuous f x). exists (df x). apply Hd. lra.
  - rewrite Rmin_left, Rmax_right in Hc by lra. rewrite H0 in Heq.
    assert (0 <= df c) by (apply Hp; lra). nra.
Qed.

Definition psi (t : R) : R := t * (4 + 2 * cos t) / 3 - 2 * sin t.

Lemma psi_d1 x : is_derive psi x ((4 - 4 * cos x - 2 * x * sin x) / 3).
Proof. unfold psi. auto_derive; [trivial | field]. Qed.
Lemma psi_d2 x : is_derive (fun t => (4 - 4 * cos t - 2 * t * sin t) / 3) x ((2 * sin x - 2 * x * cos x) / 3).
Proof. auto_derive; [trivial | field]. Qed.
Lemma psi_d3 x : is_derive (fun t => (2 * sin t - 2 * t * cos t) / 3) x (2 * x * sin x / 3).
Proof. auto_derive; [trivial | field]. Qed.

Lemma psi_nonneg_pi : forall t, 0 <= t <= PI -> 0 <= psi t.
Proof.
  intros t Ht.
  assert (H3 : forall x, 0 <= x <= PI -> 0 <= 2 * x * sin x / 3).
  { intros x Hx. assert (0 <= sin x) by (apply sin_ge_0; lra). nra. }
  assert (H2 : forall x, 0 <= x <= PI -> 0 <= (2 * sin x - 2 * x * cos x) / 3).
  { apply (nonneg_from_deriv _ (fun x => 2 * x * sin x / 3) PI); [intros; apply psi_d3 | exact H3 |].
    rewrite sin_0, cos_0. lra. }
  assert (H1 : forall x, 0 <= x <= PI -> 0 <= (4 - 4 * cos x - 2 * x * sin x) / 3).
  { apply (nonneg_from_deriv _ (fun x => (2 * sin x - 2 * x * cos x) / 3) PI); [intros; apply psi_d2 | exact H2 |].
    rewrite sin_0, cos_0. lra. }
  apply (nonneg_from_deriv psi (fun x => (4 - 4 * cos x - 2 * x * sin x) / 3) PI); [intros; apply psi_d1 | exact H1 | | exact Ht].
  unfold psi. rewrite sin_0, cos_0. lra.
Qed.

Lemma psi_nonneg : forall t, 0 <= t -> 0 <= psi t.
Proof.
  intros t Ht. destruct (Rle_dec t PI) as [H|H]; [apply psi_nonneg_pi; lra|].
  assert (3 < PI) by (pose proof PI2_3_2; lra).
  unfold psi. pose proof (COS_bound t). pose proof (SIN_bound t). nra.
Qed.

Definition Dfun (t : R) : R := t ^ 5 / 90 - psi t.
Lemma D_d1 x : is_derive Dfun x (x ^ 4 / 18 - (4 - 4 * cos x - 2 * x * sin x) / 3).
Proof. unfold Dfun, psi. auto_derive; [trivial | field]. Qed.
Lemma D_d2 x : is_derive (fun t => t ^ 4 / 18 - (4 - 4 * cos t - 2 * t * sin t) / 3) x (2 * x ^ 3 / 9 - (2 * sin x - 2 * x * cos x) / 3).
Proof. auto_derive; [trivial | field]. Qed.
Lemma D_d3 x : is_derive (fun t => 2 * t ^ 3 / 9 - (2 * sin t - 2 * t * cos t) / 3) x (2 * x / 3 * (x - sin x)).
Proof. auto_derive; [trivial | field]. Qed.

Lemma psi_upper : forall t, 0 <= t -> psi t <= t ^ 5 / 90.
Proof.
  intros t Ht.
  assert (H3 : forall x, 0 <= x <= t -> 0 <= 2 * x / 3 * (x - sin x)).
  { intros x Hx. destruct (Req_dec x 0) as [->|Hn]; [rewrite sin_0; lra|].
    assert (sin x < x) by (apply sin_lt_x; lra). nra. }
  assert (H2 : forall x, 0 <= x <= t -> 0 <= 2 * x ^ 3 / 9 - (2 * sin x - 2 * x * cos x) / 3).
  { apply (nonneg_from_deriv _ (fun x => 2 * x / 3 * (x - sin x)) t); [intros; apply D_d3 | exact H3 |].
    rewrite sin_0, cos_0. lra. }
  assert (H1 : forall x, 0 <= x <= t -> 0 <= x ^ 4 / 18 - (4 - 4 * cos x - 2 * x * sin x) / 3).
  { apply (nonneg_from_deriv _ (fun x => 2 * x ^ 3 / 9 - (2 * sin x - 2 * x * cos x) / 3) t); [intros; apply D_d2 | exact H2 |].
    rewrite sin_0, cos_0. lra. }
  assert (H0 : 0 <= Dfun t).
  { apply (nonneg_from_deriv Dfun (fun x => x ^ 4 / 18 - (4 - 4 * cos x - 2 * x * sin x) / 3) t); [intros; apply D_d1 | exact H1 | | lra].
    unfold Dfun, psi. rewrite sin_0, cos_0. lra. }
  unfold Dfun in H0. lra.
Qed.

Lemma psi_odd : forall t, psi (- t) = - psi t.
Proof. intros t. unfold psi. rewrite cos_neg, sin_neg. field. Qed.

Lemma psi_abs : forall t, Rabs (psi t) <= Rabs t ^ 5 / 90.
Proof.
  intros t. destruct (Rle_dec 0 t) as [H|H].
  - rewrite (Rabs_right t) by lra. rewrite Rabs_right by (apply Rle_ge, psi_nonneg; exact H). apply psi_upper; exact H.
  - assert (Ht : 0 <= - t) by lra. rewrite (Rabs_left t) by lra.
    replace (psi t) with (- psi (- t)) by (rewrite psi_odd; ring). rewrite Rabs_Ropp.
    rewrite Rabs_right by (apply Rle_ge, psi_nonneg; exact Ht). apply psi_upper; exact Ht.
Qed.

(* ------------------------------------------------------------------ one panel, real and imaginary part *)
Lemma panel_cos : forall (k c h : R), k <> 0 ->
  h / 3 * (cos (k * (c - h)) + 4 * cos (k * c) + cos (k * (c + h))) - (sin (k * (c + h)) - sin (k * (c - h))) / k =
  cos (k * c) * (psi (k * h) / k).
Proof.
  intros k c h Hk. unfold psi.
  replace (k * (c - h)) with (k * c - k * h) by ring. replace (k * (c + h)) with (k * c + k * h) by ring.
  rewrite cos_minus, cos_plus, sin_minus, sin_plus. field. exact Hk.
Qed.

Lemma panel_sin : forall (k c h : R), k <> 0 ->
  h / 3 * (sin (k * (c - h)) + 4 * sin (k * c) + sin (k * (c + h))) - (cos (k * (c - h)) - cos (k * (c + h))) / k =
  sin (k * c) * (psi (k * h) / k).
Proof.
  intros k c h Hk. unfold psi.
  replace (k * (c - h)) with (k * c - k * h) by ring. replace (k * (c + h)) with (k * c + k * h) by ring.
  rewrite cos_minus, cos_plus, sin_minus, sin_plus. field. exact Hk.
Qed.

(* ------------------------------------------------------------------ the integrand and its integral *)
Definition expi (k : R) (x : R) : C := (cos (k * x), sin (k * x)).
Definition expi_int (k a b : R) : C := ((sin (k * b) - sin (k * a)) / k, (cos (k * a) - cos (k * b)) / k).

Lemma expi_int_is_RInt : forall k a b : R, k <> 0 ->
  is_RInt (fun x => fst (expi k x)) a b (fst (expi_int k a b)) /\
  is_RInt (fun x => snd (expi k x)) a b (snd (expi_int k a b)).
Proof.
  intros k a b Hk. unfold expi, expi_int. cbn [fst snd]. split.
  - replace ((sin (k * b) - sin (k * a)) / k) with (minus (sin (k * b) / k) (sin (k * a) / k)) by (unfold minus, plus, opp; cbn; field; exact Hk).
    apply (is_RInt_derive (fun x => sin (k * x) / k) (fun x => cos (k * x))).
    + intros x _. auto_derive; [trivial | field; exact Hk].
    + intros x _. apply (ex_derive_continuous (fun x => cos (k * x)) x). auto_derive. trivial.
  - replace ((cos (k * a) - cos (k * b)) / k) with (minus (- cos (k * b) / k) (- cos (k * a) / k)) by (unfold minus, plus, opp; cbn; field; exact Hk).
    apply (is_RInt_derive (fun x => - cos (k * x) / k) (fun x => sin (k * x))).
    + intros x _. auto_derive; [trivial | field; exact Hk].
    + intros x _. apply (ex_derive_continuous (fun x => sin (k * x)) x). auto_derive. trivial.
Qed.

(* ------------------------------------------------------------------ composite rule: error = (psi(kh)/k) * sum over panel midpoints *)
Lemma ssum_cos_panels : forall (k a h : R) (m : nat), k <> 0 -> (0 < m)%nat ->
  h / 3 * ssum (fun i => cos (k * (a + IZR i * h))) (2 * Z.of_nat m) - (sin (k * (a + IZR (2 * Z.of_nat m) * h)) - sin (k * a)) / k =
  psi (k * h) / k * rsum (map (fun j => cos (k * (a + IZR (2 * j + 1) * h))) (zseq 0 m)).
Proof.
  intros k a h m Hk Hm. rewrite ssum_panels by exact Hm. rewrite !rsum_scal.
  set (F := fun j : Z => sin (k * (a + IZR (2 * j) * h)) / k).
  replace ((sin (k * (a + IZR (2 * Z.of_nat m) * h)) - sin (k * a)) / k) with (F (Z.of_nat m) - F 0%Z).
  2:{ unfold F. change (2 * 0)%Z with 0%Z. replace (a + 0 * h) with a by ring. field. exact Hk. }
  rewrite <- (rsum_telescope F m). rewrite <- rsum_minus. apply rsum_ext. intros j _. unfold panel, F.
  pose proof (panel_cos k (a + IZR (2 * j + 1) * h) h Hk) as P.
  replace (a + IZR (2 * j + 1) * h - h) with (a + IZR (2 * j) * h) in P by (rewrite plus_IZR; ring).
  replace (a + IZR (2 * j + 1) * h + h) with (a + IZR (2 * j + 2) * h) in P by (rewrite !plus_IZR; ring).
  replace (2 * (j + 1))%Z with (2 * j + 2)%Z by lia.
  transitivity (cos (k * (a + IZR (2 * j + 1) * h)) * (psi (k * h) / k)); [|ring].
  rewrite <- P. field. exact Hk.
Qed.

Lemma ssum_sin_panels : forall (k a h : R) (m : nat), k <> 0 -> (0 < m)%nat ->
  h / 3 * ssum (fun i => sin (k * (a + IZR i * h))) (2 * Z.of_nat m) - (cos (k * a) - cos (k * (a + IZR (2 * Z.of_nat m) * h))) / k =
  psi (k * h) / k * rsum (map (fun j => sin (k * (a + IZR (2 * j + 1) * h))) (zseq 0 m)).
Proof.
  intros k a h m Hk Hm. rewrite ssum_panels by exact Hm. rewrite !rsum_scal.
  set (F := fun j : Z => - cos (k * (a + IZR (2 * j) * h)) / k).
  replace ((cos (k * a) - cos (k * (a + IZR (2 * Z.of_nat m) * h))) / k) with (F (Z.of_nat m) - F 0%Z).
  2:{ unfold F. change (2 * 0)%Z with 0%Z. replace (a + 0 * h) with a by ring. field. exact Hk. }
  rewrite <- (rsum_telescope F m). rewrite <- rsum_minus. apply rsum_ext. intros j _. unfold panel, F.
  pose proof (panel_sin k (a + IZR (2 * j + 1) * h) h Hk) as P.
  replace (a + IZR (2 * j + 1) * h - h) with (a + IZR (2 * j) * h) in P by (rewrite plus_IZR; ring).
  replace (a + IZR (2 * j + 1) * h + h) with (a + IZR (2 * j + 2) * h) in P by (rewrite !plus_IZR; ring).
  replace (2 * (j + 1))%Z with (2 * j + 2)%Z by lia.
  transitivity (sin (k * (a + IZR (2 * j + 1) * h)) * (psi (k * h) / k)); [|ring].
  rewrite <- P. field. exact Hk.
Qed.

Lemma cmod_unit_sum : forall (g : Z -> R) (l : list Z),
  Cmod (rsum (map (fun j => cos (g j)) l), rsum (map (fun j => sin (g j)) l)) <= INR (length l).
Proof.
  intros g; induction l as [|j l IH]; cbn [map rsum length].
  - change (0, 0) with (RtoC 0). rewrite Cmod_0. cbn. lra.
  - replace (cos (g j) + rsum (map (fun j0 => cos (g j0)) l), sin (g j) + rsum (map (fun j0 => sin (g j0)) l))
      with (Cplus (cos (g j), sin (g j)) (rsum (map (fun j0 => cos (g j0)) l), rsum (map (fun j0 => sin (g j0)) l))) by reflexivity.
    eapply Rle_trans; [apply Cmod_triangle|].
    assert (H1 : Cmod (cos (g j), sin (g j)) = 1).
    { unfold Cmod. cbn [fst snd]. replace (cos (g j) ^ 2 + sin (g j) ^ 2) with 1; [apply sqrt_1|].
      pose proof (sin2_cos2 (g j)) as H. unfold Rsqr in H. lra. }
    rewrite H1. rewrite S_INR. lra.
Qed.

(* the rule with n = 2m divisions on [a,b] applied to exp(ikx) *)
Theorem simpson_rule_n_expi : forall n (a b k : R), (2 <= n)%Z -> Z.even n = true -> k <> 0 ->
  Cmod (Cminus (apply_rule Rops (simpson_rule_n Rops a b n) (expi k)) (expi_int k a b))
    <= Rabs (b - a) * Rabs ((b - a) / IZR n) ^ 4 * Rabs k ^ 4 / 180.
Proof.
  intros n a b k Hn He Hk.
  destruct (Z.even_spec n) as [Hex _]. destruct (Hex He) as [m' Hm'].
  set (m := Z.to_nat m'). assert (Hm : n = (2 * Z.of_nat m)%Z) by (unfold m; lia).
  assert (Hmpos : (0 < m)%nat) by lia.
  set (h := (b - a) / IZR n).
  assert (Hn0 : IZR n <> 0) by (apply not_0_IZR; lia).
  assert (Hb : a + IZR n * h = b) by (unfold h; field; exact Hn0).
  rewrite apply_rule_R. unfold Cminus, Cplus, Copp, expi_int. cbn [fst snd].
  rewrite !rapply_simpson_rule_n. fold h. unfold expi. cbn [fst snd].
  replace (sin (k * b)) with (sin (k * (a + IZR n * h))) by (rewrite Hb; reflexivity).
  replace (cos (k * b)) with (cos (k * (a + IZR n * h))) by (rewrite Hb; reflexivity).
  clearbody h m. clear Hm' Hex. subst n.
  replace (h / 3 * ssum (fun i : Z => cos (k * (a + IZR i * h))) (2 * Z.of_nat m) + - ((sin (k * (a + IZR (2 * Z.of_nat m) * h)) - sin (k * a)) / k))
    with (psi (k * h) / k * rsum (map (fun j => cos (k * (a + IZR (2 * j + 1) * h))) (zseq 0 m)))
    by (rewrite <- ssum_cos_panels by assumption; ring).
  replace (h / 3 * ssum (fun i : Z => sin (k * (a + IZR i * h))) (2 * Z.of_nat m) + - ((cos (k * a) - cos (k * (a + IZR (2 * Z.of_nat m) * h))) / k))
    with (psi (k * h) / k * rsum (map (fun j => sin (k * (a + IZR (2 * j + 1) * h))) (zseq 0 m)))
    by (rewrite <- ssum_sin_panels by assumption; ring).
  set (P := psi (k * h) / k).
  replace (P * rsum (map (fun j : Z => cos (k * (a + IZR (2 * j + 1) * h))) (zseq 0 m)),
           P * rsum (map (fun j : Z => sin (k * (a + IZR (2 * j + 1) * h))) (zseq 0 m)))
    with (Cmult (RtoC P) (rsum (map (fun j : Z => cos (k * (a + IZR (2 * j + 1) * h))) (zseq 0 m)),
                          rsum (map (fun j : Z => sin (k * (a + IZR (2 * j + 1) * h))) (zseq 0 m)))).
  2:{ unfold Cmult, RtoC. cbn [fst snd]. f_equal; ring. }
  rewrite Cmod_mult, Cmod_R.
  pose proof (cmod_unit_sum (fun j => k * (a + IZR (2 * j + 1) * h)) (zseq 0 m)) as Hs. rewrite zseq_length in Hs.
  assert (HP : Rabs P <= Rabs k ^ 4 * Rabs h ^ 5 / 90).
  { unfold P. unfold Rdiv at 1. rewrite Rabs_mult, Rabs_inv.
    pose proof (psi_abs (k * h)) as Hp. rewrite Rabs_mult in Hp.
    assert (Hk0 : 0 < Rabs k) by (apply Rabs_pos_lt; exact Hk).
    apply (Rmult_le_reg_r (Rabs k)); [exact Hk0|].
    replace (Rabs (psi (k * h)) * / Rabs k * Rabs k) with (Rabs (psi (k * h))) by (field; lra).
    eapply Rle_trans; [exact Hp|]. right. field. }
  assert (Hh : INR m * Rabs h = Rabs (a + IZR (2 * Z.of_nat m) * h - a) / 2).
  { replace (a + IZR (2 * Z.of_nat m) * h - a) with (IZR (2 * Z.of_nat m) * h) by ring.
    rewrite Rabs_mult, mult_IZR, <- INR_IZR_INZ. rewrite (Rabs_right (2 * INR m)); [field|].
    pose proof (pos_INR m). lra. }
  rewrite Hb in Hh.
  pose proof (Rabs_pos P). pose proof (Cmod_ge_0 (rsum (map (fun j : Z => cos (k * (a + IZR (2 * j + 1) * h))) (zseq 0 m)),
                          rsum (map (fun j : Z => sin (k * (a + IZR (2 * j + 1) * h))) (zseq 0 m)))).
  eapply Rle_trans; [apply Rmult_le_compat; [assumption | assumption | exact HP | exact Hs]|].
  replace (Rabs k ^ 4 * Rabs h ^ 5 / 90 * INR m) with (Rabs k ^ 4 * Rabs h ^ 4 / 90 * (INR m * Rabs h)) by field.
  rewrite Hh. right. field.
Qed.

(* complex amplitude, and the translated entry point *)
Lemma rule_cscal : forall (r : rule Rops) (amp : C) (g : R -> C),
  apply_rule Rops r (fun x => Cmult amp (g x)) = Cmult amp (apply_rule Rops r g).
Proof.
  intros r [ar ai] g. rewrite !apply_rule_R. unfold Cmult. cbn [fst snd]. unfold rapply.
  apply pair_eq; cbn [fst snd].
  - induction r as [|nw r IH]; cbn [fold_right]; [ring|]. rewrite IH. ring.
  - induction r as [|nw r IH]; cbn [fold_right]; [ring|]. rewrite IH. ring.
Qed.

Theorem simpson_expi_bound : forall divs (a b k : R) (amp : C), simpson_accepts divs = true -> k <> 0 ->
  Cmod (Cminus (simpson Rops (fun x => Cmult amp (expi k x)) a b divs) (Cmult amp (expi_int k a b)))
    <= Cmod amp * (Rabs (b - a) * Rabs ((b - a) / IZR (simpson_norm divs)) ^ 4 * Rabs k ^ 4 / 180).
Proof.
  intros divs a b k amp Ha Hk. rewrite simpson_is_rule. unfold simpson_rule. rewrite rule_cscal.
  set (X := apply_rule Rops (simpson_rule_n Rops a b (simpson_norm divs)) (expi k)).
  replace (Cminus (Cmult amp X) (Cmult amp (expi_int k a b))) with (Cmult amp (Cminus X (expi_int k a b))).
  2:{ clearbody X. destruct amp, X, (expi_int k a b). cbv [Cminus Cplus Copp Cmult fst snd]. f_equal; ring. }
  rewrite Cmod_mult. apply Rmult_le_compat_l; [apply Cmod_ge_0|].
  apply simpson_rule_n_expi; [apply simpson_accepts_norm; exact Ha | apply simpson_norm_even | exact Hk].
Qed.

Lemma expi_shift : forall k x h, expi k (x + h) = Cmult (expi k h) (expi k x).
Proof.
  intros. unfold expi, Cmult. cbn [fst snd]. replace (k * (x + h)) with (k * h + k * x) by ring.
  rewrite cos_plus, sin_plus. f_equal; ring.
Qed.

