(* C05 — Simpson-48 of cos(ff z) against sin ff / ff on [1/1024, 4 pi] (interval arithmetic, Taylor models, bounded bisection). *)
From Coq Require Import Reals Lra List.
From Coquelicot Require Import Coquelicot.
From Interval Require Import Tactic.
From SpdVerif Require Import Model.PMLimit Proofs.C05_simpson_tac.
Local Open Scope R_scope.

Lemma simpson48_cos_far ff : 1 / 1024 <= ff <= 4 * PI ->
  Rabs (1 / 2 * simpson (fun z => cos (ff * z)) (-1) 1 50 - sin ff / ff) <= 3e-5.
Proof.
  intros H. simpson48_expand.
  interval with (i_taylor ff, i_degree 8, i_bisect ff, i_prec 60, i_depth 25).
Qed.

