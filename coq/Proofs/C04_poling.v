(* C04 — the auto-calculation wrappers around the simplex: sign and bound of the period, error rule, exact root for a
   mismatch of the collinear form, conditional residual bound, range of the auto angle. *)
From Coq Require Import Reals Lra Bool List.
From SpdVerif Require Import Base.Rx Base.Vec3 Gen.Idler Gen.AutoCalc Model.Idler Model.NM1d Model.AutoCalc Proofs.C03_base Proofs.C04_nm.
Local Open Scope R_scope.

(* ---------------------------------------------------------------- the order on real costs *)
Lemma Rltb_iff a b : Rltb a b = true <-> a < b.
Proof. unfold Rltb. destruct (Rlt_dec a b); split; intros; try assumption; try reflexivity; try discriminate; contradiction. Qed.
Lemma Rltb_irrefl a : Rltb a a = false.
Proof. unfold Rltb. destruct (Rlt_dec a a); [lra | reflexivity]. Qed.
Lemma Rltb_trans a b c : Rltb a b = true -> Rltb b c = true -> Rltb a c = true.
Proof. rewrite !Rltb_iff. lra. Qed.
Lemma Rltb_cotrans a b c : Rltb a c = true -> Rltb a b = true \/ Rltb b c = true.
Proof. rewrite !Rltb_iff. intros H. destruct (Rlt_dec a b); [left; assumption | right; lra]. Qed.

(* ---------------------------------------------------------------- reading the generated definitions *)
Lemma out_of_bounds_iff x mn mx : nm_out_of_bounds x mn mx = true <-> (x > mx \/ x < mn).
Proof.
  (* whatever the syntactic form of the bounds test (`x > max || x < min`, or the NaN-safe `!(x >= min && x <= max)`) *)
  unfold nm_out_of_bounds.
  repeat match goal with
         | |- context [Rgt_dec ?a ?b] => destruct (Rgt_dec a b)
         | |- context [Rge_dec ?a ?b] => destruct (Rge_dec a b)
         | |- context [Rlt_dec ?a ?b] => destruct (Rlt_dec a b)
         | |- context [Rle_dec ?a ?b] => destruct (Rle_dec a b)
         end; cbn;
  repeat match goal with |- context [bool_dec ?a ?b] => destruct (bool_dec a b) end;
  split; intros H; try reflexivity; try discriminate; try congruence; try lra; exfalso; lra.
Qed.
Lemma in_bounds_iff x mn mx : nm_out_of_bounds x mn mx = false <-> (mn <= x <= mx).
Proof.
  destruct (nm_out_of_bounds x mn mx) eqn:E.
  - apply out_of_bounds_iff in E. split; [discriminate | lra].
  - split; [|reflexivity]. intros _. split; apply Rnot_lt_le; intros H;
      assert (nm_out_of_bounds x mn mx = true) by (apply out_of_bounds_iff; auto); congruence.
Qed.
Lemma reject_iff mn mx p : opp_reject mn mx p = true <-> (mx < p \/ p < mn).
Proof.
  (* whatever the syntactic form of the acceptance test (`max < p || p < min`, or the NaN-safe `!(min <= p && p <= max)`) *)
  unfold opp_reject.
  repeat match goal with
         | |- context [Rlt_dec ?a ?b] => destruct (Rlt_dec a b)
         | |- context [Rle_dec ?a ?b] => destruct (Rle_dec a b)
         end; cbn;
  repeat match goal with |- context [bool_dec ?a ?b] => destruct (bool_dec a b) end;
  split; intros H; try reflexivity; try discriminate; try congruence; try lra; exfalso; lra.
Qed.
Lemma perfect_iff z : opp_perfect z = true <-> z = 0.
Proof. unfold opp_perfect. destruct (Req_EM_T z 0); split; intros; try assumption; try reflexivity; try discriminate; contradiction. Qed.
Lemma opp_value_eq z p : opp_value z p = sign_val (sign_from z) * p.
Proof. unfold opp_value. rewrite sign_mul_eq. ring. Qed.
Lemma min_period_pos : 0 < opp_min_period.
Proof. unfold opp_min_period, f64_min_positive. apply Rinv_0_lt_compat, pow_lt. lra. Qed.
Lemma max_period_eq L : opp_max_period L = L.
Proof. unfold opp_max_period. field. Qed.
Lemma opp_cost_eq d z x : opp_cost d z x = Rabs (d x (sign_from z)).
Proof. unfold opp_cost. rewrite Rmult_1_r. reflexivity. Qed.
Lemma sign_from_pos z : 0 <= z -> sign_from z = true.
Proof. intros H. unfold sign_from. destruct (Rlt_dec z 0); [lra | reflexivity]. Qed.
Lemma sign_from_neg z : z < 0 -> sign_from z = false.
Proof. intros H. unfold sign_from. destruct (Rlt_dec z 0); [reflexivity | lra]. Qed.
(* sign * |2 pi / z| = 2 pi / z *)
Lemma signed_seed z : z <> 0 -> sign_val (sign_from z) * Rabs (2 * PI / z) = 2 * PI / z.
Proof.
  intros Hz. pose proof PI_RGT_0 as HPI. destruct (Rlt_dec z 0) as [Hn|Hp].
  - rewrite sign_from_neg by assumption. unfold sign_val. rewrite Rabs_left; [ring|].
    unfold Rdiv. replace (2 * PI * / z) with (- (2 * PI * / - z)) by (field; lra).
    assert (0 < / - z) by (apply Rinv_0_lt_compat; lra). nra.
  - rewrite sign_from_pos by lra. unfold sign_val. rewrite Rabs_right; [ring|].
    apply Rle_ge. apply Rmult_le_pos; [lra | left; apply Rinv_0_lt_compat; lra].
Qed.

(* PeriodicPoling::new(sign * period) = On {period, sign} for a positive period *)
Lemma poling_of_signed s period : 0 < period -> poling_of (sign_val s * period) = PPOn period s.
Proof.
  intros Hp. unfold poling_of, pp_new_period, pp_new_positive. destruct s; unfold sign_val.
  - replace (0 * 1) with 0 by ring. destruct (Rgt_dec (1 * period) 0); [f_equal; ring | lra].
  - replace (0 * 1) with 0 by ring. destruct (Rgt_dec (-1 * period) 0); [lra | f_equal; ring].
Qed.

Lemma root_mul a b c : c <> 0 -> a - b / c = 0 -> c * a = b.
Proof. intros Hc H. assert (E : a = b / c) by lra. rewrite E. field. exact Hc. Qed.

(* try_as_optimum / assign_optimum_periodic_poling: whatever the base poling, the installed poling is PeriodicPoling::new of the
   optimum period: its signed period IS that period (sign kept), its k_eff is 2 pi / period *)
Lemma assigned_poling_spec base_on opp : opp <> 0 ->
  assigned_poling base_on opp = poling_of opp /\
  0 < tao_period base_on opp /\
  pp_signed_period_on (tao_positive base_on opp) (tao_period base_on opp) = opp /\
  pp_k_eff (assigned_poling base_on opp) = 2 * PI / opp.
Proof.
  intros Hne. unfold assigned_poling, tao_period, tao_positive, tno_period, tno_positive, poling_of, pp_new_period, pp_new_positive.
  replace (0 * 1) with 0 by ring. rewrite pp_k_eff_eq. unfold pp_signed_period_on. rewrite sign_mul_eq.
  destruct (Rgt_dec opp 0) as [H|H]; unfold sign_val.
  - repeat split; try reflexivity; try lra. f_equal. ring.
  - repeat split; try reflexivity; try lra. f_equal. ring.
Qed.

Section AutoPolingProofs.
  Variable dkz : poling -> R.
  Variable o : @ops R.
  Variable sd : @ecost R -> @ecost R -> bool.
  Variable L : R.

  Notation z := (z0 dkz).
  Notation cost := (pol_cost dkz L).
  Notation period := (nm_period dkz o sd L).

  Lemma cost_out x : negb (nm_out_of_bounds x opp_min_period (opp_max_period L)) = false -> cost x = CInf.
  Proof. intros H. apply negb_false_iff in H. unfold pol_cost. rewrite H. reflexivity. Qed.

  (* the cost recorded for the returned period is its true cost *)
  Lemma period_cost_true : nm_period_cost dkz o sd L = cost period.
  Proof.
    unfold nm_period_cost, nm_period, nm_result.
    apply (nm_monotone Rltb Rltb_irrefl Rltb_trans Rltb_cotrans o cost sd).
  Qed.

  (* Clause: sign and bound.  An accepted period is sign(z) * period with MIN_POSITIVE <= period <= L; z <> 0 *)
  Lemma sign_and_bound p : optimum_poling_period dkz o sd L = AutoOk p ->
    z <> 0 /\ p = sign_val (sign_from z) * period /\ opp_min_period <= period <= L /\ 0 < Rabs p <= L /\
    (0 < z -> 0 < p) /\ (z < 0 -> p < 0) /\ poling_of p = PPOn period (sign_from z).
  Proof.
    unfold optimum_poling_period. destruct (opp_perfect z) eqn:Ep; [discriminate|].
    destruct (opp_reject opp_min_period (opp_max_period L) period) eqn:Er; [discriminate|].
    intros H. injection H as <-.
    assert (Hz : z <> 0) by (intros E; apply perfect_iff in E; congruence).
    assert (Hb : opp_min_period <= period <= L).
    { rewrite max_period_eq in Er. split; apply Rnot_lt_le; intros Hc;
        assert (opp_reject opp_min_period L period = true) by (apply reject_iff; auto); congruence. }
    pose proof min_period_pos as Hm.
    rewrite opp_value_eq. split; [exact Hz | split; [reflexivity | split; [exact Hb|]]].
    assert (Habs : Rabs (sign_val (sign_from z) * period) = period).
    { rewrite Rabs_mult. replace (Rabs (sign_val (sign_from z))) with 1 by (destruct (sign_from z); unfold sign_val; [rewrite Rabs_R1 | rewrite Rabs_left by lra]; lra).
      rewrite Rabs_right by lra. ring. }
    split; [rewrite Habs; lra|].
    split; [intros Hp; rewrite sign_from_pos by lra; unfold sign_val; lra|].
    split; [intros Hn; rewrite sign_from_neg by lra; unfold sign_val; lra|].
    apply poling_of_signed. lra.
  Qed.

  (* Clause: error rule of the wrapper *)
  Lemma error_rule : z <> 0 -> (L < period \/ period < opp_min_period) -> optimum_poling_period dkz o sd L = AutoErr.
  Proof.
    intros Hz Hb. unfold optimum_poling_period.
    destruct (opp_perfect z) eqn:Ep; [apply perfect_iff in Ep; contradiction|].
    rewrite max_period_eq. rewrite (proj2 (reject_iff opp_min_period L period) Hb). reflexivity.
  Qed.

  Lemma perfect_rule : z = 0 -> optimum_poling_period dkz o sd L = AutoInfinite.
  Proof. intros Hz. unfold optimum_poling_period. rewrite (proj2 (perfect_iff z) Hz). reflexivity. Qed.

  (* Clause: residual, conditional on the contract "the simplex returns a point of cost < 2e-3 / L" *)
  Lemma residual_partial p c : 0 < L -> optimum_poling_period dkz o sd L = AutoOk p ->
    nm_period_cost dkz o sd L = CFin c -> c < 2e-3 / L ->
    Rabs (dkz (poling_of p)) * L / 2 < 1e-3.
  Proof.
    intros HL Hok Hc Hlt. destruct (sign_and_bound p Hok) as (_ & _ & Hb & _ & _ & _ & Hp).
    rewrite Hp. rewrite period_cost_true in Hc. unfold pol_cost in Hc.
    rewrite (proj2 (in_bounds_iff period opp_min_period (opp_max_period L))) in Hc by (rewrite max_period_eq; exact Hb).
    injection Hc as Hc. rewrite opp_cost_eq in Hc. unfold dkz_on in Hc. rewrite Hc.
    apply Rmult_lt_reg_r with (2 / L); [apply Rdiv_lt_0_compat; lra|].
    replace (c * L / 2 * (2 / L)) with c by (field; lra). replace (1e-3 * (2 / L)) with (2e-3 / L) by (field; lra). exact Hlt.
  Qed.

  (* ------------------------------------------------------------ a mismatch of the collinear form: the seed is an exact root *)
  (* the collinear form is required only at the periods the simplex actually evaluates (at the single period where the
     closing vector vanishes the code computes 0/0; the hypothesis says that period is not evaluated) *)
  Hypothesis Hcol : forall x,
    In x (strace (nm_run Rltb o (pol_cost dkz L) sd (opp_seed0 (opp_guess z)) (opp_seed1 (opp_guess z)) opp_max_iter)) ->
    opp_min_period <= x <= L ->
    dkz_on dkz x (sign_from z) = z - 2 * PI / (sign_val (sign_from z) * x).

  Lemma collinear_exact : z <> 0 -> opp_min_period <= Rabs (2 * PI / z) <= L ->
    optimum_poling_period dkz o sd L = AutoOk (2 * PI / z) /\ dkz (poling_of (2 * PI / z)) = 0.
  Proof.
    intros Hz Hr. set (r := Rabs (2 * PI / z)) in *.
    pose proof min_period_pos as Hm. pose proof PI_RGT_0 as HPI. pose proof (sign_val_nz (sign_from z)) as Hs.
    pose proof (nm_result_evaluated Rltb Rltb_irrefl Rltb_trans Rltb_cotrans o cost sd (opp_seed0 (opp_guess z)) (opp_seed1 (opp_guess z)) opp_max_iter) as Hev.
    cbv zeta in Hev. destruct Hev as (Hev_res & Hev_g0 & _).
    assert (Hroot : forall x, In x (strace (nm_run Rltb o cost sd (opp_seed0 (opp_guess z)) (opp_seed1 (opp_guess z)) opp_max_iter)) ->
                    opp_min_period <= x <= L -> (cost x = CFin 0 <-> x = r) /\ exists k, cost x = CFin k /\ 0 <= k).
    { intros x Hin Hx. unfold pol_cost. rewrite (proj2 (in_bounds_iff x opp_min_period (opp_max_period L))) by (rewrite max_period_eq; exact Hx).
      rewrite opp_cost_eq, (Hcol x Hin Hx). split; [|eexists; split; [reflexivity | apply Rabs_pos]].
      assert (Hx0 : x <> 0) by lra.
      split.
      - intros H. injection H as H.
        assert (E : z - 2 * PI / (sign_val (sign_from z) * x) = 0).
        { destruct (Req_dec (z - 2 * PI / (sign_val (sign_from z) * x)) 0) as [E|E]; [exact E|]. apply Rabs_no_R0 in E. contradiction. }
        assert (E2 : sign_val (sign_from z) * x = 2 * PI / z).
        { apply Rmult_eq_reg_r with z; [|exact Hz]. unfold Rdiv. rewrite (Rmult_assoc (2 * PI)), Rinv_l by exact Hz.
          rewrite Rmult_1_r. apply root_mul; [|exact E]. apply Rmult_integral_contrapositive_currified; assumption. }
        unfold r. rewrite <- E2, Rabs_mult.
        replace (Rabs (sign_val (sign_from z))) with 1 by (destruct (sign_from z); unfold sign_val; [rewrite Rabs_R1 | rewrite Rabs_left by lra]; lra).
        rewrite Rabs_right by lra. ring.
      - intros ->. f_equal. unfold r. rewrite signed_seed by exact Hz.
        replace (z - 2 * PI / (2 * PI / z)) with 0 by (field; split; lra). apply Rabs_R0. }
    assert (Hseed : cost (opp_seed0 (opp_guess z)) = CFin 0) by (apply (proj1 (Hroot r Hev_g0 Hr)); reflexivity).
    (* monotonicity: the returned cost is <= 0; bounds: the returned point is admissible *)
    pose proof (nm_monotone Rltb Rltb_irrefl Rltb_trans Rltb_cotrans o cost sd (opp_seed0 (opp_guess z)) (opp_seed1 (opp_guess z)) opp_max_iter) as Hmono.
    cbv zeta in Hmono. destruct Hmono as (Htrue & Hle & _).
    pose proof (nm_bounds Rltb Rltb_irrefl Rltb_trans Rltb_cotrans o cost sd
                  (fun x => negb (nm_out_of_bounds x opp_min_period (opp_max_period L)))
                  (opp_seed0 (opp_guess z)) (opp_seed1 (opp_guess z)) opp_max_iter cost_out) as Hbd.
    destruct Hbd as [Hin _]; [left; rewrite Hseed; reflexivity|].
    fold period in Hin. apply negb_true_iff, in_bounds_iff in Hin. rewrite max_period_eq in Hin.
    fold (nm_period_cost dkz o sd L) in Htrue, Hle. change (vp (sbest _)) with period in Htrue.
    destruct (Hroot period Hev_res Hin) as [Hiff (k & Hk & Hk0)].
    rewrite Htrue, Hk, Hseed in Hle. unfold ele in Hle. apply negb_true_iff in Hle. cbn [elt] in Hle.
    assert (k = 0) by (destruct (Rlt_dec 0 k) as [H|H]; [apply Rltb_iff in H; congruence | lra]). subst k.
    assert (Hp : period = r) by (apply Hiff; exact Hk).
    assert (Hok : optimum_poling_period dkz o sd L = AutoOk (2 * PI / z)).
    { unfold optimum_poling_period. destruct (opp_perfect z) eqn:Ep; [apply perfect_iff in Ep; contradiction|].
      rewrite max_period_eq.
      destruct (opp_reject opp_min_period L period) eqn:Er; [apply reject_iff in Er; lra|].
      rewrite opp_value_eq, Hp. unfold r. rewrite signed_seed by exact Hz. reflexivity. }
    split; [exact Hok|].
    destruct (sign_and_bound _ Hok) as (_ & _ & _ & _ & _ & _ & Hpo). rewrite Hpo, Hp.
    change (dkz (PPOn r (sign_from z))) with (dkz_on dkz r (sign_from z)). rewrite (Hcol r Hev_g0 Hr).
    unfold r. rewrite signed_seed by exact Hz. field. split; lra.
  Qed.
End AutoPolingProofs.

(* ---------------------------------------------------------------- exact real simplex operations: a seed beyond L + 1 um is refused *)
Section SeedBeyondLength.
  Variable dkz : poling -> R.
  Variable sd : @ecost R -> @ecost R -> bool.
  Variable L : R.
  Notation cost := (pol_cost dkz L).

  Lemma stuck_outside r fuel s d :
    L < r - d -> 0 < d ->
    vp (s0 s) = r -> vc (s0 s) = CInf -> vp (s1 s) = r + d -> vc (s1 s) = CInf -> vp (sbest s) = r ->
    vp (sbest (run_loop Rltb real_ops cost sd fuel s)) = r.
  Proof.
    revert s d. induction fuel as [|k IH]; intros s d HL Hd H0 C0 H1 C1 Hb; cbn; [exact Hb|].
    destruct (terminated sd s); [exact Hb|].
    assert (Hinf : forall x, L < x -> cost x = CInf).
    { intros x Hx. unfold pol_cost. rewrite (proj2 (out_of_bounds_iff x opp_min_period (opp_max_period L))); [reflexivity|].
      left. rewrite max_period_eq. lra. }
    apply (IH (step Rltb real_ops cost s) (d / 2)); try lra.
    all: unfold step, replace_worst; cbn [real_ops op_centroid op_reflect op_expand op_contract op_shrink]; rewrite C0, C1, H0, H1.
    all: rewrite (Hinf (r * 1 + (r * 1 - (r + d)) * 1)) by lra; cbn [elt].
    all: rewrite (Hinf (r * 1 + (r + d - r * 1) * / 2)) by lra; cbn [elt]; unfold eval.
    all: rewrite (Hinf (r + (r + d - r) * / 2)) by lra; unfold sort2; cbn [vc vp elt s0 s1 sbest].
    - exact H0.
    - exact C0.
    - field.
    - reflexivity.
    - unfold update_best. match goal with |- vp (if ?c then _ else _) = _ => destruct c end; [exact H0 | exact Hb].
  Qed.

  Lemma seed_beyond_length : z0 dkz <> 0 -> L + 1e-6 < Rabs (2 * PI / z0 dkz) ->
    optimum_poling_period dkz real_ops sd L = AutoErr.
  Proof.
    intros Hz Hr. apply error_rule; [exact Hz | left].
    unfold nm_period, nm_result, nm_run.
    set (r := Rabs (2 * PI / z0 dkz)) in *.
    assert (Hinf : forall x, L < x -> cost x = CInf).
    { intros x Hx. unfold pol_cost. rewrite (proj2 (out_of_bounds_iff x opp_min_period (opp_max_period L))); [reflexivity|].
      left. rewrite max_period_eq. lra. }
    assert (E : vp (sbest (run_loop Rltb real_ops cost sd opp_max_iter
                 (init Rltb cost (opp_seed0 (opp_guess (z0 dkz))) (opp_seed1 (opp_guess (z0 dkz)))))) = r).
    { apply (stuck_outside r opp_max_iter _ 1e-6); try lra;
        unfold init, eval, sort2, opp_seed0, opp_seed1, opp_guess; fold r;
        rewrite (Hinf r), (Hinf (r + 1e-6)) by lra; cbn; reflexivity. }
    rewrite E. lra.
  Qed.
End SeedBeyondLength.

(* ---------------------------------------------------------------- the auto angle *)
Section AutoThetaProofs.
  Variable cost_theta : R -> R.
  Variable o : @ops R.
  Variable sd : @ecost R -> @ecost R -> bool.

  Lemma theta_range : 0 <= optimum_theta cost_theta o sd <= PI / 2.
  Proof.
    pose proof PI_RGT_0 as HPI.
    pose proof (nm_bounds Rltb Rltb_irrefl Rltb_trans Rltb_cotrans o (th_cost cost_theta) sd
                  (fun x => negb (nm_out_of_bounds x oth_min oth_max)) (oth_seed0 oth_guess) (oth_seed1 oth_guess) oth_max_iter) as Hbd.
    destruct Hbd as [Hin _].
    - intros x H. apply negb_false_iff in H. unfold th_cost. rewrite H. reflexivity.
    - left. unfold th_cost, oth_seed0, oth_guess.
      rewrite (proj2 (in_bounds_iff (PI / 6) oth_min oth_max)); [reflexivity | unfold oth_min, oth_max; lra].
    - apply negb_true_iff, in_bounds_iff in Hin. unfold oth_min, oth_max in Hin. unfold optimum_theta. lra.
  Qed.

  Lemma theta_residual_partial L c : 0 < L ->
    optimum_theta_cost cost_theta o sd = CFin c -> c < 2e-3 / L ->
    cost_theta (optimum_theta cost_theta o sd) * L / 2 < 1e-3.
  Proof.
    intros HL Hc Hlt.
    pose proof (nm_monotone Rltb Rltb_irrefl Rltb_trans Rltb_cotrans o (th_cost cost_theta) sd (oth_seed0 oth_guess) (oth_seed1 oth_guess) oth_max_iter) as Hm.
    cbv zeta in Hm. destruct Hm as (Htrue & _ & _).
    unfold optimum_theta_cost in Hc. rewrite Htrue in Hc.
    pose proof theta_range as Hr.
    assert (Ht : optimum_theta cost_theta o sd =
                 vp (sbest (nm_run Rltb o (th_cost cost_theta) sd (oth_seed0 oth_guess) (oth_seed1 oth_guess) oth_max_iter)))
      by (unfold optimum_theta, nm_result; ring).
    rewrite Ht in Hr |- *.
    set (t := vp (sbest (nm_run Rltb o (th_cost cost_theta) sd (oth_seed0 oth_guess) (oth_seed1 oth_guess) oth_max_iter))) in *.
    unfold th_cost in Hc.
    rewrite (proj2 (in_bounds_iff t oth_min oth_max)) in Hc by (unfold oth_min, oth_max; exact Hr).
    injection Hc as Hc. rewrite Hc.
    apply Rmult_lt_reg_r with (2 / L); [apply Rdiv_lt_0_compat; lra|].
    replace (c * L / 2 * (2 / L)) with c by (field; lra). replace (1e-3 * (2 / L)) with (2e-3 / L) by (field; lra). exact Hlt.
  Qed.
End AutoThetaProofs.
