(* C04 — theorems about the two-vertex Nelder–Mead model, for EVERY point type, cost order, cost function, termination test
   and point operations (in particular for the rounded binary64 operations as well as the exact ones). *)
From Coq Require Import List Bool ZArith Lia.
From SpdVerif Require Import Model.NM1d.
Import ListNotations.

Section NMProofs.
  Context {P K : Type}.
  Variable klt : K -> K -> bool.
  (* the finite costs are strictly weakly ordered (binary64 without NaN, Q, R are) *)
  Hypothesis klt_irrefl : forall a, klt a a = false.
  Hypothesis klt_trans : forall a b c, klt a b = true -> klt b c = true -> klt a c = true.
  Hypothesis klt_cotrans : forall a b c, klt a c = true -> klt a b = true \/ klt b c = true.

  Variable o : @ops P.
  Variable f : P -> @ecost K.
  Variable sd_small : @ecost K -> @ecost K -> bool.

  Notation elt := (elt klt).
  Notation ele := (ele klt).

  Lemma elt_irrefl a : elt a a = false.
  Proof. destruct a; cbn; auto. Qed.

  Lemma elt_asym a b : elt a b = true -> elt b a = false.
  Proof.
    destruct a as [x|], b as [y|]; cbn; try discriminate; auto.
    intros H. destruct (klt y x) eqn:E; [|reflexivity].
    pose proof (klt_trans _ _ _ H E) as H2. rewrite klt_irrefl in H2. discriminate.
  Qed.

  Lemma elt_ele a b : elt a b = true -> ele a b = true.
  Proof. intros H. unfold NM1d.ele. rewrite (elt_asym _ _ H). reflexivity. Qed.

  Lemma ele_refl a : ele a a = true.
  Proof. unfold NM1d.ele. rewrite elt_irrefl. reflexivity. Qed.

  Lemma ele_trans a b c : ele a b = true -> ele b c = true -> ele a c = true.
  Proof.
    unfold NM1d.ele. rewrite !negb_true_iff.
    destruct a as [x|], b as [y|], c as [z|]; cbn; try discriminate; auto.
    intros H1 H2. destruct (klt z x) eqn:E; [|reflexivity].
    destruct (klt_cotrans z y x E) as [H|H]; congruence.
  Qed.

  Lemma ele_finite a b : ele a b = true -> is_inf b = false -> is_inf a = false.
  Proof. destruct a, b; cbn; auto; discriminate. Qed.

  (* ------------------------------------------------------------ invariant of the simplex *)
  Definition Inv (s : @state P K) : Prop :=
    vc (s0 s) = f (vp (s0 s)) /\ vc (s1 s) = f (vp (s1 s)) /\ ele (vc (s0 s)) (vc (s1 s)) = true /\
    sbest s = s0 s /\ In (vp (s0 s)) (strace s) /\ In (vp (s1 s)) (strace s).

  Lemma sort2_spec (a b : @vertex P K) : let '(x, y) := sort2 klt a b in
    ele (vc x) (vc y) = true /\ ((x = a /\ y = b /\ elt (vc b) (vc a) = false) \/ (x = b /\ y = a /\ elt (vc b) (vc a) = true)).
  Proof.
    unfold sort2. destruct (elt (vc b) (vc a)) eqn:E.
    - split; [apply elt_ele; exact E | right; auto].
    - split; [unfold NM1d.ele; rewrite E; reflexivity | left; auto].
  Qed.

  Lemma init_inv g0 g1 : Inv (init klt f g0 g1).
  Proof.
    unfold init. pose proof (sort2_spec (eval f g0) (eval f g1)) as H.
    destruct (sort2 klt (eval f g0) (eval f g1)) as [x y]. destruct H as [Hle [(-> & -> & _)|(-> & -> & _)]];
      unfold Inv; cbn; repeat split; auto.
  Qed.

  (* the replacing vertex carries its true cost and is one of the freshly evaluated points *)
  Lemma replace_worst_spec b w : let '(w', tr) := replace_worst klt o f b w in
    vc w' = f (vp w') /\ In (vp w') tr.
  Proof.
    unfold replace_worst.
    destruct (elt (f (op_reflect o (op_centroid o (vp b)) (vp w))) (vc b)).
    - destruct (elt _ _); cbn; auto.
    - destruct (elt (f (op_reflect o (op_centroid o (vp b)) (vp w))) (vc w)).
      + destruct (ele _ _); cbn; auto.
      + destruct (elt _ (vc w)); cbn; auto.
  Qed.

  Lemma step_inv s : Inv s -> Inv (step klt o f s) /\ ele (vc (s0 (step klt o f s))) (vc (s0 s)) = true /\
                      incl (strace s) (strace (step klt o f s)).
  Proof.
    intros (H0 & H1 & Hle & Hb & Hi0 & Hi1). unfold step.
    pose proof (replace_worst_spec (s0 s) (s1 s)) as Hr.
    destruct (replace_worst klt o f (s0 s) (s1 s)) as [w' tr]. destruct Hr as [Hc Hin].
    pose proof (sort2_spec (s0 s) w') as Hs.
    destruct (sort2 klt (s0 s) w') as [n0 n1]. destruct Hs as [Hle' [(-> & -> & E)|(-> & -> & E)]].
    - (* the best vertex stays *)
      split; [|split].
      + unfold Inv; cbn. repeat split; auto.
        * rewrite Hb. unfold update_best. destruct (_ || _); reflexivity.
        * apply in_or_app; right; exact Hi0.
        * apply in_or_app; left; exact Hin.
      + cbn. apply ele_refl.
      + cbn. apply incl_appr, incl_refl.
    - (* strictly better vertex found *)
      split; [|split].
      + unfold Inv; cbn. repeat split; auto.
        * rewrite Hb. unfold update_best. rewrite E. reflexivity.
        * apply in_or_app; left; exact Hin.
        * apply in_or_app; right; exact Hi0.
      + cbn. apply elt_ele, E.
      + cbn. apply incl_appr, incl_refl.
  Qed.

  Lemma run_loop_inv fuel s : Inv s ->
    Inv (run_loop klt o f sd_small fuel s) /\ ele (vc (s0 (run_loop klt o f sd_small fuel s))) (vc (s0 s)) = true /\
    incl (strace s) (strace (run_loop klt o f sd_small fuel s)).
  Proof.
    revert s. induction fuel as [|k IH]; intros s Hs; cbn.
    - split; [exact Hs | split; [apply ele_refl | apply incl_refl]].
    - destruct (terminated sd_small s).
      + split; [exact Hs | split; [apply ele_refl | apply incl_refl]].
      + destruct (step_inv s Hs) as (Hi & Hle & Hinc). destruct (IH _ Hi) as (Hi2 & Hle2 & Hinc2).
        split; [exact Hi2 | split; [eapply ele_trans; eassumption | eapply incl_tran; eassumption]].
  Qed.

  (* ------------------------------------------------------------ the theorems *)
  (* T1: the best cost never increases — along the iterations, hence below both initial costs *)
  Theorem nm_monotone_step s : Inv s -> ele (vc (s0 (step klt o f s))) (vc (s0 s)) = true.
  Proof. intros H. apply (step_inv s H). Qed.

  Theorem nm_monotone g0 g1 n :
    let s := nm_run klt o f sd_small g0 g1 n in
    vc (sbest s) = f (vp (sbest s)) /\ ele (vc (sbest s)) (f g0) = true /\ ele (vc (sbest s)) (f g1) = true.
  Proof.
    intros s. unfold s, nm_run.
    destruct (run_loop_inv n _ (init_inv g0 g1)) as ((H0 & _ & _ & Hb & _) & Hle & _).
    rewrite Hb. split; [exact H0|].
    assert (Hi : ele (vc (s0 (init klt f g0 g1))) (f g0) = true /\ ele (vc (s0 (init klt f g0 g1))) (f g1) = true).
    { unfold init. pose proof (sort2_spec (eval f g0) (eval f g1)) as Hs.
      destruct (sort2 klt (eval f g0) (eval f g1)) as [x y]. destruct Hs as [Hxy [(-> & -> & E)|(-> & -> & E)]]; cbn in *.
      - split; [apply ele_refl | exact Hxy].
      - split; [exact Hxy | apply ele_refl]. }
    destruct Hi as [Hi0 Hi1]. split; eapply ele_trans; eassumption.
  Qed.

  (* T2: the returned point is one of the evaluated points, and the cost recorded for it is its true cost *)
  Theorem nm_result_evaluated g0 g1 n :
    let s := nm_run klt o f sd_small g0 g1 n in
    In (nm_result klt o f sd_small g0 g1 n) (strace s) /\ In g0 (strace s) /\ In g1 (strace s).
  Proof.
    intros s. unfold s, nm_result, nm_run.
    destruct (run_loop_inv n _ (init_inv g0 g1)) as ((_ & _ & _ & Hb & Hi0 & _) & _ & Hinc).
    rewrite Hb. split; [exact Hi0|]. split; apply Hinc; unfold init; destruct (sort2 _ _ _); cbn; auto.
  Qed.

  (* T3: the cost is +infinity outside the bounds; if one initial vertex has a finite cost the returned point is in bounds *)
  Theorem nm_bounds (inb : P -> bool) g0 g1 n :
    (forall x, inb x = false -> f x = CInf) ->
    is_inf (f g0) = false \/ is_inf (f g1) = false ->
    inb (nm_result klt o f sd_small g0 g1 n) = true /\ is_inf (f (nm_result klt o f sd_small g0 g1 n)) = false.
  Proof.
    intros Hout Hfin. pose proof (nm_monotone g0 g1 n) as Hm. cbv zeta in Hm. destruct Hm as (Hc & H0 & H1).
    unfold nm_result. set (r := sbest (nm_run klt o f sd_small g0 g1 n)) in *.
    assert (Hf : is_inf (vc r) = false).
    { destruct Hfin as [Hfin|Hfin]; [exact (ele_finite _ _ H0 Hfin) | exact (ele_finite _ _ H1 Hfin)]. }
    rewrite Hc in Hf. split; [|exact Hf].
    destruct (inb (vp r)) eqn:E; [reflexivity|]. rewrite (Hout _ E) in Hf. discriminate.
  Qed.

  (* with max_iters = 0 the result is the cheaper initial vertex (the first on a tie) *)
  Theorem nm_zero_iter g0 g1 : nm_result klt o f sd_small g0 g1 0 = if elt (f g1) (f g0) then g1 else g0.
  Proof. unfold nm_result, nm_run, init, sort2; cbn. destruct (elt (f g1) (f g0)); reflexivity. Qed.
End NMProofs.

(* the order used by the executable instance is a strict weak order *)
From Coq Require Import QArith.
Lemma qlt_irrefl a : qlt a a = false.
Proof. unfold qlt. pose proof (proj1 (Qeq_alt a a) (Qeq_refl a)) as H. rewrite H. reflexivity. Qed.
Lemma qlt_iff a b : qlt a b = true <-> (a < b)%Q.
Proof. unfold qlt. rewrite Qlt_alt. destruct (a ?= b)%Q; split; intros; congruence. Qed.
Lemma qlt_trans a b c : qlt a b = true -> qlt b c = true -> qlt a c = true.
Proof. rewrite !qlt_iff. apply Qlt_trans. Qed.
Lemma qlt_cotrans a b c : qlt a c = true -> qlt a b = true \/ qlt b c = true.
Proof.
  rewrite !qlt_iff. intros H. destruct (Qlt_le_dec a b) as [H1|H1]; [left; exact H1 | right].
  eapply Qle_lt_trans; eassumption.
Qed.

(* ---------------------------------------------------------------- more iterations never give a worse result *)
Section NMIter.
  Context {P K : Type}.
  Variable klt : K -> K -> bool.
  Hypothesis klt_irrefl : forall a, klt a a = false.
  Hypothesis klt_trans : forall a b c, klt a b = true -> klt b c = true -> klt a c = true.
  Hypothesis klt_cotrans : forall a b c, klt a c = true -> klt a b = true \/ klt b c = true.
  Variable o : @ops P.
  Variable f : P -> @ecost K.
  Variable sd_small : @ecost K -> @ecost K -> bool.

  Lemma run_loop_add n k s :
    run_loop klt o f sd_small (n + k) s = run_loop klt o f sd_small k (run_loop klt o f sd_small n s).
  Proof.
    revert s. induction n as [|n IH]; intros s; cbn; [reflexivity|].
    destruct (terminated sd_small s) eqn:E; [|apply IH].
    destruct k; cbn; [reflexivity | rewrite E; reflexivity].
  Qed.

  Theorem nm_monotone_iter g0 g1 n k :
    ele klt (vc (sbest (nm_run klt o f sd_small g0 g1 (n + k)))) (vc (sbest (nm_run klt o f sd_small g0 g1 n))) = true.
  Proof.
    unfold nm_run. rewrite run_loop_add.
    pose proof (run_loop_inv klt klt_irrefl klt_trans klt_cotrans o f sd_small n _ (init_inv klt klt_irrefl klt_trans f g0 g1)) as (Hi & _ & _).
    pose proof (run_loop_inv klt klt_irrefl klt_trans klt_cotrans o f sd_small k _ Hi) as ((_ & _ & _ & Hb2 & _) & Hle & _).
    destruct Hi as (_ & _ & _ & Hb & _). rewrite Hb, Hb2. exact Hle.
  Qed.
End NMIter.
