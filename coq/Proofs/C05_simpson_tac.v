(* C05 — Simpson-48 against sinc: shared expansion tactic. *)
From Coq Require Import Reals Lra List.
From Coquelicot Require Import Coquelicot.
From Interval Require Import Tactic.
From SpdVerif Require Import Model.PMLimit.
Local Open Scope R_scope.

Lemma simpson_divs_50 : simpson_divs 50 = 48%nat.
Proof. reflexivity. Qed.

Ltac simpson48_expand :=
  unfold simpson; rewrite simpson_divs_50; unfold simpson_sum;
  cbn [seq map fold_right simpson_weight Nat.eqb Nat.odd Nat.even orb negb];
  rewrite !INR_IZR_INZ; cbn [Z.of_nat Pos.of_succ_nat Pos.succ].

