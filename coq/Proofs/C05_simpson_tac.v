(* C05 — Simpson-48 against sinc: shared expansion tactic. *)
From Coq Require Import Reals Lra List.
From Coquelicot Require Import Coquelicot.
From Interval Require Import Tactic.
From SpdVerif Require Import Model.PMLimit Gen.PMSimpson.
Local Open Scope R_scope.

Lemma simpson_divs_50 : simpson_divs 50 = 48%nat.
Proof. reflexivity. Qed.

Ltac simpson48_expand :=
  unfold simpson; rewrite simpson_divs_50; unfold simpson_sum;
  cbn [seq map fold_right simpson_weight Nat.eqb Nat.odd Nat.even orb negb];
  rewrite !INR_IZR_INZ; cbn [Z.of_nat Pos.of_succ_nat Pos.succ].


(* the hand-written rule of Model/PMLimit.v IS the rule translated from src/math/integration.rs (kernel conversion), and the default
   integrator's `divs` is the 50 the bound is proved for *)
Lemma simpson_is_generated : forall f a b divs, gen_simpson f a b divs = simpson f a b divs.
Proof. reflexivity. Qed.
Lemma default_divs_is_50 : gen_default_simpson_divs = 50%nat /\ (gen_simpson_min_divs <= simpson_divs 50)%nat.
Proof. split; [reflexivity | vm_compute; repeat constructor]. Qed.
