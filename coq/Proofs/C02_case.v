(* Tactics used by the generated C02 correspondence cases (coq/Cases/C02, never committed): the generated definitions of
   Gen/Fresnel.v are evaluated by `interval` on the inputs Rust saw. *)
From Coq Require Import Reals Lra.
From Coquelicot Require Import Coquelicot.
From Interval Require Import Tactic.
From SpdVerif Require Import Base.Rx Model.Optics Model.Fresnel Gen.Fresnel Proofs.C02_gen Proofs.C02_walkoff_biaxial.
Local Open Scope R_scope.

(* decide the code's branches (number of roots, sign tests, zero tests) by interval evaluation of the scrutinee *)
Ltac decide_branches :=
  repeat match goal with
  | |- context [Rlt_dec ?a ?b] =>
      let H := fresh "H" in
      destruct (Rlt_dec a b) as [H | H];
      [ try (exfalso; revert H; apply Rle_not_lt; apply Rlt_le; apply Rminus_gt_0_lt; interval with (i_prec 120))
      | try (exfalso; apply H; apply Rminus_gt_0_lt; interval with (i_prec 120)) ]
  | |- context [Req_EM_T ?a ?b] =>
      let H := fresh "H" in
      destruct (Req_EM_T a b) as [H | H];
      [ try (exfalso; revert H; first [ apply Rgt_not_eq; apply Rminus_gt_0_lt; interval with (i_prec 120)
                                      | apply Rlt_not_eq; apply Rminus_gt_0_lt; interval with (i_prec 120) ])
      | try (exfalso; apply H; lra) ]
  end.

Ltac case_frame :=
  unfold to_crystal_frame_gen, rot_euler, vx, vy, vz; cbn [fst snd]; repeat split; interval with (i_prec 90).

Ltac case_value :=
  unfold index_along_core_gen, index_along_core_Ordinary, index_along_core_Extraordinary, index_along_core_Ordinary_of,
    index_along_core_Extraordinary_of, find_roots_quadratic_monic;
  cbv zeta; decide_branches; interval with (i_prec 120).

Ltac case_residual :=
  unfold index_along_b_gen, index_along_c_gen; split; interval with (i_prec 160).

Ltac case_walk_closed :=
  unfold walkoff_uniaxial_closed, n_uniaxial, y_uniaxial, inv2; interval with (i_prec 80).

(* pump along z in a uniaxial crystal: the generated index function is replaced by the closed form (proved equal for every
   crystal angle, Proofs/C02_gen.v), then the generated finite-difference formula is evaluated *)
Ltac case_walk_gen :=
  match goal with |- Rabs (walkoff_gen (fun t => index_along_gen t ?phi ?no ?no ?ne (0, 0, 1) ?p) ?th - _) <= _ =>
    rewrite (walkoff_gen_ext _ (n_uniaxial no ne) th)
      by (intros t; apply index_along_gen_pump_dependent; [lra | lra | first [left; split; [lra | reflexivity] | right; split; [lra | reflexivity]]])
  end;
  unfold walkoff_gen, walkoff_tail_gen, walkoff_np_prime_gen, derivative_at_gen, fd_quotient_gen, fd_forward_point_gen,
    fd_backward_point_gen, walkoff_theta_assigned_gen, walkoff_theta_at_gen; cbv zeta beta;
  unfold fd_step_gen, n_uniaxial, y_uniaxial, inv2, eps64, Rpower;
  decide_branches; interval with (i_prec 140).

(* biaxial closed form (Proofs/C02_walkoff_biaxial.v) evaluated on the inputs Rust saw *)
Ltac case_walk_biaxial :=
  unfold walkoff_biaxial_closed, Yq', Dq, bfun, cfun, bfun', cfun', sfun, sfun', sign_of, index_model, fresnel_index, y_slow, y_fast,
    fdisc, fb, fc, inv2, crystal_frame, rot_euler, vx, vy, vz; cbn [fst snd]; cbv zeta; interval with (i_prec 120).
