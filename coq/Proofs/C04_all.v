(* C04 — non-vacuity: a mismatch of the collinear form for which the auto period is returned. *)
From Coq Require Import Reals Lra Bool.
From SpdVerif Require Import Base.Rx Gen.Idler Gen.AutoCalc Model.Idler Model.NM1d Model.AutoCalc Proofs.C03_base Proofs.C04_nm Proofs.C04_poling.
Local Open Scope R_scope.

Lemma min_period_small : opp_min_period <= 1e-9.
Proof.
  unfold opp_min_period, f64_min_positive.
  assert (H30 : 10 ^ 9 <= 2 ^ 30) by (simpl; lra).
  assert (Hm : 2 ^ 30 <= 2 ^ 1022) by (apply Rle_pow; [lra | repeat constructor]).
  assert (H : / 2 ^ 1022 <= / 10 ^ 9) by (apply Rinv_le_contravar; [simpl; lra | lra]).
  replace 1e-9 with (/ 10 ^ 9) by (simpl; lra). exact H.
Qed.

(* unpoled mismatch 2 pi * 1000 rad/m (period 1 mm), collinear form, crystal length 10 mm *)
Definition ex_dkz (pp : poling) : R :=
  match pp with PPOff => 2 * PI * 1000 | PPOn p s => 2 * PI * 1000 - 2 * PI / (sign_val s * p) end.

Lemma nonvacuous o sd : optimum_poling_period ex_dkz o sd (1 / 100) = AutoOk (1 / 1000).
Proof.
  pose proof PI_RGT_0 as HPI. pose proof min_period_small as Hm.
  assert (Hz : z0 ex_dkz = 2 * PI * 1000) by reflexivity.
  assert (Hg : 2 * PI / z0 ex_dkz = 1 / 1000) by (rewrite Hz; field; lra).
  destruct (collinear_exact ex_dkz o sd (1 / 100)) as [H _].
  - intros x _ _. reflexivity.
  - rewrite Hz. nra.
  - rewrite Hg, Rabs_right by lra. lra.
  - rewrite Hg in H. exact H.
Qed.

(* the hypotheses of the collinear mismatch formula are satisfiable: constant index 3/2, wavelengths 2 and 1, negative sign *)
From SpdVerif Require Import Base.Vec3 Proofs.C03_idler.
Lemma nonvacuous_collinear :
  let index := fun (_ : R) (_ : vec) (_ : polarization) => 3 / 2 in
  w_z index Ordinary Ordinary 0 0 2 1 (1, 1) (1, 1) PPOff <> 0 /\ w_z index Ordinary Ordinary 0 0 2 1 (1, 1) (1, 1) (PPOn 1 false) <> 0.
Proof.
  intros index. unfold w_z, n_p, n_s, kpp, refractive_index, beam_refractive_index, index, pp_k_pp, idler_k_pp, pp_signed_period_on, sign_mul.
  rewrite cos_0. split; [lra|]. replace (2 / (1 * -1)) with (-2) by (field; lra). lra.
Qed.

(* a NON-VACUOUS witness for the hypotheses of the collinear-root theorem: dispersive index n(l) = 1 + l/4 (any direction,
   any polarization), pump wavelength 1, signal wavelength 2 (idler 2): the unpoled mismatch is -pi/2, not 0 *)
From SpdVerif Require Import Proofs.C04_collinear Proofs.C03_base.
Lemma nonvacuous_collinear_dispersive :
  let index := fun (l : R) (_ : vec) (_ : polarization) => 1 + l / 4 in
  dkz_of index Type2_e_eo false (beam_new Ordinary 0 0 2 (1, 1)) (pump_new Ordinary 1 (1, 1)) PPOff = - (PI / 2) /\
  dkz_of index Type2_e_eo false (beam_new Ordinary 0 0 2 (1, 1)) (pump_new Ordinary 1 (1, 1)) PPOff <> 0 /\
  w_z index Ordinary Ordinary 0 0 2 1 (1, 1) (1, 1) PPOff <> 0 /\
  (forall x, 0 < x -> w_z index Ordinary Ordinary 0 0 2 1 (1, 1) (1, 1) (PPOn x false) <> 0).
Proof.
  intros index. pose proof PI_RGT_0 as HPI.
  assert (Hl2 : b_lambda (sigb Ordinary 0 0 2 (1, 1)) = 2) by (apply b_lambda_new; lra).
  assert (Hl1 : b_lambda (pumpb Ordinary 1 (1, 1)) = 1) by (apply b_lambda_new; lra).
  assert (Hns : n_s index Ordinary 0 0 2 (1, 1) = 3 / 2).
  { unfold n_s, refractive_index, beam_refractive_index, index. fold (frequency_to_vacuum_wavelength (b_omega (sigb Ordinary 0 0 2 (1, 1)))).
    unfold sigb, beam_new; cbn [b_omega]. rewrite frequency_to_vacuum_wavelength_new by lra. lra. }
  assert (Hnp : n_p index Ordinary 1 (1, 1) = 5 / 4).
  { unfold n_p, refractive_index, beam_refractive_index, index. fold (frequency_to_vacuum_wavelength (b_omega (pumpb Ordinary 1 (1, 1)))).
    unfold pumpb, pump_new, beam_new; cbn [b_omega]. rewrite frequency_to_vacuum_wavelength_new by lra. lra. }
  assert (Hw0 : w_z index Ordinary Ordinary 0 0 2 1 (1, 1) (1, 1) PPOff = 1).
  { unfold w_z, kpp. rewrite Hns, Hnp, pp_k_pp_eq, cos_0. lra. }
  assert (Hz : dkz_of index Type2_e_eo false (beam_new Ordinary 0 0 2 (1, 1)) (pump_new Ordinary 1 (1, 1)) PPOff = - (PI / 2)).
  { change (dkz_c index Type2_e_eo Ordinary Ordinary 0 2 1 (1, 1) (1, 1) PPOff = - (PI / 2)).
    rewrite (dkz_c_eq index Type2_e_eo Ordinary Ordinary 0 2 1 (1, 1) (1, 1) ltac:(lra) ltac:(lra) PPOff) by (rewrite Hw0; lra).
    rewrite pp_k_eff_eq. unfold wavevector. rewrite !beam_wavevector_eq.
    fold (n_s index Ordinary 0 0 2 (1, 1)) (n_p index Ordinary 1 (1, 1)). rewrite Hns, Hnp.
    rewrite (sig_dir Ordinary 0 0 2 (1, 1)), (pump_dir Ordinary 1 (1, 1)), polar_0_0.
    rewrite (sig_omega Ordinary 0 0 2 (1, 1)) by lra. rewrite (pump_omega Ordinary 1 (1, 1)) by lra.
    rewrite Hl2, Hl1. unfold idler_wavelength. replace (2 * 1 / (2 - 1)) with 2 by field.
    rewrite frequency_to_vacuum_wavelength_new by lra. rewrite beam_new_frequency_eq by lra.
    unfold index, vsub, vscale, ez, vz, vx, vy, c_light; cbn [fst snd]. field. }
  split; [exact Hz | split; [rewrite Hz; lra | split; [rewrite Hw0; lra|]]].
  intros x Hx. unfold w_z, kpp. rewrite Hns, Hnp, pp_k_pp_eq, cos_0. unfold sign_val.
  replace (2 / (-1 * x)) with (- (2 / x)) by (field; lra).
  assert (0 < 2 / x) by (apply Rdiv_lt_0_compat; lra). lra.
Qed.
