(* C04 — non-vacuity: a mismatch of the collinear form for which the auto period is returned. *)
From Coq Require Import Reals Lra Bool.
From SpdVerif Require Import Base.Rx Gen.Idler Gen.AutoCalc Model.Idler Model.NM1d Model.AutoCalc Proofs.C03_base Proofs.C04_nm Proofs.C04_poling.
Local Open Scope R_scope.

Lemma min_period_small : opp_min_period <= 1e-9.
Proof.
  unfold opp_min_period, f64_min_positive.
  assert (H30 : 10 ^ 9 <= 2 ^ 30) by (simpl; lra).
  assert (Hm : 2 ^ 30 <= 2 ^ 1022) by (apply Rle_pow; [lra | repeat constructor]).
  assert (H : / 2 ^ 1022 <= / 10 ^ 9) by (apply Rinv_le_contravar; [simpl; lra | lra]).
  replace 1e-9 with (/ 10 ^ 9) by (simpl; lra). exact H.
Qed.

(* unpoled mismatch 2 pi * 1000 rad/m (period 1 mm), collinear form, crystal length 10 mm *)
Definition ex_dkz (pp : poling) : R :=
  match pp with PPOff => 2 * PI * 1000 | PPOn p s => 2 * PI * 1000 - 2 * PI / (sign_val s * p) end.

Lemma nonvacuous o sd : optimum_poling_period ex_dkz o sd (1 / 100) = AutoOk (1 / 1000).
Proof.
  pose proof PI_RGT_0 as HPI. pose proof min_period_small as Hm.
  assert (Hz : z0 ex_dkz = 2 * PI * 1000) by reflexivity.
  assert (Hg : 2 * PI / z0 ex_dkz = 1 / 1000) by (rewrite Hz; field; lra).
  destruct (collinear_exact ex_dkz o sd (1 / 100)) as [H _].
  - intros x _ _. reflexivity.
  - rewrite Hz. nra.
  - rewrite Hg, Rabs_right by lra. lra.
  - rewrite Hg in H. exact H.
Qed.

(* the hypotheses of the collinear mismatch formula are satisfiable: constant index 3/2, wavelengths 2 and 1, negative sign *)
From SpdVerif Require Import Base.Vec3 Proofs.C03_idler.
Lemma nonvacuous_collinear :
  let index := fun (_ : R) (_ : vec) (_ : polarization) => 3 / 2 in
  w_z index Ordinary Ordinary 0 0 2 1 (1, 1) (1, 1) PPOff <> 0 /\ w_z index Ordinary Ordinary 0 0 2 1 (1, 1) (1, 1) (PPOn 1 false) <> 0.
Proof.
  intros index. unfold w_z, n_p, n_s, kpp, refractive_index, beam_refractive_index, index, pp_k_pp, idler_k_pp, pp_signed_period_on, sign_mul.
  rewrite cos_0. split; [lra|]. replace (2 / (1 * -1)) with (-2) by (field; lra). lra.
Qed.
