(* C05 — Simpson-48 near ff = 0, and the (vanishing) sine part on the whole range. *)
From Coq Require Import Reals Lra List.
From Coquelicot Require Import Coquelicot.
From Interval Require Import Tactic.
From SpdVerif Require Import Model.PMLimit Proofs.C05_simpson_tac.
Local Open Scope R_scope.

Lemma simpson48_cos_near ff : 0 <= ff <= 1 / 1024 ->
  Rabs (1 / 2 * simpson (fun z => cos (ff * z)) (-1) 1 50 - 1) <= 1e-6.
Proof.
  intros H. simpson48_expand.
  interval with (i_taylor ff, i_degree 4, i_prec 60).
Qed.

Lemma simpson48_sin ff : -4 * PI <= ff <= 4 * PI ->
  Rabs (1 / 2 * simpson (fun z => sin (ff * z)) (-1) 1 50) <= 1e-9.
Proof.
  intros H. simpson48_expand.
  interval with (i_taylor ff, i_degree 8, i_bisect ff, i_prec 80, i_depth 12).
Qed.

