(* C15 — the census of EVERY parallel call site of the crate (Gen/C15_ParSites.v) against the driver model: each generated
   descriptor must classify into a shape, and each shape IS a theorem (a universally quantified statement about the producers and
   drivers of Model/Producer.v), proved here.  par_bridge, for_each, reduce, fold, rayon::join/scope/spawn, … classify to nothing. *)
From Coq Require Import String List Arith Bool Lia Reals.
From SpdVerif Require Import Base.GridOps Gen.Grid Gen.C15_ParSites Model.Grid Model.Producer
  Proofs.C15_generic Proofs.C15_inst Proofs.C15_sites.
Import ListNotations.

(* ------------------------------------------------------------------------------------------------ Vec producer *)
Lemma collect_list {A B} (f : A -> B) : forall t (l : list A), admissible 0 t (length l) ->
  run_collect (pmap f prod_list) t (length l) l = Ok (map f l).
Proof.
  induction t as [|k tl IHl tr IHr]; intros l Hadm; cbn [run_collect].
  - cbn [pmap p_items prod_list]. rewrite map_length, Nat.eqb_refl. reflexivity.
  - cbn [admissible] in Hadm. destruct Hadm as (Hk & Hl & Hr).
    cbn [pmap p_split prod_list]. rewrite (proj2 (Nat.leb_le k (length l))) by lia. cbn [obind fst snd].
    pose proof (IHl (firstn k l)) as Il. rewrite firstn_length_le in Il by lia. rewrite Il by exact Hl. cbn [obind].
    pose proof (IHr (skipn k l)) as Ir. rewrite skipn_length in Ir. rewrite Ir by exact Hr. cbn [obind].
    rewrite <- map_app, firstn_skipn. reflexivity.
Qed.

(* composition of two maps over a producer is the map of the composition (MapProducer over MapProducer) *)
Lemma pmap_pmap_items {P A B C} (D : producer P A) (g : A -> B) (f : B -> C) p :
  p_items (pmap f (pmap g D)) p = p_items (pmap (fun x => f (g x)) D) p.
Proof. cbn. apply map_map. Qed.

Lemma run_collect_ext {P A} (D1 D2 : producer P A) :
  (forall p k, p_split D1 p k = p_split D2 p k) -> (forall p, p_items D1 p = p_items D2 p) ->
  forall t m p, run_collect D1 t m p = run_collect D2 t m p.
Proof.
  intros Hs Hi t; induction t as [|k l IHl r IHr]; intros m p; cbn [run_collect].
  - rewrite Hi. reflexivity.
  - rewrite Hs. destruct (p_split D2 p k) as [[pl pr]|]; cbn [obind fst snd]; [|reflexivity].
    rewrite IHl, IHr. reflexivity.
Qed.

(* ------------------------------------------------------------------------------------------------ shapes *)
Inductive shape :=
  | Sh_grid_iter          (* Steps2D.into_par_iter(), returned as the space's parallel iterator *)
  | Sh_grid_map_iter      (* … .map(point map) *)
  | Sh_vec_iter           (* Vec.into_par_iter() *)
  | Sh_vec_map_iter
  | Sh_space_map_collect  (* <space>.into_signal_idler_par_iterator().map(f).collect() — the range evaluators *)
  | Sh_grid_map_collect   (* ranges.as_steps().into_par_iter().map(f).collect() *)
  | Sh_grid_map_sum
  | Sh_grid_enum_map_sum
  | Sh_steps_enum_map_sum
  | Sh_range_map_map_sum.

Definition monoid {B} (op : B -> B -> B) (e0 : B) : Prop :=
  (forall x y z, op x (op y z) = op (op x y) z) /\ (forall x, op e0 x = x) /\ (forall x, op x e0 = x).

(* what each shape asserts: under EVERY admissible split tree the driver returns the sequential result *)
Definition grid_collect_stmt : Prop :=
  forall T (O : ops T) x0 x1 nx y0 y1 ny B (f : T * T -> B) t, admissible 0 t (nx * ny) ->
    run_collect (pmap f (prod2d O x0 x1 nx y0 y1 ny)) t (nx * ny) (root2d nx ny) = Ok (map f (seq2d O x0 x1 nx y0 y1 ny)).
Definition grid_map_collect_stmt : Prop :=
  forall T (O : ops T) x0 x1 nx y0 y1 ny B C (g : T * T -> B) (f : B -> C) t, admissible 0 t (nx * ny) ->
    run_collect (pmap f (pmap g (prod2d O x0 x1 nx y0 y1 ny))) t (nx * ny) (root2d nx ny) = Ok (map f (map g (seq2d O x0 x1 nx y0 y1 ny))).
Definition vec_collect_stmt : Prop :=
  forall A B (f : A -> B) t (l : list A), admissible 0 t (length l) -> run_collect (pmap f prod_list) t (length l) l = Ok (map f l).
Definition vec_map_collect_stmt : Prop :=
  forall A B C (g : A -> B) (f : B -> C) t (l : list A), admissible 0 t (length l) ->
    run_collect (pmap f (pmap g prod_list)) t (length l) l = Ok (map f (map g l)).

Definition shape_holds (sh : shape) : Prop :=
  match sh with
  | Sh_grid_iter | Sh_grid_map_collect => grid_collect_stmt
  | Sh_grid_map_iter => grid_map_collect_stmt
  | Sh_vec_iter => vec_collect_stmt
  | Sh_vec_map_iter => vec_map_collect_stmt
  | Sh_space_map_collect => grid_collect_stmt /\ grid_map_collect_stmt /\ vec_collect_stmt /\ vec_map_collect_stmt
  | Sh_grid_map_sum =>
      forall B (op : B -> B -> B) e0, monoid op e0 -> forall T (O : ops T) x0 x1 nx y0 y1 ny (f : T * T -> B) t, admissible 0 t (nx * ny) ->
        run_reduce (prod2d O x0 x1 nx y0 y1 ny) op e0 f t (root2d nx ny) = Ok (fold_left (fun acc a => op acc (f a)) (seq2d O x0 x1 nx y0 y1 ny) e0)
  | Sh_grid_enum_map_sum =>
      forall B (op : B -> B -> B) e0, monoid op e0 -> forall T (O : ops T) x0 x1 nx y0 y1 ny (f : nat * (T * T) -> B) t, admissible 0 t (nx * ny) ->
        run_reduce (penum (prod2d O x0 x1 nx y0 y1 ny)) op e0 f t (0, root2d nx ny) =
        Ok (fold_left (fun acc x => op acc (f x)) (combine (seq 0 (nx * ny)) (seq2d O x0 x1 nx y0 y1 ny)) e0)
  | Sh_steps_enum_map_sum =>
      forall B (op : B -> B -> B) e0, monoid op e0 -> forall (s e : R) n (f : nat * R -> B) t, admissible 1 t n ->
        run_reduce (penum (prod1d Rops)) op e0 f t (0, root1d s e n) = Ok (fold_left (fun acc x => op acc (f x)) (combine (seq 0 n) (seq1d Rops s e n)) e0)
  | Sh_range_map_map_sum =>
      forall B (op : B -> B -> B) e0, monoid op e0 -> forall (g : nat -> B) r t, admissible 0 t (range_count r) ->
        run_reduce prod_range op e0 g t (range_root r) = Ok (fold_left (fun acc n => op acc (g n)) (range_list r) e0)
  end.

Lemma grid_collect_holds : grid_collect_stmt.
Proof. intros T O x0 x1 nx y0 y1 ny B f t H. apply range2d; exact H. Qed.

Lemma grid_map_collect_holds : grid_map_collect_stmt.
Proof.
  intros T O x0 x1 nx y0 y1 ny B C g f t H.
  rewrite (run_collect_ext _ (pmap (fun x => f (g x)) (prod2d O x0 x1 nx y0 y1 ny))); [| reflexivity | intros p; apply pmap_pmap_items].
  rewrite map_map. apply range2d; exact H.
Qed.

Lemma vec_map_collect_holds : vec_map_collect_stmt.
Proof.
  intros A B C g f t l H.
  rewrite (run_collect_ext _ (pmap (fun x => f (g x)) prod_list)); [| reflexivity | intros p; apply pmap_pmap_items].
  rewrite map_map. apply collect_list; exact H.
Qed.

Theorem every_shape_holds : forall sh, shape_holds sh.
Proof.
  intros []; cbn [shape_holds].
  - exact grid_collect_holds.
  - exact grid_map_collect_holds.
  - intros A B f t l H. apply collect_list; exact H.
  - exact vec_map_collect_holds.
  - repeat split; [exact grid_collect_holds | exact grid_map_collect_holds | intros A B f t l H; apply collect_list; exact H | exact vec_map_collect_holds].
  - exact grid_collect_holds.
  - intros B op e0 (Ha & Hl & Hr) T O x0 x1 nx y0 y1 ny f t H. apply reduce2d; assumption.
  - intros B op e0 (Ha & Hl & Hr) T O x0 x1 nx y0 y1 ny f t H. apply reduce_enum2d; assumption.
  - intros B op e0 (Ha & Hl & Hr) s e n f t H. apply reduce_enum1d; assumption.
  - intros B op e0 (Ha & Hl & Hr) g r t H. apply reduce_range; assumption.
Qed.

(* ------------------------------------------------------------------------------------------------ classification *)
Local Open Scope string_scope.
Definition leq (a b : list string) : bool := if list_eq_dec string_dec a b then true else false.

Definition classify (s : psite) : option shape :=
  let P := ps_producer s in let E := ps_entry s in let pre := ps_pre s in let ad := ps_adaptors s in let tm := ps_terminal s in
  if String.eqb E "into_signal_idler_par_iterator" then
    if String.eqb P "SignalIdlerSpace" && leq pre [] && leq ad ["map"] && String.eqb tm "collect" then Some Sh_space_map_collect else None
  else if negb (String.eqb E "into_par_iter") then None
  else if String.eqb P "Steps2D" && leq pre [] && leq ad [] && String.eqb tm "iter" then Some Sh_grid_iter
  else if String.eqb P "Steps2D" && leq pre [] && leq ad ["map"] && String.eqb tm "iter" then Some Sh_grid_map_iter
  else if String.eqb P "Vec" && leq pre [] && leq ad [] && String.eqb tm "iter" then Some Sh_vec_iter
  else if String.eqb P "Vec" && leq pre [] && leq ad ["map"] && String.eqb tm "iter" then Some Sh_vec_map_iter
  else if String.eqb P "Steps2D" && leq pre ["as_steps"] && leq ad ["map"] && String.eqb tm "collect" then Some Sh_grid_map_collect
  else if String.eqb P "Steps2D" && leq pre ["as_steps"] && leq ad ["map"] && String.eqb tm "sum" then Some Sh_grid_map_sum
  else if String.eqb P "Steps2D" && leq pre ["as_steps"] && leq ad ["enumerate"; "map"] && String.eqb tm "sum" then Some Sh_grid_enum_map_sum
  else if String.eqb P "Steps1D" && leq pre [] && leq ad ["enumerate"; "map"] && String.eqb tm "sum" then Some Sh_steps_enum_map_sum
  else if String.eqb P "RangeInclusive" && leq pre [] && leq ad ["map"; "map"] && String.eqb tm "sum" then Some Sh_range_map_map_sum
  else None.

(* every parallel call site found in the crate classifies, and its shape's statement holds *)
Theorem par_sites_sound : Forall (fun s => exists sh, classify s = Some sh /\ shape_holds sh) par_sites.
Proof.
  assert (H : forallb (fun s => match classify s with Some _ => true | None => false end) par_sites = true) by (vm_compute; reflexivity).
  rewrite forallb_forall in H. apply Forall_forall. intros s Hs. specialize (H s Hs).
  destruct (classify s) as [sh|] eqn:E; [|discriminate]. exists sh. split; [reflexivity | apply every_shape_holds].
Qed.

(* the functions the property names are all in the census (nothing parallel hides outside it: the generator counts the text) *)
Definition in_census (fn : string) : bool := existsb (fun s => String.eqb (ps_fn s) fn) par_sites.
Lemma census_complete :
  forallb in_census ["JointSpectrum::jsa_range"; "JointSpectrum::jsa_normalized_range"; "JointSpectrum::jsi_range"; "JointSpectrum::jsi_normalized_range";
                     "JointSpectrum::jsi_singles_range"; "JointSpectrum::jsi_singles_idler_range"; "JointSpectrum::jsi_singles_normalized_range";
                     "JointSpectrum::jsi_singles_idler_normalized_range";
                     "FrequencySpace::into_signal_idler_par_iterator"; "SumDiffFrequencySpace::into_signal_idler_par_iterator";
                     "WavelengthSpace::into_signal_idler_par_iterator"; "SignalIdlerWavelengthArray::into_signal_idler_par_iterator";
                     "SignalIdlerFrequencyArray::into_signal_idler_par_iterator";
                     "simpson"; "simpson2d"; "counts_coincidences"; "counts_singles_signal"; "counts_singles_idler"; "hom_rate"; "SPDC::hom_rate_series"] = true
  /\ length par_sites = 21.
Proof. vm_compute. split; reflexivity. Qed.

(* pinned: which range evaluators have a point value that is a quadrature (2-D: always parallel; 1-D: parallel from 128 slices on) *)
Lemma quadrature_table_pinned :
  range_quadrature =
  [("jsa_range", (false, true)); ("jsa_normalized_range", (false, true)); ("jsi_range", (false, true)); ("jsi_normalized_range", (false, true));
   ("jsi_singles_range", (true, true)); ("jsi_singles_idler_range", (true, true)); ("jsi_singles_normalized_range", (true, true));
   ("jsi_singles_idler_normalized_range", (true, true))]%string.
Proof. reflexivity. Qed.
