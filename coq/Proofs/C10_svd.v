(* C10 — purity in trace form: tr((F F^dagger)^2) = tr((F^dagger F)^2) (cyclicity), and for ANY factorisation
   F = U diag(sv) V^dagger with orthonormal columns: tr(F^dagger F) = sum sv^2, tr((F^dagger F)^2) = sum sv^4. *)
From Coq Require Import Reals Lra Lia Arith Setoid Morphisms.
From SpdVerif Require Import Model.FinSum Model.Hom Model.Hom2 Proofs.FinSum_lemmas Proofs.Cx_lemmas Proofs.CMat.
Local Open Scope R_scope.

(* the model's component-wise definitions are the matrix expressions *)
Lemma FhF_mmul n M : FhF ROps n M = cmmul n (cmH M) M.
Proof. reflexivity. Qed.

Lemma FFh_mmul n M : FFh ROps n M = cmmul n M (cmH M).
Proof. reflexivity. Qed.

Lemma re_tr_sq_mtr n X : re_tr_sq ROps n X = fst (cmtr n (cmmul n X X)).
Proof. reflexivity. Qed.

Lemma frob2_mtr n M : frob2 ROps n M = fst (cmtr n (cmmul n (cmH M) M)).
Proof.
  unfold frob2, cmtr, cmmul, cmH. rewrite csum_pair. cbn [fst]. change (gsum ROps) with rsum.
  apply rsum_ext; intros i _. rewrite csum_pair. cbn [fst]. apply rsum_ext; intros s _.
  rewrite cmul_conj_self. reflexivity.
Qed.

Lemma purity_s_unfold n M : purity_s ROps n M = re_tr_sq ROps n (FFh ROps n M) / (frob2 ROps n M * frob2 ROps n M).
Proof. reflexivity. Qed.

Lemma purity_i_unfold n M : purity_i ROps n M = re_tr_sq ROps n (FhF ROps n M) / (frob2 ROps n M * frob2 ROps n M).
Proof. reflexivity. Qed.

(* trace cyclicity: tr((F F^H)(F F^H)) = tr((F^H F)(F^H F)) *)
Lemma tr_sq_cyclic n M :
  cmtr n (cmmul n (cmmul n M (cmH M)) (cmmul n M (cmH M))) = cmtr n (cmmul n (cmmul n (cmH M) M) (cmmul n (cmH M) M)).
Proof.
  rewrite (cmmul_assoc n M (cmH M) (cmmul n M (cmH M))).
  rewrite cmtr_comm.
  rewrite (cmmul_assoc n (cmH M) (cmmul n M (cmH M)) M).
  rewrite (cmmul_assoc n M (cmH M) M).
  rewrite <- (cmmul_assoc n (cmH M) M (cmmul n (cmH M) M)). reflexivity.
Qed.

Theorem purity_s_eq_i n M : purity_s ROps n M = purity_i ROps n M.
Proof.
  rewrite purity_s_unfold, purity_i_unfold, !re_tr_sq_mtr, FFh_mmul, FhF_mmul, tr_sq_cyclic. reflexivity.
Qed.

(* ---- singular values *)
Lemma unitary_meq n U : unitary_cols n U -> cmeq n (cmmul n (cmH U) U) cmI.
Proof. intros H k l Hk Hl. unfold cmmul, cmH, cmI. apply H; assumption. Qed.

Lemma ctr_conj n V d : cmeq n (cmmul n (cmH V) V) cmI -> cmtr n (cmmul n V (cmmul n (cmdiag d) (cmH V))) = (rsum n d, 0).
Proof.
  intros HV. rewrite cmtr_comm. rewrite (cmmul_assoc n (cmdiag d) (cmH V) V). rewrite HV.
  rewrite (cmmul_I_r n (cmdiag d)). apply cmtr_diag.
Qed.

Lemma cconj_mul n V d e :
  cmeq n (cmmul n (cmH V) V) cmI ->
  cmeq n (cmmul n (cmmul n V (cmmul n (cmdiag d) (cmH V))) (cmmul n V (cmmul n (cmdiag e) (cmH V))))
         (cmmul n V (cmmul n (cmdiag (fun k => d k * e k)) (cmH V))).
Proof.
  intros HV.
  rewrite (cmmul_assoc n V (cmmul n (cmdiag d) (cmH V)) _).
  rewrite (cmmul_assoc n (cmdiag d) (cmH V) _).
  rewrite <- (cmmul_assoc n (cmH V) V _).
  rewrite HV. rewrite (cmmul_I_l n _).
  rewrite <- (cmmul_assoc n (cmdiag d) (cmdiag e) (cmH V)).
  rewrite (cmdiag_mul n d e). reflexivity.
Qed.

Lemma csvd_gram n M sv U V :
  cmeq n (cmmul n (cmH U) U) cmI ->
  cmeq n M (cmmul n (cmmul n U (cmdiag sv)) (cmH V)) ->
  cmeq n (cmmul n (cmH M) M) (cmmul n V (cmmul n (cmdiag (fun k => sv k * sv k)) (cmH V))).
Proof.
  intros HU HM. rewrite HM.
  rewrite (cmH_mmul n (cmmul n U (cmdiag sv)) (cmH V)).
  rewrite (cmH_mmul n U (cmdiag sv)). rewrite (cmH_H n V). rewrite (cmH_diag n sv).
  rewrite (cmmul_assoc n V (cmmul n (cmdiag sv) (cmH U)) _).
  rewrite (cmmul_assoc n (cmdiag sv) (cmH U) _).
  rewrite <- (cmmul_assoc n (cmH U) (cmmul n U (cmdiag sv)) (cmH V)).
  rewrite <- (cmmul_assoc n (cmH U) U (cmdiag sv)).
  rewrite HU. rewrite (cmmul_I_l n (cmdiag sv)).
  rewrite <- (cmmul_assoc n (cmdiag sv) (cmdiag sv) (cmH V)).
  rewrite (cmdiag_mul n sv sv). reflexivity.
Qed.

Lemma is_csvd_factor n M sv U V :
  (forall s i, (s < n)%nat -> (i < n)%nat -> M s i = csum n (fun k => U s k *c (sv k, 0) *c (V i k)^*)) ->
  cmeq n M (cmmul n (cmmul n U (cmdiag sv)) (cmH V)).
Proof.
  intros H s i Hs Hi. rewrite (H s i Hs Hi). unfold cmmul, cmH, cmdiag. apply csum_ext; intros l Hl.
  f_equal. rewrite <- (csum_delta_l n l (fun k => U s k *c (sv k, 0)) Hl).
  apply csum_ext; intros k _. destruct (Nat.eqb k l); unfold c0, c1; cx_destruct; cx_unfold;
    apply injective_projections; cbn [fst snd]; ring.
Qed.

Theorem csvd_power_sums n M sv :
  is_csvd n M sv ->
  frob2 ROps n M = rsum n (fun k => sv k * sv k) /\
  re_tr_sq ROps n (FhF ROps n M) = rsum n (fun k => sv k ^ 4) /\
  re_tr_sq ROps n (FFh ROps n M) = rsum n (fun k => sv k ^ 4).
Proof.
  intros (U & V & HU & HV & HM).
  apply unitary_meq in HU. apply unitary_meq in HV. apply is_csvd_factor in HM.
  pose proof (csvd_gram n M sv U V HU HM) as HG.
  assert (E4 : re_tr_sq ROps n (FhF ROps n M) = rsum n (fun k => sv k ^ 4)).
  { rewrite re_tr_sq_mtr, FhF_mmul, HG, (cconj_mul n V _ _ HV), (ctr_conj n V _ HV). cbn [fst].
    apply rsum_ext; intros k _. ring. }
  split; [|split].
  - rewrite frob2_mtr, HG, (ctr_conj n V _ HV). reflexivity.
  - exact E4.
  - rewrite re_tr_sq_mtr, FFh_mmul, tr_sq_cyclic, <- FhF_mmul, <- re_tr_sq_mtr. exact E4.
Qed.

Theorem purity_singular_values n M sv :
  is_csvd n M sv -> frob2 ROps n M <> 0 ->
  rsum n (fun k => sv k * sv k) <> 0 /\ purity_s ROps n M = purity_sv n sv /\ purity_i ROps n M = purity_sv n sv.
Proof.
  intros H HF. assert (H0 : rsum n (fun k => sv k * sv k) <> 0) by (destruct (csvd_power_sums n M sv H) as (E2 & _); rewrite <- E2; exact HF).
  split; [exact H0|]. clear HF H0. destruct (csvd_power_sums n M sv H) as (E2 & E4i & E4s).
  rewrite purity_s_unfold, purity_i_unfold, E2, E4i, E4s. split; reflexivity.
Qed.

(* non-vacuity with a genuinely two-dimensional complex factorisation: [[0, 2i], [3, 0]] = U diag(2, 3) V^dagger,
   U = diag(i, 1), V = the swap *)
Example csvd_example_2 :
  is_csvd 2 (fun s i => if Nat.eqb s i then (0, 0) else if Nat.eqb s 0 then (0, 2) else (3, 0)) (fun k => if Nat.eqb k 0 then 2 else 3).
Proof.
  exists (fun s k => if Nat.eqb s k then (if Nat.eqb s 0 then (0, 1) else (1, 0)) else (0, 0)),
         (fun i k => if Nat.eqb i k then (0, 0) else (1, 0)).
  unfold unitary_cols, csum, gcsum. repeat split; intros;
  repeat match goal with
  | H : (?x < 2)%nat |- _ => (destruct x as [|[|?]]; [| |lia]); clear H
  end; cbn; apply injective_projections; cbn; lra.
Qed.
