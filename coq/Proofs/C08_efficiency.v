(* C08 clause "efficiencies derived from rates": about the GENERATED efficiencies_from_counts (Gen/Efficiencies.v) and its
   generated definedness predicate (one conjunct per division / sqrt the Rust body performs, under its path condition). *)
From Coq Require Import Reals Bool Lra.
From SpdVerif Require Import Base.Rx Gen.Efficiencies.
Local Open Scope R_scope.

Lemma eqz_true x : (if Req_EM_T x 0 then true else false) = true <-> x = 0.
Proof. destruct (Req_EM_T x 0); split; intros; try reflexivity; try assumption; try discriminate; contradiction. Qed.
Lemma eqz_false x : (if Req_EM_T x 0 then true else false) = false <-> x <> 0.
Proof. destruct (Req_EM_T x 0); split; intros; try reflexivity; try assumption; try discriminate; contradiction. Qed.

(* no division by zero, no sqrt of a negative number is ever performed, for all non-negative singles rates (any c).
   The symmetric efficiency divides by sqrt(Rs) * sqrt(Ri) (F19: not by sqrt(Rs * Ri), whose argument can leave binary64) *)
Lemma efficiencies_defined c rs ri : 0 <= rs -> 0 <= ri -> efficiencies_from_counts_defined c rs ri.
Proof.
  intros Hs Hi. unfold efficiencies_from_counts_defined.
  split; [intros H; apply eqz_false in H; exact H|].
  split; [intros H; apply eqz_false in H; exact H|].
  split; [intros _; lra|]. split; [intros _; lra|].
  intros H; apply orb_false_iff in H; destruct H as [H1 H2]; apply eqz_false in H1, H2.
  assert (0 < sqrt (rs * 1)) by (apply sqrt_lt_R0; lra). assert (0 < sqrt (ri * 1)) by (apply sqrt_lt_R0; lra).
  apply Rgt_not_eq. apply Rmult_lt_0_compat; assumption.
Qed.

(* the values *)
Lemma efficiencies_values c rs ri :
  let e := efficiencies_from_counts c rs ri in
  (ri <> 0 -> eff_signal e = c / ri) /\ (ri = 0 -> eff_signal e = 0) /\
  (rs <> 0 -> eff_idler e = c / rs) /\ (rs = 0 -> eff_idler e = 0) /\
  (rs <> 0 -> ri <> 0 -> eff_symmetric e = c / (sqrt rs * sqrt ri)) /\ (rs = 0 \/ ri = 0 -> eff_symmetric e = 0) /\
  eff_coincidences e = c /\ eff_signal_singles e = rs /\ eff_idler_singles e = ri.
Proof.
  cbn zeta. unfold efficiencies_from_counts.
  cbn [eff_symmetric eff_signal eff_idler eff_coincidences eff_signal_singles eff_idler_singles].
  repeat split; try reflexivity.
  - intros H. destruct (Req_EM_T ri 0); [contradiction|reflexivity].
  - intros H. destruct (Req_EM_T ri 0); [reflexivity|contradiction].
  - intros H. destruct (Req_EM_T rs 0); [contradiction|reflexivity].
  - intros H. destruct (Req_EM_T rs 0); [reflexivity|contradiction].
  - intros H1 H2. destruct (Req_EM_T rs 0); [contradiction|]. destruct (Req_EM_T ri 0); [contradiction|]. cbn [orb].
    destruct (bool_dec false true) as [F|_]; [discriminate F|].
    replace (rs * 1) with rs by ring. replace (ri * 1) with ri by ring. replace (c * 1) with c by ring. reflexivity.
  - intros [H|H]; destruct (Req_EM_T rs 0), (Req_EM_T ri 0); try contradiction; cbn [orb];
      destruct (bool_dec true true) as [_|F]; try reflexivity; exfalso; apply F; reflexivity.
Qed.

(* over the reals, for non-negative rates, this is the property's C / sqrt(Rs Ri) *)
Lemma symmetric_is_property_form c rs ri :
  0 <= rs -> 0 <= ri -> rs <> 0 -> ri <> 0 -> eff_symmetric (efficiencies_from_counts c rs ri) = c / sqrt (rs * ri).
Proof.
  intros Hs Hi Ns Ni. destruct (efficiencies_values c rs ri) as (_ & _ & _ & _ & Y1 & _). rewrite (Y1 Ns Ni).
  rewrite sqrt_mult_alt by assumption. reflexivity.
Qed.

(* coincidences <= both singles  ==>  all three efficiencies in [0,1] *)
Lemma efficiencies_in_unit c rs ri :
  0 <= c -> c <= rs -> c <= ri ->
  let e := efficiencies_from_counts c rs ri in
  0 <= eff_signal e <= 1 /\ 0 <= eff_idler e <= 1 /\ 0 <= eff_symmetric e <= 1.
Proof.
  intros Hc Hs Hi. cbn zeta.
  destruct (efficiencies_values c rs ri) as (S1 & S0 & I1 & I0 & Y1 & Y0 & _).
  assert (Hdiv : forall d, 0 < d -> c <= d -> 0 <= c / d <= 1).
  { intros d Hd Hcd. split.
    - apply Rmult_le_pos; [assumption|]. left. apply Rinv_0_lt_compat. assumption.
    - apply Rmult_le_reg_r with d; [assumption|]. unfold Rdiv. rewrite Rmult_assoc, Rinv_l by lra. lra. }
  split; [|split].
  - destruct (Req_dec ri 0) as [E|E]; [rewrite (S0 E); lra|]. rewrite (S1 E). apply Hdiv; lra.
  - destruct (Req_dec rs 0) as [E|E]; [rewrite (I0 E); lra|]. rewrite (I1 E). apply Hdiv; lra.
  - destruct (Req_dec rs 0) as [E|E]; [rewrite (Y0 (or_introl E)); lra|].
    destruct (Req_dec ri 0) as [E'|E']; [rewrite (Y0 (or_intror E')); lra|].
    rewrite (Y1 E E'). rewrite <- sqrt_mult_alt by lra. apply Hdiv.
    + apply sqrt_lt_R0. apply Rmult_lt_0_compat; lra.
    + destruct (Req_dec c 0) as [Ec|Ec]; [subst; apply sqrt_pos|].
      rewrite <- (sqrt_square c) by assumption. apply sqrt_le_1_alt. apply Rmult_le_compat; lra.
Qed.

(* symmetric efficiency is the geometric mean of the other two *)
Lemma efficiencies_geometric_mean c rs ri :
  0 <= c -> 0 < rs -> 0 < ri ->
  let e := efficiencies_from_counts c rs ri in eff_symmetric e = sqrt (eff_signal e * eff_idler e).
Proof.
  intros Hc Hs Hi. cbn zeta.
  destruct (efficiencies_values c rs ri) as (S1 & _ & I1 & _ & Y1 & _).
  rewrite S1, I1, Y1 by lra. rewrite <- sqrt_mult_alt by lra.
  replace (c / ri * (c / rs)) with ((c * c) / (rs * ri)) by (field; lra).
  rewrite sqrt_div_alt by (apply Rmult_lt_0_compat; assumption). rewrite sqrt_square by assumption. reflexivity.
Qed.

(* the guards are necessary: without them the quotient the code would form has a zero divisor *)
Lemma guards_needed : ~ (forall rs ri : R, 0 <= rs -> 0 <= ri -> ri <> 0 /\ rs <> 0).
Proof. intros H. destruct (H 0 0); lra. Qed.
