(* The generated conversions / width / normalisation equal the hand-pinned reference forms of Spec/Normalization.v. *)
From Coq Require Import Reals Bool Lra.
From SpdVerif Require Import Base.Rx Model.SpectrumSetup Gen.Spectrum Spec.Normalization Proofs.C07_envelope.
Local Open Scope R_scope.

Lemma conversion_spec l :
  vacuum_wavelength_to_frequency l = spec_omega_of_lambda l /\ frequency_to_vacuum_wavelength l = spec_omega_of_lambda l.
Proof.
  unfold vacuum_wavelength_to_frequency, frequency_to_vacuum_wavelength, spec_omega_of_lambda, spec_c.
  replace (l * 1) with l by ring. split; unfold Rdiv; ring.
Qed.

Lemma width_spec l f : fwhm_to_spectral_width l f = spec_width l f.
Proof.
  unfold fwhm_to_spectral_width, spec_width, spec_span. rewrite !(proj1 (conversion_spec _)).
  replace (0.5 * f) with (f / 2) by lra. reflexivity.
Qed.

Lemma common_norm_spec ws wi s :
  common_norm ws wi s =
  spec_common_norm (pp_off s) (wpx s) (wpy s) (deff s) (len s) (power s)
    (spec_width (spec_omega_of_lambda (omega_p s)) (fwhm s)) ws wi (n_s s ws) (n_i s wi).
Proof.
  unfold common_norm, spec_common_norm, spec_poling_coeff, spec_c, spec_eps0.
  rewrite width_spec, (proj2 (conversion_spec _)).
  set (W := spec_width _ _). set (e1 := 8.854187817e-12). set (e2 := 1e-3). set (c := 299792458).
  replace (n_s s ws * n_i s wi * (n_s s ws * n_i s wi)) with ((n_s s ws * n_i s wi) ^ 2) by ring.
  replace (4 * PI ^ 5 * sqrt (2 * PI) * c * c * c * (e1 * e2 / 1)) with (4 * PI ^ 5 * sqrt (2 * PI) * c ^ 3 * (e1 * e2))
    by (unfold Rdiv; rewrite Rinv_1; ring).
  assert (Hpp : (1 * (if bool_dec (pp_off s) true then 1 else 2 / PI)) = (if pp_off s then 1 else 2 / PI)).
  { destruct (pp_off s); destruct (bool_dec _ true) as [E|E]; try discriminate E; try (exfalso; apply E; reflexivity); ring. }
  rewrite Hpp. unfold Rdiv. rewrite ?Rinv_1. ring.
Qed.
