(* C13 — angle normalisation, the cached direction. *)
From Coq Require Import Reals Lra Lia ZArith.
From SpdVerif Require Import Base.Rx Model.Optics Model.Fresnel Gen.Beam Model.Beam Proofs.C02_frame.
Local Open Scope R_scope.

Lemma div1 x : x / 1 = x. Proof. field. Qed.
Lemma mul1 x : x * 1 = x. Proof. ring. Qed.

Lemma two_pi_pos : 0 < 2 * PI. Proof. pose proof PI_RGT_0. lra. Qed.

Lemma norm_u_range x : 0 <= norm_u x < 2 * PI.
Proof. apply rem_euclid_range, two_pi_pos. Qed.

Lemma norm_u_congr x : congruent (norm_u x) x.
Proof. destruct (rem_euclid_congr x (2 * PI)) as [k Hk]. exists k. exact Hk. Qed.

Lemma norm_s_range x : - PI < norm_s x <= PI.
Proof.
  unfold norm_s. pose proof (norm_u_range x) as [H0 H1]. pose proof PI_RGT_0.
  destruct (Rgt_dec (norm_u x) PI) as [Hg | Hn]; lra.
Qed.

Lemma norm_s_congr x : congruent (norm_s x) x.
Proof.
  unfold norm_s. destruct (norm_u_congr x) as [k Hk].
  destruct (Rgt_dec (norm_u x) PI).
  - exists (k + 1)%Z. rewrite plus_IZR. lra.
  - exists k. exact Hk.
Qed.

Lemma congruent_refl a : congruent a a.
Proof. exists 0%Z. simpl. ring. Qed.

Lemma congruent_trans a b c : congruent a b -> congruent b c -> congruent a c.
Proof. intros [k Hk] [j Hj]. exists (k + j)%Z. rewrite plus_IZR. lra. Qed.

(* a value already in range is a fixed point *)
Lemma Rfloor_0_1 x : 0 <= x < 1 -> Rfloor x = 0.
Proof. intros H. apply (Rfloor_unique x 0). simpl. lra. Qed.

Lemma norm_u_fixed x : 0 <= x < 2 * PI -> norm_u x = x.
Proof.
  intros [H0 H1]. unfold norm_u, rem_euclid. pose proof two_pi_pos.
  rewrite Rfloor_0_1; [ring |].
  split.
  - apply Rmult_le_pos; [assumption | left; apply Rinv_0_lt_compat; assumption].
  - apply Rmult_lt_reg_r with (2 * PI); [assumption |]. unfold Rdiv. rewrite Rmult_assoc, Rinv_l by lra. lra.
Qed.

Lemma norm_u_0 : norm_u 0 = 0.
Proof. apply norm_u_fixed. pose proof two_pi_pos. lra. Qed.

Lemma norm_s_0 : norm_s 0 = 0.
Proof. unfold norm_s. rewrite norm_u_0. pose proof PI_RGT_0. destruct (Rgt_dec 0 PI); lra. Qed.

Lemma norm_s_fixed x : - PI < x <= PI -> norm_s x = x.
Proof.
  intros [H0 H1]. pose proof PI_RGT_0 as Hpi. unfold norm_s.
  destruct (Rle_dec 0 x) as [Hx | Hx].
  - rewrite norm_u_fixed by lra. destruct (Rgt_dec x PI); lra.
  - assert (E : norm_u x = x + 2 * PI).
    { unfold norm_u, rem_euclid. rewrite (Rfloor_unique (x / (2 * PI)) (-1)).
      - simpl. ring.
      - simpl. split.
        + apply Rmult_le_reg_r with (2 * PI); [lra |]. unfold Rdiv. rewrite Rmult_assoc, Rinv_l by lra. lra.
        + apply Rmult_lt_reg_r with (2 * PI); [lra |]. unfold Rdiv. rewrite Rmult_assoc, Rinv_l by lra. lra. }
    rewrite E. destruct (Rgt_dec (x + 2 * PI) PI); lra.
Qed.

(* the generated functions are these normal forms *)
Lemma normalize_angle_gen_eq x : normalize_angle_gen x = norm_u x.
Proof. unfold normalize_angle_gen. rewrite div1, mul1. reflexivity. Qed.

Lemma normalize_angle_signed_gen_eq x : normalize_angle_signed_gen x = norm_s x.
Proof. unfold normalize_angle_signed_gen. rewrite !div1, !mul1. reflexivity. Qed.

(* Unit::new_normalize of the polar vector is the polar vector *)
Lemma normalize_polar phi theta : normalize (polar_dir phi theta) = polar_dir phi theta.
Proof.
  unfold normalize. pose proof (polar_dir_unit phi theta) as H. unfold unit_vec in H. rewrite H, sqrt_1.
  unfold polar_dir, vx, vy, vz; cbn [fst snd]. rewrite !div1. reflexivity.
Qed.

Lemma normalize_polar_expanded phi theta :
  normalize (sin theta * cos phi, sin theta * sin phi, cos theta) = polar_dir phi theta.
Proof. apply normalize_polar. Qed.

Lemma polar_dir_0_0 : polar_dir 0 0 = (0, 0, 1).
Proof. unfold polar_dir. rewrite sin_0, cos_0, !Rmult_0_l. reflexivity. Qed.

(* congruent angles give the same direction *)
Lemma sin_cos_congruent a b : congruent a b -> sin a = sin b /\ cos a = cos b.
Proof.
  intros [k ->]. destruct (Z_le_gt_dec 0 k) as [Hk | Hk].
  - (* b = a + 2 n pi *)
    set (a := b - 2 * PI * IZR k).
    assert (E : b = a + 2 * INR (Z.to_nat k) * PI).
    { unfold a. rewrite INR_IZR_INZ, Z2Nat.id by assumption. ring. }
    rewrite E. rewrite sin_period, cos_period. split; reflexivity.
  - assert (E : b - 2 * PI * IZR k = b + 2 * INR (Z.to_nat (- k)) * PI).
    { rewrite INR_IZR_INZ, Z2Nat.id by lia. rewrite opp_IZR. ring. }
    rewrite E. rewrite sin_period, cos_period. split; reflexivity.
Qed.
