(* C01 obligations for LiNb_MgO: temperature enters through the Sellmeier coefficients (Gayer et al. 2008). *)
From Coq Require Import Reals List Lra.
From Interval Require Import Tactic.
From SpdVerif Require Import Base.Rx Spec.CrystalTypes Spec.Published Gen.Crystals Proofs.Sellmeier Proofs.C01_tac.
Import ListNotations.
Local Open Scope R_scope.

(* the code's temperature parameter, as translated, is the published one *)
Lemma code_f_eq T :
  ((T + 273.15) / 1 - 273.15 - 24.5) * ((T + 273.15) / 1 - 273.15 + 24.5 + 2 * 273.16) = gayer_f T.
Proof. unfold gayer_f. dec_norm. field. Qed.

Lemma matches ax l T : in_window LiNb_MgO l -> temp_ok T -> n_of LiNb_MgO ax l T = published LiNb_MgO ax l T.
Proof.
  intros Hw HT; window_bounds Hw; unfold temp_ok in HT.
  assert (Hx : 0.19 <= l ^ 2 <= 16) by (simpl; nra).
  destruct ax; unfold_gen; unfold published; cbn [pub_sell pub_dn]; cbv zeta; sell_simpl; rewrite !code_f_eq.
  all: match goal with |- _ = ?a + 0 * ?b => replace (a + 0 * b) with a by ring end.
  all: f_equal; unfold Rdiv; ring.
Qed.

Lemma defined ax l T : in_window LiNb_MgO l -> temp_ok T -> sell_defined (pub_sell LiNb_MgO ax l T) (l ^ 2).
Proof.
  intros Hw HT; window_bounds Hw; unfold temp_ok in HT.
  destruct ax; cbn [pub_sell]; cbv zeta; unfold sell_defined; cbn [sP1 sP2]; sell_simpl; unfold gayer_f.
  all: repeat split; repeat constructor; cbn [snd]; try (apply Rlt_not_eq; interval); try (apply Rgt_not_eq; interval);
       interval with (i_bisect l, i_bisect T).
Qed.

Lemma bounds ax l T : in_window LiNb_MgO l -> temp_ok T -> 1 < n_of LiNb_MgO ax l T < 4.
Proof.
  intros Hw HT; window_bounds Hw; unfold temp_ok in HT.
  destruct ax; unfold_gen; split; interval with (i_bisect l, i_bisect T).
Qed.

Lemma decreasing ax l1 l2 T :
  in_window LiNb_MgO l1 -> in_window LiNb_MgO l2 -> temp_ok T -> l1 < l2 -> n_of LiNb_MgO ax l2 T < n_of LiNb_MgO ax l1 T.
Proof.
  intros Hw1 Hw2 HT Hlt.
  rewrite !matches by assumption.
  pose proof (defined ax l2 T Hw2 HT) as (_ & _ & Hpos).
  window_bounds Hw1. window_bounds Hw2. unfold temp_ok in HT.
  assert (Hx : l1 ^ 2 < l2 ^ 2) by (apply sq_lt; lra).
  unfold published. apply sqrt_plus_lt; [lra|].
  destruct ax; cbn [pub_sell] in *; cbv zeta in *.
  all: apply sell_decreasing; [assumption | cbn [sP1]; constructor | | cbn [sD]; lra | unfold sell_strict; cbn [sD]; left; lra].
  all: cbn [sP2]; apply Forall_cons; [|apply Forall_cons; [|apply Forall_nil]];
       unfold ok2, pole_out, gayer_f; cbn [fst snd]; (split; [interval|]).
  (* first pole lies below the window, second above *)
  all: try solve [left; apply Rminus_gt_0_lt; interval].
  all: right; apply Rminus_gt_0_lt; interval.
Qed.

Lemma class l T : in_window LiNb_MgO l -> temp_ok T ->
  n_of LiNb_MgO AX l T = n_of LiNb_MgO AY l T /\ n_of LiNb_MgO AZ l T < n_of LiNb_MgO AX l T.
Proof. t_class_neg_uniaxial. Qed.

(* at the reference temperature 24.5 C the published law reduces to its temperature-independent coefficients *)
Definition ref_sell (ax : axis) : sellmeier :=
  match ax with
  | AX | AY => {| sA := 5.653; sP1 := []; sP2 := [(0.1185, 0.2091 ^ 2); (89.61, 10.85 ^ 2)]; sD := 1.97e-2 |}
  | AZ => {| sA := 5.756; sP1 := []; sP2 := [(0.0983, 0.202 ^ 2); (189.32, 12.52 ^ 2)]; sD := 1.32e-2 |}
  end.

Lemma temperature ax l : in_window LiNb_MgO l -> n_of LiNb_MgO ax l 24.5 = sqrt (sell_eval (ref_sell ax) (l ^ 2)).
Proof.
  intros Hw. rewrite matches by (try assumption; unfold temp_ok; lra).
  unfold published. cbn [pub_dn]. rewrite Rmult_0_l, Rplus_0_r. f_equal.
  assert (gayer_f 24.5 = 0) as E by (unfold gayer_f; lra).
  destruct ax; cbn [pub_sell ref_sell]; cbv zeta; rewrite E; sell_simpl; f_equal; f_equal; f_equal; try ring;
    repeat (f_equal; try ring).
Qed.
