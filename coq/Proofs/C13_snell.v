(* C13 — Snell's law: forward relation, conditional round trip given the optimiser's residual, unit conversions. *)
From Coq Require Import Reals Lra.
From Interval Require Import Tactic.
From SpdVerif Require Import Base.Rx Model.Optics Model.Fresnel Gen.Beam Model.Beam Proofs.C02_frame Proofs.C13_norm Proofs.C13_beam.
Local Open Scope R_scope.

Lemma Rabs_le_inv x y : Rabs x <= y -> - y <= x <= y.
Proof. intros H. unfold Rabs in H. destruct (Rcase_abs x); lra. Qed.

(* ---- sin is expanding by at least cos M on [-M, M] *)
Lemma sin_expanding M a b : 0 <= M < PI / 2 -> - M <= a <= M -> - M <= b <= M ->
  cos M * Rabs (b - a) <= Rabs (sin b - sin a).
Proof.
  intros [HM0 HM1] Ha Hb.
  assert (Hc : forall c, - M <= c <= M -> cos M <= cos c).
  { intros c Hcr. destruct (Rle_dec 0 c).
    - apply cos_decr_1; lra.
    - rewrite <- (cos_neg c). apply cos_decr_1; lra. }
  assert (HcM : 0 < cos M) by (apply cos_gt_0; lra).
  assert (Key : forall u v, - M <= u <= M -> - M <= v <= M -> u < v -> cos M * (v - u) <= sin v - sin u).
  { intros u v Hu Hv Huv.
    destruct (MVT_cor2 sin cos u v Huv) as [c [E Hcuv]].
    { intros c _. apply derivable_pt_lim_sin. }
    rewrite E. apply Rmult_le_compat_r; [lra |]. apply Hc. lra. }
  destruct (Rtotal_order a b) as [Hlt | [Heq | Hgt]].
  - pose proof (Key a b Ha Hb Hlt). rewrite (Rabs_right (b - a)) by lra.
    apply Rle_trans with (sin b - sin a); [assumption | apply Rle_abs].
  - subst. replace (b - b) with 0 by ring. rewrite Rabs_R0. rewrite Rmult_0_r. apply Rabs_pos.
  - pose proof (Key b a Hb Ha Hgt). rewrite (Rabs_left (b - a)) by lra.
    apply Rle_trans with (sin a - sin b); [lra |]. rewrite <- Rabs_Ropp. replace (- (sin b - sin a)) with (sin a - sin b) by ring.
    apply Rle_abs.
Qed.

Lemma asin_bound_M x M : 0 <= M <= PI / 2 -> - sin M <= x <= sin M -> - M <= asin x <= M.
Proof.
  intros HM Hx.
  assert (HsM : sin M <= 1) by apply SIN_bound.
  assert (Hx1 : -1 <= x <= 1) by lra.
  pose proof (asin_bound x) as Hab. pose proof (sin_asin x Hx1) as Hsa.
  split.
  - destruct (Rle_dec (- M) (asin x)) as [H | H]; [exact H | exfalso].
    apply Rnot_le_lt in H.
    assert (sin (asin x) < sin (- M)) by (apply sin_increasing_1; lra).
    rewrite sin_neg in H0. lra.
  - destruct (Rle_dec (asin x) M) as [H | H]; [exact H | exfalso].
    apply Rnot_le_lt in H.
    assert (sin M < sin (asin x)) by (apply sin_increasing_1; lra).
    lra.
Qed.

(* ---- forward relation: sin(theta_e) = n(theta_i) sin(theta_i) whenever the product is a sine *)
Theorem snell_forward_relation n_along s theta_i :
  let n := n_along (normalize (polar_dir (b_phi s) theta_i)) in
  -1 <= n * sin theta_i <= 1 ->
  sin (calc_external_theta_from_internal_gen n_along s theta_i) = n * sin theta_i.
Proof.
  intros n H. unfold calc_external_theta_from_internal_gen. rewrite !div1, mul1.
  change (sin theta_i * cos (b_phi s), sin theta_i * sin (b_phi s), cos theta_i) with (polar_dir (b_phi s) theta_i).
  fold n. apply sin_asin. exact H.
Qed.

(* ---- round trip, conditional on the optimiser's result; any sign of the external angle: the code solves for the magnitude on the
   side the angle points to (direction polar angle sign * internal) and restores the sign *)
Lemma signum_cases x : (0 <= x /\ signum x = 1 /\ Rabs x = x) \/ (x < 0 /\ signum x = -1 /\ Rabs x = - x).
Proof.
  unfold signum. destruct (Rle_dec 0 x) as [H | H].
  - left. repeat split; [exact H | apply Rabs_right; lra].
  - right. apply Rnot_le_lt in H. repeat split; [exact H | apply Rabs_left; exact H].
Qed.

Lemma signum_abs x : signum x * Rabs x = x.
Proof. destruct (signum_cases x) as [(_ & -> & ->) | (_ & -> & ->)]; ring. Qed.

Lemma Rabs_signum x : Rabs (signum x) = 1.
Proof.
  destruct (signum_cases x) as [(_ & -> & _) | (_ & -> & _)]; [apply Rabs_R1 |].
  rewrite Rabs_left by lra. lra.
Qed.

Lemma sin_signum x t : sin (signum x * t) = signum x * sin t.
Proof. destruct (signum_cases x) as [(_ & -> & _) | (_ & -> & _)]; [rewrite !Rmult_1_l; reflexivity |].
  replace (-1 * t) with (- t) by ring. rewrite sin_neg. ring. Qed.

Lemma asin_signum x t : asin (signum x * t) = signum x * asin t.
Proof. destruct (signum_cases x) as [(_ & -> & _) | (_ & -> & _)]; [rewrite !Rmult_1_l; reflexivity |].
  replace (-1 * t) with (- t) by ring. rewrite asin_opp. ring. Qed.

Lemma abs_sin_small x : Rabs x <= PI -> Rabs (sin x) = sin (Rabs x).
Proof.
  intros H. destruct (signum_cases x) as [(H0 & _ & E) | (H0 & _ & E)]; rewrite E in *.
  - apply Rabs_right. apply Rle_ge, sin_ge_0; lra.
  - rewrite sin_neg. apply Rabs_left1. assert (0 <= sin (- x)) by (apply sin_ge_0; lra). rewrite sin_neg in H1. lra.
Qed.

Section RoundTrip.
(* oracles: argmin's Nelder-Mead as wrapped by math::nelder_mead_1d; the crystal's index along a direction *)
Variable nm : (R -> R) -> R -> R -> R -> R -> R -> R -> R.
Variable n_along : vec -> R.
Variable s : beam.
Variable e r M : R.

Definition theta_star : R :=
  nm (snell_cost_gen n_along s e) (snell_seed0_gen e) (snell_seed1_gen e)
     snell_max_iter_gen snell_lower_gen snell_upper_gen snell_tolerance_gen.

Definition snell_inv_of : beam -> R -> R := calc_internal_theta_from_external_gen nm n_along.

Lemma calc_internal_is_theta_star : snell_inv_of s e = signum e * theta_star.
Proof.
  unfold snell_inv_of, calc_internal_theta_from_external_gen, theta_star, snell_cost_gen, snell_seed0_gen, snell_seed1_gen,
    snell_max_iter_gen, snell_lower_gen, snell_upper_gen, snell_tolerance_gen.
  rewrite mul1. rewrite (div1 e) at 1. reflexivity.
Qed.

(* contract of the optimiser on this input (checked per input by the harness) *)
Hypothesis Hbeam : beam_inv s.
Hypothesis He : Rabs e <= M.
Hypothesis HM : M < PI / 2.
Hypothesis Hbounds : 0 <= theta_star <= PI / 2.
Hypothesis Hres : snell_cost_gen n_along s e theta_star <= r.
Hypothesis HrM : sin (Rabs e) + r <= sin M.

Let sg := signum e.
Let a := Rabs e.
Let n_star := n_along (normalize (polar_dir (b_phi s) (sg * theta_star))).

Lemma a_range : 0 <= a <= M. Proof. unfold a. split; [apply Rabs_pos | exact He]. Qed.

Lemma residual_form : Rabs (sin a - n_star * sin theta_star) <= r.
Proof.
  unfold snell_cost_gen in Hres. rewrite !div1, !mul1 in Hres.
  rewrite abs_sin_small in Hres by (pose proof PI_RGT_0; lra). exact Hres.
Qed.

(* the beam after set_theta_external *)
Let s' := set_theta_external_gen snell_inv_of s e.

Lemma after_set_theta_external : b_theta s' = sg * theta_star /\ b_phi s' = b_phi s.
Proof.
  unfold s'. rewrite set_theta_external_nf, set_angles_nf. cbn [b_theta b_phi].
  rewrite calc_internal_is_theta_star. fold sg.
  destruct Hbeam as (_ & _ & Hphi & _). pose proof PI_RGT_0.
  split; [| apply norm_u_fixed; exact Hphi].
  apply norm_s_fixed. unfold sg. destruct (signum_cases e) as [(_ & -> & _) | (_ & -> & _)]; lra.
Qed.

Lemma abs_theta_after : Rabs (b_theta s') = theta_star.
Proof.
  destruct after_set_theta_external as [-> _]. unfold sg.
  destruct (signum_cases e) as [(_ & -> & _) | (_ & -> & _)].
  - rewrite Rmult_1_l. apply Rabs_right. lra.
  - replace (-1 * theta_star) with (- theta_star) by ring. rewrite Rabs_Ropp. apply Rabs_right. lra.
Qed.

(* sin|theta_e| = n(theta_i) sin|theta_i| within r, n taken along the stored direction *)
Theorem stored_angle_satisfies_snell :
  Rabs (sin (Rabs e) - n_along (normalize (polar_dir (b_phi s) (b_theta s'))) * sin (Rabs (b_theta s'))) <= r.
Proof. rewrite abs_theta_after. destruct after_set_theta_external as [-> _]. apply residual_form. Qed.

Lemma x_range : - sin M <= n_star * sin theta_star <= sin M.
Proof.
  pose proof residual_form as Hr. apply Rabs_le_inv in Hr. pose proof a_range.
  assert (Hr0 : 0 <= r) by (pose proof residual_form as H1; eapply Rle_trans; [apply Rabs_pos | exact H1]).
  assert (0 <= sin a) by (apply sin_ge_0; pose proof PI_RGT_0; lra).
  assert (0 <= sin M) by (apply sin_ge_0; pose proof PI_RGT_0; lra). fold a in HrM. lra.
Qed.

(* the asin-domain guard of the forward relation follows from the residual bound *)
Theorem forward_guard_from_residual : -1 <= n_star * sin (sg * theta_star) <= 1.
Proof.
  pose proof x_range as Hx. assert (HsM1 : sin M <= 1) by apply SIN_bound.
  unfold sg. rewrite sin_signum. destruct (signum_cases e) as [(_ & -> & _) | (_ & -> & _)]; lra.
Qed.

Theorem forward_relation_after_set :
  sin (theta_external_gen n_along s') = n_along (normalize (polar_dir (b_phi s) (b_theta s'))) * sin (b_theta s').
Proof.
  destruct after_set_theta_external as [Et Ep].
  unfold theta_external_gen. rewrite Et.
  pose proof (snell_forward_relation n_along s' (sg * theta_star)) as H. cbv zeta in H. rewrite Ep in H.
  apply H. exact forward_guard_from_residual.
Qed.

Theorem snell_roundtrip : Rabs (theta_external_gen n_along s' - e) <= r / cos M.
Proof.
  destruct after_set_theta_external as [Et Ep].
  unfold theta_external_gen, calc_external_theta_from_internal_gen. rewrite Et, Ep, !div1, mul1.
  change (sin (sg * theta_star) * cos (b_phi s), sin (sg * theta_star) * sin (b_phi s), cos (sg * theta_star))
    with (polar_dir (b_phi s) (sg * theta_star)).
  fold n_star. set (x := n_star * sin theta_star).
  replace (n_star * sin (sg * theta_star)) with (sg * x) by (unfold sg, x; rewrite sin_signum; ring).
  unfold sg. rewrite asin_signum. rewrite <- (signum_abs e) at 2. fold a.
  replace (signum e * asin x - signum e * a) with (signum e * (asin x - a)) by ring.
  rewrite Rabs_mult, Rabs_signum, Rmult_1_l.
  pose proof residual_form as Hr. fold x in Hr. pose proof x_range as Hx. fold x in Hx. pose proof a_range as Ha.
  assert (HM0 : 0 <= M) by lra.
  assert (HsM1 : sin M <= 1) by apply SIN_bound.
  pose proof (asin_bound_M x M (conj HM0 (Rlt_le _ _ HM)) Hx) as Hb.
  assert (HcM : 0 < cos M) by (apply cos_gt_0; lra).
  assert (Hsa : sin (asin x) = x) by (apply sin_asin; lra).
  pose proof (sin_expanding M a (asin x) (conj HM0 HM)) as Hexp.
  assert (Hexp' : cos M * Rabs (asin x - a) <= Rabs (sin (asin x) - sin a)) by (apply Hexp; lra).
  rewrite Hsa in Hexp'.
  assert (Rabs (x - sin a) <= r) by (rewrite Rabs_minus_sym; exact Hr).
  apply Rmult_le_reg_l with (cos M); [exact HcM |].
  replace (cos M * (r / cos M)) with r by (field; lra). lra.
Qed.

(* with n >= 1 the internal angle does not exceed the external one: sines up to the residual … *)
Theorem internal_not_larger : 1 <= n_star -> sin (Rabs (b_theta s')) <= sin (Rabs e) + r.
Proof.
  intros Hn. rewrite abs_theta_after. fold a.
  pose proof residual_form as Hr. apply Rabs_le_inv in Hr.
  assert (0 <= sin theta_star) by (apply sin_ge_0; pose proof PI_RGT_0; lra).
  nra.
Qed.

(* … and as ANGLES: |theta_i| <= |theta_e| + r / cos M *)
Theorem internal_angle_not_larger : 1 <= n_star -> Rabs (b_theta s') <= Rabs e + r / cos M.
Proof.
  intros Hn. pose proof (internal_not_larger Hn) as Hs. rewrite abs_theta_after in *. fold a in Hs |- *. pose proof a_range as Ha.
  assert (Hr0 : 0 <= r) by (pose proof residual_form as H; eapply Rle_trans; [apply Rabs_pos | exact H]).
  assert (HcM : 0 < cos M) by (apply cos_gt_0; pose proof PI_RGT_0; lra).
  assert (Hq : 0 <= r / cos M) by (apply Rmult_le_pos; [exact Hr0 | left; apply Rinv_0_lt_compat; exact HcM]).
  destruct (Rle_dec theta_star a) as [Hle | Hgt]; [lra |]. apply Rnot_le_lt in Hgt.
  assert (HtM : theta_star <= M).
  { destruct (Rle_dec theta_star M) as [H | H]; [exact H | exfalso]. apply Rnot_le_lt in H.
    assert (sin M < sin theta_star) by (apply sin_increasing_1; pose proof PI_RGT_0; lra). fold a in HrM. lra. }
  pose proof (sin_expanding M a theta_star) as Hexp.
  assert (He2 : cos M * Rabs (theta_star - a) <= Rabs (sin theta_star - sin a)) by (apply Hexp; lra).
  assert (Hinc : sin a < sin theta_star) by (apply sin_increasing_1; pose proof PI_RGT_0; lra).
  rewrite !Rabs_right in He2 by lra.
  apply Rmult_le_reg_l with (cos M); [exact HcM |].
  replace (cos M * (a + r / cos M)) with (cos M * a + r) by (field; lra). lra.
Qed.
End RoundTrip.

(* the property's numbers: residual <= 3e-8 and theta_e in [0, 80 deg] give a read-back within 1e-5 deg *)
Theorem snell_roundtrip_80deg nm n_along s e r :
  beam_inv s -> Rabs e <= 80 * (PI / 180) -> r <= 3e-8 ->
  0 <= theta_star nm n_along s e <= PI / 2 ->
  snell_cost_gen n_along s e (theta_star nm n_along s e) <= r ->
  Rabs (theta_external_gen n_along (set_theta_external_gen (snell_inv_of nm n_along) s e) - e) <= 1e-5 * (PI / 180).
Proof.
  intros Hs He Hr Hb Hc.
  set (M := 80 * (PI / 180) + 2e-7).
  assert (HM : M < PI / 2) by (unfold M; interval).
  assert (Ha0 : 0 <= Rabs e) by apply Rabs_pos.
  assert (HrM : sin (Rabs e) + r <= sin M).
  { apply Rle_trans with (sin (80 * (PI / 180)) + 3e-8).
    - apply Rplus_le_compat; [| exact Hr].
      destruct (Req_dec (Rabs e) (80 * (PI / 180))) as [-> | Hne]; [lra |]. left. pose proof PI_RGT_0. apply sin_increasing_1; lra.
    - unfold M. apply Rminus_le. interval with (i_prec 80). }
  assert (He' : Rabs e <= M) by (unfold M; lra).
  pose proof (snell_roundtrip nm n_along s e r M Hs He' HM Hb Hc HrM) as H.
  assert (Hr0 : 0 <= r).
  { eapply Rle_trans; [| exact Hc]. unfold snell_cost_gen. apply Rabs_pos. }
  eapply Rle_trans; [exact H |].
  assert (HcM : 0.17364 <= cos M) by (unfold M; interval with (i_prec 60)).
  apply Rle_trans with (3e-8 / 0.17364).
  - unfold Rdiv. apply Rmult_le_compat; try lra.
    + left. apply Rinv_0_lt_compat. lra.
    + apply Rinv_le_contravar; lra.
  - apply Rminus_le. interval.
Qed.

(* ---- unit conversions *)
Lemma sqrt_2ln2_pos : 0 < sqrt (2 * ln 2).
Proof. apply sqrt_lt_R0. assert (0 < ln 2) by (rewrite <- ln_1; apply ln_increasing; lra). lra. Qed.

Theorem units_frequency_wavelength l w :
  (l <> 0 -> vacuum_wavelength_to_frequency_gen l = 2 * PI * 299792458 / l /\
             frequency_to_vacuum_wavelength_gen (vacuum_wavelength_to_frequency_gen l) = l) /\
  (w <> 0 -> frequency_to_vacuum_wavelength_gen w = 2 * PI * 299792458 / w /\
             vacuum_wavelength_to_frequency_gen (frequency_to_vacuum_wavelength_gen w) = w).
Proof.
  pose proof PI_RGT_0.
  unfold vacuum_wavelength_to_frequency_gen, frequency_to_vacuum_wavelength_gen.
  split; intros Hn; split; field; repeat split; lra.
Qed.

Theorem units_temperature c k :
  from_kelvin_to_celsius_gen (from_celsius_to_kelvin_gen c) = c /\
  from_celsius_to_kelvin_gen (from_kelvin_to_celsius_gen k) = k /\
  from_celsius_to_kelvin_gen c = c + 273.15.
Proof. unfold from_kelvin_to_celsius_gen, from_celsius_to_kelvin_gen. repeat split; field. Qed.

Theorem units_fwhm x :
  waist_to_fwhm_gen (fwhm_to_waist_gen x) = x /\ fwhm_to_waist_gen (waist_to_fwhm_gen x) = x /\
  x = 2 * sqrt (2 * ln 2) * fwhm_to_sigma_gen x.
Proof.
  pose proof sqrt_2ln2_pos. unfold waist_to_fwhm_gen, fwhm_to_waist_gen, fwhm_to_sigma_gen.
  repeat split; field; lra.
Qed.

(* beam level: frequency and vacuum wavelength of a beam *)
Theorem beam_wavelength_frequency snell_inv s l w :
  l <> 0 -> w <> 0 ->
  b_frequency (step snell_inv s (SetVacuumWavelength l)) = 2 * PI * 299792458 / l /\
  frequency_to_vacuum_wavelength_gen (b_frequency (step snell_inv s (SetVacuumWavelength l))) = l /\
  b_frequency (step snell_inv s (SetFrequency w)) = w.
Proof.
  intros Hl Hw. cbn [step]. unfold set_vacuum_wavelength_gen, set_frequency_gen; cbn [b_frequency].
  pose proof PI_RGT_0. unfold frequency_to_vacuum_wavelength_gen. repeat split; try field; try (repeat split; lra).
Qed.
