(* Setups and tactics used by the generated correspondence cases of C07 (coq/Cases/, never committed). *)
From Coq Require Import Reals Bool Lra List.
From Interval Require Import Tactic.
From SpdVerif Require Import Base.Rx Base.GridOps Gen.Grid Model.SpectrumSetup Gen.Spectrum Model.Spectrum Proofs.C07_support Proofs.C07_counts.
Import ListNotations.
Local Open Scope R_scope.

(* a setup of which only the pump frequency, bandwidth and threshold matter (envelope / support cases) *)
Definition env_setup (wp f thr : R) : setup :=
  {| omega_p := wp; omega_s0 := 0; omega_i0 := 0; fwhm := f; threshold := thr; pp_off := true; len := 0; power := 0; deff := 0;
     wpx := 0; wpy := 0; wsx := 0; wsy := 0; wix := 0; wiy := 0; theta_s_e := 0; theta_i_e := 0;
     n_s := fun _ => 0; n_i := fun _ => 0; pm_re := fun _ _ => 0; pm_im := fun _ _ => 0; pm_singles := fun _ _ => 0 |}.

(* a setup with every input of the normalisation given; the index oracles are the observed values *)
Definition norm_setup (wp f l p d wpx_ wpy_ wsx_ wsy_ wix_ wiy_ ths thi ns ni : R) (ppoff : bool) : setup :=
  {| omega_p := wp; omega_s0 := 0; omega_i0 := 0; fwhm := f; threshold := 0; pp_off := ppoff; len := l; power := p; deff := d;
     wpx := wpx_; wpy := wpy_; wsx := wsx_; wsy := wsy_; wix := wix_; wiy := wiy_; theta_s_e := ths; theta_i_e := thi;
     n_s := fun _ => ns; n_i := fun _ => ni; pm_re := fun _ _ => 0; pm_im := fun _ _ => 0; pm_singles := fun _ _ => 0 |}.

Ltac fields := cbn [env_setup norm_setup omega_p omega_s0 omega_i0 fwhm threshold pp_off len power deff wpx wpy wsx wsy wix wiy
                    theta_s_e theta_i_e n_s n_i pm_re pm_im pm_singles].

Ltac unfold_env :=
  unfold pump_spectral_amplitude, fwhm_to_spectral_width, frequency_to_vacuum_wavelength, vacuum_wavelength_to_frequency; fields.

Ltac case_env := unfold_env; interval with (i_prec 100).

Ltac abs_cmp := unfold Rabs; match goal with |- context [Rcase_abs ?x] => destruct (Rcase_abs x) end; lra.

(* the generated box test evaluates to true / false on exact rational inputs *)
Ltac case_box_true :=
  apply (proj2 (invalid_frequencies_iff _ _ _)); unfold outside_box; fields;
  first [ left; lra | right; left; lra | right; right; left; lra | right; right; right; left; lra
        | right; right; right; right; abs_cmp ].

Ltac case_box_false :=
  apply (proj2 (invalid_frequencies_false_iff _ _ _)); fields;
  split; [lra | split; [lra | abs_cmp]].

Ltac case_norm :=
  unfold jsi_normalization, jsi_singles_normalization, common_norm, fwhm_to_spectral_width, frequency_to_vacuum_wavelength,
    vacuum_wavelength_to_frequency; fields;
  repeat match goal with |- context [bool_dec ?a ?b] => destruct (bool_dec a b) as [?H|?H]; try discriminate; try (exfalso; apply H; reflexivity) end;
  interval with (i_prec 100).

Ltac case_sum := cbn [grid_sum fst snd]; interval with (i_prec 100).

Ltac case_area :=
  unfold cell_area, steps_division_width, Rops; cbn [o_div o_sub o_nat Nat.sub]; simpl INR; interval with (i_prec 100).
