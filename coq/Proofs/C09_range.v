(* C09 — 0 <= rate <= 1 and -1 <= visibility <= 1 for the exchanged-argument pair on a square symmetric grid
   (Cauchy-Schwarz; the transposed array has the same norm); symmetric spectrum => rate 0 at zero delay. *)
From Coq Require Import Reals Lra Lia Arith Psatz.
From SpdVerif Require Import Model.FinSum Model.Hom Proofs.FinSum_lemmas Proofs.Cx_lemmas.
Local Open Scope R_scope.

Lemma jsi_norm_rsum N f : jsi_norm ROps N f = rsum N (fun k => cnorm2 ROps (f k)).
Proof. reflexivity. Qed.

Lemma hom_sum_rsum N f gs u : hom_sum ROps N f gs u = rsum N (fun k => hom_term ROps (f k) (gs k) (u k)).
Proof. reflexivity. Qed.

Lemma hom_rate_gen_R N f gs u nrm : hom_rate_gen ROps N f gs u nrm = 1 / 2 * (1 - hom_sum ROps N f gs u / nrm).
Proof.
  unfold hom_rate_gen, ohalf, otwo. cbn [ROps o0 o1 oadd omul osub odiv]. replace (1 + 1) with 2 by ring. reflexivity.
Qed.

Lemma jsi_norm_nonneg N f : 0 <= jsi_norm ROps N f.
Proof. rewrite jsi_norm_rsum. apply rsum_nonneg; intros; apply cnorm2_nonneg. Qed.

Lemma hom_term_assoc f h u : hom_term ROps f h u = cre (cmul ROps (cconj ROps f) (cmul ROps h u)).
Proof. unfold hom_term. rewrite cmul_assoc. reflexivity. Qed.

(* |sum Re(conj f_k g_k u_k)|^2 <= sum|f|^2 sum|g|^2 for unit-modulus u_k *)
Lemma hom_sum_bound N f gs u :
  (forall k, (k < N)%nat -> cnorm2 ROps (u k) = 1) ->
  hom_sum ROps N f gs u * hom_sum ROps N f gs u <= jsi_norm ROps N f * jsi_norm ROps N gs.
Proof.
  intros Hu. rewrite hom_sum_rsum, !jsi_norm_rsum.
  rewrite (rsum_ext N (fun k => cnorm2 ROps (gs k)) (fun k => cnorm2 ROps (cmul ROps (gs k) (u k)))).
  - apply cs_general; intros k Hk; try apply cnorm2_nonneg.
    rewrite hom_term_assoc. apply re_conj_mul_sq_le.
  - intros k Hk. rewrite cnorm2_cmul, (Hu k Hk). ring.
Qed.

Lemma rate_range_of_bound S nrm :
  0 < nrm -> S * S <= nrm * nrm -> 0 <= 1 / 2 * (1 - S / nrm) <= 1 /\ -1 <= S / nrm <= 1.
Proof.
  intros Hn Hs.
  assert (H1 : S <= nrm) by (apply sq_le_le; lra).
  assert (H2 : - S <= nrm) by (apply sq_le_le; [lra|]; nra).
  assert (Hq : -1 <= S / nrm <= 1).
  { split.
    - apply Rmult_le_reg_r with (r := nrm); [assumption|]. unfold Rdiv. rewrite Rmult_assoc, Rinv_l by lra. lra.
    - apply Rmult_le_reg_r with (r := nrm); [assumption|]. unfold Rdiv. rewrite Rmult_assoc, Rinv_l by lra. lra. }
  split; [lra|assumption].
Qed.

(* ---- index arithmetic of the transposition *)
Lemma idx_2d n r c : (c < n)%nat -> get_2d_indices (r * n + c) n = (c, r).
Proof.
  intros Hc. unfold get_2d_indices. f_equal.
  - rewrite Nat.add_comm, Nat.mod_add by lia. apply Nat.mod_small; assumption.
  - rewrite Nat.add_comm, Nat.div_add by lia. rewrite Nat.div_small by assumption. reflexivity.
Qed.

Definition tr_idx (n k : nat) : nat := get_1d_index (snd (get_2d_indices k n)) (fst (get_2d_indices k n)) n.

Lemma tr_idx_rc n r c : (c < n)%nat -> tr_idx n (r * n + c) = (c * n + r)%nat.
Proof. intros Hc. unfold tr_idx. rewrite idx_2d by assumption. reflexivity. Qed.

Lemma transpose_arr_idx {T} n (f : nat -> T) k : transpose_arr n f k = f (tr_idx n k).
Proof. reflexivity. Qed.

Lemma rsum_transpose n (phi : nat -> R) : rsum (n * n) (fun k => phi (tr_idx n k)) = rsum (n * n) phi.
Proof.
  rewrite !rsum_flat.
  rewrite (rsum_ext n _ (fun r => rsum n (fun c => phi (c * n + r)%nat))).
  - apply rsum_switch.
  - intros r _. apply rsum_ext. intros c Hc. rewrite tr_idx_rc by assumption. reflexivity.
Qed.

Lemma jsi_norm_transpose n f gs :
  (forall k, (k < n * n)%nat -> gs k = transpose_arr n f k) -> jsi_norm ROps (n * n) gs = jsi_norm ROps (n * n) f.
Proof.
  intros H. rewrite !jsi_norm_rsum. rewrite <- (rsum_transpose n (fun k => cnorm2 ROps (f k))).
  apply rsum_ext. intros k Hk. rewrite (H k Hk). reflexivity.
Qed.

Lemma hom_phase_unit g tau k : cnorm2 ROps (hom_phase g tau k) = 1.
Proof. unfold hom_phase. rewrite cnorm2_polar. ring. Qed.

(* ---- general form: any grid, any second array whose norm does not exceed the first's *)
Theorem hom_rate_range_general g f gs tau :
  0 < jsi_norm ROps (grid_len g) f -> jsi_norm ROps (grid_len g) gs <= jsi_norm ROps (grid_len g) f ->
  0 <= hom_rate g f gs tau None <= 1 /\ -1 <= visibility_of_rate (hom_rate g f gs tau None) <= 1.
Proof.
  intros Hpos Hle. unfold hom_rate. rewrite hom_rate_gen_R.
  set (S := hom_sum ROps (grid_len g) f gs (hom_phase g tau)). set (nrm := jsi_norm ROps (grid_len g) f) in *.
  assert (Hb : S * S <= nrm * nrm).
  { eapply Rle_trans; [apply hom_sum_bound; intros; apply hom_phase_unit|].
    fold nrm. apply Rmult_le_compat_l; [lra|assumption]. }
  destruct (rate_range_of_bound S nrm Hpos Hb) as [H1 H2]. split; [assumption|].
  unfold visibility_of_rate. replace ((1 / 2 - 1 / 2 * (1 - S / nrm)) / (1 / 2)) with (S / nrm) by (field; lra). assumption.
Qed.

Theorem hom_rate_range n g f gs tau :
  square_sym n g -> (forall k, (k < n * n)%nat -> gs k = transpose_arr n f k) ->
  0 < jsi_norm ROps (n * n) f ->
  0 <= hom_rate g f gs tau None <= 1 /\ -1 <= visibility_of_rate (hom_rate g f gs tau None) <= 1.
Proof.
  intros (Hc & Hr & _ & _) Hg Hpos.
  assert (HN : grid_len g = (n * n)%nat) by (unfold grid_len; rewrite Hc, Hr; reflexivity).
  apply hom_rate_range_general; rewrite HN; [assumption|].
  rewrite (jsi_norm_transpose n f gs Hg). lra.
Qed.

(* visibility = (sum Re conj(f) g u) / norm *)
Lemma visibility_as_ratio g f gs tau :
  jsi_norm ROps (grid_len g) f <> 0 ->
  visibility_of_rate (hom_rate g f gs tau None) =
  hom_sum ROps (grid_len g) f gs (hom_phase g tau) / jsi_norm ROps (grid_len g) f.
Proof. intros Hn. unfold hom_rate, visibility_of_rate. rewrite hom_rate_gen_R. field. assumption. Qed.

(* ---- exchange-symmetric spectrum: rate 0 (visibility 1) at zero delay *)
Lemma hom_phase_zero g k : hom_phase g 0 k = (1, 0).
Proof. unfold hom_phase. rewrite Rmult_0_r. apply cpolar_0. Qed.

Lemma hom_term_same f : hom_term ROps f f (1, 0) = cnorm2 ROps f.
Proof. unfold hom_term. rewrite cmul_conj_self, cmul_one_r. reflexivity. Qed.

Theorem hom_rate_symmetric_zero g f gs :
  (forall k, (k < grid_len g)%nat -> gs k = f k) -> jsi_norm ROps (grid_len g) f <> 0 ->
  hom_rate g f gs 0 None = 0 /\ visibility_of_rate (hom_rate g f gs 0 None) = 1.
Proof.
  intros Hs Hn.
  assert (E : hom_sum ROps (grid_len g) f gs (hom_phase g 0) = jsi_norm ROps (grid_len g) f).
  { rewrite hom_sum_rsum, jsi_norm_rsum. apply rsum_ext. intros k Hk.
    rewrite (Hs k Hk), hom_phase_zero. apply hom_term_same. }
  assert (R0 : hom_rate g f gs 0 None = 0).
  { unfold hom_rate. rewrite hom_rate_gen_R, E. field. assumption. }
  split; [assumption|]. rewrite R0. unfold visibility_of_rate. field.
Qed.

(* the statement of the property: f symmetric under exchange of its arguments, second array = exchanged-argument array *)
Corollary hom_rate_symmetric_zero_sq n g f gs :
  square_sym n g -> (forall k, (k < n * n)%nat -> gs k = transpose_arr n f k) ->
  (forall k, (k < n * n)%nat -> transpose_arr n f k = f k) -> jsi_norm ROps (n * n) f <> 0 ->
  hom_rate g f gs 0 None = 0 /\ visibility_of_rate (hom_rate g f gs 0 None) = 1.
Proof.
  intros (Hc & Hr & _ & _) Hg Hsym Hn.
  assert (HN : grid_len g = (n * n)%nat) by (unfold grid_len; rewrite Hc, Hr; reflexivity).
  apply hom_rate_symmetric_zero; rewrite HN; [|assumption].
  intros k Hk. rewrite (Hg k Hk). apply Hsym. assumption.
Qed.
