(* C02 — walk-off closed form for ANY (biaxial) medium, away from the optic axes: with s(theta) the beam direction in the
   crystal frame, b = sum s_i^2 (a_j + a_k), c = sum s_i^2 a_j a_k, D = b^2 - 4 c > 0 and y = (b -/+ sqrt D)/2,
       -(1/n) dn/dtheta = 1/2 n^2 y',     y' = (b' -/+ (2 b b' - 4 c') / (2 sqrt D)) / 2,
       b' = 2 sum s_i s_i' (a_j + a_k),   c' = 2 sum s_i s_i' a_j a_k,   s' = ds/dtheta (explicit below). *)
From Coq Require Import Reals Lra.
From Coquelicot Require Import Coquelicot.
From SpdVerif Require Import Model.Optics Model.Fresnel Proofs.C02_fresnel Proofs.C02_index Proofs.C02_frame Proofs.C02_walkoff.
Local Open Scope R_scope.

(* ---- chain rule through the quadratic formula, for abstract differentiable b, c *)
Section Chain.
Variables B C B' C' : R -> R.
Hypothesis HB : forall t, is_derive B t (B' t).
Hypothesis HC : forall t, is_derive C t (C' t).
Variable sg : R.     (* -1: slow root, +1: fast root *)

Definition Dq (t : R) : R := B t ^ 2 - 4 * C t.
Definition Yq (t : R) : R := (B t + sg * sqrt (Dq t)) / 2.
Definition Yq' (t : R) : R := (B' t + sg * ((2 * B t * B' t - 4 * C' t) / (2 * sqrt (Dq t)))) / 2.
Definition Nq (t : R) : R := 1 / sqrt (Yq t).

Lemma Yq_derive t : 0 < Dq t -> is_derive Yq t (Yq' t).
Proof.
  intros HD. unfold Yq, Yq', Dq in *. auto_derive.
  - repeat split; try (eexists; apply HB); try (eexists; apply HC). exact HD.
  - change (Derive (fun x : R => B x) t) with (Derive B t). change (Derive (fun x : R => C x) t) with (Derive C t).
    rewrite (is_derive_unique _ _ _ (HB t)), (is_derive_unique _ _ _ (HC t)).
    assert (0 < sqrt (B t ^ 2 - 4 * C t)) by (apply sqrt_lt_R0; exact HD).
    replace (B t * (B t * 1) + - (4 * C t)) with (B t ^ 2 - 4 * C t) by ring. field. lra.
Qed.

Lemma Nq_derive t : 0 < Dq t -> 0 < Yq t -> is_derive Nq t (- / 2 * Nq t ^ 3 * Yq' t).
Proof.
  intros HD HY.
  pose proof (is_derive_comp (fun u => 1 / sqrt u) Yq t _ _ (inv_sqrt_derive _ HY) (Yq_derive t HD)) as H.
  unfold scal in H; simpl in H; unfold mult in H; simpl in H. unfold Nq.
  replace (- / 2 * (1 / sqrt (Yq t)) ^ 3 * Yq' t) with (Yq' t * (- / 2 * (1 / sqrt (Yq t)) ^ 3)) by ring.
  exact H.
Qed.

Lemma walkoff_Nq t : 0 < Dq t -> 0 < Yq t -> walkoff_exact Nq t = atan (/ 2 * Nq t ^ 2 * Yq' t).
Proof.
  intros HD HY. unfold walkoff_exact. rewrite (is_derive_unique _ _ _ (Nq_derive t HD HY)).
  assert (Nq t <> 0) by (unfold Nq; apply Rgt_not_eq, inv_sqrt_pos, HY).
  f_equal. field. assumption.
Qed.
End Chain.

(* ---- the crystal-frame direction of a lab direction d as a function of the crystal angle, and its derivative *)
Section Biaxial.
Variables phi nx ny nz : R.
Variable d : vec.
Hypothesis Hx : 0 < nx.
Hypothesis Hy : 0 < ny.
Hypothesis Hz : 0 < nz.
Hypothesis Hd : unit_vec d.

Let ax := inv2 nx.
Let ay := inv2 ny.
Let az := inv2 nz.
Definition sfun (t : R) : vec := crystal_frame t phi d.
(* ds/dtheta = Rz(phi) (dRy/dtheta) d *)
Definition sfun' (t : R) : vec :=
  let e1 := - sin t * vx d + cos t * vz d in
  let e3 := - cos t * vx d - sin t * vz d in
  (cos phi * e1, sin phi * e1, e3).

Definition bfun (t : R) : R := fb ax ay az (vx (sfun t) * vx (sfun t)) (vy (sfun t) * vy (sfun t)) (vz (sfun t) * vz (sfun t)).
Definition cfun (t : R) : R := fc ax ay az (vx (sfun t) * vx (sfun t)) (vy (sfun t) * vy (sfun t)) (vz (sfun t) * vz (sfun t)).
Definition bfun' (t : R) : R :=
  2 * (vx (sfun t) * vx (sfun' t) * (ay + az) + vy (sfun t) * vy (sfun' t) * (ax + az) + vz (sfun t) * vz (sfun' t) * (ax + ay)).
Definition cfun' (t : R) : R :=
  2 * (vx (sfun t) * vx (sfun' t) * (ay * az) + vy (sfun t) * vy (sfun' t) * (ax * az) + vz (sfun t) * vz (sfun' t) * (ax * ay)).

Lemma bfun_derive t : is_derive bfun t (bfun' t).
Proof.
  destruct d as [[dx dy] dz].
  unfold bfun, bfun', sfun, sfun', fb, crystal_frame, rot_euler, vx, vy, vz; cbn [fst snd]. rewrite sin_0, cos_0.
  auto_derive; [trivial | ring].
Qed.

Lemma cfun_derive t : is_derive cfun t (cfun' t).
Proof.
  destruct d as [[dx dy] dz].
  unfold cfun, cfun', sfun, sfun', fc, crystal_frame, rot_euler, vx, vy, vz; cbn [fst snd]. rewrite sin_0, cos_0.
  auto_derive; [trivial | ring].
Qed.

Definition sign_of (p : polarization) : R := match p with Ordinary => -1 | Extraordinary => 1 end.

Lemma index_model_is_Nq p t :
  index_model t phi nx ny nz d p = Nq bfun cfun (sign_of p) t.
Proof.
  unfold index_model, Nq, Yq, Dq, fresnel_index. cbv zeta. fold (sfun t). fold ax ay az.
  destruct p; unfold y_slow, y_fast, fdisc, sign_of; fold (bfun t) (cfun t); f_equal; f_equal; f_equal; ring.
Qed.

(* closed form of the walk-off *)
Definition walkoff_biaxial_closed (p : polarization) (t : R) : R :=
  atan (/ 2 * index_model t phi nx ny nz d p ^ 2 * Yq' bfun cfun bfun' cfun' (sign_of p) t).

Theorem walkoff_biaxial p t :
  0 < fdisc ax ay az (vx (sfun t) * vx (sfun t)) (vy (sfun t) * vy (sfun t)) (vz (sfun t) * vz (sfun t)) ->
  walkoff_exact (fun u => index_model u phi nx ny nz d p) t = walkoff_biaxial_closed p t.
Proof.
  intros HD.
  assert (HDq : 0 < Dq bfun cfun t) by (unfold Dq, bfun, cfun; unfold fdisc in HD; exact HD).
  assert (HY : 0 < Yq bfun cfun (sign_of p) t).
  { pose proof (unit_vec_components _ (crystal_frame_unit t phi d Hd)) as Hs. fold (sfun t) in Hs.
    destruct (index_bounds nx ny nz (vx (sfun t)) (vy (sfun t)) (vz (sfun t)) (min3 nx ny nz) (max3 nx ny nz)) as ((_ & _ & _ & _ & Hsl & Hfa) & _);
      try assumption.
    { unfold min3. repeat apply Rmin_glb_lt; assumption. }
    { unfold min3, max3; split; [apply Rmin_l | apply Rmax_l]. }
    { unfold min3, max3; split; [eapply Rle_trans; [apply Rmin_r | apply Rmin_l] | eapply Rle_trans; [apply Rmax_l | apply Rmax_r]]. }
    { unfold min3, max3; split; [eapply Rle_trans; [apply Rmin_r | apply Rmin_r] | eapply Rle_trans; [apply Rmax_r | apply Rmax_r]]. }
    fold ax ay az in Hsl, Hfa. unfold y_slow, y_fast, fdisc in Hsl, Hfa. fold (bfun t) (cfun t) in Hsl, Hfa.
    unfold Yq, Dq. destruct p; unfold sign_of; [ replace (bfun t + -1 * sqrt (bfun t ^ 2 - 4 * cfun t)) with (bfun t - sqrt (bfun t ^ 2 - 4 * cfun t)) by ring
                                               | replace (bfun t + 1 * sqrt (bfun t ^ 2 - 4 * cfun t)) with (bfun t + sqrt (bfun t ^ 2 - 4 * cfun t)) by ring ]; assumption. }
  unfold walkoff_exact, walkoff_biaxial_closed.
  rewrite (Derive_ext _ (Nq bfun cfun (sign_of p)) t (index_model_is_Nq p)), !index_model_is_Nq.
  pose proof (walkoff_Nq bfun cfun bfun' cfun' bfun_derive cfun_derive (sign_of p) t HDq HY) as H.
  unfold walkoff_exact in H. exact H.
Qed.
End Biaxial.
