(* Truncation error of the central difference quotient of math::derivative_at under LOCAL hypotheses: the function is three times
   differentiable on an open interval (a, b) containing [x - h, x + h] and its third derivative is bounded by M on (x - h, x + h).
   (Proofs/C02_fd.v states it for globally smooth functions; no Sellmeier index is one: sqrt(A + B / (lambda^2 - C)) has a pole.) *)
From Coq Require Import Reals Lra Lia.
From Coquelicot Require Import Coquelicot.
From SpdVerif Require Import Proofs.C02_fd.
Local Open Scope R_scope.

Theorem central_difference_error_local (f : R -> R) (x h M a b : R) :
  0 < h -> a < x - h -> x + h < b ->
  (forall t, a < t < b -> forall k, (k <= 3)%nat -> ex_derive_n f k t) ->
  (forall t, x - h < t < x + h -> Rabs (Derive_n f 3 t) <= M) ->
  Rabs ((f (x + h) - f (x - h)) / (2 * h) - Derive f x) <= M * h ^ 2 / 6.
Proof.
  intros Hh Ha Hb Hsm HM.
  (* forward *)
  destruct (Taylor_Lagrange f 2 x (x + h)) as [z1 [Hz1 E1]]; [lra | intros t Ht k Hk; apply Hsm; [lra | exact Hk] |].
  (* backward, through g y = f (- y) *)
  set (g := fun y : R => f (- y)).
  assert (Hloc : forall t, - b < t < - a -> locally (- t) (fun y => forall k, (k <= 3)%nat -> ex_derive_n f k y)).
  { intros t Ht. apply (locally_interval _ (- t) a b); cbn; try lra. intros y Hy1 Hy2 k Hk. apply Hsm; [cbn in Hy1, Hy2; lra | exact Hk]. }
  assert (Hg : forall t, - b < t < - a -> forall k, (k <= 3)%nat -> ex_derive_n g k t).
  { intros t Ht k Hk. apply ex_derive_n_comp_opp. generalize (Hloc t Ht). apply filter_imp. intros y Hy j Hj. apply Hy. lia. }
  assert (Dg : forall t, - b < t < - a -> forall k, (k <= 3)%nat -> Derive_n g k t = (-1) ^ k * Derive_n f k (- t)).
  { intros t Ht k Hk. apply Derive_n_comp_opp. generalize (Hloc t Ht). apply filter_imp. intros y Hy j Hj. apply Hy. lia. }
  destruct (Taylor_Lagrange g 2 (- x) (- x + h)) as [z2 [Hz2 E2]]; [lra | intros t Ht k Hk; apply Hg; [lra | exact Hk] |].
  rewrite sum3 in E1, E2.
  rewrite !Dg in E2 by (try lia; lra).
  unfold g in E2 at 1. replace (- (- x + h)) with (x - h) in E2 by ring. rewrite Ropp_involutive in E2.
  replace (x + h - x) with h in E1 by ring. replace (- x + h - - x) with h in E2 by ring.
  simpl Derive_n in E1, E2. simpl fact in E1, E2. simpl INR in E1, E2. simpl pow in E1, E2.
  change (Derive (fun x0 : R => Derive (fun x1 : R => Derive (fun x2 : R => f x2) x1) x0)) with (Derive_n f 3) in E1, E2.
  change (Derive (fun x0 : R => Derive (fun x1 : R => f x1) x0) x) with (Derive_n f 2 x) in E1, E2.
  change (Derive (fun x0 : R => f x0) x) with (Derive f x) in E1, E2.
  pose proof (HM z1 ltac:(lra)) as B1. pose proof (HM (- z2) ltac:(lra)) as B2.
  set (A := Derive_n f 3 z1) in *. set (B := Derive_n f 3 (- z2)) in *.
  assert (E : (f (x + h) - f (x - h)) / (2 * h) - Derive f x = h ^ 2 / 12 * (A + B)).
  { rewrite E1, E2. field. lra. }
  rewrite E. rewrite Rabs_mult. rewrite (Rabs_right (h ^ 2 / 12)) by (apply Rle_ge; apply Rmult_le_pos; [apply pow2_ge_0 | lra]).
  assert (Rabs (A + B) <= 2 * M) by (eapply Rle_trans; [apply Rabs_triang | lra]).
  assert (0 <= h ^ 2 / 12) by (apply Rmult_le_pos; [apply pow2_ge_0 | lra]).
  nra.
Qed.

Print Assumptions central_difference_error_local.
