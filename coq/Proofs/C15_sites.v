(* C15 — the parallel reduction call sites of the crate (generated table Gen/C15_Reductions.v) as instances of the driver model:
   Enumerate keeps the window invariant; rayon's index-range producer has it; hence every tree-shaped map-sum at these sites
   equals the sequential fold.  Simpson: the parallel branch sums the same indices through the same closures as the sequential
   branch.  The table itself is pinned here, so that any edit of a call site is re-examined. *)
From Coq Require Import String List Arith Bool Lia.
From Coq Require Import Reals.
From SpdVerif Require Import Base.GridOps Gen.Grid Gen.C15_Reductions Model.Grid Model.Producer Proofs.C15_generic Proofs.C15_inst.
Import ListNotations.

(* ------------------------------------------------------------------------------------------------ Enumerate *)
Section Enum.
Context {P A : Type} (D : producer P A).
Variable lo : nat.
Variable v : nat -> A.
Variable Rep : P -> nat -> nat -> Prop.
Hypothesis Rep_items : forall p a b, Rep p a b -> p_items D p = map v (seq a (b - a)).
Hypothesis Rep_len : forall p a b, Rep p a b -> p_len D p = b - a.
Hypothesis Rep_split : forall p a b k, Rep p a b -> lo <= k <= b - a ->
  exists pl pr, p_split D p k = Ok (pl, pr) /\ Rep pl a (a + k) /\ Rep pr (a + k) b.

(* the enumerate producer over the root stands for the window of pairs (i, v i): its offset is the window start *)
Definition RepE (q : nat * P) (a b : nat) : Prop := fst q = a /\ Rep (snd q) a b.

Lemma combine_seq_map a n : combine (seq a n) (map v (seq a n)) = map (fun i => (i, v i)) (seq a n).
Proof. revert a; induction n as [|n IH]; intros a; cbn; [reflexivity|]. f_equal. apply IH. Qed.

Lemma RepE_items q a b : RepE q a b -> p_items (penum D) q = map (fun i => (i, v i)) (seq a (b - a)).
Proof.
  intros [Ha H]. unfold penum; cbn [p_items]. rewrite (Rep_len _ _ _ H), (Rep_items _ _ _ H), Ha. apply combine_seq_map.
Qed.

Lemma RepE_split q a b k : RepE q a b -> lo <= k <= b - a ->
  exists ql qr, p_split (penum D) q k = Ok (ql, qr) /\ RepE ql a (a + k) /\ RepE qr (a + k) b.
Proof.
  intros [Ha H] Hk. destruct (Rep_split _ _ _ k H Hk) as (pl & pr & Es & Rl & Rr).
  unfold penum; cbn [p_split]. rewrite Es; cbn [obind fst snd].
  eexists _, _. split; [reflexivity|]. split; split; cbn [fst snd]; try assumption; lia.
Qed.

(* enumerate().map(f).sum() / reduce over any split tree = sequential fold over (i, v i) *)
Theorem reduce_enum {B} (op : B -> B -> B) (e0 : B) (f : nat * A -> B) :
  (forall x y z, op x (op y z) = op (op x y) z) -> (forall x, op e0 x = x) -> (forall x, op x e0 = x) ->
  forall t p a b, Rep p a b -> admissible lo t (b - a) ->
  run_reduce (penum D) op e0 f t (a, p) = Ok (fold_left (fun acc x => op acc (f x)) (map (fun i => (i, v i)) (seq a (b - a))) e0).
Proof.
  intros Has Hl Hr t p a b H Hadm.
  apply (run_reduce_window (penum D) lo (fun i => (i, v i)) RepE RepE_items RepE_split op e0 f Has Hl Hr t (a, p) a b); [|exact Hadm].
  split; [reflexivity | exact H].
Qed.
End Enum.

(* the two custom producers under enumerate().map(f).sum(): hom_rate (2-D), simpson2d (1-D, over the reals) *)
Theorem reduce_enum2d {T} (O : ops T) x0 x1 nx y0 y1 ny {B} (op : B -> B -> B) (e0 : B) (f : nat * (T * T) -> B) t :
  (forall x y z, op x (op y z) = op (op x y) z) -> (forall x, op e0 x = x) -> (forall x, op x e0 = x) ->
  admissible 0 t (nx * ny) ->
  run_reduce (penum (prod2d O x0 x1 nx y0 y1 ny)) op e0 f t (0, root2d nx ny) =
  Ok (fold_left (fun acc x => op acc (f x)) (combine (seq 0 (nx * ny)) (seq2d O x0 x1 nx y0 y1 ny)) e0).
Proof.
  intros Ha Hl Hr H.
  pose proof (reduce_enum (prod2d O x0 x1 nx y0 y1 ny) 0 (steps2d_value O x0 x1 nx y0 y1 ny) Rep2
                (Rep2_items O x0 x1 nx y0 y1 ny) (Rep2_len O x0 x1 nx y0 y1 ny) (Rep2_split O x0 x1 nx y0 y1 ny)
                op e0 f Ha Hl Hr t (root2d nx ny) 0 (nx * ny) (root2d_rep nx ny)) as R.
  rewrite Nat.sub_0_r in R. rewrite (R H). unfold seq2d, steps2d_len. rewrite combine_seq_map. reflexivity.
Qed.

Theorem reduce_enum1d (s e : R) n {B} (op : B -> B -> B) (e0 : B) (f : nat * R -> B) t :
  (forall x y z, op x (op y z) = op (op x y) z) -> (forall x, op e0 x = x) -> (forall x, op x e0 = x) ->
  admissible 1 t n ->
  run_reduce (penum (prod1d Rops)) op e0 f t (0, root1d s e n) =
  Ok (fold_left (fun acc x => op acc (f x)) (combine (seq 0 n) (seq1d Rops s e n)) e0).
Proof.
  intros Ha Hl Hr H.
  pose proof (reduce_enum (prod1d Rops) 1 (steps_value Rops s e n) (Rep1 s e n)
                (Rep1_items s e n) (Rep1_len s e n) (Rep1_split s e n)
                op e0 f Ha Hl Hr t (root1d s e n) 0 n (root1d_rep s e n)) as R.
  rewrite Nat.sub_0_r in R. rewrite (R H). unfold seq1d, steps_len. rewrite combine_seq_map. reflexivity.
Qed.

(* ------------------------------------------------------------------------------------------------ index ranges *)
Definition RepR (p : nat * nat) (a b : nat) : Prop := p = (a, b) /\ a <= b.

Lemma RepR_items p a b : RepR p a b -> p_items prod_range p = map (fun i => i) (seq a (b - a)).
Proof. intros [-> _]. cbn. rewrite map_id. reflexivity. Qed.
Lemma RepR_split p a b k : RepR p a b -> 0 <= k <= b - a ->
  exists pl pr, p_split prod_range p k = Ok (pl, pr) /\ RepR pl a (a + k) /\ RepR pr (a + k) b.
Proof.
  intros [-> H] Hk. cbn [prod_range p_split fst snd]. rewrite (proj2 (Nat.leb_le k (b - a))) by lia.
  eexists _, _. split; [reflexivity|]. split; split; try reflexivity; lia.
Qed.

Theorem reduce_range {B} (op : B -> B -> B) (e0 : B) (g : nat -> B) r t :
  (forall x y z, op x (op y z) = op (op x y) z) -> (forall x, op e0 x = x) -> (forall x, op x e0 = x) ->
  admissible 0 t (range_count r) ->
  run_reduce prod_range op e0 g t (range_root r) = Ok (fold_left (fun acc n => op acc (g n)) (range_list r) e0).
Proof.
  intros Has Hl Hr Hadm. unfold range_root, range_list.
  pose proof (run_reduce_window prod_range 0 (fun i => i) RepR RepR_items RepR_split op e0 g Has Hl Hr t
                (fst (fst r), fst (fst r) + range_count r) (fst (fst r)) (fst (fst r) + range_count r)) as R.
  replace (fst (fst r) + range_count r - fst (fst r)) with (range_count r) in R by lia.
  rewrite map_id in R. apply R; [split; [reflexivity | lia] | exact Hadm].
Qed.

(* ------------------------------------------------------------------------------------------------ Simpson *)
(* what the generated pieces must say for the two branches of `simpson` to compute the same sum *)
Lemma simpson_branches :
  simpson_then_parallel = false /\ simpson_else_parallel = true /\
  simpson_then_chain = simpson_else_chain /\
  (forall d, simpson_else_range d = simpson_then_range d) /\
  (forall d, range_list (simpson_then_range d) = seq 0 (S d)).
Proof.
  repeat split.
Qed.

(* the parallel branch, under any split tree, is the sequential branch's fold over the nodes 0..d (all d+1 of them) *)
Theorem simpson_parallel_is_sequential {B} (op : B -> B -> B) (e0 : B) (g : nat -> B) d t :
  (forall x y z, op x (op y z) = op (op x y) z) -> (forall x, op e0 x = x) -> (forall x, op x e0 = x) ->
  admissible 0 t (range_count (simpson_else_range d)) ->
  run_reduce prod_range op e0 g t (range_root (simpson_else_range d)) =
  Ok (fold_left (fun acc n => op acc (g n)) (range_list (simpson_then_range d)) e0) /\
  range_list (simpson_then_range d) = seq 0 (S d).
Proof.
  intros Has Hl Hr Hadm. destruct simpson_branches as (_ & _ & _ & Hrange & Hlist).
  split; [|apply Hlist]. replace (simpson_then_range d) with (simpson_else_range d) by (apply Hrange). apply reduce_range; assumption.
Qed.

(* ------------------------------------------------------------------------------------------------ the call-site table *)
Local Open Scope string_scope.

Definition adaptors_are (s : site) (l : list string) : bool := if list_eq_dec string_dec (s_adaptors s) l then true else false.

(* which theorem covers a site: producer kind x adaptor list x terminal *)
Definition site_class (s : site) : string :=
  let par := existsb (String.eqb "into_par_iter") (s_adaptors s) in
  if negb par then "sequential"
  else if String.eqb (s_producer s) "Steps2D" && adaptors_are s ["into_par_iter"; "map"] && String.eqb (s_terminal s) "sum" then "C15_reduce (2-D grid)"
  else if String.eqb (s_producer s) "Steps2D" && adaptors_are s ["into_par_iter"; "enumerate"; "map"] && String.eqb (s_terminal s) "sum" then "C15_reduce_enumerate (2-D grid)"
  else if String.eqb (s_producer s) "Steps1D" && adaptors_are s ["into_par_iter"; "enumerate"; "map"] && String.eqb (s_terminal s) "sum" then "C15_reduce_enumerate (1-D range)"
  else if String.eqb (s_producer s) "RangeInclusive" && adaptors_are s ["into_par_iter"; "map"; "map"] && String.eqb (s_terminal s) "sum" then "C15_simpson_parallel_is_sequential"
  else "UNCOVERED".

(* the table as it is expected to be (pinned): an edit of any call site shows up here *)
Definition expected_sites : list (string * string * string) :=
  [("simpson.then", "0..=divs", "sequential");
   ("simpson.else", "0..=divs", "C15_simpson_parallel_is_sequential");
   ("simpson2d.outer", "Steps(ay, by, steps)", "C15_reduce_enumerate (1-D range)");
   ("simpson2d.inner", "Steps(ax, bx, steps)", "C15_reduce_enumerate (1-D range)");
   ("counts_coincidences", "ranges.as_steps()", "C15_reduce (2-D grid)");
   ("counts_singles_signal", "ranges.as_steps()", "C15_reduce (2-D grid)");
   ("counts_singles_idler", "ranges.as_steps()", "C15_reduce (2-D grid)");
   ("jsi_norm", "jsa_values.iter()", "sequential");
   ("hom_rate", "ranges.as_steps()", "C15_reduce_enumerate (2-D grid)");
   ("hom_rate_series", "time_delays.into_iter()", "sequential")].

Definition expected_details : list (list string) :=
  [["closure digests map:de7bc3bc7b9f map:f47e32993dd0 sum"];
   ["closure digests map:de7bc3bc7b9f map:f47e32993dd0 sum"];
   ["count steps"; "enumerate index ny, value y"; "let a_n = get_simpson_weight(ny, divs);"; "result sy * a_n"];
   ["count steps"; "enumerate index nx, value x"; "let a_n = get_simpson_weight(nx, divs);"; "term func(x, y).into() * a_n"];
   ["let s = spdc.joint_spectrum(integrator);"; "let (dws, dwi) = ranges.steps().division_widths();"; "let dw2 = dws * dwi;"; "let correction_factor = get_counts_correction(spdc);"; "|(ws, wi)| s.jsi(ws, wi) * dw2"; "scaled by correction_factor"];
   ["let s = spdc.joint_spectrum(integrator);"; "let (dws, dwi) = ranges.steps().division_widths();"; "let dw2 = dws * dwi;"; "let correction_factor = get_counts_correction(spdc);"; "|(ws, wi)| s.jsi_singles(ws, wi) * dw2"; "scaled by correction_factor"];
   ["let s = JointSpectrum::new(spdc.clone().with_swapped_signal_idler(), integrator);"; "let (dws, dwi) = ranges.steps().division_widths();"; "let dw2 = dws * dwi;"; "let correction_factor = get_counts_correction(spdc);"; "|(ws, wi)| s.jsi_singles(wi, ws) * dw2"; "scaled by correction_factor"];
   ["|f| f.norm_sqr()"];
   ["let norm = norm.unwrap_or_else(|| jsi_norm(jsa_values));"; "let ranges = ranges.into();"; "|(index, (ws, wi))| { let delta_w = wi - ws; let shift = Complex::from_polar(1., *(delta_w * time_delay / RAD)); let f_si = jsa_values[index]; let f_is = jsa_values_swapped[index]; (f_si.conj() * f_is * shift).re }"; "returns 0.5 * (1. - result / norm)"];
   ["let norm = jsi_norm(jsa_values);"; "|time_delay| {  hom_rate(ranges, jsa_values, jsa_values_swapped, time_delay, Some(norm)) }"]].

Lemma sites_covered :
  map (fun s => (s_fn s, s_source s, site_class s)) reduction_sites = expected_sites /\
  forallb (fun s => negb (String.eqb (site_class s) "UNCOVERED")) reduction_sites = true.
Proof. vm_compute. split; reflexivity. Qed.

Lemma sites_pinned : map s_detail reduction_sites = expected_details.
Proof. vm_compute. reflexivity. Qed.

(* the generated nat pieces of the two quadratures *)
Lemma simpson_pieces :
  (forall divs, simpson_divs divs = divs + divs mod 2 - 2)%nat /\
  (forall d, simpson_takes_then_branch d = (d <? 128)%nat) /\
  (forall divs, simpson2d_divs divs = divs + divs mod 2)%nat /\ (forall d, simpson2d_steps d = d + 1)%nat.
Proof. repeat split. Qed.
