(* C10 x C06 — the two-source visibilities swap under signal <-> idler relabelling: V_ss of a setup on the ranges (ls, li) is
   V_ii of its exchanged twin on (li, ls), and vice versa, for every quadrature functional. *)
From Coq Require Import Reals Lra Lia Arith List Setoid Morphisms.
From Coquelicot Require Import Coquelicot.
From SpdVerif Require Import Base.Rx Base.CxPM Model.PMParams Gen.PMIntegrand Proofs.C06_swap Proofs.C06_defined Proofs.C06_spectrum.
From SpdVerif Require Import Model.FinSum Model.Hom Model.Hom2 Proofs.FinSum_lemmas Proofs.Cx_lemmas Proofs.C09_range Proofs.C09_dip
  Proofs.C09_struct Proofs.CMat Proofs.C10_svd Proofs.C10_identical Proofs.C10_setup Proofs.C09_compose.
Local Open Scope R_scope.

Definition cmTr (M : cmat) : cmat := fun s i => M i s.

(* ---- purity of the transposed matrix *)
Lemma FhF_transpose n M i1 i2 : FhF ROps n (cmTr M) i1 i2 = (FFh ROps n M i1 i2)^*.
Proof.
  unfold FhF, FFh, cmTr. change (gcsum ROps) with csum. rewrite csum_conj. apply csum_ext. intros s _.
  rewrite cconj_cmul, cconj_invol. reflexivity.
Qed.

Lemma re_tr_sq_conj n (X : cmat) : re_tr_sq ROps n (fun j k => (X j k)^*) = re_tr_sq ROps n X.
Proof.
  unfold re_tr_sq. change (gsum ROps) with rsum. apply rsum_ext; intros j _. apply rsum_ext; intros k _.
  generalize (X j k) (X k j). intros a b. cx_destruct. cx_unfold. ring.
Qed.

Lemma frob2_transpose n M : frob2 ROps n (cmTr M) = frob2 ROps n M.
Proof. unfold frob2, cmTr. change (gsum ROps) with rsum. apply rsum_switch. Qed.

Lemma re_tr_sq_ext n (X Y : cmat) : (forall j k, X j k = Y j k) -> re_tr_sq ROps n X = re_tr_sq ROps n Y.
Proof.
  intros H. unfold re_tr_sq. change (gsum ROps) with rsum. apply rsum_ext; intros j _. apply rsum_ext; intros k _. rewrite !H. reflexivity.
Qed.

Theorem purity_i_transpose n M : purity_i ROps n (cmTr M) = purity_s ROps n M /\ purity_s ROps n (cmTr M) = purity_i ROps n M.
Proof.
  assert (E : purity_i ROps n (cmTr M) = purity_s ROps n M).
  { rewrite purity_i_unfold, purity_s_unfold, frob2_transpose.
    rewrite (re_tr_sq_ext n _ (fun j k => (FFh ROps n M j k)^*)) by (intros; apply FhF_transpose).
    rewrite re_tr_sq_conj. reflexivity. }
  split; [exact E|]. rewrite purity_s_eq_i, E. apply purity_s_eq_i.
Qed.

(* purity reads the matrix on the index range only *)
Lemma purity_s_meq n M M' : cmeq n M M' -> purity_s ROps n M = purity_s ROps n M'.
Proof.
  intros H. rewrite !purity_s_unfold, !re_tr_sq_mtr, !frob2_mtr, !FFh_mmul. rewrite H. reflexivity.
Qed.

Lemma purity_i_meq n M M' : cmeq n M M' -> purity_i ROps n M = purity_i ROps n M'.
Proof. intros H. rewrite <- !purity_s_eq_i. apply purity_s_meq. exact H. Qed.

(* ---- the twin's samples on the exchanged ranges are the transposed samples *)
Section Twin.
  Variables (Q : (R -> C) -> R -> R -> C) (S Ssw : R -> R -> pm_params) (ls li : R * R) (n : nat).
  Hypothesis Htie : exchange_tie S Ssw.
  Let g := axes_grid ls li n.
  Let g' := axes_grid li ls n.
  Hypothesis Hphys : physical_on S g.
  Let F := tabulate (jsa_of Q S) g.
  Let F' := tabulate (jsa_of Q Ssw) g'.

  Lemma twin_samples r c : (r < n)%nat -> (c < n)%nat -> F' (r * n + c)%nat = F (c * n + r)%nat.
  Proof.
    intros Hr Hc. unfold F', F, tabulate, g', g, grid_ws, grid_wi, axes_grid. cbn [g_cols g_rows g_x0 g_x1 g_y0 g_y1].
    rewrite !idx_2d by assumption. cbn [fst snd].
    apply (jsa_of_exchange Q S Ssw _ _ Htie).
    assert (Hk : (c * n + r < grid_len g)%nat) by (unfold g, grid_len, axes_grid; cbn [g_cols g_rows]; nia).
    pose proof (Hphys (c * n + r)%nat Hk) as P. unfold g, grid_ws, grid_wi, axes_grid in P. cbn [g_cols g_rows g_x0 g_x1 g_y0 g_y1] in P.
    rewrite idx_2d in P by assumption. exact P.
  Qed.

  Lemma twin_is_transpose k : (k < n * n)%nat -> F' k = transpose_arr n F k.
  Proof.
    intros Hk. destruct (lt_sq_decomp n k Hk) as (r & c & Hr & Hc & ->).
    rewrite transpose_arr_idx, tr_idx_rc by assumption. apply twin_samples; assumption.
  Qed.

  Lemma twin_norm : jsi_norm ROps (n * n) F' = jsi_norm ROps (n * n) F.
  Proof. apply jsi_norm_transpose. exact twin_is_transpose. Qed.

  Lemma twin_Fmat : cmeq n (Fmat n F') (cmTr (Fmat n F)).
  Proof. intros s i Hs Hi. unfold Fmat, cmTr, get_1d_index. apply twin_samples; assumption. Qed.

  Theorem purity_exchange :
    jsi_norm ROps (n * n) F <> 0 ->
    let v := setup_ts_visibilities_identical (jsa_of Q S) ls li n in
    let v' := setup_ts_visibilities_identical (jsa_of Q Ssw) li ls n in
    fst (fst v) = snd (fst v') /\ snd (fst v) = fst (fst v') /\ fst (fst v) = snd (fst v).
  Proof.
    intros HN v v'.
    destruct (setup_identical_visibilities (jsa_of Q S) ls li n HN) as (V1 & V2 & E).
    assert (HN' : jsi_norm ROps (n * n) (tabulate (jsa_of Q Ssw) (axes_grid li ls n)) <> 0) by (fold g' F'; rewrite twin_norm; exact HN).
    destruct (setup_identical_visibilities (jsa_of Q Ssw) li ls n HN') as (W1 & W2 & _).
    fold g F in V1, V2, E. fold g' F' in W1, W2.
    destruct (purity_i_transpose n (Fmat n F)) as [T1 T2].
    unfold v, v'. rewrite V1, V2, W1, W2, (purity_s_meq n _ _ twin_Fmat), (purity_i_meq n _ _ twin_Fmat), T1, T2.
    repeat split; try reflexivity. exact E.
  Qed.
End Twin.
