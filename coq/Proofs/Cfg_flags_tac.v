(* Case analysis on the source-derived repair flags of Gen/ConfigSites.v (cfg_checks_external_range, cfg_checks_total_reflection,
   searches_cannot_fail).  The proofs of C16/C17/C20 must hold for BOTH values of every flag (the flags change when /repo is
   repaired), so a test `flag && x` is always split as a whole, never computed. *)
From Coq Require Import Bool.
From SpdVerif Require Import Gen.ConfigSites.

Ltac flag_cases :=
  cbn [negb]; rewrite ?andb_false_r;
  repeat match goal with
  | |- context [cfg_checks_external_range && ?x] => destruct (cfg_checks_external_range && x)
  | |- context [cfg_checks_total_reflection && ?x] => destruct (cfg_checks_total_reflection && x)
  | |- context [if cfg_checks_total_reflection then _ else _] => destruct cfg_checks_total_reflection
  | |- context [if searches_cannot_fail then _ else _] => destruct searches_cannot_fail
  end.
