(* C18 — the external-angle paths against the Snell search as generated for C13 (Gen/Beam.v: calc_internal_theta_from_external_gen,
   snell_cost_gen; Nelder-Mead `nm` and the crystal's index as oracles).  The abstract `snell_internal` oracle of the generated setters
   is instantiated with that generated function.  For BOTH signs of the requested angle v (e = v deg):
   the optimiser searches the magnitude th in [0, pi/2] of the internal angle on the side sign(e) of the azimuth plane; the stored
   angle is sign(e) * th, it satisfies | |sin e| - n(sign(e) th) sin th | <= r (r = the optimiser's residual), and the view shows it.
   This file uses only the generated definitions (no lemma from the C13 proof files). *)
From Coq Require Import Reals Lra List String.
From SpdVerif Require Import Base.Rx Base.PolingBase Gen.Poling Gen.Sweep Spec.SweepPaths Model.Sweep
  Proofs.C18_angles Proofs.C18_table Proofs.C18_frame.
From SpdVerif Require Model.Optics Model.Fresnel Gen.Beam.
Import ListNotations.
Local Open Scope R_scope.

Section External.
(* argmin's Nelder-Mead as wrapped by math::nelder_mead_1d: cost, two seeds, max iterations, bounds, tolerance *)
Variable nm : (R -> R) -> R -> R -> R -> R -> R -> R -> R.
(* crystal_setup.index_along(beam.vacuum_wavelength(), direction, beam.polarization()) *)
Variable index : crystal_setup -> beam -> Model.Optics.vec -> R.
Variable pol : opaque -> Model.Optics.polarization.
Variable compute_sign : beam -> beam -> crystal_setup -> sign.

(* a beam of the sweep model as a beam of C13's model (the direction is the derived field) *)
Definition to13 (b : beam) : Gen.Beam.beam :=
  {| Gen.Beam.b_waist := w_x (b_waist b); Gen.Beam.b_frequency := b_frequency b; Gen.Beam.b_polarization := pol (b_polarization b);
     Gen.Beam.b_theta := b_theta b; Gen.Beam.b_phi := b_phi b;
     Gen.Beam.b_direction := Model.Fresnel.polar_dir (b_phi b) (b_theta b) |}.

(* Beam::calc_internal_theta_from_external, as generated *)
Definition snell_of (bm : beam) (e : R) (c : crystal_setup) : R :=
  Gen.Beam.calc_internal_theta_from_external_gen nm (index c bm) (to13 bm) e.

(* the magnitude the optimiser returns for external angle e *)
Definition theta_mag (n_along : Model.Optics.vec -> R) (s : Gen.Beam.beam) (e : R) : R :=
  nm (Gen.Beam.snell_cost_gen n_along s e) (Rabs e) (Rabs e + 1) 100 0 (PI / 2) 1e-12.

Lemma snell_of_is_signed_magnitude bm e c :
  snell_of bm e c = signum e * theta_mag (index c bm) (to13 bm) e.
Proof.
  unfold snell_of, Gen.Beam.calc_internal_theta_from_external_gen, theta_mag, Gen.Beam.snell_cost_gen.
  rewrite !Rdiv_one, !Rmult_1_r. reflexivity.
Qed.

(* what the cost function measures *)
Lemma cost_is_residual n_along s e th :
  Gen.Beam.snell_cost_gen n_along s e th =
  Rabs (Rabs (sin e) - n_along (Model.Optics.normalize (Model.Fresnel.polar_dir (Gen.Beam.b_phi s) (signum e * th))) * sin th).
Proof.
  unfold Gen.Beam.snell_cost_gen, Model.Fresnel.polar_dir. rewrite !Rdiv_one, !Rmult_1_r. reflexivity.
Qed.

Lemma signum_cases e : (0 <= e /\ signum e = 1) \/ (e < 0 /\ signum e = -1).
Proof. unfold signum. destruct (Rle_dec 0 e); [left | right]; split; lra. Qed.

Theorem external_contract p b : In (p, (SBeamThetaExternal b, UDeg)) spec_table ->
  exists f, get_setter snell_of compute_sign p = Some f /\ forall s v r,
    let bm := get_beam b s in
    let e := v * (PI / 180) in
    let n_along := index (s_crystal_setup s) bm in
    let th := theta_mag n_along (to13 bm) e in
    0 <= b_phi bm < 2 * PI ->
    0 <= th <= PI / 2 ->
    Gen.Beam.snell_cost_gen n_along (to13 bm) e th <= r ->
    let bm' := get_beam b (f s v) in
    (* stored angle: the magnitude with the sign of the request *)
    b_theta bm' = signum e * th /\ (0 <= v -> 0 <= b_theta bm') /\ (v < 0 -> b_theta bm' <= 0) /\
    b_phi bm' = b_phi bm /\
    (* Snell's law within the residual, on the side of the azimuth plane the request points to *)
    Rabs (Rabs (sin e) - n_along (Model.Optics.normalize (Model.Fresnel.polar_dir (b_phi bm') (b_theta bm'))) * sin (Rabs (b_theta bm'))) <= r /\
    assoc (config_key (SBeamThetaExternal b)) (config_num (f s v)) = Some (round4 (b_theta bm' / (PI / 180))).
Proof.
  intros Hin. destruct (setters_match snell_of compute_sign p _ _ Hin) as [f [Hf E]].
  exists f. split; [exact Hf|]. intros s v r bm e n_along th Hphi Hb Hc bm'.
  pose proof PI_RGT_0 as Hpi.
  assert (Hsn : snell_of bm e (s_crystal_setup s) = signum e * th).
  { unfold th, n_along. apply snell_of_is_signed_magnitude. }
  assert (Hrange : - PI < signum e * th <= PI) by (destruct (signum_cases e) as [[_ ->] | [_ ->]]; lra).
  assert (Ht' : b_theta bm' = signum e * th /\ b_phi bm' = b_phi bm).
  { unfold bm'. rewrite E. unfold bm, e in *. destruct s as [sg idl pm cr pp pw bw thr swp iwp df]; destruct b;
      cbn [ideal_set get_beam put_beam s_signal s_idler s_pump s_crystal_setup b_theta b_phi si_of] in *;
      (split; [ rewrite norm_angle_signed_id; [exact Hsn | rewrite Hsn; exact Hrange] | apply norm_angle_id; exact Hphi ]). }
  destruct Ht' as [Et Ep].
  assert (Hv : (0 <= v <-> 0 <= e) /\ (v < 0 <-> e < 0)) by (unfold e; split; split; intros; nra).
  split; [exact Et|]. split.
  { intros H0. rewrite Et. destruct (signum_cases e) as [[_ ->] | [Hn _]]; [lra | exfalso; destruct Hv as [[Hv1 _] _]; specialize (Hv1 H0); lra]. }
  split.
  { intros H0. rewrite Et. destruct (signum_cases e) as [[Hn _] | [_ ->]]; [exfalso; destruct Hv as [_ [Hv2 _]]; specialize (Hv2 H0); lra | lra]. }
  split; [exact Ep|]. split.
  { rewrite Et, Ep.
    assert (Hab : Rabs (signum e * th) = th) by (destruct (signum_cases e) as [[_ ->] | [_ ->]]; [rewrite Rmult_1_l; apply Rabs_right; lra | replace (-1 * th) with (- th) by ring; rewrite Rabs_Ropp; apply Rabs_right; lra]).
    rewrite Hab. pose proof Hc as Hc'. rewrite cost_is_residual in Hc'. cbn [to13 Gen.Beam.b_phi] in Hc'. exact Hc'. }
  pose proof (all_values_ok snell_of compute_sign) as Hall. rewrite Forall_forall in Hall.
  pose proof (Hall _ Hin) as H. unfold value_entry_ok in H. cbn [fst snd] in H.
  assert (G : value_guard snell_of (SBeamThetaExternal b) UDeg v s).
  { cbn [value_guard si_of]. fold bm. fold e. rewrite Hsn. exact Hrange. }
  specialize (H ltac:(discriminate) s v G). unfold bm'. rewrite E, H.
  cbn [expected_value si_of]. fold bm. fold e. rewrite Hsn.
  f_equal. f_equal. f_equal. symmetry. rewrite <- Et. unfold bm'. now rewrite E.
Qed.
End External.
