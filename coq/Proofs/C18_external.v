(* C18 — the external-angle paths against the Snell contract of C13 (Proofs/C13_snell.v over Gen/Beam.v):
   the abstract `snell_internal` oracle of the generated setters is instantiated with C13's generated
   calc_internal_theta_from_external (Nelder-Mead `nm` and the crystal's index as oracles), so that the clause reads:
   the stored internal angle th satisfies |sin e - n(th) sin th| <= r (r = the optimiser's residual) and is what the view shows. *)
From Coq Require Import Reals Lra List String.
From SpdVerif Require Import Base.Rx Base.PolingBase Gen.Poling Gen.Sweep Spec.SweepPaths Model.Sweep
  Proofs.C18_angles Proofs.C18_table Proofs.C18_frame.
From SpdVerif Require Model.Optics Model.Fresnel Gen.Beam Model.Beam Proofs.C02_frame Proofs.C13_snell.
Import ListNotations.
Local Open Scope R_scope.

Section External.
(* argmin's Nelder-Mead as wrapped by math::nelder_mead_1d (C13's oracle) *)
Variable nm : (R -> R) -> R -> R -> R -> R -> R -> R -> R.
(* crystal_setup.index_along(beam.vacuum_wavelength(), direction, beam.polarization()) *)
Variable index : crystal_setup -> beam -> Model.Optics.vec -> R.
Variable pol : opaque -> Model.Optics.polarization.
Variable compute_sign : beam -> beam -> crystal_setup -> sign.

(* a beam of the sweep model as a beam of C13's model (the direction is the derived field) *)
Definition to13 (b : beam) : Gen.Beam.beam :=
  {| Gen.Beam.b_waist := w_x (b_waist b); Gen.Beam.b_frequency := b_frequency b; Gen.Beam.b_polarization := pol (b_polarization b);
     Gen.Beam.b_theta := b_theta b; Gen.Beam.b_phi := b_phi b;
     Gen.Beam.b_direction := Model.Fresnel.polar_dir (b_phi b) (b_theta b) |}.

(* Beam::calc_internal_theta_from_external, as generated for C13 *)
Definition snell_of (bm : beam) (e : R) (c : crystal_setup) : R :=
  Proofs.C13_snell.snell_inv_of nm (index c bm) (to13 bm) e.

Lemma to13_inv b : 0 <= b_phi b < 2 * PI -> - PI < b_theta b <= PI -> Model.Beam.beam_inv (to13 b).
Proof.
  intros Hp Ht. unfold Model.Beam.beam_inv, to13. cbn.
  split; [reflexivity|]. split; [apply Proofs.C02_frame.polar_dir_unit|]. split; assumption.
Qed.

Lemma theta_external_ext n_along (s1 s2 : Gen.Beam.beam) :
  Gen.Beam.b_phi s1 = Gen.Beam.b_phi s2 -> Gen.Beam.b_theta s1 = Gen.Beam.b_theta s2 ->
  Gen.Beam.theta_external_gen n_along s1 = Gen.Beam.theta_external_gen n_along s2.
Proof.
  intros Hp Ht. unfold Gen.Beam.theta_external_gen, Gen.Beam.calc_external_theta_from_internal_gen. now rewrite Hp, Ht.
Qed.

Theorem external_contract p b : In (p, (SBeamThetaExternal b, UDeg)) spec_table ->
  exists f, get_setter snell_of compute_sign p = Some f /\ forall s v r M,
    let bm := get_beam b s in
    let e := Rabs (v * (PI / 180)) in
    let n_along := index (s_crystal_setup s) bm in
    let th := Proofs.C13_snell.theta_star nm n_along (to13 bm) e in
    0 <= b_phi bm < 2 * PI -> - PI < b_theta bm <= PI ->
    e <= M -> M < PI / 2 -> 0 <= th <= PI / 2 ->
    Gen.Beam.snell_cost_gen n_along (to13 bm) e th <= r ->
    let bm' := get_beam b (f s v) in
    b_theta bm' = th /\ b_phi bm' = b_phi bm /\
    Rabs (sin e - n_along (Model.Optics.normalize (Model.Fresnel.polar_dir (b_phi bm') (b_theta bm'))) * sin (b_theta bm')) <= r /\
    assoc (config_key (SBeamThetaExternal b)) (config_num (f s v)) = Some (round4 (b_theta bm' / (PI / 180))) /\
    (sin e + r <= sin M -> Rabs (Gen.Beam.theta_external_gen n_along (to13 bm') - e) <= r / cos M).
Proof.
  intros Hin. destruct (setters_match snell_of compute_sign p _ _ Hin) as [f [Hf E]].
  exists f. split; [exact Hf|]. intros s v r M bm e n_along th Hphi Hth HeM HM Hb Hc bm'.
  assert (He0 : 0 <= e) by apply Rabs_pos.
  pose proof PI_RGT_0 as Hpi.
  assert (Hsn : snell_of bm e (s_crystal_setup s) = th).
  { unfold snell_of. fold n_along. apply Proofs.C13_snell.calc_internal_is_theta_star. exact He0. }
  assert (Ht' : b_theta bm' = th /\ b_phi bm' = b_phi bm).
  { unfold bm'. rewrite E. unfold bm, e in *. destruct s as [sg idl pm cr pp pw bw thr swp iwp df]; destruct b;
      cbn [ideal_set get_beam put_beam s_signal s_idler s_pump s_crystal_setup b_theta b_phi si_of] in *;
      (split; [ rewrite norm_angle_signed_id; [exact Hsn | rewrite Hsn; lra] | apply norm_angle_id; exact Hphi ]). }
  destruct Ht' as [Et Ep].
  split; [exact Et|]. split; [exact Ep|]. split.
  { rewrite Et, Ep. apply (Proofs.C13_snell.residual_form nm n_along (to13 bm) e r Hc). }
  split.
  { pose proof (all_values_ok snell_of compute_sign) as Hall. rewrite Forall_forall in Hall.
    pose proof (Hall _ Hin) as H. unfold value_entry_ok in H. cbn [fst snd] in H.
    assert (G : value_guard snell_of (SBeamThetaExternal b) UDeg v s).
    { cbn [value_guard si_of]. fold bm. fold e. rewrite Hsn. lra. }
    specialize (H ltac:(discriminate) s v G). unfold bm'. rewrite E, H.
    cbn [expected_value si_of]. fold bm. fold e. rewrite Hsn.
    f_equal. f_equal. f_equal. symmetry. rewrite <- Et. unfold bm'. now rewrite E. }
  intros HrM.
  pose proof (to13_inv bm Hphi Hth) as Hinv.
  pose proof (Proofs.C13_snell.after_set_theta_external nm n_along (to13 bm) e M Hinv (conj He0 HeM) HM Hb) as [A1 A2].
  pose proof (Proofs.C13_snell.snell_roundtrip nm n_along (to13 bm) e r M Hinv (conj He0 HeM) HM Hb Hc HrM) as RT.
  rewrite (theta_external_ext n_along (to13 bm') (Gen.Beam.set_theta_external_gen (Proofs.C13_snell.snell_inv_of nm n_along) (to13 bm) e)).
  - exact RT.
  - rewrite A2. cbn [to13 Gen.Beam.b_phi]. exact Ep.
  - rewrite A1. cbn [to13 Gen.Beam.b_theta]. exact Et.
Qed.
End External.
