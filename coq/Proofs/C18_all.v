(* C18 — statements about the generated table, assembled from C18_table / C18_frame / C18_sweep. *)
From Coq Require Import Reals Lra List String.
From SpdVerif Require Import Base.Rx Base.PolingBase Gen.Poling Gen.Sweep Spec.SweepPaths Model.Sweep
  Proofs.C18_table Proofs.C18_frame Proofs.C18_sweep.
Import ListNotations.
Local Open Scope R_scope.

Section All.
Variable snell_internal : beam -> R -> crystal_setup -> R.
Variable compute_sign : beam -> beam -> crystal_setup -> sign.
Notation getter := (get_setter snell_internal compute_sign).
Notation ideal := (ideal_set snell_internal compute_sign).

(* every one of the 25 setters writes exactly one slot (for SOME stored value x): nothing else moves in the view *)
Lemma frame_all p sl u : In (p, (sl, u)) spec_table ->
  exists f, getter p = Some f /\ forall s v, slot_pre sl s -> slot_guard sl s ->
    config_opaque (f s v) = config_opaque s /\
    (sl <> SPolingPeriod -> config_poling (f s v) = config_poling s) /\
    agree_except (config_key sl) (config_num (f s v)) (config_num s).
Proof.
  intros Hin.
  assert (Hsome : exists f, getter p = Some f /\ forall s v, slot_pre sl s -> exists x, f s v = ideal sl x s).
  { destruct u;
      try (destruct (setters_match snell_internal compute_sign p sl _ Hin ltac:(discriminate)) as [f [Hf E]];
           exists f; split; [exact Hf|]; intros s v Hpre; eexists; now apply E).
    destruct (thz_some snell_internal compute_sign p sl Hin) as [f [Hf E]].
    exists f; split; [exact Hf|]; intros s v _; apply E. }
  destruct Hsome as [f [Hf E]]. exists f. split; [exact Hf|]. intros s v Hpre G.
  destruct (E s v Hpre) as [x Ex]. rewrite Ex. now apply frame.
Qed.

(* ... and for every path except the three frequency paths the named key shows the requested value in the path's unit *)
Lemma value_all p sl u : In (p, (sl, u)) spec_table -> u <> UThz -> sl <> SPolingPeriod ->
  exists f, getter p = Some f /\ forall s v, value_guard snell_internal sl u v s ->
    assoc (config_key sl) (config_num (f s v)) = Some (expected_value snell_internal sl u v s).
Proof.
  intros Hin Hu Hp.
  destruct (setters_match snell_internal compute_sign p sl u Hin Hu) as [f [Hf E]].
  exists f; split; [exact Hf|]. intros s v G. rewrite E by (destruct sl; try exact I; contradiction).
  pose proof (all_values_ok snell_internal compute_sign) as H. rewrite Forall_forall in H.
  exact (H _ Hin Hu Hp s v G).
Qed.

Lemma poling_all :
  exists f, getter "periodic_poling.poling_period_um" = Some f /\
    (forall s v, s_pp s <> Off -> config_num (f s v) = config_num s /\ config_opaque (f s v) = config_opaque s) /\
    (forall p sg ap s v, s_pp s = On p sg ap -> v <> 0 ->
       config_poling (f s v) = Some (round4 (Rabs v), apod_to_config ap) /\
       exists m, s_pp (f s v) = On m (compute_sign (s_signal s) (s_pump s) (s_crystal_setup s)) ap /\ 0 < m /\ m = Rabs v * 1e-6).
Proof.
  assert (Hin : In ("periodic_poling.poling_period_um"%string, (SPolingPeriod, UUm)) spec_table) by (cbn; tauto).
  destruct (setters_match snell_internal compute_sign _ _ _ Hin ltac:(discriminate)) as [f [Hf E]].
  exists f. split; [exact Hf|]. split.
  - intros s v Hon. rewrite E by exact Hon. apply frame_poling.
  - intros p sg ap s v Hpp Hv. rewrite E by (cbn [slot_pre]; rewrite Hpp; discriminate).
    now apply (poling_value snell_internal compute_sign p sg ap s v).
Qed.
End All.
