(* C18 — statements about the generated table, assembled from C18_table / C18_frame / C18_sweep. *)
From Coq Require Import Reals Lra List String.
From SpdVerif Require Import Base.Rx Base.PolingBase Gen.Poling Gen.Sweep Spec.SweepPaths Model.Sweep
  Proofs.C18_table Proofs.C18_frame Proofs.C18_sweep.
Import ListNotations.
Local Open Scope R_scope.

Section All.
Variable snell_internal : beam -> R -> crystal_setup -> R.
Variable compute_sign : beam -> beam -> crystal_setup -> sign.
Notation getter := (get_setter snell_internal compute_sign).
Notation ideal := (ideal_set snell_internal compute_sign).

(* every one of the 25 setters writes exactly one slot: nothing else moves in the view *)
Lemma frame_all p sl u : In (p, (sl, u)) spec_table ->
  exists f, getter p = Some f /\ forall s v, slot_guard sl s ->
    config_opaque (f s v) = config_opaque s /\
    (sl <> SPolingPeriod -> config_poling (f s v) = config_poling s) /\
    agree_except (config_key sl) (config_num (f s v)) (config_num s).
Proof.
  intros Hin. destruct (setters_match snell_internal compute_sign p sl u Hin) as [f [Hf E]].
  exists f. split; [exact Hf|]. intros s v G. rewrite E. now apply frame.
Qed.

(* ... and the named key shows the requested value in the path's unit *)
Lemma value_all p sl u : In (p, (sl, u)) spec_table -> sl <> SPolingPeriod ->
  exists f, getter p = Some f /\ forall s v, value_guard snell_internal sl u v s ->
    assoc (config_key sl) (config_num (f s v)) = Some (expected_value snell_internal sl u v s).
Proof.
  intros Hin Hp.
  destruct (setters_match snell_internal compute_sign p sl u Hin) as [f [Hf E]].
  exists f; split; [exact Hf|]. intros s v G. rewrite E.
  pose proof (all_values_ok snell_internal compute_sign) as H. rewrite Forall_forall in H.
  exact (H _ Hin Hp s v G).
Qed.

(* the stored frequency after a frequency_thz setter: 2 pi v 1e12 rad/s *)
Lemma frequency_stored p b : In (p, (SBeamFrequency b, UThz)) spec_table ->
  exists f, getter p = Some f /\ forall s v, b_frequency (get_beam b (f s v)) = 2 * PI * (v * 1e12).
Proof.
  intros Hin. destruct (setters_match snell_internal compute_sign p _ _ Hin) as [f [Hf E]].
  exists f. split; [exact Hf|]. intros s v. rewrite E. destruct s, b; reflexivity.
Qed.

Lemma poling_all :
  exists f, getter "periodic_poling.poling_period_um" = Some f /\
    (forall s v, config_num (f s v) = config_num s /\ config_opaque (f s v) = config_opaque s) /\
    (forall p sg ap s v, s_pp s = On p sg ap -> v <> 0 ->
       config_poling (f s v) = Some (round4 (Rabs v), apod_to_config ap) /\
       exists m, s_pp (f s v) = On m (compute_sign (s_signal s) (s_pump s) (s_crystal_setup s)) ap /\ 0 < m /\ m = Rabs v * 1e-6) /\
    (forall s v, s_pp s = Off -> v <> 0 ->
       config_poling (f s v) = Some (round4 (Rabs v), CfgOff) /\
       exists m, s_pp (f s v) = On m (compute_sign (s_signal s) (s_pump s) (s_crystal_setup s)) ApOff /\ 0 < m /\ m = Rabs v * 1e-6).
Proof.
  assert (Hin : In ("periodic_poling.poling_period_um"%string, (SPolingPeriod, UUm)) spec_table) by (cbn; tauto).
  destruct (setters_match snell_internal compute_sign _ _ _ Hin) as [f [Hf E]].
  exists f. split; [exact Hf|]. split; [|split].
  - intros s v. rewrite E. apply frame_poling.
  - intros p sg ap s v Hpp Hv. rewrite E. now apply (poling_value snell_internal compute_sign p sg ap s v).
  - intros s v Hpp Hv. rewrite E. now apply (poling_value_unpoled snell_internal compute_sign s v).
Qed.
(* the whole pipeline for two documented paths: try_new accepts them, and swept spectrum value j * nx + i is the centre value of the base
   with slot 1 written with value i of the first axis (in path 1's unit) and then slot 2 with value j of the second axis *)
Lemma sweep_paths p1 sl1 u1 p2 sl2 u2 : In (p1, (sl1, u1)) spec_table -> In (p2, (sl2, u2)) spec_table ->
  forall base, exists s1 s2,
    spdc_iter_try_new snell_internal compute_sign base p1 p2 = Some (base, (s1, s2)) /\
    forall jsa2 nrm x0 x1 nx y0 y1 ny i j d, (i < nx)%nat -> (j < ny)%nat ->
      nth (j * nx + i) (spdc_iter_into_iter base s1 s2 x0 x1 nx y0 y1 ny) base =
        ideal sl2 (si_of u2 (axis_value y0 y1 ny j)) (ideal sl1 (si_of u1 (axis_value x0 x1 nx i)) base) /\
      nth (j * nx + i) (spdc_iter_jsi_values jsa2 nrm base s1 s2 x0 x1 nx y0 y1 ny) d =
        centre_value jsa2 nrm (ideal sl2 (si_of u2 (axis_value y0 y1 ny j)) (ideal sl1 (si_of u1 (axis_value x0 x1 nx i)) base)).
Proof.
  intros H1 H2 base.
  destruct (setters_match snell_internal compute_sign p1 sl1 u1 H1) as [s1 [G1 E1]].
  destruct (setters_match snell_internal compute_sign p2 sl2 u2 H2) as [s2 [G2 E2]].
  exists s1, s2. split.
  - rewrite try_new_spec, G1, G2. reflexivity.
  - intros jsa2 nrm x0 x1 nx y0 y1 ny i j d Hi Hj. split.
    + rewrite (setups_nth base s1 s2 x0 x1 nx y0 y1 ny i j base Hi Hj). now rewrite E1, E2.
    + rewrite (values_nth base s1 s2 jsa2 nrm x0 x1 nx y0 y1 ny i j d Hi Hj). now rewrite E1, E2.
Qed.
End All.
