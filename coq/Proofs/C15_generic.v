(* C15 — schedule independence, generically: for any producer whose split_at keeps the invariant "this producer stands for
   the index window [a, b) of one fixed sequence v", every admissible split tree gives the sequential result for the four
   drivers rayon applies (concatenation, enumerate, indexed collect, tree-shaped reduction). *)
From Coq Require Import List Arith Bool Lia.
From SpdVerif Require Import Base.GridOps Gen.Grid Model.Grid Model.Producer.
Import ListNotations.

Lemma combine_app {A B} (l1 l2 : list A) (m1 m2 : list B) : length l1 = length m1 ->
  combine (l1 ++ l2) (m1 ++ m2) = combine l1 m1 ++ combine l2 m2.
Proof.
  revert m1; induction l1 as [|a l1 IH]; intros [|b m1] H; cbn in *; try discriminate; [reflexivity|].
  f_equal. apply IH. lia.
Qed.

Lemma seq_split a k n : k <= n -> seq a n = seq a k ++ seq (a + k) (n - k).
Proof. intros H. rewrite <- seq_app. f_equal. lia. Qed.

Section Generic.
Context {P A : Type} (D : producer P A).
Variable lo : nat.                       (* smallest split index the producer admits *)
Variable v : nat -> A.                   (* the sequential sequence, by position *)
Variable Rep : P -> nat -> nat -> Prop.  (* Rep p a b: p stands for positions a .. b-1 *)
Hypothesis Rep_le : forall p a b, Rep p a b -> a <= b.
Hypothesis Rep_items : forall p a b, Rep p a b -> p_items D p = map v (seq a (b - a)).
Hypothesis Rep_len : forall p a b, Rep p a b -> p_len D p = b - a.
Hypothesis Rep_split : forall p a b k, Rep p a b -> lo <= k <= b - a ->
  exists pl pr, p_split D p k = Ok (pl, pr) /\ Rep pl a (a + k) /\ Rep pr (a + k) b.

Ltac split_node Hrep Hadm k :=
  let pl := fresh "pl" in let pr := fresh "pr" in let Es := fresh "Es" in let Rl := fresh "Rl" in let Rr := fresh "Rr" in
  destruct Hadm as (Hk & Hl & Hr);
  destruct (Rep_split _ _ _ k Hrep Hk) as (pl & pr & Es & Rl & Rr);
  rewrite Es; cbn [obind fst snd].

Theorem run_window : forall t p a b, Rep p a b -> admissible lo t (b - a) ->
  run D t p = Ok (map v (seq a (b - a))).
Proof.
  induction t as [|k l IHl r IHr]; intros p a b Hrep Hadm; cbn [run].
  - rewrite (Rep_items _ _ _ Hrep). reflexivity.
  - cbn [admissible] in Hadm. split_node Hrep Hadm k.
    rewrite (IHl _ a (a + k) Rl) by (replace (a + k - a) with k by lia; exact Hl). cbn [obind].
    rewrite (IHr _ (a + k) b Rr) by (replace (b - (a + k)) with (b - a - k) by lia; exact Hr). cbn [obind].
    f_equal. rewrite <- map_app. f_equal.
    replace (a + k - a) with k by lia. replace (b - (a + k)) with (b - a - k) by lia.
    symmetry. apply seq_split. lia.
Qed.

(* every leaf of every admissible tree reports (ExactSizeIterator::len at creation) the number of items it then yields *)
Theorem leaves_len : forall t p a b, Rep p a b -> admissible lo t (b - a) ->
  exists ls, leaves D t p = Ok ls /\ Forall (fun q => p_len D q = length (p_items D q)) ls.
Proof.
  induction t as [|k l IHl r IHr]; intros p a b Hrep Hadm; cbn [leaves].
  - exists [p]. split; [reflexivity|]. constructor; [|constructor].
    rewrite (Rep_len _ _ _ Hrep), (Rep_items _ _ _ Hrep), map_length, seq_length. reflexivity.
  - cbn [admissible] in Hadm. split_node Hrep Hadm k.
    destruct (IHl _ a (a + k) Rl) as (ll & El & Fl); [replace (a + k - a) with k by lia; exact Hl|].
    destruct (IHr _ (a + k) b Rr) as (lr & Er & Fr); [replace (b - (a + k)) with (b - a - k) by lia; exact Hr|].
    rewrite El, Er. cbn [obind]. exists (ll ++ lr). split; [reflexivity|]. apply Forall_app; split; assumption.
Qed.

Theorem run_enum_window : forall t off p a b, Rep p a b -> admissible lo t (b - a) ->
  run_enum D t off p = Ok (combine (seq off (b - a)) (map v (seq a (b - a)))).
Proof.
  induction t as [|k l IHl r IHr]; intros off p a b Hrep Hadm; cbn [run_enum].
  - rewrite (Rep_items _ _ _ Hrep), (Rep_len _ _ _ Hrep). reflexivity.
  - cbn [admissible] in Hadm. split_node Hrep Hadm k.
    rewrite (IHl off _ a (a + k) Rl) by (replace (a + k - a) with k by lia; exact Hl). cbn [obind].
    rewrite (IHr (off + k) _ (a + k) b Rr) by (replace (b - (a + k)) with (b - a - k) by lia; exact Hr). cbn [obind].
    f_equal. replace (a + k - a) with k by lia. replace (b - (a + k)) with (b - a - k) by lia.
    rewrite (seq_split off k (b - a)) by lia. rewrite (seq_split a k (b - a)) by lia. rewrite map_app.
    rewrite combine_app by (rewrite map_length, !seq_length; reflexivity). reflexivity.
Qed.

Theorem run_collect_window : forall t p a b, Rep p a b -> admissible lo t (b - a) ->
  run_collect D t (b - a) p = Ok (map v (seq a (b - a))).
Proof.
  induction t as [|k l IHl r IHr]; intros p a b Hrep Hadm; cbn [run_collect].
  - rewrite (Rep_items _ _ _ Hrep), map_length, seq_length, Nat.eqb_refl. reflexivity.
  - cbn [admissible] in Hadm. split_node Hrep Hadm k.
    pose proof (IHl _ a (a + k) Rl) as Il. replace (a + k - a) with k in Il by lia. rewrite Il by exact Hl. cbn [obind].
    pose proof (IHr _ (a + k) b Rr) as Ir. replace (b - (a + k)) with (b - a - k) in Ir by lia. rewrite Ir by exact Hr. cbn [obind].
    f_equal. rewrite <- map_app. f_equal. symmetry. apply seq_split. lia.
Qed.

(* tree-shaped reduction in a monoid *)
Section Reduce.
Context {B : Type} (op : B -> B -> B) (e : B) (f : A -> B).
Hypothesis op_assoc : forall x y z, op x (op y z) = op (op x y) z.
Hypothesis op_e_l : forall x, op e x = x.
Hypothesis op_e_r : forall x, op x e = x.

Let g := fun acc a => op acc (f a).

Lemma fold_left_from x l : fold_left g l x = op x (fold_left g l e).
Proof.
  revert x; induction l as [|a l IH]; intros x; cbn [fold_left].
  - symmetry. apply op_e_r.
  - rewrite IH. rewrite (IH (g e a)). unfold g. rewrite op_e_l. symmetry. apply op_assoc.
Qed.

Lemma fold_left_app_monoid l1 l2 : fold_left g (l1 ++ l2) e = op (fold_left g l1 e) (fold_left g l2 e).
Proof. rewrite fold_left_app. apply fold_left_from. Qed.

Theorem run_reduce_window : forall t p a b, Rep p a b -> admissible lo t (b - a) ->
  run_reduce D op e f t p = Ok (fold_left g (map v (seq a (b - a))) e).
Proof.
  induction t as [|k l IHl r IHr]; intros p a b Hrep Hadm; cbn [run_reduce].
  - rewrite (Rep_items _ _ _ Hrep). reflexivity.
  - cbn [admissible] in Hadm. split_node Hrep Hadm k.
    rewrite (IHl _ a (a + k) Rl) by (replace (a + k - a) with k by lia; exact Hl). cbn [obind].
    rewrite (IHr _ (a + k) b Rr) by (replace (b - (a + k)) with (b - a - k) by lia; exact Hr). cbn [obind].
    f_equal. rewrite <- fold_left_app_monoid, <- map_app. f_equal. f_equal.
    replace (a + k - a) with k by lia. replace (b - (a + k)) with (b - a - k) by lia.
    symmetry. apply seq_split. lia.
Qed.
End Reduce.
End Generic.

(* counts only (no assumption on the values): if split_at(k) yields pieces of sizes k and size-k and a piece of size m yields m
   items, every admissible tree yields size-many items and never panics *)
Section Sizes.
Context {P A : Type} (D : producer P A).
Variable lo : nat.
Variable size : P -> nat.
Hypothesis size_items : forall p, length (p_items D p) = size p.
Hypothesis size_split : forall p k, lo <= k <= size p ->
  exists pl pr, p_split D p k = Ok (pl, pr) /\ size pl = k /\ size pr = size p - k.

Theorem run_length : forall t p, admissible lo t (size p) -> exists l, run D t p = Ok l /\ length l = size p.
Proof.
  induction t as [|k l IHl r IHr]; intros p Hadm; cbn [run].
  - eexists; split; [reflexivity | apply size_items].
  - cbn [admissible] in Hadm. destruct Hadm as (Hk & Hl & Hr).
    destruct (size_split p k Hk) as (pl & pr & Es & Sl & Sr). rewrite Es; cbn [obind fst snd].
    destruct (IHl pl) as (a & Ea & La); [rewrite Sl; exact Hl|].
    destruct (IHr pr) as (b & Eb & Lb); [rewrite Sr; exact Hr|].
    rewrite Ea, Eb; cbn [obind]. eexists; split; [reflexivity|]. rewrite app_length. lia.
Qed.
End Sizes.

(* mapping the items (rayon's Map adaptor) keeps the window invariant, for the mapped sequence *)
Section Mapped.
Context {P A B : Type} (D : producer P A) (f : A -> B).
Variable lo : nat.
Variable v : nat -> A.
Variable Rep : P -> nat -> nat -> Prop.
Hypothesis Rep_items : forall p a b, Rep p a b -> p_items D p = map v (seq a (b - a)).
Hypothesis Rep_split : forall p a b k, Rep p a b -> lo <= k <= b - a ->
  exists pl pr, p_split D p k = Ok (pl, pr) /\ Rep pl a (a + k) /\ Rep pr (a + k) b.

Lemma pmap_items p a b : Rep p a b -> p_items (pmap f D) p = map (fun i => f (v i)) (seq a (b - a)).
Proof. intros H. unfold pmap; cbn [p_items]. rewrite (Rep_items _ _ _ H), map_map. reflexivity. Qed.

Theorem collect_mapped t p a b : Rep p a b -> admissible lo t (b - a) ->
  run_collect (pmap f D) t (b - a) p = Ok (map f (map v (seq a (b - a)))).
Proof.
  intros H Ha. rewrite map_map.
  apply (run_collect_window (pmap f D) lo (fun i => f (v i)) Rep pmap_items Rep_split t p a b H Ha).
Qed.
End Mapped.

(* the trees rayon's bridge can build: a node splits at len/2 and only when len/2 >= 1 (LengthSplitter::try_split with
   min >= 1); which nodes become leaves depends on thread count and stealing, i.e. is arbitrary *)
Fixpoint bridge_shaped (t : tree) (n : nat) : Prop :=
  match t with
  | Leaf => True
  | Node k l r => k = n / 2 /\ 1 <= n / 2 /\ bridge_shaped l k /\ bridge_shaped r (n - k)
  end.

Lemma bridge_admissible : forall t n, bridge_shaped t n -> admissible 1 t n /\ admissible 0 t n.
Proof.
  induction t as [|k l IHl r IHr]; intros n H; cbn in *; [auto|].
  destruct H as (-> & H1 & Hl & Hr). destruct (IHl _ Hl), (IHr _ Hr).
  assert (n / 2 <= n) by (apply Nat.div_le_upper_bound; lia).
  repeat split; try assumption; lia.
Qed.
