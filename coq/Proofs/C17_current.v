(* C17 at full strength for the code as it is NOW: the model instantiated with the flags the generator reads off the source
   (Gen/ConfigSites.v).  `flags_now` is the proof obligation that pins them: if the source loses the up-front wavelength
   validation or the zero-period rejection, this file stops compiling and the check reports a broken obligation. *)
From Coq Require Import Reals String List Bool ZArith QArith.
From SpdVerif Require Import Base.CfgNumOps Spec.ConfigSpec Gen.ConfigTables Gen.ConfigSites Model.ConfigTypes Model.Config
  Model.NumInst Model.Cfg_Composed Proofs.C17_rules Proofs.C17_finite Proofs.C17_entry Proofs.Cfg_composed Proofs.Cfg_composed_builtin.
Import ListNotations.

Lemma flags_now : cfg_validates_wavelengths = true /\ cfg_rejects_bad_period = true.
Proof. split; reflexivity. Qed.

(* the repairs of F7b / F7f / F7g / F7h are in the code (/repo 25be872, a6a2099, d569966): pinned the same way -- a source that
   loses the external-range check, the total-reflection check, the NaN-safe search or the crystal validation breaks this obligation
   (and the stream finds the concrete input: rules rule_external_range, rule_total_reflection, rule_bad_crystal, the panic rule) *)
Lemma repairs_now : cfg_checks_external_range = true /\ cfg_checks_total_reflection = true /\ searches_cannot_fail = true /\
                    cfg_validates_crystal = true.
Proof. repeat split; reflexivity. Qed.

Section Now.
  Variable num : Type.
  Variable o : NumOps num.
  Variable U : units num.
  Variable K : oracles num.
  Variable minpos : num.

  Definition try_as_spdc_now (c : spdc_cfg num) : outcome (spdc num * list nonfinite) :=
    try_as_spdc o U K minpos cfg_rejects_bad_period cfg_validates_wavelengths c.
  Local Notation steps := (try_as_spdc_steps o U K minpos cfg_rejects_bad_period).

  Lemma now_le c : cfg_le o c = true -> try_as_spdc_now c = Err ESignalLePump.
  Proof. apply entry_validation_le. Qed.

  Lemma now_steps c : cfg_le o c = false -> try_as_spdc_now c = steps c.
  Proof. intros H. apply entry_passes_eq. right. exact H. Qed.

  (* rule 3, in EVERY auto/explicit combination *)
  Theorem now_rule_signal_le_pump c : cfg_le o c = true -> try_as_spdc_now c = Err ESignalLePump.
  Proof. exact (now_le c). Qed.

  (* rule 1 *)
  Theorem now_rule_signal_angles c : angle_spec_bad (c_signal c) -> is_err (try_as_spdc_now c) = true /\
    (cfg_le o c = false -> try_as_spdc_now c = Err EThetaSpec).
  Proof.
    intros H. destruct (cfg_le o c) eqn:Hle.
    - rewrite (now_le c Hle). split; [reflexivity | discriminate].
    - rewrite (now_steps c Hle), (rule_signal_angles num o U K minpos _ c H). split; reflexivity.
  Qed.

  (* rule 2 *)
  Theorem now_rule_auto_theta_with_poling c :
    cc_theta_deg (c_crystal c) = Auto -> c_pp c <> PCOff -> is_ok (try_as_spdc_now c) = false.
  Proof.
    intros Ht Hp. destruct (cfg_le o c) eqn:Hle.
    - rewrite (now_le c Hle). reflexivity.
    - rewrite (now_steps c Hle). apply rule_auto_theta_with_poling_never_ok; assumption.
  Qed.

  (* rule 4 *)
  Theorem now_rule_impossible_period c signal a p :
    cfg_le o c = false -> signal_step o K c = Ok signal -> c_pp c = PCConfig Auto a ->
    signal_le_pump o signal (cfg_pump o c) = false ->
    neqb o (o_dkz0 K signal (cfg_pump o c) (cfg_cs0 o c)) (n0 o) = false ->
    o_nm_period K signal (cfg_pump o c) (cfg_cs0 o c) = Some p -> nltb o (cs_length (cfg_cs0 o c)) p = true ->
    try_as_spdc_now c = Err EImpossiblePeriod.
  Proof. intros Hle. rewrite (now_steps c Hle). apply rule_impossible_period. Qed.

  (* rule 5: an explicit poling period of 0 *)
  Theorem now_rule_bad_period c signal pu a :
    cfg_le o c = false -> signal_step o K c = Ok signal -> c_pp c = PCConfig (Param pu) a -> neqb o pu (n0 o) = true ->
    try_as_spdc_now c = Err EBadPeriod.
  Proof. intros Hle. rewrite (now_steps c Hle). apply rule_bad_period. reflexivity. Qed.

  (* never panics: the only panics left are failed simplex searches (NaN cost; known finding F7b) *)
  Theorem now_panics_only_search c s : scale_order o -> try_as_spdc_now c = Panic s -> s = SiteNelderMeadUnwrap.
  Proof. apply validated_panics_only_search. Qed.

  Theorem now_no_panic_at c : scale_order o -> searches_defined_at o K c -> is_panic (try_as_spdc_now c) = false.
  Proof. apply validated_no_panic_at. Qed.
  Theorem now_no_panic c : scale_order o -> searches_total K -> is_panic (try_as_spdc_now c) = false.
  Proof. apply validated_no_panic. Qed.

  (* the property's first sentence: Ok with nothing non-finite, or Err; never a panic -- under the definedness of what THIS
     configuration computes *)
  (* the property's first sentence: Ok with nothing non-finite, or Err; never a panic -- the finiteness half under the definedness
     of what THIS configuration computes (results of its searches, idler angle, index along z, unpoled mismatch not exactly 0) *)
  Theorem now_ok_finite_or_err_at c :
    scale_order o -> search_results_defined_at o K c -> geometry_defined_at o K minpos cfg_rejects_bad_period c ->
    (forall signal, signal_step o K c = Ok signal -> neqb o (o_dkz0 K signal (cfg_pump o c) (cfg_cs0 o c)) (n0 o) = false) ->
    (exists s, try_as_spdc_now c = Ok (s, [])) \/ (exists e, try_as_spdc_now c = Err e).
  Proof. apply validated_ok_finite_or_err_at. Qed.

  (* ---- FULL STRENGTH with the repairs in the code (repairs_now): NEVER panics, for every configuration and EVERY oracle record --
     a search cannot fail (Cost1d::cost is NaN-safe for every nelder_mead_1d call), the wavelengths are validated first, a signal
     beyond total internal reflection is an error *)
  Theorem now_no_panic_full c : scale_order o -> is_panic (try_as_spdc_now c) = false.
  Proof.
    intros Hlaw. apply now_no_panic_at; [exact Hlaw |].
    destruct repairs_now as (_ & _ & Hn & _).
    split; [intros Hf; rewrite Hn in Hf; discriminate |]. intros signal _. split.
    - intros _ _. split.
      + intros _ Hf. rewrite Hn in Hf. discriminate.
      + intros Hf. rewrite Hn in Hf. discriminate.
    - intros a _ Hf. rewrite Hn in Hf. discriminate.
  Qed.

  (* rule 6 (repair of F7f): an external angle of 90 degrees or more is an error *)
  Theorem now_rule_external_range c e :
    cfg_le o c = false -> bc_theta_deg (c_signal c) = None -> bc_theta_ext_deg (c_signal c) = Some e ->
    nltb o (nabs o e) (nQ o 90) = false -> try_as_spdc_now c = Err EExternalRange.
  Proof.
    intros Hle Hi He Hr. rewrite (now_steps c Hle). unfold try_as_spdc_steps, signal_step, beam_of_cfg. rewrite Hi, He, Hr.
    destruct repairs_now as (Hx & _). rewrite Hx. reflexivity.
  Qed.

  (* rule 7 (repair of F7b): automatic crystal angle for a signal whose external angle does not exist is an error *)
  Theorem now_rule_total_reflection c signal :
    cfg_le o c = false -> signal_step o K c = Ok signal -> is_auto (cc_theta_deg (c_crystal c)) = true -> c_pp c = PCOff ->
    o_snell_ext K signal (cfg_cs0 o c) = None -> try_as_spdc_now c = Err ETotalReflection.
  Proof.
    intros Hle Hs Hau Hoff Hn. rewrite (now_steps c Hle). unfold try_as_spdc_steps. rewrite Hs. cbn [bind].
    unfold poling_step, poling_of_cfg. rewrite Hoff. cbn [bind fst snd]. unfold theta_step, ext_defined. rewrite Hau, Hn.
    cbn [is_pol_off negb]. destruct repairs_now as (_ & Ht & _). rewrite Ht. reflexivity.
  Qed.

  (* rule 4' (repair of F7h): an automatic-period search that finds nothing is the error, not a panic *)
  Theorem now_rule_search_finds_nothing c signal a :
    cfg_le o c = false -> signal_step o K c = Ok signal -> c_pp c = PCConfig Auto a ->
    signal_le_pump o signal (cfg_pump o c) = false ->
    neqb o (o_dkz0 K signal (cfg_pump o c) (cfg_cs0 o c)) (n0 o) = false ->
    o_nm_period K signal (cfg_pump o c) (cfg_cs0 o c) = None -> try_as_spdc_now c = Err EImpossiblePeriod.
  Proof.
    intros Hle Hs Hp Hlp Hz Hn. rewrite (now_steps c Hle). unfold try_as_spdc_steps. rewrite Hs. cbn [bind].
    unfold poling_step, poling_of_cfg. rewrite Hp. unfold optimum_poling_period.
    fold (Config.cfg_pump o c). fold (Config.cfg_cs0 o c). rewrite Hlp, Hz, Hn.
    destruct repairs_now as (_ & _ & Hf & _). rewrite Hf. reflexivity.
  Qed.
  (* rule 6 for an explicit IDLER: its external angle is checked the same way (once the earlier steps succeeded) *)
  Theorem now_rule_external_range_idler c signal pp nfp cs ic e :
    cfg_le o c = false -> signal_step o K c = Ok signal -> poling_step o K minpos cfg_rejects_bad_period c signal = Ok (pp, nfp) ->
    theta_step o K c signal pp = Ok cs -> c_idler c = Param ic ->
    bc_theta_deg ic = None -> bc_theta_ext_deg ic = Some e -> nltb o (nabs o e) (nQ o 90) = false ->
    try_as_spdc_now c = Err EExternalRange.
  Proof.
    intros Hle Hs Hp Ht Hi Hd He Hr. rewrite (now_steps c Hle). unfold try_as_spdc_steps. rewrite Hs. cbn [bind]. rewrite Hp. cbn [bind fst snd].
    rewrite Ht. cbn [bind]. unfold idler_step. rewrite Hi. unfold beam_of_cfg. rewrite Hd, He, Hr.
    destruct repairs_now as (Hx & _). rewrite Hx. reflexivity.
  Qed.
End Now.
Arguments try_as_spdc_now {num} o U K minpos c.

(* ---- the composed instance (Model/Cfg_Composed.v) on the code as it is now *)
Section ComposedNow.
  Variable index_of : crystal_setup R -> R -> Vec3.vec -> GI.polarization -> R.
  Variable snell_inv : beam R -> R -> crystal_setup R -> option R.
  Variable sd_theta sd_period : @NM.ecost R -> @NM.ecost R -> bool.
  Local Notation KM := (oracles_of_model index_of snell_inv sd_theta sd_period).

  Lemma now_is_validated U minpos c :
    try_as_spdc_now R_ops U KM minpos c = try_as_spdc R_ops U KM minpos cfg_rejects_bad_period true c.
  Proof. unfold try_as_spdc_now. rewrite (proj1 flags_now). reflexivity. Qed.

  Theorem tir_is_error_composed_now U minpos c signal :
    cfg_le R_ops c = false -> signal_step R_ops KM c = Ok signal ->
    is_auto (cc_theta_deg (c_crystal c)) = true -> c_pp c = PCOff ->
    snell_ext_defined index_of signal (cfg_cs0 R_ops c) = false ->
    try_as_spdc_now R_ops U KM minpos c = Err ETotalReflection.
  Proof.
    intros. rewrite now_is_validated. apply tir_is_error_composed with (signal := signal); try assumption.
    exact (proj1 (proj2 repairs_now)).
  Qed.

  (* Ok with nothing non-finite, or Err, for the composed instance: the definedness hypotheses of the finiteness clause *)
  Theorem ok_finite_or_err_composed_now U minpos c :
    (forall b e cs, snell_inv b e cs <> None) ->
    angle_costs_defined index_of snell_inv sd_theta sd_period c -> period_costs_defined index_of snell_inv sd_theta sd_period c ->
    (forall cs l pol, index_of cs l Vec3.ez pol <> 0%R) ->
    idler_defined_at index_of snell_inv sd_theta sd_period minpos cfg_rejects_bad_period c ->
    (forall signal, signal_step R_ops KM c = Ok signal ->
       dkz_c index_of signal (cfg_pump R_ops c) (cfg_cs0 R_ops c) MI.PPOff <> 0%R) ->
    (exists s, try_as_spdc_now R_ops U KM minpos c = Ok (s, [])) \/ (exists e, try_as_spdc_now R_ops U KM minpos c = Err e).
  Proof.
    intros H Hang Hper Hn Hi Hz. rewrite now_is_validated. apply ok_finite_or_err_composed; try assumption.
    intros Hf. rewrite (proj1 (proj2 repairs_now)) in Hf. discriminate.
  Qed.
End ComposedNow.
