(* C04 — a simulation lemma for the generic two-vertex Nelder–Mead model: two instances whose point operations, cost functions,
   cost orders and termination tests correspond through maps phi (points) and psi (finite costs) ON THE STATES THE FIRST RUN
   REACHES produce corresponding runs.  Used in Proofs/C04_float.v: where every binary64 operation of a run is exact, the
   primitive-float instance (the one compared bit for bit with nelder_mead_1d) computes the same run as the real-number instance
   the theorems are about. *)
From Coq Require Import List Bool.
From SpdVerif Require Import Model.NM1d.
Import ListNotations.

Section Sim.
  Context {P1 K1 P2 K2 : Type}.
  Variables (klt1 : K1 -> K1 -> bool) (klt2 : K2 -> K2 -> bool).
  Variables (o1 : @ops P1) (o2 : @ops P2).
  Variables (f1 : P1 -> @ecost K1) (f2 : P2 -> @ecost K2).
  Variables (sd1 : @ecost K1 -> @ecost K1 -> bool) (sd2 : @ecost K2 -> @ecost K2 -> bool).
  Variable phi : P1 -> P2.
  Variable psi : K1 -> K2.
  Variable okc : @ecost K1 -> Prop.       (* the costs that may be compared (e.g. not NaN) *)

  Definition psie (a : @ecost K1) : @ecost K2 := match a with CFin k => CFin (psi k) | CInf => CInf end.

  Hypothesis Hlt : forall a b, okc a -> okc b -> elt klt1 a b = elt klt2 (psie a) (psie b).
  Hypothesis Hsd : forall a b, okc a -> okc b -> sd1 a b = sd2 (psie a) (psie b).

  Lemma Hle a b : okc a -> okc b -> ele klt1 a b = ele klt2 (psie a) (psie b).
  Proof. intros Ha Hb. unfold ele. rewrite (Hlt b a Hb Ha). reflexivity. Qed.
  Lemma Hinf a : is_inf (psie a) = is_inf a.
  Proof. destruct a; reflexivity. Qed.

  Definition relv (v : @vertex P1 K1) (v' : @vertex P2 K2) : Prop :=
    vp v' = phi (vp v) /\ vc v' = psie (vc v) /\ okc (vc v).
  Definition rel (s : @state P1 K1) (s' : @state P2 K2) : Prop :=
    relv (s0 s) (s0 s') /\ relv (s1 s) (s1 s') /\ relv (sbest s) (sbest s') /\ strace s' = map phi (strace s).

  (* a point of the first instance whose image and cost correspond *)
  Definition pt_ok (p : P1) (p' : P2) : Prop := p' = phi p /\ f2 p' = psie (f1 p) /\ okc (f1 p).

  (* the five candidate points of one step from (best b, worst w) correspond *)
  Definition step_ok (s : @state P1 K1) : Prop :=
    let b := vp (s0 s) in let w := vp (s1 s) in
    let x0 := op_centroid o1 b in let x0' := op_centroid o2 (phi b) in
    let xr := op_reflect o1 x0 w in let xr' := op_reflect o2 x0' (phi w) in
    pt_ok xr xr' /\
    pt_ok (op_expand o1 x0 xr) (op_expand o2 x0' xr') /\
    pt_ok (op_contract o1 x0 xr) (op_contract o2 x0' xr') /\
    pt_ok (op_contract o1 x0 w) (op_contract o2 x0' (phi w)) /\
    pt_ok (op_shrink o1 b w) (op_shrink o2 (phi b) (phi w)).

  Lemma relv_mk p p' : pt_ok p p' -> relv (mkV p (f1 p)) (mkV p' (f2 p')).
  Proof. intros (E1 & E2 & E3). unfold relv; cbn. auto. Qed.

  Lemma sort2_sim a a' b b' : relv a a' -> relv b b' ->
    relv (fst (sort2 klt1 a b)) (fst (sort2 klt2 a' b')) /\ relv (snd (sort2 klt1 a b)) (snd (sort2 klt2 a' b')).
  Proof.
    intros Ha Hb. unfold sort2. destruct Ha as (A1 & A2 & A3), Hb as (B1 & B2 & B3).
    rewrite A2, B2, <- (Hlt (vc b) (vc a) B3 A3). destruct (elt klt1 (vc b) (vc a)); cbn; split; unfold relv; auto.
  Qed.

  Lemma update_best_sim x x' y y' : relv x x' -> relv y y' -> relv (update_best klt1 x y) (update_best klt2 x' y').
  Proof.
    intros Hx Hy. unfold update_best. destruct Hx as (A1 & A2 & A3), Hy as (B1 & B2 & B3).
    rewrite A2, B2, <- (Hlt (vc y) (vc x) B3 A3), !Hinf.
    destruct (elt klt1 (vc y) (vc x) || is_inf (vc y) && is_inf (vc x)); unfold relv; auto.
  Qed.

  Lemma step_sim s s' : rel s s' -> step_ok s -> rel (step klt1 o1 f1 s) (step klt2 o2 f2 s').
  Proof.
    intros (R0 & R1 & Rb & Rt) (Hr & He & Hco & Hci & Hs).
    destruct R0 as (B1 & B2 & B3). destruct R1 as (W1 & W2 & W3).
    unfold step, replace_worst. rewrite B1, W1, B2, W2.
    set (b := vp (s0 s)) in *. set (w := vp (s1 s)) in *.
    set (x0 := op_centroid o1 b) in *. set (x0' := op_centroid o2 (phi b)) in *.
    set (xr := op_reflect o1 x0 w) in *. set (xr' := op_reflect o2 x0' (phi w)) in *.
    destruct Hr as (Er1 & Er2 & Er3).
    rewrite Er2, <- (Hlt (f1 xr) (vc (s0 s)) Er3 B3), <- (Hlt (f1 xr) (vc (s1 s)) Er3 W3).
    assert (Hfin : forall (wn : @vertex P1 K1) (wn' : @vertex P2 K2) tr tr',
               relv wn wn' -> tr' = map phi tr ->
               rel (let '(n0, n1) := sort2 klt1 (s0 s) wn in mkS n0 n1 (update_best klt1 (sbest s) n0) (tr ++ strace s))
                   (let '(n0, n1) := sort2 klt2 (s0 s') wn' in mkS n0 n1 (update_best klt2 (sbest s') n0) (tr' ++ strace s'))).
    { intros wn wn' tr tr' Hwn Htr.
      assert (R0 : relv (s0 s) (s0 s')) by (unfold relv; auto).
      destruct (sort2_sim _ _ _ _ R0 Hwn) as [S1 S2].
      destruct (sort2 klt1 (s0 s) wn) as [n0 n1], (sort2 klt2 (s0 s') wn') as [n0' n1']. cbn [fst snd] in S1, S2.
      unfold rel; cbn [s0 s1 sbest strace].
      split; [exact S1 | split; [exact S2 | split; [apply update_best_sim; assumption | rewrite Htr, Rt, map_app; reflexivity]]]. }
    destruct (elt klt1 (f1 xr) (vc (s0 s))).
    - (* expansion *)
      destruct He as (Ee1 & Ee2 & Ee3). rewrite Ee2, <- (Hlt _ _ Ee3 Er3).
      destruct (elt klt1 (f1 (op_expand o1 x0 xr)) (f1 xr)); apply Hfin;
        try (unfold relv; cbn; rewrite <- ?Ee2, <- ?Er2; auto); cbn; rewrite Ee1, Er1; reflexivity.
    - destruct (elt klt1 (f1 xr) (vc (s1 s))).
      + (* outside contraction *)
        destruct Hco as (Ec1 & Ec2 & Ec3). rewrite Ec2, <- (Hle _ _ Ec3 Er3).
        destruct (ele klt1 (f1 (op_contract o1 x0 xr)) (f1 xr)); apply Hfin.
        * unfold relv; cbn. rewrite <- Ec2. auto.
        * cbn. rewrite Ec1, Er1. reflexivity.
        * apply (relv_mk _ _ Hs).
        * cbn. destruct Hs as (Es1 & _). rewrite Es1, Ec1, Er1. reflexivity.
      + (* inside contraction *)
        destruct Hci as (Ec1 & Ec2 & Ec3). rewrite Ec2, <- (Hlt _ _ Ec3 W3).
        destruct (elt klt1 (f1 (op_contract o1 x0 w)) (vc (s1 s))); apply Hfin.
        * unfold relv; cbn. rewrite <- Ec2. auto.
        * cbn. rewrite Ec1, Er1. reflexivity.
        * apply (relv_mk _ _ Hs).
        * cbn. destruct Hs as (Es1 & _). rewrite Es1, Ec1, Er1. reflexivity.
  Qed.

  (* the candidate points correspond along the whole run of the first instance *)
  Fixpoint run_ok (fuel : nat) (s : @state P1 K1) : Prop :=
    match fuel with
    | O => True
    | S k => if terminated sd1 s then True else step_ok s /\ run_ok k (step klt1 o1 f1 s)
    end.

  Lemma run_loop_sim fuel s s' : rel s s' -> run_ok fuel s ->
    rel (run_loop klt1 o1 f1 sd1 fuel s) (run_loop klt2 o2 f2 sd2 fuel s').
  Proof.
    revert s s'. induction fuel as [|k IH]; intros s s' HR Hok; cbn; [exact HR|].
    assert (Et : terminated sd2 s' = terminated sd1 s).
    { destruct HR as ((_ & A2 & A3) & (_ & B2 & B3) & _). unfold terminated. rewrite A2, B2. symmetry. apply Hsd; assumption. }
    rewrite Et. cbn in Hok. destruct (terminated sd1 s); [exact HR|].
    destruct Hok as [H1 H2]. apply IH; [apply step_sim; assumption | exact H2].
  Qed.

  Lemma init_sim g0 g1 : pt_ok g0 (phi g0) -> pt_ok g1 (phi g1) -> rel (init klt1 f1 g0 g1) (init klt2 f2 (phi g0) (phi g1)).
  Proof.
    intros H0 H1. unfold init, eval.
    destruct (sort2_sim _ _ _ _ (relv_mk _ _ H0) (relv_mk _ _ H1)) as [S1 S2].
    destruct (sort2 klt1 _ _) as [a b], (sort2 klt2 _ _) as [a' b']. cbn [fst snd] in S1, S2.
    unfold rel; cbn. repeat split; try apply S1; try apply S2.
  Qed.

  (* SIMULATION: corresponding seeds, candidate points corresponding along the first run  =>  corresponding results and traces *)
  Theorem nm_simulation g0 g1 n : pt_ok g0 (phi g0) -> pt_ok g1 (phi g1) -> run_ok n (init klt1 f1 g0 g1) ->
    nm_result klt2 o2 f2 sd2 (phi g0) (phi g1) n = phi (nm_result klt1 o1 f1 sd1 g0 g1 n) /\
    strace (nm_run klt2 o2 f2 sd2 (phi g0) (phi g1) n) = map phi (strace (nm_run klt1 o1 f1 sd1 g0 g1 n)).
  Proof.
    intros H0 H1 Hok. unfold nm_result, nm_run.
    destruct (run_loop_sim n _ _ (init_sim g0 g1 H0 H1) Hok) as (_ & _ & (Hb & _) & Ht). split; assumption.
  Qed.
End Sim.
