(* C13 — the Fresnel index is continuous along the path theta |-> polar_dir phi theta (needed by the bracketing theorem);
   built-in crystals: a root of Snell's equation exists in [0, theta_e]. *)
From Coq Require Import Reals Lra.
From Coquelicot Require Import Coquelicot.
From SpdVerif Require Import Base.Rx Spec.CrystalTypes Spec.Published Gen.Crystals Proofs.Sellmeier Proofs.C01_all.
From SpdVerif Require Import Model.Optics Model.Fresnel Gen.Fresnel Gen.Beam Model.Beam Proofs.C02_fresnel Proofs.C02_index
  Proofs.C02_frame Proofs.C02_gen Proofs.Compose_index Proofs.C13_norm Proofs.C13_beam Proofs.C13_snell Proofs.C13_builtin Proofs.C13_nm.
Local Open Scope R_scope.

Section Path.
Variables thc phc nx ny nz ph : R.
Hypothesis Hx : 0 < nx.
Hypothesis Hy : 0 < ny.
Hypothesis Hz : 0 < nz.

Let S (u : R) : vec := crystal_frame thc phc (polar_dir ph u).
Let B (u : R) : R := fb (inv2 nx) (inv2 ny) (inv2 nz) (vx (S u) * vx (S u)) (vy (S u) * vy (S u)) (vz (S u) * vz (S u)).
Let D (u : R) : R := fdisc (inv2 nx) (inv2 ny) (inv2 nz) (vx (S u) * vx (S u)) (vy (S u) * vy (S u)) (vz (S u) * vz (S u)).

Lemma B_continuous t : continuous B t.
Proof.
  apply (ex_derive_continuous (K := R_AbsRing) (V := R_NormedModule) B t). unfold B, S, fb, crystal_frame, rot_euler, polar_dir, vx, vy, vz; cbn [fst snd]. auto_derive. trivial.
Qed.

Lemma D_continuous t : continuous D t.
Proof.
  apply (ex_derive_continuous (K := R_AbsRing) (V := R_NormedModule) D t). unfold D, S, fdisc, fb, fc, crystal_frame, rot_euler, polar_dir, vx, vy, vz; cbn [fst snd]. auto_derive. trivial.
Qed.

Lemma S_unit u : vx (S u) * vx (S u) + vy (S u) * vy (S u) + vz (S u) * vz (S u) = 1.
Proof. apply unit_vec_components, crystal_frame_unit, polar_dir_unit. Qed.

Lemma roots_pos u :
  0 < (B u - sqrt (D u)) / 2 /\ 0 < (B u + sqrt (D u)) / 2.
Proof.
  destruct (index_bounds nx ny nz (vx (S u)) (vy (S u)) (vz (S u)) (min3 nx ny nz) (max3 nx ny nz)) as ((_ & _ & _ & _ & Hs & Hf) & _).
  { unfold min3. repeat apply Rmin_glb_lt; assumption. }
  { unfold min3, max3; split; [apply Rmin_l | apply Rmax_l]. }
  { unfold min3, max3; split; [eapply Rle_trans; [apply Rmin_r | apply Rmin_l] | eapply Rle_trans; [apply Rmax_l | apply Rmax_r]]. }
  { unfold min3, max3; split; [eapply Rle_trans; [apply Rmin_r | apply Rmin_r] | eapply Rle_trans; [apply Rmax_r | apply Rmax_r]]. }
  { apply S_unit. }
  split; assumption.
Qed.

Theorem index_path_continuous p t :
  continuity_pt (fun u => index_model thc phc nx ny nz (normalize (polar_dir ph u)) p) t.
Proof.
  apply continuity_pt_filterlim.
  apply (continuous_ext (fun u => / sqrt ((B u + (match p with Ordinary => -1 | Extraordinary => 1 end) * sqrt (D u)) * / 2))).
  { intros u. unfold index_model. cbv zeta. rewrite normalize_polar. unfold fresnel_index. fold (S u).
    destruct p; unfold y_slow, y_fast; fold (B u) (D u).
    - replace ((B u + -1 * sqrt (D u)) * / 2) with ((B u - sqrt (D u)) / 2) by (unfold Rdiv; ring).
      unfold Rdiv at 2. rewrite Rmult_1_l. reflexivity.
    - replace ((B u + 1 * sqrt (D u)) * / 2) with ((B u + sqrt (D u)) / 2) by (unfold Rdiv; ring).
      unfold Rdiv at 2. rewrite Rmult_1_l. reflexivity. }
  apply continuous_Rinv_comp.
  - apply continuous_sqrt_comp. apply (continuous_mult (fun u => B u + _ * sqrt (D u)) (fun _ => / 2)).
    + apply (continuous_plus B (fun u => _ * sqrt (D u))); [apply B_continuous |].
      apply (continuous_mult (fun _ => _) (fun u => sqrt (D u))); [apply continuous_const | apply continuous_sqrt_comp, D_continuous].
    + apply continuous_const.
  - apply Rgt_not_eq. apply sqrt_lt_R0. destruct (roots_pos t) as [H1 H2]. destruct p; lra.
Qed.
End Path.

(* built-in crystals: the index along the path is continuous and > 1, hence Snell's equation has a root in [0, |theta_e|] *)
Theorem snell_root_exists_builtin c l T theta phi p s e :
  in_window c l -> temp_ok T -> Rabs e <= PI / 2 ->
  exists t, 0 <= t <= Rabs e /\ snell_cost_gen (builtin_index c l T theta phi p) s e t = 0.
Proof.
  intros Hw HT He.
  destruct (principal_bounds c l T Hw HT) as ((Hx1 & _) & (Hy1 & _) & (Hz1 & _)).
  apply snell_root_exists; [exact He | |].
  - intros t _.
    apply (continuity_pt_ext (fun u => index_model theta phi (nx_of c l T) (ny_of c l T) (nz_of c l T) (normalize (polar_dir (b_phi s) (signum e * u))) p)).
    + intros u. unfold builtin_index. symmetry. apply crystal_index_is_fresnel; try assumption. apply unit_normalize_polar.
    + apply (continuity_pt_comp (fun u => signum e * u)
               (fun v => index_model theta phi (nx_of c l T) (ny_of c l T) (nz_of c l T) (normalize (polar_dir (b_phi s) v)) p) t).
      * apply continuity_pt_mult; [apply continuity_pt_const; intros x y; reflexivity | apply derivable_continuous_pt, derivable_pt_id].
      * apply index_path_continuous; lra.
  - unfold builtin_index.
    pose proof (crystal_index_bounds c l T theta phi _ p Hw HT (unit_normalize_polar (b_phi s) e)). lra.
Qed.

(* no oracle: the model of nelder_mead_1d returns an angle in [0, pi/2] whose residual is at most (n(theta_e) - 1) sin|theta_e| *)
Theorem snell_nm_builtin sd fuel c l T theta phi p s e :
  in_window c l -> temp_ok T -> Rabs e <= PI / 2 ->
  let n_along := builtin_index c l T theta phi p in
  let star := theta_star (nm_real sd fuel) n_along s e in
  0 <= star <= PI / 2 /\
  snell_cost_gen n_along s e star <= (n_along (normalize (polar_dir (b_phi s) e)) - 1) * sin (Rabs e).
Proof.
  intros Hw HT He n_along star.
  destruct (snell_nm_bounds_and_residual sd fuel n_along s e He) as [Hb Hr].
  split; [exact Hb |].
  rewrite <- (residual_at_seed n_along s e He); [exact Hr |].
  unfold n_along, builtin_index.
  pose proof (crystal_index_bounds c l T theta phi _ p Hw HT (unit_normalize_polar (b_phi s) e)). lra.
Qed.
