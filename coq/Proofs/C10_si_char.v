(* C10 — exact characterisation of when a two-source rate can leave [0,1] (known finding F10):
   with N12 = norm1*norm2, B = sum |b|^2 (= product of the norms of the channel's two cross grids) and
   X = sum Re(a conj(b u)):   rate = (N12 + B - 2X) / (4 N12),   X^2 <= N12 B.   Hence
     rate > 1  <->  B - 2X > 3 N12;     rate > 1  ->  B > N12   (necessary, sharp);     B > 9 N12  ->  rate > 1  (sufficient,
   for every choice of phases);   (sqrt B - sqrt N12)^2 / (4 N12) <= rate <= (sqrt B + sqrt N12)^2 / (4 N12). *)
From Coq Require Import Reals Lra Lia Arith Psatz.
From SpdVerif Require Import Model.FinSum Model.Hom Model.Hom2 Proofs.FinSum_lemmas Proofs.Cx_lemmas Proofs.C09_range
  Proofs.CMat Proofs.C10_sums Proofs.C10_svd Proofs.C10_expand Proofs.C10_sharp.
Local Open Scope R_scope.

Definition ts_cross (n : nat) (A : ts_arrays R) (b u : nat -> nat -> cx R) : R :=
  rsum (n * n) (fun i1 => rsum (n * n) (fun i2 => cre (ts_a ROps A i1 i2 *c (b i1 i2 *c u i1 i2)^*))).
Definition ts_N12 (n : nat) (A : ts_arrays R) : R :=
  jsi_norm ROps (n * n) (first_s1_i1 A) * jsi_norm ROps (n * n) (second_s2_i2 A).

Lemma b_norm_nonneg n b : 0 <= b_norm n b.
Proof. unfold b_norm. apply rsum_nonneg; intros. apply rsum_nonneg; intros. apply cnorm2_nonneg. Qed.

Lemma ts_sum_expand n A b u : unit_phases u -> ts_sum n A b u = ts_N12 n A + b_norm n b - 2 * ts_cross n A b u.
Proof.
  intros Hu. unfold ts_N12. rewrite <- a_norm. unfold ts_sum, b_norm, ts_cross.
  rewrite <- rsum_scal_l, <- rsum_add, <- rsum_sub. apply rsum_ext; intros i1 _.
  rewrite <- rsum_scal_l, <- rsum_add, <- rsum_sub. apply rsum_ext; intros i2 _.
  rewrite ts_term_expand, (Hu i1 i2). ring.
Qed.

Lemma ts_cross_bound n A b u : unit_phases u -> ts_cross n A b u * ts_cross n A b u <= ts_N12 n A * b_norm n b.
Proof.
  intros Hu. unfold ts_N12. rewrite <- a_norm. unfold ts_cross, b_norm.
  apply (cs_general2 (n * n) (n * n)); intros; try apply cnorm2_nonneg. apply cross_sq_le. apply Hu.
Qed.

Theorem ts_rate_exact n A b u :
  unit_phases u -> ts_N12 n A <> 0 ->
  ts_rate ROps n A b u = (ts_N12 n A + b_norm n b - 2 * ts_cross n A b u) / (4 * ts_N12 n A).
Proof. intros Hu HN. rewrite ts_rate_unfold, (ts_sum_expand n A b u Hu). fold (ts_N12 n A). field. exact HN. Qed.

Theorem ts_rate_gt1_iff n A b u :
  unit_phases u -> 0 < ts_N12 n A ->
  (1 < ts_rate ROps n A b u <-> 3 * ts_N12 n A < b_norm n b - 2 * ts_cross n A b u).
Proof.
  intros Hu HN. rewrite (ts_rate_exact n A b u Hu) by lra.
  set (N := ts_N12 n A) in *. set (S := b_norm n b - 2 * ts_cross n A b u).
  replace (N + b_norm n b - 2 * ts_cross n A b u) with (N + S) by (unfold S; ring).
  split; intros H.
  - apply Rmult_lt_compat_r with (r := 4 * N) in H; [|lra].
    unfold Rdiv in H. rewrite Rmult_assoc, Rinv_l in H by lra. lra.
  - apply Rmult_lt_reg_r with (r := 4 * N); [lra|].
    unfold Rdiv. rewrite Rmult_assoc, Rinv_l by lra. lra.
Qed.

(* necessary: the cross grids must outweigh the main grids *)
Theorem ts_rate_gt1_necessary n A b u :
  unit_phases u -> 0 < ts_N12 n A -> 1 < ts_rate ROps n A b u -> ts_N12 n A < b_norm n b.
Proof.
  intros Hu HN H. apply (ts_rate_gt1_iff n A b u Hu HN) in H.
  pose proof (ts_cross_bound n A b u Hu) as HX. pose proof (b_norm_nonneg n b) as HB.
  set (N := ts_N12 n A) in *. set (B := b_norm n b) in *. set (X := ts_cross n A b u) in *.
  destruct (Rle_lt_dec B N) as [Hle|Hlt]; [exfalso|exact Hlt].
  (* B <= N: then -2X <= 2 sqrt(N B) <= 2N, so B - 2X <= 3N *)
  assert (HXX : X * X <= N * N) by (eapply Rle_trans; [exact HX|]; apply Rmult_le_compat_l; lra).
  assert (- X <= N) by (apply sq_le_le; [lra|]; nra). lra.
Qed.

(* lower bound and a sufficient condition that does not depend on the phases *)
Theorem ts_rate_lower n A b u :
  unit_phases u -> 0 < ts_N12 n A ->
  (sqrt (b_norm n b) - sqrt (ts_N12 n A)) * (sqrt (b_norm n b) - sqrt (ts_N12 n A)) / (4 * ts_N12 n A) <= ts_rate ROps n A b u.
Proof.
  intros Hu HN. rewrite (ts_rate_exact n A b u Hu) by lra.
  pose proof (ts_cross_bound n A b u Hu) as HX. pose proof (b_norm_nonneg n b) as HB.
  set (N := ts_N12 n A) in *. set (B := b_norm n b) in *. set (X := ts_cross n A b u) in *.
  assert (Hs : X <= sqrt N * sqrt B).
  { rewrite <- sqrt_mult by lra. apply sq_le_le; [apply sqrt_pos|]. rewrite sqrt_sqrt by (apply Rmult_le_pos; lra). exact HX. }
  apply Rmult_le_reg_r with (r := 4 * N); [lra|].
  unfold Rdiv. rewrite !Rmult_assoc, Rinv_l by lra. rewrite !Rmult_1_r.
  replace ((sqrt B - sqrt N) * (sqrt B - sqrt N)) with (sqrt B * sqrt B + sqrt N * sqrt N - 2 * (sqrt N * sqrt B)) by ring.
  rewrite !sqrt_sqrt by lra. lra.
Qed.

Theorem ts_rate_gt1_sufficient n A b u :
  unit_phases u -> 0 < ts_N12 n A -> 9 * ts_N12 n A < b_norm n b -> 1 < ts_rate ROps n A b u.
Proof.
  intros Hu HN H9. eapply Rlt_le_trans; [|apply (ts_rate_lower n A b u Hu HN)].
  set (N := ts_N12 n A) in *. set (B := b_norm n b) in *.
  assert (HsN : 0 < sqrt N) by (apply sqrt_lt_R0; exact HN).
  assert (H3 : 3 * sqrt N < sqrt B).
  { replace (3 * sqrt N) with (sqrt (9 * N)).
    - apply sqrt_lt_1; lra.
    - rewrite sqrt_mult by lra. replace 9 with (3 * 3) by ring. rewrite sqrt_square by lra. reflexivity. }
  apply Rmult_lt_reg_r with (r := 4 * N); [lra|].
  unfold Rdiv. rewrite Rmult_assoc, Rinv_l by lra. rewrite Rmult_1_r, Rmult_1_l.
  assert (EN : 4 * N = (2 * sqrt N) * (2 * sqrt N)) by (replace ((2 * sqrt N) * (2 * sqrt N)) with (4 * (sqrt N * sqrt N)) by ring; rewrite sqrt_sqrt by lra; ring).
  rewrite EN. apply Rmult_le_0_lt_compat; lra.
Qed.

(* ---- the signal-idler channel, with B_si = |f(wi2,wi1)|^2 |f(ws2,ws1)|^2 *)
Corollary si_gt1_necessary n A u :
  unit_phases u -> 0 < ts_N12 n A -> 1 < ts_rate_si ROps n A u ->
  ts_N12 n A < jsi_norm ROps (n * n) (first_i2_i1 A) * jsi_norm ROps (n * n) (second_s2_s1 A).
Proof. intros Hu HN H. rewrite <- b_norm_si. apply (ts_rate_gt1_necessary n A _ u Hu HN H). Qed.

Corollary si_gt1_sufficient n A u :
  unit_phases u -> 0 < ts_N12 n A ->
  9 * ts_N12 n A < jsi_norm ROps (n * n) (first_i2_i1 A) * jsi_norm ROps (n * n) (second_s2_s1 A) -> 1 < ts_rate_si ROps n A u.
Proof. intros Hu HN H. apply (ts_rate_gt1_sufficient n A _ u Hu HN). rewrite b_norm_si. exact H. Qed.

(* the necessary condition is sharp: a setup against itself on one-point axes x <> y; for every ratio lambda > 1 an
   amplitude with B_si = lambda^2 N12 and rate_si = (1 + lambda)^2 / 4 > 1 at zero delay *)
Theorem si_gt1_attained (x y lambda : R) :
  x <> y -> 1 < lambda ->
  exists J : R -> R -> cx R,
    let A := ts_tabulate J J (x, x) (y, y) (x, x) (y, y) 1 in
    ts_N12 1 A = 1 /\
    jsi_norm ROps (1 * 1) (first_i2_i1 A) * jsi_norm ROps (1 * 1) (second_s2_s1 A) = lambda * lambda /\
    ts_rate_si ROps 1 A (fun _ _ => (1, 0)) = (1 + lambda) * (1 + lambda) / 4 /\
    1 < ts_rate_si ROps 1 A (fun _ _ => (1, 0)).
Proof.
  intros Hxy Hl.
  exists (fun a b => if Req_EM_T a b then (if Req_EM_T a y then (- lambda, 0) else (1, 0)) else (1, 0)).
  cbv zeta.
  assert (Ex : forall a b : R, lerp ROps a a b = a) by (intros; unfold lerp; cbn; ring).
  assert (T : forall (J : R -> R -> cx R) (p q : R) k, tabulate J (axes_grid (p, p) (q, q) 1) k = J p q).
  { intros J p q k. unfold tabulate, grid_ws, grid_wi, axis_value, axes_grid. cbn [g_x0 g_x1 g_y0 g_y1 g_cols g_rows fst snd Nat.ltb Nat.leb].
    rewrite !Ex. reflexivity. }
  unfold ts_N12, ts_rate_si. rewrite ts_rate_unfold. unfold ts_sum, ts_term, ts_a, ts_b_si, ts_tabulate, jsi_norm.
  cbn [first_s1_i1 second_s2_i2 first_i2_i1 second_s2_s1 Nat.mul Nat.add gsum rsum get_2d_indices get_1d_index Nat.modulo Nat.div Nat.divmod fst snd].
  unfold rsum. cbn [gsum]. rewrite !T.
  destruct (Req_EM_T x y) as [E|_]; [contradiction|].
  destruct (Req_EM_T y y) as [_|N]; [|contradiction N; reflexivity].
  destruct (Req_EM_T x x) as [_|N]; [|contradiction N; reflexivity].
  destruct (Req_EM_T x y) as [E|_]; [contradiction|].
  cx_unfold.
  assert (V : (0 + (0 + ((1 * 1 - 0 * 0 - ((- lambda * 1 - 0 * 0) * 1 - (- lambda * 0 + 0 * 1) * 0)) * (1 * 1 - 0 * 0 - ((- lambda * 1 - 0 * 0) * 1 - (- lambda * 0 + 0 * 1) * 0)) +
            (1 * 0 + 0 * 1 - ((- lambda * 1 - 0 * 0) * 0 + (- lambda * 0 + 0 * 1) * 1)) * (1 * 0 + 0 * 1 - ((- lambda * 1 - 0 * 0) * 0 + (- lambda * 0 + 0 * 1) * 1))))) / 4 / ((0 + (1 * 1 + 0 * 0)) * (0 + (1 * 1 + 0 * 0)))
            = (1 + lambda) * (1 + lambda) / 4) by (field).
  repeat split; try ring.
  - exact V.
  - rewrite V. nra.
Qed.
