(* C04 — refinement: the primitive-binary64 instance of the Nelder–Mead model (the one compared bit for bit with
   math::nelder_mead_1d on every run) computes the SAME run as the real-number instance (the one the convergence and wrapper
   theorems are about) whenever every binary64 operation it performs is exact — e.g. on dyadic data of moderate size, where
   x0 + (x0 - w), x0 + (xr - x0) 2, x0 + (x - x0)/2 are representable.  Semantics of the primitive floats: Flocq's
   IEEE754.PrimFloat (Prim2B, *_equiv) and BinarySingleNaN (B*_correct). *)
From Coq Require Import Reals Floats ZArith Bool Lra List.
From Flocq Require Import Core.Raux Core.Generic_fmt IEEE754.BinarySingleNaN IEEE754.PrimFloat.
From SpdVerif Require Import Gen.AutoCalc Model.NM1d Model.AutoCalc Proofs.C04_poling Proofs.C04_conv Proofs.C04_sim.
Local Open Scope R_scope.

Definition fR (x : PrimFloat.float) : R := B2R (Prim2B x).
Definition ffinite (x : PrimFloat.float) : bool := is_finite (Prim2B x).
Definition okf (a : @ecost PrimFloat.float) : Prop := match a with CFin x => ffinite x = true | CInf => True end.

Lemma Rlt_bool_Rltb a b : Rlt_bool a b = Rltb a b.
Proof. unfold Rltb. destruct (Rlt_dec a b); [apply Rlt_bool_true | apply Rlt_bool_false]; lra. Qed.

Lemma ltb_Rltb x y : ffinite x = true -> ffinite y = true -> PrimFloat.ltb x y = Rltb (fR x) (fR y).
Proof. intros Hx Hy. rewrite ltb_equiv, Bltb_correct by assumption. apply Rlt_bool_Rltb. Qed.

Lemma elt_float a b : okf a -> okf b -> elt PrimFloat.ltb a b = elt Rltb (psie fR a) (psie fR b).
Proof. destruct a as [x|], b as [y|]; cbn; intros Ha Hb; try reflexivity. apply ltb_Rltb; assumption. Qed.

(* the standard-deviation test with tolerance 0 never fires, in binary64 as in exact arithmetic *)
Lemma zero_B : Prim2B 0%float = B754_zero false.
Proof. change 0%float with zero. rewrite zero_equiv, Prim2B_B2Prim. reflexivity. Qed.

Lemma sqrt_not_neg (y : PrimFloat.float) : PrimFloat.ltb (PrimFloat.sqrt y) 0 = false.
Proof.
  rewrite ltb_equiv, sqrt_equiv, zero_B.
  destruct (Bsqrt_correct prec emax eq_refl eq_refl mode_NE (Prim2B y)) as (Hr & Hf & Hs).
  destruct (Bsqrt mode_NE (Prim2B y)) as [s|s| |s m e H] eqn:E.
  - destruct s; reflexivity.
  - destruct s; [|reflexivity].
    specialize (Hs eq_refl). cbn in Hs. destruct (Prim2B y) as [s'|s'| |s' m' e' H']; cbn in *; try discriminate; subst; try discriminate.
  - reflexivity.
  - rewrite Bltb_correct by reflexivity. rewrite Hr. apply Rlt_bool_false.
    change (B2R (B754_zero false)) with 0%R.
    apply round_ge_generic; [apply fexp_correct; reflexivity | apply valid_rnd_round_mode | apply generic_format_0 | apply R_sqrt.sqrt_pos].
Qed.

Lemma sd_float_0 a b : sd_small_float 0 a b = false.
Proof. destruct a, b; cbn; try reflexivity. apply sqrt_not_neg. Qed.
Lemma sd_real_0 a b : sd_real 0 a b = false.
Proof.
  destruct a as [x|], b as [y|]; cbn; try reflexivity. unfold Rltb. destruct (Rlt_dec _ _) as [H|H]; [|reflexivity].
  replace (2 * 0 * 0) with 0 in H by ring. pose proof (Rle_0_sqr (x - y)). unfold Rsqr in H0. lra.
Qed.

(* an exact binary64 operation: the real result is representable and below the overflow threshold *)
Definition representable (v : R) : Prop :=
  generic_format Zaux.radix2 (fexp prec emax) v /\ Rabs v < bpow Zaux.radix2 emax.

Lemma fadd_exact x y : ffinite x = true -> ffinite y = true -> representable (fR x + fR y) ->
  fR (x + y)%float = fR x + fR y /\ ffinite (x + y)%float = true.
Proof.
  intros Hx Hy [Hg Hb]. unfold fR, ffinite. rewrite add_equiv.
  pose proof (Bplus_correct prec emax eq_refl eq_refl mode_NE (Prim2B x) (Prim2B y) Hx Hy) as H.
  rewrite (round_generic _ _ _ _ Hg) in H. rewrite (Rlt_bool_true _ _ Hb) in H. destruct H as (H1 & H2 & _). split; assumption.
Qed.
Lemma fsub_exact x y : ffinite x = true -> ffinite y = true -> representable (fR x - fR y) ->
  fR (x - y)%float = fR x - fR y /\ ffinite (x - y)%float = true.
Proof.
  intros Hx Hy [Hg Hb]. unfold fR, ffinite. rewrite sub_equiv.
  pose proof (Bminus_correct prec emax eq_refl eq_refl mode_NE (Prim2B x) (Prim2B y) Hx Hy) as H.
  rewrite (round_generic _ _ _ _ Hg) in H. rewrite (Rlt_bool_true _ _ Hb) in H. destruct H as (H1 & H2 & _). split; assumption.
Qed.
Lemma fmul_exact x y : ffinite x = true -> ffinite y = true -> representable (fR x * fR y) ->
  fR (x * y)%float = fR x * fR y /\ ffinite (x * y)%float = true.
Proof.
  intros Hx Hy [Hg Hb]. unfold fR, ffinite. rewrite mul_equiv.
  pose proof (Bmult_correct prec emax eq_refl eq_refl mode_NE (Prim2B x) (Prim2B y)) as H.
  rewrite (round_generic _ _ _ _ Hg) in H. rewrite (Rlt_bool_true _ _ Hb) in H. destruct H as (H1 & H2 & _).
  split; [exact H1 | etransitivity; [exact H2 | unfold ffinite in Hx, Hy; rewrite Hx, Hy; reflexivity]].
Qed.

(* REFINEMENT.  g : the binary64 cost function, lo hi : its bounds (Cost1d), G : a real-number cost function.
   If the seeds and, along the binary64 run, the five candidate points of every step correspond (their real values are what the
   exact operations give, their costs are finite binary64 numbers — or +infinity — with the real values G prescribes), then
   the binary64 run and the exact run return corresponding points and evaluate corresponding sequences of points.
   Tolerance 0 on both sides (the runs are then bounded by max_iter only). *)
Theorem float_refines_real (g : PrimFloat.float -> PrimFloat.float) (lo hi : PrimFloat.float) (G : R -> @ecost R) g0 g1 n :
  let f := bounded lo hi g in
  pt_ok f G fR fR okf g0 (fR g0) -> pt_ok f G fR fR okf g1 (fR g1) ->
  run_ok PrimFloat.ltb float_ops real_ops f G (sd_small_float 0) fR fR okf n (init PrimFloat.ltb f g0 g1) ->
  nm_result Rltb real_ops G (sd_real 0) (fR g0) (fR g1) n = fR (fst (nm_float g g0 g1 n lo hi 0)) /\
  strace (nm_run Rltb real_ops G (sd_real 0) (fR g0) (fR g1) n)
    = map fR (strace (nm_run PrimFloat.ltb float_ops f (sd_small_float 0) g0 g1 n)).
Proof.
  intros f H0 H1 Hok. unfold nm_float. cbn [fst].
  apply (nm_simulation PrimFloat.ltb Rltb float_ops real_ops f G (sd_small_float 0) (sd_real 0) fR fR okf); try assumption.
  - apply elt_float.
  - intros a b _ _. rewrite sd_float_0, sd_real_0. reflexivity.
Qed.

(* ---------------------------------------------------------------- non-vacuity: a run whose operations are all exact.
   constant cost 1 on [-16, 16], seeds 1 and 2, one iteration: reflection 0, inside contraction 3/2, shrink 3/2 *)
Lemma fR_eval (x : PrimFloat.float) (v : R) : (let b := Prim2B x in B2R b = v) -> fR x = v.
Proof. intros H. exact H. Qed.

Ltac fR_compute :=
  match goal with |- fR ?x = ?v =>
    apply fR_eval; let b := eval vm_compute in (Prim2B x) in change (B2R b = v);
    unfold B2R, Defs.F2R; cbn [Defs.Fnum Defs.Fexp cond_Zopp bpow Zaux.radix_val Z.pow_pos Pos.iter Z.mul Pos.mul]; try (cbn; lra)
  end.

Example float_refinement_nonvacuous :
  let g := fun _ : PrimFloat.float => 1%float in
  let G := fun _ : R => @CFin R 1 in
  let f := bounded (-16)%float 16%float g in
  pt_ok f G fR fR okf 1%float (fR 1%float) /\ pt_ok f G fR fR okf 2%float (fR 2%float) /\
  run_ok PrimFloat.ltb float_ops real_ops f G (sd_small_float 0) fR fR okf 1 (init PrimFloat.ltb f 1%float 2%float).
Proof.
  intros g G f.
  assert (F1 : fR 1%float = 1) by fR_compute.
  assert (Fc : forall x, f x = CFin 1%float \/ f x = CInf -> True) by auto.
  assert (Hpt : forall x : PrimFloat.float, nm_out_of_bounds_float x (-16)%float 16%float = false -> pt_ok f G fR fR okf x (fR x)).
  { intros x Hx.
    assert (Ef : f x = CFin 1%float) by (unfold f, bounded; rewrite Hx; reflexivity).
    unfold pt_ok. rewrite Ef. split; [reflexivity | split].
    - unfold G. cbn [psie]. rewrite F1. reflexivity.
    - cbn [okf]. vm_compute. reflexivity. }
  split; [apply Hpt; vm_compute; reflexivity | split; [apply Hpt; vm_compute; reflexivity|]].
  cbn [run_ok]. unfold terminated. rewrite sd_float_0. split; [|exact I].
  assert (Ei : init PrimFloat.ltb f 1%float 2%float =
               mkS (mkV 1%float (CFin 1%float)) (mkV 2%float (CFin 1%float)) (mkV 1%float (CFin 1%float)) (2%float :: 1%float :: nil))
    by (vm_compute; reflexivity).
  rewrite Ei. unfold step_ok.
  cbn [s0 s1 vp vc float_ops real_ops op_centroid op_reflect op_expand op_contract op_shrink].
  assert (F2 : fR 2%float = 2) by fR_compute.
  assert (Hp : forall (x : PrimFloat.float) (v : R), fR x = v -> nm_out_of_bounds_float x (-16)%float 16%float = false -> pt_ok f G fR fR okf x v).
  { intros x v Hv Hx. destruct (Hpt x Hx) as (_ & H2 & H3). unfold pt_ok. rewrite <- Hv. repeat split; assumption. }
  rewrite F1, F2.
  repeat split.
  all: try (apply Hp; [ | vm_compute; reflexivity ]).
  all: try (match goal with |- fR ?x = ?v => let y := eval vm_compute in x in change (fR y = v) end; fR_compute).
Qed.
