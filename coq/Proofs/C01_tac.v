(* Tactics shared by the per-crystal C01 proof files. *)
From Coq Require Import Reals List Lra.
From Interval Require Import Tactic.
From SpdVerif Require Import Base.Rx Spec.CrystalTypes Spec.Published Gen.Crystals Proofs.Sellmeier.
Import ListNotations.
Local Open Scope R_scope.

Ltac unfold_gen :=
  unfold n_of, get_indices, indices_BBO_1, indices_KTP, indices_BiBO_1, indices_LiNbO3_1, indices_LiNb_MgO,
    indices_KDP_1, indices_AgGaSe2_1, indices_AgGaSe2_2, indices_LiIO3_2, indices_LiIO3_1, indices_AgGaS2_1;
  cbn [proj fst snd]; rewrite ?um_cancel.
Ltac unfold_pub := unfold published; cbn [pub_sell pub_dn]; sell_simpl.

(* n_of c ax l T = published c ax l T *)
Ltac t_matches :=
  let Hw := fresh "Hw" in let HT := fresh "HT" in
  intros Hw HT; window_bounds Hw; unfold temp_ok in HT;
  match goal with |- n_of _ ?ax _ _ = _ => destruct ax end; unfold_gen; unfold_pub;
  first [ (* linear thermo-optic term present *)
          f_equal; [f_equal; dec_norm; field; repeat split; nra | try lra; try (dec_norm; field; lra)]
        | (* no temperature term in the code: the published dn is 0 *)
          match goal with |- _ = ?a + 0 * ?b => replace (a + 0 * b) with a by ring end;
          f_equal; dec_norm; field; repeat split; nra ].

Ltac t_defined :=
  let Hw := fresh "Hw" in let HT := fresh "HT" in
  intros Hw HT; window_bounds Hw; unfold temp_ok in HT;
  match goal with |- sell_defined (pub_sell _ ?ax _ _) _ => destruct ax end;
  cbn [pub_sell]; unfold sell_defined; cbn [sP1 sP2]; sell_simpl;
  (repeat split; repeat constructor; cbn [snd]; try nra; interval).

Ltac t_bounds :=
  let Hw := fresh "Hw" in let HT := fresh "HT" in
  intros Hw HT; window_bounds Hw; unfold temp_ok in HT;
  match goal with |- _ < n_of _ ?ax ?l ?T < _ => destruct ax; unfold_gen; split; interval with (i_bisect l, i_bisect T) end.

Ltac solve_exists :=
  solve [ apply Exists_cons_hd; cbn [fst snd]; lra
        | apply Exists_cons_tl; apply Exists_cons_hd; cbn [fst snd]; lra
        | apply Exists_cons_tl; apply Exists_cons_tl; apply Exists_cons_hd; cbn [fst snd]; lra ].

Ltac solve_strict :=
  unfold sell_strict; cbn [sD sP1 sP2];
  first [ left; lra | right; left; solve_exists | right; right; solve_exists ].

Ltac solve_ok := repeat constructor; unfold ok1, ok2, pole_out; cbn [fst snd]; nra.

(* decreasing, for crystals whose published form does not depend on l or T *)
Ltac t_decreasing matches defined :=
  let Hw1 := fresh "Hw1" in let Hw2 := fresh "Hw2" in let HT := fresh "HT" in let Hlt := fresh "Hlt" in
  intros Hw1 Hw2 HT Hlt;
  rewrite !matches by assumption;
  match goal with |- published _ ?ax ?l2 ?T < _ =>
    let Hpos := fresh "Hpos" in
    pose proof (defined ax l2 T Hw2 HT) as (_ & _ & Hpos);
    window_bounds Hw1; window_bounds Hw2;
    match goal with |- _ < published _ _ ?l1 _ =>
      assert (l1 ^ 2 < l2 ^ 2) by (apply sq_lt; lra)
    end;
    unfold published; apply sqrt_plus_lt; [lra|];
    destruct ax; cbn [pub_sell] in *
  end;
  (apply sell_decreasing; [assumption | solve_ok | solve_ok | cbn [sD]; lra | solve_strict]).

Ltac t_sign_lt :=   (* goal: n_of c a l T < n_of c b l T *)
  match goal with |- n_of _ _ ?l ?T < n_of _ _ _ _ =>
    apply Rminus_gt_0_lt; unfold_gen;
    first [ interval with (i_bisect l, i_bisect T) | interval with (i_bisect l, i_bisect T, i_depth 30) ]
  end.

Ltac t_class_neg_uniaxial :=
  let Hw := fresh "Hw" in let HT := fresh "HT" in
  intros Hw HT; window_bounds Hw; unfold temp_ok in HT; split; [reflexivity | t_sign_lt].

Ltac t_class_pos_biaxial :=
  let Hw := fresh "Hw" in let HT := fresh "HT" in
  intros Hw HT; window_bounds Hw; unfold temp_ok in HT; split; t_sign_lt.

Ltac t_temperature_linear matches :=
  let Hw := fresh "Hw" in let HT := fresh "HT" in
  intros Hw HT; rewrite !matches by (try assumption; unfold temp_ok; lra);
  unfold published;
  match goal with |- context [pub_sell _ ?ax _ _] => destruct ax end; cbn [pub_sell pub_dn]; lra.

Ltac t_temperature_none matches :=
  let Hw := fresh "Hw" in let HT := fresh "HT" in let HT' := fresh "HT'" in
  intros Hw HT HT'; rewrite !matches by assumption;
  unfold published;
  match goal with |- context [pub_sell _ ?ax _ _] => destruct ax end; cbn [pub_sell pub_dn]; lra.
