(* C19 — update operations of PeriodicPoling: the stored state after ANY sequence of period / apodization updates is the
   prescribed representation of what was last requested. *)
From Coq Require Import Reals Lra Lia List ZArith.
From SpdVerif Require Import Base.Rx Base.PolingBase Gen.Poling Model.Poling.
Import ListNotations.
Local Open Scope R_scope.

Lemma new_rep p a : p <> 0 -> pp_new p a = rep (Some (p, a)).
Proof.
  intros Hp. unfold pp_new, rep.
  destruct (Rgt_dec p (0 * 1)) as [H | H], (Rlt_dec p 0) as [H' | H']; try (exfalso; lra).
  - f_equal. symmetry. apply Rabs_right. lra.
  - f_equal. symmetry. apply Rabs_left. lra.
Qed.

Lemma sign_mul_rep p : p <> 0 -> sign_mul (if Rlt_dec p 0 then NEGATIVE else POSITIVE) (Rabs p) = p.
Proof.
  intros Hp. destruct (Rlt_dec p 0) as [H | H]; cbn [sign_mul].
  - rewrite Rabs_left by lra. ring.
  - rewrite Rabs_right by lra. ring.
Qed.

Lemma assign_rep q a p : p <> 0 -> pp_assign_period (rep (Some (q, a))) p = rep (Some (p, a)).
Proof.
  intros Hp. cbn [rep pp_assign_period].
  destruct (Rgt_dec p (0 * 1)) as [H | H], (Rlt_dec p 0) as [H' | H']; try (exfalso; lra); reflexivity.
Qed.

Lemma step_rep r op : request_ok r -> op_ok op ->
  pp_step (rep r) op = rep (request_step r op) /\ request_ok (request_step r op).
Proof.
  intros Hr Hop.
  destruct op as [p | p | a | a | p]; destruct r as [[q b] |]; cbn [pp_step request_step op_ok request_ok] in *.
  - split; [|exact Hop]. cbn [rep pp_with_period]. now apply new_rep.
  - split; [|exact Hop]. cbn [rep pp_with_period]. now apply new_rep.
  - split; [|exact Hop]. now apply assign_rep.
  - split; [reflexivity | exact I].
  - split; [|exact Hr]. cbn [rep pp_set_apodization]. rewrite sign_mul_rep by exact Hr. now apply new_rep.
  - split; [reflexivity | exact I].
  - split; [|exact Hr]. cbn [rep pp_with_apodization]. rewrite sign_mul_rep by exact Hr. now apply new_rep.
  - split; [reflexivity | exact I].
  - split; [|exact Hop]. cbn [rep pp_try_as_optimum pp_try_new_optimum]. now apply new_rep.
  - split; [|exact Hop]. cbn [rep pp_try_as_optimum pp_try_new_optimum]. now apply new_rep.
Qed.

(* try_as_optimum: an error of the optimiser is passed on (no new state); on success the period is the optimiser's, the
   apodization is the current one (none for an unpoled description) *)
Lemma as_optimum_spec s :
  pp_try_as_optimum None s = None /\
  forall p, p <> 0 -> pp_try_as_optimum (Some p) s = Some (rep (Some (p, pp_apodization s))).
Proof.
  split.
  - destruct s; reflexivity.
  - intros p Hp. destruct s as [| m sg a]; cbn [pp_try_as_optimum pp_try_new_optimum pp_apodization]; now rewrite new_rep.
Qed.

(* the wrapper PeriodicPoling::integration_constant is the window of the stored apodization, at the same z and L *)
Lemma wrapper_on m sg a z L : pp_integration_constant (On m sg a) z L = integration_constant a z L.
Proof. reflexivity. Qed.

Theorem run_rep ops : forall r, request_ok r -> Forall op_ok ops ->
  pp_run (rep r) ops = rep (request_run r ops) /\ request_ok (request_run r ops).
Proof.
  induction ops as [| op ops IH]; intros r Hr Hops.
  - split; [reflexivity | exact Hr].
  - inversion Hops as [| ? ? Hop Hrest]; subst.
    destruct (step_rep r op Hr Hop) as [E Hok].
    cbn [pp_run request_run fold_left]. rewrite E. apply (IH _ Hok Hrest).
Qed.

(* consequences read off the representation *)
Lemma rep_wf r : request_ok r -> pp_wf (rep r).
Proof.
  destruct r as [[p a] |]; cbn; [|auto]. intros Hp. now apply Rabs_pos_lt.
Qed.

Lemma rep_signed_period p a : p <> 0 -> pp_signed_period (rep (Some (p, a))) = Some p.
Proof. intros Hp. cbn [rep pp_signed_period]. now rewrite sign_mul_rep. Qed.

Lemma rep_k_eff p a : p <> 0 -> pp_k_eff (rep (Some (p, a))) = 2 * PI / p.
Proof. intros Hp. cbn [rep pp_k_eff]. rewrite sign_mul_rep by exact Hp. field. exact Hp. Qed.

Lemma rep_apodization p a : pp_apodization (rep (Some (p, a))) = a.
Proof. reflexivity. Qed.

Lemma rep_sign p a : p <> 0 ->
  match rep (Some (p, a)) with
  | On m s _ => 0 < m /\ m = Rabs p /\ (s = NEGATIVE <-> p < 0) /\ (s = POSITIVE <-> 0 < p)
  | Off => False
  end.
Proof.
  intros Hp. cbn [rep]. split; [now apply Rabs_pos_lt|]. split; [reflexivity|].
  destruct (Rlt_dec p 0); split; split; intros; try lra; try discriminate; try reflexivity.
Qed.

Lemma rep_off : pp_signed_period (rep None) = None /\ pp_k_eff (rep None) = 0 /\ pp_apodization (rep None) = ApOff.
Proof. cbn. repeat split. field. Qed.

(* every well-formed stored state is the representation of a request: the theorems apply to any state reachable from
   `new`, and to any literal On state with positive magnitude *)
Lemma wf_is_rep s : pp_wf s -> exists r, request_ok r /\ s = rep r.
Proof.
  destruct s as [| p s a]; cbn [pp_wf]; intros H.
  - exists None. split; [exact I | reflexivity].
  - destruct s.
    + exists (Some (p, a)). split; [cbn; lra|]. cbn [rep].
      destruct (Rlt_dec p 0); [lra|]. now rewrite Rabs_right by lra.
    + exists (Some (- p, a)). split; [cbn; lra|]. cbn [rep].
      destruct (Rlt_dec (- p) 0); [|lra]. rewrite Rabs_left by lra. f_equal. ring.
Qed.

(* single-step frame statements on an arbitrary well-formed state *)
Lemma with_period_frame m s a p : 0 < m -> p <> 0 ->
  pp_with_period (On m s a) p = On (Rabs p) (if Rlt_dec p 0 then NEGATIVE else POSITIVE) a /\
  pp_assign_period (On m s a) p = On (Rabs p) (if Rlt_dec p 0 then NEGATIVE else POSITIVE) a.
Proof.
  intros Hm Hp. split.
  - cbn [pp_with_period]. rewrite new_rep by exact Hp. reflexivity.
  - cbn [pp_assign_period].
    destruct (Rgt_dec p (0 * 1)) as [H | H], (Rlt_dec p 0) as [H' | H']; try (exfalso; lra); reflexivity.
Qed.

Lemma set_apodization_frame m s a b : 0 < m ->
  pp_set_apodization (On m s a) b = On m s b /\ pp_with_apodization (On m s a) b = On m s b.
Proof.
  intros Hm. destruct (wf_is_rep (On m s a) Hm) as [[[p a'] |] [Hok E]]; [|discriminate].
  cbn [rep] in E. injection E as E1 E2 E3. subst m s a'.
  cbn [request_ok] in Hok.
  split.
  - cbn [pp_set_apodization]. rewrite sign_mul_rep by exact Hok. now rewrite new_rep.
  - cbn [pp_with_apodization]. rewrite sign_mul_rep by exact Hok. now rewrite new_rep.
Qed.

(* a zero period request is NOT representable: `new 0` stores magnitude 0 with a negative sign (outside the property's
   scope; recorded so the guard p <> 0 is seen to be necessary) *)
Lemma new_zero a : pp_new 0 a = On (- 0) NEGATIVE a.
Proof.
  unfold pp_new. destruct (Rgt_dec 0 (0 * 1)); [exfalso; lra | reflexivity].
Qed.
