(* C02 — from the roots in y = 1/n^2 to the indices: definedness, bounds, symmetry, uniaxial closed form, optic axes. *)
From Coq Require Import Reals Lra Psatz List.
From SpdVerif Require Import Model.Optics Model.Fresnel Proofs.C02_fresnel.
Local Open Scope R_scope.

Lemma sq_nonneg x : 0 <= x * x.
Proof. nra. Qed.

Lemma inv2_pos n : 0 < n -> 0 < inv2 n.
Proof. intros H. unfold inv2. apply Rinv_0_lt_compat. nra. Qed.

Lemma inv2_antitone a b : 0 < a -> a <= b -> inv2 b <= inv2 a.
Proof.
  intros Ha Hab. unfold inv2. apply Rinv_le_contravar; nra.
Qed.

Lemma inv_sqrt_inv2 n : 0 < n -> 1 / sqrt (inv2 n) = n.
Proof.
  intros H. unfold inv2.
  replace (/ n ^ 2) with ((/ n) ^ 2) by (field; lra).
  replace ((/ n) ^ 2) with (Rsqr (/ n)) by (unfold Rsqr; ring).
  rewrite sqrt_Rsqr by (left; apply Rinv_0_lt_compat; assumption).
  field. lra.
Qed.

Lemma inv_sqrt_antitone y1 y2 : 0 < y1 -> y1 <= y2 -> 1 / sqrt y2 <= 1 / sqrt y1.
Proof.
  intros H1 H12.
  assert (0 < sqrt y1) by (apply sqrt_lt_R0; assumption).
  assert (sqrt y1 <= sqrt y2) by (apply sqrt_le_1_alt; assumption).
  unfold Rdiv. rewrite !Rmult_1_l. apply Rinv_le_contravar; assumption.
Qed.

Lemma inv_sqrt_pos y : 0 < y -> 0 < 1 / sqrt y.
Proof. intros H. apply Rdiv_lt_0_compat; [lra | apply sqrt_lt_R0; assumption]. Qed.

(* ---- definedness, positivity, bounds: for all positive principal indices and all unit directions *)
Theorem index_bounds nx ny nz sx sy sz lo hi :
  0 < lo -> lo <= nx <= hi -> lo <= ny <= hi -> lo <= nz <= hi ->
  sx * sx + sy * sy + sz * sz = 1 ->
  fresnel_defined nx ny nz sx sy sz /\
  lo <= fresnel_index Extraordinary nx ny nz sx sy sz /\
  fresnel_index Extraordinary nx ny nz sx sy sz <= fresnel_index Ordinary nx ny nz sx sy sz /\
  fresnel_index Ordinary nx ny nz sx sy sz <= hi.
Proof.
  intros Hlo [Hx1 Hx2] [Hy1 Hy2] [Hz1 Hz2] Hs.
  pose proof (sq_nonneg sx) as Px. pose proof (sq_nonneg sy) as Py. pose proof (sq_nonneg sz) as Pz.
  set (ax := inv2 nx). set (ay := inv2 ny). set (az := inv2 nz).
  assert (Hhi : 0 < hi) by lra.
  assert (Hahi : 0 < inv2 hi) by (apply inv2_pos; assumption).
  assert (Bx : inv2 hi <= ax <= inv2 lo) by (split; apply inv2_antitone; lra).
  assert (By : inv2 hi <= ay <= inv2 lo) by (split; apply inv2_antitone; lra).
  assert (Bz : inv2 hi <= az <= inv2 lo) by (split; apply inv2_antitone; lra).
  pose proof (slow_ge ax ay az _ _ _ Px Py Pz Hs (inv2 hi) (proj1 Bx) (proj1 By) (proj1 Bz)) as Hslow.
  pose proof (fast_le ax ay az _ _ _ Px Py Pz Hs (inv2 lo) (proj2 Bx) (proj2 By) (proj2 Bz)) as Hfast.
  pose proof (slow_le_fast ax ay az (sx * sx) (sy * sy) (sz * sz)) as Hsf.
  pose proof (disc_nonneg ax ay az _ _ _ Px Py Pz Hs) as HD.
  assert (Hys : 0 < y_slow ax ay az (sx * sx) (sy * sy) (sz * sz)) by lra.
  assert (Hyf : 0 < y_fast ax ay az (sx * sx) (sy * sy) (sz * sz)) by lra.
  split; [| split; [| split]].
  - unfold fresnel_defined. fold ax ay az. repeat split; try assumption; try (apply Rgt_not_eq; nra).
  - unfold fresnel_index. fold ax ay az.
    apply Rle_trans with (1 / sqrt (inv2 lo)); [rewrite inv_sqrt_inv2 by assumption; lra |].
    apply inv_sqrt_antitone; assumption.
  - unfold fresnel_index. fold ax ay az. apply inv_sqrt_antitone; assumption.
  - unfold fresnel_index. fold ax ay az.
    apply Rle_trans with (1 / sqrt (inv2 hi)); [| rewrite inv_sqrt_inv2 by assumption; lra].
    apply inv_sqrt_antitone; assumption.
Qed.

(* the same with the smallest and largest principal index *)
Corollary index_between_principal nx ny nz sx sy sz :
  0 < nx -> 0 < ny -> 0 < nz -> sx * sx + sy * sy + sz * sz = 1 ->
  0 < min3 nx ny nz /\
  min3 nx ny nz <= fresnel_index Extraordinary nx ny nz sx sy sz /\
  fresnel_index Extraordinary nx ny nz sx sy sz <= fresnel_index Ordinary nx ny nz sx sy sz /\
  fresnel_index Ordinary nx ny nz sx sy sz <= max3 nx ny nz.
Proof.
  intros Hx Hy Hz Hs.
  assert (Hm : 0 < min3 nx ny nz) by (unfold min3; repeat apply Rmin_glb_lt; assumption).
  split; [assumption |].
  apply (index_bounds nx ny nz sx sy sz (min3 nx ny nz) (max3 nx ny nz)); try assumption; unfold min3, max3; split.
  - apply Rmin_l.
  - apply Rmax_l.
  - eapply Rle_trans; [apply Rmin_r | apply Rmin_l].
  - eapply Rle_trans; [apply Rmax_l | apply Rmax_r].
  - eapply Rle_trans; [apply Rmin_r | apply Rmin_r].
  - eapply Rle_trans; [apply Rmax_r | apply Rmax_r].
Qed.

(* the middle principal index separates the two solutions *)
Lemma mid3_cases a b c : mid3 a b c = a \/ mid3 a b c = b \/ mid3 a b c = c.
Proof.
  unfold mid3, min3, max3, Rmin, Rmax.
  destruct (Rle_dec b c); repeat match goal with |- context [Rle_dec ?a ?b] => destruct (Rle_dec a b) end;
  repeat match goal with H : ~ _ <= _ |- _ => apply Rnot_le_lt in H end;
  first [left; lra | right; left; lra | right; right; lra].
Qed.

Lemma mid3_antitone (f : R -> R) a b c :
  (forall u v, In u (a :: b :: c :: nil) -> In v (a :: b :: c :: nil) -> u <= v -> f v <= f u) ->
  f (mid3 a b c) = mid3 (f a) (f b) (f c).
Proof.
  intros Hf.
  assert (Ia : In a (a :: b :: c :: nil)) by (simpl; tauto).
  assert (Ib : In b (a :: b :: c :: nil)) by (simpl; tauto).
  assert (Ic : In c (a :: b :: c :: nil)) by (simpl; tauto).
  pose proof (Hf a b Ia Ib). pose proof (Hf b a Ib Ia). pose proof (Hf a c Ia Ic).
  pose proof (Hf c a Ic Ia). pose proof (Hf b c Ib Ic). pose proof (Hf c b Ic Ib).
  unfold mid3, min3, max3, Rmin, Rmax.
  destruct (Rle_dec b c), (Rle_dec (f b) (f c));
  repeat match goal with |- context [Rle_dec ?a ?b] => destruct (Rle_dec a b) end;
  repeat match goal with H : ~ _ <= _ |- _ => apply Rnot_le_lt in H end;
  match goal with |- f ?m = ?r =>
    first [ replace m with a by lra; lra | replace m with b by lra; lra | replace m with c by lra; lra
          | exfalso; lra ] end.
Qed.

Theorem index_mid_between nx ny nz sx sy sz :
  0 < nx -> 0 < ny -> 0 < nz -> sx * sx + sy * sy + sz * sz = 1 ->
  fresnel_index Extraordinary nx ny nz sx sy sz <= mid3 nx ny nz <= fresnel_index Ordinary nx ny nz sx sy sz.
Proof.
  intros Hx Hy Hz Hs.
  pose proof (sq_nonneg sx) as Px. pose proof (sq_nonneg sy) as Py. pose proof (sq_nonneg sz) as Pz.
  set (nm := mid3 nx ny nz).
  assert (Hnmpos : 0 < nm) by (unfold nm; destruct (mid3_cases nx ny nz) as [-> | [-> | ->]]; assumption).
  assert (Hm : inv2 nm = mid3 (inv2 nx) (inv2 ny) (inv2 nz)).
  { unfold nm. apply mid3_antitone. intros u v Hu Hv Huv. apply inv2_antitone; [| assumption].
    simpl in Hu. destruct Hu as [<- | [<- | [<- | []]]]; assumption. }
  pose proof (interlace (inv2 nx) (inv2 ny) (inv2 nz) _ _ _ Px Py Pz Hs) as (I1 & I2 & I3 & I4).
  rewrite <- Hm in I2, I3.
  destruct (index_bounds nx ny nz sx sy sz (min3 nx ny nz) (max3 nx ny nz)) as ((_ & _ & _ & _ & Hys & Hyf) & _).
  { unfold min3. repeat apply Rmin_glb_lt; assumption. }
  { unfold min3, max3; split; [apply Rmin_l | apply Rmax_l]. }
  { unfold min3, max3; split; [eapply Rle_trans; [apply Rmin_r | apply Rmin_l] | eapply Rle_trans; [apply Rmax_l | apply Rmax_r]]. }
  { unfold min3, max3; split; [eapply Rle_trans; [apply Rmin_r | apply Rmin_r] | eapply Rle_trans; [apply Rmax_r | apply Rmax_r]]. }
  { assumption. }
  unfold fresnel_index. split.
  - apply Rle_trans with (1 / sqrt (inv2 nm)); [| rewrite inv_sqrt_inv2 by assumption; lra].
    apply inv_sqrt_antitone; [apply inv2_pos; assumption | assumption].
  - apply Rle_trans with (1 / sqrt (inv2 nm)); [rewrite inv_sqrt_inv2 by assumption; lra |].
    apply inv_sqrt_antitone; assumption.
Qed.

(* ---- symmetry: the index depends on the direction only through the squares of its crystal-frame components *)
Theorem index_symmetric p nx ny nz sx sy sz ex ey ez :
  (ex = 1 \/ ex = -1) -> (ey = 1 \/ ey = -1) -> (ez = 1 \/ ez = -1) ->
  fresnel_index p nx ny nz (ex * sx) (ey * sy) (ez * sz) = fresnel_index p nx ny nz sx sy sz.
Proof.
  intros Hx Hy Hz. unfold fresnel_index.
  replace (ex * sx * (ex * sx)) with (sx * sx) by (destruct Hx as [-> | ->]; ring).
  replace (ey * sy * (ey * sy)) with (sy * sy) by (destruct Hy as [-> | ->]; ring).
  replace (ez * sz * (ez * sz)) with (sz * sz) by (destruct Hz as [-> | ->]; ring).
  reflexivity.
Qed.

(* ---- uniaxial media: a_x = a_y = a_o *)
Section Uniaxial.
Variables ao ae px py pz : R.
Hypothesis Hsum : px + py + pz = 1.

Lemma uniaxial_disc : fdisc ao ao ae px py pz = ((1 - pz) * (ae - ao)) ^ 2.
Proof.
  unfold fdisc, fb, fc. replace px with (1 - py - pz) by lra. ring.
Qed.

Lemma uniaxial_b : fb ao ao ae px py pz = ao + y_uniaxial ao ae pz.
Proof. unfold fb, y_uniaxial. replace px with (1 - py - pz) by lra. ring. Qed.

Hypothesis Hpz : pz <= 1.

Lemma uniaxial_roots_neg : ao <= ae ->
  y_slow ao ao ae px py pz = ao /\ y_fast ao ao ae px py pz = y_uniaxial ao ae pz.
Proof.
  intros H. unfold y_slow, y_fast. rewrite uniaxial_disc, uniaxial_b.
  replace (((1 - pz) * (ae - ao)) ^ 2) with (Rsqr ((1 - pz) * (ae - ao))) by (unfold Rsqr; ring).
  rewrite sqrt_Rsqr by nra. unfold y_uniaxial. split; field.
Qed.

Lemma uniaxial_roots_pos : ae <= ao ->
  y_slow ao ao ae px py pz = y_uniaxial ao ae pz /\ y_fast ao ao ae px py pz = ao.
Proof.
  intros H. unfold y_slow, y_fast. rewrite uniaxial_disc, uniaxial_b.
  replace (((1 - pz) * (ae - ao)) ^ 2) with (Rsqr ((1 - pz) * (ao - ae))) by (unfold Rsqr; ring).
  rewrite sqrt_Rsqr by nra. unfold y_uniaxial. split; field.
Qed.
End Uniaxial.

(* n_x = n_y = n_o: one value is n_o for every direction, the other obeys 1/n^2 = cos^2/no^2 + sin^2/ne^2, cos = s_z.
   Which polarization label gets which is decided by the sign of the birefringence, exactly as the code selects. *)
Theorem uniaxial_closed_form_sz no ne sx sy sz :
  0 < no -> 0 < ne -> sx * sx + sy * sy + sz * sz = 1 ->
  (ne <= no -> fresnel_index Ordinary no no ne sx sy sz = no /\
               fresnel_index Extraordinary no no ne sx sy sz = 1 / sqrt (y_uniaxial (inv2 no) (inv2 ne) (sz * sz))) /\
  (no <= ne -> fresnel_index Ordinary no no ne sx sy sz = 1 / sqrt (y_uniaxial (inv2 no) (inv2 ne) (sz * sz)) /\
               fresnel_index Extraordinary no no ne sx sy sz = no).
Proof.
  intros Hno Hne Hs.
  assert (Hpz : sz * sz <= 1) by (pose proof (sq_nonneg sx); pose proof (sq_nonneg sy); lra).
  unfold fresnel_index.
  split; intros Hord.
  - destruct (uniaxial_roots_neg (inv2 no) (inv2 ne) _ _ _ Hs Hpz) as [E1 E2]; [apply inv2_antitone; assumption |].
    rewrite E1, E2. split; [apply inv_sqrt_inv2; assumption | reflexivity].
  - destruct (uniaxial_roots_pos (inv2 no) (inv2 ne) _ _ _ Hs Hpz) as [E1 E2]; [apply inv2_antitone; assumption |].
    rewrite E1, E2. split; [reflexivity | apply inv_sqrt_inv2; assumption].
Qed.

Theorem uniaxial_closed_form no ne sx sy th :
  0 < no -> 0 < ne -> sx * sx + sy * sy + cos th * cos th = 1 ->
  (ne <= no -> fresnel_index Ordinary no no ne sx sy (cos th) = no /\
               fresnel_index Extraordinary no no ne sx sy (cos th) = n_uniaxial no ne th) /\
  (no <= ne -> fresnel_index Ordinary no no ne sx sy (cos th) = n_uniaxial no ne th /\
               fresnel_index Extraordinary no no ne sx sy (cos th) = no).
Proof.
  intros Hno Hne Hs. unfold n_uniaxial. replace (cos th ^ 2) with (cos th * cos th) by ring.
  apply uniaxial_closed_form_sz; assumption.
Qed.

(* the direction-dependent value is well defined and lies between n_o and n_e *)
Lemma y_uniaxial_pos ao ae c2 : 0 < ao -> 0 < ae -> 0 <= c2 <= 1 -> 0 < y_uniaxial ao ae c2.
Proof. intros Ho He [H0 H1]. unfold y_uniaxial. destruct (Req_dec c2 1) as [-> | Hn]; nra. Qed.

(* ---- optic axes: the discriminant vanishes exactly there (a_y strictly between a_x and a_z) *)
Theorem disc_zero_iff_optic_axis ax ay az px py pz :
  0 <= px -> 0 <= py -> 0 <= pz -> px + py + pz = 1 ->
  (az < ay < ax \/ ax < ay < az) ->
  (fdisc ax ay az px py pz = 0 <-> py = 0 /\ px = (ax - ay) / (ax - az) /\ pz = (ay - az) / (ax - az)).
Proof.
  intros Hpx Hpy Hpz Hs Hord.
  assert (Hne : ax - az <> 0) by (destruct Hord; lra).
  assert (Hprod : 0 < (ay - az) * (ax - ay)) by (destruct Hord; nra).
  split.
  - intros HD. rewrite (disc_mid_y ax ay az px py pz Hs) in HD by lra.
    assert (T1 : 0 <= (px * (ay - az) - pz * (ax - ay)) ^ 2) by apply pow2_ge_0.
    assert (T2 : 0 <= (py * (az - ax)) ^ 2) by apply pow2_ge_0.
    assert (T3a : 0 <= px * (ay - az) ^ 2) by (apply Rmult_le_pos; [assumption | apply pow2_ge_0]).
    assert (T3b : 0 <= pz * (ax - ay) ^ 2) by (apply Rmult_le_pos; [assumption | apply pow2_ge_0]).
    assert (T3c : 0 <= (px + pz) * ((ay - az) * (ax - ay))) by (apply Rmult_le_pos; lra).
    assert (T3 : 0 <= 2 * py * (px * (ay - az) ^ 2 + pz * (ax - ay) ^ 2 + (px + pz) * ((ay - az) * (ax - ay))))
      by (apply Rmult_le_pos; lra).
    assert (Z2 : (py * (az - ax)) ^ 2 = 0) by lra.
    assert (Z1 : (px * (ay - az) - pz * (ax - ay)) ^ 2 = 0) by lra.
    assert (Hpy0 : py = 0).
    { assert (py * (az - ax) = 0) by nra. destruct (Rmult_integral _ _ H); [assumption | lra]. }
    assert (Hlin : px * (ay - az) - pz * (ax - ay) = 0) by nra.
    split; [assumption |]. subst py.
    split.
    + apply Rmult_eq_reg_r with (ax - az); [| assumption]. unfold Rdiv. rewrite Rmult_assoc, Rinv_l by assumption. nra.
    + apply Rmult_eq_reg_r with (ax - az); [| assumption]. unfold Rdiv. rewrite Rmult_assoc, Rinv_l by assumption. nra.
  - intros (-> & -> & ->). unfold fdisc, fb, fc. field. assumption.
Qed.

(* permuting the axes (indices and direction components together) does not change b, c, hence nothing else *)
Lemma fb_perm_xy ax ay az px py pz : fb ay ax az py px pz = fb ax ay az px py pz.
Proof. unfold fb. ring. Qed.
Lemma fc_perm_xy ax ay az px py pz : fc ay ax az py px pz = fc ax ay az px py pz.
Proof. unfold fc. ring. Qed.
Lemma fb_perm_yz ax ay az px py pz : fb ax az ay px pz py = fb ax ay az px py pz.
Proof. unfold fb. ring. Qed.
Lemma fc_perm_yz ax ay az px py pz : fc ax az ay px pz py = fc ax ay az px py pz.
Proof. unfold fc. ring. Qed.
