(* Composition across properties: the translated crystal tables (C01) fed into the translated index_along (C02).
   For every built-in crystal, in-window wavelength, temperature in [-50, 200] C, crystal orientation, unit direction and
   polarization, the index the code computes along that direction is the Fresnel solution for the crystal's published
   principal indices and lies strictly between 1 and 4 — so every later division by an index or its square root
   (wavenumbers, waist positions, normalisations) is defined. *)
From Coq Require Import Reals Lra.
From SpdVerif Require Import Base.Rx Spec.CrystalTypes Spec.Published Gen.Crystals Proofs.Sellmeier Proofs.C01_all.
From SpdVerif Require Import Model.Optics Model.Fresnel Gen.Fresnel Proofs.C02_index Proofs.C02_frame Proofs.C02_gen.
Local Open Scope R_scope.

(* the three principal indices of a crystal at (l um, T C), from the generated tables *)
Definition nx_of c l T := n_of c AX l T.
Definition ny_of c l T := n_of c AY l T.
Definition nz_of c l T := n_of c AZ l T.

(* index along a lab direction for a crystal cut at (theta, phi): generated index_along over generated get_indices *)
Definition crystal_index (c : crystal) (l T theta phi : R) (d : vec) (p : polarization) : R :=
  index_along_gen theta phi (nx_of c l T) (ny_of c l T) (nz_of c l T) d p.

Lemma min3_gt a b c x : x < a -> x < b -> x < c -> x < min3 a b c.
Proof. intros. unfold min3. apply Rmin_glb_lt; [assumption|]. apply Rmin_glb_lt; assumption. Qed.

Lemma max3_lt a b c x : a < x -> b < x -> c < x -> max3 a b c < x.
Proof. intros. unfold max3. apply Rmax_lub_lt; [assumption|]. apply Rmax_lub_lt; assumption. Qed.

Lemma principal_bounds c l T : in_window c l -> temp_ok T ->
  1 < nx_of c l T < 4 /\ 1 < ny_of c l T < 4 /\ 1 < nz_of c l T < 4.
Proof.
  intros Hw HT. unfold nx_of, ny_of, nz_of.
  repeat split; apply (bounds c _ l T Hw HT).
Qed.

Theorem crystal_index_is_fresnel c l T theta phi d p :
  in_window c l -> temp_ok T -> unit_vec d ->
  crystal_index c l T theta phi d p = index_model theta phi (nx_of c l T) (ny_of c l T) (nz_of c l T) d p.
Proof.
  intros Hw HT Hd. destruct (principal_bounds c l T Hw HT) as ((Hx & _) & (Hy & _) & (Hz & _)).
  unfold crystal_index. apply index_along_is_model; try lra; assumption.
Qed.

Theorem crystal_index_bounds c l T theta phi d p :
  in_window c l -> temp_ok T -> unit_vec d -> 1 < crystal_index c l T theta phi d p < 4.
Proof.
  intros Hw HT Hd.
  rewrite crystal_index_is_fresnel by assumption.
  destruct (principal_bounds c l T Hw HT) as ((Hx1 & Hx4) & (Hy1 & Hy4) & (Hz1 & Hz4)).
  unfold index_model. cbv zeta.
  set (s := crystal_frame theta phi d).
  assert (Hs : vx s * vx s + vy s * vy s + vz s * vz s = 1).
  { pose proof (crystal_frame_unit theta phi d Hd) as Hu. unfold unit_vec, vnorm2 in Hu. exact Hu. }
  assert (Px : 0 < nx_of c l T) by lra. assert (Py : 0 < ny_of c l T) by lra. assert (Pz : 0 < nz_of c l T) by lra.
  destruct (index_between_principal (nx_of c l T) (ny_of c l T) (nz_of c l T) (vx s) (vy s) (vz s) Px Py Pz Hs)
    as (_ & Hlo & Hmid & Hhi).
  pose proof (min3_gt (nx_of c l T) (ny_of c l T) (nz_of c l T) 1 Hx1 Hy1 Hz1).
  pose proof (max3_lt (nx_of c l T) (ny_of c l T) (nz_of c l T) 4 Hx4 Hy4 Hz4).
  destruct p; lra.
Qed.

Theorem crystal_index_positive c l T theta phi d p :
  in_window c l -> temp_ok T -> unit_vec d -> 0 < crystal_index c l T theta phi d p.
Proof. intros Hw HT Hd. pose proof (crystal_index_bounds c l T theta phi d p Hw HT Hd). lra. Qed.
