(* C07 clause 1: every intensity / rate is proportional to power · deff², so every ratio is independent of both.
   All statements are about the definitions GENERATED from the Rust source (Gen/Spectrum.v, Gen/Efficiencies.v). *)
From Coq Require Import Reals Bool Lra List.
From SpdVerif Require Import Base.Rx Model.SpectrumSetup Gen.Spectrum Gen.Efficiencies Model.Spectrum.
Import ListNotations.
Local Open Scope R_scope.

(* ---- raw quantities do not read power / deff *)
Lemma pump_spectral_amplitude_scale a b w s : pump_spectral_amplitude w (scale_setup a b s) = pump_spectral_amplitude w s.
Proof. reflexivity. Qed.
Lemma invalid_frequencies_scale a b ws wi s : invalid_frequencies ws wi (scale_setup a b s) = invalid_frequencies ws wi s.
Proof. reflexivity. Qed.
Lemma jsa_raw_scale a b ws wi s : jsa_raw ws wi (scale_setup a b s) = jsa_raw ws wi s.
Proof. reflexivity. Qed.
Lemma jsi_singles_raw_scale a b ws wi s : jsi_singles_raw ws wi (scale_setup a b s) = jsi_singles_raw ws wi s.
Proof. reflexivity. Qed.

(* ---- the normalisations are linear in power and quadratic in deff; unconditional (pure ring identities: the
        divisors do not contain power or deff, so no definedness hypothesis is needed) *)
Lemma common_norm_linear a b ws wi s :
  common_norm ws wi (scale_setup a b s) = a * b ^ 2 * common_norm ws wi s.
Proof.
  unfold common_norm. cbn [scale_setup omega_p fwhm pp_off len power deff wpx wpy n_s n_i].
  unfold Rdiv. ring.
Qed.

Lemma jsi_normalization_linear a b ws wi s :
  jsi_normalization ws wi (scale_setup a b s) = a * b ^ 2 * jsi_normalization ws wi s.
Proof.
  unfold jsi_normalization. rewrite common_norm_linear.
  cbn [scale_setup theta_s_e theta_i_e wsx wsy wix wiy]. ring.
Qed.

Lemma jsi_singles_normalization_linear a b ws wi s :
  jsi_singles_normalization ws wi (scale_setup a b s) = a * b ^ 2 * jsi_singles_normalization ws wi s.
Proof.
  unfold jsi_singles_normalization. rewrite common_norm_linear.
  cbn [scale_setup theta_s_e wsx wsy]. ring.
Qed.

(* ---- spectra *)
Lemma spectrum_jsi_linear a b ws wi s :
  spectrum_jsi ws wi (scale_setup a b s) = a * b ^ 2 * spectrum_jsi ws wi s.
Proof.
  unfold spectrum_jsi. rewrite jsa_raw_scale. rewrite ?jsi_normalization_linear, ?jsi_singles_normalization_linear, ?common_norm_linear.
  destruct (bool_dec _ true); unfold Rdiv; ring.
Qed.

Lemma spectrum_jsi_singles_linear a b ws wi s :
  spectrum_jsi_singles ws wi (scale_setup a b s) = a * b ^ 2 * spectrum_jsi_singles ws wi s.
Proof.
  unfold spectrum_jsi_singles. rewrite jsi_singles_raw_scale. rewrite ?jsi_singles_normalization_linear, ?jsi_normalization_linear, ?common_norm_linear.
  destruct (Req_EM_T _ 0); unfold Rdiv; ring.
Qed.

Lemma sqrt_scale a b n : 0 <= a -> 0 <= n -> sqrt (a * b ^ 2 * n / 1) = sqrt a * Rabs b * sqrt (n / 1).
Proof.
  intros Ha Hn. replace (a * b ^ 2 * n / 1) with (a * (b ^ 2 * (n / 1))) by (unfold Rdiv; ring).
  rewrite sqrt_mult_alt by exact Ha.
  assert (Hb : 0 <= b ^ 2) by (apply pow2_ge_0).
  rewrite sqrt_mult_alt by exact Hb.
  replace (b ^ 2) with (Rsqr b) by (unfold Rsqr; ring). rewrite sqrt_Rsqr_abs. ring.
Qed.

(* the amplitude scales with sqrt(power) · |deff| *)
Lemma spectrum_jsa_scale a b ws wi s :
  0 <= a -> 0 <= jsi_normalization ws wi s ->
  spectrum_jsa ws wi (scale_setup a b s) = cscale (sqrt a * Rabs b) (spectrum_jsa ws wi s).
Proof.
  intros Ha Hn. unfold spectrum_jsa, cscale. rewrite jsa_raw_scale, jsi_normalization_linear.
  cbn [fst snd]. rewrite sqrt_scale by assumption.
  destruct (bool_dec _ true); f_equal; ring.
Qed.

Lemma pow_lt_0_even2 b : b <> 0 -> 0 < b ^ 2.
Proof. intros Hb. replace (b ^ 2) with (Rsqr b) by (unfold Rsqr; ring). apply Rlt_0_sqr; assumption. Qed.

(* ---- grid sums and count rates *)
Lemma grid_sum_scale k f g pts dw2 :
  (forall ws wi, f ws wi = k * g ws wi) -> grid_sum f pts dw2 = k * grid_sum g pts dw2.
Proof.
  intros H. induction pts as [|p r IH]; cbn [grid_sum]; [ring|]. rewrite H, IH. ring.
Qed.

Lemma counts_coincidences_linear a b corr pts dw2 s :
  counts_coincidences corr pts dw2 (scale_setup a b s) = a * b ^ 2 * counts_coincidences corr pts dw2 s.
Proof.
  unfold counts_coincidences.
  rewrite (grid_sum_scale (a * b ^ 2) _ (fun ws wi => spectrum_jsi ws wi s)) by (intros; apply spectrum_jsi_linear). ring.
Qed.

Lemma counts_singles_signal_linear a b corr pts dw2 s :
  counts_singles_signal corr pts dw2 (scale_setup a b s) = a * b ^ 2 * counts_singles_signal corr pts dw2 s.
Proof.
  unfold counts_singles_signal.
  rewrite (grid_sum_scale (a * b ^ 2) _ (fun ws wi => spectrum_jsi_singles ws wi s)) by (intros; apply spectrum_jsi_singles_linear). ring.
Qed.

Lemma counts_singles_idler_linear a b corr pts dw2 sw :
  counts_singles_idler corr pts dw2 (scale_setup a b sw) = a * b ^ 2 * counts_singles_idler corr pts dw2 sw.
Proof.
  unfold counts_singles_idler.
  rewrite (grid_sum_scale (a * b ^ 2) _ (fun ws wi => spectrum_jsi_singles wi ws sw)) by (intros; apply spectrum_jsi_singles_linear). ring.
Qed.

(* ---- ratios: efficiencies *)
Lemma eqz_scale k x : 0 < k ->
  (if Req_EM_T (k * x) 0 then true else false) = (if Req_EM_T x 0 then true else false).
Proof.
  intros Hk. destruct (Req_EM_T (k * x) 0) as [E|E], (Req_EM_T x 0) as [E'|E']; try reflexivity; exfalso.
  - apply Rmult_integral in E. destruct E; [lra|contradiction].
  - apply E. subst. ring.
Qed.

Lemma if_sumbool_bool (P Q : Prop) (d : {P} + {Q}) (x y : R) :
  (if d then x else y) = (if (if d then true else false) then x else y).
Proof. destruct d; reflexivity. Qed.

Lemma efficiencies_scale_invariant k c rs ri :
  0 < k -> 0 <= rs -> 0 <= ri ->
  let e := efficiencies_from_counts c rs ri in
  let e' := efficiencies_from_counts (k * c) (k * rs) (k * ri) in
  eff_symmetric e' = eff_symmetric e /\ eff_signal e' = eff_signal e /\ eff_idler e' = eff_idler e.
Proof.
  intros Hk Hrs Hri. cbn zeta. unfold efficiencies_from_counts. cbn [eff_symmetric eff_signal eff_idler].
  rewrite !(if_sumbool_bool _ _ (Req_EM_T _ 0)).
  rewrite !(eqz_scale k) by assumption.
  destruct (Req_EM_T rs 0) as [E1|E1], (Req_EM_T ri 0) as [E2|E2]; cbn [orb];
    repeat (destruct (bool_dec _ true) as [F|F]; try discriminate F; try (exfalso; apply F; reflexivity));
    repeat split; try reflexivity; try (field; split; [assumption|lra]).
  replace (k * rs * (k * ri) * 1 * 1) with (Rsqr k * (rs * ri * 1 * 1)) by (unfold Rsqr; ring).
  rewrite sqrt_mult_alt by apply Rle_0_sqr. rewrite sqrt_Rsqr by lra.
  assert (Hs : sqrt (rs * ri * 1 * 1) <> 0).
  { intros H0. apply sqrt_eq_0 in H0.
    - assert (rs * ri = 0) by lra. apply Rmult_integral in H. tauto.
    - assert (0 <= rs * ri) by (apply Rmult_le_pos; assumption). lra. }
  field. split; [exact Hs|lra].
Qed.

(* efficiencies of a setup do not depend on power / deff (all three rates scale by the same positive factor) *)
Lemma efficiencies_power_deff_invariant a b corr pts dw2 s sw :
  0 < a -> b <> 0 ->
  0 <= counts_singles_signal corr pts dw2 s -> 0 <= counts_singles_idler corr pts dw2 sw ->
  let e := efficiencies_from_counts (counts_coincidences corr pts dw2 s) (counts_singles_signal corr pts dw2 s)
             (counts_singles_idler corr pts dw2 sw) in
  let e' := efficiencies_from_counts (counts_coincidences corr pts dw2 (scale_setup a b s))
             (counts_singles_signal corr pts dw2 (scale_setup a b s)) (counts_singles_idler corr pts dw2 (scale_setup a b sw)) in
  eff_symmetric e' = eff_symmetric e /\ eff_signal e' = eff_signal e /\ eff_idler e' = eff_idler e.
Proof.
  intros Ha Hb H1 H2. cbn zeta.
  rewrite counts_coincidences_linear, counts_singles_signal_linear, counts_singles_idler_linear.
  apply efficiencies_scale_invariant; try assumption.
  apply Rmult_lt_0_compat; [assumption|]. apply pow_lt_0_even2; assumption.
Qed.

(* ---- ratios: normalised spectra (the cached centre values are those of the optimum setup `so`, which is scaled alike) *)
Lemma center_jsi_singles_linear a b so : center_jsi_singles (scale_setup a b so) = a * b ^ 2 * center_jsi_singles so.
Proof.
  unfold center_jsi_singles. cbn [scale_setup omega_s0 omega_i0].
  rewrite jsi_singles_raw_scale, jsi_singles_normalization_linear. unfold Rdiv; ring.
Qed.

Lemma center_jsa_sq_linear a b so :
  0 <= a -> 0 <= jsi_normalization (omega_s0 so) (omega_i0 so) so ->
  center_jsa (scale_setup a b so) ^ 2 = a * b ^ 2 * center_jsa so ^ 2.
Proof.
  intros Ha Hn. unfold center_jsa. cbn [scale_setup omega_s0 omega_i0].
  rewrite jsa_raw_scale, jsi_normalization_linear. rewrite sqrt_scale by assumption.
  set (m := sqrt (_ * _ + _ * _)). set (q := sqrt (_ / 1)).
  replace ((sqrt a * Rabs b * q * m) ^ 2) with ((sqrt a * sqrt a) * (Rabs b * Rabs b) * (q * m) ^ 2) by ring.
  rewrite sqrt_sqrt by assumption.
  replace (Rabs b * Rabs b) with (b ^ 2).
  2:{ rewrite <- Rabs_mult. rewrite Rabs_right; [ring|]. apply Rle_ge. replace (b * b) with (b ^ 2) by ring. apply pow2_ge_0. }
  ring.
Qed.

Lemma jsi_normalized_invariant a b ws wi s so :
  0 < a -> b <> 0 -> 0 <= jsi_normalization (omega_s0 so) (omega_i0 so) so -> center_jsa so <> 0 ->
  spectrum_jsi_normalized ws wi (scale_setup a b s) (center_jsa (scale_setup a b so))
  = spectrum_jsi_normalized ws wi s (center_jsa so).
Proof.
  intros Ha Hb Hn Hc. unfold spectrum_jsi_normalized.
  rewrite spectrum_jsi_linear, center_jsa_sq_linear by lra.
  assert (b ^ 2 <> 0) by (apply pow_nonzero; assumption).
  field. repeat split; try lra.
Qed.

Lemma jsi_singles_normalized_invariant a b ws wi s so :
  0 < a -> b <> 0 -> center_jsi_singles so <> 0 ->
  spectrum_jsi_singles_normalized ws wi (scale_setup a b s) (center_jsi_singles (scale_setup a b so))
  = spectrum_jsi_singles_normalized ws wi s (center_jsi_singles so).
Proof.
  intros Ha Hb Hc. unfold spectrum_jsi_singles_normalized.
  rewrite spectrum_jsi_singles_linear, center_jsi_singles_linear.
  assert (b ^ 2 <> 0) by (apply pow_nonzero; assumption).
  field. repeat split; try lra.
Qed.

(* ---- ratios: Schmidt number and HOM rate are homogeneous of degree 0 in the amplitudes *)
Lemma sum_list_map_scale {A : Type} k (f g : A -> R) (l : list A) :
  (forall x, f x = k * g x) -> sum_list (map f l) = k * sum_list (map g l).
Proof.
  intros H. induction l as [|x r IH]; cbn [map sum_list fold_right]; [ring|].
  unfold sum_list in IH. rewrite IH, H. ring.
Qed.

Lemma schmidt_scale_invariant c sv :
  c <> 0 -> sum_list (map (fun x => x ^ 4) sv) <> 0 ->
  schmidt_of_singular_values (map (Rmult c) sv) = schmidt_of_singular_values sv.
Proof.
  intros Hc Hs. unfold schmidt_of_singular_values. rewrite !map_map.
  rewrite (sum_list_map_scale (c ^ 2) (fun x => (c * x) ^ 2) (fun x => x ^ 2)) by (intros; ring).
  rewrite (sum_list_map_scale (c ^ 4) (fun x => (c * x) ^ 4) (fun x => x ^ 4)) by (intros; ring).
  field. split; assumption.
Qed.

Definition scale_triple (c : R) (t : (R * R) * (R * R) * (R * R)) := (cscale c (fst (fst t)), cscale c (snd (fst t)), snd t).

Lemma hom_rate_scale_invariant c l :
  c <> 0 ->
  sum_list (map (fun t : (R * R) * (R * R) * (R * R) => fst (fst (fst t)) * fst (fst (fst t)) + snd (fst (fst t)) * snd (fst (fst t))) l) <> 0 ->
  hom_rate_model (map (scale_triple c) l) = hom_rate_model l.
Proof.
  intros Hc Hn. unfold hom_rate_model. cbv zeta. rewrite !map_map.
  rewrite (sum_list_map_scale (c ^ 2) _ (fun t : (R * R) * (R * R) * (R * R) => cre_conj_mul3 (fst (fst t)) (snd (fst t)) (snd t))).
  2:{ intros [[f g] u]. unfold scale_triple, cscale, cre_conj_mul3. cbv zeta. cbn [fst snd]. ring. }
  rewrite (sum_list_map_scale (c ^ 2)
             (fun x => fst (fst (fst (scale_triple c x))) * fst (fst (fst (scale_triple c x))) + snd (fst (fst (scale_triple c x))) * snd (fst (fst (scale_triple c x))))
             (fun t : (R * R) * (R * R) * (R * R) => fst (fst (fst t)) * fst (fst (fst t)) + snd (fst (fst t)) * snd (fst (fst t)))).
  2:{ intros [[f g] u]. unfold scale_triple, cscale. cbn [fst snd]. ring. }
  set (N := sum_list _) in *. set (M := sum_list _).
  assert (c ^ 2 <> 0) by (apply pow_nonzero; assumption).
  f_equal. f_equal. field. split; assumption.
Qed.

(* two-source HOM: the two sources may be scaled INDEPENDENTLY (different pump power / deff); the rate is invariant because
   the numerator is bilinear in (source 1, source 2) amplitudes and the denominator is norm1 (source 1) x norm2 (source 2) *)
Lemma hom2_rate_scale_invariant c1 c2 l n1 n2 :
  c1 <> 0 -> c2 <> 0 -> sum_list (map cnorm2 n1) <> 0 -> sum_list (map cnorm2 n2) <> 0 ->
  hom2_rate_model (map (scale_term2 c1 c2) l) (map (cscale c1) n1) (map (cscale c2) n2) = hom2_rate_model l n1 n2.
Proof.
  intros H1 H2 N1 N2. unfold hom2_rate_model. rewrite !map_map.
  rewrite (sum_list_map_scale ((c1 * c2) ^ 2) (fun x => hom2_term (scale_term2 c1 c2 x)) hom2_term).
  2:{ intros [[[p1 p2] [q1 q2]] u]. unfold hom2_term, scale_term2, cscale, cmul, cnorm2. cbv zeta. cbn [fst snd]. ring. }
  rewrite (sum_list_map_scale (c1 ^ 2) (fun x => cnorm2 (cscale c1 x)) cnorm2) by (intros [a b]; unfold cnorm2, cscale; cbn [fst snd]; ring).
  rewrite (sum_list_map_scale (c2 ^ 2) (fun x => cnorm2 (cscale c2 x)) cnorm2) by (intros [a b]; unfold cnorm2, cscale; cbn [fst snd]; ring).
  field. repeat split; assumption.
Qed.

(* with the second norm taken from source 1 (a one-identifier slip) the rate would depend on the relative power *)
Lemma hom2_wrong_norm_not_invariant :
  let l := ((1, 0), (1, 0), ((0, 0), (0, 0)), (1, 0)) :: nil in
  let n := (1, 0) :: nil in
  sum_list (map hom2_term (map (scale_term2 1 2) l)) / 4 / (sum_list (map cnorm2 n) * sum_list (map cnorm2 n))
  <> sum_list (map hom2_term l) / 4 / (sum_list (map cnorm2 n) * sum_list (map cnorm2 n)).
Proof.
  cbv zeta. unfold hom2_term, scale_term2, cscale, cmul, cnorm2, sum_list. cbn [map fold_right fst snd]. lra.
Qed.

(* ---- the normalised AMPLITUDE (JointSpectrum::jsa_normalized) *)
Lemma center_jsa_scale a b so :
  0 <= a -> 0 <= jsi_normalization (omega_s0 so) (omega_i0 so) so ->
  center_jsa (scale_setup a b so) = sqrt a * Rabs b * center_jsa so.
Proof.
  intros Ha Hn. unfold center_jsa. cbn [scale_setup omega_s0 omega_i0].
  rewrite jsa_raw_scale, jsi_normalization_linear. rewrite sqrt_scale by assumption. ring.
Qed.

Lemma jsa_normalized_invariant a b ws wi s so :
  0 < a -> b <> 0 -> 0 <= jsi_normalization ws wi s -> 0 <= jsi_normalization (omega_s0 so) (omega_i0 so) so -> center_jsa so <> 0 ->
  spectrum_jsa_normalized ws wi (scale_setup a b s) (center_jsa (scale_setup a b so))
  = spectrum_jsa_normalized ws wi s (center_jsa so).
Proof.
  intros Ha Hb Hn Hno Hc. unfold spectrum_jsa_normalized.
  rewrite spectrum_jsa_scale, center_jsa_scale by lra. unfold cscale. cbn [fst snd].
  assert (0 < sqrt a) by (apply sqrt_lt_R0; assumption). assert (0 < Rabs b) by (apply Rabs_pos_lt; assumption).
  f_equal; field; repeat split; try assumption; lra.
Qed.
