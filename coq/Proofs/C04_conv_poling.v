(* C04 — the convergence theorem of Proofs/C04_conv.v applied to the period search of optimum_poling_period (exact simplex
   operations): if the longitudinal mismatch dkz(period) — optimum idler recomputed per period, as the closure does — is
   strictly monotone on [MIN_POSITIVE, L] with a root there, the search started at (g, g + 1e-6) ends within
   2 * 2^J * 1e-6 / 2^m of the root after J + 1 + 2 m iterations (J = number of initial doubling steps), unless the
   standard-deviation test stops it earlier. *)
From Coq Require Import Reals Lra Lia Bool List FunctionalExtensionality.
From SpdVerif Require Import Base.Rx Gen.Idler Gen.AutoCalc Model.Idler Model.NM1d Model.AutoCalc Proofs.C04_nm Proofs.C04_poling Proofs.C04_conv.
Local Open Scope R_scope.

Section PolingSearch.
  Variable dkz : poling -> R.
  Variable sd : @ecost R -> @ecost R -> bool.
  Variables (L r : R) (h : R -> R).
  (* h is dkz(On {period x, sign}) up to a global sign (so that it can be taken increasing) *)
  Hypothesis Habs : forall x, Rabs (h x) = Rabs (dkz_on dkz x (sign_from (z0 dkz))).
  Hypothesis Hr : opp_min_period <= r <= L.
  Hypothesis Hroot : h r = 0.
  Hypothesis Hmono : forall x y, opp_min_period <= x -> x < y -> y <= L -> h x < h y.

  Lemma pol_cost_is_vcost : pol_cost dkz L = vcost opp_min_period L h.
  Proof.
    apply functional_extensionality. intros x. unfold pol_cost, vcost.
    destruct (nm_out_of_bounds x opp_min_period (opp_max_period L)) eqn:E.
    - apply out_of_bounds_iff in E. rewrite max_period_eq in E.
      assert (inb opp_min_period L x = false) by (destruct (inb opp_min_period L x) eqn:E2; [apply inb_iff in E2; lra | reflexivity]).
      rewrite H. reflexivity.
    - apply in_bounds_iff in E. rewrite max_period_eq in E. rewrite (proj2 (inb_iff opp_min_period L x) E).
      rewrite opp_cost_eq, Habs. reflexivity.
  Qed.

  Notation c := (vcost opp_min_period L h).
  Notation g := (opp_seed0 (opp_guess (z0 dkz))).

  Theorem poling_search_converges J m : opp_min_period <= g <= L \/ opp_min_period <= g + 1e-6 <= L ->
    let s := init Rltb c g (g + 1e-6) in
    (forall j, (j < J)%nat -> doublings opp_min_period L h (steps opp_min_period L h j s)) ->
    ~ doublings opp_min_period L h (steps opp_min_period L h J s) -> (J + 1 + 2 * m <= opp_max_iter)%nat ->
    (exists k, (k < J + 1 + 2 * m)%nat /\ terminated sd (steps opp_min_period L h k s) = true) \/
    Rabs (r - nm_period dkz real_ops sd L) <= 2 * (2 ^ J * 1e-6) / 2 ^ m.
  Proof.
    intros Hin s Hd Hn Hle.
    unfold nm_period. rewrite pol_cost_is_vcost.
    assert (Hs1 : opp_seed1 (opp_guess (z0 dkz)) = g + 1e-6) by reflexivity. rewrite Hs1.
    pose proof (nm_run_converges opp_min_period L r h Hr Hroot Hmono sd g (g + 1e-6) opp_max_iter J m) as H.
    replace (Rabs (g + 1e-6 - g)) with 1e-6 in H by (replace (g + 1e-6 - g) with 1e-6 by ring; rewrite Rabs_right; lra).
    apply H; try assumption. lra.
  Qed.
End PolingSearch.
