(* C18 / C20 bridge — the GENERATED SPDCIter::jsi_values / jsi_values_normalized (Gen/Sweep.v, kernels and try_as_optimum as
   oracles) agree with the hand-written L4 model of C20 (Model/NormSpectrum.v, where try_as_optimum is the modelled optimisation of
   Model/Config.v), for every translation `tr` of setups between the two record models that is compatible with the oracles.
   This turns C20's statements about the sweep normalisation into statements about the code the translator reads today. *)
From Coq Require Import Reals Lra List.
From Coquelicot Require Import Complex.
From SpdVerif Require Import Base.Rx Base.PolingBase Gen.Poling Gen.Sweep Spec.SweepPaths Model.Sweep Proofs.C18_sweep.
From SpdVerif Require Base.CfgNumOps Model.NumInst Model.ConfigTypes Model.Config Model.NormSpectrum.
Import ListNotations.
Local Open Scope R_scope.

Section Bridge.
(* C20's side *)
Variable K : Model.Config.oracles R.
Variable minpos : R.
Variable old_poling old_idler : bool.
Variable jsa_raw : Model.ConfigTypes.spdc R -> R -> R -> C.
Variable norm_jsi : Model.ConfigTypes.spdc R -> R -> R -> R.
Variable freq : Model.ConfigTypes.beam R -> R.
(* the generated side *)
Variable jsa_norm_sqr : R -> R -> spdc -> R.
Variable jsi_normalization : R -> R -> spdc -> R.
Variable try_as_optimum : spdc -> option spdc.
(* translation of setups *)
Variable tr : spdc -> Model.ConfigTypes.spdc R.

Hypothesis Hcenter : forall s, Model.NormSpectrum.center freq (tr s) = (b_frequency (s_signal s), b_frequency (s_idler s)).
Hypothesis Hjsa : forall s ws wi, (Cmod (jsa_raw (tr s) ws wi)) ^ 2 = jsa_norm_sqr ws wi s.
Hypothesis Hnorm : forall s ws wi, norm_jsi (tr s) ws wi = jsi_normalization ws wi s.

Notation c20_opt := (Model.Config.try_as_optimum Model.NumInst.R_ops K minpos old_poling old_idler).

Lemma raw_values_agree base setter1 setter2 x0 x1 nx y0 y1 ny :
  Model.NormSpectrum.jsi_values jsa_raw norm_jsi freq (map tr (spdc_iter_into_iter base setter1 setter2 x0 x1 nx y0 y1 ny)) =
  spdc_iter_jsi_values jsa_norm_sqr jsi_normalization base setter1 setter2 x0 x1 nx y0 y1 ny.
Proof.
  unfold Model.NormSpectrum.jsi_values, spdc_iter_jsi_values. rewrite map_map. apply map_ext. intros s.
  rewrite Hcenter, Hjsa, Hnorm. destruct (Req_EM_T _ 0); [reflexivity|]. unfold Rdiv. rewrite Rinv_1, Rmult_1_r. reflexivity.
Qed.

Lemma normalized_agree base setter1 setter2 x0 x1 nx y0 y1 ny opt nf :
  try_as_optimum base = Some opt -> c20_opt (tr base) = Model.ConfigTypes.Ok (tr opt, nf) ->
  Model.NormSpectrum.jsi_values_normalized K minpos old_poling old_idler jsa_raw norm_jsi freq (tr base)
    (map tr (spdc_iter_into_iter base setter1 setter2 x0 x1 nx y0 y1 ny)) =
  match spdc_iter_jsi_values_normalized jsa_norm_sqr jsi_normalization try_as_optimum base setter1 setter2 x0 x1 nx y0 y1 ny with
  | Some l => Model.ConfigTypes.Ok l
  | None => Model.ConfigTypes.Panic Model.ConfigTypes.SiteOptimumUnwrap
  end.
Proof.
  intros Hg Hc. unfold Model.NormSpectrum.jsi_values_normalized, spdc_iter_jsi_values_normalized. rewrite Hc, Hg.
  rewrite Hcenter. f_equal. rewrite map_map. apply map_ext. intros s.
  rewrite Hcenter, !Hjsa, !Hnorm. reflexivity.
Qed.

Lemma normalized_panic_agree base setter1 setter2 x0 x1 nx y0 y1 ny :
  try_as_optimum base = None -> (forall v, c20_opt (tr base) <> Model.ConfigTypes.Ok v) ->
  Model.NormSpectrum.jsi_values_normalized K minpos old_poling old_idler jsa_raw norm_jsi freq (tr base)
    (map tr (spdc_iter_into_iter base setter1 setter2 x0 x1 nx y0 y1 ny)) = Model.ConfigTypes.Panic Model.ConfigTypes.SiteOptimumUnwrap /\
  spdc_iter_jsi_values_normalized jsa_norm_sqr jsi_normalization try_as_optimum base setter1 setter2 x0 x1 nx y0 y1 ny = None.
Proof.
  intros Hg Hc. split.
  - unfold Model.NormSpectrum.jsi_values_normalized. destruct (c20_opt (tr base)) as [[o l] | e | st] eqn:E; try reflexivity.
    exfalso. exact (Hc _ eq_refl).
  - unfold spdc_iter_jsi_values_normalized. now rewrite Hg.
Qed.
End Bridge.
