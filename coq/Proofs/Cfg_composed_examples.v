(* Non-vacuity of the composed definedness hypotheses WITH an automatic crystal angle: a collinear 1550 nm signal, 775 nm pump, in a
   medium of constant index 3/2, identity Snell inverse -- every candidate crystal angle has a defined cost. *)
From Coq Require Import Reals Lra String List Bool.
From SpdVerif Require Import Base.Rx Base.Vec3 Base.CfgNumOps Model.NumInst Spec.ConfigSpec Spec.ConfigUnits Gen.ConfigTables Gen.ConfigSites
  Model.ConfigTypes Model.Config Model.Cfg_Composed Proofs.C16_round Proofs.C16_stable Proofs.C20_idempotent Proofs.Cfg_composed.
From SpdVerif Require Proofs.C03_idler.
Import ListNotations.
Local Open Scope R_scope.

Definition idx32 : crystal_setup R -> R -> vec -> GI.polarization -> R := fun _ _ _ _ => 3 / 2.
Definition snell_id : beam R -> R -> crystal_setup R -> option R := fun _ e _ => Some e.
Definition sd_stop : @NM.ecost R -> @NM.ecost R -> bool := fun _ _ => true.

Definition ex_cfg_R : spdc_cfg R :=
  {| c_crystal := {| cc_kind := "KTP"; cc_pm := Type2_e_eo; cc_phi_deg := 0; cc_theta_deg := Auto;
                     cc_length_um := 2000; cc_temperature_c := 20; cc_counter := false |};
     c_pump := {| pc_wavelength_nm := 775; pc_waist_um := 100; pc_bandwidth_nm := 5; pc_power_mw := 1; pc_threshold := None |};
     c_signal := {| bc_wavelength_nm := 1550; bc_phi_deg := 0; bc_theta_deg := Some 0; bc_theta_ext_deg := None;
                    bc_waist_um := 100; bc_waist_pos_um := Auto |};
     c_idler := Auto; c_pp := PCOff; c_deff := 7 |}.

(* the unpoled optimum idler of a COLLINEAR signal is defined in this medium: arg = 9/4 + 9 - 9 cos(theta) >= 9/4, val = 0 *)
Lemma idler_defined_collinear (s p : beam R) cs :
  collinear s -> b_wavelength s = 2 * b_wavelength p -> 0 < b_wavelength p ->
  idler_defined idx32 s p cs MI.PPOff = true.
Proof.
  intros Hc Hw Hp. unfold idler_defined.
  assert (Hs : 0 < b_wavelength s) by lra.
  assert (Els : MI.b_lambda (ib s) = b_wavelength s) by (apply C03_idler.sig_lambda; exact Hs).
  assert (Elp : MI.b_lambda (ipump p) = b_wavelength p) by (apply C03_idler.pump_lambda; exact Hp).
  assert (Harg : MI.opt_arg (idx32 cs) (ib s) (ipump p) MI.PPOff = 9 / 4 + 9 - 9 * cos (MI.b_theta (ib s) / 1)).
  { unfold MI.opt_arg, GI.idler_arg, MI.refractive_index, GI.beam_refractive_index, idx32, MI.pp_k_pp. rewrite Els, Elp, Hw. field. lra. }
  assert (Hpos : 0 < MI.opt_arg (idx32 cs) (ib s) (ipump p) MI.PPOff).
  { rewrite Harg. pose proof (COS_bound (MI.b_theta (ib s) / 1)). lra. }
  unfold MI.opt_val. rewrite C03_idler.idler_val_eq, (ib_sin_collinear _ Hc).
  unfold Rltb, in_unit, Rleb. destruct (Rlt_dec 0 _); [| contradiction].
  replace (MI.refractive_index (idx32 cs) (ib s) (MI.b_omega (ib s)) * 0 / sqrt (MI.opt_arg (idx32 cs) (ib s) (ipump p) MI.PPOff)) with 0
    by (unfold Rdiv; ring).
  destruct (Rle_dec (-1) 0), (Rle_dec 0 1); try reflexivity; exfalso; lra.
Qed.

Lemma angle_costs_defined_example : angle_costs_defined idx32 snell_id sd_stop sd_stop ex_cfg_R.
Proof.
  intros signal Hs _ _ x. unfold theta_cost_defined.
  destruct (GA.nm_out_of_bounds x GA.oth_min GA.oth_max); [reflexivity |]. cbn [orb]. unfold snell_id at 1.
  assert (Hsig : signal = set_angles R_ops
            (beam_new R_ops (signal_polarization Type2_e_eo) (nmul R_ops 0 (u_deg R_ops)) (n0 R_ops) (nmul R_ops 1550 (u_nano R_ops))
               (nmul R_ops 100 (u_micro R_ops))) (nmul R_ops 0 (u_deg R_ops)) (nmul R_ops 0 (u_deg R_ops))).
  { unfold signal_step, beam_of_cfg in Hs. cbn in Hs. inversion Hs. reflexivity. }
  assert (Hth : b_theta signal = 0).
  { rewrite Hsig. cbn [set_angles b_theta nmul R_ops]. rewrite Rmult_0_l. apply normalize_signed_0. }
  apply idler_defined_collinear.
  - left. cbn [set_angles b_theta]. unfold snell_arg. rewrite Hth, sin_0, Rmult_0_r, asin_0. apply normalize_signed_0.
  - cbn [set_angles b_wavelength]. rewrite Hsig. cbn [set_angles beam_new b_wavelength cfg_pump pump_of_cfg c_pump ex_cfg_R pc_wavelength_nm nmul R_ops].
    ring.
  - cbn [cfg_pump pump_of_cfg set_angles beam_new b_wavelength c_pump ex_cfg_R pc_wavelength_nm nmul R_ops]. rewrite u_nano_R.
    pose proof nano_pos. lra.
Qed.
