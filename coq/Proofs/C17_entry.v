(* The entry point SPDCConfig::try_as_spdc = optional up-front wavelength validation + the conversion steps.
   [validates] is read off the source by the generator (Gen/ConfigSites.v: cfg_validates_wavelengths). *)
From Coq Require Import String List Bool ZArith QArith.
From SpdVerif Require Import Base.CfgNumOps Spec.ConfigSpec Gen.ConfigTables Gen.ConfigSites Model.ConfigTypes Model.Config Proofs.C17_rules Proofs.C17_finite.
Import ListNotations.

Section Entry.
  Variable num : Type.
  Variable o : NumOps num.
  Variable U : units num.
  Variable K : oracles num.
  Variable minpos : num.
  Variable rj : bool.

  Lemma entry_passes_eq V c : entry_passes o V c -> try_as_spdc o U K minpos rj V c = try_as_spdc_steps o U K minpos rj c.
  Proof. unfold entry_passes, try_as_spdc. intros [-> | ->]; [reflexivity | rewrite andb_false_r; reflexivity]. Qed.

  Lemma entry_no_validation c : try_as_spdc o U K minpos rj false c = try_as_spdc_steps o U K minpos rj c.
  Proof. reflexivity. Qed.

  (* with the validation in place, rule 3 of the property holds in EVERY auto/explicit combination *)
  Theorem entry_validation_le c : cfg_le o c = true -> try_as_spdc o U K minpos rj true c = Err ESignalLePump.
  Proof. unfold try_as_spdc. intros ->. reflexivity. Qed.

  (* scaling both wavelengths by the same unit factor preserves their order (true over R and Q; stated as a law of the carrier) *)
  Definition scale_order : Prop :=
    forall a b, nleb o (nmul o a (u_nano o)) (nmul o b (u_nano o)) = nleb o a b.

  (* ... and the three unwrap()s of the "signal <= pump" error become unreachable: only a failed simplex search can panic *)
  Theorem validated_panics_only_search c s :
    scale_order -> try_as_spdc o U K minpos rj true c = Panic s -> s = SiteNelderMeadUnwrap.
  Proof.
    intros Hlaw. unfold try_as_spdc. cbn [andb]. destruct (cfg_le o c) eqn:Hle; [discriminate |].
    intros Hp. destruct (panic_sites num o U K minpos rj c s Hp) as [(signal & Hs & Hle' & _) | ->]; [| reflexivity].
    exfalso. unfold signal_step in Hs. destruct (beam_of_cfg_wavelength num o K _ _ _ _ Hs) as (Hw & _ & _).
    unfold signal_le_pump in Hle'. rewrite Hw in Hle'.
    unfold cfg_pump, pump_of_cfg, set_angles, beam_new in Hle'. cbn [b_wavelength] in Hle'.
    rewrite Hlaw in Hle'. unfold cfg_le in Hle. congruence.
  Qed.
  (* never panics, whatever the wavelengths: with the validation in place and the searches THIS configuration runs defined *)
  Theorem validated_no_panic_at c :
    scale_order -> searches_defined_at o K c -> is_panic (try_as_spdc o U K minpos rj true c) = false.
  Proof.
    intros Hlaw Htot. unfold try_as_spdc. cbn [andb]. destruct (cfg_le o c) eqn:Hle; [reflexivity |].
    apply no_panic_at; [exact Htot |].
    intros signal Hs. unfold signal_step in Hs. destruct (beam_of_cfg_wavelength num o K _ _ _ _ Hs) as (Hw & _ & _).
    unfold signal_le_pump. rewrite Hw. unfold cfg_pump, pump_of_cfg, set_angles, beam_new. cbn [b_wavelength].
    rewrite Hlaw. exact Hle.
  Qed.
  Theorem validated_no_panic c :
    scale_order -> searches_total K -> is_panic (try_as_spdc o U K minpos rj true c) = false.
  Proof. intros Hlaw Htot. apply validated_no_panic_at; [exact Hlaw | apply searches_total_at; exact Htot]. Qed.
  (* the results of the searches this configuration runs are DEFINED (finite): the hypothesis of the finiteness clause.  (It implies
     searches_defined_at; once the solver cannot fail it is no longer needed for "never panics", only for "nothing non-finite".) *)
  Definition search_results_defined_at (c : spdc_cfg num) : Prop :=
    (forall b e cs, o_snell_inv K b e cs <> None) /\
    (forall signal, signal_step o K c = Ok signal ->
       (is_auto (cc_theta_deg (c_crystal c)) = true -> c_pp c = PCOff ->
          forall e, o_snell_ext K signal (cfg_cs0 o c) = Some e ->
                    o_nm_theta K (erase_theta o (cfg_cs0 o c)) e signal (cfg_pump o c) <> None) /\
       (cfg_checks_total_reflection = false -> is_auto (cc_theta_deg (c_crystal c)) = true -> c_pp c = PCOff ->
          o_snell_ext K signal (cfg_cs0 o c) <> None) /\
       (forall a, c_pp c = PCConfig Auto a -> searches_cannot_fail = false -> o_nm_period K signal (cfg_pump o c) (cfg_cs0 o c) <> None)).

  Lemma search_results_defined_searches c : search_results_defined_at c -> searches_defined_at o K c.
  Proof.
    intros [H1 H2]. split; [intros _; exact H1 |]. intros signal Hs. destruct (H2 signal Hs) as (Ha & Hb & Hc). split.
    - intros Hau Hoff. split.
      + intros Hf _. exact (Hb Hf Hau Hoff).
      + intros _ e He. exact (Ha Hau Hoff e He).
    - exact Hc.
  Qed.

  (* the property's first sentence on a tree that validates: Ok with nothing non-finite, or Err; never a panic *)
  Theorem validated_ok_finite_or_err_at c :
    scale_order -> search_results_defined_at c -> geometry_defined_at o K minpos rj c ->
    (forall signal, signal_step o K c = Ok signal -> neqb o (o_dkz0 K signal (cfg_pump o c) (cfg_cs0 o c)) (n0 o) = false) ->
    (exists s, try_as_spdc o U K minpos rj true c = Ok (s, [])) \/ (exists e, try_as_spdc o U K minpos rj true c = Err e).
  Proof.
    intros Hlaw Htot Hgeo Hz. pose proof (validated_no_panic_at c Hlaw (search_results_defined_searches c Htot)) as Hnp.
    destruct (try_as_spdc o U K minpos rj true c) as [[s nf] | e | st] eqn:Hr.
    - left. exists s. revert Hr. unfold try_as_spdc. cbn [andb]. destruct (cfg_le o c); [discriminate |].
      intros Hr. rewrite (finite_at num o U K minpos rj c s nf Hgeo Hz Hr). reflexivity.
    - right. exists e. reflexivity.
    - discriminate.
  Qed.
End Entry.

Arguments scale_order {num} o.
Arguments search_results_defined_at {num} o K c.
