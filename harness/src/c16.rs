//! C16 observations.  Modes (args[0]):
//!   names                      enum tables: printed forms, polarization tables, inverse, parse of the printed forms
//!   parse                      stdin lines `pm\t<s>` | `pol\t<s>` | `crystal\t<s>`: result of the implementation's parser
//!   pmenum <alphabet> <n>      stdin: one prefix per line; for each, the result codes of PMType::from_str on
//!                              prefix ++ w for every w over the alphabet with |w| <= n (enumeration order of Model/Names.v)
//!   cfg <seed> <n>             valid configuration stream: shadow construction, real conversion, config -> setup -> config
//!                              -> setup -> config round trips, JSON round trips
//! Consumer: props/c16.py.
#![allow(unused_imports, dead_code)]
#[path = "cfg_common.rs"]
pub mod cfgc;
use crate::common::*;
use cfgc::*;
use serde_json::{json, Value};
use spdcalc::*;
use spdcalc::beam::IdlerBeam;
use spdcalc::dim::ucum::{M, RAD};
use std::io::BufRead;
use std::str::FromStr;

fn pm_code(s: &str) -> char {
  match PMType::from_str(s) {
    Ok(PMType::Type0_o_oo) => '0',
    Ok(PMType::Type0_e_ee) => '1',
    Ok(PMType::Type1_e_oo) => '2',
    Ok(PMType::Type2_e_eo) => '3',
    Ok(PMType::Type2_e_oe) => '4',
    Err(_) => '-',
  }
}

fn enumerate(alphabet: &[char], n: usize, cur: &mut String, out: &mut String) {
  out.push(pm_code(cur));
  if n == 0 {
    return;
  }
  for c in alphabet {
    cur.push(*c);
    enumerate(alphabet, n - 1, cur, out);
    cur.pop();
  }
}

pub fn run(args: &[String]) {
  install_hook();
  let mode = args.first().map(|s| s.as_str()).unwrap_or("names");
  match mode {
    "names" => names(),
    "parse" => parse(),
    "pmenum" => {
      let alphabet: Vec<char> = args.get(1).map(|s| s.chars().collect()).unwrap_or_default();
      let n = arg_u64(args, 2, 3) as usize;
      let stdin = std::io::stdin();
      for line in stdin.lock().lines() {
        let prefix = line.unwrap_or_default();
        let prefix = prefix.trim_end_matches('\n').to_string();
        let mut cur = prefix.clone();
        let mut out = String::new();
        enumerate(&alphabet, n, &mut cur, &mut out);
        emit(json!({"kind": "pmenum", "prefix": prefix, "n": n, "codes": out}));
      }
    }
    "json" => json_floats(arg_u64(args, 1, 1), arg_u64(args, 2, 100000) as usize),
    "cfg" => cfg_stream(arg_u64(args, 1, 1), arg_u64(args, 2, 50) as usize, None),
    "replay" => {
      let mut text = String::new();
      use std::io::Read;
      let _ = std::io::stdin().read_to_string(&mut text);
      match serde_json::from_str::<Value>(&text) {
        Ok(j) => cfg_stream(0, 0, Some(j)),
        Err(e) => emit(json!({"kind": "error", "msg": e.to_string()})),
      }
    }
    _ => emit(json!({"kind": "error", "msg": "unknown mode"})),
  }
}

fn names() {
  let all = [PMType::Type0_o_oo, PMType::Type0_e_ee, PMType::Type1_e_oo, PMType::Type2_e_eo, PMType::Type2_e_oe];
  for t in all {
    let disp = t.to_string();
    emit(json!({
      "kind": "pm", "variant": format!("{:?}", t), "to_str": t.to_str(), "display": disp,
      "pump": pol_s(t.pump_polarization()), "signal": pol_s(t.signal_polarization()), "idler": pol_s(t.idler_polarization()),
      "inverse": format!("{:?}", t.inverse()),
      "from_display": PMType::from_str(&disp).map(|v| format!("{:?}", v)).unwrap_or("Err".into()),
      "from_to_str": PMType::from_str(t.to_str()).map(|v| format!("{:?}", v)).unwrap_or("Err".into()),
      "json": serde_json::to_string(&t).unwrap_or_default(),
    }));
  }
  for p in [PolarizationType::Ordinary, PolarizationType::Extraordinary] {
    let disp = p.to_string();
    emit(json!({"kind": "pol", "variant": format!("{:?}", p), "display": disp,
      "from_display": PolarizationType::from_str(&disp).map(|v| format!("{:?}", v)).unwrap_or("Err".into())}));
  }
  for m in CrystalType::get_all_meta() {
    let r = CrystalType::from_string(m.id);
    emit(json!({"kind": "crystal", "id": m.id,
      "parsed": match &r { Ok(CrystalType::Expr(_)) => "Expr".to_string(), Ok(c) => c.to_string(), Err(_) => "Err".to_string() },
      "from_str": CrystalType::from_str(m.id).map(|c| c.to_string()).unwrap_or("Err".into()),
      "json": r.as_ref().ok().map(|c| serde_json::to_string(c).unwrap_or_default()),
      "json_back": r.as_ref().ok().and_then(|c| serde_json::to_string(c).ok())
          .and_then(|js| serde_json::from_str::<CrystalType>(&js).ok()).map(|c| c.to_string()),
    }));
  }
}

fn parse() {
  let stdin = std::io::stdin();
  for line in stdin.lock().lines() {
    let line = line.unwrap_or_default();
    let (k, s) = match line.split_once('\t') {
      Some(x) => x,
      None => continue,
    };
    let r = match k {
      "pm" => PMType::from_str(s).map(|v| format!("{:?}", v)).unwrap_or("Err".into()),
      "pol" => PolarizationType::from_str(s).map(|v| format!("{:?}", v)).unwrap_or("Err".into()),
      "crystal" => match CrystalType::from_string(s) {
        Ok(CrystalType::Expr(_)) => "Expr".to_string(),
        Ok(c) => c.to_string(),
        Err(_) => "Err".to_string(),
      },
      // the serde path of a configuration: pm_type is parsed with DisplayFromStr
      "pmjson" => {
        let j = json!({"kind": "KTP", "pm_type": s, "length_um": 1000, "temperature_c": 20});
        serde_json::from_value::<CrystalConfig>(j).map(|c| format!("{:?}", c.pm_type)).unwrap_or("Err".into())
      }
      _ => "?".to_string(),
    };
    emit(json!({"kind": "parse", "what": k, "s": s, "r": r}));
  }
}

/// config -> setup -> config -> setup -> config, with exact dumps
pub fn roundtrip(s: &SPDC) -> Value {
  let r = guarded_loc(|| {
    let c1 = s.clone().as_config();
    let t1 = serde_json::to_string(&c1).unwrap_or_default();
    let back: Result<SPDCConfig, _> = serde_json::from_str(&t1);
    let json_rt = match &back { Ok(b) => *b == c1, Err(_) => false };
    let cfg1_back = match &back { Ok(b) => cfg_json(b), Err(e) => json!({"error": e.to_string()}) };
    // the standalone public conversions From<SPDC> for PumpConfig / SignalConfig / IdlerConfig, put into the exported configuration
    let standalone = SPDCConfig { pump: s.clone().into(), signal: s.clone().into(), idler: AutoCalcParam::Param(s.clone().into()), ..c1.clone() };
    // "auto" against the explicit public calls on the FINISHED setup
    let final_theta = guarded_loc(|| *(s.crystal_setup.optimum_theta(&s.signal, &s.pump) / RAD)).ok();
    let final_idler = guarded_loc(|| IdlerBeam::try_new_optimum(&s.signal, &s.pump, &s.crystal_setup, &s.pp)).ok().and_then(|r| r.ok());
    let final_period = guarded_loc(|| optimum_poling_period(&s.signal, &s.pump, &s.crystal_setup)).ok().and_then(|r| r.ok());
    let final_zs = guarded_loc(|| *(s.crystal_setup.optimal_waist_position(s.signal.vacuum_wavelength(), s.signal.polarization()) / M)).ok();
    let final_zi = guarded_loc(|| *(s.crystal_setup.optimal_waist_position(s.idler.vacuum_wavelength(), s.idler.polarization()) / M)).ok();
    let o2 = outcome(|| c1.clone().try_as_spdc());
    let (s2j, c2j, c2_eq, t2) = match &o2.3 {
      Some(s2) => {
        let c2 = s2.clone().as_config();
        (spdc_json(s2), cfg_json(&c2), c2 == c1, serde_json::to_string(&c2).unwrap_or_default())
      }
      None => (Value::Null, Value::Null, false, String::new()),
    };
    json!({"cfg1": cfg_json(&c1), "json1": t1, "json1_roundtrip": json_rt, "cfg1_back": cfg1_back, "standalone": cfg_json(&standalone),
           "final": {"theta": final_theta.map(fx), "idler": final_idler.as_ref().map(|b| beam_json(b)),
                     "period": final_period.map(|p| fx(*(p / M))), "zs": final_zs.map(fx), "zi": final_zi.map(fx)},
           "second": {"class": o2.0, "msg": o2.1, "loc": o2.2, "setup": s2j, "cfg2": c2j, "cfg2_equals_cfg1": c2_eq, "json2": t2}})
  });
  match r {
    Ok(v) => v,
    Err((m, l)) => json!({"panic": m, "loc": l}),
  }
}

fn targeted() -> Vec<(&'static str, Value)> {
  // asymmetric values everywhere (no two fields equal), angles near the wrap-around, every apodization kind
  let base = |sig_phi: f64, sig_theta: f64, pp: Value, idler: Value| {
    json!({
      "crystal": {"kind": "BBO_1", "pm_type": "Type1_e_oo", "phi_deg": 13.70001, "theta_deg": 28.65432, "length_um": 1234.5678, "temperature_c": 37.25},
      "pump": {"wavelength_nm": 405.12345, "waist_um": 87.65432, "bandwidth_nm": 0.123456, "average_power_mw": 12.3456, "spectrum_threshold": 0.0123},
      "signal": {"wavelength_nm": 780.54321, "phi_deg": sig_phi, "theta_deg": sig_theta, "waist_um": 55.44332, "waist_position_um": -321.98765},
      "idler": idler, "periodic_poling": pp, "deff_pm_per_volt": 2.34567
    })
  };
  let idl = json!({"wavelength_nm": 842.1357, "phi_deg": 211.12121, "theta_deg": 2.71828, "waist_um": 66.77889, "waist_position_um": 456.78901});
  vec![
    ("asymmetric:idler_auto", base(31.41592, 1.23456, Value::Null, json!("auto"))),
    ("asymmetric:idler_explicit", base(31.41592, 1.23456, Value::Null, idl.clone())),
    ("asymmetric:pp_explicit", base(31.41592, 1.23456, json!({"poling_period_um": 9.87654, "apodization": {"kind": "Gaussian", "parameter": {"fwhm_um": 777.123}}}), idl.clone())),
    ("asymmetric:pp_negative", base(31.41592, 1.23456, json!({"poling_period_um": -9.87654, "apodization": {"kind": "Interpolate", "parameter": [0.1, 0.5, 1.0, 0.25]}}), json!("auto"))),
    ("theta_auto:noncollinear_signal", {
      let mut j = base(31.41592, 1.23456, Value::Null, json!("auto"));
      j["crystal"]["theta_deg"] = json!("auto");
      j
    }),
    ("theta_auto:noncollinear_signal_external", {
      let mut j = base(31.41592, 1.23456, Value::Null, json!("auto"));
      j["crystal"]["theta_deg"] = json!("auto");
      j["signal"].as_object_mut().unwrap().remove("theta_deg");
      j["signal"]["theta_external_deg"] = json!(2.75);
      j
    }),
    ("counter_propagation:true", {
      let mut j = base(31.41592, 1.23456, Value::Null, json!("auto"));
      j["crystal"]["counter_propagation"] = json!(true);
      j
    }),
    ("expr_crystal:valid", {
      let mut j = base(31.41592, 1.23456, Value::Null, json!("auto"));
      j["crystal"]["kind"] = json!({"no": "sqrt(2.7359+0.01878/(l^2-0.01822)-0.01354*l^2)", "ne": "sqrt(2.3753+0.01224/(l^2-0.01667)-0.01516*l^2)"});
      j
    }),
    ("wrap:phi_near_360", base(359.99996, 1.5, Value::Null, json!("auto"))),
    ("wrap:phi_negative", base(-0.00004, 1.5, Value::Null, json!("auto"))),
    ("wrap:theta_negative", base(10.0, -3.25, Value::Null, json!("auto"))),
    ("wrap:theta_near_minus_180", base(10.0, -179.99996, Value::Null, idl.clone())),
    ("wrap:theta_370", base(10.0, 362.5, Value::Null, json!("auto"))),
  ]
}

fn cfg_stream(seed: u64, n: usize, only: Option<Value>) {
  let mut rng = Rng::new(seed);
  emit(json!({"kind": "units", "u": units_json()}));
  let mut id = 0usize;
  let mut all: Vec<(usize, Vec<String>, Value)> = vec![];
  if let Some(j) = only {
    all.push((999, vec!["replay".to_string()], j));
  } else {
    for (name, j) in targeted() {
      all.push((200, vec![name.to_string()], j));
    }
  }
  for _ in 0..n {
    let mut tags = vec![];
    let j = gen_config(&mut rng, 0, &mut tags);
    all.push((0, tags, j));
  }
  for (mal, tags, j) in all {
    let text = serde_json::to_string(&j).unwrap_or_default();
    let mut o = crate::c17::observe_config(id, mal, tags, j.clone(), false);
    id += 1;
    if o["parse"] == "ok" {
      // JSON round trip of the parsed configuration itself
      if let Ok(cfg) = serde_json::from_value::<SPDCConfig>(j.clone()) {
        let t = serde_json::to_string(&cfg).unwrap_or_default();
        let back: Result<SPDCConfig, _> = serde_json::from_str(&t);
        o["cfg_json_roundtrip"] = json!(match &back { Ok(b) => *b == cfg, Err(_) => false });
        // ... and compared field by field (not through the derived PartialEq)
        o["cfg_back"] = match &back { Ok(b) => cfg_json(b), Err(e) => json!({"error": e.to_string()}) };
        o["cfg_json_text"] = json!(t);
        if let Ok(Ok(s)) = guarded_loc(|| cfg.clone().try_as_spdc()) {
          o["roundtrip"] = roundtrip(&s);
          // serde of the setup itself (SPDC serialises through its configuration)
          let st = serde_json::to_string(&s).unwrap_or_default();
          o["spdc_json_equals_config_json"] = json!(st == o["roundtrip"]["json1"].as_str().unwrap_or(""));
        }
      }
    }
    o["text"] = json!(text);
    emit(o);
  }
}


/// JSON float round trip (serde_json with float_roundtrip + ryu): f64 -> to_string -> from_str must give the same bits.
/// Classes: random bit patterns, subnormals, 17-significant-digit decimals, integers beyond 2^53, boundary values, decimal
/// strings that are hard to parse (reference: Rust's correctly rounded str::parse::<f64>), numbers inside a full configuration;
/// and what happens to non-finite values.
fn json_floats(seed: u64, n: usize) {
  let mut rng = Rng::new(seed);
  let mut fails: Vec<Value> = vec![];
  let mut counts = serde_json::Map::new();
  // distinct values really tested: the set of bit patterns
  let seen: std::cell::RefCell<std::collections::HashSet<u64>> = std::cell::RefCell::new(std::collections::HashSet::new());
  let mut check = |class: &str, x: f64, fails: &mut Vec<Value>, counts: &mut serde_json::Map<String, Value>| {
    let c = counts.entry(class.to_string()).or_insert(json!(0));
    *c = json!(c.as_u64().unwrap_or(0) + 1);
    seen.borrow_mut().insert(x.to_bits());
    let t = serde_json::to_string(&x).unwrap_or_default();
    let back: Result<f64, _> = serde_json::from_str(&t);
    let std_back: Result<f64, _> = t.parse::<f64>();
    let ok = matches!(&back, Ok(y) if y.to_bits() == x.to_bits()) && matches!(&std_back, Ok(y) if y.to_bits() == x.to_bits());
    if !ok && fails.len() < 20 {
      fails.push(json!({"class": class, "x": fx(x), "text": t, "serde": back.as_ref().ok().map(|y| fx(*y)), "std": std_back.as_ref().ok().map(|y| fx(*y))}));
    }
    ok
  };
  let mut bad = 0usize;
  for _ in 0..n {
    // random finite bit pattern
    let mut b = rng.next_u64();
    if (b >> 52) & 0x7ff == 0x7ff {
      b &= !(1u64 << 62);
    }
    if !check("random_bits", f64::from_bits(b), &mut fails, &mut counts) { bad += 1; }
    // subnormal
    let sb = rng.next_u64() & 0x800f_ffff_ffff_ffff;
    if !check("subnormal", f64::from_bits(sb), &mut fails, &mut counts) { bad += 1; }
    // 17 significant digits of moderate size (what an unrounded exported field looks like)
    let m = rng.range(1.0, 10.0) * 10f64.powi(rng.below(9) as i32 - 2);
    let x17 = (m * (1.0 + rng.unit() * 1e-9)) * 1e-6 / 1e-6;
    if !check("seventeen_digits", if rng.coin() { -x17 } else { x17 }, &mut fails, &mut counts) { bad += 1; }
    // 4-decimal numbers (what the exported configuration contains)
    let d4 = ((rng.range(-1e5, 1e5) * 1e4).round()) / 1e4;
    if !check("four_decimals", d4, &mut fails, &mut counts) { bad += 1; }
    // integers beyond 2^53, huge / tiny magnitudes
    let big = (rng.next_u64() >> 1) as f64 * if rng.coin() { 1.0 } else { 1e280 };
    if !check("large", big, &mut fails, &mut counts) { bad += 1; }
  }
  for x in [0.0, -0.0, f64::MIN_POSITIVE, f64::MAX, f64::MIN, 5e-324, -5e-324, 2.2250738585072011e-308, 2.2250738585072014e-308,
            9007199254740993.0, 9007199254740992.0, 1.7976931348623157e308, 0.1, 0.3, 1e23, 8.41e21, 9.5367431640625e-7, 1.0000000000000002,
            0.30000000000000004, 123456.78900000002, 4.35, 987.4510000000001, -1006.9876521728515] {
    if !check("boundary", x, &mut fails, &mut counts) { bad += 1; }
  }
  // decimal strings known to be hard for float parsers: serde_json::from_str vs the correctly rounded std parser
  let mut hard_bad: Vec<Value> = vec![];
  let hard = ["2.2250738585072011e-308", "2.2250738585072012e-308", "9007199254740993", "9007199254740992.5", "1e23", "8.5e-324", "2.4703282292062327e-324",
              "2.4703282292062328e-324", "0.500000000000000166533453693773481063544750213623046875", "1.00000000000000011102230246251565404236316680908203125",
              "1.00000000000000011102230246251565404236316680908203124", "1.00000000000000011102230246251565404236316680908203126",
              "179769313486231580793728971405303415079934132710037826936173778980444968292764750946649017977587207096330286416692887910946555547851940402630657488671505820681908902000708383676273854845817711531764475730270069855571366959622842914819860834936475292719074168444365510704342711559699508093042880177904174497791",
              "3.4028234664e38", "7.038531e-26", "1.7976931348623158e308", "4.9406564584124654e-324", "0.000000000000000000000000000000000000000000000000000000000000000000000000000000000000000000001e100", "123456789012345678901234567890"];
  for t in hard {
    let a: Result<f64, _> = serde_json::from_str(t);
    let b: Result<f64, _> = t.parse::<f64>();
    let same = match (&a, &b) { (Ok(x), Ok(y)) => x.to_bits() == y.to_bits(), (Err(_), Ok(y)) => !y.is_finite(), _ => false };
    if !same {
      hard_bad.push(json!({"text": t, "serde": a.as_ref().ok().map(|y| fx(*y)), "std": b.as_ref().ok().map(|y| fx(*y))}));
    }
  }
  // numbers inside a full configuration: to_string / from_str of SPDCConfig with arbitrary finite fields
  let mut cfg_bad: Vec<Value> = vec![];
  let mut cfg_n = 0usize;
  let mut cfg_texts: std::collections::HashSet<u64> = std::collections::HashSet::new();
  for _ in 0..(n / 50 + 20) {
    let mut c = SPDCConfig::default();
    let mut r = || { let mut b = rng.next_u64(); if (b >> 52) & 0x7ff == 0x7ff { b &= !(1u64 << 62); } f64::from_bits(b) };
    c.crystal.phi_deg = r(); c.crystal.theta_deg = AutoCalcParam::Param(r()); c.crystal.length_um = r(); c.crystal.temperature_c = r();
    c.pump.wavelength_nm = r(); c.pump.waist_um = r(); c.pump.bandwidth_nm = r(); c.pump.average_power_mw = r(); c.pump.spectrum_threshold = Some(r());
    c.signal.wavelength_nm = r(); c.signal.phi_deg = r(); c.signal.theta_deg = Some(r()); c.signal.waist_um = r();
    c.signal.waist_position_um = AutoCalcParam::Param(r());
    c.idler = AutoCalcParam::Param(IdlerConfig { wavelength_nm: r(), phi_deg: r(), theta_deg: None, theta_external_deg: Some(r()), waist_um: r(),
                                                  waist_position_um: AutoCalcParam::Param(r()) });
    c.periodic_poling = PeriodicPolingConfig::Config { poling_period_um: AutoCalcParam::Param(r()),
                                                       apodization: ApodizationConfig::Gaussian { fwhm_um: r() } };
    c.deff_pm_per_volt = r();
    cfg_n += 1;
    let t = serde_json::to_string(&c).unwrap_or_default();
    {
      use std::hash::{Hash, Hasher};
      let mut h = std::collections::hash_map::DefaultHasher::new();
      t.hash(&mut h);
      cfg_texts.insert(h.finish());
    }
    let back: Result<SPDCConfig, _> = serde_json::from_str(&t);
    if !matches!(&back, Ok(b) if *b == c) && cfg_bad.len() < 5 {
      cfg_bad.push(json!({"text": t, "error": back.as_ref().err().map(|e| e.to_string())}));
    }
  }
  // non-finite values: what does to_string do, and does the text come back?
  let mut nonfinite = vec![];
  for (name, x) in [("NaN", f64::NAN), ("inf", f64::INFINITY), ("-inf", f64::NEG_INFINITY)] {
    let t = serde_json::to_string(&x).unwrap_or_else(|e| format!("ERROR {}", e));
    let back: Result<f64, _> = serde_json::from_str(&t);
    let mut c = SPDCConfig::default();
    c.pump.waist_um = x;
    let tc = serde_json::to_string(&c);
    let cb: Option<Result<SPDCConfig, String>> = tc.as_ref().ok().map(|t| serde_json::from_str::<SPDCConfig>(t).map_err(|e| e.to_string()));
    let mut c2 = SPDCConfig::default();
    c2.pump.spectrum_threshold = Some(x);
    let t2 = serde_json::to_string(&c2).unwrap_or_default();
    let b2: Result<SPDCConfig, _> = serde_json::from_str(&t2);
    let mut c3 = SPDCConfig::default();
    c3.signal.waist_position_um = AutoCalcParam::Param(x);
    let t3 = serde_json::to_string(&c3).unwrap_or_default();
    let b3: Result<SPDCConfig, _> = serde_json::from_str(&t3);
    nonfinite.push(json!({"value": name, "f64_text": t, "f64_back": match back { Ok(y) => format!("{:?}", y), Err(e) => format!("Err: {}", e) },
      "required_f64_field": match cb { Some(Ok(_)) => "parses".to_string(), Some(Err(e)) => format!("text has null; from_str Err: {}", e), None => "to_string Err".to_string() },
      "option_field": match b2 { Ok(b) => format!("text has null; parses back as {:?} (value silently dropped)", b.pump.spectrum_threshold), Err(e) => format!("Err: {}", e) },
      "autocalc_field": match b3 { Ok(b) => format!("parses back as {:?}", b.signal.waist_position_um), Err(e) => format!("text has null; from_str Err: {}", e) }}));
  }
  let distinct_values = seen.borrow().len();
  let distinct_hard: std::collections::HashSet<&str> = hard.iter().cloned().collect();
  emit(json!({"kind": "json_floats", "n": n, "counts": counts, "bad": bad, "fails": fails, "hard_strings": hard.len(), "hard_bad": hard_bad,
              "configs": cfg_n, "config_bad": cfg_bad, "nonfinite": nonfinite,
              "distinct_values": distinct_values, "distinct_hard_strings": distinct_hard.len(), "distinct_configs": cfg_texts.len()}));
}
