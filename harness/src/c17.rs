//! probe
#![allow(unused_imports, dead_code)]
use crate::common::*;
use serde_json::json;
use spdcalc::prelude::*;
use spdcalc::*;
use std::sync::Mutex;

static LAST: Mutex<String> = Mutex::new(String::new());

pub fn run(_args: &[String]) {
  std::panic::set_hook(Box::new(|info| {
    let loc = info.location().map(|l| format!("{}:{}:{}", l.file(), l.line(), l.column())).unwrap_or_default();
    *LAST.lock().unwrap() = loc;
  }));
  let base = |ls: f64, lp: f64, theta: serde_json::Value, pp: serde_json::Value, sig_theta: f64| {
    json!({
      "crystal": {"kind": "KTP", "pm_type": "e->eo", "phi_deg": 0, "theta_deg": theta, "length_um": 2000, "temperature_c": 20},
      "pump": {"wavelength_nm": lp, "waist_um": 100, "bandwidth_nm": 5.35, "average_power_mw": 1},
      "signal": {"wavelength_nm": ls, "phi_deg": 0, "theta_deg": sig_theta, "waist_um": 100, "waist_position_um": "auto"},
      "idler": "auto",
      "periodic_poling": pp,
      "deff_pm_per_volt": 7.6
    })
  };
  let cases = vec![
    ("ok", base(1550., 775., json!(90), json!({"poling_period_um": "auto"}), 0.)),
    ("ls<lp explicit theta, no pp", base(700., 775., json!(90), json!(null), 0.)),
    ("ls<lp auto theta", base(700., 775., json!("auto"), json!(null), 0.)),
    ("ls<lp auto pp", base(700., 775., json!(90), json!({"poling_period_um": "auto"}), 0.)),
    ("ls<lp explicit pp", base(700., 775., json!(90), json!({"poling_period_um": 46.5}), 0.)),
    ("ls=lp auto theta", base(775., 775., json!("auto"), json!(null), 0.)),
    ("sig 80deg auto theta", base(1550., 775., json!("auto"), json!(null), 80.)),
    ("sig 80deg auto pp", base(1550., 775., json!(90), json!({"poling_period_um": "auto"}), 80.)),
    ("sig 400deg auto theta", base(1550., 775., json!("auto"), json!(null), 400.)),
    ("pp 0", base(1550., 775., json!(90), json!({"poling_period_um": 0.0}), 0.)),
    ("auto theta + pp", base(1550., 775., json!("auto"), json!({"poling_period_um": 46.5}), 0.)),
  ];
  for (name, j) in cases {
    let cfg: Result<SPDCConfig, _> = serde_json::from_value(j);
    match cfg {
      Err(e) => println!("{}: parse error {}", name, e),
      Ok(cfg) => {
        let r = guarded(move || cfg.try_as_spdc());
        match r {
          Err(m) => println!("{}: PANIC {} at {}", name, m, LAST.lock().unwrap()),
          Ok(Err(e)) => println!("{}: Err {}", name, e),
          Ok(Ok(s)) => println!("{}: Ok theta_c={:?} idler theta={:?} pp={:?}", name, s.crystal_setup.theta, s.idler.theta_internal(), s.pp),
        }
      }
    }
  }
  // idempotence probe
  let mk = |j: serde_json::Value| -> SPDC { serde_json::from_value::<SPDCConfig>(j).unwrap().try_as_spdc().unwrap() };
  let mut j = base(1550., 775., json!(90), json!({"poling_period_um": "auto"}), 0.);
  let s = mk(j.clone());
  let o1 = s.clone().try_as_optimum().unwrap();
  let o2 = o1.clone().try_as_optimum().unwrap();
  println!("idem auto idler: {}", o1 == o2);
  println!("o1 idler {:?}\n pp {:?}", o1.idler, o1.pp);
  j["idler"] = json!({"wavelength_nm": 1500, "phi_deg": 180, "theta_deg": 0, "waist_um": 100});
  let s = mk(j.clone());
  let o1 = s.clone().try_as_optimum().unwrap();
  let o2 = o1.clone().try_as_optimum().unwrap();
  println!("idem explicit idler 1500: {} zi1={:?} zi2={:?}", o1 == o2, o1.idler_waist_position, o2.idler_waist_position);
  let mut j = base(1550., 775., json!(40), json!(null), 2.);
  let s = mk(j.clone());
  let o1 = s.clone().try_as_optimum().unwrap();
  let o2 = o1.clone().try_as_optimum().unwrap();
  println!("idem no pp: {} theta {:?} {:?}", o1 == o2, o1.crystal_setup.theta, o2.crystal_setup.theta);
  // round trip probe with angle wrap
  j["signal"]["phi_deg"] = json!(359.99996);
  let s = mk(j.clone());
  let c1 = s.clone().as_config();
  let c2 = c1.clone().try_as_spdc().unwrap().as_config();
  println!("c1 phi {:?} c2 phi {:?}", c1.signal.phi_deg, c2.signal.phi_deg);
  println!("{}", serde_json::to_string(&c1).unwrap());
}
