//! C17 observations: a structured + malformed configuration stream through serde / try_as_spdc / SPDC::from_json under
//! catch_unwind (outcome class, message, panic location, finiteness of every derived field), the shadow construction
//! that answers the oracles of the Coq model through the public API, and finiteness of spectrum / rate / HOM calls on
//! successfully constructed setups.  Consumer: props/c17.py.
#![allow(unused_imports, dead_code)]
use crate::c16::cfgc::*;
use crate::common::*;
use serde_json::{json, Value};
use spdcalc::dim::ucum::{HZ, M, RAD, S};
use spdcalc::math::Integrator;
use spdcalc::utils::Steps;
use spdcalc::beam::IdlerBeam;
use spdcalc::*;

pub fn observe_config(id: usize, mal: usize, tags: Vec<String>, j: Value, with_calls: bool) -> Value {
  let text = serde_json::to_string(&j).unwrap_or_default();
  let parsed = guarded_loc(|| serde_json::from_value::<SPDCConfig>(j.clone()));
  let cfg = match parsed {
    Ok(Ok(c)) => c,
    Ok(Err(e)) => {
      return json!({"kind": "cfg", "id": id, "mal": mal, "tags": tags, "json": j, "parse": "err", "parse_msg": e.to_string()});
    }
    Err((m, l)) => {
      return json!({"kind": "cfg", "id": id, "mal": mal, "tags": tags, "json": j, "parse": "panic", "parse_msg": m, "loc": l});
    }
  };
  let sh = shadow(&cfg);
  let real = outcome(|| cfg.clone().try_as_spdc());
  let (nonfinite, setup) = match &real.3 {
    Some(s) => (spdc_all_finite(s), spdc_json(s)),
    None => (vec![], Value::Null),
  };
  // the refractive indices of the three beams of a constructed setup (each at its own centre frequency)
  let indices = match &real.3 {
    Some(s) => {
      let ix = |b: &spdcalc::beam::Beam| match guarded_loc(|| *b.refractive_index(b.frequency(), &s.crystal_setup)) { Ok(x) => fx_or_null(x), Err(_) => json!("panic") };
      json!({"signal": ix(&s.signal), "idler": ix(&s.idler), "pump": ix(&s.pump)})
    }
    None => Value::Null,
  };
  // the JSON entry point (serde try_from): must agree with try_as_spdc
  let fj = guarded_loc(|| SPDC::from_json(&text));
  let from_json = match &fj {
    Ok(Ok(s)) => json!({"class": "ok", "same": real.3.as_ref().map(|r| spdc_json(r) == spdc_json(s)).unwrap_or(false)}),
    Ok(Err(e)) => json!({"class": "err", "msg": e.to_string().chars().take(200).collect::<String>()}),
    Err((m, l)) => json!({"class": "panic", "msg": m, "loc": l}),
  };
  let mut calls = Value::Null;
  if with_calls {
    if let Some(s) = &real.3 {
      if nonfinite.is_empty() {
        calls = finite_calls(s, id);
      }
    }
  }
  json!({
    "kind": "cfg", "id": id, "mal": mal, "tags": tags, "json": j, "parse": "ok", "cfg": cfg_json(&cfg),
    "shadow": sh, "real": {"class": real.0, "msg": real.1, "loc": real.2, "setup": setup, "nonfinite": nonfinite, "indices": indices},
    "from_json": from_json, "calls": calls,
  })
}

/// spectrum / rate / HOM calls on a small grid around the centre, inside the transmission window
pub fn finite_calls(s: &SPDC, variant: usize) -> Value {
  // integrator and grid vary from call to call: Simpson with 6 / 10 divisions on 3x3 / 5x5 grids, and the library's DEFAULT
  // integrator on every fourth setup
  let integ = match variant % 4 { 0 => Integrator::Simpson { divs: 6 }, 1 => Integrator::Simpson { divs: 10 }, 2 => Integrator::Simpson { divs: 6 }, _ => Integrator::default() };
  let npts = if variant % 2 == 0 { 3 } else { 5 };
  let win = s.crystal_setup.crystal.get_meta().transmission_range;
  let r = guarded_loc(|| {
    let ws0 = s.signal.frequency();
    let wi0 = s.idler.frequency();
    // +-0.2 % around the centres
    let d = if variant % 3 == 0 { 0.002 } else { 0.01 };
    let fs = FrequencySpace::new((ws0 * (1. - d), ws0 * (1. + d), npts), (wi0 * (1. - d), wi0 * (1. + d), npts));
    let inside = match win {
      Some(w) => {
        let l = |w_: Frequency| *(utils::frequency_to_vacuum_wavelength(w_) / M);
        [ws0 * (1. - d), ws0 * (1. + d), wi0 * (1. - d), wi0 * (1. + d)].iter().all(|f| { let x = l(*f); x >= w.0 && x <= w.1 })
      }
      None => true,
    };
    let sp = s.joint_spectrum(integ);
    let jsa = sp.jsa_range(fs);
    let jsi = sp.jsi_range(fs);
    let jss = sp.jsi_singles_range(fs);
    let jsn = sp.jsi_normalized_range(fs);
    let cc = *(s.counts_coincidences(fs, integ) / HZ);
    let cs = *(s.counts_singles_signal(fs, integ) / HZ);
    let ci = *(s.counts_singles_idler(fs, integ) / HZ);
    let hom = s.hom_rate_series(Steps(-1e-12 * S, 1e-12 * S, npts), fs, integ);
    let mut bad: Vec<&str> = vec![];
    if jsa.iter().any(|z| !z.re.is_finite() || !z.im.is_finite()) { bad.push("jsa"); }
    if jsi.iter().any(|z| !z.value_unsafe.is_finite()) { bad.push("jsi"); }
    if jss.iter().any(|z| !z.value_unsafe.is_finite()) { bad.push("jsi_singles"); }
    if !cc.is_finite() { bad.push("counts_coincidences"); }
    if !cs.is_finite() { bad.push("counts_singles_signal"); }
    if !ci.is_finite() { bad.push("counts_singles_idler"); }
    if hom.iter().any(|z| !z.is_finite()) { bad.push("hom_rate_series"); }
    let bad_norm = jsn.iter().any(|z| !z.is_finite());
    let jsa_all_zero = jsa.iter().all(|z| z.re == 0. && z.im == 0.);
    // the reference of the normalisation: the optimised setup's JSI at its own centre (exactly 0 makes every normalised value x/0)
    let reference_zero = guarded_loc(|| {
      let o = s.clone().try_as_optimum().ok()?;
      Some(*(o.joint_spectrum(integ).jsi(o.signal.frequency(), o.idler.frequency()) / JSIUnits::new(1.)) == 0.)
    }).ok().flatten();
    // intermediate quantities of the JSA at the setup's own centre, through public accessors, in the order the code computes them:
    // which one is the first that is not finite?
    let first_nonfinite = {
      let te_s = *(s.signal.theta_external(&s.crystal_setup) / RAD);
      let te_i = *(s.idler.theta_external(&s.crystal_setup) / RAD);
      let dk = *(delta_k(ws0, wi0, &s.signal, &s.idler, &s.pump, &s.crystal_setup, &s.pp) * M / RAD);
      let alpha = pump_spectral_amplitude(ws0 + wi0, s);
      let integrand = get_pm_integrand(ws0, wi0, s)(0.);
      if !te_s.is_finite() { "signal_external_angle" }
      else if !te_i.is_finite() { "idler_external_angle" }
      else if !(dk.x.is_finite() && dk.y.is_finite() && dk.z.is_finite()) { "delta_k" }
      else if !alpha.is_finite() { "pump_spectral_amplitude" }
      else if !(integrand.re.is_finite() && integrand.im.is_finite()) { "phasematch_integrand" }
      else { "none" }
    };
    json!({"class": "ok", "inside_window": inside, "nonfinite": bad, "normalized_nonfinite": bad_norm, "jsa_all_zero": jsa_all_zero,
           "first_nonfinite": first_nonfinite,
           "reference_zero": reference_zero, "variant": variant, "grid": npts, "cc": fx(cc), "cs": fx(cs), "ci": fx(ci)})
  });
  match r {
    Ok(v) => v,
    Err((m, l)) => json!({"class": "panic", "msg": m, "loc": l}),
  }
}

/// the classes of the malformed / boundary stream, by weight
pub fn mal_class(k: usize) -> usize {
  const W: [usize; 22] = [0, 0, 0, 0, 0, 0, 1, 1, 1, 1, 2, 2, 3, 3, 4, 4, 5, 6, 6, 7, 8, 8];
  W[k % W.len()]
}

pub fn run(args: &[String]) {
  install_hook();
  if args.first().map(|s| s.as_str()) == Some("replay") {
    // one configuration (JSON) on stdin
    let mut text = String::new();
    use std::io::Read;
    let _ = std::io::stdin().read_to_string(&mut text);
    emit(json!({"kind": "units", "u": units_json()}));
    match serde_json::from_str::<Value>(&text) {
      Ok(j) => emit(observe_config(0, 999, vec!["replay".into()], j, true)),
      Err(e) => emit(json!({"kind": "error", "msg": e.to_string()})),
    }
    return;
  }
  let seed = arg_u64(args, 0, 1);
  let n = arg_u64(args, 1, 100) as usize;
  let ncalls = arg_u64(args, 2, 10) as usize;
  let mut rng = Rng::new(seed);
  emit(json!({"kind": "units", "u": units_json()}));
  // fixed corpus: lambda_s <= lambda_p in every auto/explicit combination (DESIGN F7), NaN-cost searches, zero period
  let mut id = 0usize;
  for (name, j) in corpus() {
    let with_calls = name.contains("spectrum_calls") || name == "valid_reference";
    emit(observe_config(id, 100, vec![name.to_string()], j, with_calls));
    id += 1;
  }
  api_observations();
  // automatic poling period in a crystal SHORTER than the period that phase-matches: collinear signal, the needed period
  // 2 pi / |delta k_z| computed through the public API on a long crystal, then lengths just below it (and one that fits)
  for j in short_crystal_cases(&mut rng) {
    emit(observe_config(id, 101, vec!["auto_period:crystal_vs_needed_period".to_string()], j, false));
    id += 1;
  }
  let mut calls_done = 0usize;
  for k in 0..n {
    let mal = mal_class(k);
    let mut tags = vec![];
    let j = gen_config(&mut rng, mal, &mut tags);
    // spectrum / rate / HOM calls: on the valid stream, and on the boundary classes with crystal angle exactly 0
    let with_calls = (mal == 0 && calls_done < ncalls) || ((mal == 5 || mal == 6) && k % 3 == 0 && calls_done < 2 * ncalls);
    let o = observe_config(id, mal, tags, j, with_calls);
    if !o["calls"].is_null() {
      calls_done += 1;
    }
    emit(o);
    id += 1;
  }
}

pub fn short_crystal_cases(rng: &mut Rng) -> Vec<Value> {
  let mut out = vec![];
  let cr = crystals();
  let mut tries = 0;
  while out.len() < 24 && tries < 200 {
    tries += 1;
    let c = &cr[rng.below(cr.len())];
    let (lp, ls) = pick_wavelengths(rng, c);
    let ty = rng.below(5);
    let theta = short(match rng.below(3) { 0 => 90., _ => rng.range(20., 90.) });
    let base = json!({
      "crystal": {"kind": c.id, "pm_type": PM_FORMS[ty][rng.below(8)], "phi_deg": 0, "theta_deg": theta, "length_um": 50000, "temperature_c": 20},
      "pump": {"wavelength_nm": lp, "waist_um": 100, "bandwidth_nm": 1.0, "average_power_mw": 1},
      "signal": {"wavelength_nm": ls, "phi_deg": 0, "theta_deg": 0, "waist_um": 100},
      "periodic_poling": {"poling_period_um": "auto"}, "deff_pm_per_volt": 1.0
    });
    let cfg = match serde_json::from_value::<SPDCConfig>(base.clone()) { Ok(c) => c, Err(_) => continue };
    let cs0: CrystalSetup = cfg.crystal.clone().into();
    let pump = cfg.pump.clone().as_beam(&cs0);
    let signal = match guarded_loc(|| cfg.signal.clone().try_as_beam(&cs0)) { Ok(Ok(s)) => s, _ => continue };
    let z = match dkz0(&signal, &pump, &cs0) { Some(z) if z.is_finite() && z != 0. => z, _ => continue };
    let need_um = (std::f64::consts::TAU / z).abs() * 1e6;
    if !(need_um > 3. && need_um < 20000.) {
      continue;
    }
    for f in [0.98, 0.9, 0.6, 0.25, 1.5] {
      let mut j = base.clone();
      j["crystal"]["length_um"] = json!(short((need_um * f - if f < 1. { 2.0 } else { 0. }).max(0.5)));
      out.push(j);
    }
  }
  out
}

/// The lambda_s <= lambda_p error at the Beam / IdlerBeam / SPDC API level (below the configuration's own validation)
pub fn api_observations() {
  let base = serde_json::from_value::<SPDCConfig>(corpus()[0].1.clone()).ok().and_then(|c| c.try_as_spdc().ok());
  let s = match base {
    Some(s) => s,
    None => return,
  };
  let lp = *(s.pump.vacuum_wavelength() / M);
  for (name, f) in [("ls_eq_lp", 1.0), ("ls_lt_lp", 0.8), ("ls_gt_lp", 2.0)] {
    let mut t = s.clone();
    if f == 1.0 {
      t.signal.set_frequency(t.pump.frequency());
    } else {
      t.signal.set_vacuum_wavelength(lp * f * M);
    }
    let a = outcome(|| IdlerBeam::try_new_optimum(&t.signal, &t.pump, &t.crystal_setup, &t.pp));
    let b = outcome(|| t.optimum_idler());
    let c = outcome(|| t.clone().with_optimum_idler());
    let d = outcome(|| IdlerBeam::try_new_optimum(&t.signal, &t.pump, &t.crystal_setup, PeriodicPoling::Off));
    let fin = |o: &(String, String, String, Option<IdlerBeam>)| o.3.as_ref().map(|b| (*(b.vacuum_wavelength() / M)).is_finite() && *(b.vacuum_wavelength() / M) > 0.);
    emit(json!({"kind": "api", "case": name, "ls": fx(*(t.signal.vacuum_wavelength() / M)), "lp": fx(lp),
      "signal": beam_json(&t.signal), "pump": beam_json(&t.pump), "crystal": crystal_json(&t.crystal_setup),
      "try_new_optimum": {"class": a.0, "msg": a.1, "loc": a.2, "wavelength_ok": fin(&a)},
      "try_new_optimum_unpoled": {"class": d.0, "msg": d.1, "loc": d.2, "wavelength_ok": fin(&d)},
      "optimum_idler": {"class": b.0, "msg": b.1, "loc": b.2, "wavelength_ok": fin(&b)},
      "with_optimum_idler": {"class": c.0, "msg": c.1, "loc": c.2}}));
  }
}

pub fn corpus() -> Vec<(&'static str, Value)> {
  let base = |ls: f64, lp: f64, theta: Value, pp: Value, idler: Value, sig_theta: f64| {
    json!({
      "crystal": {"kind": "KTP", "pm_type": "e->eo", "phi_deg": 0, "theta_deg": theta, "length_um": 2000, "temperature_c": 20},
      "pump": {"wavelength_nm": lp, "waist_um": 100, "bandwidth_nm": 5.35, "average_power_mw": 1},
      "signal": {"wavelength_nm": ls, "phi_deg": 0, "theta_deg": sig_theta, "waist_um": 100, "waist_position_um": "auto"},
      "idler": idler, "periodic_poling": pp, "deff_pm_per_volt": 7.6
    })
  };
  let idl = json!({"wavelength_nm": 1550, "phi_deg": 180, "theta_deg": 0, "waist_um": 100});
  let ppa = json!({"poling_period_um": "auto"});
  let ppe = json!({"poling_period_um": 46.5});
  vec![
    ("valid_reference", base(1550., 775., json!(90), ppa.clone(), json!("auto"), 0.)),
    ("ls_lt_lp:theta_explicit:pp_off:idler_auto", base(700., 775., json!(90), Value::Null, json!("auto"), 0.)),
    ("ls_lt_lp:theta_explicit:pp_off:idler_explicit", base(700., 775., json!(90), Value::Null, idl.clone(), 0.)),
    ("ls_lt_lp:theta_auto:pp_off:idler_auto", base(700., 775., json!("auto"), Value::Null, json!("auto"), 0.)),
    ("ls_lt_lp:theta_auto:pp_off:idler_explicit", base(700., 775., json!("auto"), Value::Null, idl.clone(), 0.)),
    ("ls_lt_lp:theta_explicit:pp_auto:idler_auto", base(700., 775., json!(90), ppa.clone(), json!("auto"), 0.)),
    ("ls_lt_lp:theta_explicit:pp_auto:idler_explicit", base(700., 775., json!(90), ppa.clone(), idl.clone(), 0.)),
    ("ls_lt_lp:theta_explicit:pp_explicit:idler_auto", base(700., 775., json!(90), ppe.clone(), json!("auto"), 0.)),
    ("ls_lt_lp:theta_explicit:pp_explicit:idler_explicit", base(700., 775., json!(90), ppe.clone(), idl.clone(), 0.)),
    ("ls_eq_lp:theta_auto:pp_off:idler_auto", base(775., 775., json!("auto"), Value::Null, json!("auto"), 0.)),
    ("ls_eq_lp:theta_explicit:pp_off:idler_auto", base(775., 775., json!(90), Value::Null, json!("auto"), 0.)),
    ("nan_cost:signal_80deg:theta_auto", base(1550., 775., json!("auto"), Value::Null, json!("auto"), 80.)),
    ("nan_cost:signal_400deg:theta_auto", base(1550., 775., json!("auto"), Value::Null, json!("auto"), 400.)),
    ("nan_cost:signal_external_318deg:theta_auto", {
      let mut j = base(1550., 775., json!("auto"), Value::Null, json!("auto"), 0.);
      j["signal"].as_object_mut().unwrap().remove("theta_deg");
      j["signal"]["theta_external_deg"] = json!(318.5);
      j
    }),
    ("signal_external_318deg:theta_explicit", {
      let mut j = base(1550., 775., json!(90), Value::Null, json!("auto"), 0.);
      j["signal"].as_object_mut().unwrap().remove("theta_deg");
      j["signal"]["theta_external_deg"] = json!(318.5);
      j
    }),
    ("expr_crystal:unknown_variable", {
      let mut j = base(810., 405., json!(30), Value::Null, json!("auto"), 0.);
      j["crystal"]["kind"] = json!({"no": "sqrt(2.7359+0.01878/(l^2-0.01822)-0.01354*l^2)+q", "ne": "sqrt(2.3753+0.01224/(l^2-0.01667)-0.01516*l^2)"});
      j["crystal"]["pm_type"] = json!("e->oo");
      j
    }),
    ("expr_crystal:valid", {
      let mut j = base(810., 405., json!(30), Value::Null, json!("auto"), 0.);
      j["crystal"]["kind"] = json!({"no": "sqrt(2.7359+0.01878/(l^2-0.01822)-0.01354*l^2)", "ne": "sqrt(2.3753+0.01224/(l^2-0.01667)-0.01516*l^2)"});
      j["crystal"]["pm_type"] = json!("e->oo");
      j
    }),
    ("counter_propagation:idler_auto", {
      let mut j = base(1550., 775., json!(90), ppa.clone(), json!("auto"), 0.);
      j["crystal"]["counter_propagation"] = json!(true);
      j
    }),
    ("counter_propagation:theta_auto", {
      let mut j = base(1550., 775., json!("auto"), Value::Null, json!("auto"), 1.0);
      j["crystal"]["counter_propagation"] = json!(true);
      j
    }),
    ("nan_cost_period_search:backward_signal:pp_auto", json!({
      "crystal": {"kind": "KDP_1", "length_um": 7276.51, "phi_deg": 193.27, "pm_type": "Type_2_e_oe", "temperature_c": 10.3189, "theta_deg": 99.2044},
      "deff_pm_per_volt": 4.92797, "periodic_poling": {"poling_period_um": "auto"},
      "pump": {"average_power_mw": 5.20792, "bandwidth_nm": 0.132943, "waist_um": 174.77, "wavelength_nm": 226.047},
      "signal": {"phi_deg": -270.44, "theta_deg": 233.876, "waist_position_um": "auto", "waist_um": 200.76, "wavelength_nm": 452.095}
    })),
    ("idler_external_95deg", base(1550., 775., json!(90), Value::Null,
        json!({"wavelength_nm": 1550, "phi_deg": 180, "theta_external_deg": 95, "waist_um": 100}), 0.)),
    ("idler_external_minus_270deg:pp_auto", base(1550., 775., json!(90), ppa.clone(),
        json!({"wavelength_nm": 1550, "phi_deg": 180, "theta_external_deg": -270, "waist_um": 100}), 0.)),
    ("signal_80deg:pp_auto", base(1550., 775., json!(90), ppa.clone(), json!("auto"), 80.)),
    ("zero_period", base(1550., 775., json!(90), json!({"poling_period_um": 0.0}), json!("auto"), 0.)),
    ("auto_theta_with_poling", base(1550., 775., json!("auto"), ppe.clone(), json!("auto"), 0.)),
    ("negative_explicit_period", base(1550., 775., json!(90), json!({"poling_period_um": -46.5}), json!("auto"), 0.)),
    ("negative_explicit_period:noncollinear", base(1550., 775., json!(90), json!({"poling_period_um": -30.25}), json!("auto"), 1.5)),
    ("both_angles:internal_zero", {
      let mut j = base(1550., 775., json!(90), Value::Null, json!("auto"), 0.);
      j["signal"]["theta_external_deg"] = json!(2.5);
      j
    }),
    ("both_angles:idler_internal_zero", {
      let mut j = base(1550., 775., json!(90), Value::Null, json!({"wavelength_nm": 1550, "phi_deg": 180, "theta_deg": 0, "theta_external_deg": 1.5, "waist_um": 100}), 0.);
      j["signal"]["theta_deg"] = json!(1.0);
      j
    }),
    ("theta_auto:waist_auto:e_eo:bbo", json!({
      "crystal": {"kind": "BBO_1", "pm_type": "e->eo", "phi_deg": 0, "theta_deg": "auto", "length_um": 2000, "temperature_c": 20},
      "pump": {"wavelength_nm": 405, "waist_um": 100, "bandwidth_nm": 1.0, "average_power_mw": 1},
      "signal": {"wavelength_nm": 810, "phi_deg": 0, "theta_deg": 0, "waist_um": 100, "waist_position_um": "auto"},
      "idler": "auto", "deff_pm_per_volt": 2.0
    })),
    ("theta_auto:waist_auto:e_ee:ktp_noncollinear", json!({
      "crystal": {"kind": "KTP", "pm_type": "Type0_e_ee", "phi_deg": 0, "theta_deg": "auto", "length_um": 3000, "temperature_c": 30},
      "pump": {"wavelength_nm": 532, "waist_um": 80, "bandwidth_nm": 0.5, "average_power_mw": 2},
      "signal": {"wavelength_nm": 1000, "phi_deg": 20, "theta_external_deg": 2.0, "waist_um": 60},
      "deff_pm_per_volt": 3.0
    })),
    ("counter_propagation:explicit_period:noncollinear:spectrum_calls", json!({
      "crystal": {"counter_propagation": true, "kind": "AgGaSe2_2", "length_um": 216.698, "phi_deg": 0.0, "pm_type": "TYPE0_o_oo", "temperature_c": 91.5515, "theta_deg": 90.0},
      "deff_pm_per_volt": 7.56564, "periodic_poling": {"poling_period_um": -2.38266},
      "pump": {"average_power_mw": 283.515, "bandwidth_nm": 0.767415, "waist_um": 104.886, "wavelength_nm": 3255.0},
      "signal": {"phi_deg": 0.0, "theta_deg": 1.0, "waist_position_um": 23.6367, "waist_um": 220.313, "wavelength_nm": 6510.0}
    })),
    ("crystal_theta_zero:spectrum_calls", base(1550., 775., json!(0), ppa.clone(), json!("auto"), 0.)),
    ("crystal_theta_zero:no_pp:spectrum_calls", base(1550., 775., json!(0.0), Value::Null, json!("auto"), 0.5)),
  ]
}
