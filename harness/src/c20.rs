//! C20 observations: SPDC::try_as_optimum applied once and twice (idempotence), the shadow of try_as_optimum that answers
//! the Coq model's oracles through the public API, the collinear oracle contracts, every normalised accessor of
//! JointSpectrum against raw value / reference value computed through the public API, unit at the optimum's centre, and
//! SPDCIter::jsi_values vs jsi_values_normalized.  Consumer: props/c20.py.
#![allow(unused_imports, dead_code)]
use crate::c16::cfgc::*;
use crate::common::*;
use serde_json::{json, Map, Value};
use spdcalc::beam::*;
use spdcalc::dim::f64prefixes::*;
use spdcalc::dim::ucum::{DEG, M, RAD, S};
use spdcalc::jsa::*;
use spdcalc::math::Integrator;
use spdcalc::utils::Steps2D;
use spdcalc::*;

fn cx(z: Complex<f64>) -> Value {
  json!([fx(z.re), fx(z.im)])
}

/// the shadow of try_as_optimum: oracle answers for Model/Config.v, through the public API
pub fn shadow_optimum(s: &SPDC) -> Value {
  let mut orc = Map::new();
  let mut waist_pos: Vec<Value> = vec![];
  let mut steps: Vec<Value> = vec![];
  let mut signal = s.signal.clone();
  if s.crystal_setup.counter_propagation && !(s.signal.theta_internal() < 90. * DEG) {
    signal.set_angles(0. * DEG, 180. * DEG);
  } else {
    signal.set_angles(0. * DEG, 0. * DEG);
  }
  let cs = s.crystal_setup.clone();
  let te = guarded_loc(|| *(signal.theta_external(&cs) / RAD));
  let mut args = Map::new();
  args.insert("snell_ext".into(), args_snell_ext(&signal, &cs));
  args.insert("dkz0".into(), args_dkz0(&signal, &s.pump, &cs));
  if let Ok(x) = &te {
    args.insert("nm_theta".into(), args_nm_theta(*x, &signal, &s.pump, &cs));
  }
  orc.insert("snell_ext".into(), match te { Ok(x) if x.is_finite() => fx(x), _ => Value::Null });
  orc.insert("snell_inv".into(), json!([]));
  let mut cs1 = cs.clone();
  match &s.pp {
    PeriodicPoling::Off => {
      let o = outcome_plain(|| cs.optimum_theta(&signal, &s.pump));
      orc.insert("nm_theta".into(), match &o.3 { Some(t) if (*(*t / RAD)).is_finite() => fx(*(*t / RAD)), _ => Value::Null });
      steps.push(json!({"step": "optimum_theta", "class": o.0, "msg": o.1, "loc": o.2}));
      if let Some(t) = o.3 {
        cs1.theta = t;
      }
    }
    PeriodicPoling::On { .. } => {
      let z = dkz0(&signal, &s.pump, &cs);
      orc.insert("dkz0".into(), match z { Some(z) if z.is_finite() => fx(z), _ => Value::Null });
      let mut nm = Value::Null;
      if let Some(z) = z {
        if z.is_finite() && z != 0. && signal.vacuum_wavelength() > s.pump.vacuum_wavelength() {
          nm = match nm_period_replay(&signal, &s.pump, &cs, z) { Some(p) if p.is_finite() => fx(p), _ => Value::Null };
        }
      }
      orc.insert("nm_period".into(), nm);
      let o = outcome(|| optimum_poling_period(&signal, &s.pump, &cs));
      steps.push(json!({"step": "optimum_poling_period", "class": o.0, "msg": o.1, "loc": o.2,
                        "value": match &o.3 { Some(p) => fx(*(*p / M)), None => Value::Null }}));
    }
  }
  let io = outcome(|| IdlerBeam::try_new_optimum(&signal, &s.pump, &cs1, &s.pp));
  args.insert("idler_theta".into(), args_idler_theta(&signal, &s.pump, &cs1, &s.pp));
  orc.insert("args".into(), Value::Object(args));
  orc.insert("idler_theta".into(), match &io.3 { Some(b) if (*(b.theta_internal() / RAD)).is_finite() => fx(*(b.theta_internal() / RAD)), _ => Value::Null });
  steps.push(json!({"step": "idler_optimum", "class": io.0, "msg": io.1, "loc": io.2}));
  let mut beams: Vec<Beam> = vec![(*signal).clone(), (*s.idler).clone()];
  if let Some(b) = &io.3 {
    beams.push((**b).clone()); // the NEW idler (what a repaired try_as_optimum would use)
  }
  for b in beams.iter() {
    let z = guarded_loc(|| *(cs1.optimal_waist_position(b.vacuum_wavelength(), b.polarization()) / M)).unwrap_or(f64::NAN);
    waist_pos.push(json!({"wavelength": fx(*(b.vacuum_wavelength() / M)), "pol": pol_s(b.polarization()),
                          "r": if z.is_finite() { fx(z) } else { Value::Null }}));
  }
  orc.insert("waist_pos".into(), Value::Array(waist_pos));
  // ---- oracle contracts (collinear signal)
  let mut contract = Map::new();
  let mut ext = vec![];
  for th in [0.0, 0.3, 1.2, 1.5] {
    let mut c2 = cs.clone();
    c2.theta = th * RAD;
    ext.push(guarded_loc(|| *(signal.theta_external(&c2) / RAD)).unwrap_or(f64::NAN));
  }
  contract.insert("snell_ext_vs_crystal_theta".into(), fxs(&ext));
  let mut idl = vec![];
  let pps = [PeriodicPoling::Off, PeriodicPoling::new(10e-6 * M, Apodization::Off), PeriodicPoling::new(-3e-6 * M, Apodization::Off), s.pp.clone()];
  for p in pps.iter() {
    idl.push(guarded_loc(|| IdlerBeam::try_new_optimum(&signal, &s.pump, &cs1, p).map(|b| *(b.theta_internal() / RAD)).unwrap_or(f64::NAN)).unwrap_or(f64::NAN));
  }
  contract.insert("idler_theta_vs_poling".into(), fxs(&idl));
  if s.pp == PeriodicPoling::Off {
    let mut ths = vec![];
    for th in [0.1, 1.0] {
      let mut c2 = cs.clone();
      c2.theta = th * RAD;
      ths.push(guarded_loc(|| *(c2.optimum_theta(&signal, &s.pump) / RAD)).unwrap_or(f64::NAN));
    }
    contract.insert("optimum_theta_vs_crystal_theta".into(), fxs(&ths));
  }
  json!({"oracles": orc, "steps": steps, "contracts": contract})
}

fn setup_from(j: &Value) -> Option<SPDC> {
  let cfg = serde_json::from_value::<SPDCConfig>(j.clone()).ok()?;
  match guarded_loc(|| cfg.try_as_spdc()) {
    Ok(Ok(s)) => Some(s),
    _ => None,
  }
}

pub fn observe(id: usize, tags: Vec<String>, j: &Value, s: &SPDC, with_spectrum: bool) -> Value {
  let tags_default = tags.iter().any(|t| t.contains("default_integrator"));
  let o1 = outcome(|| s.clone().try_as_optimum());
  let mut m = Map::new();
  m.insert("kind".into(), json!("opt"));
  m.insert("id".into(), json!(id));
  m.insert("tags".into(), json!(tags));
  m.insert("config".into(), j.clone());
  m.insert("setup".into(), spdc_json(s));
  m.insert("nonfinite0".into(), json!(spdc_all_finite(s)));
  m.insert("first".into(), json!({"class": o1.0, "msg": o1.1, "loc": o1.2,
    "setup": o1.3.as_ref().map(spdc_json), "nonfinite": o1.3.as_ref().map(spdc_all_finite)}));
  m.insert("shadow".into(), shadow_optimum(s));
  let so = match o1.3 {
    Some(x) => x,
    None => return Value::Object(m),
  };
  let o2 = outcome(|| so.clone().try_as_optimum());
  let same = o2.3.as_ref().map(|x| spdc_json(x) == spdc_json(&so)).unwrap_or(false);
  m.insert("second".into(), json!({"class": o2.0, "msg": o2.1, "loc": o2.2, "setup": o2.3.as_ref().map(spdc_json), "same": same,
    "rust_eq": o2.3.as_ref().map(|x| *x == so)}));
  m.insert("shadow2".into(), shadow_optimum(&so));
  if let Some(s2) = &o2.3 {
    let o3 = outcome(|| s2.clone().try_as_optimum());
    m.insert("third_same".into(), json!(o3.3.as_ref().map(|x| spdc_json(x) == spdc_json(s2)).unwrap_or(false)));
  }
  // the idler is energy conserving with the type's polarization?
  let li = *(s.idler.vacuum_wavelength() / M);
  let (ls, lp) = (*(s.signal.vacuum_wavelength() / M), *(s.pump.vacuum_wavelength() / M));
  let li_opt = ls * lp / (ls - lp);
  m.insert("idler_consistent".into(), json!(((li - li_opt) / li_opt).abs() < 1e-12
    && s.idler.polarization() == s.crystal_setup.pm_type.idler_polarization()));
  if !with_spectrum {
    return Value::Object(m);
  }
  // one targeted case runs with the library's DEFAULT integrator (what a user gets), the others with Simpson, 10 divisions
  let integ_default = tags_default;
  let integ = if integ_default { Integrator::default() } else { Integrator::Simpson { divs: 10 } };
  let sp = guarded_loc(|| {
    let js = s.joint_spectrum(integ);
    let jso = so.joint_spectrum(integ);
    let (w0s, w0i) = (so.signal.frequency(), so.idler.frequency());
    let one = JSIUnits::new(1.);
    let ref_jsa = jso.jsa(w0s, w0i).norm();
    let ref_jsi = *(jso.jsi(w0s, w0i) / one);
    let ref_sing = *(jso.jsi_singles(w0s, w0i) / one);
    let (ws0, wi0) = (s.signal.frequency(), s.idler.frequency());
    let d = 0.001;
    let fs = FrequencySpace::new((ws0 * (1. - d), ws0 * (1. + d), 3), (wi0 * (1. - d), wi0 * (1. + d), 3));
    let mut pts: Vec<(Frequency, Frequency)> = fs.into_signal_idler_iterator().collect();
    let npts_grid = pts.len();
    pts.push((w0s, w0i));
    pts.push((ws0, wi0));
    let mut rows = vec![];
    for (ws, wi) in pts.iter() {
      rows.push(json!({
        "ws": fx(ws.value_unsafe), "wi": fx(wi.value_unsafe),
        "jsa": cx(js.jsa(*ws, *wi)), "jsi": fx(*(js.jsi(*ws, *wi) / one)), "sing": fx(*(js.jsi_singles(*ws, *wi) / one)),
        "jsa_n": cx(js.jsa_normalized(*ws, *wi)), "jsi_n": fx(js.jsi_normalized(*ws, *wi)), "sing_n": fx(js.jsi_singles_normalized(*ws, *wi)),
      }));
    }
    // range variants
    let r_jsa_n = js.jsa_normalized_range(fs);
    let r_jsi_n = js.jsi_normalized_range(fs);
    let r_sing_n = js.jsi_singles_normalized_range(fs);
    let r_jsa = js.jsa_range(fs);
    let r_jsi = js.jsi_range(fs);
    let r_sing = js.jsi_singles_range(fs);
    // idler singles: reference through the swapped setup's own optimum
    let r_isn = js.jsi_singles_idler_normalized_range(fs);
    let r_is = js.jsi_singles_idler_range(fs);
    let swapped = s.clone().with_swapped_signal_idler();
    let sw_js = swapped.joint_spectrum(integ);
    // the exchange built independently from the public fields: beams, waist positions and the type's two product polarizations
    // change places, everything else stays
    let swap_as_specified = {
      let mut e = s.clone();
      e.signal = s.idler.clone().as_beam().into();
      e.idler = s.signal.clone().as_beam().into();
      e.signal_waist_position = s.idler_waist_position;
      e.idler_waist_position = s.signal_waist_position;
      e.crystal_setup.pm_type = match s.crystal_setup.pm_type {
        PMType::Type2_e_eo => PMType::Type2_e_oe,
        PMType::Type2_e_oe => PMType::Type2_e_eo,
        t => t,
      };
      swapped == e || *s != *s
    };
    let sw_o = swapped.clone().try_as_optimum().ok();
    let (sw_ref, sw_vals): (f64, Vec<f64>) = match &sw_o {
      Some(o) => {
        let j = o.joint_spectrum(integ);
        (*(j.jsi_singles(o.signal.frequency(), o.idler.frequency()) / one),
         pts[..npts_grid].iter().map(|(ws, wi)| *(sw_js.jsi_singles(*wi, *ws) / one)).collect())
      }
      None => (f64::NAN, vec![]),
    };
    json!({
      "class": "ok", "integrator": if integ_default { "default" } else { "simpson10" }, "ref_jsa": fx(ref_jsa), "ref_jsi": fx(ref_jsi), "ref_sing": fx(ref_sing), "rows": rows, "ngrid": npts_grid,
      "range": {"jsa_n": r_jsa_n.iter().map(|z| cx(*z)).collect::<Vec<_>>(), "jsi_n": fxs(&r_jsi_n), "sing_n": fxs(&r_sing_n),
                "jsa": r_jsa.iter().map(|z| cx(*z)).collect::<Vec<_>>(),
                "jsi": fxs(&r_jsi.iter().map(|x| *(*x / one)).collect::<Vec<_>>()),
                "sing": fxs(&r_sing.iter().map(|x| *(*x / one)).collect::<Vec<_>>()),
                "idler_sing_n": fxs(&r_isn), "idler_sing": fxs(&r_is.iter().map(|x| *(*x / one)).collect::<Vec<_>>())},
      "swapped": {"ref_sing": fx(sw_ref), "sing": fxs(&sw_vals),
                  // C20_swap_involutive / C20_idler_of_swapped_is_signal: swapping twice gives the setup back, so the idler singles of the
                  // swapped setup's spectrum are the signal singles of this one at the exchanged frequencies
                  "twice_same": swapped.clone().with_swapped_signal_idler() == *s,
                  "as_specified": swap_as_specified,
                  "idler_sing_n_of_swapped": fxs(&sw_js.jsi_singles_idler_normalized_range(fs)),
                  "sing_n_exchanged": fxs(&pts[..npts_grid].iter().map(|(ws, wi)| js.jsi_singles_normalized(*wi, *ws)).collect::<Vec<_>>())},
      "centre": {"jsa_n_abs": fx(jso.jsa_normalized(w0s, w0i).norm()), "jsi_n": fx(jso.jsi_normalized(w0s, w0i)),
                 "sing_n": fx(jso.jsi_singles_normalized(w0s, w0i))},
    })
  });
  m.insert("spectrum".into(), match sp { Ok(v) => v, Err((msg, loc)) => json!({"class": "panic", "msg": msg, "loc": loc}) });
  // sweep
  let sw = guarded_loc(|| {
    let th = *(s.crystal_setup.theta / DEG);
    let w = *(s.signal.waist().x / (MICRO * M));
    let steps = Steps2D((th - 0.5, th + 0.5, 2), (w * 0.9, w * 1.1, 2));
    let raw = SPDCIter::try_new(s.clone(), "crystal.theta_deg", "signal.waist_um", steps).unwrap().jsi_values(integ);
    let nrm = SPDCIter::try_new(s.clone(), "crystal.theta_deg", "signal.waist_um", steps).unwrap().jsi_values_normalized(integ);
    let setups: Vec<Value> = SPDCIter::try_new(s.clone(), "crystal.theta_deg", "signal.waist_um", steps).unwrap().into_iter()
      .map(|x| {
        let js = x.joint_spectrum(integ);
        fx(*(js.jsi(x.signal.frequency(), x.idler.frequency()) / JSIUnits::new(1.)))
      }).collect();
    // a second sweep that STARTS at the base setup: every swept setup whose optimum is (bit for bit) the base's optimum must get
    // from the sweep the value its own JointSpectrum reports at its centre (C20_sweep_is_spectrum)
    let steps0 = Steps2D((th, th + 0.5, 2), (w, w * 1.1, 2));
    let nrm0 = SPDCIter::try_new(s.clone(), "crystal.theta_deg", "signal.waist_um", steps0).unwrap().jsi_values_normalized(integ);
    let base_opt = s.clone().try_as_optimum().ok();
    let own: Vec<Value> = SPDCIter::try_new(s.clone(), "crystal.theta_deg", "signal.waist_um", steps0).unwrap().into_iter()
      .map(|x| {
        let same_opt = base_opt.is_some() && x.clone().try_as_optimum().ok() == base_opt;
        let js = x.joint_spectrum(integ);
        json!({"same_opt": same_opt, "same_setup": x == *s, "jsi_n": fx(js.jsi_normalized(x.signal.frequency(), x.idler.frequency()))})
      }).collect();
    // a third sweep whose base is the OPTIMISED setup and which starts at it: that entry must be 1 (C20_sweep_unit_of_optimised_base)
    let tho = *(so.crystal_setup.theta / DEG);
    let wo = *(so.signal.waist().x / (MICRO * M));
    let steps_o = Steps2D((tho, tho + 0.5, 2), (wo, wo * 1.1, 2));
    let nrm_o = SPDCIter::try_new(so.clone(), "crystal.theta_deg", "signal.waist_um", steps_o).unwrap().jsi_values_normalized(integ);
    let first_o = SPDCIter::try_new(so.clone(), "crystal.theta_deg", "signal.waist_um", steps_o).unwrap().into_iter().next();
    let of_optimum = json!({"first_is_base": first_o.as_ref() == Some(&so), "normalized0": fx(nrm_o[0])});
    json!({"class": "ok", "raw": fxs(&raw), "normalized": fxs(&nrm), "per_setup_jsi": setups, "from_base": {"normalized": fxs(&nrm0), "own": own},
           "of_optimum": of_optimum})
  });
  m.insert("sweep".into(), match sw { Ok(v) => v, Err((msg, loc)) => json!({"class": "panic", "msg": msg, "loc": loc}) });
  Value::Object(m)
}

fn targeted() -> Vec<(&'static str, Value)> {
  let base = |theta: Value, pp: Value, idler: Value, sig_theta: f64, counter: bool| {
    json!({
      "crystal": {"kind": "KTP", "pm_type": "e->eo", "phi_deg": 0, "theta_deg": theta, "length_um": 2000, "temperature_c": 20, "counter_propagation": counter},
      "pump": {"wavelength_nm": 775, "waist_um": 100, "bandwidth_nm": 5.35, "average_power_mw": 1},
      "signal": {"wavelength_nm": 1550, "phi_deg": 0, "theta_deg": sig_theta, "waist_um": 100, "waist_position_um": "auto"},
      "idler": idler, "periodic_poling": pp, "deff_pm_per_volt": 7.6
    })
  };
  let ppa = json!({"poling_period_um": "auto"});
  let idl = |wl: f64| json!({"wavelength_nm": wl, "phi_deg": 180, "theta_deg": 0, "waist_um": 80});
  vec![
    ("reference:pp_auto", base(json!(90), ppa.clone(), json!("auto"), 0., false)),
    ("reference:no_pp", base(json!(40), Value::Null, json!("auto"), 2., false)),
    ("reference:pp_auto:default_integrator", base(json!(90), ppa.clone(), json!("auto"), 0.5, false)),
    ("reference:counter_propagation:pp_auto", base(json!(90), ppa.clone(), json!("auto"), 0., true)),
    ("explicit_idler:energy_conserving", base(json!(90), ppa.clone(), idl(1550.), 0., false)),
    ("explicit_idler:other_wavelength:pp", base(json!(90), ppa.clone(), idl(1500.), 0., false)),
    ("explicit_idler:other_wavelength:no_pp", base(json!(40), Value::Null, idl(1600.), 1.5, false)),
    ("nondegenerate:no_pp", json!({
      "crystal": {"kind": "BBO_1", "pm_type": "e->eo", "phi_deg": 0, "theta_deg": 35, "length_um": 1500, "temperature_c": 25},
      "pump": {"wavelength_nm": 405, "waist_um": 120, "bandwidth_nm": 2.0, "average_power_mw": 5},
      "signal": {"wavelength_nm": 760, "phi_deg": 0, "theta_deg": 1.0, "waist_um": 90, "waist_position_um": "auto"},
      "idler": "auto", "deff_pm_per_volt": 2.0
    })),
    ("nondegenerate:pp_auto", json!({
      "crystal": {"kind": "KTP", "pm_type": "e->eo", "phi_deg": 0, "theta_deg": 90, "length_um": 5000, "temperature_c": 40},
      "pump": {"wavelength_nm": 532, "waist_um": 100, "bandwidth_nm": 1.0, "average_power_mw": 10},
      "signal": {"wavelength_nm": 900, "phi_deg": 0, "theta_deg": 0.5, "waist_um": 70},
      "periodic_poling": {"poling_period_um": "auto"}, "deff_pm_per_volt": 5.0
    })),
    ("noncollinear:pp_explicit", base(json!(90), json!({"poling_period_um": 46.2, "apodization": {"kind": "Gaussian", "parameter": {"fwhm_um": 1500}}}), json!("auto"), 1., false)),
  ]
}

pub fn run(args: &[String]) {
  install_hook();
  if args.first().map(|s| s.as_str()) == Some("replay") {
    let mut text = String::new();
    use std::io::Read;
    let _ = std::io::stdin().read_to_string(&mut text);
    emit(json!({"kind": "units", "u": units_json()}));
    if let Ok(j) = serde_json::from_str::<Value>(&text) {
      match setup_from(&j) {
        Some(s) => emit(observe(0, vec!["replay".into()], &j, &s, true)),
        None => emit(json!({"kind": "error", "msg": "the configuration does not build a setup"})),
      }
    }
    return;
  }
  let seed = arg_u64(args, 0, 1);
  let n = arg_u64(args, 1, 40) as usize;
  let nspec = arg_u64(args, 2, 10) as usize;
  let mut rng = Rng::new(seed);
  emit(json!({"kind": "units", "u": units_json()}));
  let mut id = 0usize;
  for (name, j) in targeted() {
    if let Some(s) = setup_from(&j) {
      emit(observe(id, vec![name.to_string()], &j, &s, true));
    } else {
      emit(json!({"kind": "skipped", "id": id, "tags": [name]}));
    }
    id += 1;
  }
  let mut done_spec = 0usize;
  let mut made = 0usize;
  let mut tries = 0usize;
  while made < n && tries < 20 * n + 100 {
    tries += 1;
    let mut tags = vec![];
    let j = gen_config(&mut rng, 0, &mut tags);
    if let Some(s) = setup_from(&j) {
      let with_spec = done_spec < nspec;
      let o = observe(id, tags, &j, &s, with_spec);
      if with_spec && o.get("spectrum").is_some() {
        done_spec += 1;
      }
      emit(o);
      id += 1;
      made += 1;
    }
  }
}
