//! C14 observations: 1-D / 2-D grids and their double-ended iterators, index maps, transpose_vec, the three
//! (signal, idler) space representations and their conversions, and the range evaluators of JointSpectrum.
//! Consumer: props/c14.py.  usage: vharness c14 <seed> <n> [grid|range|all]
#![allow(unused_imports, dead_code)]
use crate::common::*;
use serde_json::{json, Value};
use spdcalc::dim::ucum::{M, RAD, S};
use spdcalc::dim::Dimensioned;
use spdcalc::jsa::{
  FrequencySpace, IntoSignalIdlerIterator, SignalIdlerFrequencyArray, SignalIdlerWavelengthArray,
  SumDiffFrequencySpace, WavelengthSpace,
};
use spdcalc::math::Integrator;
use spdcalc::utils::{get_1d_index, get_2d_indices, transpose_vec, Iterator2D, Steps, Steps2D};
use spdcalc::{Complex, Frequency, Wavelength, SPDC};

static CURRENT: std::sync::Mutex<Option<Value>> = std::sync::Mutex::new(None);
/// remember the input of the case being evaluated: a panic anywhere in the case is reported with it
fn set_input(v: Value) {
  *CURRENT.lock().unwrap() = Some(v);
}
fn case<F: FnOnce()>(name: &str, f: F) {
  if let Err(e) = std::panic::catch_unwind(std::panic::AssertUnwindSafe(f)) {
    let msg = if let Some(s) = e.downcast_ref::<&str>() { s.to_string() } else if let Some(s) = e.downcast_ref::<String>() { s.clone() } else { "panic".to_string() };
    let input = CURRENT.lock().unwrap().clone();
    emit(json!({"kind": "case_panic", "case": name, "message": msg, "input": input}));
  }
}

fn hz(x: f64) -> Frequency {
  x * RAD / S
}
fn fv(x: Frequency) -> f64 {
  *x.value_unsafe()
}
fn wv(x: Wavelength) -> f64 {
  *x.value_unsafe()
}

/// endpoints of one axis, by class
fn endpoints(rng: &mut Rng, cls: &str) -> (f64, f64) {
  match cls {
    "asc" => {
      let a = rng.range(-10., 10.);
      (a, a + rng.range(0.01, 20.))
    }
    "desc" => {
      let a = rng.range(-10., 10.);
      (a, a - rng.range(0.01, 20.))
    }
    "degenerate" => {
      let a = rng.range(-10., 10.);
      (a, a)
    }
    "dyadic" => {
      // small integers: with n-1 a power of two every intermediate of Steps::value is exact in binary64
      let a = (rng.below(64) as f64) - 32.;
      let b = (rng.below(64) as f64) - 32.;
      (a, b)
    }
    "freq" => {
      let a = rng.range(1.0e15, 1.4e15);
      (a, a + rng.range(1e12, 2e14))
    }
    "wavelength" => {
      let a = rng.range(0.4e-6, 3e-6);
      (a, a + rng.range(1e-9, 400e-9))
    }
    "mixed" => (-rng.range(0.1, 5.), rng.range(0.1, 5.)),
    _ => (rng.log_range(1e-9, 1e9), -rng.log_range(1e-9, 1e9)),
  }
}

const CLASSES: [&str; 8] = ["asc", "desc", "degenerate", "dyadic", "freq", "wavelength", "mixed", "wide"];

fn count_for(rng: &mut Rng, k: usize, cls: &str) -> usize {
  if cls == "dyadic" {
    return [2usize, 3, 5, 9, 17, 33, 65, 129, 257][rng.below(9)];
  }
  match k % 8 {
    0 => 0,
    1 => 1,
    2 => 2,
    3 => 3,
    4 => 300,
    _ => rng.below(301),
  }
}

fn opt_fx(v: Option<f64>) -> Value {
  match v {
    Some(x) => fx(x),
    None => Value::Null,
  }
}

fn steps_case(rng: &mut Rng, k: usize) {
  let cls = CLASSES[k % CLASSES.len()];
  let (s, e) = endpoints(rng, cls);
  let n = count_for(rng, k / CLASSES.len(), cls);
  set_input(json!({"call": format!("Steps({:?}, {:?}, {})", s, e, n), "s": fx(s), "e": fx(e), "n": n}));
  let st = Steps(s, e, n);
  let fwd: Vec<f64> = st.into_iter().collect();
  let rev: Vec<f64> = st.into_iter().rev().collect();
  let by_value: Vec<f64> = (0..n).map(|i| st.value(i)).collect();
  // random interleaving of next / next_back, three calls more than there are items
  let mut it = st.into_iter();
  let len0 = it.len();
  let mut sched = String::new();
  let mut mixed: Vec<Value> = vec![];
  for _ in 0..(n + 3) {
    if rng.coin() {
      sched.push('F');
      mixed.push(opt_fx(it.next()));
    } else {
      sched.push('B');
      mixed.push(opt_fx(it.next_back()));
    }
  }
  // the same range over a dimensioned quantity
  let std = Steps(s * M, e * M, n);
  let fwd_dim: Vec<f64> = std.into_iter().map(wv).collect();
  let dw = if n >= 2 { Some(st.division_width()) } else { None };
  emit(json!({"kind": "steps", "cls": cls, "s": fx(s), "e": fx(e), "n": n, "fwd": fxs(&fwd), "rev": fxs(&rev),
    "by_value": fxs(&by_value), "sched": sched, "mixed": mixed, "len": len0, "fwd_dim": fxs(&fwd_dim), "dw": opt_fx(dw)}));
}

fn flat(p: &[(f64, f64)]) -> Value {
  let mut v = Vec::with_capacity(2 * p.len());
  for (x, y) in p {
    v.push(fx(*x));
    v.push(fx(*y));
  }
  Value::Array(v)
}

fn steps2d_case(rng: &mut Rng, k: usize, full_limit: usize) {
  let clsx = CLASSES[k % CLASSES.len()];
  let clsy = CLASSES[(k / 3 + 1) % CLASSES.len()];
  let (x0, x1) = endpoints(rng, clsx);
  let (y0, y1) = endpoints(rng, clsy);
  let (nx, ny) = match k % 10 {
    0 => (0, rng.below(5)),
    1 => (rng.below(5), 0),
    2 => (1, 1 + rng.below(8)),
    3 => (1 + rng.below(8), 1),
    4 => (2, 3),
    5 => (300, 1 + rng.below(300)),
    6 => (1 + rng.below(300), 300),
    _ => (count_for(rng, 7, clsx), count_for(rng, 7, clsy)),
  };
  set_input(json!({"call": format!("Steps2D(({:?}, {:?}, {}), ({:?}, {:?}, {}))", x0, x1, nx, y0, y1, ny), "x0": fx(x0), "x1": fx(x1), "nx": nx, "y0": fx(y0), "y1": fx(y1), "ny": ny}));
  let g = Steps2D((x0, x1, nx), (y0, y1, ny));
  let total = nx * ny;
  let it = g.into_iter();
  let len0 = it.len();
  let pts: Vec<(f64, f64)> = it.collect();
  let count = pts.len();
  let mut o = json!({"kind": "steps2d", "clsx": clsx, "clsy": clsy, "x0": fx(x0), "x1": fx(x1), "nx": nx,
    "y0": fx(y0), "y1": fx(y1), "ny": ny, "len": len0, "steps_len": g.len(), "count": count});
  // Rust-vs-Rust facts that need the whole sequence are reduced here for the large grids; the small ones are printed in full
  let by_value_same = (0..count.min(total)).all(|i| {
    let v = g.value(i);
    v.0.to_bits() == pts[i].0.to_bits() && v.1.to_bits() == pts[i].1.to_bits()
  });
  let rev: Vec<(f64, f64)> = g.into_iter().rev().collect();
  let rev_same = rev.len() == count
    && (0..count).all(|i| rev[count - 1 - i].0.to_bits() == pts[i].0.to_bits() && rev[count - 1 - i].1.to_bits() == pts[i].1.to_bits());
  // dimensioned grid gives the same numbers
  let gd = Steps2D((hz(x0), hz(x1), nx), (hz(y0), hz(y1), ny));
  let ptsd: Vec<(f64, f64)> = gd.into_iter().map(|(a, b)| (fv(a), fv(b))).collect();
  let dim_same = ptsd.len() == count && (0..count).all(|i| ptsd[i].0.to_bits() == pts[i].0.to_bits() && ptsd[i].1.to_bits() == pts[i].1.to_bits());
  o["by_value_same"] = json!(by_value_same);
  o["rev_same"] = json!(rev_same);
  o["dim_same"] = json!(dim_same);
  if count <= full_limit {
    o["pts"] = flat(&pts);
    // an interleaving
    let mut it = g.into_iter();
    let mut sched = String::new();
    let mut mixed: Vec<Value> = vec![];
    for _ in 0..(count + 2) {
      let r = if rng.coin() {
        sched.push('F');
        it.next()
      } else {
        sched.push('B');
        it.next_back()
      };
      match r {
        Some((x, y)) => {
          mixed.push(fx(x));
          mixed.push(fx(y));
        }
        None => {
          mixed.push(Value::Null);
          mixed.push(Value::Null);
        }
      }
    }
    o["sched"] = json!(sched);
    o["mixed"] = Value::Array(mixed);
  } else {
    // sample: first row, last point, random indices
    let mut idx: Vec<usize> = (0..nx.min(count)).collect();
    idx.push(count - 1);
    idx.push(nx.min(count - 1));
    for _ in 0..200 {
      idx.push(rng.below(count));
    }
    let sp: Vec<(f64, f64)> = idx.iter().map(|i| pts[*i]).collect();
    o["sample_idx"] = json!(idx);
    o["sample_pts"] = flat(&sp);
    // whole-sequence facts: rows share y bit-exactly, columns share x bit-exactly
    let rows_ok = (0..count).all(|i| pts[i].1.to_bits() == pts[(i / nx) * nx].1.to_bits());
    let cols_ok = (0..count).all(|i| pts[i].0.to_bits() == pts[i % nx].0.to_bits());
    o["rows_share_y"] = json!(rows_ok);
    o["cols_share_x"] = json!(cols_ok);
  }
  emit(o);
}

fn idx_cases(rng: &mut Rng, n: usize) {
  for cols in 1..=12usize {
    let mut rows2d = vec![];
    for index in 0..(cols * 12) {
      let (c, r) = get_2d_indices(index, cols);
      rows2d.push(json!([index, c, r]));
    }
    let mut rows1d = vec![];
    for col in 0..cols {
      for row in 0..12usize {
        rows1d.push(json!([col, row, get_1d_index(col, row, cols)]));
      }
    }
    emit(json!({"kind": "idx", "cols": cols, "to2d": rows2d, "to1d": rows1d}));
  }
  for _ in 0..n {
    let cols = 1 + rng.below(100000);
    let index = rng.below(1usize << 40);
    let (c, r) = get_2d_indices(index, cols);
    let col = rng.below(cols);
    let row = rng.below(1 << 20);
    emit(json!({"kind": "idx", "cols": cols, "to2d": [[index, c, r]], "to1d": [[col, row, get_1d_index(col, row, cols)]]}));
  }
  // the documented precondition of get_1d_index: col < cols
  let r = guarded(|| get_1d_index(3, 0, 3));
  emit(json!({"kind": "idx_guard", "call": "get_1d_index(3,0,3)", "panicked": r.is_err()}));
}

fn transpose_cases(rng: &mut Rng) {
  for rows in 1..=12usize {
    for cols in 1..=12usize {
      let v: Vec<u32> = (0..(rows * cols) as u32).collect();
      let r = guarded(move || transpose_vec(v, cols));
      match r {
        Ok(out) => emit(json!({"kind": "transpose", "rows": rows, "cols": cols, "out": out, "panic": Value::Null})),
        Err(m) => emit(json!({"kind": "transpose", "rows": rows, "cols": cols, "out": Value::Null, "panic": m})),
      }
    }
  }
  // outside the matrix case: num_cols = 0, and lengths that are not a multiple of num_cols
  for len in 0..=13usize {
    for cols in 0..=4usize {
      let v: Vec<u32> = (0..len as u32).collect();
      let r = guarded(move || transpose_vec(v, cols));
      match r {
        Ok(out) => emit(json!({"kind": "transpose_ragged", "len": len, "cols": cols, "out": out, "panic": Value::Null})),
        Err(m) => emit(json!({"kind": "transpose_ragged", "len": len, "cols": cols, "out": Value::Null, "panic": m})),
      }
    }
  }
  // random contents on square shapes (the values must only be moved, never combined)
  for _ in 0..6 {
    let n = 1 + rng.below(12);
    let v: Vec<f64> = (0..n * n).map(|_| rng.range(-1., 1.)).collect();
    let v2 = v.clone();
    let r = guarded(move || transpose_vec(v2, n));
    emit(json!({"kind": "transpose_f", "n": n, "inp": fxs(&v), "out": r.ok().map(|o| fxs(&o))}));
  }
}

fn axis_json(a: (f64, f64, usize)) -> Value {
  json!([fx(a.0), fx(a.1), a.2])
}
fn fs_json(f: &FrequencySpace) -> Value {
  let s = f.as_steps();
  json!([axis_json((fv(s.0 .0), fv(s.0 .1), s.0 .2)), axis_json((fv(s.1 .0), fv(s.1 .1), s.1 .2))])
}
fn sd_json(f: &SumDiffFrequencySpace) -> Value {
  let s = f.as_steps();
  json!([axis_json((fv(s.0 .0), fv(s.0 .1), s.0 .2)), axis_json((fv(s.1 .0), fv(s.1 .1), s.1 .2))])
}
fn ws_json(f: &WavelengthSpace) -> Value {
  let s = f.as_steps();
  json!([axis_json((wv(s.0 .0), wv(s.0 .1), s.0 .2)), axis_json((wv(s.1 .0), wv(s.1 .1), s.1 .2))])
}
fn si_json<T: IntoSignalIdlerIterator>(t: T) -> Value {
  let p: Vec<(f64, f64)> = t.into_signal_idler_iterator().map(|(a, b)| (fv(a), fv(b))).collect();
  flat(&p)
}

fn space_case(rng: &mut Rng, k: usize) {
  let nx = if k % 5 == 0 { rng.below(301) } else { 1 + rng.below(6) };
  let ny = if k % 5 == 0 { rng.below(301) } else { 1 + rng.below(6) };
  // wavelength space; every fourth one is given with descending axes
  let (mut a0, mut a1) = endpoints(rng, "wavelength");
  let (mut b0, mut b1) = endpoints(rng, "wavelength");
  if k % 4 == 3 {
    std::mem::swap(&mut a0, &mut a1);
    std::mem::swap(&mut b0, &mut b1);
  }
  set_input(json!({"call": format!("WavelengthSpace::new(({:?} m, {:?} m, {}), ({:?} m, {:?} m, {})) and its conversions / iterators", a0, a1, nx, b0, b1, ny)}));
  let ws = WavelengthSpace::new((a0 * M, a1 * M, nx), (b0 * M, b1 * M, ny));
  let fs = ws.as_frequency_space();
  let ws2 = fs.as_wavelength_space();
  let sd = fs.as_sum_diff_space();
  let fs2 = sd.as_frequency_space();
  let sd2 = fs2.as_sum_diff_space();
  let sdw = ws.as_sum_diff_space();
  let wsd = sd.as_wavelength_space();
  // the From impls (what `.into()` calls), one for every ordered pair of representations
  let fs_from_ws: FrequencySpace = ws.into();
  let fs_from_sd: FrequencySpace = sd.into();
  let sd_from_ws: SumDiffFrequencySpace = ws.into();
  let sd_from_fs: SumDiffFrequencySpace = fs.into();
  let ws_from_fs: WavelengthSpace = fs.into();
  let ws_from_sd: WavelengthSpace = sd.into();
  let ws_from_steps: WavelengthSpace = ws.as_steps().into();
  let mut o = json!({"kind": "space", "from": "wavelength", "ws_raw": [axis_json((a0, a1, nx)), axis_json((b0, b1, ny))], "ws": ws_json(&ws), "fs": fs_json(&fs), "ws2": ws_json(&ws2),
    "sd": sd_json(&sd), "fs2": fs_json(&fs2), "sd2": sd_json(&sd2), "sd_from_ws": sd_json(&sdw), "ws_from_sd": ws_json(&wsd),
    "into": {"fs_from_ws": fs_json(&fs_from_ws), "fs_from_sd": fs_json(&fs_from_sd), "sd_from_ws": sd_json(&sd_from_ws), "sd_from_fs": sd_json(&sd_from_fs),
             "ws_from_fs": ws_json(&ws_from_fs), "ws_from_sd": ws_json(&ws_from_sd), "ws_from_steps": ws_json(&ws_from_steps)}});
  if nx * ny <= 36 {
    o["ws_si"] = si_json(ws);
    o["fs_si"] = si_json(fs);
    o["sd_si"] = si_json(sd);
    o["fs2_si"] = si_json(fs2);
  }
  emit(o);
  // frequency space with equal spans (the documented case in which frequency -> sum/diff -> frequency is the identity)
  let (f0, f1) = endpoints(rng, "freq");
  let g0 = rng.range(1.0e15, 1.4e15);
  let equal = k % 2 == 0;
  // dyadic endpoints make the equal-span round trip exact in binary64
  let q = 1.0e3 * 1024.;
  let (f0, f1, g0) = ((f0 / q).round() * q, (f1 / q).round() * q, (g0 / q).round() * q);
  let g1 = if equal { g0 + (f1 - f0) } else { g0 + (f1 - f0) * rng.range(1.2, 3.) };
  let fs = FrequencySpace::new((hz(f0), hz(f1), nx), (hz(g0), hz(g1), ny));
  let sd = fs.as_sum_diff_space();
  let fs2 = sd.as_frequency_space();
  let sd2 = fs2.as_sum_diff_space();
  let ws = fs.as_wavelength_space();
  let fs3 = ws.as_frequency_space();
  let mut o = json!({"kind": "space", "from": "frequency", "equal_spans": equal, "fs_raw": [axis_json((f0, f1, nx)), axis_json((g0, g1, ny))], "fs": fs_json(&fs), "sd": sd_json(&sd), "fs2": fs_json(&fs2),
    "sd2": sd_json(&sd2), "ws": ws_json(&ws), "fs3": fs_json(&fs3)});
  if nx * ny <= 36 {
    o["fs_si"] = si_json(fs);
    o["sd_si"] = si_json(sd);
    o["ws_si"] = si_json(ws);
  }
  emit(o);
  // a sum/diff space given directly
  let (s0, s1) = endpoints(rng, "freq");
  let d1 = rng.range(1e12, 1e14);
  let sd = SumDiffFrequencySpace::new((hz(s0), hz(s1), nx), (hz(-d1), hz(d1), ny));
  let fs = sd.as_frequency_space();
  let sd2 = fs.as_sum_diff_space();
  let fs2 = sd2.as_frequency_space();
  emit(json!({"kind": "space", "from": "sumdiff", "sd_raw": [axis_json((s0, s1, nx)), axis_json((-d1, d1, ny))], "sd": sd_json(&sd), "fs": fs_json(&fs), "sd2": sd_json(&sd2), "fs2": fs_json(&fs2)}));
}

/// the flat (signal, idler) arrays: sequential and parallel iterator, even and odd lengths
fn array_cases(rng: &mut Rng) {
  use rayon::iter::ParallelIterator;
  for len in 0..=9usize {
    let f: Vec<f64> = (0..len).map(|_| rng.range(1.0e15, 1.4e15)).collect();
    let w: Vec<f64> = (0..len).map(|_| rng.range(0.4e-6, 3e-6)).collect();
    let fa = SignalIdlerFrequencyArray(f.iter().map(|x| hz(*x)).collect());
    let wa = SignalIdlerWavelengthArray(w.iter().map(|x| *x * M).collect());
    let fseq: Vec<(f64, f64)> = fa.clone().into_signal_idler_iterator().map(|(a, b)| (fv(a), fv(b))).collect();
    let fpar: Vec<(f64, f64)> = fa.into_signal_idler_par_iterator().map(|(a, b)| (fv(a), fv(b))).collect();
    let wseq: Vec<(f64, f64)> = wa.clone().into_signal_idler_iterator().map(|(a, b)| (fv(a), fv(b))).collect();
    let wpar: Vec<(f64, f64)> = wa.into_signal_idler_par_iterator().map(|(a, b)| (fv(a), fv(b))).collect();
    emit(json!({"kind": "array_iter", "len": len, "freq_list": fxs(&f), "freq_seq": flat(&fseq), "freq_par": flat(&fpar),
      "wl_list": fxs(&w), "wl_seq": flat(&wseq), "wl_par": flat(&wpar)}));
  }
}

fn cx(v: &[Complex<f64>]) -> Value {
  let mut out = Vec::with_capacity(2 * v.len());
  for z in v {
    out.push(fx(z.re));
    out.push(fx(z.im));
  }
  Value::Array(out)
}

fn spdc_for(k: usize) -> SPDC {
  if k % 2 == 0 {
    SPDC::default()
  } else {
    SPDC::from_json(serde_json::json!({
      "crystal": {"kind": "KTP", "pm_type": "e->eo", "phi_deg": 0, "theta_deg": 90, "length_um": 14000, "temperature_c": 20},
      "pump": {"wavelength_nm": 775, "waist_um": 200, "bandwidth_nm": 0.5, "average_power_mw": 300},
      "signal": {"wavelength_nm": 1550, "phi_deg": 0, "theta_external_deg": 0, "waist_um": 100, "waist_position_um": "auto"},
      "idler": "auto",
      "periodic_poling": {"poling_period_um": "auto"},
      "deff_pm_per_volt": 7.6
    }))
    .unwrap()
  }
}

/// range evaluators against point-by-point evaluation over the sequential iterator, in the three representations and as flat lists
fn range_case(rng: &mut Rng, k: usize) {
  let spdc = spdc_for(k);
  let integrator = Integrator::Simpson { divs: 10 + 2 * rng.below(6) };
  let sp = spdc.joint_spectrum(integrator);
  let nx = 2 + rng.below(6);
  let ny = 2 + rng.below(6);
  let base = spdc.optimum_range(8).as_steps();
  let shrink = rng.range(0.6, 1.0);
  let cxs = 0.5 * (fv(base.0 .0) + fv(base.0 .1));
  let cys = 0.5 * (fv(base.1 .0) + fv(base.1 .1));
  let hx = 0.5 * shrink * (fv(base.0 .1) - fv(base.0 .0));
  let hy = 0.5 * shrink * (fv(base.1 .1) - fv(base.1 .0));
  let fs = FrequencySpace::new((hz(cxs - hx), hz(cxs + hx), nx), (hz(cys - hy), hz(cys + hy), ny));
  let ws = fs.as_wavelength_space();
  let sd = fs.as_sum_diff_space();
  let singles = k % 3 == 0;
  let emit_rep = |rep: &str, pts: Vec<(Frequency, Frequency)>, jsa: Vec<Complex<f64>>, jsi: Vec<f64>, jsin: Vec<f64>, jsis: Option<Vec<f64>>,
                      flat_jsi: Vec<f64>, grid: Value| {
    let jsa_pt: Vec<Complex<f64>> = pts.iter().map(|(a, b)| sp.jsa(*a, *b)).collect();
    let jsi_pt: Vec<f64> = pts.iter().map(|(a, b)| *(sp.jsi(*a, *b).value_unsafe())).collect();
    let jsin_pt: Vec<f64> = pts.iter().map(|(a, b)| sp.jsi_normalized(*a, *b)).collect();
    let jsis_pt: Option<Vec<f64>> = jsis.as_ref().map(|_| pts.iter().map(|(a, b)| *(sp.jsi_singles(*a, *b).value_unsafe())).collect());
    let p: Vec<(f64, f64)> = pts.iter().map(|(a, b)| (fv(*a), fv(*b))).collect();
    emit(json!({"kind": "range", "rep": rep, "spdc": k % 2, "nx": nx, "ny": ny, "grid": grid, "pts": flat(&p),
      "jsa": cx(&jsa), "jsa_pt": cx(&jsa_pt), "jsi": fxs(&jsi), "jsi_pt": fxs(&jsi_pt), "jsin": fxs(&jsin), "jsin_pt": fxs(&jsin_pt),
      "jsis": jsis.as_ref().map(|v| fxs(v)), "jsis_pt": jsis_pt.as_ref().map(|v| fxs(v)), "flat_jsi": fxs(&flat_jsi)}));
  };
  let un = |v: Vec<spdcalc::JSIUnits<f64>>| -> Vec<f64> { v.iter().map(|x| *x.value_unsafe()).collect() };
  {
    let pts: Vec<(Frequency, Frequency)> = fs.into_signal_idler_iterator().collect();
    let flat_list: Vec<Frequency> = pts.iter().flat_map(|(a, b)| [*a, *b]).collect();
    emit_rep("frequency", pts, sp.jsa_range(fs), un(sp.jsi_range(fs)), sp.jsi_normalized_range(fs),
      if singles { Some(un(sp.jsi_singles_range(fs))) } else { None },
      un(sp.jsi_range(SignalIdlerFrequencyArray(flat_list))), fs_json(&fs));
  }
  {
    let pts: Vec<(Frequency, Frequency)> = ws.into_signal_idler_iterator().collect();
    let flat_list: Vec<Wavelength> = ws.as_steps().into_iter().flat_map(|(a, b)| [a, b]).collect();
    emit_rep("wavelength", pts, sp.jsa_range(ws), un(sp.jsi_range(ws)), sp.jsi_normalized_range(ws),
      if singles { Some(un(sp.jsi_singles_range(ws))) } else { None },
      un(sp.jsi_range(SignalIdlerWavelengthArray(flat_list))), ws_json(&ws));
  }
  {
    let pts: Vec<(Frequency, Frequency)> = sd.into_signal_idler_iterator().collect();
    let flat_list: Vec<Frequency> = pts.iter().flat_map(|(a, b)| [*a, *b]).collect();
    emit_rep("sumdiff", pts, sp.jsa_range(sd), un(sp.jsi_range(sd)), sp.jsi_normalized_range(sd), None,
      un(sp.jsi_range(SignalIdlerFrequencyArray(flat_list))), sd_json(&sd));
  }
}

/// every range function of the generated call table (Gen/Ranges.v) against point-by-point evaluation on the same code path:
/// an asymmetric (type-II) setup, a NON-square grid whose signal and idler axes differ, evaluated on a one-thread pool so that the
/// quadratures inside the singles spectra are reassociated identically (bit-exact comparison)
fn range_table_case(rng: &mut Rng, k: usize) {
  let which = if k % 3 == 2 { 0 } else { 1 };
  let spdc = spdc_for(which);
  let divs = 6 + 2 * rng.below(3);
  let integrator = Integrator::Simpson { divs };
  let nx = 2 + rng.below(3);
  let ny = nx + 1 + rng.below(2);
  let (nx, ny) = if rng.coin() { (nx, ny) } else { (ny, nx) };
  // every fourth case is degenerate: no point or a single point on one axis
  let (nx, ny) = match k % 8 { 3 => (1, ny), 7 => (nx, 0), _ => (nx, ny) };
  let base = spdc.optimum_range(8).as_steps();
  let cxs = 0.5 * (fv(base.0 .0) + fv(base.0 .1));
  let cys = 0.5 * (fv(base.1 .0) + fv(base.1 .1));
  let hx = 0.5 * rng.range(0.5, 0.9) * (fv(base.0 .1) - fv(base.0 .0));
  let hy = 0.5 * rng.range(0.2, 0.45) * (fv(base.1 .1) - fv(base.1 .0));
  // the two axes differ in centre offset, span and count: no (ws, wi) <-> (wi, ws) symmetry of the point set
  let fs = FrequencySpace::new((hz(cxs - 0.8 * hx), hz(cxs + 1.2 * hx), nx), (hz(cys - 1.3 * hy), hz(cys + 0.7 * hy), ny));
  let rep = ["frequency", "wavelength", "sumdiff"][k % 3];
  let (tx, rx) = std::sync::mpsc::channel();
  let spdc2 = spdc.clone();
  std::thread::spawn(move || {
    let pool = rayon::ThreadPoolBuilder::new().num_threads(1).build().unwrap();
    let out = pool.install(|| {
      let sp = spdc2.joint_spectrum(integrator);
      let sp_swapped = spdcalc::JointSpectrum::new(spdc2.clone().with_swapped_signal_idler(), integrator);
      let un = |v: Vec<spdcalc::JSIUnits<f64>>| -> Vec<f64> { v.iter().map(|x| *x.value_unsafe()).collect() };
      let ucx = |v: Vec<Complex<f64>>| -> Vec<f64> { v.iter().flat_map(|z| [z.re, z.im]).collect() };
      macro_rules! all_ranges {
        ($r:expr) => {{
          let pts: Vec<(Frequency, Frequency)> = $r.into_signal_idler_iterator().collect();
          let rows: Vec<(&'static str, usize, Vec<f64>, Vec<f64>)> = vec![
            ("jsa_range", 2, ucx(sp.jsa_range($r)), ucx(pts.iter().map(|(a, b)| sp.jsa(*a, *b)).collect())),
            ("jsa_normalized_range", 2, ucx(sp.jsa_normalized_range($r)), ucx(pts.iter().map(|(a, b)| sp.jsa_normalized(*a, *b)).collect())),
            ("jsi_range", 1, un(sp.jsi_range($r)), un(pts.iter().map(|(a, b)| sp.jsi(*a, *b)).collect())),
            ("jsi_normalized_range", 1, sp.jsi_normalized_range($r), pts.iter().map(|(a, b)| sp.jsi_normalized(*a, *b)).collect()),
            ("jsi_singles_range", 1, un(sp.jsi_singles_range($r)), un(pts.iter().map(|(a, b)| sp.jsi_singles(*a, *b)).collect())),
            ("jsi_singles_idler_range", 1, un(sp.jsi_singles_idler_range($r)), un(pts.iter().map(|(a, b)| sp_swapped.jsi_singles(*b, *a)).collect())),
            ("jsi_singles_normalized_range", 1, sp.jsi_singles_normalized_range($r), pts.iter().map(|(a, b)| sp.jsi_singles_normalized(*a, *b)).collect()),
            ("jsi_singles_idler_normalized_range", 1, sp.jsi_singles_idler_normalized_range($r),
              pts.iter().map(|(a, b)| sp_swapped.jsi_singles_normalized(*b, *a)).collect()),
          ];
          // how many points tell the argument orders apart (an oracle that cannot see a swapped argument pair is vacuous)
          let sens = pts.iter().filter(|(a, b)| sp_swapped.jsi_singles_normalized(*b, *a).to_bits() != sp_swapped.jsi_singles_normalized(*a, *b).to_bits()).count();
          let sens_own = pts.iter().filter(|(a, b)| sp.jsi_normalized(*a, *b).to_bits() != sp.jsi_normalized(*b, *a).to_bits()).count();
          // what jsi_singles_idler_normalized_range would return if it forgot to swap the arguments (used by the oracle's self-test)
          let wrong: Vec<f64> = pts.iter().map(|(a, b)| sp_swapped.jsi_singles_normalized(*a, *b)).collect();
          (pts, rows, sens, sens_own, wrong)
        }};
      }
      match rep {
        "frequency" => all_ranges!(fs),
        "wavelength" => {
          let ws = fs.as_wavelength_space();
          all_ranges!(ws)
        }
        _ => {
          let sd = fs.as_sum_diff_space();
          all_ranges!(sd)
        }
      }
    });
    let _ = tx.send(out);
  });
  match rx.recv_timeout(std::time::Duration::from_secs(600)) {
    Ok((pts, rows, sens, sens_own, wrong)) => {
      let p: Vec<(f64, f64)> = pts.iter().map(|(a, b)| (fv(*a), fv(*b))).collect();
      let fns: Vec<Value> = rows.iter().map(|(name, w, r, q)| json!({"fn": name, "width": w, "range": fxs(r), "pointwise": fxs(q)})).collect();
      emit(json!({"kind": "range_all", "rep": rep, "spdc": which, "divs": divs, "nx": nx, "ny": ny, "grid": fs_json(&fs), "pts": flat(&p), "fns": fns,
        "swapped_args_differ_idler": sens, "swapped_args_differ_own": sens_own,
        "selftest_idler_normalized_unswapped": fxs(&wrong)}));
    }
    Err(_) => emit(json!({"kind": "range_all_failed", "rep": rep, "spdc": which})),
  }
}

pub fn run(args: &[String]) {
  let seed = arg_u64(args, 0, 1);
  let n = arg_u64(args, 1, 4) as usize;
  let mode = args.get(2).map(|s| s.as_str()).unwrap_or("all");
  let mut rng = Rng::new(seed);
  if mode == "grid" || mode == "all" {
    for k in 0..(64 * n) {
      case("steps", || steps_case(&mut rng, k));
    }
    for k in 0..(20 * n) {
      case("steps2d", || steps2d_case(&mut rng, k, 1500));
    }
    // a seed-dependent number of further random ranges
    let extra = rng.below(24);
    for k in 0..extra {
      case("steps", || steps_case(&mut rng, 4 + 8 * k));
    }
    set_input(json!({"call": "SignalIdlerFrequencyArray / SignalIdlerWavelengthArray iterators, lengths 0..=9"}));
    case("arrays", || array_cases(&mut rng));
    // magnitudes at which start * (d - i) leaves the binary64 range (outside the guard of the value clauses)
    let big = Steps(1e306, 1.5e306, 300);
    emit(json!({"kind": "steps_overflow", "call": "Steps(1e306, 1.5e306, 300).value(1)", "value": fx(big.value(1)), "finite": big.value(1).is_finite()}));
    set_input(json!({"call": "get_2d_indices / get_1d_index tables"}));
    case("idx", || idx_cases(&mut rng, 50 * n));
    set_input(json!({"call": "transpose_vec on shapes up to 12x12"}));
    case("transpose", || transpose_cases(&mut rng));
    for k in 0..(10 * n) {
      case("space", || space_case(&mut rng, k));
    }
  }
  if mode == "range" || mode == "all" {
    for k in 0..n.max(2) {
      set_input(json!({"call": format!("range evaluators, case {} (harness c14::range_case)", k)}));
      case("range", || range_case(&mut rng, k));
    }
    for k in 0..n.max(4) {
      set_input(json!({"call": format!("all range functions vs pointwise, case {} (harness c14::range_table_case)", k)}));
      case("range_all", || range_table_case(&mut rng, k));
    }
  }
  emit(json!({"kind": "done", "mode": mode}));
}
