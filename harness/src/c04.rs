//! C04 observations.
//!   nm      — `math::nelder_mead_1d` on small cost functions (dyadic data), with the sequence of in-bounds evaluations
//!   poling  — `optimum_poling_period` / `PeriodicPoling::try_new_optimum` / `SPDC::assign_optimum_periodic_poling` / config "auto"
//!             on random setups; the unpoled mismatch, the residual mismatch at the returned period, and a *replica* run of
//!             nelder_mead_1d on the same cost function built from public API, with its evaluation table
//!   theta   — `CrystalSetup::optimum_theta` / `SPDC::assign_optimum_crystal_theta` / config "auto": returned angle, residual,
//!             a 0.25 degree scan of the signed longitudinal mismatch over [0, 90] degrees, replica run with table
//!   edge    — crystal lengths placed just below the exact collinear root 2 pi/|dkz0| (search for the seed-above-bound window)
#![allow(unused_imports, dead_code)]
use crate::c03::{f64_of, freq, gen_setup, met, pp_json, rad, setup_from_json, v3, wvec, Setup, PMS};
use crate::common::*;
use serde_json::{json, Value};
use spdcalc::beam::*;
use spdcalc::dim::ucum::{DEG, HZ, K, M, RAD, S, V, W};
use spdcalc::math::nelder_mead_1d;
use spdcalc::utils::{frequency_to_vacuum_wavelength, from_celsius_to_kelvin};
use spdcalc::*;
use std::cell::RefCell;
use std::f64::consts::{FRAC_PI_2, PI};

// ------------------------------------------------------------------------------------------------ toy cost functions
#[derive(Clone, Copy, Debug)]
pub struct Toy {
  pub kind: u32,
  pub a: f64,
  pub b: f64,
  pub h: f64,
}

pub fn toy(t: &Toy, x: f64) -> f64 {
  match t.kind {
    0 => (x - t.a).abs(),
    1 => (x - t.a) * (x - t.a),
    2 => {
      if x < t.a {
        (t.a - x) * 2.0 + t.h
      } else {
        (x - t.a) * 0.5 + t.h
      }
    }
    3 => {
      let u = (x - t.a).abs();
      let v = (x - t.b).abs() + t.h;
      if u < v {
        u
      } else {
        v
      }
    }
    4 => t.h,
    5 => {
      if x < t.a {
        1.0
      } else {
        0.0
      }
    }
    6 => {
      // tilted double well: |x - a| * |x - b| is not exact in binary64 in general; use max instead
      let u = (x - t.a).abs();
      let v = 2.0 * (x - t.b).abs();
      if u > v {
        u
      } else {
        v
      }
    }
    _ => {
      // undefined (NaN) on the open interval (a, a + 2), |x - b| elsewhere
      if x > t.a && x < t.a + 2.0 {
        f64::NAN
      } else {
        (x - t.b).abs()
      }
    }
  }
}

fn dy(rng: &mut Rng, lo: i64, hi: i64, den: f64) -> f64 {
  (lo + (rng.next_u64() % ((hi - lo + 1) as u64)) as i64) as f64 / den
}

/// run nelder_mead_1d recording every in-bounds evaluation (x, cost)
pub fn nm_traced<F: Fn(f64) -> f64>(f: F, guess: (f64, f64), max_iter: u64, min: f64, max: f64, tol: f64) -> (Result<f64, String>, Vec<(f64, f64)>) {
  let table: RefCell<Vec<(f64, f64)>> = RefCell::new(Vec::new());
  let r = {
    let g = |x: f64| {
      let c = f(x);
      table.borrow_mut().push((x, c));
      c
    };
    guarded(std::panic::AssertUnwindSafe(|| nelder_mead_1d(g, guess, max_iter, min, max, tol)))
  };
  (r, table.into_inner())
}

fn table_json(t: &[(f64, f64)]) -> Value {
  Value::Array(t.iter().map(|(x, c)| json!([fx(*x), fx(*c)])).collect())
}

fn run_nm(rng: &mut Rng, n: usize) {
  for i in 0..n {
    let kind = (i % 8) as u32;
    let t = Toy { kind, a: dy(rng, -256, 256, 16.0), b: dy(rng, -256, 256, 16.0), h: dy(rng, 0, 64, 16.0) };
    let g0 = dy(rng, -512, 512, 16.0);
    let g1 = match rng.below(4) {
      0 => g0 + 1.0,
      1 => g0 + dy(rng, 1, 64, 16.0),
      2 => g0 - dy(rng, 1, 64, 16.0),
      _ => dy(rng, -512, 512, 16.0),
    };
    let max_iter = if kind == 1 { rng.below(17) as u64 } else { rng.below(41) as u64 };
    let (min, max) = match rng.below(4) {
      0 => (-1000.0, 1000.0),
      1 => (g0.min(g1) - dy(rng, 0, 32, 16.0), g0.max(g1) + dy(rng, 0, 64, 16.0)),
      2 => (g0 - dy(rng, 0, 16, 16.0), g0 + dy(rng, 0, 16, 16.0)),
      _ => (dy(rng, -512, 0, 16.0), dy(rng, 0, 512, 16.0)),
    };
    let tol = match rng.below(4) {
      0 => 0.0,
      1 => 1.0 / 1024.0,
      2 => 1.0 / 1048576.0,
      _ => 1e-6,
    };
    let (r, table) = nm_traced(|x| toy(&t, x), (g0, g1), max_iter, min, max, tol);
    emit(json!({
      "kind": "nm", "i": i, "toy": {"kind": kind, "a": fx(t.a), "b": fx(t.b), "h": fx(t.h)},
      "g0": fx(g0), "g1": fx(g1), "max_iter": max_iter, "min": fx(min), "max": fx(max), "tol": fx(tol),
      "result": match &r { Ok(x) => json!({"ok": true, "x": fx(*x)}), Err(m) => json!({"ok": false, "panic": m}) },
      "table": table_json(&table),
    }));
  }
}

// ------------------------------------------------------------------------------------------------ mismatch helpers (public API only)
/// longitudinal mismatch at the centre frequencies with the optimum idler for `pp`
pub fn dkz(signal: &SignalBeam, pump: &PumpBeam, cs: &CrystalSetup, pp: &PeriodicPoling) -> Result<(f64, IdlerBeam), String> {
  let idler = IdlerBeam::try_new_optimum(signal, pump, cs, pp).map_err(|e| e.0)?;
  let d = wvec(delta_k(signal.frequency(), idler.frequency(), signal, &idler, pump, cs, pp));
  Ok((d.z, idler))
}

fn result_json(r: &Result<Result<f64, String>, String>) -> Value {
  match r {
    Ok(Ok(p)) => json!({"class": "ok", "value": fx(*p)}),
    Ok(Err(e)) => json!({"class": "err", "error": e}),
    Err(m) => json!({"class": "panic", "message": m}),
  }
}

/// everything the consumer needs about one poling setup
fn observe_poling(i: usize, tag: &str, s: &Setup) {
  let Setup { cs, signal, pump, input, .. } = s;
  let off = PeriodicPoling::Off;
  let z0 = guarded(std::panic::AssertUnwindSafe(|| dkz(signal, pump, cs, &off)));
  let (z0v, idler0) = match z0 {
    Ok(Ok((z, idl))) => (z, idl),
    other => {
      emit(json!({"kind": "poling_skip", "i": i, "tag": tag, "input": input, "why": format!("{:?}", other.map(|r| r.map(|x| x.0)))}));
      return;
    }
  };
  let r_main = guarded(std::panic::AssertUnwindSafe(|| optimum_poling_period(signal, pump, cs).map(|p| met(p)).map_err(|e| e.0)));
  let r_try = guarded(std::panic::AssertUnwindSafe(|| {
    PeriodicPoling::try_new_optimum(signal, pump, cs, Apodization::Off).map(|pp| met(pp.signed_period())).map_err(|e| e.0)
  }));
  // SPDC::assign_optimum_periodic_poling / SPDC::optimum_periodic_poling / PeriodicPoling::try_as_optimum from an UNPOLED base,
  // from a poled base of either sign (the result must not depend on the base, only the apodization is kept)
  let bases: [(&str, PeriodicPoling); 3] = [
    ("off", PeriodicPoling::Off),
    ("on_pos", PeriodicPoling::On { period: 1e-5 * M, sign: Sign::POSITIVE, apodization: Apodization::Off }),
    ("on_neg", PeriodicPoling::On { period: 3e-5 * M, sign: Sign::NEGATIVE, apodization: Apodization::Gaussian { fwhm: 1e-3 * M } }),
  ];
  let mut routes = serde_json::Map::new();
  for (name, base) in bases.iter() {
    let r_assign = guarded(std::panic::AssertUnwindSafe(|| {
      let mut spdc = SPDC::new(
        cs.clone(), signal.clone(), idler0.clone(), pump.clone(), 5e-9 * M, 1e-3 * W, 1e-2, base.clone(), 0. * M, 0. * M, 1e-12 * M / V,
      );
      match spdc.assign_optimum_periodic_poling() {
        Ok(_) => Ok(met(spdc.pp.signed_period())),
        Err(e) => Err(e.0),
      }
    }));
    let r_opt = guarded(std::panic::AssertUnwindSafe(|| {
      let spdc = SPDC::new(
        cs.clone(), signal.clone(), idler0.clone(), pump.clone(), 5e-9 * M, 1e-3 * W, 1e-2, base.clone(), 0. * M, 0. * M, 1e-12 * M / V,
      );
      spdc.optimum_periodic_poling().map(|pp| met(pp.signed_period())).map_err(|e| e.0)
    }));
    let r_tao = guarded(std::panic::AssertUnwindSafe(|| {
      base.clone().try_as_optimum(signal, pump, cs).map(|pp| (met(pp.signed_period()), pp.apodization() == base.apodization()))
        .map_err(|e| e.0)
    }));
    let (tao, keeps) = match &r_tao {
      Ok(Ok((p, k))) => (Ok(Ok(*p)), Some(*k)),
      Ok(Err(e)) => (Ok(Err(e.clone())), None),
      Err(m) => (Err(m.clone()), None),
    };
    routes.insert(format!("assign_optimum_periodic_poling[{}]", name), result_json(&r_assign));
    routes.insert(format!("optimum_periodic_poling[{}]", name), result_json(&r_opt));
    routes.insert(format!("try_as_optimum[{}]", name), result_json(&tao));
    routes.insert(format!("try_as_optimum[{}].keeps_apodization", name), json!(keeps));
  }
  let r_spdc = Ok::<Result<f64, String>, String>(Ok(0.0));
  let _ = &r_spdc;
  let sign_rule = guarded(std::panic::AssertUnwindSafe(|| PeriodicPoling::compute_sign(signal, pump, cs) == Sign::POSITIVE));
  // replica of the internal minimisation, from public API, with its evaluation table
  let length = met(cs.length);
  let sign = if z0v < 0.0 { Sign::NEGATIVE } else { Sign::POSITIVE };
  let guess = (2.0 * PI / z0v).abs();
  let zero_index = std::cell::Cell::new(false);
  let cost = |period: f64| {
    let pp = PeriodicPoling::On { period: period * M, sign, apodization: Apodization::Off };
    match dkz(signal, pump, cs, &pp) {
      Ok((z, idl)) => {
        if !(*idl.refractive_index(idl.frequency(), cs) > 0.0) {
          zero_index.set(true);
        }
        z.abs()
      }
      Err(_) => f64::NAN,
    }
  };
  let (r_rep, table) = if z0v != 0.0 {
    nm_traced(cost, (guess, guess + 1e-6), 1000, f64::MIN_POSITIVE, length, 1e-12)
  } else {
    (Ok(f64::INFINITY), vec![])
  };
  // signed mismatch at the largest admissible period, sign(dkz0) * dkz(On {L, sign}): with dkz increasing along the period this
  // is negative exactly when the true root (optimum idler recomputed per period) lies beyond the crystal length
  let g_at_l = if z0v != 0.0 {
    let pp = PeriodicPoling::On { period: length * M, sign, apodization: Apodization::Off };
    match guarded(std::panic::AssertUnwindSafe(|| dkz(signal, pump, cs, &pp))) {
      Ok(Ok((z, _))) => fx(if z0v < 0.0 { -z } else { z }),
      _ => Value::Null,
    }
  } else {
    Value::Null
  };
  // residual at the returned period, through the public types (PeriodicPoling::new + optimum idler + delta_k)
  let residual = match &r_main {
    Ok(Ok(p)) if p.is_finite() => {
      let pp = PeriodicPoling::new(*p * M, Apodization::Off);
      match guarded(std::panic::AssertUnwindSafe(|| dkz(signal, pump, cs, &pp))) {
        Ok(Ok((z, idl))) => json!({"dkz": fx(z), "pp": pp_json(&pp), "idler_theta": fx(rad(idl.theta_internal())),
                                    "idler_dir": v3(&idl.direction().into_inner())}),
        _ => Value::Null,
      }
    }
    _ => Value::Null,
  };
  emit(json!({
    "kind": "poling", "i": i, "tag": tag, "input": input, "length": fx(length),
    "signal_theta": fx(rad(signal.theta_internal())), "dkz0": fx(z0v),
    "idler0_theta": fx(rad(idler0.theta_internal())),
    "indices": [fx(*signal.refractive_index(signal.frequency(), cs)), fx(*pump.refractive_index(pump.frequency(), cs)),
                fx(*idler0.refractive_index(idler0.frequency(), cs))],
    "optimum_poling_period": result_json(&r_main), "try_new_optimum": result_json(&r_try),
    "routes": Value::Object(routes),
    "compute_sign_positive": match sign_rule { Ok(b) => json!(b), Err(m) => json!(m) },
    "replica": {"g0": fx(guess), "g1": fx(guess + 1e-6), "max_iter": 1000, "min": fx(f64::MIN_POSITIVE), "max": fx(length), "tol": fx(1e-12),
                "result": match &r_rep { Ok(x) => json!({"ok": true, "x": fx(*x)}), Err(m) => json!({"ok": false, "panic": m}) },
                "table": table_json(&table)},
    "residual": residual, "zero_index_during_search": zero_index.get(), "g_at_length": g_at_l,
    "spdc_try_as_optimum": try_as_optimum_json(cs, signal, pump, &PeriodicPoling::On { period: 1e-5 * M, sign: Sign::POSITIVE, apodization: Apodization::Off }),
  }));
}

/// the JSON configuration route: "poling_period_um": "auto" / "theta_deg": "auto"
fn config_json(s: &Setup, theta_auto: bool, poling_auto: bool) -> String {
  let i = &s.input;
  let pm = i["pm_type"].as_str().unwrap();
  let theta = if theta_auto { json!("auto") } else { json!(f64_of(&i["crystal_theta"]).to_degrees()) };
  let mut v = json!({
    "crystal": {"kind": i["crystal"], "pm_type": pm, "phi_deg": f64_of(&i["crystal_phi"]).to_degrees(), "theta_deg": theta,
                "length_um": f64_of(&i["length"]) * 1e6, "temperature_c": f64_of(&i["temperature_c"])},
    "pump": {"wavelength_nm": f64_of(&i["pump_wavelength"]) * 1e9, "waist_um": f64_of(&i["pump_waist"]) * 1e6, "bandwidth_nm": 0.5, "average_power_mw": 1.0},
    "signal": {"wavelength_nm": f64_of(&i["signal_wavelength"]) * 1e9, "phi_deg": f64_of(&i["signal_phi"]).to_degrees(),
               "theta_deg": f64_of(&i["signal_theta"]).to_degrees(), "waist_um": f64_of(&i["signal_waist"]) * 1e6},
    "idler": "auto",
    "deff_pm_per_volt": 1.0,
  });
  if poling_auto {
    v["periodic_poling"] = json!({"poling_period_um": "auto"});
  }
  v.to_string()
}

fn run_poling(rng: &mut Rng, n: usize) {
  for i in 0..n {
    // property box: lengths 1-30 mm, temperatures 0-100 C, signal polar angle 0 - 0.05 rad, no counter-propagation
    let mut s = gen_setup(rng, i, 0.0, 0.05, false);
    s.pp = PeriodicPoling::Off;
    observe_poling(i, "box", &s);
    if i % 5 == 0 {
      // configuration route on the same numbers (the config converts units: values differ in the last bits, so the
      // consumer checks the property on the configuration's own result rather than comparing periods bit by bit)
      let cfg = config_json(&s, false, true);
      let r = guarded(std::panic::AssertUnwindSafe(|| SPDC::from_json(&cfg)));
      let o = match r {
        Ok(Ok(spdc)) => {
          let z0 = guarded(std::panic::AssertUnwindSafe(|| dkz(&spdc.signal, &spdc.pump, &spdc.crystal_setup, &PeriodicPoling::Off)));
          let z = guarded(std::panic::AssertUnwindSafe(|| dkz(&spdc.signal, &spdc.pump, &spdc.crystal_setup, &spdc.pp)));
          json!({"class": "ok", "pp": pp_json(&spdc.pp), "length": fx(met(spdc.crystal_setup.length)),
                 "signal_theta": fx(rad(spdc.signal.theta_internal())),
                 "dkz0": match z0 { Ok(Ok((z, _))) => fx(z), _ => Value::Null },
                 "dkz": match z { Ok(Ok((z, _))) => fx(z), _ => Value::Null }})
        }
        Ok(Err(e)) => json!({"class": "err", "error": e.to_string()}),
        Err(m) => json!({"class": "panic", "message": m}),
      };
      emit(json!({"kind": "poling_config", "i": i, "input": s.input, "result": o}));
    }
  }
}

/// crystal lengths just below / at / above the exact collinear root 2 pi / |dkz0|
fn run_edge(rng: &mut Rng, n: usize) {
  let mut done = 0;
  let mut i = 0;
  while done < n && i < 40 * n {
    i += 1;
    let mut s = gen_setup(rng, i, 0.0, 0.0, false);
    s.pp = PeriodicPoling::Off;
    // collinear signal; look for an orientation whose unpoled mismatch gives a period of 1-3 mm: scan crystal theta for a sign
    // change of dkz0 and bisect to |dkz0| = 2 pi / target
    s.signal.set_angles(0. * RAD, 0. * RAD);
    let target = rng.range(1.0e-3, 3.0e-3);
    let f = |th: f64, s: &Setup| -> Option<f64> {
      let mut cs = s.cs.clone();
      cs.theta = th * RAD;
      match guarded(std::panic::AssertUnwindSafe(|| dkz(&s.signal, &s.pump, &cs, &PeriodicPoling::Off))) {
        Ok(Ok((z, _))) if z.is_finite() => Some(z),
        _ => None,
      }
    };
    let want = 2.0 * PI / target;
    let mut found = None;
    let mut prev: Option<(f64, f64)> = None;
    for k in 0..=90 {
      let th = (k as f64).to_radians();
      if let Some(z) = f(th, &s) {
        if let Some((pth, pz)) = prev {
          if (pz - want) * (z - want) < 0.0 {
            found = Some((pth, th, pz - want));
            break;
          }
        }
        prev = Some((th, z));
      } else {
        prev = None;
      }
    }
    let (mut lo, mut hi, flo) = match found {
      Some(x) => x,
      None => continue,
    };
    for _ in 0..60 {
      let mid = 0.5 * (lo + hi);
      match f(mid, &s) {
        Some(z) => {
          if (z - want) * flo > 0.0 {
            lo = mid
          } else {
            hi = mid
          }
        }
        None => break,
      }
    }
    s.cs.theta = lo * RAD;
    let z0 = match f(lo, &s) {
      Some(z) => z,
      None => continue,
    };
    let root = (2.0 * PI / z0).abs();
    if !(root > 0.9e-3 && root < 3.3e-3) {
      continue;
    }
    // crystal lengths around the root: the root is above the length by 0.05 .. 1.5 um, or below it
    // (the exact period exceeds the length by up to 1 um: the seed window of finding F4b; by more than 1 um: an error is due)
    for (j, d) in [0.05e-6, 0.3e-6, 0.5e-6, 0.7e-6, 0.95e-6, 1.5e-6, -0.5e-6, 5e-6, 1e-4].iter().enumerate() {
      if root - d < 0.8e-3 {
        continue;
      }
      let mut s2 = Setup { cs: s.cs.clone(), signal: s.signal.clone(), pump: s.pump.clone(), pp: PeriodicPoling::Off, input: s.input.clone() };
      let l = root - d;
      s2.cs.length = l * M;
      s2.input["length"] = fx(l);
      s2.input["crystal_theta"] = fx(lo);
      s2.input["signal_theta"] = fx(0.0);
      s2.input["signal_phi"] = fx(0.0);
      s2.input["edge_root_minus_length"] = fx(*d);
      observe_poling(done * 10 + j, "edge", &s2);
    }
    done += 1;
  }
}

/// nearly phase-matched setups: the crystal angle is tuned by bisection until the unpoled mismatch is +-target, target log-uniform in
/// [1e-3, 1e3] rad/m (exact periods of 6 mm .. 6 km: mostly beyond the crystal length, an error is due; an exactly vanishing
/// mismatch is the only case for the infinite period)
fn run_near(rng: &mut Rng, n: usize) {
  let mut done = 0;
  let mut i = 0;
  while done < n && i < 60 * n {
    i += 1;
    let mut s = gen_setup(rng, i, 0.0, 0.05, false);
    s.pp = PeriodicPoling::Off;
    if rng.below(3) == 0 {
      s.signal.set_angles(0. * RAD, 0. * RAD);
      s.input["signal_theta"] = fx(0.0);
      s.input["signal_phi"] = fx(0.0);
      s.input["history"] = json!("none");
    }
    let target = rng.log_range(1e-3, 1e3) * if rng.coin() { 1.0 } else { -1.0 };
    let f = |th: f64, s: &Setup| -> Option<f64> {
      let mut cs = s.cs.clone();
      cs.theta = th * RAD;
      match guarded(std::panic::AssertUnwindSafe(|| dkz(&s.signal, &s.pump, &cs, &PeriodicPoling::Off))) {
        Ok(Ok((z, _))) if z.is_finite() => Some(z),
        _ => None,
      }
    };
    let mut found = None;
    let mut prev: Option<(f64, f64)> = None;
    for k in 0..=90 {
      let th = (k as f64).to_radians();
      if let Some(z) = f(th, &s) {
        if let Some((pth, pz)) = prev {
          if (pz - target) * (z - target) < 0.0 {
            found = Some((pth, th, pz - target));
            break;
          }
        }
        prev = Some((th, z));
      } else {
        prev = None;
      }
    }
    let (mut lo, mut hi, flo) = match found {
      Some(x) => x,
      None => continue,
    };
    for _ in 0..80 {
      let mid = 0.5 * (lo + hi);
      match f(mid, &s) {
        Some(z) => {
          if (z - target) * flo > 0.0 {
            lo = mid
          } else {
            hi = mid
          }
        }
        None => break,
      }
    }
    let z0 = match f(lo, &s) {
      Some(z) => z,
      None => continue,
    };
    if !(z0.abs() > 1e-4 && z0.abs() < 1e4) {
      continue;
    }
    s.cs.theta = lo * RAD;
    s.input["crystal_theta"] = fx(lo);
    observe_poling(done, "near", &s);
    done += 1;
  }
}

// ------------------------------------------------------------------------------------------------ crystal angle
fn theta_cost(cs: &CrystalSetup, signal: &SignalBeam, pump: &PumpBeam, theta_s_e: Angle, theta: f64) -> Option<(f64, f64)> {
  // exactly the closure of CrystalSetup::optimum_theta, from public API; returns (signed dkz, internal signal angle)
  let mut cs2 = cs.clone();
  let mut sig = signal.clone();
  cs2.theta = theta * RAD;
  sig.set_theta_external(theta_s_e, &cs2);
  match dkz(&sig, pump, &cs2, &PeriodicPoling::Off) {
    Ok((z, _)) => Some((z, rad(sig.theta_internal()))),
    Err(_) => None,
  }
}

/// phase-matching angles in [0, 90] deg for the setup with the signal's external angle kept at `theta_s_e`: sign changes of the signed
/// mismatch on a 0.25 deg grid, refined by bisection
fn scan_roots(cs: &CrystalSetup, signal: &SignalBeam, pump: &PumpBeam, theta_s_e: Angle) -> Vec<Value> {
  let mut roots: Vec<Value> = Vec::new();
  let val = |th: f64| match guarded(std::panic::AssertUnwindSafe(|| theta_cost(cs, signal, pump, theta_s_e, th))) {
    Ok(Some((z, _))) if z.is_finite() => Some(z),
    _ => None,
  };
  for k in 0..360 {
    let (a, b) = ((k as f64 * 0.25).to_radians(), ((k + 1) as f64 * 0.25).to_radians().min(FRAC_PI_2));
    if let (Some(za), Some(zb)) = (val(a), val(b)) {
      if za == 0.0 || za * zb < 0.0 {
        let (mut lo, mut hi, zlo) = (a, b, za);
        for _ in 0..70 {
          let mid = 0.5 * (lo + hi);
          match val(mid) {
            Some(zm) => {
              if zm * zlo > 0.0 {
                lo = mid
              } else {
                hi = mid
              }
            }
            None => break,
          }
        }
        if let Some(z) = val(lo) {
          roots.push(json!({"theta": fx(lo), "dkz": fx(z)}));
        }
      }
    }
  }
  roots
}

/// SPDC::try_as_optimum on the setup (unpoled or poled base): what it returns, and the mismatch OF THE RETURNED SETUP
fn try_as_optimum_json(cs: &CrystalSetup, signal: &SignalBeam, pump: &PumpBeam, base: &PeriodicPoling) -> Value {
  let r = guarded(std::panic::AssertUnwindSafe(|| {
    let idler0 = IdlerBeam::try_new_optimum(signal, pump, cs, PeriodicPoling::Off).map_err(|e| e.0)?;
    let spdc = SPDC::new(cs.clone(), signal.clone(), idler0, pump.clone(), 5e-9 * M, 1e-3 * W, 1e-2, base.clone(), 0. * M, 0. * M, 1e-12 * M / V);
    spdc.try_as_optimum().map_err(|e| e.0)
  }));
  match r {
    Ok(Ok(ret)) => {
      let z = guarded(std::panic::AssertUnwindSafe(|| dkz(&ret.signal, &ret.pump, &ret.crystal_setup, &ret.pp)));
      json!({"class": "ok", "crystal_theta": fx(rad(ret.crystal_setup.theta)), "signal_theta": fx(rad(ret.signal.theta_internal())),
             "signal_phi": fx(rad(ret.signal.phi())), "pp": pp_json(&ret.pp), "length": fx(met(ret.crystal_setup.length)),
             "dkz": match z { Ok(Ok((z, _))) => fx(z), _ => Value::Null }})
    }
    Ok(Err(e)) => json!({"class": "err", "error": e}),
    Err(m) => json!({"class": "panic", "message": m}),
  }
}

fn observe_theta(i: usize, tag: &str, s: &Setup) {
  let Setup { cs, signal, pump, input, .. } = s;
  let length = met(cs.length);
  let r_main = guarded(std::panic::AssertUnwindSafe(|| rad(cs.optimum_theta(signal, pump))));
  let r_spdc = guarded(std::panic::AssertUnwindSafe(|| {
    let idler0 = IdlerBeam::try_new_optimum(signal, pump, cs, PeriodicPoling::Off).unwrap();
    let mut spdc = SPDC::new(cs.clone(), signal.clone(), idler0, pump.clone(), 5e-9 * M, 1e-3 * W, 1e-2, PeriodicPoling::Off, 0. * M, 0. * M, 1e-12 * M / V);
    spdc.assign_optimum_crystal_theta();
    rad(spdc.crystal_setup.theta)
  }));
  let theta_s_e = match guarded(std::panic::AssertUnwindSafe(|| signal.theta_external(cs))) {
    Ok(a) => a,
    Err(m) => {
      emit(json!({"kind": "theta_skip", "i": i, "input": input, "why": m}));
      return;
    }
  };
  // replica with table
  let cost = |th: f64| match guarded(std::panic::AssertUnwindSafe(|| theta_cost(cs, signal, pump, theta_s_e, th))) {
    Ok(Some((z, _))) => z.abs(),
    _ => f64::NAN,
  };
  let guess = PI / 6.0;
  let (r_rep, table) = nm_traced(cost, (guess, guess + 1.0), 1000, 0.0, FRAC_PI_2, 1e-6);
  // residual at the returned angle, as the code's own notion of "the setup at that angle" (signal external angle kept)
  let residual = match &r_main {
    Ok(th) => match guarded(std::panic::AssertUnwindSafe(|| theta_cost(cs, signal, pump, theta_s_e, *th))) {
      Ok(Some((z, ths))) => json!({"dkz": fx(z), "signal_theta_internal": fx(ths)}),
      _ => Value::Null,
    },
    Err(_) => Value::Null,
  };
  // residual as SPDC::assign_optimum_crystal_theta leaves the object (signal's INTERNAL angle unchanged)
  let residual_obj = match &r_main {
    Ok(th) => {
      let mut cs2 = cs.clone();
      cs2.theta = *th * RAD;
      match guarded(std::panic::AssertUnwindSafe(|| dkz(signal, pump, &cs2, &PeriodicPoling::Off))) {
        Ok(Ok((z, _))) => fx(z),
        _ => Value::Null,
      }
    }
    Err(_) => Value::Null,
  };
  // 0.25 degree scan of the signed mismatch
  let mut scan: Vec<Value> = Vec::new();
  for k in 0..=360 {
    let th = (k as f64 * 0.25).to_radians().min(FRAC_PI_2);
    match guarded(std::panic::AssertUnwindSafe(|| theta_cost(cs, signal, pump, theta_s_e, th))) {
      Ok(Some((z, _))) => scan.push(fx(z)),
      _ => scan.push(Value::Null),
    }
  }
  // phase-matching angles (sign changes of the signed mismatch refined by bisection), for the setup as given ...
  let roots = scan_roots(cs, signal, pump, theta_s_e);
  // ... and for the collinear signal SPDC::try_as_optimum re-aims to (the same scan when the signal is collinear already)
  let collinear = rad(signal.theta_internal()) == 0.0;
  let roots_collinear = if collinear {
    roots.clone()
  } else {
    let mut sig0 = signal.clone();
    sig0.set_angles(0. * RAD, 0. * RAD);
    scan_roots(cs, &sig0, pump, 0. * RAD)
  };
  let tao = try_as_optimum_json(cs, signal, pump, &PeriodicPoling::Off);
  emit(json!({
    "kind": "theta", "i": i, "tag": tag, "input": input, "length": fx(length), "signal_theta_external": fx(rad(theta_s_e)),
    "optimum_theta": match &r_main { Ok(t) => json!({"class": "ok", "value": fx(*t)}), Err(m) => json!({"class": "panic", "message": m}) },
    "assign_optimum_crystal_theta": match &r_spdc { Ok(t) => json!({"class": "ok", "value": fx(*t)}), Err(m) => json!({"class": "panic", "message": m}) },
    "replica": {"g0": fx(guess), "g1": fx(guess + 1.0), "max_iter": 1000, "min": fx(0.0), "max": fx(FRAC_PI_2), "tol": fx(1e-6),
                "result": match &r_rep { Ok(x) => json!({"ok": true, "x": fx(*x)}), Err(m) => json!({"ok": false, "panic": m}) },
                "table": table_json(&table)},
    "residual": residual, "residual_object": residual_obj, "scan": scan, "roots": roots,
    "roots_collinear": roots_collinear, "spdc_try_as_optimum": tao,
  }));
}

fn theta_setup(rng: &mut Rng, crystal_id: &str, pm: PMType, lp: f64, ls: f64, c_phi: f64, theta_s: f64, length: f64, t_c: f64) -> Setup {
  let crystal = CrystalType::from_string(crystal_id).unwrap();
  let cs = CrystalSetup {
    crystal,
    pm_type: pm,
    theta: 0. * RAD,
    phi: c_phi * RAD,
    length: length * M,
    temperature: from_celsius_to_kelvin(t_c),
    counter_propagation: false,
  };
  let waist_s = rng.range(20e-6, 200e-6);
  let waist_p = rng.range(20e-6, 400e-6);
  let signal: SignalBeam = Beam::new(pm.signal_polarization(), 0. * RAD, theta_s * RAD, ls * M, waist_s * M).into();
  let pump: PumpBeam = Beam::new(pm.pump_polarization(), 0. * RAD, 0. * RAD, lp * M, waist_p * M).into();
  let input = json!({
    "crystal": crystal_id, "pm_type": pm.to_str(), "crystal_theta": fx(0.0), "crystal_phi": fx(c_phi),
    "temperature_c": fx(t_c), "length": fx(length), "counter_propagation": false,
    "pump_wavelength": fx(lp), "pump_waist": fx(waist_p),
    "signal_wavelength": fx(ls), "signal_phi": fx(0.0), "signal_theta": fx(theta_s), "signal_waist": fx(waist_s),
  });
  Setup { cs, signal, pump, pp: PeriodicPoling::Off, input }
}

/// the configuration route "theta_deg": "auto" on the same numbers
fn observe_theta_config(i: usize, s: &Setup) {
  let cfg = config_json(s, true, false);
  let r = guarded(std::panic::AssertUnwindSafe(|| SPDC::from_json(&cfg)));
  let o = match r {
    Ok(Ok(spdc)) => {
      let z = guarded(std::panic::AssertUnwindSafe(|| dkz(&spdc.signal, &spdc.pump, &spdc.crystal_setup, &PeriodicPoling::Off)));
      json!({"class": "ok", "theta": fx(rad(spdc.crystal_setup.theta)), "length": fx(met(spdc.crystal_setup.length)),
             "dkz": match z { Ok(Ok((z, _))) => fx(z), _ => Value::Null }})
    }
    Ok(Err(e)) => json!({"class": "err", "error": e.to_string()}),
    Err(m) => json!({"class": "panic", "message": m}),
  };
  emit(json!({"kind": "theta_config", "i": i, "input": s.input, "result": o}));
}

fn run_theta(rng: &mut Rng, n: usize) {
  let metas = CrystalType::get_all_meta();
  let pms = [PMType::Type1_e_oo, PMType::Type2_e_eo, PMType::Type2_e_oe];
  // the configuration named in the design notes first: BiBO_1, e -> eo, 775 -> 1550 nm, azimuth 0
  let s = theta_setup(rng, "BiBO_1", PMType::Type2_e_eo, 775e-9, 1550e-9, 0.0, 0.0, 2e-3, 20.0);
  observe_theta(0, "design-note", &s);
  observe_theta_config(0, &s);
  for i in 1..n {
    let meta = &metas[i % metas.len()];
    let pm = pms[(i / metas.len()) % 3];
    let (lo, hi) = crate::c03::window(meta);
    // degenerate or mildly non-degenerate down-conversion with all three wavelengths inside the window
    let lp = rng.log_range(lo, hi / 2.05);
    let ls = if rng.coin() { 2.0 * lp } else { rng.range(1.6 * lp, (2.6 * lp).min(hi)) };
    let c_phi = match rng.below(4) {
      0 => 0.0,
      1 => FRAC_PI_2,
      _ => rng.range(0.0, 2.0 * PI),
    };
    let theta_s = if rng.below(3) == 0 { rng.range(0.002, 0.05) } else { 0.0 };
    let len = rng.range(1e-3, 30e-3);
    let t_c = if rng.coin() { 20.0 } else { rng.range(0.0, 100.0) };
    let s = theta_setup(rng, meta.id, pm, lp, ls, c_phi, theta_s, len, t_c);
    observe_theta(i, "box", &s);
    if i % 6 == 0 || meta.id == "BiBO_1" {
      observe_theta_config(i, &s);
    }
  }
}

pub fn run(args: &[String]) {
  let mode = args.first().map(|s| s.as_str()).unwrap_or("nm");
  let seed = arg_u64(args, 1, 1);
  let n = arg_u64(args, 2, 50) as usize;
  let mut rng = Rng::new(seed ^ 0xC04);
  match mode {
    "nm" => run_nm(&mut rng, n),
    "poling" => run_poling(&mut rng, n),
    "edge" => run_edge(&mut rng, n),
    "near" => run_near(&mut rng, n),
    "theta" => run_theta(&mut rng, n),
    "replay" => {
      // args[1]: file {"mode": "poling"|"theta", "input": .., "pp": ..}
      let txt = std::fs::read_to_string(&args[1]).unwrap_or_default();
      let v: Value = serde_json::from_str(&txt).unwrap_or(Value::Null);
      match setup_from_json(&v["input"], &json!({"on": false})) {
        Some(s) => {
          if v["mode"].as_str() == Some("theta") {
            observe_theta(0, "replay", &s)
          } else {
            observe_poling(0, "replay", &s)
          }
        }
        None => emit(json!({"kind": "bad_replay"})),
      }
    }
    _ => emit(json!({"kind": "bad_mode", "mode": mode})),
  }
}
