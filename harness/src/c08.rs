//! C08 observations (consumer: props/c08.py).
//!   eff   efficiencies_from_counts on rate triples (zeros, ordered/unordered, huge/tiny, NaN/inf)
//!   pw    coincidence vs signal-singles vs idler-singles intensity at frequency pairs of random phase-matched setups
//!         (crystal x type x poling x collinear/non-collinear x waists 20-300 um x length 0.5-20 mm), Simpson{200} or GL{40}
//!   lim   the no-diffraction limit (collinear, waists >= 1 mm) at perfect phase matching, with everything the property's
//!         closed form eta F^2 / R needs
//!   grid  SPDC::efficiencies over a small grid
use crate::common::*;
use serde_json::{json, Value};
use spdcalc::dim::ucum::{M, RAD, S};
use spdcalc::jsa::FrequencySpace;
use spdcalc::math::Integrator;
use spdcalc::utils::vacuum_wavelength_to_frequency;
use spdcalc::*;
#[path = "c08_diag.rs"]
mod c08_diag;

fn hz(x: Frequency) -> f64 {
  *(x / (RAD / S))
}
fn w(x: f64) -> Frequency {
  x * RAD / S
}

struct Family {
  name: &'static str,
  kind: &'static str,
  pm: &'static str,
  theta: &'static str, // "90" | "\"auto\""
  poled: bool,
  lp_nm: f64,
}

const FAMILIES: &[Family] = &[
  Family { name: "KTP_t2_pp", kind: "KTP", pm: "e->eo", theta: "90", poled: true, lp_nm: 775. },
  Family { name: "KTP_t2_pp_405", kind: "KTP", pm: "e->eo", theta: "90", poled: true, lp_nm: 405. },
  Family { name: "KTP_t0_pp", kind: "KTP", pm: "e->ee", theta: "90", poled: true, lp_nm: 775. },
  Family { name: "BBO_t1", kind: "BBO_1", pm: "e->oo", theta: "\"auto\"", poled: false, lp_nm: 405. },
  Family { name: "BBO_t1_532", kind: "BBO_1", pm: "e->oo", theta: "\"auto\"", poled: false, lp_nm: 532. },
  Family { name: "BBO_t2", kind: "BBO_1", pm: "e->eo", theta: "\"auto\"", poled: false, lp_nm: 405. },
  Family { name: "LN_t0_pp", kind: "LiNbO3_1", pm: "e->ee", theta: "90", poled: true, lp_nm: 775. },
  Family { name: "LNMgO_t0_pp", kind: "LiNb_MgO", pm: "e->ee", theta: "90", poled: true, lp_nm: 775. },
  Family { name: "LN_t1", kind: "LiNbO3_1", pm: "e->oo", theta: "\"auto\"", poled: false, lp_nm: 775. },
  Family { name: "KDP_t1", kind: "KDP_1", pm: "e->oo", theta: "\"auto\"", poled: false, lp_nm: 405. },
  Family { name: "LiIO3_t1", kind: "LiIO3_1", pm: "e->oo", theta: "\"auto\"", poled: false, lp_nm: 532. },
  Family { name: "BBO_t1_pp", kind: "BBO_1", pm: "e->oo", theta: "30", poled: true, lp_nm: 405. },
  Family { name: "BiBO_t1", kind: "BiBO_1", pm: "e->oo", theta: "\"auto\"", poled: false, lp_nm: 405. },
  Family { name: "BiBO_t1_pp", kind: "BiBO_1", pm: "e->oo", theta: "40", poled: true, lp_nm: 532. },
  Family { name: "AgGaS2_t1", kind: "AgGaS2_1", pm: "e->oo", theta: "\"auto\"", poled: false, lp_nm: 1064. },
  Family { name: "AgGaSe2_t1", kind: "AgGaSe2_1", pm: "e->oo", theta: "\"auto\"", poled: false, lp_nm: 1550. },
  Family { name: "AgGaSe2_2_pp", kind: "AgGaSe2_2", pm: "e->oo", theta: "50", poled: true, lp_nm: 1550. },
];

struct Params {
  len_um: f64,
  wp_um: f64,
  ws_um: f64,
  wi_um: f64,
  bw_nm: f64,
  th_s_ext: f64,
  ls_nm: f64,
  phi_s_deg: f64,
  temp_c: f64,
  /// explicit (signal, idler) waist positions in um; None = the optimal ones
  z0_um: Option<(f64, f64)>,
}

fn config(f: &Family, p: &Params) -> String {
  let pp = if f.poled { r#""periodic_poling":{"poling_period_um":"auto"},"# } else { "" };
  format!(
    r#"{{"crystal":{{"kind":"{}","pm_type":"{}","phi_deg":0,"theta_deg":{},"length_um":{},"temperature_c":{}}},
        "pump":{{"wavelength_nm":{},"waist_um":{},"bandwidth_nm":{},"average_power_mw":1,"spectrum_threshold":0.01}},
        "signal":{{"wavelength_nm":{},"phi_deg":{},"theta_external_deg":{},"waist_um":{},"waist_position_um":"auto"}},
        "idler":"auto",{}"deff_pm_per_volt":1}}"#,
    f.kind, f.pm, f.theta, p.len_um, p.temp_c, f.lp_nm, p.wp_um, p.bw_nm, p.ls_nm, p.phi_s_deg, p.th_s_ext, p.ws_um, pp
  )
}

/// the setup of a config plus the modifications the config cannot express (used by the sampler and by the corpus replay alike)
fn build_from(j: String, wi: f64, z0_um: Option<(f64, f64)>) -> Result<SPDC, String> {
  match guarded(move || -> Result<SPDC, String> {
    let mut s = SPDC::from_json(j).map_err(|e| e.to_string())?;
    s.idler.set_waist(wi * 1e-6 * M);
    s.assign_optimal_waist_positions();
    if let Some((a, b)) = z0_um {
      s.signal_waist_position = a * 1e-6 * M;
      s.idler_waist_position = b * 1e-6 * M;
    }
    Ok(s)
  }) {
    Ok(r) => r,
    Err(p) => Err(format!("panic: {}", p)),
  }
}

fn build(f: &Family, p: &Params) -> Result<SPDC, String> {
  build_from(config(f, p), p.wi_um, p.z0_um)
}

#[allow(dead_code)]
fn build_old(f: &Family, p: &Params) -> Result<SPDC, String> {
  let j = config(f, p);
  let wi = p.wi_um;
  match guarded(move || -> Result<SPDC, String> {
    let mut s = SPDC::from_json(j).map_err(|e| e.to_string())?;
    s.idler.set_waist(wi * 1e-6 * M);
    s.assign_optimal_waist_positions();
    Ok(s)
  }) {
    Ok(r) => r,
    Err(p) => Err(format!("panic: {}", p)),
  }
}

fn span_of(spdc: &SPDC) -> f64 {
  let lp = spdc.pump.vacuum_wavelength();
  let f = spdc.pump_bandwidth;
  hz(vacuum_wavelength_to_frequency(lp - 0.5 * f) - vacuum_wavelength_to_frequency(lp + 0.5 * f))
}

/// |Δk_z| L / 2 at the centre frequencies: the setup counts as phase matched when this is small
fn mismatch(spdc: &SPDC) -> f64 {
  let dk = spdc.delta_k(spdc.signal.frequency(), spdc.idler.frequency());
  let dkz = (*(dk / (RAD / M))).z;
  (dkz * spdc.crystal_setup.length.value_unsafe * 0.5).abs()
}

fn describe(f: &Family, p: &Params, spdc: &SPDC) -> Value {
  json!({"family": f.name, "crystal": f.kind, "pm_type": f.pm, "poled": f.poled, "pump_nm": f.lp_nm, "signal_nm": p.ls_nm,
    "length_um": p.len_um, "pump_waist_um": p.wp_um, "signal_waist_um": p.ws_um, "idler_waist_um": p.wi_um,
    "bandwidth_nm": p.bw_nm, "signal_theta_external_deg": p.th_s_ext, "signal_phi_deg": p.phi_s_deg, "temperature_c": p.temp_c,
    "waist_positions_um": p.z0_um.map(|(a, b)| vec![a, b]),
    "crystal_theta_deg": *(spdc.crystal_setup.theta / spdcalc::dim::ucum::DEG),
    "config": config(f, p)})
}

fn integ_json(i: &Integrator) -> Value {
  match i {
    Integrator::Simpson { divs } => json!({"method": "Simpson", "divs": divs}),
    Integrator::GaussLegendre { degree } => json!({"method": "GaussLegendre", "degree": degree}),
    _ => json!("other"),
  }
}

fn triple(spdc: &SPDC, js: &JointSpectrum, jsw: &JointSpectrum, os: f64, oi: f64) -> Result<(f64, f64, f64, f64), String> {
  let (a, b) = (js.clone(), jsw.clone());
  let sp = spdc.clone();
  guarded(move || {
    (
      *(a.jsi(w(os), w(oi)) / JSIUnits::new(1.)),
      *(a.jsi_singles(w(os), w(oi)) / JSIUnits::new(1.)),
      *(b.jsi_singles(w(oi), w(os)) / JSIUnits::new(1.)),
      pump_spectral_amplitude(w(os) + w(oi), &sp),
    )
  })
}

/// with VERIF_C08_DIAG=1: singles(variant 3)/singles(source form) for the signal and the idler singles integral
fn diag_ratios(spdc: &SPDC, os: f64, oi: f64, integ: Integrator) -> Value {
  if std::env::var("VERIF_C08_DIAG").is_err() {
    return Value::Null;
  }
  let sw = spdc.clone().with_swapped_signal_idler();
  let v = |variant: u8, sp: &SPDC, a: f64, b: f64| -> f64 {
    let sp = sp.clone();
    guarded(move || *(c08_diag::singles_variant(variant, w(a), w(b), &sp, integ) / spdcalc::PerMeter3::new(1.))).unwrap_or(f64::NAN)
  };
  json!([v(3, spdc, os, oi) / v(0, spdc, os, oi), v(3, &sw, oi, os) / v(0, &sw, oi, os)])
}

fn pointwise(rng: &mut Rng, nsetups: usize, npts: usize) {
  for k in 0..nsetups {
    let f = &FAMILIES[k % FAMILIES.len()];
    let collinear = rng.unit() < 0.4;
    let ls = if rng.unit() < 0.6 { 2.0 * f.lp_nm } else { 2.0 * f.lp_nm * rng.range(0.93, 1.07) };
    let p = Params {
      len_um: rng.log_range(500., 20000.),
      wp_um: rng.log_range(20., 300.),
      ws_um: rng.log_range(20., 300.),
      wi_um: rng.log_range(20., 300.),
      bw_nm: rng.log_range(0.2, 8.0),
      th_s_ext: if collinear { 0.0 } else { rng.range(0.2, 5.0) },
      ls_nm: ls,
      phi_s_deg: if rng.unit() < 0.5 { 0.0 } else { rng.range(0.0, 360.0) },
      temp_c: if rng.unit() < 0.4 { 20.0 } else { rng.range(-20.0, 150.0) },
      z0_um: None,
    };
    let mut p = p;
    if rng.unit() < 0.4 {
      p.z0_um = Some((-p.len_um * rng.range(0.0, 0.6), -p.len_um * rng.range(0.0, 0.6)));
    }
    let integ = if rng.coin() { Integrator::Simpson { divs: 200 } } else { Integrator::GaussLegendre { degree: 40 } };
    let spdc = match build(f, &p) {
      Ok(s) => s,
      Err(e) => {
        emit(json!({"kind":"pw_setup_fail","family":f.name,"error":e,"config":config(f, &p)}));
        continue;
      }
    };
    let sp = spdc.clone();
    let mm = guarded(move || mismatch(&sp)).unwrap_or(f64::NAN);
    if !(mm < 0.05) {
      emit(json!({"kind":"pw_not_phase_matched","family":f.name,"mismatch":fx(mm),"setup":describe(f, &p, &spdc)}));
      continue;
    }
    let (sp1, sp2) = (spdc.clone(), spdc.clone());
    let js = match guarded(move || (JointSpectrum::new(sp1, integ), JointSpectrum::new(sp2.with_swapped_signal_idler(), integ))) {
      Ok(v) => v,
      Err(e) => {
        emit(json!({"kind":"pw_setup_fail","family":f.name,"error":e,"config":config(f, &p)}));
        continue;
      }
    };
    let (s0, i0) = (hz(spdc.signal.frequency()), hz(spdc.idler.frequency()));
    let span = span_of(&spdc);
    // frequency pairs: the centre; along the anti-diagonal (sum fixed, where the phase-matching function is scanned:
    // the lobe width scales with 1/L, so offsets are taken relative to a few lobe widths); random pairs inside the pump envelope
    let mut pts: Vec<(String, f64, f64)> = vec![("centre".into(), s0, i0)];
    let lobe = 2.0 * 2.78 / (p.len_um * 1e-6) * 3e8 / 0.05; // rough frequency scale of one sinc lobe for ~5% group-index mismatch
    for _ in 0..npts {
      let d = lobe * rng.range(-1.5, 1.5);
      pts.push(("antidiag".into(), s0 + d, i0 - d));
      pts.push(("rand".into(), s0 + span * rng.range(-0.9, 0.9) + d * 0.5, i0 + span * rng.range(-0.9, 0.9) - d * 0.5));
    }
    for (tag, os, oi) in pts {
      match triple(&spdc, &js.0, &js.1, os, oi) {
        Ok((c, ss, si, alpha)) => emit(json!({"kind":"pw","tag":tag,"integrator":integ_json(&integ),"ws":fx(os),"wi":fx(oi),
          "wp":fx(hz(spdc.pump.frequency())),"alpha":fx(alpha),"jsi":fx(c),"singles_s":fx(ss),"singles_i":fx(si),"mismatch":fx(mm),
          "setup":describe(f, &p, &spdc)})),
        Err(e) => emit(json!({"kind":"pw_panic","tag":tag,"ws":fx(os),"wi":fx(oi),"panic":e,"setup":describe(f, &p, &spdc)})),
      }
    }
  }
}

fn limit(rng: &mut Rng, nsetups: usize) {
  for k in 0..nsetups {
    let f = &FAMILIES[k % FAMILIES.len()];
    let p = Params {
      len_um: rng.log_range(500., 20000.),
      wp_um: rng.log_range(1000., 3000.),
      ws_um: rng.log_range(1000., 3000.),
      wi_um: rng.log_range(1000., 3000.),
      bw_nm: rng.log_range(0.2, 8.0),
      th_s_ext: 0.0,
      ls_nm: if k % 3 == 2 { 2.0 * f.lp_nm * rng.range(0.95, 1.05) } else { 2.0 * f.lp_nm },
      phi_s_deg: 0.0,
      temp_c: if k % 4 == 1 { rng.range(0.0, 120.0) } else { 20.0 },
      z0_um: if k % 5 == 3 { Some((-100.0 * rng.unit(), -100.0 * rng.unit())) } else { None },
    };
    let integ = if k % 2 == 0 { Integrator::Simpson { divs: 200 } } else { Integrator::GaussLegendre { degree: 40 } };
    let spdc = match build(f, &p) {
      Ok(s) => s,
      Err(e) => {
        emit(json!({"kind":"lim_setup_fail","family":f.name,"error":e,"config":config(f, &p)}));
        continue;
      }
    };
    let sp = spdc.clone();
    let r = guarded(move || {
      let mm = mismatch(&sp);
      let js = JointSpectrum::new(sp.clone(), integ);
      let jsw = JointSpectrum::new(sp.clone().with_swapped_signal_idler(), integ);
      let (os, oi) = (sp.signal.frequency(), sp.idler.frequency());
      let rho = *(sp.pump.walkoff_angle(&sp.crystal_setup) / RAD);
      (
        mm,
        *(js.jsi(os, oi) / JSIUnits::new(1.)),
        *(js.jsi_singles(os, oi) / JSIUnits::new(1.)),
        *(jsw.jsi_singles(oi, os) / JSIUnits::new(1.)),
        rho,
        *(sp.signal.theta_internal() / RAD),
        *(sp.idler.theta_internal() / RAD),
        *(sp.idler.theta_external(&sp.crystal_setup) / RAD),
      )
    });
    match r {
      Ok((mm, c, ss, si, rho, ths, thi, thie)) => emit(json!({"kind":"lim","integrator":integ_json(&integ),"mismatch":fx(mm),
        "jsi":fx(c),"singles_s":fx(ss),"singles_i":fx(si),"rho":fx(rho),"theta_s":fx(ths),"theta_i":fx(thi),"theta_i_e":fx(thie),
        "wp":fx(spdc.pump.waist().x.value_unsafe),"ws":fx(spdc.signal.waist().x.value_unsafe),"wi":fx(spdc.idler.waist().x.value_unsafe),
        "len":fx(spdc.crystal_setup.length.value_unsafe),"setup":describe(f, &p, &spdc)})),
      Err(e) => emit(json!({"kind":"lim_panic","panic":e,"setup":describe(f, &p, &spdc)})),
    }
  }
}

fn eff_cases(rng: &mut Rng, n: usize) {
  let mut cases: Vec<(f64, f64, f64)> = vec![
    (0., 0., 0.), (1., 0., 0.), (1., 2., 0.), (1., 0., 2.), (0., 2., 3.), (3., 4., 5.), (5., 5., 5.), (7., 4., 5.),
    (-0., 0., -0.), (1., -0., 3.), (1., 3., -0.), (f64::NAN, 0., 0.), (f64::INFINITY, 0., 1.), (1., 0., f64::INFINITY),
    (1., f64::INFINITY, 2.), (f64::NAN, 1., 2.), (1., f64::NAN, 2.), (1., 2., f64::NAN), (1., 0., f64::NAN), (1., f64::NAN, 0.),
    (f64::INFINITY, f64::INFINITY, f64::INFINITY), (1e300, 1e300, 1e300), (1e-300, 1e-300, 1e-300), (1e-170, 1e-160, 1e-165),
    (1e160, 1e170, 1e165), (5e-324, 5e-324, 5e-324), (1., 5e-324, 1.),
  ];
  for _ in 0..n {
    let rs = rng.log_range(1e-12, 1e12);
    let ri = rs * rng.log_range(1e-3, 1e3);
    let c = if rng.unit() < 0.7 { rs.min(ri) * rng.unit() } else { rng.log_range(1e-12, 1e12) };
    cases.push((c, rs, ri));
    if rng.unit() < 0.15 {
      cases.push((c, 0.0, ri));
      cases.push((c, rs, 0.0));
    }
  }
  for (c, rs, ri) in cases {
    eff_one(c, rs, ri);
  }
}

fn eff_one(c: f64, rs: f64, ri: f64) {
  let r = guarded(move || efficiencies_from_counts(c * spdcalc::dim::ucum::HZ, rs * spdcalc::dim::ucum::HZ, ri * spdcalc::dim::ucum::HZ));
  match r {
    Ok(e) => emit(json!({"kind":"eff","c":fx(c),"rs":fx(rs),"ri":fx(ri),"symmetric":fx(e.symmetric),"signal":fx(e.signal),"idler":fx(e.idler),
      "oc":fx(e.coincidences.value_unsafe),"ors":fx(e.signal_singles.value_unsafe),"ori":fx(e.idler_singles.value_unsafe)})),
    Err(p) => emit(json!({"kind":"eff_panic","c":fx(c),"rs":fx(rs),"ri":fx(ri),"panic":p})),
  }
}

fn grids(rng: &mut Rng, nsetups: usize, res: usize) {
  for k in 0..nsetups {
    let f = &FAMILIES[(k * 5 + 1) % FAMILIES.len()];
    let p = Params {
      len_um: rng.log_range(500., 20000.),
      wp_um: rng.log_range(20., 300.),
      ws_um: rng.log_range(20., 300.),
      wi_um: rng.log_range(20., 300.),
      bw_nm: rng.log_range(0.2, 8.0),
      th_s_ext: if rng.coin() { 0.0 } else { rng.range(0.2, 3.0) },
      ls_nm: 2.0 * f.lp_nm,
      phi_s_deg: 0.0,
      temp_c: 20.0,
      z0_um: None,
    };
    let integ = if k % 2 == 0 { Integrator::Simpson { divs: 200 } } else { Integrator::GaussLegendre { degree: 40 } };
    let spdc = match build(f, &p) {
      Ok(s) => s,
      Err(_) => continue,
    };
    let sp = spdc.clone();
    let r = guarded(move || {
      let mm = mismatch(&sp);
      let span = span_of(&sp);
      let (s0, i0) = (hz(sp.signal.frequency()), hz(sp.idler.frequency()));
      let d = 0.8 * span;
      let di = 0.61 * d; // unequal spacings on the two axes: the cell area is dws * dwi
      let g = FrequencySpace::new((w(s0 - d), w(s0 + d), res), (w(i0 - di), w(i0 + di), res));
      let e = sp.efficiencies(g, integ);
      (mm, e)
    });
    match r {
      Ok((mm, e)) => emit(json!({"kind":"grid","integrator":integ_json(&integ),"mismatch":fx(mm),"res":res,
        "c":fx(e.coincidences.value_unsafe),"rs":fx(e.signal_singles.value_unsafe),"ri":fx(e.idler_singles.value_unsafe),
        "symmetric":fx(e.symmetric),"signal":fx(e.signal),"idler":fx(e.idler),"setup":describe(f, &p, &spdc)})),
      Err(e) => emit(json!({"kind":"grid_panic","panic":e,"setup":describe(f, &p, &spdc)})),
    }
  }
}

/// `c08 probe <config-json> <idler_waist_um> <ws_bits_hex> <wi_bits_hex>`: the three intensities under several integrators
fn probe(args: &[String]) {
  let cfg = args[1].clone();
  let wi_um: f64 = args[2].parse().unwrap();
  let os = f64::from_bits(u64::from_str_radix(args[3].trim_start_matches("0x"), 16).unwrap());
  let oi = f64::from_bits(u64::from_str_radix(args[4].trim_start_matches("0x"), 16).unwrap());
  let mut spdc = SPDC::from_json(cfg).expect("config");
  spdc.idler.set_waist(wi_um * 1e-6 * M);
  spdc.assign_optimal_waist_positions();
  let integs = vec![
    Integrator::Simpson { divs: 50 }, Integrator::Simpson { divs: 200 }, Integrator::Simpson { divs: 400 }, Integrator::Simpson { divs: 1000 },
    Integrator::GaussLegendre { degree: 40 }, Integrator::GaussLegendre { degree: 80 }, Integrator::GaussLegendre { degree: 160 },
  ];
  for integ in integs {
    let js = JointSpectrum::new(spdc.clone(), integ);
    let jsw = JointSpectrum::new(spdc.clone().with_swapped_signal_idler(), integ);
    let r = triple(&spdc, &js, &jsw, os, oi);
    // diagnostic variants of the singles integral (see c08_diag.rs): v0 = as in the source, v1 = product of principal roots
    let sw = spdc.clone().with_swapped_signal_idler();
    let v = |variant: u8, sp: &SPDC, a: f64, b: f64| -> f64 {
      let sp = sp.clone();
      guarded(move || *(c08_diag::singles_variant(variant, w(a), w(b), &sp, integ) / spdcalc::PerMeter3::new(1.))).unwrap_or(f64::NAN)
    };
    let (s0, s1, i0, i1) = (v(0, &spdc, os, oi), v(1, &spdc, os, oi), v(0, &sw, oi, os), v(1, &sw, oi, os));
    let (s3, i3) = (v(3, &spdc, os, oi), v(3, &sw, oi, os));
    c08_diag::FLIPS.store(0, std::sync::atomic::Ordering::Relaxed);
    c08_diag::EVALS.store(0, std::sync::atomic::Ordering::Relaxed);
    let _ = v(2, &sw, oi, os);
    let (fl, ev) = (c08_diag::FLIPS.load(std::sync::atomic::Ordering::Relaxed), c08_diag::EVALS.load(std::sync::atomic::Ordering::Relaxed));
    let sp2 = spdc.clone();
    let pms = guarded(move || *(phasematch_singles_fiber_coupling(w(os), w(oi), &sp2, integ) / spdcalc::PerMeter3::new(1.))).unwrap_or(f64::NAN);
    match r {
      Ok((c, ss, si, a)) => emit(json!({"kind":"probe","integrator":integ_json(&integ),"jsi":fx(c),"singles_s":fx(ss),"singles_i":fx(si),"alpha":fx(a),
        "mismatch":fx(mismatch(&spdc)), "ratio_s": c / ss, "ratio_i": c / si, "jsi_dec": c,
        "copy_matches_source": pms == s0, "fixed_ratio_s": c / ss * s0 / s1, "fixed_ratio_i": c / si * i0 / i1,
        "near_ratio_s": c / ss * s0 / s3, "near_ratio_i": c / si * i0 / i3,
        "sign_flips_idler": fl, "evals_idler": ev})),
      Err(e) => emit(json!({"kind":"probe_panic","integrator":integ_json(&integ),"panic":e})),
    }
  }
}

/// `c08 gridpts <corpus-entry.jsonl> [integrator]`: the grid of `grids()` (4x4, +-0.8 span on the signal axis, 0.61 of that on the
/// idler axis) for the recorded setup: the three rates and efficiencies, and per grid point the three intensities plus the
/// scalar dump of the setup and of its exchanged twin (for the branch analysis of the generated singles integrand)
fn gridpts(args: &[String]) {
  let text = std::fs::read_to_string(&args[1]).unwrap_or_default();
  for line in text.lines() {
    let e: Value = match serde_json::from_str(line) {
      Ok(v) => v,
      Err(_) => continue,
    };
    let cfg = e["config"].as_str().unwrap_or("").to_string();
    let wi_um = e["idler_waist_um"].as_f64().unwrap_or(100.);
    let z0 = e["setup"]["waist_positions_um"].as_array().and_then(|a| Some((a.first()?.as_f64()?, a.get(1)?.as_f64()?)));
    let integ = parse_integ(args.get(2).map(|s| s.as_str()).unwrap_or(e["integrator"].as_str().unwrap_or("simpson200")));
    let id = e["id"].as_str().unwrap_or("?").to_string();
    let spdc = match build_from(cfg, wi_um, z0) {
      Ok(s) => s,
      _ => {
        emit(json!({"kind":"corpus_fail","id":id}));
        continue;
      }
    };
    let res = 4;
    let span = span_of(&spdc);
    let (s0, i0) = (hz(spdc.signal.frequency()), hz(spdc.idler.frequency()));
    let d = 0.8 * span;
    let di = 0.61 * d;
    let g = FrequencySpace::new((w(s0 - d), w(s0 + d), res), (w(i0 - di), w(i0 + di), res));
    let sp = spdc.clone();
    if let Ok(ef) = guarded(move || sp.efficiencies(g, integ)) {
      emit(json!({"kind":"grid","integrator":integ_json(&integ),"mismatch":fx(mismatch(&spdc)),"res":res,
        "c":fx(ef.coincidences.value_unsafe),"rs":fx(ef.signal_singles.value_unsafe),"ri":fx(ef.idler_singles.value_unsafe),
        "symmetric":fx(ef.symmetric),"signal":fx(ef.signal),"idler":fx(ef.idler),"setup":e["setup"].clone()}));
    }
    if args.get(3).map(|s| s.as_str()) == Some("rates") {
      continue;
    }
    let (a, b) = (spdc.clone(), spdc.clone());
    let js = match guarded(move || (JointSpectrum::new(a, integ), JointSpectrum::new(b.with_swapped_signal_idler(), integ))) {
      Ok(v) => v,
      Err(_) => continue,
    };
    for (k, (ws_, wi_)) in g.as_steps().into_iter().enumerate() {
      let (os, oi) = (hz(ws_), hz(wi_));
      if let Ok((c, ss, si, alpha)) = triple(&spdc, &js.0, &js.1, os, oi) {
        let (pa, pb) = (spdc.clone(), spdc.clone().with_swapped_signal_idler());
        let prm = guarded(move || (crate::c06::dump_params(&pa, w(os), w(oi), &[0.0]), crate::c06::dump_params(&pb, w(oi), w(os), &[0.0]))).ok();
        emit(json!({"kind":"gridpt","id":id,"k":k,"integrator":integ_json(&integ),"ws":fx(os),"wi":fx(oi),"alpha":fx(alpha),
          "jsi":fx(c),"singles_s":fx(ss),"singles_i":fx(si),"direct":prm.as_ref().map(|p| p.0.clone()),"swapped":prm.as_ref().map(|p| p.1.clone())}));
      }
    }
  }
}

fn parse_integ(s: &str) -> Integrator {
  if let Some(d) = s.strip_prefix("simpson") {
    Integrator::Simpson { divs: d.parse().unwrap_or(200) }
  } else if let Some(d) = s.strip_prefix("gl") {
    Integrator::GaussLegendre { degree: d.parse().unwrap_or(40) }
  } else {
    Integrator::Simpson { divs: 200 }
  }
}

/// `c08 corpus <file.jsonl>`: replay recorded inputs {id, config, idler_waist_um, ws, wi, integrator, setup}; emits `pw`
/// records (tag corpus:<id>) and, with every input the generated model reads, `witness` records
fn corpus(args: &[String]) {
  let text = std::fs::read_to_string(&args[1]).unwrap_or_default();
  for line in text.lines() {
    let e: Value = match serde_json::from_str(line) {
      Ok(v) => v,
      Err(_) => continue,
    };
    let cfg = e["config"].as_str().unwrap_or("").to_string();
    let wi_um = e["idler_waist_um"].as_f64().unwrap_or(100.);
    let hexf = |k: &str| f64::from_bits(u64::from_str_radix(e[k].as_str().unwrap_or("0x0").trim_start_matches("0x"), 16).unwrap_or(0));
    let (os, oi) = (hexf("ws"), hexf("wi"));
    let integ = parse_integ(e["integrator"].as_str().unwrap_or("simpson200"));
    let id = e["id"].as_str().unwrap_or("?").to_string();
    let z0 = e["setup"]["waist_positions_um"].as_array().and_then(|a| Some((a.first()?.as_f64()?, a.get(1)?.as_f64()?)));
    let spdc = match build_from(cfg, wi_um, z0) {
      Ok(s) => s,
      _ => {
        emit(json!({"kind":"corpus_fail","id":id}));
        continue;
      }
    };
    // the scalars of Model/PMParams.v for the setup and its exchanged twin (public accessors only; harness c06): input of the
    // branch analysis of the GENERATED singles integrand (vlib/C08_branch.py)
    {
      let (a, b) = (spdc.clone(), spdc.clone().with_swapped_signal_idler());
      if let Ok((pa, pb)) = guarded(move || (crate::c06::dump_params(&a, w(os), w(oi), &[0.0]), crate::c06::dump_params(&b, w(oi), w(os), &[0.0]))) {
        emit(json!({"kind":"params","id":id,"direct":pa,"swapped":pb}));
      }
    }
    let (a, b) = (spdc.clone(), spdc.clone());
    let js = match guarded(move || (JointSpectrum::new(a, integ), JointSpectrum::new(b.with_swapped_signal_idler(), integ))) {
      Ok(v) => v,
      Err(_) => {
        emit(json!({"kind":"corpus_fail","id":id}));
        continue;
      }
    };
    let sp = spdc.clone();
    let mm = guarded(move || mismatch(&sp)).unwrap_or(f64::NAN);
    match triple(&spdc, &js.0, &js.1, os, oi) {
      Ok((c, ss, si, alpha)) => emit(json!({"kind":"pw","diag": diag_ratios(&spdc, os, oi, integ),"tag":format!("corpus:{}", id),"integrator":integ_json(&integ),
        "ws":fx(os),"wi":fx(oi),"wp":fx(hz(spdc.pump.frequency())),"alpha":fx(alpha),"jsi":fx(c),"singles_s":fx(ss),"singles_i":fx(si),
        "mismatch":fx(mm),"setup":e["setup"].clone()})),
      Err(p) => emit(json!({"kind":"pw_panic","tag":format!("corpus:{}", id),"ws":fx(os),"wi":fx(oi),"panic":p,"setup":e["setup"].clone()})),
    }
    // everything the generated spectrum functions read, for the swapped (idler-singles) and the direct setup
    for (which, sp, a, b) in [("direct", spdc.clone(), os, oi), ("swapped", spdc.clone().with_swapped_signal_idler(), oi, os)] {
      let spc = sp.clone();
      let r = guarded(move || {
        let pm = *(phasematch_fiber_coupling(w(a), w(b), &spc, integ) / spdcalc::PerMeter4::new(1.));
        let pms = *(phasematch_singles_fiber_coupling(w(a), w(b), &spc, integ) / spdcalc::PerMeter3::new(1.));
        (pm, pms, *spc.signal.refractive_index(w(a), &spc.crystal_setup), *spc.idler.refractive_index(w(b), &spc.crystal_setup),
         *(spc.signal.theta_external(&spc.crystal_setup) / RAD), *(spc.idler.theta_external(&spc.crystal_setup) / RAD))
      });
      if let Ok((pm, pms, ns, ni, ths, thi)) = r {
        emit(json!({"kind":"witness","id":id,"which":which,"ws":fx(a),"wi":fx(b),"wp":fx(hz(sp.pump.frequency())),
          "fwhm":fx(sp.pump_bandwidth.value_unsafe),"thr":fx(sp.pump_spectrum_threshold),"len":fx(sp.crystal_setup.length.value_unsafe),
          "power":fx(sp.pump_average_power.value_unsafe),"deff":fx(sp.deff.value_unsafe),
          "wpx":fx(sp.pump.waist().x.value_unsafe),"wpy":fx(sp.pump.waist().y.value_unsafe),
          "wsx":fx(sp.signal.waist().x.value_unsafe),"wsy":fx(sp.signal.waist().y.value_unsafe),
          "wix":fx(sp.idler.waist().x.value_unsafe),"wiy":fx(sp.idler.waist().y.value_unsafe),
          "ths":fx(ths),"thi":fx(thi),"ns":fx(ns),"ni":fx(ni),"pp_off": sp.pp == PeriodicPoling::Off,
          "pm_re":fx(pm.re),"pm_im":fx(pm.im),"pm_singles":fx(pms)}));
      }
    }
  }
}

pub fn run(args: &[String]) {
  if args.first().map(|s| s.as_str()) == Some("probe") {
    probe(args);
    return;
  }
  if args.first().map(|s| s.as_str()) == Some("corpus") {
    corpus(args);
    return;
  }
  if args.first().map(|s| s.as_str()) == Some("gridpts") {
    gridpts(args);
    return;
  }
  if args.first().map(|s| s.as_str()) == Some("eff") {
    // `c08 eff <c_bits> <rs_bits> <ri_bits>`: one rate triple (replay)
    let h = |i: usize| f64::from_bits(u64::from_str_radix(args.get(i).map(|s| s.as_str()).unwrap_or("0x0").trim_start_matches("0x"), 16).unwrap_or(0));
    eff_one(h(1), h(2), h(3));
    return;
  }
  let seed = arg_u64(args, 0, 1);
  let nsetups = arg_u64(args, 1, 24) as usize;
  let npts = arg_u64(args, 2, 3) as usize;
  let nlim = arg_u64(args, 3, 12) as usize;
  let ngrid = arg_u64(args, 4, 4) as usize;
  let mut rng = Rng::new(seed);
  eff_cases(&mut rng, 200);
  pointwise(&mut rng, nsetups, npts);
  limit(&mut rng, nlim);
  grids(&mut rng, ngrid, 4);
}
