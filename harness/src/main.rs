//! vharness — runs the implementation (/repo, current working tree) on generated inputs and prints one JSON
//! object per observation (tie #2 of DESIGN.md).  Every f64 is printed as its bit pattern ("0x…") so the
//! consumer sees exactly the number Rust saw.
mod common;
mod c01;

fn main() {
  let args: Vec<String> = std::env::args().collect();
  if args.len() < 2 {
    eprintln!("usage: vharness <property> [args…]");
    std::process::exit(2);
  }
  // panics are classified by the callers through catch_unwind; keep stderr quiet
  std::panic::set_hook(Box::new(|_| {}));
  let rest = &args[2..];
  match args[1].as_str() {
    "c01" => c01::run(rest),
    other => {
      eprintln!("unknown property {}", other);
      std::process::exit(2);
    }
  }
}
