//! vharness — runs the implementation (/repo, current working tree) on generated inputs and prints one JSON
//! object per observation (tie #2 of DESIGN.md).  Every f64 is printed as its bit pattern ("0x…") so the
//! consumer sees exactly the number Rust saw.  One module per property; each owns its sub-command.
mod common;
mod c01;
mod c02;
mod c03;
mod c04;
mod c05;
mod c06;
mod c07;
mod c08;
mod c09;
mod c10;
mod c11;
mod c12;
mod c13;
mod c14;
mod c15;
mod c16;
mod c17;
mod c18;
mod c19;
mod c20;
mod kin;
mod pms;

fn main() {
  let args: Vec<String> = std::env::args().collect();
  if args.len() < 2 {
    eprintln!("usage: vharness <property> [args…]");
    std::process::exit(2);
  }
  // panics are classified by the callers through catch_unwind; keep stderr quiet
  std::panic::set_hook(Box::new(|_| {}));
  let rest = &args[2..];
  match args[1].as_str() {
    "c01" => c01::run(rest),
    "c02" => c02::run(rest),
    "c03" => c03::run(rest),
    "c04" => c04::run(rest),
    "c05" => c05::run(rest),
    "c06" => c06::run(rest),
    "c07" => c07::run(rest),
    "c08" => c08::run(rest),
    "c09" => c09::run(rest),
    "c10" => c10::run(rest),
    "c11" => c11::run(rest),
    "c12" => c12::run(rest),
    "c13" => c13::run(rest),
    "c14" => c14::run(rest),
    "c15" => c15::run(rest),
    "c16" => c16::run(rest),
    "c17" => c17::run(rest),
    "c18" => c18::run(rest),
    "c19" => c19::run(rest),
    "c20" => c20::run(rest),
    "kin" => kin::run(rest),
    "pms" => pms::run(rest),
    "effchain" => pms::run_eff(rest),
    other => {
      eprintln!("unknown property {}", other);
      std::process::exit(2);
    }
  }
}
