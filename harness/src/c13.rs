//! C13 observations: Beam setter histories, Snell conversions, unit conversions, automatic waist position
//! (see props/c13.py for the consumer).
//!
//! usage: vharness c13 <seed> <n_hist> <n_snell>
//!   kind "hist":  one history: constructor arguments, then for every step the op, its arguments and the full state after it
//!   kind "snell": set_theta_external(theta_e) / theta_external() round trip with the index at the stored internal angle
//!   kind "unit":  unit conversions; kind "waist": optimal_waist_position
#![allow(unused_imports, dead_code)]
use crate::common::*;
use serde_json::{json, Value};
use spdcalc::beam::*;
use spdcalc::dim::ucum::{DEG, HZ, K, M, RAD, S};
use spdcalc::math::{fwhm_to_sigma, fwhm_to_waist, normalize_angle, normalize_angle_signed, waist_to_fwhm};
use spdcalc::na::{Unit, Vector3};
use spdcalc::utils::*;
use spdcalc::*;
use std::f64::consts::PI;

fn pol_name(p: PolarizationType) -> &'static str {
  match p {
    PolarizationType::Ordinary => "o",
    PolarizationType::Extraordinary => "e",
  }
}

fn state(b: &Beam) -> Value {
  let d = b.direction().into_inner();
  json!({
    "phi": fx(*(b.phi() / RAD)), "theta": fx(*(b.theta_internal() / RAD)),
    "dir": [fx(d.x), fx(d.y), fx(d.z)],
    "omega": fx(*(b.frequency() / (RAD / S))), "lambda": fx(*(b.vacuum_wavelength() / M)),
    "pol": pol_name(b.polarization()), "waist": fx(*(b.waist().x / M)), "waist_y": fx(*(b.waist().y / M)),
  })
}

/// angle arguments: ordinary, +-400 deg, multiples of pi, tiny, huge
fn angle_arg(rng: &mut Rng) -> f64 {
  match rng.below(12) {
    0 => 0.0,
    1 => *rng.pick(&[PI, -PI, 2.0 * PI, -2.0 * PI, PI / 2.0, -PI / 2.0, 3.0 * PI, -3.0 * PI, 4.0 * PI]),
    2 => *rng.pick(&[1e-20, -1e-20, 1e-300, -1e-300, 5e-324, -5e-324, -0.0]),
    3 => *rng.pick(&[1e6, -1e6, 1e15, -1e15, 1e300, -1e300, 123456.789]),
    4 => (rng.below(9) as f64 - 4.0) * 2.0 * PI + rng.range(-1e-9, 1e-9),
    5 => PI + rng.range(-1e-12, 1e-12) * (rng.below(3) as f64),
    6 | 7 => rng.range(-400.0, 400.0) * PI / 180.0,
    _ => rng.range(-PI, PI),
  }
}

fn setup_of(crystal: &CrystalType, theta: f64, phi: f64) -> CrystalSetup {
  setup_of_t(crystal, theta, phi, 20.0)
}

fn setup_of_t(crystal: &CrystalType, theta: f64, phi: f64, t_c: f64) -> CrystalSetup {
  CrystalSetup {
    crystal: crystal.clone(),
    pm_type: PMType::Type2_e_eo,
    theta: theta * RAD,
    phi: phi * RAD,
    length: 2e-3 * M,
    temperature: from_celsius_to_kelvin(t_c),
    counter_propagation: false,
  }
}

/// in-window wavelength range of a crystal (C01 owns the window itself; guard against degenerate declarations)
fn window(crystal: &CrystalType) -> (f64, f64) {
  match crystal.get_meta().transmission_range {
    Some(r) if r.0 > 1e-8 && r.1 > r.0 => (r.0 + 0.03 * (r.1 - r.0), r.1 - 0.03 * (r.1 - r.0)),
    _ => (0.5e-6, 1.6e-6),
  }
}

fn pol_of(x: f64) -> PolarizationType {
  if x == 0.0 { PolarizationType::Ordinary } else { PolarizationType::Extraordinary }
}

/// run one recorded history: constructor arguments, then the ops in order; every intermediate state is printed
#[allow(clippy::too_many_arguments)]
fn execute(id: usize, cid: &str, setup: &CrystalSetup, pol: PolarizationType, phi0: f64, theta0: f64, lambda0: f64, waist0: f64,
           ops: &[(String, Vec<f64>)]) {
  let mut beam = Beam::new(pol, phi0 * RAD, theta0 * RAD, lambda0 * M, waist0 * M);
  let mut steps: Vec<Value> = vec![];
  let mut panicked: Option<String> = None;
  for (name, args) in ops.iter() {
    let before = beam.clone();
    let a = args.clone();
    let st = setup.clone();
    let nm = name.clone();
    // what the Snell inversion returns on the state the setter sees (the "requested" internal angle of this step)
    let snell_internal = if name == "set_theta_external" {
      guarded({ let bb = beam.clone(); let st = setup.clone(); let a0 = args[0];
        move || *(Beam::calc_internal_theta_from_external(&bb, a0 * RAD, &st) / RAD) }).ok()
    } else {
      None
    };
    let r = guarded(move || {
      let mut b = before;
      match nm.as_str() {
        "set_phi" => { b.set_phi(a[0] * RAD); }
        "set_theta_internal" => { b.set_theta_internal(a[0] * RAD); }
        "set_angles" => { b.set_angles(a[0] * RAD, a[1] * RAD); }
        "set_theta_external" => { b.set_theta_external(a[0] * RAD, &st); }
        "set_vacuum_wavelength" => { b.set_vacuum_wavelength(a[0] * M); }
        "set_frequency" => { b.set_frequency(a[0] * RAD / S); }
        "set_polarization" => { b.set_polarization(pol_of(a[0])); }
        "set_waist" => { b.set_waist(a[0] * M); }
        "with_polarization" => { b = b.with_polarization(pol_of(a[0])); }
        "into_pump" => { b = PumpBeam::from(b).as_beam(); }
        _ => {}
      }
      b
    });
    match r {
      Ok(b) => {
        beam = b;
        let extra = if name == "set_theta_external" { json!({"snell_internal": snell_internal.map(fx)}) } else { json!({}) };
        steps.push(json!({"op": name, "args": fxs(args), "after": state(&beam), "extra": extra}));
      }
      Err(msg) => {
        steps.push(json!({"op": name, "args": fxs(args), "panic": msg}));
        panicked = Some(name.to_string());
        break;
      }
    }
  }
  emit(json!({
    "kind": "hist", "id": id, "crystal": cid, "ct": fx(*(setup.theta / RAD)), "cp": fx(*(setup.phi / RAD)),
    "init": {"pol": pol_name(pol), "phi": fx(phi0), "theta": fx(theta0), "lambda": fx(lambda0), "waist": fx(waist0)},
    "init_state": state(&Beam::new(pol, phi0 * RAD, theta0 * RAD, lambda0 * M, waist0 * M)),
    "steps": steps, "panicked": panicked,
  }));
}

fn history(rng: &mut Rng, id: usize, crystals: &[(String, CrystalType)]) {
  let pols = [PolarizationType::Ordinary, PolarizationType::Extraordinary];
  let (cid, crystal) = rng.pick(crystals).clone();
  let (wlo, whi) = window(&crystal);
  let setup = setup_of(&crystal, rng.range(0.3, 1.4), rng.range(0.0, 2.0 * PI));
  let pol = *rng.pick(&pols);
  let (phi0, theta0) = (angle_arg(rng), angle_arg(rng));
  let lambda0 = rng.log_range(wlo, whi);
  let waist0 = rng.log_range(1e-6, 1e-2);
  let n = 1 + rng.below(50);
  let mut ops: Vec<(String, Vec<f64>)> = vec![];
  for _ in 0..n {
    let which = rng.below(11);
    let (name, args): (&str, Vec<f64>) = match which {
      0 => ("set_phi", vec![angle_arg(rng)]),
      1 => ("set_theta_internal", vec![angle_arg(rng)]),
      2 => ("set_angles", vec![angle_arg(rng), angle_arg(rng)]),
      3 => ("set_theta_external", vec![if rng.below(5) == 0 { 0.0 } else { rng.range(-80.0, 80.0) * PI / 180.0 }]),
      4 => ("set_vacuum_wavelength", vec![rng.log_range(wlo, whi)]),
      5 => ("set_frequency", vec![2.0 * PI * 299792458.0 / rng.log_range(wlo, whi)]),
      6 => ("set_polarization", vec![rng.below(2) as f64]),
      7 => ("set_waist", vec![rng.log_range(1e-7, 1e-1)]),
      8 => ("with_polarization", vec![rng.below(2) as f64]),
      9 => ("into_pump", vec![]),
      _ => ("set_phi", vec![angle_arg(rng)]),
    };
    ops.push((name.to_string(), args));
  }
  execute(id, &cid, &setup, pol, phi0, theta0, lambda0, waist0, &ops);
}

/// Snell round trip through <Signal|Idler>Config::try_as_beam with theta_external_deg
#[allow(clippy::too_many_arguments)]
fn config_snell(cid: &str, crystal: &CrystalType, pm: PMType, which: &'static str, ct: f64, cp: f64, t_c: f64, lambda: f64, phi_deg: f64, te_deg: f64) {
  let mut setup = setup_of_t(crystal, ct, cp, t_c);
  setup.pm_type = pm;
  let pol = if which == "signal" { pm.signal_polarization() } else { pm.idler_polarization() };
  let st = setup.clone();
  let r = guarded(move || {
    let beam: Beam = if which == "signal" {
      SignalConfig { wavelength_nm: lambda * 1e9, phi_deg, theta_deg: None, theta_external_deg: Some(te_deg), waist_um: 100.0,
                     waist_position_um: AutoCalcParam::default() }.try_as_beam(&st).map(|b| b.as_beam())
    } else {
      IdlerConfig { wavelength_nm: lambda * 1e9, phi_deg, theta_deg: None, theta_external_deg: Some(te_deg), waist_um: 100.0,
                    waist_position_um: AutoCalcParam::default() }.try_as_beam(&st).map(|b| b.as_beam())
    }.map_err(|e| e.to_string())?;
    let back = *(beam.theta_external(&st) / RAD);
    let ti = *(beam.theta_internal() / RAD);
    let n = *beam.refractive_index(beam.frequency(), &st);
    let ind = *st.crystal.get_indices(beam.vacuum_wavelength(), st.temperature);
    let d = beam.direction().into_inner();
    Ok::<_, String>((back, ti, n, [ind.x, ind.y, ind.z], [d.x, d.y, d.z], *(beam.phi() / RAD), *(beam.vacuum_wavelength() / M), pol_name(beam.polarization())))
  });
  let gen = format!("config_{}", which);
  let te = *(te_deg * DEG / RAD);
  let bphi = *(phi_deg * DEG / RAD);
  match r {
    Ok(Ok((back, ti, n, ind, d, phi, weff, bpol))) => emit(json!({
      "kind": "snell", "id": cid, "pol": bpol, "want_pol": pol_name(pol), "pm": format!("{:?}", pm), "pm_str": pm.to_string(), "which": which, "lambda_in": fx(lambda), "ct": fx(ct), "cp": fx(cp), "tc": fx(t_c),
      "lambda": fx(weff), "weff": fx(weff), "bphi": fx(bphi), "phi_deg": fx(phi_deg), "phi": fx(phi), "te": fx(te), "te_deg": fx(te_deg),
      "back": fx(back), "ti": fx(ti), "n": fx(n), "ind": fxs(&ind), "dir": fxs(&d), "gen": gen,
    })),
    Ok(Err(msg)) | Err(msg) => emit(json!({
      "kind": "snell", "id": cid, "pol": pol_name(pol), "ct": fx(ct), "cp": fx(cp), "tc": fx(t_c), "lambda": fx(lambda),
      "bphi": fx(bphi), "te": fx(te), "te_deg": fx(te_deg), "panic": msg, "gen": gen,
      "pm_str": pm.to_string(), "which": which, "lambda_in": fx(lambda), "phi_deg": fx(phi_deg),
    })),
  }
}

fn hexf(v: &Value) -> f64 {
  f64::from_bits(u64::from_str_radix(v.as_str().unwrap_or("0x0").trim_start_matches("0x"), 16).unwrap_or(0))
}

/// vharness c13 replay '<json>': {"kind": "hist", crystal, ct, cp, init: {pol, phi, theta, lambda, waist}, ops: [{op, args}]}
/// or {"kind": "snell", crystal, pol, ct, cp, lambda, bphi, te}   (floats as 0x… bit patterns)
fn replay(js: &str, crystals: &[(String, CrystalType)]) {
  let v: Value = match serde_json::from_str(js) {
    Ok(v) => v,
    Err(_) => return,
  };
  let cid = v["crystal"].as_str().unwrap_or("");
  let crystal = match crystals.iter().find(|c| c.0 == cid) {
    Some(c) => c.1.clone(),
    None => return,
  };
  let pol_str = |x: &Value| if x.as_str() == Some("o") { PolarizationType::Ordinary } else { PolarizationType::Extraordinary };
  if v["kind"] == "hist" {
    let setup = setup_of(&crystal, hexf(&v["ct"]), hexf(&v["cp"]));
    let init = &v["init"];
    let ops: Vec<(String, Vec<f64>)> = v["ops"].as_array().cloned().unwrap_or_default().iter()
      .map(|o| (o["op"].as_str().unwrap_or("").to_string(), o["args"].as_array().cloned().unwrap_or_default().iter().map(hexf).collect()))
      .collect();
    execute(0, cid, &setup, pol_str(&init["pol"]), hexf(&init["phi"]), hexf(&init["theta"]), hexf(&init["lambda"]), hexf(&init["waist"]), &ops);
  } else if v["kind"] == "config" {
    let pm = match std::str::FromStr::from_str(v["pm"].as_str().unwrap_or("")) { Ok(p) => p, Err(_) => return };
    let which: &'static str = if v["which"] == "idler" { "idler" } else { "signal" };
    config_snell(cid, &crystal, pm, which, hexf(&v["ct"]), hexf(&v["cp"]), hexf(&v["tc"]), hexf(&v["lambda"]), hexf(&v["phi_deg"]), hexf(&v["te_deg"]));
  } else if v["kind"] == "snell" {
    let t_c = if v["tc"].is_string() { hexf(&v["tc"]) } else { 20.0 };
    snell_at(cid, &crystal, pol_str(&v["pol"]), hexf(&v["ct"]), hexf(&v["cp"]), t_c, hexf(&v["lambda"]), hexf(&v["te"]), hexf(&v["bphi"]), "replay");
  }
}

fn snell(rng: &mut Rng, cid: &str, crystal: &CrystalType, pol: PolarizationType, theta_e_deg: f64, bphi: f64, gen: &str) {
  // crystal angle: the whole quadrant incl. 0 and 90 deg and their neighbourhoods; temperature: 20 C or anywhere in -50..200 C
  let ct = match rng.below(8) {
    0 => *rng.pick(&[0.0, 1e-3, 0.05, PI / 2.0, PI / 2.0 - 1e-3, PI / 2.0 - 0.05]),
    1 | 2 => rng.range(0.0, PI / 2.0),
    _ => rng.range(0.35, 1.45),
  };
  let cp = rng.range(0.0, 2.0 * PI);
  let t_c = if rng.coin() { 20.0 } else { rng.range(-50.0, 200.0) };
  let (wlo, whi) = window(crystal);
  let lambda = rng.range(wlo, whi);
  snell_at(cid, crystal, pol, ct, cp, t_c, lambda, theta_e_deg * PI / 180.0, bphi, gen);
}

#[allow(clippy::too_many_arguments)]
fn snell_at(cid: &str, crystal: &CrystalType, pol: PolarizationType, ct: f64, cp: f64, t_c: f64, lambda: f64, te: f64, bphi: f64, gen: &str) {
  let setup = setup_of_t(crystal, ct, cp, t_c);
  let theta_e_deg = te * 180.0 / PI;
  let beam0 = Beam::new(pol, bphi * RAD, 0.1 * RAD, lambda * M, 100e-6 * M);
  // replica of calc_internal_theta_from_external's optimisation from public API, with its evaluation table (tie to the
  // Nelder-Mead model of coq/Model/NM1d.v): same cost closure, seeds, iteration budget, bounds and tolerance
  let replica = {
    let b = beam0.clone();
    let st = setup.clone();
    let sign = te.signum();
    let snell_external = te.sin().abs();
    let guess = te.abs();
    let phi = b.phi();
    let curve = move |internal: f64| {
      let direction = direction_from_polar(phi, sign * internal * RAD);
      let n = st.index_along(b.vacuum_wavelength(), direction, b.polarization());
      (snell_external - (*n) * f64::sin(internal)).abs()
    };
    let (r, table) = crate::c04::nm_traced(curve, (guess, guess + 1.0), 100, 0.0, std::f64::consts::FRAC_PI_2, 1e-12);
    let direct = guarded({ let b = beam0.clone(); let st = setup.clone(); move || *(Beam::calc_internal_theta_from_external(&b, te * RAD, &st) / RAD) });
    json!({
      "result": match &r { Ok(x) => json!({"ok": true, "x": fx(*x)}), Err(m) => json!({"ok": false, "panic": m}) },
      "signed": r.as_ref().ok().map(|x| fx(sign * *x)),
      "table": Value::Array(table.iter().map(|(x, c)| json!([fx(*x), fx(*c)])).collect()),
      "g0": fx(guess), "g1": fx(guess + 1.0), "max_iter": 100, "min": fx(0.0), "max": fx(std::f64::consts::FRAC_PI_2), "tol": fx(1e-12),
      "direct": direct.ok().map(fx),
    })
  };
  let st = setup.clone();
  let r = guarded(move || {
    let mut b = beam0;
    b.set_theta_external(te * RAD, &st);
    let back = *(b.theta_external(&st) / RAD);
    let ti = *(b.theta_internal() / RAD);
    let n = *b.refractive_index(b.frequency(), &st);
    let ind = *st.crystal.get_indices(b.vacuum_wavelength(), st.temperature);
    let d = b.direction().into_inner();
    (back, ti, n, [ind.x, ind.y, ind.z], [d.x, d.y, d.z], *(b.phi() / RAD), *(b.vacuum_wavelength() / M))
  });
  match r {
    Ok((back, ti, n, ind, d, phi, weff)) => emit(json!({
      "kind": "snell", "id": cid, "pol": pol_name(pol), "ct": fx(ct), "cp": fx(cp), "tc": fx(t_c), "lambda": fx(lambda), "weff": fx(weff),
      "bphi": fx(bphi), "phi": fx(phi), "te": fx(te), "te_deg": fx(theta_e_deg), "back": fx(back), "ti": fx(ti), "n": fx(n),
      "ind": fxs(&ind), "dir": fxs(&d), "gen": gen, "replica": replica,
    })),
    Err(msg) => emit(json!({
      "kind": "snell", "id": cid, "pol": pol_name(pol), "ct": fx(ct), "cp": fx(cp), "tc": fx(t_c), "lambda": fx(lambda),
      "bphi": fx(bphi), "te": fx(te), "te_deg": fx(theta_e_deg), "panic": msg, "gen": gen,
    })),
  }
}

pub fn run(args: &[String]) {
  let seed = arg_u64(args, 0, 1);
  let n_hist = arg_u64(args, 1, 20) as usize;
  let n_snell = arg_u64(args, 2, 3) as usize;
  let mut rng = Rng::new(seed);
  let crystals: Vec<(String, CrystalType)> = CrystalType::get_all_meta()
    .iter()
    .filter_map(|m| CrystalType::from_string(m.id).ok().map(|c| (m.id.to_string(), c)))
    .collect();
  if args.first().map(|s| s == "replay").unwrap_or(false) {
    if let Some(js) = args.get(1) {
      replay(js, &crystals);
    }
    return;
  }
  for id in 0..n_hist {
    history(&mut rng, id, &crystals);
  }
  // ---- Snell round trips: crystals x polarizations x azimuths x external angles
  let pols = [PolarizationType::Ordinary, PolarizationType::Extraordinary];
  for (cid, crystal) in crystals.iter() {
    for pol in pols {
      for te in [0.0, 1e-6, 80.0, 79.999, 13.0, 45.0] {
        let bphi = *rng.pick(&[0.0, PI / 2.0, PI, 1.0]);
        snell(&mut rng, cid, crystal, pol, te, bphi, "fixed");
      }
      for k in 0..n_snell {
        // the property's range is [0, 80] deg; every third draw is the mirrored (negative) angle
        let te = rng.range(0.0, 80.0) * if k % 3 == 2 { -1.0 } else { 1.0 };
        let bphi = rng.range(0.0, 2.0 * PI);
        snell(&mut rng, cid, crystal, pol, te, bphi, "rand");
      }
      // the refracted beam runs (almost) along an optic axis: crystal tilt = internal angle, azimuth pi (uniaxial crystals;
      // for biaxial ones this is just another orientation)
      for k in 0..1.max(n_snell / 3) {
        let (wlo, whi) = window(crystal);
        let lambda = rng.range(wlo, whi);
        let ti = rng.range(0.05, 0.45);
        let cp = rng.range(0.0, 2.0 * PI);
        let offs = [0.0, 1e-9, 1e-7, 1e-5, 1e-3][k % 5];
        let st0 = setup_of(crystal, ti, cp);
        let b0 = Beam::new(pol, PI * RAD, ti * RAD, lambda * M, 100e-6 * M);
        let n0 = *b0.refractive_index(b0.frequency(), &setup_of(crystal, ti + 0.01, cp));
        let _ = st0;
        let te = (n0 * ti.sin()).min(0.98).asin();
        if te <= 80.0 * PI / 180.0 {
          snell_at(cid, crystal, pol, ti + offs, cp, 20.0, lambda, te, PI, "onaxis");
        }
      }
      // small external angles (log-uniform)
      for _ in 0..1.max(n_snell / 3) {
        let te = rng.log_range(1e-5, 1.0);
        let bphi = rng.range(0.0, 2.0 * PI);
        snell(&mut rng, cid, crystal, pol, te, bphi, "small");
      }
    }
  }
  // ---- the same clause through the flat configuration: SignalConfig / IdlerConfig::try_as_beam with phi_deg != 0 and
  //      theta_external_deg (the azimuth must be in place BEFORE Snell's law is solved), and with theta_deg
  let pm_all = [PMType::Type0_o_oo, PMType::Type0_e_ee, PMType::Type1_e_oo, PMType::Type2_e_eo, PMType::Type2_e_oe];
  for (cid, crystal) in crystals.iter() {
    for (k, pm) in pm_all.iter().enumerate() {
      for which in ["signal", "idler"] {
        for j in 0..1.max(n_snell / 2) {
          let ct = if j % 2 == 0 { 30.0 * PI / 180.0 } else { rng.range(0.0, PI / 2.0) };
          let cp = rng.range(0.0, 2.0 * PI);
          let t_c = if rng.coin() { 20.0 } else { rng.range(-50.0, 200.0) };
          let mut setup = setup_of_t(crystal, ct, cp, t_c);
          setup.pm_type = *pm;
          let (wlo, whi) = window(crystal);
          let lambda = rng.range(wlo, whi);
          let phi_deg = match (k + j) % 4 { 0 => 60.0, 1 => rng.range(5.0, 355.0), 2 => -rng.range(5.0, 175.0), _ => 360.0 + rng.range(5.0, 80.0) };
          let te_deg = match j % 3 { 0 => rng.range(0.5, 80.0), 1 => 1.0, _ => -rng.range(0.5, 80.0) };
          config_snell(cid, crystal, *pm, which, ct, cp, t_c, lambda, phi_deg, te_deg);
          // theta_deg path: angles as requested
          if j == 0 {
            let th_deg = rng.range(-40.0, 40.0);
            let st = setup.clone();
            let r = guarded(move || {
              let beam: Beam = if which == "signal" {
                SignalConfig { wavelength_nm: lambda * 1e9, phi_deg, theta_deg: Some(th_deg), theta_external_deg: None, waist_um: 100.0,
                               waist_position_um: AutoCalcParam::default() }.try_as_beam(&st).map(|b| b.as_beam())
              } else {
                IdlerConfig { wavelength_nm: lambda * 1e9, phi_deg, theta_deg: Some(th_deg), theta_external_deg: None, waist_um: 100.0,
                              waist_position_um: AutoCalcParam::default() }.try_as_beam(&st).map(|b| b.as_beam())
              }.map_err(|e| e.to_string())?;
              Ok::<_, String>(state(&beam))
            });
            emit(json!({"kind": "cfgangles", "id": cid, "which": which, "phi_deg": fx(phi_deg), "theta_deg": fx(th_deg),
                        "phi_req": fx(*(phi_deg * DEG / RAD)), "theta_req": fx(*(th_deg * DEG / RAD)),
                        "state": match r { Ok(Ok(v)) => v, _ => Value::Null }}));
          }
        }
      }
    }
  }
  // ---- unit conversions
  for i in 0..(10 + n_hist) {
    let lambda = if i == 0 { 1550e-9 } else { rng.log_range(1e-8, 1e-3) };
    let omega = *(vacuum_wavelength_to_frequency(lambda * M) / (RAD / S));
    let back = *(frequency_to_vacuum_wavelength(omega * RAD / S) / M);
    let om_in = rng.log_range(1e12, 1e17);
    let l2 = *(frequency_to_vacuum_wavelength(om_in * RAD / S) / M);
    let om_back = *(vacuum_wavelength_to_frequency(l2 * M) / (RAD / S));
    let c = rng.range(-273.0, 1000.0);
    let k = *(from_celsius_to_kelvin(c) / K);
    let c_back = from_kelvin_to_celsius(k * K);
    let k_in = rng.range(0.0, 2000.0);
    let k_back = *(from_celsius_to_kelvin(from_kelvin_to_celsius(k_in * K)) / K);
    let x = rng.log_range(1e-9, 1e3);
    let (sig, w, fw) = (fwhm_to_sigma(x), fwhm_to_waist(x), waist_to_fwhm(fwhm_to_waist(x)));
    let w2 = fwhm_to_waist(waist_to_fwhm(x));
    emit(json!({
      "kind": "unit", "lambda": fx(lambda), "omega": fx(omega), "lambda_back": fx(back),
      "omega_in": fx(om_in), "lambda2": fx(l2), "omega_back": fx(om_back),
      "c": fx(c), "k": fx(k), "c_back": fx(c_back), "k_in": fx(k_in), "k_back": fx(k_back),
      "x": fx(x), "sigma": fx(sig), "waist": fx(w), "fwhm_back": fx(fw), "waist_back": fx(w2),
    }));
  }
  // ---- normalisation functions on their own
  for _ in 0..(20 + 2 * n_hist) {
    let a = angle_arg(&mut rng);
    emit(json!({"kind": "norm", "x": fx(a), "u": fx(*(normalize_angle(a * RAD) / RAD)), "s": fx(*(normalize_angle_signed(a * RAD) / RAD))}));
  }
  // ---- automatic waist position: the function itself (crystal angle over the whole quadrant, any temperature) …
  for (cid, crystal) in crystals.iter() {
    for pol in pols {
      for k in 0..2.max(n_snell / 2) {
        let ct = if k == 0 { *rng.pick(&[0.0, PI / 2.0, 1e-3]) } else { rng.range(0.0, PI / 2.0) };
        let cp = rng.range(0.0, 2.0 * PI);
        let t_c = if rng.coin() { 20.0 } else { rng.range(-50.0, 200.0) };
        let mut setup = setup_of_t(crystal, ct, cp, t_c);
        let len = rng.log_range(1e-4, 5e-2);
        setup.length = len * M;
        let (wlo, whi) = window(crystal);
        let lambda = rng.range(wlo, whi);
        let z = guarded({ let st = setup.clone(); move || *(st.optimal_waist_position(lambda * M, pol) / M) });
        let nz = guarded({ let st = setup.clone(); move || *st.index_along(lambda * M, Unit::new_normalize(Vector3::z()), pol) });
        emit(json!({"kind": "waist", "id": cid, "pol": pol_name(pol), "ct": fx(ct), "cp": fx(cp), "tc": fx(t_c), "len": fx(len), "lambda": fx(lambda),
                    "z": z.ok().map(fx), "nz": nz.ok().map(fx)}));
      }
    }
  }
  // ---- … and its callers: SPDCConfig::try_as_spdc with `auto` positions, SPDC::assign_optimal_waist_positions,
  //      with_optimal_waist_positions, try_as_optimum — for signal/idler pairs of different polarization and wavelength
  let pm_types = ["o->oo", "e->ee", "e->oo", "e->eo", "e->oe"];
  for (cid, crystal) in crystals.iter() {
    for (k, pm) in pm_types.iter().enumerate() {
      let (wlo, whi) = window(crystal);
      // non-degenerate pair with all three wavelengths inside the window where possible
      let ls = rng.range(wlo + 0.45 * (whi - wlo), wlo + 0.8 * (whi - wlo));
      let li = ls * rng.range(1.08, 1.25);
      let lp = 1.0 / (1.0 / ls + 1.0 / li);
      let theta_deg = rng.range(15.0, 85.0);
      let phi_deg = rng.range(0.0, 360.0);
      let len_um = rng.log_range(200.0, 20000.0);
      let t_c = if k % 2 == 0 { 20.0 } else { rng.range(-50.0, 200.0) };
      let cfg = json!({
        "crystal": {"kind": cid, "pm_type": pm, "phi_deg": phi_deg, "theta_deg": theta_deg, "length_um": len_um, "temperature_c": t_c},
        "pump": {"wavelength_nm": lp * 1e9, "waist_um": 100, "bandwidth_nm": 5.35, "average_power_mw": 1},
        "signal": {"wavelength_nm": ls * 1e9, "phi_deg": 0, "theta_deg": 0, "waist_um": 100, "waist_position_um": "auto"},
        "idler": {"wavelength_nm": li * 1e9, "phi_deg": 180, "theta_deg": 0, "waist_um": 100, "waist_position_um": "auto"},
        "periodic_poling": Value::Null, "deff_pm_per_volt": 1.0
      });
      let built = guarded({ let c = cfg.clone(); move || serde_json::from_value::<SPDCConfig>(c).ok().and_then(|c| c.try_as_spdc().ok()) });
      let spdc = match built { Ok(Some(s)) => s, _ => { emit(json!({"kind": "spdcwaist", "id": cid, "pm": pm, "path": "try_as_spdc", "built": false})); continue; } };
      let report = |path: &str, s: &SPDC| {
        let nz = |b: &Beam| guarded({ let st = s.crystal_setup.clone(); let w = b.vacuum_wavelength(); let p = b.polarization();
                                      move || *st.index_along(w, Unit::new_normalize(Vector3::z()), p) }).ok();
        emit(json!({
          "kind": "spdcwaist", "id": cid, "pm": pm, "path": path, "built": true, "len": fx(*(s.crystal_setup.length / M)),
          "theta_deg": fx(theta_deg), "phi_deg": fx(phi_deg), "tc": fx(t_c),
          "ls": fx(*(s.signal.vacuum_wavelength() / M)), "li": fx(*(s.idler.vacuum_wavelength() / M)),
          "ps": pol_name(s.signal.polarization()), "pi": pol_name(s.idler.polarization()),
          "zs": fx(*(s.signal_waist_position / M)), "zi": fx(*(s.idler_waist_position / M)),
          "nzs": nz(&s.signal).map(fx), "nzi": nz(&s.idler).map(fx),
        }));
      };
      report("try_as_spdc", &spdc);
      let mut a = spdc.clone();
      a.signal_waist_position = 0.0 * M;
      a.idler_waist_position = 0.0 * M;
      if guarded({ let mut b = a.clone(); move || { b.assign_optimal_waist_positions(); b } }).map(|b| report("assign_optimal_waist_positions", &b)).is_err() {
        emit(json!({"kind": "spdcwaist", "id": cid, "pm": pm, "path": "assign_optimal_waist_positions", "built": false}));
      }
      if let Ok(b) = guarded({ let b = a.clone(); move || b.with_optimal_waist_positions() }) {
        report("with_optimal_waist_positions", &b);
      }
      if let Ok(Ok(b)) = guarded({ let b = a.clone(); move || b.try_as_optimum() }) {
        report("try_as_optimum", &b);
      }
    }
  }
}
