//! C15 observations: the REAL `rayon::iter::plumbing::Producer::split_at` of ParIterator1D / ParIterator2D driven along explicit
//! binary split trees (the producer is obtained through `with_producer`), and end-to-end runs of the parallel call sites on
//! rayon pools of 1..16 threads.  Consumer: props/c15.py.   usage: vharness c15 <seed> <n> [trees|pools|nested|all]
#![allow(unused_imports, dead_code)]
use crate::common::*;
use rayon::iter::plumbing::{Producer, ProducerCallback};
use rayon::iter::{IndexedParallelIterator, IntoParallelIterator, ParallelIterator};
use serde_json::{json, Value};
use spdcalc::dim::ucum::{M, RAD, S};
use spdcalc::dim::Dimensioned;
use spdcalc::jsa::{FrequencySpace, IntoSignalIdlerIterator, SumDiffFrequencySpace, WavelengthSpace};
use spdcalc::math::Integrator;
use spdcalc::utils::{Steps, Steps2D};
use spdcalc::{Complex, Frequency, SPDC};
use std::sync::mpsc;
use std::time::Duration;

#[derive(Clone, Debug)]
pub enum Tree {
  Leaf,
  Node(usize, Box<Tree>, Box<Tree>),
}

impl Tree {
  fn enc(&self, s: &mut String) {
    match self {
      Tree::Leaf => s.push('L'),
      Tree::Node(k, l, r) => {
        s.push('N');
        s.push_str(&k.to_string());
        s.push('(');
        l.enc(s);
        s.push(',');
        r.enc(s);
        s.push(')');
      }
    }
  }
  fn encode(&self) -> String {
    let mut s = String::new();
    self.enc(&mut s);
    s
  }
}

/// every tree whose splits are proper (1 <= k <= len-1) on a producer of length `len`
fn all_trees(len: usize, memo: &mut Vec<Option<Vec<Tree>>>) -> Vec<Tree> {
  if let Some(Some(v)) = memo.get(len) {
    return v.clone();
  }
  let mut out = vec![Tree::Leaf];
  for k in 1..len {
    let ls = all_trees(k, memo);
    let rs = all_trees(len - k, memo);
    for l in &ls {
      for r in &rs {
        out.push(Tree::Node(k, Box::new(l.clone()), Box::new(r.clone())));
      }
    }
  }
  while memo.len() <= len {
    memo.push(None);
  }
  memo[len] = Some(out.clone());
  out
}

/// random tree; `edge` allows the degenerate split points (0 / len) where the producer admits them
fn random_tree(rng: &mut Rng, len: usize, depth: usize, lo: usize, allow_full: bool) -> Tree {
  if depth == 0 || len < lo.max(1) || (len < 2 && !allow_full) || rng.below(6) == 0 {
    return Tree::Leaf;
  }
  let hi = if allow_full { len } else { len - 1 };
  if hi < lo {
    return Tree::Leaf;
  }
  let k = match rng.below(6) {
    0 => lo,
    1 => hi,
    2 => (len / 2).clamp(lo, hi),
    3 => (lo + 1).min(hi),
    _ => lo + rng.below(hi - lo + 1),
  };
  Tree::Node(k, Box::new(random_tree(rng, k, depth - 1, lo, allow_full)), Box::new(random_tree(rng, len - k, depth - 1, lo, allow_full)))
}

/// the tree rayon's bridge builds for `threads` workers when no job is stolen: halve while the split budget lasts
fn rayon_like(len: usize, splits: usize) -> Tree {
  if splits == 0 || len / 2 < 1 {
    return Tree::Leaf;
  }
  let mid = len / 2;
  Tree::Node(mid, Box::new(rayon_like(mid, splits / 2)), Box::new(rayon_like(len - mid, splits / 2)))
}

pub struct LeafOut<T> {
  pub items: Vec<T>,
  pub len_reported: usize,
}

struct Drive<'a> {
  tree: &'a Tree,
  back: bool,
  /// call ExactSizeIterator::len() on the leaf iterator (not on adaptor iterators such as enumerate's Zip, whose default
  /// len() asserts an exact size_hint, which Iterator1D/2D do not provide)
  ask_len: bool,
}

fn walk<P: Producer>(t: &Tree, p: P, back: bool, ask_len: bool, out: &mut Vec<LeafOut<P::Item>>) {
  match t {
    Tree::Leaf => {
      let it = p.into_iter();
      let len_reported = if ask_len { it.len() } else { 0 };
      let items: Vec<P::Item> = if back {
        let mut v: Vec<P::Item> = it.rev().collect();
        v.reverse();
        v
      } else {
        it.collect()
      };
      out.push(LeafOut { items, len_reported });
    }
    Tree::Node(k, l, r) => {
      let (a, b) = p.split_at(*k);
      walk(l, a, back, ask_len, out);
      walk(r, b, back, ask_len, out);
    }
  }
}

impl<'a, T: Send> ProducerCallback<T> for Drive<'a> {
  type Output = Vec<LeafOut<T>>;
  fn callback<P: Producer<Item = T>>(self, producer: P) -> Self::Output {
    let mut out = vec![];
    walk(self.tree, producer, self.back, self.ask_len, &mut out);
    out
  }
}

fn drive1d(s: f64, e: f64, n: usize, t: &Tree, back: bool) -> Result<Vec<LeafOut<f64>>, String> {
  let t = t.clone();
  guarded(move || Steps(s, e, n).into_par_iter().with_producer(Drive { tree: &t, back, ask_len: true }))
}
fn drive1d_enum(s: f64, e: f64, n: usize, t: &Tree) -> Result<Vec<LeafOut<(usize, f64)>>, String> {
  let t = t.clone();
  guarded(move || Steps(s, e, n).into_par_iter().enumerate().with_producer(Drive { tree: &t, back: false, ask_len: false }))
}
fn drive2d(x: (f64, f64, usize), y: (f64, f64, usize), t: &Tree, back: bool) -> Result<Vec<LeafOut<(f64, f64)>>, String> {
  let t = t.clone();
  guarded(move || Steps2D(x, y).into_par_iter().with_producer(Drive { tree: &t, back, ask_len: true }))
}
fn drive2d_enum(x: (f64, f64, usize), y: (f64, f64, usize), t: &Tree) -> Result<Vec<LeafOut<(usize, (f64, f64))>>, String> {
  let t = t.clone();
  guarded(move || Steps2D(x, y).into_par_iter().enumerate().with_producer(Drive { tree: &t, back: false, ask_len: false }))
}

fn emit_tree1d(root: usize, s: f64, e: f64, n: usize, t: &Tree, back: bool, with_enum: bool) {
  let mut o = json!({"kind": "tree1d", "root": root, "tree": t.encode(), "back": back});
  match drive1d(s, e, n, t, back) {
    Ok(leaves) => {
      let lens: Vec<usize> = leaves.iter().map(|l| l.items.len()).collect();
      let reported: Vec<usize> = leaves.iter().map(|l| l.len_reported).collect();
      let vals: Vec<f64> = leaves.iter().flat_map(|l| l.items.iter().cloned()).collect();
      o["lens"] = json!(lens);
      o["reported"] = json!(reported);
      o["vals"] = fxs(&vals);
    }
    Err(m) => o["panic"] = json!(m),
  }
  if with_enum {
    match drive1d_enum(s, e, n, t) {
      Ok(leaves) => {
        let idx: Vec<usize> = leaves.iter().flat_map(|l| l.items.iter().map(|p| p.0)).collect();
        let vals: Vec<f64> = leaves.iter().flat_map(|l| l.items.iter().map(|p| p.1)).collect();
        o["enum_idx"] = json!(idx);
        o["enum_vals"] = fxs(&vals);
      }
      Err(m) => o["enum_panic"] = json!(m),
    }
  }
  emit(o);
}

fn flat(p: &[(f64, f64)]) -> Value {
  let mut v = Vec::with_capacity(2 * p.len());
  for (x, y) in p {
    v.push(fx(*x));
    v.push(fx(*y));
  }
  Value::Array(v)
}

fn emit_tree2d(root: usize, x: (f64, f64, usize), y: (f64, f64, usize), t: &Tree, back: bool, with_enum: bool, seq: &[(f64, f64)], full: bool) {
  let mut o = json!({"kind": "tree2d", "root": root, "tree": t.encode(), "back": back});
  match drive2d(x, y, t, back) {
    Ok(leaves) => {
      let lens: Vec<usize> = leaves.iter().map(|l| l.items.len()).collect();
      let reported: Vec<usize> = leaves.iter().map(|l| l.len_reported).collect();
      let vals: Vec<(f64, f64)> = leaves.iter().flat_map(|l| l.items.iter().cloned()).collect();
      o["lens"] = json!(lens);
      o["reported"] = json!(reported);
      if full {
        o["vals"] = flat(&vals);
      } else {
        // long grids: positions whose bits differ from the sequential traversal (expected: none)
        let mut diff = vec![];
        for i in 0..vals.len().max(seq.len()) {
          let same = i < vals.len() && i < seq.len() && vals[i].0.to_bits() == seq[i].0.to_bits() && vals[i].1.to_bits() == seq[i].1.to_bits();
          if !same && diff.len() < 8 {
            diff.push(i);
          }
        }
        o["total"] = json!(vals.len());
        o["diff_positions"] = json!(diff);
      }
    }
    Err(m) => o["panic"] = json!(m),
  }
  if with_enum {
    match drive2d_enum(x, y, t) {
      Ok(leaves) => {
        let idx: Vec<usize> = leaves.iter().flat_map(|l| l.items.iter().map(|p| p.0)).collect();
        let ok = idx.iter().enumerate().all(|(i, k)| i == *k);
        let vals_same = leaves.iter().flat_map(|l| l.items.iter()).enumerate().all(|(i, p)| i < seq.len() && p.1 .0.to_bits() == seq[i].0.to_bits() && p.1 .1.to_bits() == seq[i].1.to_bits());
        o["enum_total"] = json!(idx.len());
        o["enum_idx_ok"] = json!(ok);
        o["enum_vals_same"] = json!(vals_same);
      }
      Err(m) => o["enum_panic"] = json!(m),
    }
  }
  emit(o);
}

fn roots1d(rng: &mut Rng, k: usize) -> (f64, f64, &'static str) {
  match k % 5 {
    0 => {
      // dyadic: exact in binary64 when n-1 is a power of two (and close to exact otherwise)
      (((rng.below(64) as f64) - 32.), ((rng.below(64) as f64) - 32.), "dyadic")
    }
    1 => {
      let a = rng.range(1.0e15, 1.4e15);
      (a, a + rng.range(1e12, 2e14), "freq")
    }
    2 => {
      let a = rng.range(-10., 10.);
      (a, a - rng.range(0.01, 20.), "desc")
    }
    3 => (-1., 1., "unit"),
    _ => {
      let a = rng.range(0.4e-6, 3e-6);
      (a, a + rng.range(1e-9, 400e-9), "wavelength")
    }
  }
}

fn trees_mode(rng: &mut Rng, n: usize, thorough: bool) {
  let mut memo: Vec<Option<Vec<Tree>>> = vec![];
  let mut root = 0usize;
  let exhaustive_max = if thorough { 8 } else { 7 };
  // ---- 1-D: all proper trees for short ranges
  for len in 0..=exhaustive_max {
    for rep in 0..2 {
      let (s, e, cls) = roots1d(rng, rep * 3 + len);
      let seq: Vec<f64> = Steps(s, e, len).into_iter().collect();
      emit(json!({"kind": "root1d", "root": root, "cls": cls, "s": fx(s), "e": fx(e), "n": len, "seq": fxs(&seq), "mode": "all"}));
      let trees = all_trees(len, &mut memo);
      for (i, t) in trees.iter().enumerate() {
        emit_tree1d(root, s, e, len, t, i % 7 == 3, i % 5 == 0);
      }
      root += 1;
    }
  }
  // ---- 1-D: every single split and every two-level tree shape sampled, lengths up to 64
  for len in 2..=64usize {
    let (s, e, cls) = roots1d(rng, len);
    let seq: Vec<f64> = Steps(s, e, len).into_iter().collect();
    emit(json!({"kind": "root1d", "root": root, "cls": cls, "s": fx(s), "e": fx(e), "n": len, "seq": fxs(&seq), "mode": "single+double"}));
    for k in 1..=len {
      // k = len: empty right half (admissible for this producer; rayon's `take`/`skip` adaptors produce it)
      emit_tree1d(root, s, e, len, &Tree::Node(k, Box::new(Tree::Leaf), Box::new(Tree::Leaf)), false, k % 9 == 1);
    }
    for _ in 0..(if thorough { 24 } else { 6 }) {
      let k = 1 + rng.below(len - 1);
      let l = if k >= 2 { Tree::Node(1 + rng.below(k - 1), Box::new(Tree::Leaf), Box::new(Tree::Leaf)) } else { Tree::Leaf };
      let r = if len - k >= 2 { Tree::Node(1 + rng.below(len - k - 1), Box::new(Tree::Leaf), Box::new(Tree::Leaf)) } else { Tree::Leaf };
      emit_tree1d(root, s, e, len, &Tree::Node(k, Box::new(l), Box::new(r)), rng.coin(), false);
    }
    for threads in [1usize, 2, 3, 4, 8, 16] {
      emit_tree1d(root, s, e, len, &rayon_like(len, threads), false, false);
    }
    root += 1;
  }
  // ---- 1-D: random deep trees on long ranges
  for i in 0..(3 * n) {
    let len = match i % 3 {
      0 => 10000,
      1 => 65 + rng.below(1000),
      _ => 1000 + rng.below(9000),
    };
    let (s, e, cls) = roots1d(rng, i);
    let seq: Vec<f64> = Steps(s, e, len).into_iter().collect();
    emit(json!({"kind": "root1d", "root": root, "cls": cls, "s": fx(s), "e": fx(e), "n": len, "seq": fxs(&seq), "mode": "random"}));
    for j in 0..3 {
      let depth = 6 + rng.below(8);
      // a bare Leaf says nothing about splitting: redraw until the root is a node
      let mut t = if j == 2 { rayon_like(len, 16 << rng.below(4)) } else { random_tree(rng, len, depth, 1, j == 1) };
      while matches!(t, Tree::Leaf) && len >= 2 {
        t = random_tree(rng, len, depth, 1, j == 1);
      }
      emit_tree1d(root, s, e, len, &t, j == 1, j == 0);
    }
    root += 1;
  }
  // ---- 2-D: all proper trees for small grids
  let shapes: &[(usize, usize)] = if thorough { &[(0, 0), (0, 3), (1, 1), (2, 1), (1, 3), (2, 2), (5, 1), (2, 3), (3, 2), (7, 1), (2, 4), (4, 2)] }
                                  else { &[(0, 0), (0, 3), (1, 1), (2, 1), (1, 3), (2, 2), (2, 3), (3, 2), (7, 1)] };
  for (nx, ny) in shapes {
    let (x0, x1, _) = roots1d(rng, nx + ny);
    let (y0, y1, _) = roots1d(rng, nx * 3 + 1);
    let x = (x0, x1, *nx);
    let y = (y0, y1, *ny);
    let seq: Vec<(f64, f64)> = match guarded(move || Steps2D(x, y).into_iter().collect::<Vec<(f64, f64)>>()) {
      Ok(v) => v,
      Err(m) => {
        emit(json!({"kind": "seq_panic", "what": "Steps2D(x, y).into_iter().collect()", "x": [fx(x.0), fx(x.1), x.2], "y": [fx(y.0), fx(y.1), y.2], "message": m}));
        root += 1;
        continue;
      }
    };
    emit(json!({"kind": "root2d", "root": root, "x0": fx(x0), "x1": fx(x1), "nx": nx, "y0": fx(y0), "y1": fx(y1), "ny": ny, "seq": flat(&seq), "mode": "all"}));
    let trees = all_trees(nx * ny, &mut memo);
    for (i, t) in trees.iter().enumerate() {
      emit_tree2d(root, x, y, t, i % 7 == 3, i % 5 == 0, &seq, true);
    }
    // degenerate split points 0 and len are admissible for the 2-D producer
    let len = nx * ny;
    for t in [Tree::Node(0, Box::new(Tree::Leaf), Box::new(Tree::Leaf)), Tree::Node(len, Box::new(Tree::Leaf), Box::new(Tree::Leaf)),
              Tree::Node(0, Box::new(Tree::Leaf), Box::new(Tree::Node(len, Box::new(Tree::Leaf), Box::new(Tree::Leaf))))] {
      emit_tree2d(root, x, y, &t, false, true, &seq, true);
    }
    root += 1;
  }
  // ---- 2-D: single splits for every flat length up to 64, random trees on long grids
  for (nx, ny) in [(8usize, 8usize), (64, 1), (1, 64), (9, 7), (5, 12)] {
    let (x0, x1, _) = roots1d(rng, nx);
    let (y0, y1, _) = roots1d(rng, ny + 2);
    let x = (x0, x1, nx);
    let y = (y0, y1, ny);
    let seq: Vec<(f64, f64)> = match guarded(move || Steps2D(x, y).into_iter().collect::<Vec<(f64, f64)>>()) {
      Ok(v) => v,
      Err(m) => {
        emit(json!({"kind": "seq_panic", "what": "Steps2D(x, y).into_iter().collect()", "x": [fx(x.0), fx(x.1), x.2], "y": [fx(y.0), fx(y.1), y.2], "message": m}));
        root += 1;
        continue;
      }
    };
    emit(json!({"kind": "root2d", "root": root, "x0": fx(x0), "x1": fx(x1), "nx": nx, "y0": fx(y0), "y1": fx(y1), "ny": ny, "seq": flat(&seq), "mode": "single"}));
    for k in 0..=(nx * ny) {
      emit_tree2d(root, x, y, &Tree::Node(k, Box::new(Tree::Leaf), Box::new(Tree::Leaf)), false, k % 9 == 1, &seq, true);
    }
    root += 1;
  }
  for i in 0..(3 * n) {
    let (nx, ny) = match i % 3 {
      0 => (100, 100),
      1 => (1 + rng.below(300), 1 + rng.below(30)),
      _ => (1 + rng.below(30), 1 + rng.below(300)),
    };
    let (x0, x1, _) = roots1d(rng, i);
    let (y0, y1, _) = roots1d(rng, i + 1);
    let x = (x0, x1, nx);
    let y = (y0, y1, ny);
    let seq: Vec<(f64, f64)> = match guarded(move || Steps2D(x, y).into_iter().collect::<Vec<(f64, f64)>>()) {
      Ok(v) => v,
      Err(m) => {
        emit(json!({"kind": "seq_panic", "what": "Steps2D(x, y).into_iter().collect()", "x": [fx(x.0), fx(x.1), x.2], "y": [fx(y.0), fx(y.1), y.2], "message": m}));
        root += 1;
        continue;
      }
    };
    // the sequence itself is not printed for long grids; the comparison with it is reduced to the differing positions
    emit(json!({"kind": "root2d", "root": root, "x0": fx(x0), "x1": fx(x1), "nx": nx, "y0": fx(y0), "y1": fx(y1), "ny": ny, "seq": Value::Null, "seq_len": seq.len(), "mode": "random"}));
    for j in 0..3 {
      let depth = 6 + rng.below(8);
      let mut t = if j == 2 { rayon_like(nx * ny, 16 << rng.below(4)) } else { random_tree(rng, nx * ny, depth, if j == 1 { 0 } else { 1 }, j == 1) };
      while matches!(t, Tree::Leaf) && nx * ny >= 2 {
        t = random_tree(rng, nx * ny, depth, if j == 1 { 0 } else { 1 }, j == 1);
      }
      emit_tree2d(root, x, y, &t, j == 1, true, &seq, false);
    }
    root += 1;
  }
  // ---- information only: adaptors that call ExactSizeIterator::len() on a partially consumed iterator (std's Zip::next_back,
  //      reached through rayon's enumerate().rev()): Iterator1D::len()/Iterator2D::len() keep reporting the length at creation
  {
    let r1 = guarded(|| rayon::ThreadPoolBuilder::new().num_threads(1).build().unwrap().install(|| Steps(0., 4., 5).into_par_iter().enumerate().rev().collect::<Vec<(usize, f64)>>()));
    let r2 = guarded(|| rayon::ThreadPoolBuilder::new().num_threads(1).build().unwrap().install(|| Steps2D((0., 1., 2), (0., 1., 2)).into_par_iter().enumerate().rev().collect::<Vec<(usize, (f64, f64))>>()));
    // the contract itself: len() after partial consumption vs the number of items that remain
    let mut it = Steps(0., 4., 5).into_iter();
    it.next_back();
    it.next();
    let len_after = it.len();
    let remaining = it.count();
    let mut it2 = Steps2D((0., 1., 2), (0., 1., 2)).into_iter();
    it2.next_back();
    let len2_after = it2.len();
    let remaining2 = it2.count();
    emit(json!({"kind": "len_after_consumption", "one_d": [len_after, remaining], "two_d": [len2_after, remaining2]}));
    emit(json!({"kind": "enum_rev", "one_d": r1.as_ref().ok().map(|v| v.iter().map(|p| json!([p.0, p.1])).collect::<Vec<_>>()), "one_d_panic": r1.err(),
      "two_d": r2.as_ref().ok().map(|v| v.iter().map(|p| json!([p.0, p.1 .0, p.1 .1])).collect::<Vec<_>>()), "two_d_panic": r2.err()}));
  }
  // ---- information only: split_at(0) on the 1-D producer evaluates `index - 1` on usize
  let r = drive1d(0., 1., 4, &Tree::Node(0, Box::new(Tree::Leaf), Box::new(Tree::Leaf)), false);
  emit(json!({"kind": "split0_1d", "debug_assertions": cfg!(debug_assertions), "panic": r.as_ref().err().cloned(),
    "vals": r.ok().map(|l| fxs(&l.iter().flat_map(|x| x.items.iter().cloned()).collect::<Vec<f64>>()))}));
}

// ------------------------------------------------------------------------------------------------ pools

fn hz(x: f64) -> Frequency {
  x * RAD / S
}
fn fv(x: Frequency) -> f64 {
  *x.value_unsafe()
}
fn cx(v: &[Complex<f64>]) -> Value {
  let mut out = Vec::with_capacity(2 * v.len());
  for z in v {
    out.push(fx(z.re));
    out.push(fx(z.im));
  }
  Value::Array(out)
}

fn ktp() -> SPDC {
  SPDC::from_json(serde_json::json!({
    "crystal": {"kind": "KTP", "pm_type": "e->eo", "phi_deg": 0, "theta_deg": 90, "length_um": 14000, "temperature_c": 20},
    "pump": {"wavelength_nm": 775, "waist_um": 200, "bandwidth_nm": 0.5, "average_power_mw": 300},
    "signal": {"wavelength_nm": 1550, "phi_deg": 0, "theta_external_deg": 0, "waist_um": 100, "waist_position_um": "auto"},
    "idler": "auto",
    "periodic_poling": {"poling_period_um": "auto"},
    "deff_pm_per_volt": 7.6
  }))
  .unwrap()
}

/// run `f` on a fresh pool of `threads` workers, on its own OS thread, under a time limit.  A time-out is reported
/// and ends the process (a dead-locked pool cannot be torn down).
fn on_pool<R: Send + 'static, F: FnOnce() -> R + Send + 'static>(threads: usize, limit_s: u64, what: &str, f: F) -> Option<R> {
  let (tx, rx) = mpsc::channel();
  std::thread::spawn(move || {
    let pool = rayon::ThreadPoolBuilder::new().num_threads(threads).build().unwrap();
    let r = std::panic::catch_unwind(std::panic::AssertUnwindSafe(|| pool.install(f))).map_err(|e| {
      if let Some(s) = e.downcast_ref::<&str>() { s.to_string() } else if let Some(s) = e.downcast_ref::<String>() { s.clone() } else { "panic".to_string() }
    });
    let _ = tx.send(r);
  });
  match rx.recv_timeout(Duration::from_secs(limit_s)) {
    Ok(Ok(r)) => Some(r),
    Ok(Err(msg)) => {
      emit(json!({"kind": "pool_panic", "threads": threads, "what": what, "message": msg}));
      None
    }
    Err(_) => {
      emit(json!({"kind": "timeout", "threads": threads, "what": what, "limit_s": limit_s}));
      std::process::exit(0);
    }
  }
}

fn pools_mode(rng: &mut Rng, n: usize, thorough: bool) {
  let threads: Vec<usize> = (1..=16).collect();
  let reps = if thorough { 3 } else { 1 };
  // grids collected by rayon's own scheduler
  for case in 0..(2 * n) {
    let (s, e, _) = roots1d(rng, case);
    let len = [0usize, 1, 2, 3, 64, 1000, 10000][rng.below(7)];
    let (y0, y1, _) = roots1d(rng, case + 2);
    let (nx, ny) = (1 + rng.below(40), 1 + rng.below(40));
    let seq1: Vec<f64> = Steps(s, e, len).into_iter().collect();
    let seq2: Vec<(f64, f64)> = match guarded(move || Steps2D((s, e, nx), (y0, y1, ny)).into_iter().collect::<Vec<(f64, f64)>>()) {
      Ok(v) => v,
      Err(m) => {
        emit(json!({"kind": "seq_panic", "what": "Steps2D(x, y).into_iter().collect()", "x": [fx(s), fx(e), nx], "y": [fx(y0), fx(y1), ny], "message": m}));
        continue;
      }
    };
    emit(json!({"kind": "pool_grid_ref", "case": case, "s": fx(s), "e": fx(e), "n": len, "seq1": fxs(&seq1), "nx": nx, "ny": ny, "y0": fx(y0), "y1": fx(y1), "seq2": flat(&seq2)}));
    for &t in &threads {
      for rep in 0..reps {
        let r = on_pool(t, 120, "grid collect", move || {
          let a: Vec<f64> = Steps(s, e, len).into_par_iter().collect();
          let b: Vec<(f64, f64)> = Steps2D((s, e, nx), (y0, y1, ny)).into_par_iter().collect();
          let c: Vec<(usize, f64)> = Steps(s, e, len).into_par_iter().enumerate().collect();
          let d: Vec<(usize, (f64, f64))> = Steps2D((s, e, nx), (y0, y1, ny)).into_par_iter().enumerate().collect();
          let sum1: f64 = Steps(s, e, len).into_par_iter().sum();
          let sum2: f64 = Steps2D((s, e, nx), (y0, y1, ny)).into_par_iter().map(|(x, y)| x * y).sum();
          (a, b, c, d, sum1, sum2)
        });
        if let Some((a, b, c, d, sum1, sum2)) = r {
          let enum1_ok = c.iter().enumerate().all(|(i, p)| p.0 == i) && c.len() == a.len();
          let enum2_ok = d.iter().enumerate().all(|(i, p)| p.0 == i && i < b.len() && p.1 .0.to_bits() == b[i].0.to_bits() && p.1 .1.to_bits() == b[i].1.to_bits()) && d.len() == b.len();
          let e1: Vec<f64> = c.iter().map(|p| p.1).collect();
          emit(json!({"kind": "pool_grid", "case": case, "threads": t, "rep": rep, "v1": fxs(&a), "v2": flat(&b), "enum1_ok": enum1_ok, "enum1_vals": fxs(&e1),
            "enum2_ok": enum2_ok, "sum1": fx(sum1), "sum2": fx(sum2)}));
        }
      }
    }
  }
  // quadrature: Simpson (parallel above 128 slices), 2-D Simpson (nested parallel 1-D ranges)
  for case in 0..(2 * n) {
    let divs = [130usize, 200, 256, 1000][rng.below(4)];
    let divs2 = [4usize, 10, 50, 100][rng.below(4)];
    let (a, b) = (rng.range(-2., 0.), rng.range(0.5, 3.));
    let w = rng.range(0.5, 4.);
    for &t in &threads {
      let r = on_pool(t, 120, "integrate", move || {
        let i1 = Integrator::Simpson { divs }.integrate(|x| Complex::new((w * x).cos() * (-x * x).exp(), (w * x).sin()), a, b);
        let i2 = Integrator::Simpson { divs: divs2 }.integrate2d(|x, y| Complex::new((w * x + y).cos(), x * y), a, b, -1., 1.);
        (i1, i2)
      });
      if let Some((i1, i2)) = r {
        emit(json!({"kind": "pool_quad", "case": case, "threads": t, "divs": divs, "divs2": divs2, "a": fx(a), "b": fx(b), "w": fx(w), "i1": cx(&[i1]), "i2": cx(&[i2])}));
      }
    }
  }
  // spectra (ALL range functions x ALL five space representations), counts, HOM (incl. the SPDC:: methods and the two-source calls)
  for case in 0..n.min(if thorough { 4 } else { 2 }) {
    // non-square grid; case parity alternates the default setup and the asymmetric type-II KTP setup
    let (rx, ry) = (3 + rng.below(3) + if thorough { 3 } else { 0 }, 2 + rng.below(2) + if thorough { 2 } else { 0 });
    let seq_divs = 6 + 2 * rng.below(3);
    let work = move || {
      let spdc = if case % 2 == 1 { SPDC::default() } else { ktp() };
      let base = spdc.optimum_range(8).as_steps();
      let fs = FrequencySpace::new((base.0 .0, base.0 .1, rx), (base.1 .0, base.1 .1, ry));
      let integ = Integrator::Simpson { divs: seq_divs }; // sequential 1-D quadrature inside each point
      let sp = spdc.joint_spectrum(integ);
      let un = |v: Vec<spdcalc::JSIUnits<f64>>| -> Vec<f64> { v.iter().map(|x| *x.value_unsafe()).collect() };
      let ucx = |v: Vec<Complex<f64>>| -> Vec<f64> { v.iter().flat_map(|z| [z.re, z.im]).collect() };
      let mut arrays: Vec<(String, Vec<f64>)> = vec![];
      macro_rules! eight {
        ($tag:expr, $mk:expr) => {{
          arrays.push((format!("jsa_range/{}", $tag), ucx(sp.jsa_range($mk))));
          arrays.push((format!("jsa_normalized_range/{}", $tag), ucx(sp.jsa_normalized_range($mk))));
          arrays.push((format!("jsi_range/{}", $tag), un(sp.jsi_range($mk))));
          arrays.push((format!("jsi_normalized_range/{}", $tag), sp.jsi_normalized_range($mk)));
          arrays.push((format!("jsi_singles_range/{}", $tag), un(sp.jsi_singles_range($mk))));
          arrays.push((format!("jsi_singles_idler_range/{}", $tag), un(sp.jsi_singles_idler_range($mk))));
          arrays.push((format!("jsi_singles_normalized_range/{}", $tag), sp.jsi_singles_normalized_range($mk)));
          arrays.push((format!("jsi_singles_idler_normalized_range/{}", $tag), sp.jsi_singles_idler_normalized_range($mk)));
        }};
      }
      let flat_f: Vec<Frequency> = fs.as_steps().into_iter().flat_map(|(a, b)| [a, b]).collect();
      let flat_w: Vec<spdcalc::Wavelength> = fs.as_wavelength_space().as_steps().into_iter().flat_map(|(a, b)| [a, b]).collect();
      eight!("FrequencySpace", fs);
      eight!("WavelengthSpace", fs.as_wavelength_space());
      eight!("SumDiffFrequencySpace", fs.as_sum_diff_space());
      eight!("SignalIdlerFrequencyArray", spdcalc::jsa::SignalIdlerFrequencyArray(flat_f.clone()));
      eight!("SignalIdlerWavelengthArray", spdcalc::jsa::SignalIdlerWavelengthArray(flat_w.clone()));
      // a parallel 1-D quadrature inside the parallel grid evaluation
      let sp_par = spdc.joint_spectrum(Integrator::Simpson { divs: 130 });
      arrays.push(("jsi_range[Simpson divs=130]/FrequencySpace".to_string(), un(sp_par.jsi_range(fs))));
      // HOM through the public SPDC methods and the free functions
      let dt = spdcalc::hom_time_delay(&spdc);
      let delays: Vec<spdcalc::Time> = (0..5).map(|k| dt + (k as f64 - 2.) * 5e-14 * S).collect();
      arrays.push(("SPDC::hom_rate_series".to_string(), spdc.hom_rate_series(delays.clone(), fs, integ)));
      let jsa = sp.jsa_range(fs);
      let swapped: Vec<Complex<f64>> = fs.as_steps().into_iter().map(|(ws, wi)| sp.jsa(wi, ws)).collect();
      arrays.push(("hom_rate_series".to_string(), spdcalc::hom_rate_series(fs, &jsa, &swapped, delays.clone())));
      let two = spdc.hom_two_source_rate_series(delays.clone(), FrequencySpace::new((base.0 .0, base.0 .1, 3), (base.1 .0, base.1 .1, 3)), integ);
      arrays.push(("SPDC::hom_two_source_rate_series.ss".to_string(), two.ss));
      arrays.push(("SPDC::hom_two_source_rate_series.ii".to_string(), two.ii));
      arrays.push(("SPDC::hom_two_source_rate_series.si".to_string(), two.si));
      let mut scalars: Vec<(String, f64)> = vec![
        ("counts_coincidences".to_string(), *(spdc.counts_coincidences(fs, integ).value_unsafe())),
        ("counts_singles_signal".to_string(), *(spdc.counts_singles_signal(fs, integ).value_unsafe())),
        ("counts_singles_idler".to_string(), *(spdc.counts_singles_idler(fs, integ).value_unsafe())),
        ("hom_rate(dip)".to_string(), spdcalc::hom_rate(fs, &jsa, &swapped, dt, None)),
        ("hom_rate(off dip)".to_string(), spdcalc::hom_rate(fs, &jsa, &swapped, dt + 1e-13 * S, None)),
        ("SPDC::hom_visibility".to_string(), spdc.hom_visibility(fs, integ).1),
      ];
      let v2 = spdc.hom_two_source_visibilities(FrequencySpace::new((base.0 .0, base.0 .1, 3), (base.1 .0, base.1 .1, 3)), integ);
      scalars.push(("SPDC::hom_two_source_visibilities.ss".to_string(), v2.ss.1));
      scalars.push(("SPDC::hom_two_source_visibilities.ii".to_string(), v2.ii.1));
      scalars.push(("SPDC::hom_two_source_visibilities.si".to_string(), v2.si.1));
      // sequential reference, point by point in grid order (the order every *_range array must have)
      let pts: Vec<(Frequency, Frequency)> = fs.into_signal_idler_iterator().collect();
      let jsi_seq: Vec<f64> = pts.iter().map(|(a, b)| *(sp.jsi(*a, *b).value_unsafe())).collect();
      (arrays, scalars, jsi_seq)
    };
    for &t in &threads {
      let w = work.clone();
      if let Some((arrays, scalars, jsi_seq)) = on_pool(t, 600, "spectrum/counts/hom", w) {
        let mut a = serde_json::Map::new();
        for (k, v) in arrays {
          a.insert(k, fxs(&v));
        }
        let mut sc = serde_json::Map::new();
        for (k, v) in scalars {
          sc.insert(k, fx(v));
        }
        emit(json!({"kind": "pool_spdc", "case": case, "setup": if case % 2 == 1 { "SPDC::default()" } else { "KTP type-II (harness c15::ktp)" }, "threads": t,
          "nx": rx, "ny": ry, "divs": seq_divs, "arrays": a, "scalars": sc, "jsi_pointwise_sequential": fxs(&jsi_seq)}));
      }
    }
  }
}

/// the 1-D producer through REAL rayon drives (collect / map+collect / sum / for_each — everything that ends in Producer::fold_with),
/// on every length 0..=40 (one-point leaves occur whenever the range is short relative to the pool) and several pool sizes
fn short_mode(rng: &mut Rng, n: usize) {
  for len in 0..=40usize {
    for rep in 0..n.max(1) {
      let (s, e, cls) = roots1d(rng, len + 7 * rep);
      let seq: Vec<f64> = Steps(s, e, len).into_iter().collect();
      emit(json!({"kind": "short_ref", "len": len, "rep": rep, "cls": cls, "s": fx(s), "e": fx(e), "seq": fxs(&seq)}));
      for threads in [1usize, 2, 3, 4, 8, 16] {
        let r = on_pool(threads, 120, "short 1-D range through rayon", move || {
          let a: Vec<f64> = Steps(s, e, len).into_par_iter().collect();
          let b: Vec<f64> = Steps(s, e, len).into_par_iter().map(|x| x).collect();
          let sum: f64 = Steps(s, e, len).into_par_iter().sum();
          let msum: f64 = Steps(s, e, len).into_par_iter().map(|x| 2. * x).sum();
          let cnt = Steps(s, e, len).into_par_iter().count();
          let fe = std::sync::Mutex::new(Vec::new());
          Steps(s, e, len).into_par_iter().for_each(|x| fe.lock().unwrap().push(x));
          let mut fe = fe.into_inner().unwrap();
          fe.sort_by(|x, y| x.total_cmp(y));
          let en: Vec<(usize, f64)> = Steps(s, e, len).into_par_iter().enumerate().collect();
          (a, b, sum, msum, cnt, fe, en)
        });
        if let Some((a, b, sum, msum, cnt, fe, en)) = r {
          let en_idx_ok = en.iter().enumerate().all(|(i, p)| p.0 == i);
          let env: Vec<f64> = en.iter().map(|p| p.1).collect();
          emit(json!({"kind": "short", "len": len, "rep": rep, "threads": threads, "collect": fxs(&a), "map_collect": fxs(&b), "sum": fx(sum), "map_sum": fx(msum),
            "count": cnt, "for_each_sorted": fxs(&fe), "enum_idx_ok": en_idx_ok, "enum_vals": fxs(&env)}));
        } else {
          emit(json!({"kind": "short_failed", "len": len, "rep": rep, "threads": threads, "s": fx(s), "e": fx(e), "debug_assertions": cfg!(debug_assertions)}));
        }
      }
    }
  }
}

// ------------------------------------------------------------------------------------------------ rayon's bridge, observed
/// an index-range producer that records every split_at rayon's bridge asks for (validates Model/C15_Bridge.v against the real rayon)
struct LogProducer {
  lo: usize,
  hi: usize,
  log: std::sync::Arc<std::sync::Mutex<Vec<(usize, usize, usize)>>>,
}
impl Producer for LogProducer {
  type Item = usize;
  type IntoIter = std::ops::Range<usize>;
  fn into_iter(self) -> Self::IntoIter {
    self.lo..self.hi
  }
  fn split_at(self, index: usize) -> (Self, Self) {
    self.log.lock().unwrap().push((self.lo, self.hi, index));
    (LogProducer { lo: self.lo, hi: self.lo + index, log: self.log.clone() }, LogProducer { lo: self.lo + index, hi: self.hi, log: self.log })
  }
}
struct LogIter {
  len: usize,
  log: std::sync::Arc<std::sync::Mutex<Vec<(usize, usize, usize)>>>,
}
impl ParallelIterator for LogIter {
  type Item = usize;
  fn drive_unindexed<C: rayon::iter::plumbing::UnindexedConsumer<usize>>(self, consumer: C) -> C::Result {
    rayon::iter::plumbing::bridge(self, consumer)
  }
  fn opt_len(&self) -> Option<usize> {
    Some(self.len)
  }
}
impl IndexedParallelIterator for LogIter {
  fn len(&self) -> usize {
    self.len
  }
  fn drive<C: rayon::iter::plumbing::Consumer<usize>>(self, consumer: C) -> C::Result {
    rayon::iter::plumbing::bridge(self, consumer)
  }
  fn with_producer<CB: ProducerCallback<usize>>(self, callback: CB) -> CB::Output {
    callback.callback(LogProducer { lo: 0, hi: self.len, log: self.log })
  }
}

fn bridge_mode(rng: &mut Rng, n: usize) {
  let mut lens: Vec<usize> = vec![0, 1, 2, 3, 4, 5, 7, 10, 64, 100, 1000];
  for _ in 0..n {
    lens.push(1 + rng.below(10000));
  }
  for len in lens {
    for threads in [1usize, 2, 4, 16] {
      let r = on_pool(threads, 120, "bridge split log", move || {
        let log = std::sync::Arc::new(std::sync::Mutex::new(vec![]));
        let total: usize = LogIter { len, log: log.clone() }.map(|i| i).sum();
        let v = log.lock().unwrap().clone();
        (total, v)
      });
      if let Some((total, v)) = r {
        emit(json!({"kind": "bridge_log", "len": len, "threads": threads, "sum": total, "splits": v.iter().map(|(a, b, k)| json!([a, b, k])).collect::<Vec<_>>()}));
      }
    }
  }
}

/// Simpson's rule is exact on cubics: Integrator::Simpson on polynomials that do NOT vanish at the upper limit, for division counts on
/// both sides of the 128-division threshold (sequential / parallel branch of `simpson`) and on pools of 1..16 threads; 2-D likewise.
fn simpson_mode(rng: &mut Rng, n: usize) {
  let divs_list: [usize; 16] = [4, 6, 50, 100, 126, 127, 128, 129, 130, 131, 132, 133, 140, 200, 256, 1000];
  let divs2_list: [usize; 5] = [4, 6, 11, 20, 50];
  for case in 0..n {
    let c: Vec<f64> = (0..4).map(|_| rng.range(0.5, 2.)).collect();
    let ci: Vec<f64> = (0..4).map(|_| rng.range(0.5, 2.)).collect();
    let (a, b) = (rng.range(-1., 0.), rng.range(0.5, 2.));
    let (a2, b2) = (rng.range(-1., 0.), rng.range(0.5, 2.));
    emit(json!({"kind": "simpson_ref", "case": case, "c": fxs(&c), "ci": fxs(&ci), "a": fx(a), "b": fx(b), "a2": fx(a2), "b2": fx(b2)}));
    for threads in [0usize, 1, 2, 3, 4, 5, 8, 16] {
      let (c1, c2) = (c.clone(), ci.clone());
      let work = move || {
        let p = |x: f64| c1[0] + x * (c1[1] + x * (c1[2] + x * c1[3]));
        let q = |x: f64| c2[0] + x * (c2[1] + x * (c2[2] + x * c2[3]));
        let one: Vec<(usize, Complex<f64>)> = divs_list.iter().map(|d| (*d, Integrator::Simpson { divs: *d }.integrate(|x| Complex::new(p(x), q(x)), a, b))).collect();
        // f(x, y) = p(x) q(y) + i (x + y + 3): cubic in each variable, non-zero on the upper edges
        let two: Vec<(usize, Complex<f64>)> = divs2_list.iter().map(|d| (*d, Integrator::Simpson { divs: *d }.integrate2d(|x, y| Complex::new(p(x) * q(y), x + y + 3.), a, b, a2, b2))).collect();
        (rayon::current_num_threads(), one, two)
      };
      // threads = 0: the global pool, as the library is normally used
      let r = if threads == 0 { Some(work()) } else { on_pool(threads, 300, "simpson on polynomials", work) };
      if let Some((nthreads, one, two)) = r {
        emit(json!({"kind": "simpson", "case": case, "threads": threads, "current_num_threads": nthreads,
          "one": one.iter().map(|(d, z)| json!([d, fx(z.re), fx(z.im)])).collect::<Vec<_>>(),
          "two": two.iter().map(|(d, z)| json!([d, fx(z.re), fx(z.im)])).collect::<Vec<_>>()}));
      }
    }
  }
}

pub fn run(args: &[String]) {
  let seed = arg_u64(args, 0, 1);
  let n = arg_u64(args, 1, 2) as usize;
  let mode = args.get(2).map(|s| s.as_str()).unwrap_or("all");
  let thorough = args.get(3).map(|s| s == "thorough").unwrap_or(false);
  let mut rng = Rng::new(seed);
  if mode == "trees" || mode == "all" {
    trees_mode(&mut rng, n, thorough);
  }
  if mode == "pools" || mode == "all" {
    pools_mode(&mut rng, n, thorough);
  }
  if mode == "short" || mode == "all" {
    short_mode(&mut rng, n);
  }
  if mode == "bridge" || mode == "all" {
    bridge_mode(&mut rng, n);
  }
  if mode == "simpson" || mode == "all" {
    simpson_mode(&mut rng, n);
  }
  emit(json!({"kind": "done", "mode": mode}));
}
