//! C19 observations: window values (all kinds), interpolated profiles, poling domain lists, update histories of
//! PeriodicPoling, config <-> runtime mapping of apodization kinds.  Consumer: props/c19.py.
#![allow(unused_imports, dead_code)]
use crate::common::*;
use serde_json::{json, Value};
use spdcalc::dim::ucum::{M, RAD};
use spdcalc::*;

const WIDTH_KINDS: [&str; 6] = ["Bartlett", "Blackman", "Connes", "Cosine", "Hamming", "Welch"];

fn mk_width(kind: &str, a: f64) -> Apodization {
  match kind {
    "Bartlett" => Apodization::Bartlett(a),
    "Blackman" => Apodization::Blackman(a),
    "Connes" => Apodization::Connes(a),
    "Cosine" => Apodization::Cosine(a),
    "Hamming" => Apodization::Hamming(a),
    "Welch" => Apodization::Welch(a),
    _ => unreachable!(),
  }
}

/// JSON description of an apodization, every number as its bit pattern
fn apod_json(ap: &Apodization) -> Value {
  match ap {
    Apodization::Off => json!({"kind": "Off"}),
    Apodization::Gaussian { fwhm } => json!({"kind": "Gaussian", "p": fx(*(*fwhm / M))}),
    Apodization::Bartlett(a) => json!({"kind": "Bartlett", "p": fx(*a)}),
    Apodization::Blackman(a) => json!({"kind": "Blackman", "p": fx(*a)}),
    Apodization::Connes(a) => json!({"kind": "Connes", "p": fx(*a)}),
    Apodization::Cosine(a) => json!({"kind": "Cosine", "p": fx(*a)}),
    Apodization::Hamming(a) => json!({"kind": "Hamming", "p": fx(*a)}),
    Apodization::Welch(a) => json!({"kind": "Welch", "p": fx(*a)}),
    Apodization::Interpolate(v) => json!({"kind": "Interpolate", "values": fxs(v)}),
  }
}

fn pp_json(pp: &PeriodicPoling) -> Value {
  match pp {
    PeriodicPoling::Off => json!({"on": false}),
    PeriodicPoling::On {
      period,
      sign,
      apodization,
    } => json!({
      "on": true, "period": fx(*(*period / M)),
      "sign": if *sign == Sign::POSITIVE { "POSITIVE" } else { "NEGATIVE" },
      "apodization": apod_json(apodization),
    }),
  }
}

fn observers(pp: &PeriodicPoling) -> Value {
  let sp = *(pp.signed_period() / M);
  let keff = guarded(|| *(pp.k_eff() * M / RAD));
  json!({
    "state": pp_json(pp), "signed_period": fx(sp),
    "k_eff": match keff { Ok(k) => fx(k), Err(_) => json!("panic") },
    "apodization": apod_json(pp.apodization()),
  })
}

fn random_apod(rng: &mut Rng, unit_only: bool) -> Apodization {
  match rng.below(9) {
    0 => Apodization::Off,
    1 => Apodization::Gaussian {
      fwhm: rng.log_range(50e-6, 5e-3) * M,
    },
    8 if !unit_only => {
      let n = 1 + rng.below(12);
      Apodization::Interpolate((0..n).map(|_| (rng.range(0., 1.) * 64.).round() / 64.).collect())
    }
    k => {
      let kind = WIDTH_KINDS[(k + rng.below(6)) % 6];
      let a = if unit_only || rng.below(3) == 0 { 1. } else { rng.range(1., 3.) };
      mk_width(kind, a)
    }
  }
}

fn zgrid(rng: &mut Rng, n: usize) -> Vec<f64> {
  let mut zs = vec![-1., -0.75, -0.5, -0.25, 0., 0.25, 0.5, 0.75, 1., 1e-9, -1e-9, 1. - 1e-12, -1. + 1e-12];
  for _ in 0..n {
    zs.push(rng.range(-1., 1.));
  }
  zs
}

pub fn run(args: &[String]) {
  let seed = arg_u64(args, 0, 1);
  let n = arg_u64(args, 1, 20) as usize;
  let max_domains = arg_u64(args, 2, 2000) as usize;
  let mut rng = Rng::new(seed);
  let l_ref = 2000e-6 * M;

  // ---- windows with a width parameter: parameter 1, and a few other widths
  for kind in WIDTH_KINDS {
    let mut widths = vec![1.0];
    for _ in 0..3 {
      widths.push(rng.range(1., 4.));
    }
    widths.push(rng.range(0.3, 1.));
    for a in widths {
      let ap = mk_width(kind, a);
      for z in zgrid(&mut rng, n) {
        let v = ap.integration_constant(z, l_ref);
        let vm = ap.integration_constant(-z, l_ref);
        // the same window through the PeriodicPoling wrapper of a poled description
        let vpp = PeriodicPoling::new(-10e-6 * M, ap.clone()).integration_constant(z, l_ref);
        emit(json!({"kind": "win", "ap": apod_json(&ap), "z": fx(z), "L": fx(*(l_ref / M)), "v": fx(v), "vneg": fx(vm), "v_pp": fx(vpp)}));
      }
    }
  }
  // ---- Off and Gaussian
  for z in zgrid(&mut rng, n) {
    let ap = Apodization::Off;
    emit(json!({"kind": "win", "ap": apod_json(&ap), "z": fx(z), "L": fx(*(l_ref / M)),
      "v": fx(ap.integration_constant(z, l_ref)), "vneg": fx(ap.integration_constant(-z, l_ref))}));
    emit(json!({"kind": "win_pp_off", "z": fx(z), "v": fx(PeriodicPoling::Off.integration_constant(z, l_ref))}));
  }
  for _ in 0..(4 + n / 4) {
    let l = rng.log_range(200e-6, 30e-3);
    let fwhm = l * rng.range(0.05, 1.);
    let ap = Apodization::Gaussian { fwhm: fwhm * M };
    let mut zs = zgrid(&mut rng, n);
    zs.push(fwhm / l);
    for z in zs {
      let v = ap.integration_constant(z, l * M);
      let vm = ap.integration_constant(-z, l * M);
      let vpp = PeriodicPoling::new(33e-6 * M, ap.clone()).integration_constant(z, l * M);
      emit(json!({"kind": "win", "ap": apod_json(&ap), "z": fx(z), "L": fx(l), "v": fx(v), "vneg": fx(vm), "v_pp": fx(vpp),
        "half_point": z == fwhm / l}));
    }
  }
  // ---- out-of-range z is rejected (assert) rather than silently extrapolated
  for z in [-1.0000001, 1.5, f64::NAN] {
    let r = guarded(|| Apodization::Welch(1.).integration_constant(z, 1e-3 * M));
    emit(json!({"kind": "win_out_of_range", "z": fx(z), "panicked": r.is_err()}));
  }
  // ---- interpolated profiles
  for len in 0..=12usize {
    for rep in 0..(1 + n / 10) {
      let values: Vec<f64> = (0..len)
        .map(|i| if rep == 0 { (i as f64 / 4.).min(1.) } else { (rng.range(-1., 1.) * 1024.).round() / 1024. })
        .collect();
      let ap = Apodization::Interpolate(values.clone());
      let mut zs = zgrid(&mut rng, n / 2);
      if len >= 2 {
        for k in 0..len {
          zs.push(2. * k as f64 / (len - 1) as f64 - 1.);
        }
      }
      for z in zs {
        let ap2 = ap.clone();
        match guarded(move || ap2.integration_constant(z, l_ref)) {
          Ok(v) => {
            let vpp = PeriodicPoling::new(7e-6 * M, ap.clone()).integration_constant(z, l_ref);
            emit(json!({"kind": "interp", "values": fxs(&values), "z": fx(z), "v": fx(v), "v_pp": fx(vpp)}))
          }
          Err(e) => emit(json!({"kind": "interp_panic", "values": fxs(&values), "z": fx(z), "msg": e})),
        }
      }
    }
  }
  // ---- domains
  let mut cases: Vec<(f64, f64, Apodization)> = vec![
    (10e-6, 1000e-6, Apodization::Off),
    (10e-6, 100e-6, Apodization::Interpolate(vec![0., 0., 0., 0., 0., 0., 1., 1., 1., 1., 1., 1.])),
    (46.5e-6, 46.5e-6, Apodization::Off),
    (46.5e-6, 20e-6, Apodization::Bartlett(1.)),
    (7e-6, 49e-6, Apodization::Welch(1.)),
    // odd domain counts whose centre domain (z = 0 exactly) has a window value below 1: the pair order AT the centre is observable
    (10e-6, 65e-6, Apodization::Interpolate(vec![0.25, 0.5, 0.625, 0.5, 0.25])),
    (10e-6, 25e-6, Apodization::Interpolate(vec![1., 0.5, 1.])),
    (8e-6, 82e-6, Apodization::Interpolate(vec![0.125, 0.75, 0.375])),
    // window values in [-1, 1] that are NEGATIVE at some domain centres (the domain-fraction clause covers |a| <= 1)
    (10e-6, 205e-6, Apodization::Cosine(0.5)),
    (10e-6, 315e-6, Apodization::Bartlett(0.6)),
    (7e-6, 150e-6, Apodization::Welch(0.75)),
    (12e-6, 250e-6, Apodization::Blackman(0.5)),
    (10e-6, 175e-6, Apodization::Interpolate(vec![-1., -0.5, 0.25, 1., 0.5, -0.25, -0.75])),
    (9e-6, 100e-6, Apodization::Interpolate(vec![-0.2, 0.8, -0.6])),
  ];
  for j in 0..n {
    let nd = (rng.log_range(1., max_domains as f64)).floor();
    let period = rng.log_range(2e-6, 80e-6);
    let l = period * (nd - rng.range(0.02, 0.98)).max(0.3);
    let ap = match j % 4 {
      0 => match rng.below(4) {
        0 => Apodization::Cosine(rng.range(0.5, 1.)),
        1 => Apodization::Bartlett(rng.range(0.5, 1.)),
        2 => Apodization::Welch(rng.range(0.72, 1.)),
        _ => {
          let m = 2 + rng.below(9);
          Apodization::Interpolate((0..m).map(|_| (rng.range(-1., 1.) * 64.).round() / 64.).collect())
        }
      },
      _ => random_apod(&mut rng, false),
    };
    cases.push((period, l, ap));
  }
  for (period, l, ap) in cases {
    let signed = if rng.coin() { period } else { -period };
    let pp = PeriodicPoling::new(signed * M, ap.clone());
    let nd = pp.num_domains(l * M);
    let doms = match guarded(|| pp.poling_domains(l * M)) {
      Ok(d) => d,
      Err(e) => {
        emit(json!({"kind": "dom_panic", "period": fx(signed), "L": fx(l), "ap": apod_json(&ap), "msg": e}));
        continue;
      }
    };
    let lens = pp.poling_domain_lengths(l * M);
    let mut idx: Vec<usize> = Vec::new();
    if nd <= 40 {
      idx.extend(0..nd);
    } else {
      idx.extend([0, 1, 2, nd - 3, nd - 2, nd - 1]);
      let c = nd / 2;
      idx.extend([c - 2, c - 1, c, c + 1]);
      for _ in 0..16 {
        idx.push(rng.below(nd));
      }
    }
    idx.sort();
    idx.dedup();
    let entries: Vec<Value> = idx
      .iter()
      .filter(|&&i| i < doms.len())
      .map(|&i| {
        // the window value at the domain centre, through the public API (the same calls the implementation makes)
        let zc = spdcalc::math::lerp(-1., 1., (i as f64 + 0.5) / nd as f64);
        let a = ap.integration_constant(zc, l * M);
        let (l1, l2) = if i < lens.len() { (*(lens[i].0 / M), *(lens[i].1 / M)) } else { (f64::NAN, f64::NAN) };
        json!({"i": i, "e": [fx(doms[i].0), fx(doms[i].1)], "zc": fx(zc), "a": fx(a), "len": [fx(l1), fx(l2)]})
      })
      .collect();
    // whole-list aggregates (every entry, also for long lists)
    let mut all_sum_ok = true;
    let mut all_range_ok = true;
    let mut flips = 0usize;
    let mut prev_first_narrow: Option<bool> = None;
    for (j, d) in doms.iter().enumerate() {
      if (d.0 + d.1 - 1.).abs() > 1e-12 {
        all_sum_ok = false;
      }
      if !(d.0 >= 0. && d.0 <= 1. && d.1 >= 0. && d.1 <= 1.) {
        all_range_ok = false;
      }
      if d.0 != d.1 {
        let first_narrow = d.0 < d.1;
        if let Some(p) = prev_first_narrow {
          if p != first_narrow {
            flips += 1;
          }
        }
        prev_first_narrow = Some(first_narrow);
        // the narrower fraction must be first up to the centre, second after it
        let second_half = 2 * j + 1 > doms.len();
        if first_narrow == second_half {
          flips += 1000;
        }
      }
    }
    emit(json!({"kind": "dom", "period": fx(signed), "L": fx(l), "ap": apod_json(&ap), "n": nd, "len_domains": doms.len(),
      "len_lengths": lens.len(), "entries": entries, "all_sum_ok": all_sum_ok, "all_range_ok": all_range_ok, "flips": flips,
      "stored_period": fx(match &pp { PeriodicPoling::On { period, .. } => *(*period / M), _ => f64::NAN })}));
  }
  // ---- count clause next to integer ratios: L = k * period * (1 +- e)
  for period in [10e-6, 46.5e-6, 7.3e-6] {
    for k in [1usize, 7, 100, 12345, 123457, 250000] {
      for e in [3e-9, 1e-7, 3e-7, 9e-7, 0.] {
        for sgn in [1., -1.] {
          let l = (k as f64) * period * (1. + sgn * e);
          let pp = PeriodicPoling::new(period * M, Apodization::Off);
          emit(json!({"kind": "count", "period": fx(period), "L": fx(l), "k": k, "e": fx(sgn * e), "n": pp.num_domains(l * M)}));
        }
      }
    }
  }
  // ---- whole domain lists (thorough tier): every entry, for entrywise comparison with the generated poling_domains in Coq
  let nfull = arg_u64(args, 3, 0) as usize;
  // short lists first: under a time budget they are the ones that are always completed
  let full_cases: Vec<(usize, f64, Apodization)> = vec![
    (1_000, 19e-6, Apodization::Bartlett(2.)),
    (2_048, 46.5e-6, Apodization::Hamming(1.)),
    (1_001, 12e-6, Apodization::Interpolate(vec![0.125, 0.5, 0.75, 1., 0.875, 1., 0.625, 0.25, 0.0625])),
    (100_000, 5e-6, Apodization::Gaussian { fwhm: 0.2 * M }),
    (30_011, 7.25e-6, Apodization::Blackman(1.5)),
    (4_999, 9.5e-6, Apodization::Cosine(1.)),
  ];
  for (n, period, ap) in full_cases.into_iter().take(nfull) {
    let l = period * (n as f64 - 0.5);
    let pp = PeriodicPoling::new(period * M, ap.clone());
    let nd = pp.num_domains(l * M);
    let pp2 = pp.clone();
    match guarded(move || pp2.poling_domains(l * M)) {
      Ok(d) => {
        let flat: Vec<f64> = d.iter().flat_map(|e| [e.0, e.1]).collect();
        emit(json!({"kind": "dom_full", "period": fx(period), "L": fx(l), "ap": apod_json(&ap), "n": nd, "pairs": fxs(&flat)}));
      }
      Err(e) => emit(json!({"kind": "dom_panic", "period": fx(period), "L": fx(l), "ap": apod_json(&ap), "msg": e})),
    }
  }
  emit(json!({"kind": "dom_off", "n": PeriodicPoling::Off.num_domains(1e-3 * M), "len_domains": PeriodicPoling::Off.poling_domains(1e-3 * M).len(),
    "len_lengths": PeriodicPoling::Off.poling_domain_lengths(1e-3 * M).len()}));

  // ---- update histories
  // environments for try_as_optimum: (signal, pump, crystal) of two setups and the period the optimiser returns for them
  let mut envs: Vec<(SPDC, f64)> = Vec::new();
  {
    let d = SPDC::default();
    let mut c = d.crystal_setup.clone();
    c.theta = 90. * spdcalc::dim::ucum::DEG;
    let mut e1 = d.clone();
    e1.crystal_setup = c;
    let cfg2 = json!({
      "crystal": {"kind": "LiNbO3_1", "pm_type": "Type0_e_ee", "phi_deg": 0, "theta_deg": 90, "length_um": 5000, "temperature_c": 80},
      "pump": {"wavelength_nm": 532, "waist_um": 60, "bandwidth_nm": 0.1, "average_power_mw": 50},
      "signal": {"wavelength_nm": 810, "phi_deg": 0, "theta_deg": 0, "waist_um": 45, "waist_position_um": "auto"},
      "idler": "auto", "deff_pm_per_volt": 14.0});
    for e in [Some(e1), SPDC::from_json(cfg2.to_string()).ok()].into_iter().flatten() {
      let e2 = e.clone();
      if let Ok(Ok(p)) = guarded(move || optimum_poling_period(&e2.signal, &e2.pump, &e2.crystal_setup)) {
        let pv = *(p / M);
        if pv.is_finite() && pv != 0. {
          envs.push((e, pv));
        }
      }
    }
  }
  emit(json!({"kind": "optimum_envs", "periods": envs.iter().map(|e| fx(e.1)).collect::<Vec<_>>()}));
  for h in 0..(4 * n) {
    let start_off = h % 5 == 0;
    let mut pp = if start_off {
      PeriodicPoling::Off
    } else {
      let p = rng.log_range(1e-6, 100e-6) * if rng.coin() { 1. } else { -1. };
      PeriodicPoling::new(p * M, random_apod(&mut rng, false))
    };
    let mut steps: Vec<Value> = Vec::new();
    let init = observers(&pp);
    let nops = 1 + rng.below(8);
    for _ in 0..nops {
      let op = rng.below(if envs.is_empty() { 4 } else { 5 });
      let opj;
      match op {
        4 => {
          let (env, p) = &envs[rng.below(envs.len())];
          match pp.clone().try_as_optimum(&env.signal, &env.pump, &env.crystal_setup) {
            Ok(np) => {
              pp = np;
              opj = json!({"op": "as_optimum", "p": fx(*p)});
            }
            Err(_) => {
              opj = json!({"op": "as_optimum_err"});
            }
          }
        }
        0 => {
          let p = rng.log_range(1e-6, 100e-6) * if rng.coin() { 1. } else { -1. };
          pp = pp.with_period(p * M);
          opj = json!({"op": "with_period", "p": fx(p)});
        }
        1 => {
          let p = rng.log_range(1e-6, 100e-6) * if rng.coin() { 1. } else { -1. };
          pp.assign_period(p * M);
          opj = json!({"op": "assign_period", "p": fx(p)});
        }
        2 => {
          let a = random_apod(&mut rng, false);
          pp.set_apodization(a.clone());
          opj = json!({"op": "set_apodization", "ap": apod_json(&a)});
        }
        _ => {
          let a = random_apod(&mut rng, false);
          pp = pp.with_apodization(a.clone());
          opj = json!({"op": "with_apodization", "ap": apod_json(&a)});
        }
      }
      steps.push(json!({"op": opj, "after": observers(&pp)}));
    }
    emit(json!({"kind": "upd", "init": init, "steps": steps}));
  }

  // ---- config <-> runtime mapping
  for _ in 0..(2 * n) {
    let ap = random_apod(&mut rng, false);
    let cfg: ApodizationConfig = ap.clone().into();
    let back: Apodization = cfg.clone().into();
    let js = serde_json::to_value(&ap).unwrap_or(Value::Null);
    let from_js: Result<Apodization, _> = serde_json::from_value(js.clone());
    let zw = rng.range(-1., 1.);
    let (w1, w2) = (ap.integration_constant(zw, l_ref), back.integration_constant(zw, l_ref));
    let rel = match (&ap, &back) {
      (Apodization::Gaussian { fwhm: f1 }, Apodization::Gaussian { fwhm: f2 }) => ((*(*f1 / M) - *(*f2 / M)) / *(*f1 / M)).abs(),
      (a, b) => if a == b { 0. } else { 1. },
    };
    let fwhm_um = match &cfg {
      ApodizationConfig::Gaussian { fwhm_um } => fx(*fwhm_um),
      _ => Value::Null,
    };
    emit(json!({"kind": "cfg", "ap": apod_json(&ap), "cfg_kind": js.get("kind").cloned().unwrap_or(Value::Null), "fwhm_um": fwhm_um,
      "kind_str": ap.kind(), "back_kind": back.kind(), "rel_err": fx(rel), "window_value": fx(w1), "window_value_back": fx(w2),
      "json_roundtrip_kind": from_js.map(|a| a.kind().to_string()).unwrap_or("Err".to_string())}));
  }
  for (spell, expect) in [("off", "Off"), ("none", "Off"), ("None", "Off"), ("Off", "Off"), ("bartlett", "Bartlett"), ("Bartlett", "Bartlett"),
    ("blackman", "Blackman"), ("connes", "Connes"), ("cosine", "Cosine"), ("hamming", "Hamming"), ("welch", "Welch"), ("Welch", "Welch"),
    ("gaussian", "Gaussian"), ("interpolate", "Interpolate"), ("BARTLETT", "Err"), ("hann", "Err")] {
    let js = match expect {
      "Off" => json!({"kind": spell}),
      "Gaussian" => json!({"kind": spell, "parameter": {"fwhm_um": 500.0}}),
      "Interpolate" => json!({"kind": spell, "parameter": [0.0, 1.0]}),
      _ => json!({"kind": spell, "parameter": 1.0}),
    };
    let r: Result<Apodization, _> = serde_json::from_value(js);
    emit(json!({"kind": "cfg_spelling", "spelling": spell, "expect": expect, "got": r.map(|a| a.kind().to_string()).unwrap_or("Err".to_string())}));
  }
}
