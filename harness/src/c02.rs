//! C02 observations: CrystalSetup::index_along / to_crystal_frame / Beam::refractive_index / Beam::walkoff_angle on
//! structured inputs (see props/c02.py for the consumer).
//!
//! usage: vharness c02 <seed> <n_dir> <n_walk>
//!   kind "idx":  one (crystal, wavelength, temperature, crystal angles, lab direction) with both polarizations,
//!                the principal indices the crystal reports there, and the rotated direction
//!   kind "beam": Beam::refractive_index against index_along on the beam's own direction / wavelength
//!   kind "walk": Beam::walkoff_angle (or the panic it raised)
#![allow(unused_imports, dead_code)]
use crate::common::*;
use serde_json::{json, Value};
use spdcalc::dim::ucum::{K, M, RAD};
use spdcalc::na::{Rotation3, Unit, Vector3};
use spdcalc::utils::{from_celsius_to_kelvin, frequency_to_vacuum_wavelength};
use spdcalc::*;
use std::f64::consts::PI;

const SCALES: [f64; 8] = [1e-2, 1e-3, 1e-4, 1e-5, 1e-6, 1e-7, 1e-8, 1e-9];

fn setup_of(crystal: &CrystalType, theta: f64, phi: f64, t_c: f64) -> CrystalSetup {
  CrystalSetup {
    crystal: crystal.clone(),
    pm_type: PMType::Type2_e_eo,
    theta: theta * RAD,
    phi: phi * RAD,
    length: 2e-3 * M,
    temperature: from_celsius_to_kelvin(t_c),
    counter_propagation: false,
  }
}

fn v3(v: &Vector3<f64>) -> Value {
  json!([fx(v.x), fx(v.y), fx(v.z)])
}

fn pol_name(p: PolarizationType) -> &'static str {
  match p {
    PolarizationType::Ordinary => "o",
    PolarizationType::Extraordinary => "e",
  }
}

struct Case<'a> {
  id: &'a str,
  crystal: &'a CrystalType,
  w: f64,
  t_c: f64,
  ct: f64,
  cp: f64,
}

fn emit_idx(c: &Case, d: Vector3<f64>, gen: &str, group: u64, rel: &str) {
  let setup = setup_of(c.crystal, c.ct, c.cp, c.t_c);
  let dir = Unit::new_unchecked(d);
  let ind = *setup.crystal.get_indices(c.w * M, setup.temperature);
  let s = setup.to_crystal_frame(dir);
  // the reciprocal squares exactly as index_along forms them (same expression, same compiler)
  let a = ind.map(|i| i.powi(-2));
  let no = guarded(|| *setup.index_along(c.w * M, dir, PolarizationType::Ordinary));
  let ne = guarded(|| *setup.index_along(c.w * M, dir, PolarizationType::Extraordinary));
  emit(json!({
    "kind": "idx", "id": c.id, "w": fx(c.w), "tc": fx(c.t_c), "ct": fx(c.ct), "cp": fx(c.cp),
    "n": [fx(ind.x), fx(ind.y), fx(ind.z)], "a": v3(&a), "d": v3(&d), "s": v3(&s.into_inner()),
    "no": no.as_ref().map(|x| fx(*x)).unwrap_or(Value::Null), "ne": ne.as_ref().map(|x| fx(*x)).unwrap_or(Value::Null),
    "panic": no.as_ref().err().or(ne.as_ref().err()).cloned(),
    "gen": gen, "group": group, "rel": rel,
  }));
}

/// lab direction whose image under the crystal rotation is (as nearly as binary64 allows) `s`
fn lab_of(ct: f64, cp: f64, s: Vector3<f64>) -> Vector3<f64> {
  let r = Rotation3::from_euler_angles(0., ct, cp);
  (r.inverse() * s).normalize()
}

fn rand_unit(rng: &mut Rng) -> Vector3<f64> {
  let z = rng.range(-1.0, 1.0);
  let a = rng.range(0.0, 2.0 * PI);
  let r = (1.0 - z * z).max(0.0).sqrt();
  Vector3::new(r * a.cos(), r * a.sin(), z).normalize()
}

/// the optic axes (wave-normal directions with a double root) in the crystal frame, from the principal indices
fn optic_axes(ind: &Vector3<f64>) -> Vec<Vector3<f64>> {
  let a = [ind.x.powi(-2), ind.y.powi(-2), ind.z.powi(-2)];
  let mut order = [0usize, 1, 2];
  order.sort_by(|i, j| a[*i].partial_cmp(&a[*j]).unwrap());
  let (lo, mid, hi) = (order[0], order[1], order[2]);
  if a[hi] == a[lo] {
    return vec![];
  }
  // p_hi = (a_hi - a_mid)/(a_hi - a_lo) on the axis of the largest a, p_lo = (a_mid - a_lo)/(a_hi - a_lo) on the smallest
  let p_hi = (a[hi] - a[mid]) / (a[hi] - a[lo]);
  let p_lo = (a[mid] - a[lo]) / (a[hi] - a[lo]);
  let mut out = vec![];
  for sg in [1.0, -1.0] {
    let mut v = [0.0; 3];
    v[hi] = p_hi.sqrt();
    v[lo] = sg * p_lo.sqrt();
    out.push(Vector3::new(v[0], v[1], v[2]).normalize());
    if p_hi == 0.0 || p_lo == 0.0 {
      break;
    }
  }
  out
}

/// unit vector at angular distance `delta` from unit vector `ax`, azimuth `az` around it
fn ring(ax: &Vector3<f64>, delta: f64, az: f64) -> Vector3<f64> {
  let helper = if ax.x.abs() < 0.9 { Vector3::x() } else { Vector3::y() };
  let e1 = ax.cross(&helper).normalize();
  let e2 = ax.cross(&e1).normalize();
  (ax * delta.cos() + (e1 * az.cos() + e2 * az.sin()) * delta.sin()).normalize()
}

fn with_symmetries(c: &Case, d: Vector3<f64>, gen: &str, group: &mut u64, sym: bool) {
  *group += 1;
  emit_idx(c, d, gen, *group, "base");
  if !sym {
    return;
  }
  emit_idx(c, -d, gen, *group, "neg");
  // mirror images in the principal planes: flip one crystal-frame component, map back to the lab frame
  let setup = setup_of(c.crystal, c.ct, c.cp, c.t_c);
  let s = setup.to_crystal_frame(Unit::new_unchecked(d)).into_inner();
  for (k, name) in ["mx", "my", "mz"].iter().enumerate() {
    let mut m = s;
    m[k] = -m[k];
    emit_idx(c, lab_of(c.ct, c.cp, m), gen, *group, name);
  }
}

fn emit_walk(c: &Case, pol: PolarizationType, bphi: f64, btheta: f64, gen: &str) {
  let setup = setup_of(c.crystal, c.ct, c.cp, c.t_c);
  let beam = beam::Beam::new(pol, bphi * RAD, btheta * RAD, c.w * M, 100e-6 * M);
  let ind = *setup.crystal.get_indices(beam.vacuum_wavelength(), setup.temperature);
  let d = beam.direction().into_inner();
  let n = guarded(|| *beam.refractive_index(beam.frequency(), &setup));
  let rho = guarded(|| *(beam.walkoff_angle(&setup) / RAD));
  emit(json!({
    "kind": "walk", "id": c.id, "w": fx(c.w), "weff": fx(*(beam.vacuum_wavelength() / M)), "tc": fx(c.t_c),
    "ct": fx(c.ct), "cp": fx(c.cp), "pol": pol_name(pol), "bphi": fx(bphi), "btheta": fx(btheta),
    "n": [fx(ind.x), fx(ind.y), fx(ind.z)], "d": v3(&d),
    "nb": n.as_ref().map(|x| fx(*x)).unwrap_or(Value::Null),
    "rho": rho.as_ref().map(|x| fx(*x)).unwrap_or(Value::Null),
    "panic": rho.as_ref().err().cloned(), "gen": gen,
  }));
}

fn emit_beam(c: &Case, pol: PolarizationType, bphi: f64, btheta: f64) {
  let setup = setup_of(c.crystal, c.ct, c.cp, c.t_c);
  let beam = beam::Beam::new(pol, bphi * RAD, btheta * RAD, c.w * M, 100e-6 * M);
  let weff = frequency_to_vacuum_wavelength(beam.frequency());
  let nb = *beam.refractive_index(beam.frequency(), &setup);
  let ni = *setup.index_along(weff, beam.direction(), pol);
  // index at another frequency: the wrapper must convert that frequency, not the beam's own
  let om2 = beam.frequency() * 1.25;
  let nb2 = *beam.refractive_index(om2, &setup);
  let ni2 = *setup.index_along(frequency_to_vacuum_wavelength(om2), beam.direction(), pol);
  emit(json!({
    "kind": "beam", "id": c.id, "w": fx(c.w), "ct": fx(c.ct), "cp": fx(c.cp), "pol": pol_name(pol),
    "bphi": fx(bphi), "btheta": fx(btheta), "nb": fx(nb), "ni": fx(ni), "nb2": fx(nb2), "ni2": fx(ni2),
    "d": v3(&beam.direction().into_inner()),
  }));
}

fn hexf(s: &str) -> f64 {
  f64::from_bits(u64::from_str_radix(s.trim_start_matches("0x"), 16).unwrap_or(0))
}

/// vharness c02 replay idx <crystal> <w> <tc> <ct> <cp> <dx> <dy> <dz>      (floats as 0x… bit patterns)
/// vharness c02 replay walk <crystal> <w> <tc> <ct> <cp> <o|e> <bphi> <btheta>
fn replay(args: &[String]) {
  if args.len() < 7 {
    return;
  }
  let crystal = match CrystalType::from_string(&args[1]) {
    Ok(c) => c,
    Err(_) => return,
  };
  let meta = crystal.get_meta();
  let uniaxial = matches!(meta.axis_type, OpticAxisType::PositiveUniaxial | OpticAxisType::NegativeUniaxial);
  emit(json!({"kind": "crystal", "id": meta.id, "axis": format!("{:?}", meta.axis_type), "uniaxial": uniaxial, "lo": fx(0.), "hi": fx(0.)}));
  let c = Case { id: meta.id, crystal: &crystal, w: hexf(&args[2]), t_c: hexf(&args[3]), ct: hexf(&args[4]), cp: hexf(&args[5]) };
  if args[0] == "idx" && args.len() >= 9 {
    emit_idx(&c, Vector3::new(hexf(&args[6]), hexf(&args[7]), hexf(&args[8])), "replay", 1, "base");
  } else if args[0] == "walk" && args.len() >= 9 {
    let pol = if args[6] == "o" { PolarizationType::Ordinary } else { PolarizationType::Extraordinary };
    emit_walk(&c, pol, hexf(&args[7]), hexf(&args[8]), "orient");
  }
}

pub fn run(args: &[String]) {
  if args.first().map(|s| s == "replay").unwrap_or(false) {
    replay(&args[1..]);
    return;
  }
  let seed = arg_u64(args, 0, 1);
  let n_dir = arg_u64(args, 1, 4) as usize;
  let n_walk = arg_u64(args, 2, 4) as usize;
  let mut rng = Rng::new(seed);
  let mut group = 0u64;
  let pols = [PolarizationType::Ordinary, PolarizationType::Extraordinary];
  for meta in CrystalType::get_all_meta().iter() {
    let crystal = match CrystalType::from_string(meta.id) {
      Ok(c) => c,
      Err(_) => continue,
    };
    // in-window wavelengths: the declared window clipped to 0.2–12 um (C01 owns the window itself)
    let (lo, hi) = match meta.transmission_range {
      Some(r) if r.0 > 1e-8 && r.1 > r.0 => (r.0, r.1),
      _ => (0.5e-6, 1.6e-6),
    };
    let uniaxial = matches!(
      meta.axis_type,
      OpticAxisType::PositiveUniaxial | OpticAxisType::NegativeUniaxial
    );
    emit(json!({"kind": "crystal", "id": meta.id, "axis": format!("{:?}", meta.axis_type), "uniaxial": uniaxial,
                "lo": fx(lo), "hi": fx(hi)}));
    let mut new_case = |rng: &mut Rng| -> (f64, f64, f64, f64) {
      let w = rng.range(lo + 0.02 * (hi - lo), hi - 0.02 * (hi - lo));
      let t_c = if rng.coin() { 20.0 } else { rng.range(-50.0, 200.0) };
      let ct = rng.range(-PI, PI);
      let cp = rng.range(0.0, 2.0 * PI);
      (w, t_c, ct, cp)
    };
    // ---- (1) uniform directions, random orientation, with the symmetric images
    for i in 0..n_dir {
      let (w, t_c, ct, cp) = new_case(&mut rng);
      let c = Case { id: meta.id, crystal: &crystal, w, t_c, ct, cp };
      let d = rand_unit(&mut rng);
      with_symmetries(&c, d, "rand", &mut group, i % 2 == 0);
    }
    // ---- (2) pump along lab z: the rotated direction must be the crystal's polar direction
    for _ in 0..2.max(n_dir / 4) {
      let (w, t_c, ct, cp) = new_case(&mut rng);
      let c = Case { id: meta.id, crystal: &crystal, w, t_c, ct, cp };
      with_symmetries(&c, Vector3::z(), "pump", &mut group, false);
    }
    // ---- (3) rings around the optic axes (crystal frame), mapped back to the lab frame
    for (k, delta) in SCALES.iter().enumerate() {
      let reps = 1.max(n_dir / 4);
      for r in 0..reps {
        let (w, t_c, ct, cp) = new_case(&mut rng);
        let c = Case { id: meta.id, crystal: &crystal, w, t_c, ct, cp };
        let setup = setup_of(&crystal, ct, cp, t_c);
        let ind = *setup.crystal.get_indices(w * M, setup.temperature);
        let axes = optic_axes(&ind);
        if axes.is_empty() {
          continue;
        }
        let ax = axes[(k + r) % axes.len()] * (if rng.coin() { 1.0 } else { -1.0 });
        let s = ring(&ax, *delta, rng.range(0.0, 2.0 * PI));
        with_symmetries(&c, lab_of(ct, cp, s), &format!("axis:{:e}", delta), &mut group, r == 0 && k % 3 == 0);
      }
    }
    // ---- (4) natural near-axis configurations: pump along z, crystal tilted by (optic-axis angle ± delta), and a beam at a
    //          small polar angle in an untilted uniaxial crystal
    for delta in SCALES.iter() {
      let (w, t_c, _ct, _cp) = new_case(&mut rng);
      let setup = setup_of(&crystal, 0., 0., t_c);
      let ind = *setup.crystal.get_indices(w * M, setup.temperature);
      let axes = optic_axes(&ind);
      for ax in axes.iter() {
        // polar angles of the axis in the crystal frame
        let th = ax.z.clamp(-1., 1.).acos();
        let ph = ax.y.atan2(ax.x);
        for sg in [1.0, -1.0] {
          let c = Case { id: meta.id, crystal: &crystal, w, t_c, ct: th + sg * delta, cp: ph };
          with_symmetries(&c, Vector3::z(), &format!("tilt:{:e}", delta), &mut group, false);
        }
      }
      if uniaxial {
        let c = Case { id: meta.id, crystal: &crystal, w, t_c, ct: 0., cp: 0. };
        let a = rng.range(0.0, 2.0 * PI);
        let d = Vector3::new(delta.sin() * a.cos(), delta.sin() * a.sin(), delta.cos()).normalize();
        with_symmetries(&c, d, &format!("beam:{:e}", delta), &mut group, false);
      }
    }
    // exactly on the axes of an untilted crystal, and on the optic axis of a uniaxial one
    {
      let (w, t_c, _, _) = new_case(&mut rng);
      let c = Case { id: meta.id, crystal: &crystal, w, t_c, ct: 0., cp: 0. };
      for d in [Vector3::x(), Vector3::y(), Vector3::z(), -Vector3::z()] {
        with_symmetries(&c, d, "exact", &mut group, false);
      }
    }
    // ---- (5) rings around the principal planes
    for (k, delta) in SCALES.iter().enumerate() {
      for r in 0..1.max(n_dir / 8) {
        let (w, t_c, ct, cp) = new_case(&mut rng);
        let c = Case { id: meta.id, crystal: &crystal, w, t_c, ct, cp };
        let mut s = rand_unit(&mut rng);
        let which = (k + r) % 3;
        s[which] = 0.0;
        let mut s = s.normalize() * delta.cos();
        s[which] = delta.sin() * (if rng.coin() { 1.0 } else { -1.0 });
        with_symmetries(&c, lab_of(ct, cp, s.normalize()), &format!("plane{}:{:e}", ["x", "y", "z"][which], delta), &mut group,
                        r == 0 && k % 4 == 0);
      }
    }
    // ---- (6) Beam::refractive_index is index_along on the beam's direction and the given frequency
    for _ in 0..2.max(n_dir / 4) {
      let (w, t_c, ct, cp) = new_case(&mut rng);
      let c = Case { id: meta.id, crystal: &crystal, w, t_c, ct, cp };
      let pol = *rng.pick(&pols);
      emit_beam(&c, pol, rng.range(0.0, 2.0 * PI), rng.range(-PI, PI));
    }
    // ---- (7) walk-off
    for i in 0..n_walk {
      let (w, t_c, _, cp) = new_case(&mut rng);
      for pol in pols {
        // pump along z, optic axis 12°..90° from the beam (both signs of the crystal angle)
        let deg = match i {
          0 => 12.0,
          1 => 90.0,
          2 => 45.0,
          _ => rng.range(12.0, 90.0),
        };
        let sg = if i % 3 == 2 { -1.0 } else { 1.0 };
        let c = Case { id: meta.id, crystal: &crystal, w, t_c, ct: sg * deg * PI / 180., cp };
        emit_walk(&c, pol, 0., 0., "pump");
        // a beam in the x-z plane (azimuth 0 or pi) and a general beam
        let c = Case { id: meta.id, crystal: &crystal, w, t_c, ct: rng.range(0.25, 1.3), cp };
        emit_walk(&c, pol, if rng.coin() { 0. } else { PI }, rng.range(0.0, 0.2), "inplane");
        emit_walk(&c, pol, rng.range(0.0, 2.0 * PI), rng.range(-0.3, 0.3), "general");
      }
    }
    // small non-zero crystal angle with a TILTED beam: the optic axis is 12°..90° from the beam (the property's domain) while the
    // relative finite-difference step eps^(1/3)·|theta| of derivative_at becomes tiny
    for (k, delta) in SCALES.iter().enumerate() {
      let (w, t_c, _, cp) = new_case(&mut rng);
      for pol in pols {
        let sg = if k % 2 == 0 { 1.0 } else { -1.0 };
        let c = Case { id: meta.id, crystal: &crystal, w, t_c, ct: sg * delta, cp };
        emit_walk(&c, pol, if rng.coin() { 0. } else { PI }, rng.range(0.25, 1.2), "smalltheta");
        emit_walk(&c, pol, rng.range(0.0, 2.0 * PI), rng.range(0.25, 1.2), "smalltheta");
      }
    }
    {
      // crystal angle exactly 0 with a tilted beam (the code's absolute-step branch)
      let (w, t_c, _, cp) = new_case(&mut rng);
      for pol in pols {
        let c = Case { id: meta.id, crystal: &crystal, w, t_c, ct: 0., cp };
        emit_walk(&c, pol, rng.range(0.0, 2.0 * PI), rng.range(0.25, 1.2), "smalltheta");
      }
    }
    // every orientation: crystal angle 0, tiny, negative, beyond 90°, and near the optic axes
    {
      let (w, t_c, _, cp) = new_case(&mut rng);
      let setup = setup_of(&crystal, 0., 0., t_c);
      let ind = *setup.crystal.get_indices(w * M, setup.temperature);
      let axes = optic_axes(&ind);
      let mut cts: Vec<(f64, f64)> = vec![(0., cp), (PI / 2., cp), (-PI / 2., cp), (PI, cp), (2.5, cp), (-3.0, cp), (7.0, cp)];
      for delta in SCALES.iter() {
        cts.push((*delta, cp));
        for ax in axes.iter() {
          let th = ax.z.clamp(-1., 1.).acos();
          let ph = ax.y.atan2(ax.x);
          cts.push((th + delta, ph));
          cts.push((th - delta, ph));
        }
      }
      for _ in 0..n_walk {
        cts.push((rng.range(-PI, PI), rng.range(0.0, 2.0 * PI)));
      }
      for (ct, cph) in cts {
        for pol in pols {
          let c = Case { id: meta.id, crystal: &crystal, w, t_c, ct, cp: cph };
          emit_walk(&c, pol, 0., 0., "orient");
        }
      }
    }
  }
}
