//! C11 observations: `spdcalc::math::schmidt_number` on generated flat arrays (length check, values, invariances) and
//! `JointSpectrum::schmidt_number` against the function applied to `jsa_range` (see props/c11.py for the consumer).
//!
//! args: seed  n_value_cases  max_side  n_setup_cases
#![allow(unused_imports, dead_code)]
use crate::common::*;
use serde_json::{json, Value};
use spdcalc::dim::ucum::{M, RAD, S};
use spdcalc::math::{schmidt_number, Integrator};
use spdcalc::na::DMatrix;
use spdcalc::*;

type C = Complex<f64>;

fn outcome(a: &[C]) -> (String, f64, String) {
  let v: Vec<C> = a.to_vec();
  match guarded(move || schmidt_number(v)) {
    Ok(Ok(k)) => ("ok".into(), k, String::new()),
    Ok(Err(e)) => ("err".into(), f64::NAN, e.0),
    Err(p) => ("panic".into(), f64::NAN, p),
  }
}

fn kjson(a: &[C]) -> Value {
  let (cls, k, msg) = outcome(a);
  json!({"class": cls, "k": fx(k), "msg": msg})
}

/// unit-like Gaussian integers with integer modulus: (re, im, |.|)
const UNITS: [(i64, i64, i64); 12] = [
  (1, 0, 1),
  (0, 1, 1),
  (-1, 0, 1),
  (0, -1, 1),
  (3, 4, 5),
  (-4, 3, 5),
  (4, -3, 5),
  (5, 12, 13),
  (-12, 5, 13),
  (8, 15, 17),
  (-15, -8, 17),
  (-3, -4, 5),
];
const UNIT_MOD1: usize = 4;

fn transpose(a: &[C], n: usize) -> Vec<C> {
  let mut t = a.to_vec();
  for r in 0..n {
    for c in 0..n {
      t[c * n + r] = a[r * n + c];
    }
  }
  t
}

/// the singular-value power sums of the magnitude matrix, computed with the same nalgebra call the implementation makes
fn sv_sums(mag: &[f64], n: usize) -> Option<(f64, f64)> {
  let m = mag.to_vec();
  guarded(move || {
    DMatrix::from_row_slice(n, n, &m)
      .try_svd(false, false, f64::EPSILON, 10_000)
      .map(|svd| {
        let s2: f64 = svd.singular_values.iter().map(|x| x * x).sum();
        let s4: f64 = svd.singular_values.iter().map(|x| x.powi(4)).sum();
        (s2, s4)
      })
  })
  .ok()
  .flatten()
}

fn emit_value_case(rng: &mut Rng, family: &str, n: usize, re: Vec<i64>, im: Vec<i64>, fscale: f64) {
  // the array handed to the implementation: integer Gaussian entries times a power-of-two scale (exact in binary64)
  let a: Vec<C> = re.iter().zip(im.iter()).map(|(x, y)| C::new(*x as f64 * fscale, *y as f64 * fscale)).collect();
  let mag: Vec<f64> = a.iter().map(|z| z.norm()).collect();
  let base = kjson(&a);
  // invariance variants
  let c = C::new(rng.range(-3.0, 3.0), rng.range(0.25, 3.0));
  let scaled: Vec<C> = a.iter().map(|z| z * c).collect();
  let phased: Vec<C> = a.iter().map(|z| z * C::from_polar(1.0, rng.range(-3.2, 3.2))).collect();
  let transposed = transpose(&a, n);
  let conj: Vec<C> = a.iter().map(|z| z.conj()).collect();
  let sv = sv_sums(&mag, n);
  // global scale factors far from 1 but well inside the binary64 range of sigma^4: K must not change
  let extreme: Vec<Value> = [-15i32, -16, -17, -18, -30, -100, 15, 30, 100]
    .iter()
    .map(|e| {
      let f = 10f64.powi(*e);
      let v: Vec<C> = a.iter().map(|z| z * f).collect();
      json!({"exp10": e, "factor": fx(f), "result": kjson(&v)})
    })
    .collect();
  emit(json!({
    "kind": "val", "family": family, "scaled_extreme": extreme, "n": n, "re": re, "im": im, "scale": fx(fscale),
    "mag": fxs(&mag), "base": base,
    "scaled": kjson(&scaled), "scale_c": [fx(c.re), fx(c.im)],
    "phased": kjson(&phased), "transposed": kjson(&transposed), "conj": kjson(&conj),
    "sv2": sv.map(|s| fx(s.0)), "sv4": sv.map(|s| fx(s.1)),
  }));
}

fn gen_value_cases(rng: &mut Rng, ncases: usize, max_side: usize, forced: &[usize]) {
  let families = ["random", "sparse", "rank1", "diag", "perm", "diag_uneq", "block"];
  for case in 0..ncases + forced.len() {
    // sides: all small sides first, then random up to max_side; finally the forced large sides (the property says 1..40) with dense content
    let n = if case >= ncases { forced[case - ncases] } else if case < 2 * max_side.min(12) { 1 + case / 2 } else { 1 + rng.below(max_side) };
    let family = if case >= ncases { ["random", "random", "perm", "rank1"][(case - ncases) % 4] } else { families[case % families.len()] };
    let mut re = vec![0i64; n * n];
    let mut im = vec![0i64; n * n];
    let put = |re: &mut Vec<i64>, im: &mut Vec<i64>, k: usize, m: i64, u: (i64, i64, i64)| {
      re[k] = m * u.0;
      im[k] = m * u.1;
    };
    match family {
      "random" => {
        for k in 0..n * n {
          let u = UNITS[rng.below(UNITS.len())];
          put(&mut re, &mut im, k, rng.below(33) as i64, u);
        }
      }
      "sparse" => {
        for k in 0..n * n {
          if rng.below(4) == 0 {
            let u = UNITS[rng.below(UNITS.len())];
            put(&mut re, &mut im, k, 1 + rng.below(16) as i64, u);
          }
        }
        // keep the array non-zero
        let k = rng.below(n * n);
        if re.iter().all(|x| *x == 0) && im.iter().all(|x| *x == 0) {
          put(&mut re, &mut im, k, 3, UNITS[1]);
        }
      }
      "rank1" => {
        // |a_rc| = p_r q_c with unit-modulus phases, optionally times a common Gaussian integer
        let p: Vec<i64> = (0..n).map(|_| rng.below(9) as i64).collect();
        let q: Vec<i64> = (0..n).map(|_| rng.below(9) as i64).collect();
        let (mut p, mut q) = (p, q);
        p[rng.below(n)] = 1 + rng.below(8) as i64;
        q[rng.below(n)] = 1 + rng.below(8) as i64;
        let common = UNITS[rng.below(UNITS.len())];
        for r in 0..n {
          for c in 0..n {
            let u = UNITS[rng.below(UNIT_MOD1)];
            // (u * common) has modulus |common|
            let ur = u.0 * common.0 - u.1 * common.1;
            let ui = u.0 * common.1 + u.1 * common.0;
            re[r * n + c] = p[r] * q[c] * ur;
            im[r * n + c] = p[r] * q[c] * ui;
          }
        }
      }
      "diag" | "perm" => {
        // equal magnitudes on a (permuted) diagonal, arbitrary unit phases
        let m = 1 + rng.below(20) as i64;
        let mut perm: Vec<usize> = (0..n).collect();
        if family == "perm" {
          for i in (1..n).rev() {
            let j = rng.below(i + 1);
            perm.swap(i, j);
          }
        }
        for r in 0..n {
          let u = UNITS[rng.below(UNIT_MOD1)];
          put(&mut re, &mut im, r * n + perm[r], m, u);
        }
      }
      "diag_uneq" => {
        for r in 0..n {
          let u = UNITS[rng.below(UNITS.len())];
          put(&mut re, &mut im, r * n + r, 1 + rng.below(12) as i64, u);
        }
      }
      _ => {
        // block: two rank-1 blocks on the diagonal (K between 1 and 2)
        let h = n / 2;
        for r in 0..n {
          for c in 0..n {
            if (r < h) == (c < h) {
              let u = UNITS[rng.below(UNIT_MOD1)];
              let m = if r < h { 2 } else { 3 };
              put(&mut re, &mut im, r * n + c, m, u);
            }
          }
        }
      }
    }
    let fscale = [1.0, 0.5, 0.0625, 4.0, 1.0 / 1024.0][rng.below(5)];
    emit_value_case(rng, family, n, re, im, fscale);
  }
}

fn float_cases(rng: &mut Rng, ncases: usize, max_side: usize) {
  // arbitrary binary64 entries; the consumer recomputes (tr G)^2 / tr G^2 exactly from the magnitudes Rust computed
  for _ in 0..ncases {
    let n = 1 + rng.below(max_side.min(14));
    let shape = rng.below(3);
    let a: Vec<C> = (0..n * n)
      .map(|k| {
        let (r, c) = (k / n, k % n);
        let amp = match shape {
          0 => rng.range(0.0, 1.0),
          1 => (-(((r as f64) - (c as f64)).powi(2)) / 3.0).exp() * rng.range(0.5, 1.0),
          _ => (-((r as f64 + c as f64 - n as f64).powi(2)) / 8.0 - ((r as f64) - (c as f64)).powi(2) / 2.0).exp(),
        };
        C::from_polar(amp, rng.range(-3.2, 3.2))
      })
      .collect();
    let mag: Vec<f64> = a.iter().map(|z| z.norm()).collect();
    let c = C::from_polar(rng.log_range(1e-3, 1e3), rng.range(-3.2, 3.2));
    let scaled: Vec<C> = a.iter().map(|z| z * c).collect();
    let phased: Vec<C> = a.iter().map(|z| z * C::from_polar(1.0, rng.range(-3.2, 3.2))).collect();
    let sv = sv_sums(&mag, n);
    emit(json!({
      "kind": "fval", "n": n, "shape": shape,
      "re": fxs(&a.iter().map(|z| z.re).collect::<Vec<_>>()), "im": fxs(&a.iter().map(|z| z.im).collect::<Vec<_>>()),
      "mag": fxs(&mag), "base": kjson(&a), "scaled": kjson(&scaled), "phased": kjson(&phased),
      "transposed": kjson(&transpose(&a, n)),
      "sv2": sv.map(|s| fx(s.0)), "sv4": sv.map(|s| fx(s.1)),
    }));
  }
}

fn length_cases(rng: &mut Rng, max_len: usize) {
  // every length 0..=max_len; content: a fixed non-trivial pattern so accepted lengths also produce a value
  let mut ok: Vec<usize> = vec![];
  let mut err: Vec<usize> = vec![];
  let mut other: Vec<Value> = vec![];
  let mut msgs: Vec<String> = vec![];
  let mut ks: Vec<Value> = vec![];
  for len in 0..=max_len {
    let a: Vec<C> = (0..len).map(|k| C::new(1.0 + (k % 3) as f64, (k % 2) as f64)).collect();
    let (cls, k, msg) = outcome(&a);
    match cls.as_str() {
      "ok" => {
        ok.push(len);
        ks.push(json!([len, fx(k)]));
      }
      "err" => {
        err.push(len);
        if !msgs.contains(&msg) {
          msgs.push(msg);
        }
      }
      _ => other.push(json!([len, cls, msg])),
    }
  }
  emit(json!({"kind": "lens", "max": max_len, "ok": ok, "err": err, "other": other, "errmsgs": msgs, "ks": ks}));
  // large lengths: neighbours of squares and random non-squares (non-squares return before any allocation of a matrix)
  let mut big: Vec<Value> = vec![];
  let mut lens: Vec<usize> = vec![];
  for _ in 0..40 {
    let d = 45 + rng.below(960);
    lens.push(d * d - 1);
    lens.push(d * d + 1);
    lens.push(d * d + d);
    lens.push(rng.below(1_000_000) + 2026);
  }
  // a few large perfect squares (sparse content keeps the SVD cheap enough)
  for d in [45usize, 64, 100, 128] {
    lens.push(d * d);
  }
  for len in lens {
    let a: Vec<C> = (0..len).map(|k| if k % 7 == 0 { C::new(1.0, 0.0) } else { C::new(0.0, 0.0) }).collect();
    let (cls, _k, msg) = outcome(&a);
    big.push(json!([len, cls, msg]));
  }
  emit(json!({"kind": "biglens", "cases": big}));
}

pub fn setups() -> Vec<(&'static str, Value)> {
  vec![
    ("default", json!({})),
    ("ktp_pp_type2", json!({
      "crystal": {"kind": "KTP", "pm_type": "e->eo", "phi_deg": 0, "theta_deg": 90, "length_um": 14000, "temperature_c": 20},
      "pump": {"wavelength_nm": 775, "waist_um": 200, "bandwidth_nm": 0.5, "average_power_mw": 300},
      "signal": {"wavelength_nm": 1550, "phi_deg": 0, "theta_external_deg": 0, "waist_um": 100, "waist_position_um": "auto"},
      "idler": "auto", "periodic_poling": {"poling_period_um": "auto"}, "deff_pm_per_volt": 7.6})),
    ("bbo_type1", json!({
      "crystal": {"kind": "BBO_1", "pm_type": "e->oo", "phi_deg": 0, "theta_deg": "auto", "length_um": 2000, "temperature_c": 20},
      "pump": {"wavelength_nm": 405, "waist_um": 100, "bandwidth_nm": 1.0, "average_power_mw": 1},
      "signal": {"wavelength_nm": 810, "phi_deg": 0, "theta_deg": 0, "waist_um": 100, "waist_position_um": "auto"},
      "idler": "auto", "deff_pm_per_volt": 1.0})),
    ("ktp_pp_type0_nondeg", json!({
      "crystal": {"kind": "KTP", "pm_type": "e->ee", "phi_deg": 0, "theta_deg": 90, "length_um": 5000, "temperature_c": 30},
      "pump": {"wavelength_nm": 532, "waist_um": 80, "bandwidth_nm": 0.8, "average_power_mw": 10},
      "signal": {"wavelength_nm": 810, "phi_deg": 0, "theta_deg": 0, "waist_um": 60, "waist_position_um": "auto"},
      "idler": "auto", "periodic_poling": {"poling_period_um": "auto"}, "deff_pm_per_volt": 3.0})),
  ]
}

pub fn build_setup(v: &Value) -> Result<SPDC, String> {
  let v = v.clone();
  match guarded(move || -> Result<SPDC, String> {
    let cfg: SPDCConfig = if v.as_object().map(|o| o.is_empty()).unwrap_or(false) {
      SPDCConfig::default()
    } else {
      serde_json::from_value(v).map_err(|e| e.to_string())?
    };
    cfg.try_as_spdc().map_err(|e| e.0)
  }) {
    Ok(r) => r,
    Err(p) => Err(format!("panic: {}", p)),
  }
}

fn setup_cases(rng: &mut Rng, ncases: usize) {
  let list = setups();
  for case in 0..ncases {
    let (name, cfg) = &list[(case + case / 4) % list.len()];
    let spdc = match build_setup(cfg) {
      Ok(s) => s,
      Err(e) => {
        emit(json!({"kind": "setup_skip", "setup": name, "why": e}));
        continue;
      }
    };
    let n = 2 + rng.below(if case < list.len() { 6 } else { 14 });
    // every fourth case: different numbers of signal and idler steps (products that are and are not perfect squares)
    let shapes = [(4usize, 9usize), (3, 5), (9, 4), (2, 8), (5, 7), (1, 4), (6, 6), (2, 3)];
    let (nx, ny) = if case % 4 == 3 { shapes[(case / 4) % shapes.len()] } else { (n, n) };
    // a square shape from the table (6, 6) is a square range with THAT side: the side drawn above is replaced, so that
    // the reported step counts are always the ones of the range the amplitudes are sampled on
    let n = if nx == ny { nx } else { n };
    let range: FrequencySpace = if nx != ny {
      let st = spdc.optimum_range(n).as_steps();
      FrequencySpace::new((st.0 .0, st.0 .1, nx), (st.1 .0, st.1 .1, ny))
    } else if case % 3 == 2 {
      // a hand-made wavelength window around the degenerate point, converted as the API does
      let ls = *(spdc.signal.vacuum_wavelength() / M);
      let li = *(spdc.idler.vacuum_wavelength() / M);
      let w = rng.range(0.002, 0.02);
      WavelengthSpace::new((ls * (1.0 - w) * M, ls * (1.0 + w) * M, n), (li * (1.0 - w) * M, li * (1.0 + w) * M, n)).into()
    } else {
      spdc.optimum_range(n)
    };
    let st = range.as_steps();
    // report the step counts of the range itself, never a separately kept copy
    let (nx, ny) = (st.0 .2, st.1 .2);
    let integrator = Integrator::default();
    let sp = spdc.joint_spectrum(integrator);
    let amps = sp.jsa_range(range);
    let mag: Vec<f64> = amps.iter().map(|z| z.norm()).collect();
    let direct = match guarded(move || sp.schmidt_number(range)) {
      Ok(Ok(k)) => json!({"class": "ok", "k": fx(k), "msg": ""}),
      Ok(Err(e)) => json!({"class": "err", "k": fx(f64::NAN), "msg": e.0}),
      Err(p) => json!({"class": "panic", "k": fx(f64::NAN), "msg": p}),
    };
    emit(json!({
      "kind": "setup", "setup": name, "n": n, "nx": nx, "ny": ny,
      "xs": [fx(*(st.0 .0 / (RAD / S))), fx(*(st.0 .1 / (RAD / S)))], "ys": [fx(*(st.1 .0 / (RAD / S))), fx(*(st.1 .1 / (RAD / S)))],
      "mag": fxs(&mag), "direct": direct, "via_array": kjson(&amps),
    }));
  }
}

/// behaviour outside the binary64 range of sigma^4 (reported as a note by the consumer, not judged)
fn extreme_cases() {
  let base: Vec<C> = vec![C::new(1.0, 0.0), C::new(0.5, 0.0), C::new(0.25, 0.0), C::new(2.0, 1.0)];
  let mut rows: Vec<Value> = vec![];
  for e in [0i32, -60, -70, -74, -80, -100, -120, -160, 60, 70, 74, 80, 100, 120, 160] {
    let s = 10f64.powi(e);
    let a: Vec<C> = base.iter().map(|z| z * s).collect();
    rows.push(json!({"scale_exp10": e, "result": kjson(&a)}));
  }
  let zero = vec![C::new(0.0, 0.0); 4];
  emit(json!({"kind": "extreme", "rows": rows, "zero": kjson(&zero)}));
}

pub fn run(args: &[String]) {
  let seed = arg_u64(args, 0, 1);
  let ncases = arg_u64(args, 1, 60) as usize;
  let max_side = arg_u64(args, 2, 16) as usize;
  let nsetup = arg_u64(args, 3, 4) as usize;
  let max_len = arg_u64(args, 4, 2000) as usize;
  let mut rng = Rng::new(seed);
  length_cases(&mut rng, max_len);
  extreme_cases();
  let nbig = arg_u64(args, 5, 3) as usize;
  let bigs: Vec<usize> = [40usize, 24, 32, 36, 28, 40, 33, 25, 39, 30].iter().cloned().take(nbig).collect();
  gen_value_cases(&mut rng, ncases, max_side, &bigs);
  float_cases(&mut rng, ncases / 2 + 4, max_side);
  setup_cases(&mut rng, nsetup);
}
