//! C05 observations (consumer: props/c05.py).
//!
//! kinds:  "rule"   Integrator::Simpson{divs}.integrate on a known integrand e^{i(psi + ff z)} over [a, b]  (rule extraction)
//!         "fiber"  integrand of one setup at the 49 nodes of the default rule + phasematch_fiber_coupling with the default integrator
//!         "pt"     scalar dump + integrand at a few z for a large-waist collinear setup (correspondence with the generated model)
//!         "pw"     the property's box: collinear, waists >= 2 mm; along a random direction of the (omega_s, omega_i) plane the point of
//!                  perfect phase matching is located (Delta k_z = 0 with the pump at omega_s + omega_i, from public wavenumbers) and
//!                  |phasematch_fiber_coupling| is sampled at detunings spanning +-3.3 pi in Delta k_z L / 2
//!         "skip"   the library cannot build the generated setup / no phase-matched point on the sampled direction
#![allow(unused_imports, dead_code, non_snake_case)]
use crate::c06::{cx, dump_params, dump_values, random_zs};
use crate::common::*;
use serde_json::{json, Value};
use spdcalc::beam::{Beam, BeamWaist, IdlerBeam, PumpBeam, SignalBeam};
use spdcalc::dim::ucum::{self, DEG, M, MILLIW, RAD, S, V};
use spdcalc::jsa::JointSpectrum;
use spdcalc::math::Integrator;
use spdcalc::utils::{from_celsius_to_kelvin, frequency_to_wavenumber};
use spdcalc::*;
use std::f64::consts::PI;

const TYPES: [PMType; 5] = [PMType::Type0_o_oo, PMType::Type0_e_ee, PMType::Type1_e_oo, PMType::Type2_e_eo, PMType::Type2_e_oe];

/// collinear setup in the property's box; Err(reason) when the library cannot build it
fn box_setup(rng: &mut Rng, min_waist: f64, max_waist: f64) -> Result<(SPDC, Value), String> {
  box_setup_opt(rng, min_waist, max_waist, false)
}

/// `tilted`: a periodically poled crystal whose cut angle is small but non-zero (|theta| in (0.2, 2.8) deg: the fixed-step branch of
/// Beam::walkoff_angle), extraordinary pump, longest crystal and smallest waists (largest walk-off parameter)
fn box_setup_opt(rng: &mut Rng, min_waist: f64, max_waist: f64, tilted: bool) -> Result<(SPDC, Value), String> {
  let metas = CrystalType::get_all_meta();
  let meta = if tilted {
    let id = *rng.pick(&["BBO_1", "LiNbO3_1", "KDP_1", "LiIO3_1", "BiBO_1", "KTP"]);
    match metas.iter().find(|m| m.id == id) {
      Some(m) => m.clone(),
      None => return Err("crystal id".into()),
    }
  } else {
    rng.pick(&metas).clone()
  };
  let crystal = CrystalType::from_string(meta.id).map_err(|_| "crystal id".to_string())?;
  let (lo, hi) = match meta.transmission_range {
    Some(r) => (r.0, r.1),
    None => return Err("no window".into()),
  };
  let pm_type = if tilted { *rng.pick(&[PMType::Type0_e_ee, PMType::Type1_e_oo, PMType::Type2_e_eo, PMType::Type2_e_oe]) } else { *rng.pick(&TYPES) };
  let poled = tilted || rng.coin();
  // corners of the box are over-sampled: longest crystal, smallest waists (largest diffraction / walk-off corrections)
  let length = if tilted { rng.range(15e-3, 20e-3) } else if rng.below(4) == 0 { 20e-3 } else { rng.log_range(0.5e-3, 20e-3) };
  let temp_c = rng.range(15., 60.);
  // wavelengths inside the transparency window (idler up to 2.5 x pump wavelength x 1.25)
  let lp_lo = lo * 1.05;
  let lp_hi = hi / 3.4;
  if lp_hi <= lp_lo {
    return Err("window too narrow".into());
  }
  let lp = rng.range(lp_lo, lp_hi.min(lp_lo * 2.5));
  let ls = if rng.below(4) == 0 { 2. * lp } else { 2. * lp * rng.range(0.8, 1.25) };
  let mut waist = |rng: &mut Rng| if tilted { min_waist * rng.range(1.0, 1.15) } else if rng.below(3) == 0 { min_waist } else { rng.log_range(min_waist, max_waist) };
  let wp = waist(rng);
  let ws = waist(rng);
  let wi = waist(rng);
  // negative crystal angles give a NEGATIVE pump walk-off angle (tan rho < 0)
  let theta_c = if tilted { rng.range(0.2, 2.8) * (if rng.coin() { 1. } else { -1. }) } else if poled { *rng.pick(&[90., 90., 60., 35., 25., -35., -60., -25.]) } else { 45. };
  let flip_theta = !poled && rng.below(3) == 0;
  let phi_c = if rng.coin() { 0. } else { rng.range(0., 90.) };
  let mut cs = CrystalSetup {
    crystal: crystal.clone(),
    pm_type,
    phi: phi_c * DEG,
    theta: theta_c * DEG,
    length: length * M,
    temperature: from_celsius_to_kelvin(temp_c),
    counter_propagation: false,
  };
  let desc = json!({"crystal": meta.id, "pm_type": pm_type.to_str(), "poled": poled, "length_m": length, "temp_c": temp_c,
    "lambda_p_m": lp, "lambda_s_m": ls, "wp_m": wp, "ws_m": ws, "wi_m": wi, "theta_c_deg_initial": theta_c, "phi_c_deg": phi_c});
  let built = guarded(move || -> Result<SPDC, String> {
    let pump: PumpBeam = Beam::new(pm_type.pump_polarization(), 0. * RAD, 0. * RAD, lp * M, BeamWaist::new(wp * M)).into();
    let signal: SignalBeam = Beam::new(pm_type.signal_polarization(), 0. * RAD, 0. * RAD, ls * M, BeamWaist::new(ws * M)).into();
    let pp = if poled {
      PeriodicPoling::try_new_optimum(&signal, &pump, &cs, Apodization::Off).map_err(|e| format!("poling: {}", e))?
    } else {
      cs.assign_optimum_theta(&signal, &pump);
      if flip_theta {
        cs.theta = -cs.theta;
      }
      PeriodicPoling::Off
    };
    let mut idler = IdlerBeam::try_new_optimum(&signal, &pump, &cs, &pp).map_err(|e| format!("idler: {}", e))?;
    idler.set_waist(BeamWaist::new(wi * M));
    let zs = cs.optimal_waist_position(signal.vacuum_wavelength(), signal.polarization());
    let zi = cs.optimal_waist_position(idler.vacuum_wavelength(), idler.polarization());
    Ok(SPDC::new(cs, signal, idler, pump, 1e-9 * M, 100. * MILLIW, 1e-2, pp, zs, zi, 7.6e-12 * M / V))
  });
  match built {
    Ok(Ok(s)) => Ok((s, desc)),
    Ok(Err(e)) => Err(e),
    Err(p) => Err(format!("panic: {}", p)),
  }
}

/// tan(rho) = -(1/n_e) dn_e/dtheta of the pump, by central differences of Beam::refractive_index over the crystal cut angle with steps
/// 2e-3 and 1e-3 rad, Richardson-extrapolated (truncation ~1e-11 relative; rounding of n, up to ~1e-11 near an optic axis, enters as
/// ~1e-8).  NOT through Beam::walkoff_angle.
fn tan_rho_independent(spdc: &SPDC) -> f64 {
  let n_at = |t: f64| {
    let mut cs = spdc.crystal_setup.clone();
    cs.theta = t * RAD;
    *spdc.pump.refractive_index(spdc.pump.frequency(), &cs)
  };
  let t = *(spdc.crystal_setup.theta / RAD);
  let d = |h: f64| (n_at(t + h) - n_at(t - h)) / (2. * h);
  -((4. * d(1e-3) - d(2e-3)) / 3.) / n_at(t)
}

/// Delta k_z L / 2 with the pump at omega_s + omega_i, collinear, from public wavenumbers
fn ff_of(spdc: &SPDC, ws: Frequency, wi: Frequency) -> f64 {
  let cs = &spdc.crystal_setup;
  let kp = frequency_to_wavenumber(ws + wi, spdc.pump.refractive_index(ws + wi, cs));
  let ks = frequency_to_wavenumber(ws, spdc.signal.refractive_index(ws, cs));
  let ki = frequency_to_wavenumber(wi, spdc.idler.refractive_index(wi, cs));
  let dk = kp - ks - ki - spdc.pp.k_eff();
  *(0.5 * cs.length * dk / RAD)
}

/// `vharness c05 singles <seed> <n>`: observations for the GENERATED singles integrand (coq/Gen/PMSingles.v; consumer
/// vlib/pmcases.py: singles_cases).  phasematch_singles_fiber_coupling exposes only 1/4 |quadrature of the integrand|; with
/// Integrator::GaussLegendre { degree: 2 } the quadrature is a 4-node sum whose nodes and weights are read off by probing
/// integrate2d with recording / indicator integrands, so the value is a known linear functional of four integrand values.
pub fn run_singles(args: &[String]) {
  use std::sync::Mutex;
  let seed = arg_u64(args, 0, 1);
  let n = arg_u64(args, 1, 2) as usize;
  let mut rng = Rng::new(seed ^ 0x51);
  let gl = Integrator::GaussLegendre { degree: 2 };
  let rec: Mutex<Vec<(f64, f64)>> = Mutex::new(vec![]);
  let _ = gl.integrate2d(|z: f64, w: f64| { rec.lock().unwrap().push((z, w)); Complex::new(1., 0.) }, -1., 1., -1., 1.);
  let mut nodes: Vec<(f64, f64)> = rec.lock().unwrap().clone();
  nodes.sort_by(|a, b| a.partial_cmp(b).unwrap());
  nodes.dedup();
  let weights: Vec<f64> = nodes.iter().map(|(a, b)| {
    let (a, b) = (*a, *b);
    gl.integrate2d(move |z: f64, w: f64| Complex::new(if z == a && w == b { 1. } else { 0. }, 0.), -1., 1., -1., 1.).re
  }).collect();
  emit(json!({"kind": "gl2", "nodes": nodes.iter().map(|(a, b)| json!([fx(*a), fx(*b)])).collect::<Vec<_>>(), "weights": fxs(&weights)}));
  let mut made = 0;
  let mut tries = 0;
  while made < n && tries < 40 * n + 40 {
    tries += 1;
    let g = crate::c06::Gen { collinear: rng.below(4) == 0, min_waist: 30e-6, max_waist: 400e-6, apodize: true, equal_waists: false, elliptic: rng.coin() };
    let (spdc, desc) = match crate::c06::random_setup(&mut rng, &g) {
      Ok(x) => x,
      Err(e) => { emit(json!({"kind": "skip", "why": e})); continue; }
    };
    let sigma = fwhm_to_spectral_width(spdc.pump.vacuum_wavelength(), spdc.pump_bandwidth);
    let ws = spdc.signal.frequency() + rng.range(-0.5, 0.5) * sigma;
    let wi = spdc.idler.frequency() + rng.range(-0.5, 0.5) * sigma;
    let zs: Vec<f64> = {
      let mut v: Vec<f64> = nodes.iter().map(|x| x.0).chain(nodes.iter().map(|x| x.1)).collect();
      v.sort_by(|a, b| a.partial_cmp(b).unwrap());
      v.dedup();
      v
    };
    let r = guarded(|| {
      let p = dump_params(&spdc, ws, wi, &zs);
      let v = *(phasematch_singles_fiber_coupling(ws, wi, &spdc, gl) / PerMeter3::new(1.));
      let vd = *(phasematch_singles_fiber_coupling(ws, wi, &spdc, Integrator::default()) / PerMeter3::new(1.));
      (p, v, vd)
    });
    match r {
      Ok((p, v, vd)) => { made += 1; emit(json!({"kind": "sgl", "setup": desc, "zs": fxs(&zs), "p": p, "gl2": fx(v), "default": fx(vd)})); }
      Err(e) => emit(json!({"kind": "sgl_panic", "setup": desc, "why": e})),
    }
  }
  emit(json!({"kind": "done"}));
}

/// `vharness c05 singles-corpus <file.jsonl>`: scalar dump (fields of Model/PMParams.v) of recorded C08 inputs {id, config, idler_waist_um,
/// ws, wi}, for the setup and for its exchanged twin (idler singles are computed through the exchanged setup)
pub fn run_singles_corpus(args: &[String]) {
  let text = std::fs::read_to_string(args.first().map(|s| s.as_str()).unwrap_or("")).unwrap_or_default();
  for line in text.lines() {
    let e: Value = match serde_json::from_str(line) { Ok(v) => v, Err(_) => continue };
    let cfg = e["config"].as_str().unwrap_or("").to_string();
    let wi_um = e["idler_waist_um"].as_f64().unwrap_or(100.);
    let hexf = |k: &str| f64::from_bits(u64::from_str_radix(e[k].as_str().unwrap_or("0x0").trim_start_matches("0x"), 16).unwrap_or(0));
    let (os, oi) = (hexf("ws") * (RAD / S), hexf("wi") * (RAD / S));
    let r = guarded(move || -> Result<SPDC, String> {
      let mut s = SPDC::from_json(cfg).map_err(|e| e.to_string())?;
      s.idler.set_waist(wi_um * 1e-6 * M);
      s.assign_optimal_waist_positions();
      Ok(s)
    });
    if let Ok(Ok(spdc)) = r {
      let sw = spdc.clone().with_swapped_signal_idler();
      let zs = [0.0];
      let d = guarded(|| (dump_params(&spdc, os, oi, &zs), dump_params(&sw, oi, os, &zs),
        *(phasematch_singles_fiber_coupling(os, oi, &spdc, Integrator::Simpson { divs: 200 }) / PerMeter3::new(1.)),
        *(phasematch_singles_fiber_coupling(oi, os, &sw, Integrator::Simpson { divs: 200 }) / PerMeter3::new(1.))));
      if let Ok((a, b, va, vb)) = d {
        emit(json!({"kind": "corpus", "id": e["id"], "direct": a, "swapped": b, "singles_direct": fx(va), "singles_swapped": fx(vb)}));
      }
    }
  }
}

pub fn run(args: &[String]) {
  if args.first().map(|s| s.as_str()) == Some("singles") {
    return run_singles(&args[1..]);
  }
  if args.first().map(|s| s.as_str()) == Some("singles-corpus") {
    return run_singles_corpus(&args[1..]);
  }
  let seed = arg_u64(args, 0, 1);
  let n_pw = arg_u64(args, 1, 12) as usize;
  let n_pt = arg_u64(args, 2, 4) as usize;
  let n_other = arg_u64(args, 3, 12) as usize; // directions on which GaussLegendre / AdaptiveSimpson are run too (slow)
  let mut rng = Rng::new(seed);
  let integ = Integrator::default();
  emit(json!({"kind": "default_integrator", "debug": format!("{:?}", integ)}));
  // ---- rule extraction
  for divs in [50usize, 20, 7, 6, 49, 130, 131, 200] {
    for _ in 0..2 {
      let psi = rng.range(-3., 3.);
      let ff = rng.range(-12., 12.);
      let (a, b) = if rng.coin() { (-1., 1.) } else { (rng.range(-1., 0.5), rng.range(0.6, 2.5)) };
      let v = guarded(move || Integrator::Simpson { divs }.integrate(|z: f64| Complex::new(0., psi + ff * z).exp(), a, b));
      match v {
        Ok(v) => emit(json!({"kind": "rule", "divs": divs, "psi": fx(psi), "ff": fx(ff), "a": fx(a), "b": fx(b), "v": cx(v)})),
        Err(e) => emit(json!({"kind": "rule_panic", "divs": divs, "why": e})),
      }
    }
  }
  // ---- correspondence points + composition check in the large-waist regime
  let mut made = 0;
  let mut tries = 0;
  while made < n_pt && tries < 40 * n_pt + 40 {
    tries += 1;
    let (spdc, desc) = match box_setup(&mut rng, 0.5e-3, 20e-3) {
      Ok(x) => x,
      Err(e) => {
        emit(json!({"kind": "skip", "why": e}));
        continue;
      }
    };
    let js = match guarded(|| JointSpectrum::new(spdc.clone(), integ)) {
      Ok(j) => j,
      Err(e) => {
        emit(json!({"kind": "skip", "why": format!("JointSpectrum::new panicked: {}", e)}));
        continue;
      }
    };
    made += 1;
    let sigma = fwhm_to_spectral_width(spdc.pump.vacuum_wavelength(), spdc.pump_bandwidth);
    let ws = spdc.signal.frequency() + rng.range(-0.5, 0.5) * sigma;
    let wi = spdc.idler.frequency() + rng.range(-0.5, 0.5) * sigma;
    let zs = random_zs(&mut rng, 3);
    match guarded(|| (dump_params(&spdc, ws, wi, &zs), dump_values(&spdc, &js, ws, wi, &zs, integ))) {
      Ok((p, v)) => emit(json!({"kind": "pt", "setup": desc, "id": made, "zs": fxs(&zs), "p": p, "v": v})),
      Err(e) => emit(json!({"kind": "pt_panic", "setup": desc, "why": e})),
    }
    // the 49 nodes of the default rule
    let nodes: Vec<f64> = (0..=48).map(|i| -1. + (i as f64) * (2. / 48.)).collect();
    let r = guarded(|| {
      let f = get_pm_integrand(ws, wi, &spdc);
      let vals: Vec<Value> = nodes.iter().map(|z| cx(f(*z))).collect();
      let pmf = *(phasematch_fiber_coupling(ws, wi, &spdc, integ) / PerMeter4::new(1.));
      (vals, pmf)
    });
    if let Ok((vals, pmf)) = r {
      emit(json!({"kind": "fiber", "setup": desc, "nodes": fxs(&nodes), "vals": vals, "fiber": cx(pmf)}));
    }
  }
  // ---- the property's box
  let mut made = 0;
  let mut tries = 0;
  while made < n_pw && tries < 40 * n_pw + 40 {
    tries += 1;
    // every fourth setup: slightly tilted poled crystal
    let (spdc, desc) = match box_setup_opt(&mut rng, 2e-3, 20e-3, tries % 4 == 0) {
      Ok(x) => x,
      Err(e) => {
        emit(json!({"kind": "skip", "why": e}));
        continue;
      }
    };
    let ws0 = spdc.signal.frequency();
    let wi0 = spdc.idler.frequency();
    let unit = RAD / S;
    let w0 = *(ws0 / unit);
    let w1 = *(wi0 / unit);
    for _dir in 0..2 {
      let ang = rng.range(0., 2. * PI);
      let (cs_, sn_) = (ang.cos(), ang.sin());
      let at = |t: f64| (ws0 + t * cs_ * unit, wi0 + t * sn_ * unit);
      let tmax = 0.12 * w0.min(w1);
      let targets: Vec<f64> = (0..9)
        .map(|k| if k < 3 { [PI, 2. * PI, 3. * PI][k] * (if rng.coin() { 1. } else { -1. }) } else { rng.range(-3.3 * PI, 3.3 * PI) })
        .collect();
      let res = guarded(|| {
        let g = |t: f64| {
          let (a, b) = at(t);
          ff_of(&spdc, a, b)
        };
        // locate ff = target along the ray by bracketing + bisection (ff is smooth and, on these ranges, monotone)
        let solve = |target: f64| -> Option<f64> {
          let f0 = g(0.) - target;
          if f0 == 0. {
            return Some(0.);
          }
          for sgn in [1.0f64, -1.0] {
            let mut step = tmax / 4096.;
            let mut t_prev = 0.;
            let mut f_prev = f0;
            while step <= tmax {
              let t = sgn * step;
              let f = g(t) - target;
              if f == 0. {
                return Some(t);
              }
              if (f > 0.) != (f_prev > 0.) {
                let (mut lo, mut hi, mut flo) = (t_prev, t, f_prev);
                for _ in 0..200 {
                  let mid = 0.5 * (lo + hi);
                  let fm = g(mid) - target;
                  if (fm > 0.) == (flo > 0.) {
                    lo = mid;
                    flo = fm;
                  } else {
                    hi = mid;
                  }
                }
                return Some(0.5 * (lo + hi));
              }
              t_prev = t;
              f_prev = f;
              step *= 2.;
            }
          }
          None
        };
        let t0 = solve(0.)?;
        let mut samples = vec![];
        let (a0, b0) = at(t0);
        let big = Integrator::Simpson { divs: 130 };
        // the other quadratures of Integrator::integrate on the same (complex-valued) integrand
        let gl = Integrator::GaussLegendre { degree: 40 };
        let ads = Integrator::AdaptiveSimpson { tolerance: 1e-9, max_depth: 20 };
        let with_others = made < n_other;
        let others = |a: Frequency, b: Frequency| -> Option<(Complex<f64>, Complex<f64>)> {
          if !with_others {
            return None;
          }
          Some((*(phasematch_fiber_coupling(a, b, &spdc, gl) / PerMeter4::new(1.)), *(phasematch_fiber_coupling(a, b, &spdc, ads) / PerMeter4::new(1.))))
        };
        let f_pm = *(phasematch_fiber_coupling(a0, b0, &spdc, integ) / PerMeter4::new(1.));
        let f_pm_big = *(phasematch_fiber_coupling(a0, b0, &spdc, big) / PerMeter4::new(1.));
        samples.push((t0, g(t0), f_pm, f_pm_big, others(a0, b0)));
        for target in targets.iter() {
          if let Some(t) = solve(*target) {
            let (a, b) = at(t);
            let v = *(phasematch_fiber_coupling(a, b, &spdc, integ) / PerMeter4::new(1.));
            let vb = *(phasematch_fiber_coupling(a, b, &spdc, big) / PerMeter4::new(1.));
            samples.push((t, g(t), v, vb, others(a, b)));
          }
        }
        Some(samples)
      });
      match res {
        Ok(Some(samples)) => {
          made += 1;
          let zs = [0.0];
          let (a0, b0) = at(samples[0].0);
          let p = dump_params(&spdc, a0, b0, &zs);
          let ss: Vec<Value> = samples.iter().map(|(t, ff, v, vb, o)| json!({"t": fx(*t), "ff": fx(*ff), "v": cx(*v), "v130": cx(*vb),
            "v_gl40": o.map(|x| cx(x.0)), "v_adaptive": o.map(|x| cx(x.1))})).collect();
          emit(json!({"kind": "pw", "setup": desc, "dir_rad": ang, "p": p, "samples": ss, "tan_rho_independent": fx(guarded(std::panic::AssertUnwindSafe(|| tan_rho_independent(&spdc))).unwrap_or(f64::NAN)),
            "theta_c_deg": *(spdc.crystal_setup.theta / DEG)}));
        }
        Ok(None) => emit(json!({"kind": "skip", "why": "no phase-matched point within 12 % detuning on the sampled direction", "setup": desc})),
        Err(e) => emit(json!({"kind": "pw_panic", "setup": desc, "why": e})),
      }
    }
  }
  emit(json!({"kind": "done"}));
}
