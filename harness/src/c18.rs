//! C18 observations: every sweep path x values x base setups (configuration before / after through SPDC::as_config),
//! unknown paths, two-parameter sweeps (order, values, spectrum values vs individually constructed setups).
//! Consumer: props/c18.py.
#![allow(unused_imports, dead_code)]
use crate::common::*;
use serde_json::{json, Map, Value};
use spdcalc::dim::f64prefixes::*;
use spdcalc::dim::ucum::*;
use spdcalc::prelude::Integrator;
use spdcalc::utils::Steps2D;
use spdcalc::*;

pub const PATHS: [&str; 25] = [
  "crystal.phi_deg", "crystal.theta_deg", "crystal.length_um", "crystal.temperature_c",
  "signal.theta_deg", "signal.theta_external_deg", "signal.phi_deg", "signal.frequency_thz", "signal.wavelength_nm", "signal.waist_um", "signal.waist_position_um",
  "idler.theta_deg", "idler.theta_external_deg", "idler.phi_deg", "idler.frequency_thz", "idler.wavelength_nm", "idler.waist_um", "idler.waist_position_um",
  "pump.frequency_thz", "pump.wavelength_nm", "pump.waist_um", "pump.average_power_mw", "pump.bandwidth_nm",
  "periodic_poling.poling_period_um", "deff_pm_per_volt",
];

fn bases() -> Vec<(&'static str, SPDC)> {
  let mut out = Vec::new();
  out.push(("default_ktp_unpoled", SPDC::default()));
  let ppktp = json!({
    "crystal": {"kind": "KTP", "pm_type": "e->eo", "phi_deg": 0, "theta_deg": 90, "length_um": 2000, "temperature_c": 20},
    "pump": {"wavelength_nm": 775, "waist_um": 100, "bandwidth_nm": 5.35, "average_power_mw": 1},
    "signal": {"wavelength_nm": 1550, "phi_deg": 0, "theta_deg": 0, "waist_um": 100, "waist_position_um": "auto"},
    "idler": "auto",
    "periodic_poling": {"poling_period_um": "auto", "apodization": {"kind": "Gaussian", "parameter": {"fwhm_um": 1600.0}}},
    "deff_pm_per_volt": 7.6
  });
  if let Ok(s) = SPDC::from_json(ppktp.to_string()) {
    out.push(("ppktp_gaussian", s));
  }
  let bbo = json!({
    "crystal": {"kind": "BBO_1", "pm_type": "e->eo", "phi_deg": 0, "theta_deg": 42.5, "length_um": 1500, "temperature_c": 30},
    "pump": {"wavelength_nm": 405, "waist_um": 80, "bandwidth_nm": 0.5, "average_power_mw": 12.5},
    "signal": {"wavelength_nm": 810, "phi_deg": 15, "theta_deg": 2.25, "waist_um": 60, "waist_position_um": -350.5},
    "idler": {"wavelength_nm": 810, "phi_deg": 195, "theta_deg": 2.25, "waist_um": 70, "waist_position_um": -420.25},
    "deff_pm_per_volt": 2.2
  });
  if let Ok(s) = SPDC::from_json(bbo.to_string()) {
    out.push(("bbo_noncollinear", s));
  }
  let ppln = json!({
    "crystal": {"kind": "LiNbO3_1", "pm_type": "Type0_e_ee", "phi_deg": 0, "theta_deg": 90, "length_um": 5000, "temperature_c": 80},
    "pump": {"wavelength_nm": 532, "waist_um": 60, "bandwidth_nm": 0.1, "average_power_mw": 50},
    "signal": {"wavelength_nm": 810, "phi_deg": 0, "theta_external_deg": 0.5, "waist_um": 45, "waist_position_um": -1200},
    "idler": "auto",
    "periodic_poling": {"poling_period_um": 7.4, "apodization": {"kind": "Bartlett", "parameter": 1.25}},
    "deff_pm_per_volt": 14.0
  });
  if let Ok(s) = SPDC::from_json(ppln.to_string()) {
    out.push(("ppln_type0_bartlett", s));
  }
  // make every base config-exact (setup == try_as_spdc(as_config(setup))): a setup built afresh from a configuration can then be
  // compared with a swept one
  out
    .into_iter()
    .map(|(n, s)| {
      let rt = SPDCConfig::from(s.clone()).try_as_spdc().unwrap_or(s);
      (n, rt)
    })
    .collect()
}

/// configuration as path -> value (numbers as bit patterns, everything else as JSON text)
fn flat_config(spdc: &SPDC) -> Value {
  let cfg = SPDCConfig::from(spdc.clone());
  let v = serde_json::to_value(&cfg).unwrap_or(Value::Null);
  let mut out = Map::new();
  fn walk(prefix: &str, v: &Value, out: &mut Map<String, Value>) {
    match v {
      Value::Object(m) => {
        for (k, x) in m {
          let p = if prefix.is_empty() { k.clone() } else { format!("{}.{}", prefix, k) };
          walk(&p, x, out);
        }
      }
      Value::Number(n) => {
        out.insert(prefix.to_string(), json!({"n": fx(n.as_f64().unwrap_or(f64::NAN))}));
      }
      other => {
        out.insert(prefix.to_string(), json!({"t": other.to_string()}));
      }
    }
  }
  walk("", &v, &mut out);
  Value::Object(out)
}

/// raw (unrounded) state: every numeric field of the setup in SI units (the model's record), every f64 as its bit pattern
fn beam_raw(b: &spdcalc::prelude::Beam) -> Value {
  json!({"waist_x": fx(*(b.waist().x / M)), "waist_y": fx(*(b.waist().y / M)), "omega": fx(*(b.frequency() / (RAD / S))),
    "theta": fx(*(b.theta_internal() / RAD)), "phi": fx(*(b.phi() / RAD)), "wavelength_m": fx(*(b.vacuum_wavelength() / M)),
    "polarization": format!("{:?}", b.polarization())})
}

fn apod_raw(ap: &Apodization) -> Value {
  match ap {
    Apodization::Off => json!({"kind": "Off"}),
    Apodization::Gaussian { fwhm } => json!({"kind": "Gaussian", "p": fx(*(*fwhm / M))}),
    Apodization::Bartlett(a) => json!({"kind": "Bartlett", "p": fx(*a)}),
    Apodization::Blackman(a) => json!({"kind": "Blackman", "p": fx(*a)}),
    Apodization::Connes(a) => json!({"kind": "Connes", "p": fx(*a)}),
    Apodization::Cosine(a) => json!({"kind": "Cosine", "p": fx(*a)}),
    Apodization::Hamming(a) => json!({"kind": "Hamming", "p": fx(*a)}),
    Apodization::Welch(a) => json!({"kind": "Welch", "p": fx(*a)}),
    Apodization::Interpolate(v) => json!({"kind": "Interpolate", "values": fxs(v)}),
  }
}

fn raw_state(spdc: &SPDC) -> Value {
  let pp = match &spdc.pp {
    PeriodicPoling::Off => json!({"on": false}),
    PeriodicPoling::On { period, sign, apodization } => json!({"on": true, "period_m": fx(*(*period / M)),
      "sign": if *sign == Sign::POSITIVE { "POSITIVE" } else { "NEGATIVE" }, "apodization": apod_raw(apodization)}),
  };
  json!({
    "signal": beam_raw(&spdc.signal), "idler": beam_raw(&spdc.idler), "pump": beam_raw(&spdc.pump),
    "crystal": {"phi": fx(*(spdc.crystal_setup.phi / RAD)), "theta": fx(*(spdc.crystal_setup.theta / RAD)),
      "length": fx(*(spdc.crystal_setup.length / M)), "temperature": fx(*(spdc.crystal_setup.temperature / K)),
      "kind": format!("{}", spdc.crystal_setup.crystal), "pm_type": format!("{}", spdc.crystal_setup.pm_type),
      "counter_propagation": spdc.crystal_setup.counter_propagation},
    "pump_average_power": fx(*(spdc.pump_average_power / W)), "pump_bandwidth": fx(*(spdc.pump_bandwidth / M)),
    "pump_spectrum_threshold": fx(spdc.pump_spectrum_threshold),
    "signal_waist_position": fx(*(spdc.signal_waist_position / M)), "idler_waist_position": fx(*(spdc.idler_waist_position / M)),
    "deff": fx(*(spdc.deff / (M / V))),
    "pp": pp,
  })
}

fn single(base: &SPDC, path: &str, v: f64) -> Result<SPDC, String> {
  let it = SPDCIter::try_new(base.clone(), path, path, Steps2D((v, v, 1), (v, v, 1)))?;
  it.into_iter().next().ok_or_else(|| "empty sweep".to_string())
}

/// The property's reading of a path, written directly against the public API (no get_setter): used to build the
/// "individually constructed" setups.  THz = 1e12 cycles per second: lambda = c / nu.
fn spec_apply(spdc: &mut SPDC, path: &str, v: f64) -> bool {
  let (head, tail) = match path.split_once('.') {
    Some(x) => x,
    None => ("", path),
  };
  match (head, tail) {
    ("crystal", "phi_deg") => spdc.crystal_setup.phi = v * DEG,
    ("crystal", "theta_deg") => spdc.crystal_setup.theta = v * DEG,
    ("crystal", "length_um") => spdc.crystal_setup.length = v * 1e-6 * M,
    ("crystal", "temperature_c") => spdc.crystal_setup.temperature = (v + 273.15) * K,
    ("pump", "average_power_mw") => spdc.pump_average_power = v * 1e-3 * W,
    ("pump", "bandwidth_nm") => spdc.pump_bandwidth = v * 1e-9 * M,
    ("signal", "waist_position_um") => spdc.signal_waist_position = v * 1e-6 * M,
    ("idler", "waist_position_um") => spdc.idler_waist_position = v * 1e-6 * M,
    ("", "deff_pm_per_volt") => spdc.deff = v * 1e-12 * M / V,
    ("periodic_poling", "poling_period_um") => {
      let sign = PeriodicPoling::compute_sign(&spdc.signal, &spdc.pump, &spdc.crystal_setup);
      let signed = if sign == Sign::POSITIVE { v.abs() } else { -v.abs() };
      spdc.pp = spdc.pp.clone().with_period(signed * 1e-6 * M);
    }
    ("signal", _) | ("idler", _) | ("pump", _) => {
      let crystal = spdc.crystal_setup.clone();
      let b: &mut spdcalc::prelude::Beam = match head {
        "signal" => &mut spdc.signal,
        "idler" => &mut spdc.idler,
        _ => &mut spdc.pump,
      };
      match tail {
        "theta_deg" if head != "pump" => {
          b.set_theta_internal(v * DEG);
        }
        "theta_external_deg" if head != "pump" => {
          b.set_theta_external(v * DEG, &crystal);
        }
        "phi_deg" if head != "pump" => {
          b.set_phi(v * DEG);
        }
        "frequency_thz" => {
          b.set_vacuum_wavelength(299792458. / (v * 1e12) * M);
        }
        "wavelength_nm" => {
          b.set_vacuum_wavelength(v * 1e-9 * M);
        }
        "waist_um" => {
          b.set_waist(v * 1e-6 * M);
        }
        _ => return false,
      }
    }
    _ => return false,
  }
  true
}

fn readbacks(s: &SPDC) -> Value {
  let s1 = s.clone();
  let s2 = s.clone();
  let s3 = s.clone();
  let es = guarded(move || *(s1.signal.theta_external(&s1.crystal_setup) / DEG)).ok();
  let ei = guarded(move || *(s2.idler.theta_external(&s2.crystal_setup) / DEG)).ok();
  let sg = guarded(move || PeriodicPoling::compute_sign(&s3.signal, &s3.pump, &s3.crystal_setup)).ok();
  let pp = match &s.pp {
    PeriodicPoling::Off => json!({"on": false}),
    PeriodicPoling::On { period, sign, .. } => json!({"on": true, "period_m": fx(*(*period / M)), "sign": if *sign == Sign::POSITIVE { "POSITIVE" } else { "NEGATIVE" }}),
  };
  json!({"signal_theta_external_deg": es.map(fx), "idler_theta_external_deg": ei.map(fx),
    "computed_sign": sg.map(|x| if x == Sign::POSITIVE { "POSITIVE" } else { "NEGATIVE" }), "pp": pp})
}

/// set one sweep path in a configuration JSON (the property's units; THz = 1e12 cycles per second)
fn set_cfg_path(js: &mut Value, path: &str, v: f64) -> bool {
  let (head, tail) = match path.split_once('.') {
    Some(x) => x,
    None => ("", path),
  };
  if head.is_empty() {
    js[tail] = json!(v);
    return true;
  }
  if head == "periodic_poling" {
    if !js["periodic_poling"].is_object() {
      js["periodic_poling"] = json!({});
    }
    js["periodic_poling"][tail] = json!(v);
    return true;
  }
  if !js[head].is_object() {
    return false;
  }
  match tail {
    "theta_external_deg" => {
      js[head]["theta_external_deg"] = json!(v);
      js[head]["theta_deg"] = Value::Null;
    }
    "theta_deg" if head != "crystal" => {
      js[head]["theta_deg"] = json!(v);
      js[head]["theta_external_deg"] = Value::Null;
    }
    "frequency_thz" => {
      js[head]["wavelength_nm"] = json!(299792458. / (v * 1e12) * 1e9);
    }
    _ => {
      js[head][tail] = json!(v);
    }
  }
  true
}

/// a setup constructed afresh: configuration of the base with the two values written into it -> try_as_spdc (Beam::new etc.,
/// none of the sweep setters)
fn fresh_from_config(base: &SPDC, p1: &str, v1: f64, p2: &str, v2: f64) -> Result<SPDC, String> {
  let mut js = serde_json::to_value(SPDCConfig::from(base.clone())).map_err(|e| e.to_string())?;
  if !(set_cfg_path(&mut js, p1, v1) && set_cfg_path(&mut js, p2, v2)) {
    return Err("path".into());
  }
  let cfg: SPDCConfig = serde_json::from_value(js).map_err(|e| e.to_string())?;
  cfg.try_as_spdc().map_err(|e| e.0)
}

/// direction-dependent observables of a setup at its own centre frequencies
fn observables(s: &SPDC) -> Value {
  let s1 = s.clone();
  let dk = guarded(move || {
    let k = s1.delta_k(s1.signal.frequency(), s1.idler.frequency());
    let v = *(k * M / RAD);
    [v.x, v.y, v.z]
  });
  let s2 = s.clone();
  let j = guarded(move || jsi_of(&s2));
  let sign = match &s.pp {
    PeriodicPoling::Off => "Off",
    PeriodicPoling::On { sign, .. } => if *sign == Sign::POSITIVE { "POSITIVE" } else { "NEGATIVE" },
  };
  json!({"delta_k": dk.ok().map(|d| fxs(&d)), "jsi": j.ok().map(fx), "pp_sign": sign})
}

fn jsi_of(spdc: &SPDC) -> f64 {
  // the expression of SPDCIter::jsi_values, on one setup
  let jsi = jsa_raw(spdc.signal.frequency(), spdc.idler.frequency(), spdc, Integrator::default()).norm_sqr();
  if jsi == 0. {
    0.
  } else {
    jsi * *(jsi_normalization(spdc.signal.frequency(), spdc.idler.frequency(), spdc) / JsiNorm::new(1.))
  }
}

fn values_for(path: &str, rng: &mut Rng, n: usize) -> Vec<f64> {
  let (lo, hi, fixed): (f64, f64, Vec<f64>) = if path.ends_with("theta_external_deg") {
    (-12., 12., vec![0., 1.5, 5., -3., -1.5])
  } else if path.starts_with("crystal.") && path.ends_with("theta_deg") {
    (0., 90., vec![0., 45., 90., 180., -0.0])
  } else if path.ends_with("theta_deg") {
    // incl. the ends of the documented range (-180, 180] and values that wrap
    (-20., 20., vec![0., 2.5, -3.25, 179.5, 90., 180., -180., 360., -360., -0.0, 270.])
  } else if path.starts_with("crystal.") && path.ends_with("phi_deg") {
    (0., 359.9, vec![0., 90., 180., 270.5, -0.0])
  } else if path.ends_with("phi_deg") {
    // documented range [0, 360)
    (0., 359.9, vec![0., 90., 180., 270.5, 360., -180., -90., -0.0, 720.5])
  } else if path.ends_with("length_um") {
    (100., 30000., vec![500., 10000.])
  } else if path.ends_with("temperature_c") {
    (-40., 180., vec![20., 0., 150.25])
  } else if path.ends_with("frequency_thz") {
    (150., 800., vec![200., 193.4, 386.8])
  } else if path.ends_with("wavelength_nm") {
    (400., 2000., vec![775., 1550., 810.5])
  } else if path.ends_with("waist_position_um") {
    (-2000., 0., vec![0., -500., -123.4567])
  } else if path.ends_with("waist_um") {
    (5., 500., vec![35., 100.])
  } else if path.ends_with("average_power_mw") {
    (0.01, 500., vec![1., 250.])
  } else if path.ends_with("bandwidth_nm") {
    (0.01, 30., vec![0.5, 5.35])
  } else if path.ends_with("poling_period_um") {
    (2., 80., vec![46.5, 9.25])
  } else {
    (0.1, 30., vec![1., 7.6])
  };
  let mut vs = fixed;
  for _ in 0..n {
    // four decimals: the configuration view rounds to 1e-4, the property compares at that resolution
    vs.push(((lo + (hi - lo) * rng.unit()) * 1e4).round() / 1e4);
  }
  vs
}

pub fn run(args: &[String]) {
  let seed = arg_u64(args, 0, 1);
  let n = arg_u64(args, 1, 3) as usize;
  let nsweeps = arg_u64(args, 2, 6) as usize;
  let mut rng = Rng::new(seed);
  let bases = bases();
  emit(json!({"kind": "bases", "names": bases.iter().map(|b| b.0).collect::<Vec<_>>()}));

  // ---- every path x values x base
  for (bname, base) in bases.iter() {
    let before = flat_config(base);
    let raw_before = raw_state(base);
    for path in PATHS {
      for v in values_for(path, &mut rng, n) {
        let b2 = base.clone();
        let r = guarded(move || single(&b2, path, v));
        match r {
          Ok(Ok(after)) => {
            let ext = if path.ends_with("theta_external_deg") {
              let b = if path.starts_with("signal") { &*after.signal } else { &*after.idler };
              json!(fx(*(b.theta_external(&after.crystal_setup) / DEG)))
            } else {
              Value::Null
            };
            let sign_now = if path.starts_with("periodic_poling") {
              let a2 = after.clone();
              match guarded(move || PeriodicPoling::compute_sign(&a2.signal, &a2.pump, &a2.crystal_setup)) {
                Ok(s) => json!(if s == Sign::POSITIVE { "POSITIVE" } else { "NEGATIVE" }),
                Err(_) => json!("panic"),
              }
            } else {
              Value::Null
            };
            emit(json!({"kind": "set", "base": bname, "path": path, "v": fx(v), "before": before, "after": flat_config(&after),
              "raw_before": raw_before, "raw_after": raw_state(&after), "theta_external_deg": ext, "computed_sign": sign_now}));
          }
          Ok(Err(e)) => emit(json!({"kind": "set_err", "base": bname, "path": path, "v": fx(v), "err": e})),
          Err(e) => emit(json!({"kind": "set_panic", "base": bname, "path": path, "v": fx(v), "msg": e})),
        }
      }
    }
  }

  // ---- unknown paths
  let mut unknown: Vec<String> = vec!["", "crystal", "crystal.kind", "crystal.pm_type", "pump.spectrum_threshold", "pump.theta_deg", "signal.bandwidth_nm",
    "idler.average_power_mw", "periodic_poling.apodization", "periodic_poling.poling_period_nm", "deff", "deff_pm_per_volt ", " deff_pm_per_volt",
    "signal.frequency_hz", "signal.wavelength_um", "crystal.length_mm", "Signal.theta_deg", "signal/theta_deg", "signal.theta_deg.", "pump.waist_position_um"]
    .into_iter().map(String::from).collect();
  for p in PATHS {
    let s = p.to_string();
    if s.len() > 2 {
      let k = rng.below(s.len() - 1);
      let mut t = s.clone();
      t.remove(k);
      unknown.push(t);
      unknown.push(s.to_uppercase());
      unknown.push(format!("{}x", s));
    }
  }
  for u in unknown {
    if PATHS.contains(&u.as_str()) {
      continue;
    }
    let r = SPDCIter::try_new(SPDC::default(), u.clone(), "deff_pm_per_volt".to_string(), Steps2D((1., 2., 2), (1., 2., 2)));
    let r2 = SPDCIter::try_new(SPDC::default(), "deff_pm_per_volt".to_string(), u.clone(), Steps2D((1., 2., 2), (1., 2., 2)));
    emit(json!({"kind": "unknown", "path": u, "first_rejected": r.is_err(), "second_rejected": r2.is_err(),
      "message": r.err().unwrap_or_default()}));
  }
  for p in PATHS {
    let r = SPDCIter::try_new(SPDC::default(), p, p, Steps2D((1., 2., 2), (1., 2., 2)));
    emit(json!({"kind": "known", "path": p, "accepted": r.is_ok()}));
  }

  // ---- two-parameter sweeps
  let pairs: Vec<(&str, &str, (f64, f64), (f64, f64))> = vec![
    ("crystal.theta_deg", "signal.wavelength_nm", (40., 50.), (1500., 1600.)),
    ("signal.waist_um", "deff_pm_per_volt", (30., 50.), (1., 8.)),
    ("crystal.temperature_c", "pump.wavelength_nm", (20., 80.), (770., 780.)),
    ("periodic_poling.poling_period_um", "crystal.theta_deg", (30., 50.), (80., 100.)),
    ("idler.waist_um", "signal.waist_um", (40., 120.), (50., 150.)),
    ("pump.bandwidth_nm", "crystal.length_um", (0.5, 6.), (500., 4000.)),
    ("signal.theta_deg", "idler.theta_deg", (0., 3.), (0., 3.)),
    ("pump.average_power_mw", "pump.waist_um", (1., 100.), (50., 200.)),
    // pairs that do not commute: the second setter reads what the first one wrote (Snell against the swept crystal / wavelength,
    // poling sign from the swept wavelengths); the dependent parameter is always the SECOND one
    ("crystal.theta_deg", "signal.theta_external_deg", (25., 85.), (1., 4.)),
    ("crystal.phi_deg", "idler.theta_external_deg", (0., 90.), (0.5, 3.)),
    ("crystal.temperature_c", "signal.theta_external_deg", (20., 180.), (2., 6.)),
    ("signal.wavelength_nm", "signal.theta_external_deg", (800., 1700.), (1., 5.)),
    ("pump.wavelength_nm", "periodic_poling.poling_period_um", (500., 700.), (5., 40.)),
    ("signal.wavelength_nm", "periodic_poling.poling_period_um", (1000., 2000.), (5., 40.)),
    ("crystal.theta_deg", "idler.theta_external_deg", (20., 90.), (0.5, 5.)),
    ("crystal.temperature_c", "periodic_poling.poling_period_um", (20., 150.), (5., 40.)),
    // the other order: the FIRST path reads state (Snell against the current crystal / wavelength, poling sign from the current beams)
    // and the SECOND path changes that state.  Every setup must start from a fresh clone of the base: the first setter of grid point
    // k must not see what the second setter left behind at grid point k-1.
    ("signal.theta_external_deg", "crystal.theta_deg", (1., 4.), (25., 85.)),
    ("idler.theta_external_deg", "crystal.phi_deg", (0.5, 3.), (10., 90.)),
    ("signal.theta_external_deg", "signal.wavelength_nm", (1., 5.), (800., 1700.)),
    ("signal.theta_external_deg", "crystal.temperature_c", (2., 6.), (60., 180.)),
    ("periodic_poling.poling_period_um", "pump.wavelength_nm", (5., 40.), (500., 700.)),
    ("periodic_poling.poling_period_um", "signal.wavelength_nm", (5., 40.), (1000., 2000.)),
  ];
  let shapes: [(usize, usize); 8] = [(3, 2), (1, 4), (4, 1), (2, 2), (1, 1), (5, 3), (2, 5), (3, 3)];
  // the 8 non-commuting pairs always run (on a base with an extraordinary signal where possible), small shapes
  let nplain = 8usize;
  let total = nsweeps + (pairs.len() - nplain) * 2;
  for kk in 0..total {
    let (k, fixed_nc) = if kk < nsweeps { (kk, false) } else { (kk - nsweeps, true) };
    let (p1, p2, r1, r2) = if fixed_nc { pairs[nplain + k % (pairs.len() - nplain)] } else { pairs[k % pairs.len()] };
    let (nx, ny) = if fixed_nc { [(2usize, 2usize), (3, 2)][(k / (pairs.len() - nplain)) % 2] } else { shapes[(k + rng.below(8)) % 8] };
    let (bname, base) = if fixed_nc { &bases[(1 + k + k / (pairs.len() - nplain)) % bases.len()] } else { &bases[k % bases.len()] };
    let steps = Steps2D((r1.0, r1.1, nx), (r2.0, r2.1, ny));
    // a panic inside a setter (e.g. the poling-sign search on a wavelength combination without a solution) is reported, not propagated
    let b00 = base.clone();
    let setups: Vec<SPDC> = match guarded(move || SPDCIter::try_new(b00, p1, p2, steps).map(|it| it.into_iter().collect::<Vec<SPDC>>())) {
      Ok(Ok(v)) => v,
      Ok(Err(e)) => {
        emit(json!({"kind": "sweep_err", "p1": p1, "p2": p2, "err": e}));
        continue;
      }
      Err(e) => {
        emit(json!({"kind": "sweep_panic", "base": bname, "p1": p1, "p2": p2, "msg": e}));
        continue;
      }
    };
    let with_jsi = true;
    let swept_jsi: Vec<f64> = if with_jsi {
      let b0 = base.clone();
      guarded(move || SPDCIter::try_new(b0, p1, p2, steps).map(|i| i.jsi_values(Integrator::default())).unwrap_or_default()).unwrap_or_default()
    } else {
      Vec::new()
    };
    // normalised sweep: swept values vs (raw value of the individually constructed setup) / (raw value at the optimised base's centre)
    let base2 = base.clone();
    let centre: Option<f64> = if with_jsi {
      guarded(move || base2.try_as_optimum().ok().map(|opt| jsi_of(&opt))).ok().flatten()
    } else {
      None
    };
    let swept_norm: Vec<f64> = if centre.is_some() {
      let b3 = base.clone();
      guarded(move || SPDCIter::try_new(b3, p1, p2, steps).map(|i| i.jsi_values_normalized(Integrator::default())).unwrap_or_default()).unwrap_or_default()
    } else {
      Vec::new()
    };
    // the raw grid values as the iterator produces them
    let grid: Vec<(f64, f64)> = steps.into_iter().collect();
    let mut items = Vec::new();
    for (j, s) in setups.iter().enumerate() {
      // individually constructed: each parameter set on its own single-point sweep
      let (v1, v2) = if j < grid.len() { grid[j] } else { (f64::NAN, f64::NAN) };
      let bb = base.clone();
      let indiv = guarded(move || single(&bb, p1, v1).and_then(|s1| single(&s1, p2, v2))).unwrap_or_else(|e| Err(e));
      let (icfg, ijsi, same) = match &indiv {
        Ok(x) => (flat_config(x), if with_jsi { fx(jsi_of(x)) } else { Value::Null }, *x == *s),
        Err(_) => (Value::Null, Value::Null, false),
      };
      // built from the base through the public API in the property's units: first parameter, then the second
      let mut scratch = base.clone();
      let b1 = base.clone();
      let scratch_cfg = match guarded(move || {
        let mut t = b1;
        let ok = spec_apply(&mut t, p1, v1) && spec_apply(&mut t, p2, v2);
        (t, ok)
      }) {
        Ok((t, true)) => {
          scratch = t;
          flat_config(&scratch)
        }
        _ => Value::Null,
      };
      let b2 = base.clone();
      let fresh_json = match guarded(move || fresh_from_config(&b2, p1, v1, p2, v2)) {
        Ok(Ok(f)) => json!({"cfg": flat_config(&f), "obs": observables(&f)}),
        Ok(Err(e)) => json!({"err": e}),
        Err(e) => json!({"panic": e}),
      };
      items.push(json!({"j": j, "v1": fx(v1), "v2": fx(v2), "cfg": flat_config(s), "indiv_cfg": icfg, "indiv_jsi": ijsi, "identical": same,
        "scratch_cfg": scratch_cfg, "read": readbacks(s), "obs": observables(s),
        "fresh": fresh_json,
        "jsi": if with_jsi && j < swept_jsi.len() { fx(swept_jsi[j]) } else { Value::Null },
        "jsi_norm": if j < swept_norm.len() { fx(swept_norm[j]) } else { Value::Null }}));
    }
    emit(json!({"kind": "sweep", "base": bname, "p1": p1, "p2": p2, "r1": [fx(r1.0), fx(r1.1)], "r2": [fx(r2.0), fx(r2.1)], "nx": nx, "ny": ny,
      "count": setups.len(), "jsi_count": swept_jsi.len(), "norm_count": swept_norm.len(), "centre": centre.map(fx), "with_jsi": with_jsi, "items": items, "base_cfg": flat_config(base)}));
  }
}
