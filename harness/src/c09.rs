//! C09 observations: array-level `hom_rate` / `hom_rate_series` on generated amplitude arrays, and the setup-level
//! `SPDC::hom_rate_series` / `hom_visibility` against the array-level functions fed with `jsa_range` output
//! (see props/c09.py for the consumer).
//!
//! args: seed  n_array_cases  max_side  n_setup_cases
#![allow(unused_imports, dead_code)]
use crate::c11::{build_setup, setups};
use crate::common::*;
use serde_json::{json, Value};
use spdcalc::dim::ucum::{M, RAD, S};
use spdcalc::math::Integrator;
use spdcalc::utils::Steps;
use spdcalc::*;

type C = Complex<f64>;

fn res(r: Result<f64, String>) -> Value {
  match r {
    Ok(x) => fx(x),
    Err(p) => json!({ "panic": p }),
  }
}

fn space(xs: (f64, f64, usize), ys: (f64, f64, usize)) -> FrequencySpace {
  FrequencySpace::new((xs.0 * RAD / S, xs.1 * RAD / S, xs.2), (ys.0 * RAD / S, ys.1 * RAD / S, ys.2))
}

fn transpose(a: &[C], n: usize) -> Vec<C> {
  let mut t = a.to_vec();
  for r in 0..n {
    for c in 0..n {
      t[c * n + r] = a[r * n + c];
    }
  }
  t
}

fn dy(rng: &mut Rng) -> f64 {
  // dyadic in [-2, 2] with denominator 16
  (rng.below(65) as f64 - 32.0) / 16.0
}

/// one array-level observation: series, single calls without norm, single calls with an explicit norm
fn observe(family: &str, gkind: &str, xs: (f64, f64, usize), ys: (f64, f64, usize), f: &[C], g: &[C], taus: &[f64], extra: Value) {
  let sp = space(xs, ys);
  let (fv, gv, tv) = (f.to_vec(), g.to_vec(), taus.to_vec());
  let series = guarded(move || hom_rate_series(sp, &fv, &gv, tv.iter().map(|t| *t * S)));
  let singles: Vec<Value> = taus
    .iter()
    .map(|t| {
      let (fv, gv, t) = (f.to_vec(), g.to_vec(), *t);
      res(guarded(move || hom_rate(sp, &fv, &gv, t * S, None)))
    })
    .collect();
  let given_norm = 2.5 * jsi_norm(f) + 0.125;
  let normed: Vec<Value> = taus
    .iter()
    .map(|t| {
      let (fv, gv, t) = (f.to_vec(), g.to_vec(), *t);
      res(guarded(move || hom_rate(sp, &fv, &gv, t * S, Some(given_norm))))
    })
    .collect();
  emit(json!({
    "kind": "arr", "family": family, "gkind": gkind, "cols": xs.2, "rows": ys.2,
    "xs": [fx(xs.0), fx(xs.1)], "ys": [fx(ys.0), fx(ys.1)],
    "fre": fxs(&f.iter().map(|z| z.re).collect::<Vec<_>>()), "fim": fxs(&f.iter().map(|z| z.im).collect::<Vec<_>>()),
    "gre": fxs(&g.iter().map(|z| z.re).collect::<Vec<_>>()), "gim": fxs(&g.iter().map(|z| z.im).collect::<Vec<_>>()),
    "taus": fxs(taus),
    "series": match series { Ok(v) => json!(fxs(&v)), Err(p) => json!({"panic": p}) },
    "singles": singles, "given_norm": fx(given_norm), "normed": normed, "jsi_norm": fx(jsi_norm(f)), "extra": extra,
  }));
}

fn dyadic_tau(rng: &mut Rng) -> f64 {
  (rng.below(97) as f64 - 48.0) / 16.0
}

fn array_cases(rng: &mut Rng, ncases: usize, max_side: usize) {
  let families = ["random", "symmetric", "antisymmetric", "indep", "rect", "gauss_small", "hermitian"];
  for case in 0..ncases {
    let family = families[case % families.len()];
    let n = if case < 21 { 1 + case / 7 } else { 1 + rng.below(max_side) };
    // a square grid with identical dyadic axes (exact in binary64), unless the family says otherwise
    let x0 = (rng.below(64) as f64) / 8.0;
    let x1 = x0 + (1 + rng.below(48)) as f64 / 8.0;
    let mut taus = vec![0.0, dyadic_tau(rng), dyadic_tau(rng)];
    if case % 5 == 0 {
      taus.push(rng.range(-4.0, 4.0));
    }
    match family {
      "random" => {
        let f: Vec<C> = (0..n * n).map(|_| C::new(dy(rng), dy(rng))).collect();
        let g = transpose(&f, n);
        observe(family, "transpose", (x0, x1, n), (x0, x1, n), &f, &g, &taus, json!({}));
      }
      "symmetric" | "antisymmetric" | "hermitian" => {
        let mut f: Vec<C> = (0..n * n).map(|_| C::new(dy(rng), dy(rng))).collect();
        for r in 0..n {
          for c in 0..r {
            f[r * n + c] = match family {
              "symmetric" => f[c * n + r],
              "antisymmetric" => -f[c * n + r],
              _ => f[c * n + r].conj(),
            };
          }
          if family == "antisymmetric" {
            f[r * n + r] = C::new(0.0, 0.0);
          }
          if family == "hermitian" {
            f[r * n + r] = C::new(f[r * n + r].re, 0.0);
          }
        }
        if f.iter().all(|z| z.norm_sqr() == 0.0) {
          continue;
        }
        let g = transpose(&f, n);
        observe(family, "transpose", (x0, x1, n), (x0, x1, n), &f, &g, &taus, json!({}));
      }
      "indep" => {
        // unrelated second array of a different norm on a square grid with different axes: pins which array is
        // normalised, which is conjugated and the (wi - ws) orientation
        let f: Vec<C> = (0..n * n).map(|_| C::new(dy(rng), dy(rng))).collect();
        let g: Vec<C> = (0..n * n).map(|_| C::new(2.0 * dy(rng), dy(rng) / 2.0)).collect();
        let y0 = (rng.below(64) as f64) / 8.0;
        let y1 = y0 + (1 + rng.below(48)) as f64 / 8.0;
        observe(family, "independent", (x0, x1, n), (y0, y1, n), &f, &g, &taus, json!({}));
      }
      "rect" => {
        let rows = 1 + rng.below(max_side);
        let f: Vec<C> = (0..n * rows).map(|_| C::new(dy(rng), dy(rng))).collect();
        let g: Vec<C> = (0..n * rows).map(|_| C::new(dy(rng), dy(rng))).collect();
        let y0 = (rng.below(64) as f64) / 8.0;
        let y1 = y0 + (1 + rng.below(48)) as f64 / 8.0;
        observe(family, "independent", (x0, x1, n), (y0, y1, rows), &f, &g, &taus, json!({}));
      }
      _ => {
        // separable amplitude profile times the linear phase exp(i t0 (wi - ws)/2), small grid, arbitrary binary64 values
        let t0 = dyadic_tau(rng);
        let sp = space((x0, x1, n), (x0, x1, n)).as_steps();
        let prof: Vec<C> = (0..n).map(|_| C::new(dy(rng), dy(rng))).collect();
        let f: Vec<C> = (0..n * n)
          .map(|k| {
            let (ws, wi) = sp.value(k);
            let (s, i) = (k % n, k / n);
            prof[s] * prof[i] * C::from_polar(1.0, t0 * *((wi - ws) / (RAD / S)) / 2.0)
          })
          .collect();
        if f.iter().all(|z| z.norm_sqr() == 0.0) {
          continue;
        }
        let g = transpose(&f, n);
        let mut taus = taus.clone();
        taus.push(t0);
        observe(family, "transpose", (x0, x1, n), (x0, x1, n), &f, &g, &taus, json!({"t0": fx(t0)}));
      }
    }
  }
}

/// well-sampled separable Gaussians: the continuum closed form  1/2 (1 - exp(-sigma^2 (tau - t0)^2 / 2))
fn gaussian_cases(rng: &mut Rng, ncases: usize) {
  for _ in 0..ncases {
    let sigma = rng.log_range(0.2, 5.0);
    let w0 = rng.range(50.0, 500.0) * sigma;
    let t0 = rng.range(-3.0, 3.0) / sigma;
    let n = 48 + rng.below(24);
    let half = 6.5 * sigma;
    let xs = (w0 - half, w0 + half, n);
    let sp = space(xs, xs).as_steps();
    let f: Vec<C> = (0..n * n)
      .map(|k| {
        let (ws, wi) = sp.value(k);
        let (ws, wi) = (*(ws / (RAD / S)), *(wi / (RAD / S)));
        let a = (-(ws - w0).powi(2) / (2.0 * sigma * sigma)).exp() * (-(wi - w0).powi(2) / (2.0 * sigma * sigma)).exp();
        C::from_polar(a, t0 * (wi - ws) / 2.0)
      })
      .collect();
    let g = transpose(&f, n);
    let mut taus = vec![t0, 0.0, t0 + 8.0 / sigma, t0 - 8.0 / sigma];
    for _ in 0..6 {
      taus.push(t0 + rng.range(-4.0, 4.0) / sigma);
    }
    let spc = space(xs, xs);
    let (fv, gv, tv) = (f.clone(), g.clone(), taus.clone());
    let series = guarded(move || hom_rate_series(spc, &fv, &gv, tv.iter().map(|t| *t * S)));
    emit(json!({
      "kind": "gauss", "n": n, "sigma": fx(sigma), "w0": fx(w0), "t0": fx(t0), "xs": [fx(xs.0), fx(xs.1)], "taus": fxs(&taus),
      "series": match series { Ok(v) => json!(fxs(&v)), Err(p) => json!({"panic": p}) },
    }));
  }
}


/// code paths outside the main model: slices shorter / longer than the grid, all-zero slices, an explicit zero norm,
/// empty grids, empty delay lists; every call under catch_unwind
fn edge_cases(rng: &mut Rng) {
  let one = |label: &str, xs: (f64, f64, usize), ys: (f64, f64, usize), f: Vec<C>, g: Vec<C>, tau: f64, norm: Option<f64>, taus: Vec<f64>| {
    let sp = space(xs, ys);
    let (fv, gv) = (f.clone(), g.clone());
    let single = guarded(move || hom_rate(sp, &fv, &gv, tau * S, norm));
    let (fv, gv) = (f.clone(), g.clone());
    let single0 = guarded(move || hom_rate(sp, &fv, &gv, 0.0 * S, norm));
    let (fv, gv, tv) = (f.clone(), g.clone(), taus.clone());
    let series = guarded(move || hom_rate_series(sp, &fv, &gv, tv.iter().map(|t| *t * S)));
    emit(json!({
      "kind": "edge", "label": label, "cols": xs.2, "rows": ys.2, "xs": [fx(xs.0), fx(xs.1)], "ys": [fx(ys.0), fx(ys.1)],
      "fre": fxs(&f.iter().map(|z| z.re).collect::<Vec<_>>()), "fim": fxs(&f.iter().map(|z| z.im).collect::<Vec<_>>()),
      "gre": fxs(&g.iter().map(|z| z.re).collect::<Vec<_>>()), "gim": fxs(&g.iter().map(|z| z.im).collect::<Vec<_>>()),
      "tau": fx(tau), "norm": norm.map(fx), "taus": fxs(&taus),
      "single": res(single), "single0": res(single0),
      "series": match series { Ok(v) => json!(fxs(&v)), Err(p) => json!({"panic": p}) },
    }));
  };
  for (cols, rows) in [(2usize, 2usize), (3, 2), (1, 1), (4, 3)] {
    let n = cols * rows;
    let xs = (1.0, 3.0, cols);
    let ys = (2.0, 5.0, rows);
    let mk = |rng: &mut Rng, k: usize| -> Vec<C> { (0..k).map(|_| C::new(dy(rng), dy(rng))).collect() };
    let tau = dyadic_tau(rng);
    let taus = vec![0.0, tau];
    let (f, g) = (mk(rng, n), mk(rng, n));
    one("exact", xs, ys, f.clone(), g.clone(), tau, None, taus.clone());
    one("f_short", xs, ys, f[..n - 1].to_vec(), g.clone(), tau, None, taus.clone());
    one("g_short", xs, ys, f.clone(), g[..n - 1].to_vec(), tau, None, taus.clone());
    one("both_short_empty_delays", xs, ys, f[..n - 1].to_vec(), g[..n - 1].to_vec(), tau, None, vec![]);
    one("f_long", xs, ys, mk(rng, n + 3), g.clone(), tau, None, taus.clone());
    one("g_long", xs, ys, f.clone(), mk(rng, n + 2), tau, None, taus.clone());
    one("f_zero", xs, ys, vec![C::new(0.0, 0.0); n], g.clone(), tau, None, taus.clone());
    one("both_zero", xs, ys, vec![C::new(0.0, 0.0); n], vec![C::new(0.0, 0.0); n], tau, None, taus.clone());
    one("g_zero", xs, ys, f.clone(), vec![C::new(0.0, 0.0); n], tau, None, taus.clone());
    one("norm_zero", xs, ys, f.clone(), f.clone(), 0.0, Some(0.0), taus.clone());
    one("norm_zero_g_zero", xs, ys, f.clone(), vec![C::new(0.0, 0.0); n], tau, Some(0.0), taus.clone());
    one("empty_delays", xs, ys, f.clone(), g.clone(), tau, None, vec![]);
  }
  // grids without points
  one("empty_grid_cols0", (1.0, 3.0, 0), (2.0, 5.0, 3), vec![], vec![], 0.5, None, vec![0.0, 0.5]);
  one("empty_grid_rows0", (1.0, 3.0, 2), (2.0, 5.0, 0), vec![C::new(1.0, 0.5)], vec![], 0.5, None, vec![0.0]);
}


/// exact non-zero-delay cases (see coq/Model/C10_Pyth.v): n x n grid, signal axis x0 + s h, idler axis x0 + k h + r i h,
/// delay m0 * atan(4/3) / h; dyadic amplitudes
fn pyth_cases(rng: &mut Rng, ncases: usize) {
  let phi0 = (4.0f64 / 3.0).atan();
  for case in 0..ncases {
    let n = 2 + case % 3;
    let k = [0i64, 0, 1, -1, 2][rng.below(5)];
    let r = [1i64, 1, 2][rng.below(3)];
    let m0 = [1i64, 2, -1, 3, -2][rng.below(5)];
    let h = [0.5, 1.0, 2.0, 0.25][rng.below(4)];
    let x0 = (rng.below(64) as f64) / 8.0;
    let xs = (x0, x0 + (n as f64 - 1.0) * h, n);
    let y0 = x0 + k as f64 * h;
    let ys = (y0, y0 + r as f64 * ((n as f64 - 1.0) * h), n);
    let tau = m0 as f64 * phi0 / h;
    let f: Vec<C> = (0..n * n).map(|_| C::new(dy(rng), dy(rng))).collect();
    let g: Vec<C> = if k == 0 && r == 1 && case % 2 == 0 { transpose(&f, n) } else { (0..n * n).map(|_| C::new(dy(rng), dy(rng))).collect() };
    if f.iter().all(|z| z.norm_sqr() == 0.0) {
      continue;
    }
    let sp = space(xs, ys);
    let (fv, gv) = (f.clone(), g.clone());
    let rate = guarded(move || hom_rate(sp, &fv, &gv, tau * S, None));
    emit(json!({
      "kind": "pyth", "n": n, "k": k, "r": r, "m0": m0, "h": fx(h), "x0": fx(x0), "tau": fx(tau),
      "xs": [fx(xs.0), fx(xs.1)], "ys": [fx(ys.0), fx(ys.1)], "cols": n, "rows": n,
      "fre": fxs(&f.iter().map(|z| z.re).collect::<Vec<_>>()), "fim": fxs(&f.iter().map(|z| z.im).collect::<Vec<_>>()),
      "gre": fxs(&g.iter().map(|z| z.re).collect::<Vec<_>>()), "gim": fxs(&g.iter().map(|z| z.im).collect::<Vec<_>>()),
      "rate": res(rate),
    }));
  }
}


/// composition with the exchange model (C06): exchange-symmetric setups (degenerate type-0 / type-1) must give rate(0) = 0 on
/// identical axes; for any setup the second array of the wrappers is the with_swapped_signal_idler twin's jsa_range
fn twin_cases(rng: &mut Rng, ncases: usize) {
  let mut list = setups();
  list.push(("ktp_pp_type0_deg", json!({
    "crystal": {"kind": "KTP", "pm_type": "e->ee", "phi_deg": 0, "theta_deg": 90, "length_um": 5000, "temperature_c": 30},
    "pump": {"wavelength_nm": 775, "waist_um": 80, "bandwidth_nm": 0.8, "average_power_mw": 10},
    "signal": {"wavelength_nm": 1550, "phi_deg": 0, "theta_deg": 0, "waist_um": 60, "waist_position_um": "auto"},
    "idler": "auto", "periodic_poling": {"poling_period_um": "auto"}, "deff_pm_per_volt": 3.0})));
  list.push(("lnb_pp_type0_deg", json!({
    "crystal": {"kind": "LiNbO3_1", "pm_type": "e->ee", "phi_deg": 0, "theta_deg": 90, "length_um": 3000, "temperature_c": 40},
    "pump": {"wavelength_nm": 532, "waist_um": 60, "bandwidth_nm": 0.3, "average_power_mw": 5},
    "signal": {"wavelength_nm": 1064, "phi_deg": 0, "theta_deg": 0, "waist_um": 45, "waist_position_um": "auto"},
    "idler": "auto", "periodic_poling": {"poling_period_um": "auto"}, "deff_pm_per_volt": 10.0})));
  let integrator = Integrator::default();
  for case in 0..ncases {
    let (name, cfg) = &list[case % list.len()];
    let spdc = match build_setup(cfg) {
      Ok(s) => s,
      Err(e) => {
        emit(json!({"kind": "setup_skip", "setup": name, "why": e}));
        continue;
      }
    };
    let twin = spdc.clone().with_swapped_signal_idler();
    let n = 2 + rng.below(7);
    let ws = *(spdc.signal.frequency() / (RAD / S));
    let wi = *(spdc.idler.frequency() / (RAD / S));
    let wc = 0.5 * (ws + wi);
    let d = rng.log_range(2e-4, 4e-3) * wc;
    let symmetric_axes = (case / list.len()) % 3 != 2;
    let (xs, ys) = if symmetric_axes { ((wc - d, wc + d, n), (wc - d, wc + d, n)) } else { ((ws - d, ws + d, n), (wi - 0.7 * d, wi + 1.1 * d, n)) };
    let range = space(xs, ys);
    let span = rng.log_range(0.3, 3.0) * std::f64::consts::PI / d;
    let taus: Vec<f64> = vec![0.0, rng.range(-1.0, 1.0) * span];
    let (s1, t1) = (spdc.clone(), taus.clone());
    let series_setup = guarded(move || s1.hom_rate_series(t1.iter().map(|t| *t * S), range, integrator));
    let fa = spdc.joint_spectrum(integrator).jsa_range(range);
    let fb = twin.joint_spectrum(integrator).jsa_range(range);
    let (f1, g1, t2) = (fa.clone(), fb.clone(), taus.clone());
    let series_twin = guarded(move || hom_rate_series(range, &f1, &g1, t2.iter().map(|t| *t * S)));
    // is the setup its own twin?  (same polarisation, angles, waists, waist positions for signal and idler)
    let self_twin = twin == spdc;
    let scale = fa.iter().map(|z| z.norm()).fold(0.0f64, f64::max);
    let asym = if symmetric_axes {
      let t = transpose(&fa, n);
      fa.iter().zip(t.iter()).map(|(a, b)| (a - b).norm()).fold(0.0f64, f64::max) / scale.max(f64::MIN_POSITIVE)
    } else {
      f64::NAN
    };
    let ser = |r: Result<Vec<f64>, String>| match r {
      Ok(v) => json!(fxs(&v)),
      Err(p) => json!({ "panic": p }),
    };
    emit(json!({
      "kind": "twin", "setup": name, "config": cfg, "n": n, "symmetric_axes": symmetric_axes, "self_twin": self_twin,
      "xs": [fx(xs.0), fx(xs.1)], "ys": [fx(ys.0), fx(ys.1)], "taus": fxs(&taus),
      "series_setup": ser(series_setup), "series_twin": ser(series_twin), "asymmetry": fx(asym), "jsi_norm": fx(jsi_norm(&fa)),
    }));
  }
}

fn setup_cases(rng: &mut Rng, ncases: usize) {
  let list = setups();
  for case in 0..ncases {
    let (name, cfg) = &list[case % list.len()];
    let spdc = match build_setup(cfg) {
      Ok(s) => s,
      Err(e) => {
        emit(json!({"kind": "setup_skip", "setup": name, "why": e}));
        continue;
      }
    };
    let n = 2 + rng.below(if case < list.len() { 5 } else { 12 });
    let ws = *(spdc.signal.frequency() / (RAD / S));
    let wi = *(spdc.idler.frequency() / (RAD / S));
    let wc = 0.5 * (ws + wi);
    let d = rng.log_range(2e-4, 4e-3) * wc;
    // symmetric axes (identical signal and idler ranges) two times out of three, otherwise each centred on its beam
    let symmetric = case % 3 != 2;
    let (xs, ys) = if symmetric { ((wc - d, wc + d, n), (wc - d, wc + d, n)) } else { ((ws - d, ws + d, n), (wi - 0.7 * d, wi + 1.1 * d, n)) };
    let range = space(xs, ys);
    let integrator = Integrator::default();
    let dt = *(hom_time_delay(&spdc) / S);
    // the same delay from its parts: group indices, propagation directions, crystal length, waist positions
    let dt_indep = {
      let c = 299_792_458.0;
      let half = 0.5 * *(spdc.crystal_setup.length / M);
      let ng_s = *spdc.signal.group_index(&spdc.crystal_setup, &spdc.pp);
      let ng_i = *spdc.idler.group_index(&spdc.crystal_setup, &spdc.pp);
      let (ds, di) = (spdc.signal.direction().into_inner(), spdc.idler.direction().into_inner());
      let path = |d: spdcalc::na::Vector3<f64>| (half / d.z) * d.norm();
      path(di) * ng_i / c - path(ds) * ng_s / c + (*(spdc.idler_waist_position / M) - *(spdc.signal_waist_position / M)) / c
    };
    let span = rng.log_range(0.3, 3.0) * std::f64::consts::PI / d;
    let taus: Vec<f64> = vec![0.0, dt, dt + rng.range(-1.0, 1.0) * span, dt + rng.range(-1.0, 1.0) * span, rng.range(-1.0, 1.0) * span];
    // setup-level calls
    let (s1, t1) = (spdc.clone(), taus.clone());
    let series_setup = guarded(move || s1.hom_rate_series(t1.iter().map(|t| *t * S), range, integrator));
    let s2 = spdc.clone();
    let vis_setup = guarded(move || s2.hom_visibility(range, integrator));
    // array-level, fed with the sampled amplitudes
    let sp = spdc.joint_spectrum(integrator);
    let f = sp.jsa_range(range);
    let g_swapped: Vec<C> = range.as_steps().into_iter().map(|(a, b)| sp.jsa(b, a)).collect();
    let g_transposed = transpose(&f, n);
    let same = g_swapped.iter().zip(g_transposed.iter()).all(|(a, b)| a.re.to_bits() == b.re.to_bits() && a.im.to_bits() == b.im.to_bits());
    let (f1, g1, t2) = (f.clone(), g_swapped.clone(), taus.clone());
    let series_swapped = guarded(move || hom_rate_series(range, &f1, &g1, t2.iter().map(|t| *t * S)));
    let (f2, g2, t3) = (f.clone(), g_transposed.clone(), taus.clone());
    let series_transposed = guarded(move || hom_rate_series(range, &f2, &g2, t3.iter().map(|t| *t * S)));
    let (f3, g3) = (f.clone(), g_swapped.clone());
    let rate_dt = guarded(move || hom_rate(range, &f3, &g3, dt * S, None));
    let arrays = if n <= 8 {
      json!({"fre": fxs(&f.iter().map(|z| z.re).collect::<Vec<_>>()), "fim": fxs(&f.iter().map(|z| z.im).collect::<Vec<_>>()),
             "gre": fxs(&g_swapped.iter().map(|z| z.re).collect::<Vec<_>>()), "gim": fxs(&g_swapped.iter().map(|z| z.im).collect::<Vec<_>>())})
    } else {
      json!(null)
    };
    let ser = |r: Result<Vec<f64>, String>| match r {
      Ok(v) => json!(fxs(&v)),
      Err(p) => json!({ "panic": p }),
    };
    emit(json!({
      "kind": "setup", "setup": name, "n": n, "symmetric": symmetric,
      "xs": [fx(xs.0), fx(xs.1)], "ys": [fx(ys.0), fx(ys.1)], "taus": fxs(&taus), "dt": fx(dt), "dt_indep": fx(dt_indep),
      "series_setup": ser(series_setup), "series_swapped": ser(series_swapped), "series_transposed": ser(series_transposed),
      "vis_setup": match vis_setup { Ok((t, v)) => json!([fx(*(t / S)), fx(v)]), Err(p) => json!({"panic": p}) },
      "rate_dt_array": res(rate_dt), "swapped_is_transpose": same, "jsi_norm": fx(jsi_norm(&f)), "arrays": arrays,
    }));
  }
}

pub fn run(args: &[String]) {
  let seed = arg_u64(args, 0, 1);
  let ncases = arg_u64(args, 1, 70) as usize;
  let max_side = arg_u64(args, 2, 8) as usize;
  let nsetup = arg_u64(args, 3, 6) as usize;
  let ngauss = arg_u64(args, 4, 6) as usize;
  let mut rng = Rng::new(seed);
  array_cases(&mut rng, ncases, max_side);
  edge_cases(&mut rng);
  pyth_cases(&mut rng, arg_u64(args, 5, 36) as usize);
  gaussian_cases(&mut rng, ngauss);
  setup_cases(&mut rng, nsetup);
  twin_cases(&mut rng, arg_u64(args, 6, 12) as usize);
}
