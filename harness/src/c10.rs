//! C10 observations: two-source HOM rates / visibilities at setup level, the eight amplitude grids obtained with
//! `jsa_range` on the same regions `hom_two_source_rate_series` uses, and the singular values of the sampled JSA matrix
//! (see props/c10.py for the consumer).
//!
//! args: seed  n_cases  max_side  n_pair_cases
#![allow(unused_imports, dead_code)]
use crate::c11::{build_setup, setups};
use crate::common::*;
use serde_json::{json, Value};
use spdcalc::dim::ucum::{M, RAD, S};
use spdcalc::math::Integrator;
use spdcalc::na::DMatrix;
use spdcalc::utils::Steps;
use spdcalc::*;

type C = Complex<f64>;

fn space(xs: (f64, f64, usize), ys: (f64, f64, usize)) -> FrequencySpace {
  FrequencySpace::new((xs.0 * RAD / S, xs.1 * RAD / S, xs.2), (ys.0 * RAD / S, ys.1 * RAD / S, ys.2))
}

fn cjson(a: &[C]) -> Value {
  json!([fxs(&a.iter().map(|z| z.re).collect::<Vec<_>>()), fxs(&a.iter().map(|z| z.im).collect::<Vec<_>>())])
}

/// the eight grids in the order of the source: first_s1_i1, second_s2_i2, first_s2_i1, second_s1_i2, first_s1_i2,
/// second_s2_i1, first_i2_i1, second_s2_s1
fn eight(js1: &JointSpectrum, js2: &JointSpectrum, ls1: (f64, f64, usize), li1: (f64, f64, usize), ls2: (f64, f64, usize), li2: (f64, f64, usize)) -> Vec<Vec<C>> {
  vec![
    js1.jsa_range(space(ls1, li1)),
    js2.jsa_range(space(ls2, li2)),
    js1.jsa_range(space(ls2, li1)),
    js2.jsa_range(space(ls1, li2)),
    js1.jsa_range(space(ls1, li2)),
    js2.jsa_range(space(ls2, li1)),
    js1.jsa_range(space(li2, li1)),
    js2.jsa_range(space(ls2, ls1)),
  ]
}

/// sum s^2, sum s^4 of the complex matrix F(s, i) = f[i*n + s]
fn sv_sums(f: &[C], n: usize) -> Option<(f64, f64)> {
  let v = f.to_vec();
  guarded(move || {
    // from_row_slice(n, n, v) has entry (r, c) = v[r*n + c] = F(s = c, i = r): the transpose of F, same singular values
    DMatrix::from_row_slice(n, n, &v).try_svd(false, false, f64::EPSILON, 10_000).map(|svd| {
      let s2: f64 = svd.singular_values.iter().map(|x| x * x).sum();
      let s4: f64 = svd.singular_values.iter().map(|x| x.powi(4)).sum();
      (s2, s4)
    })
  })
  .ok()
  .flatten()
}

fn vec3(r: Result<HomTwoSourceResult<Vec<f64>>, String>) -> Value {
  match r {
    Ok(v) => json!({"ss": fxs(&v.ss), "ii": fxs(&v.ii), "si": fxs(&v.si)}),
    Err(p) => json!({ "panic": p }),
  }
}


fn vis_json(r: Result<HomTwoSourceResult<(Time, f64)>, String>) -> Value {
  match r {
    Ok(v) => json!({"ss": [fx(*(v.ss.0 / S)), fx(v.ss.1)], "ii": [fx(*(v.ii.0 / S)), fx(v.ii.1)], "si": [fx(*(v.si.0 / S)), fx(v.si.1)]}),
    Err(p) => json!({ "panic": p }),
  }
}

/// the free functions with a SEPARATE equal object as second source, and with a second source that differs only in
/// brightness (pump power, d_eff): same normalised two-photon state, same geometry
fn free_function_obs(rng: &mut Rng, spdc: &SPDC, range: FrequencySpace, taus: &[f64], integrator: Integrator) -> Value {
  let (a, b) = (spdc.clone(), spdc.clone());
  let vis_clone = guarded(move || hom_two_source_visibilities(&a, &b, range, range, integrator));
  let (a, b) = (spdc.clone(), spdc.clone());
  let td = guarded(move || hom_two_source_time_delays(&a, &b));
  let kp = [0.25, 3.0, 7.5][rng.below(3)];
  let kd = [1.0, 0.5, 2.0][rng.below(3)];
  let mut bright = spdc.clone();
  bright.pump_average_power = bright.pump_average_power * kp;
  bright.deff = bright.deff * kd;
  let (a, b) = (spdc.clone(), bright.clone());
  let vis_bright = guarded(move || hom_two_source_visibilities(&a, &b, range, range, integrator));
  let (ja, jb, t) = (spdc.joint_spectrum(integrator), bright.joint_spectrum(integrator), taus.to_vec());
  let series_bright = guarded(move || hom_two_source_rate_series(&ja, &jb, range, range, t.iter().map(|x| *x * S)));
  let (a, b) = (bright.clone(), spdc.clone());
  let vis_bright_rev = guarded(move || hom_two_source_visibilities(&a, &b, range, range, integrator));
  json!({
    "vis_clone": vis_json(vis_clone),
    "time_delays_clone": match td { Ok(v) => json!([fx(*(v.ss / S)), fx(*(v.ii / S)), fx(*(v.si / S))]), Err(p) => json!({"panic": p}) },
    "power_factor": fx(kp), "deff_factor": fx(kd),
    "vis_bright": vis_json(vis_bright), "vis_bright_rev": vis_json(vis_bright_rev), "series_bright": vec3(series_bright),
    "signal_waist_position_m": fx(*(spdc.signal_waist_position / M)), "idler_waist_position_m": fx(*(spdc.idler_waist_position / M)),
  })
}

fn axes_for(rng: &mut Rng, spdc: &SPDC, n: usize, mode: usize) -> ((f64, f64, usize), (f64, f64, usize)) {
  let ws = *(spdc.signal.frequency() / (RAD / S));
  let wi = *(spdc.idler.frequency() / (RAD / S));
  let wc = 0.5 * (ws + wi);
  let d = rng.log_range(2e-4, 4e-3) * wc;
  match mode {
    // identical signal and idler axes
    0 => ((wc - d, wc + d, n), (wc - d, wc + d, n)),
    // each centred on its own beam, different widths
    1 => ((ws - d, ws + d, n), (wi - 0.7 * d, wi + 1.2 * d, n)),
    // the setup's own optimum range
    2 => {
      let st = spdc.optimum_range(n).as_steps();
      ((*(st.0 .0 / (RAD / S)), *(st.0 .1 / (RAD / S)), n), (*(st.1 .0 / (RAD / S)), *(st.1 .1 / (RAD / S)), n))
    }
    // strongly asymmetric idler window around the same centre: the auxiliary grids outweigh the main one (finding F10 territory)
    4 => {
      let d = rng.range(2.0e-3, 3.0e-3) * ws;
      let a = rng.range(0.55, 0.8);
      let b = rng.range(1.2, 1.5);
      ((ws - d, ws + d, n), (wi - a * d, wi + b * d, n))
    }
    // off-centre, overlapping but unequal axes
    _ => {
      let a = rng.range(-1.0, 1.0) * d;
      let b = rng.range(-1.0, 1.0) * d;
      ((ws + a - d, ws + a + d, n), (wi + b - 0.5 * d, wi + b + 1.5 * d, n))
    }
  }
}

fn single_cases(rng: &mut Rng, ncases: usize, max_side: usize, forced: &[usize]) {
  let list = setups();
  let integrator = Integrator::default();
  for case in 0..ncases {
    let (name, cfg) = &list[case % list.len()];
    let spdc = match build_setup(cfg) {
      Ok(s) => s,
      Err(e) => {
        emit(json!({"kind": "setup_skip", "setup": name, "why": e}));
        continue;
      }
    };
    let n = if case < forced.len() { forced[case] } else if case < 2 * list.len() { 2 + rng.below(3) } else { 2 + rng.below(max_side - 1) };
    let mode = (case / list.len()) % 5;
    let (ls, li) = axes_for(rng, &spdc, n, mode);
    let range = space(ls, li);
    let d = 0.5 * (ls.1 - ls.0);
    let span = rng.log_range(0.2, 3.0) * std::f64::consts::PI / d;
    let taus: Vec<f64> = vec![0.0, rng.range(-1.0, 1.0) * span, rng.range(-1.0, 1.0) * span, rng.range(-4.0, 4.0) * span, rng.range(-0.2, 0.2) * span];
    let (s1, t1) = (spdc.clone(), taus.clone());
    let series = guarded(move || s1.hom_two_source_rate_series(t1.iter().map(|t| *t * S), range, integrator));
    let s2 = spdc.clone();
    let vis = guarded(move || s2.hom_two_source_visibilities(range, integrator));
    let sp = spdc.joint_spectrum(integrator);
    let arrays = eight(&sp, &sp, ls, li, ls, li);
    let sv = sv_sums(&arrays[0], n);
    // jsa_range (parallel producer) against sequential pointwise jsa on the same Steps2D
    let pointwise: Vec<C> = range.as_steps().into_iter().map(|(a, b)| sp.jsa(a, b)).collect();
    let scale = arrays[0].iter().map(|z| z.norm()).fold(0.0f64, f64::max);
    let jsa_diff = if pointwise.len() == arrays[0].len() {
      arrays[0].iter().zip(pointwise.iter()).map(|(x, y)| (x - y).norm()).fold(0.0f64, f64::max) / scale.max(f64::MIN_POSITIVE)
    } else {
      f64::INFINITY
    };
    let free = free_function_obs(rng, &spdc, range, &taus, integrator);
    // the exchanged twin on the exchanged ranges (C10_purity_exchange): V_ss <-> V_ii
    let twin = spdc.clone().with_swapped_signal_idler();
    let range_sw = space(li, ls);
    let vis_twin = vis_json(guarded(move || twin.hom_two_source_visibilities(range_sw, integrator)));
    emit(json!({
      "kind": "single", "setup": name, "config": cfg, "n": n, "mode": mode, "free": free, "vis_twin": vis_twin, "jsa_pointwise_rel_diff": fx(jsa_diff),
      "ls": [fx(ls.0), fx(ls.1)], "li": [fx(li.0), fx(li.1)], "taus": fxs(&taus),
      "series": vec3(series),
      "vis": match vis {
        Ok(v) => json!({"ss": [fx(*(v.ss.0 / S)), fx(v.ss.1)], "ii": [fx(*(v.ii.0 / S)), fx(v.ii.1)], "si": [fx(*(v.si.0 / S)), fx(v.si.1)]}),
        Err(p) => json!({"panic": p}),
      },
      "arrays": arrays.iter().map(|a| cjson(a)).collect::<Vec<_>>(),
      "sv2": sv.map(|s| fx(s.0)), "sv4": sv.map(|s| fx(s.1)),
    }));
  }
}

/// two different sources on two different ranges: all eight grids differ, every index permutation is visible
fn pair_setups() -> Vec<(&'static str, Value)> {
  let mut v: Vec<(&'static str, Value)> = setups().into_iter().filter(|(n, _)| *n == "default" || *n == "ktp_pp_type2").collect();
  v.push(("ktp_long_narrow", json!({
    "crystal": {"kind": "KTP", "pm_type": "e->eo", "phi_deg": 0, "theta_deg": 90, "length_um": 6000, "temperature_c": 40},
    "pump": {"wavelength_nm": 775, "waist_um": 150, "bandwidth_nm": 2.0, "average_power_mw": 10},
    "signal": {"wavelength_nm": 1550, "phi_deg": 0, "theta_deg": 0, "waist_um": 80, "waist_position_um": "auto"},
    "idler": "auto", "periodic_poling": {"poling_period_um": "auto"}, "deff_pm_per_volt": 2.0})));
  v
}

fn pair_cases(rng: &mut Rng, ncases: usize, max_side: usize) {
  let list = pair_setups();
  let integrator = Integrator::default();
  for case in 0..ncases {
    let (n1, c1) = &list[case % list.len()];
    let (n2, c2) = &list[(case + 1 + (case / list.len()) % (list.len() - 1)) % list.len()];
    let (a, b) = match (build_setup(c1), build_setup(c2)) {
      (Ok(a), Ok(b)) => (a, b),
      _ => continue,
    };
    // bring the second source to the first one's wavelengths when they differ wildly, so that the cross grids are not all zero
    let n = 2 + rng.below(max_side.min(6) - 1);
    let (ls1, li1) = axes_for(rng, &a, n, 3);
    let (mut ls2, mut li2) = axes_for(rng, &a, n, 3);
    if case % 2 == 1 {
      let r = axes_for(rng, &b, n, 3);
      ls2 = r.0;
      li2 = r.1;
    }
    let (r1, r2) = (space(ls1, li1), space(ls2, li2));
    let d = 0.5 * (ls1.1 - ls1.0);
    let span = rng.log_range(0.2, 3.0) * std::f64::consts::PI / d;
    let taus: Vec<f64> = vec![0.0, rng.range(-1.0, 1.0) * span];
    let js1 = a.joint_spectrum(integrator);
    let js2 = b.joint_spectrum(integrator);
    let (j1, j2, t1) = (js1.clone(), js2.clone(), taus.clone());
    let series = guarded(move || hom_two_source_rate_series(&j1, &j2, r1, r2, t1.iter().map(|t| *t * S)));
    let arrays = eight(&js1, &js2, ls1, li1, ls2, li2);
    emit(json!({
      "kind": "pair", "setup1": n1, "setup2": n2, "n": n,
      "ls1": [fx(ls1.0), fx(ls1.1)], "li1": [fx(li1.0), fx(li1.1)], "ls2": [fx(ls2.0), fx(ls2.1)], "li2": [fx(li2.0), fx(li2.1)],
      "taus": fxs(&taus), "series": vec3(series), "arrays": arrays.iter().map(|a| cjson(a)).collect::<Vec<_>>(),
    }));
  }
}

/// fixed inputs that once violated the property text (run first by the consumer): setup name, side, signal axis, idler axis, delays
pub fn corpus_cases() {
  let integrator = Integrator::default();
  let list = setups();
  // (setup, n, signal half-width, idler lower / upper offsets from the idler centre) in rad/s, delays in s
  let cases: Vec<(&str, usize, f64, f64, f64, Vec<f64>)> = vec![("ktp_pp_type2", 4, 3.0e12, -2.0e12, 4.0e12, vec![0.0, -4.5e-13, 1.0e-12])];
  for (name, n, ds, lo, hi, taus) in cases {
    let cfg = match list.iter().find(|(k, _)| *k == name) {
      Some((_, c)) => c.clone(),
      None => continue,
    };
    let spdc = match build_setup(&cfg) {
      Ok(s) => s,
      Err(e) => {
        emit(json!({"kind": "setup_skip", "setup": name, "why": e}));
        continue;
      }
    };
    let ws = *(spdc.signal.frequency() / (RAD / S));
    let wi = *(spdc.idler.frequency() / (RAD / S));
    let (ls, li) = ((ws - ds, ws + ds, n), (wi + lo, wi + hi, n));
    let range = space(ls, li);
    let (s1, t1) = (spdc.clone(), taus.clone());
    let series = guarded(move || s1.hom_two_source_rate_series(t1.iter().map(|t| *t * S), range, integrator));
    let s2 = spdc.clone();
    let vis = guarded(move || s2.hom_two_source_visibilities(range, integrator));
    let sp = spdc.joint_spectrum(integrator);
    let arrays = eight(&sp, &sp, ls, li, ls, li);
    let sv = sv_sums(&arrays[0], n);
    emit(json!({
      "kind": "single", "corpus": true, "setup": name, "config": cfg, "n": n, "mode": 9,
      "ls": [fx(ls.0), fx(ls.1)], "li": [fx(li.0), fx(li.1)], "taus": fxs(&taus),
      "ws": fx(ws), "wi": fx(wi),
      "series": vec3(series),
      "vis": match vis {
        Ok(v) => json!({"ss": [fx(*(v.ss.0 / S)), fx(v.ss.1)], "ii": [fx(*(v.ii.0 / S)), fx(v.ii.1)], "si": [fx(*(v.si.0 / S)), fx(v.si.1)]}),
        Err(p) => json!({"panic": p}),
      },
      "arrays": arrays.iter().map(|a| cjson(a)).collect::<Vec<_>>(),
      "sv2": sv.map(|s| fx(s.0)), "sv4": sv.map(|s| fx(s.1)),
    }));
  }
}


/// exact non-zero-delay cases: arithmetic axes with common step h (signal x0 + s h, idler x0 + k h + r i h) and the delay
/// m0 * atan(4/3) / h, for which every phase factor is a power of (3 + 4i)/5 (see coq/Model/C10_Pyth.v)
fn pyth_cases(rng: &mut Rng, ncases: usize) {
  let list = setups();
  let integrator = Integrator::default();
  let phi0 = (4.0f64 / 3.0).atan();
  // degenerate setups only: the idler axis is an offset of the signal axis by a few steps
  let usable: Vec<(&str, SPDC)> = list
    .iter()
    .filter_map(|(name, cfg)| build_setup(cfg).ok().map(|s| (*name, s)))
    .filter(|(_, s)| (*(s.signal.frequency() / (RAD / S)) - *(s.idler.frequency() / (RAD / S))).abs() < 1e-6 * *(s.signal.frequency() / (RAD / S)))
    .collect();
  if usable.is_empty() {
    return;
  }
  for case in 0..ncases {
    let (name, spdc) = &usable[case % usable.len()];
    let spdc = spdc.clone();
    let n = 2 + (case / usable.len()) % 3;
    let k = [0i64, 0, 1, -1, 2][rng.below(5)];
    let r = [1i64, 1, 2][rng.below(3)];
    let m0 = [1i64, 2, -1, 3, -2][rng.below(5)];
    let ws = *(spdc.signal.frequency() / (RAD / S));
    let d = rng.log_range(2e-4, 3e-3) * ws;
    let h = 2.0 * d / (n as f64 - 1.0);
    let x0 = ws - d - (if k > 0 { 0.5 * k as f64 * h } else { 0.0 });
    let ls = (x0, x0 + (n as f64 - 1.0) * h, n);
    let y0 = x0 + k as f64 * h;
    let li = (y0, y0 + r as f64 * ((n as f64 - 1.0) * h), n);
    let dt = m0 as f64 * phi0 / h;
    let range = space(ls, li);
    let s1 = spdc.clone();
    let series = guarded(move || s1.hom_two_source_rate_series(vec![dt * S], range, integrator));
    let sp = spdc.joint_spectrum(integrator);
    let arrays = eight(&sp, &sp, ls, li, ls, li);
    emit(json!({
      "kind": "pyth", "setup": name, "n": n, "k": k, "r": r, "m0": m0, "x0": fx(x0), "h": fx(h), "dt": fx(dt),
      "ls": [fx(ls.0), fx(ls.1)], "li": [fx(li.0), fx(li.1)],
      "series": vec3(series), "arrays": arrays.iter().map(|a| cjson(a)).collect::<Vec<_>>(),
    }));
  }
}

pub fn run(args: &[String]) {
  if args.first().map(|s| s.as_str()) == Some("corpus") {
    corpus_cases();
    return;
  }
  let seed = arg_u64(args, 0, 1);
  let ncases = arg_u64(args, 1, 24) as usize;
  let max_side = arg_u64(args, 2, 10) as usize;
  let npairs = arg_u64(args, 3, 8) as usize;
  let mut rng = Rng::new(seed);
  let nforced = arg_u64(args, 5, 0) as usize;
  let forced: Vec<usize> = [16usize, 24, 20, 12].iter().cloned().take(nforced).collect();
  single_cases(&mut rng, ncases, max_side, &forced);
  pair_cases(&mut rng, npairs, max_side);
  let npyth = arg_u64(args, 4, 0) as usize;
  pyth_cases(&mut rng, npyth);
}
