//! Kinematics observations (consumer: props/kinematics.py): group velocity, group index, phase velocity, effective index and
//! average transit time of random in-window beams in the built-in crystals, poled and unpoled, together with the values of
//! CrystalSetup::index_along the code itself samples (at the vacuum wavelength and at the two finite-difference points of
//! math::derivative_at), so that the generated Coq definitions can be evaluated on the same oracle values.
//!
//! usage: vharness kin <seed> <n>
#![allow(unused_imports, dead_code)]
use crate::common::*;
use serde_json::json;
use spdcalc::beam::*;
use spdcalc::dim::ucum::{K, M, RAD, S};
use spdcalc::utils::*;
use spdcalc::*;
use std::f64::consts::PI;

pub fn run(args: &[String]) {
  let seed = arg_u64(args, 0, 1);
  let n = arg_u64(args, 1, 40) as usize;
  let mut rng = Rng::new(seed);
  let metas = CrystalType::get_all_meta();
  for case in 0..n {
    let meta = &metas[rng.below(metas.len())];
    let crystal = match CrystalType::from_string(meta.id) {
      Ok(c) => c,
      Err(_) => continue,
    };
    let (lo, hi) = match meta.transmission_range {
      Some(r) if r.0 > 1e-8 && r.1 > r.0 => (r.0 + 0.05 * (r.1 - r.0), r.1 - 0.05 * (r.1 - r.0)),
      _ => (0.5e-6, 1.6e-6),
    };
    let lambda = rng.range(lo, hi);
    let t_c = rng.range(-20.0, 150.0);
    let length = rng.log_range(1e-4, 2e-2);
    let setup = CrystalSetup {
      crystal: crystal.clone(),
      pm_type: PMType::Type2_e_eo,
      theta: rng.range(0.0, PI / 2.0) * RAD,
      phi: rng.range(0.0, 2.0 * PI) * RAD,
      length: length * M,
      temperature: from_celsius_to_kelvin(t_c),
      counter_propagation: false,
    };
    let pol = if rng.coin() { PolarizationType::Ordinary } else { PolarizationType::Extraordinary };
    let theta_b = if rng.below(4) == 0 { rng.range(-1.2, 1.2) } else { rng.range(-0.2, 0.2) };
    let beam = Beam::new(pol, rng.range(0.0, 2.0 * PI) * RAD, theta_b * RAD, lambda * M, 100e-6 * M);
    let pp = if rng.coin() {
      PeriodicPoling::Off
    } else {
      let per = rng.log_range(3e-6, 80e-6) * if rng.coin() { 1.0 } else { -1.0 };
      PeriodicPoling::new(per * M, Apodization::Off)
    };
    let signed_period = match &pp {
      PeriodicPoling::Off => None,
      _ => Some(*(pp.signed_period() / M)),
    };
    let d = beam.direction().into_inner();
    let lam_o = *(beam.vacuum_wavelength() / M);
    // the step math::gradient_at takes at x = lam_o
    let h = if lam_o == 0.0 { f64::EPSILON.powf(1. / 3.) } else { f64::EPSILON.powf(1. / 3.) * lam_o.abs() };
    let n_at = |l: f64| *setup.index_along(l * M, beam.direction(), beam.polarization());
    let r = guarded(std::panic::AssertUnwindSafe(|| {
      (
        *beam.effective_index_of_refraction(&setup, &pp),
        *(beam.phase_velocity(&setup, &pp) / (M / S)),
        *(beam.group_velocity(&setup, &pp) / (M / S)),
        *beam.group_index(&setup, &pp),
        *(beam.average_transit_time(&setup, &pp) / S),
      )
    }));
    let mut o = json!({
      "kind": "kin", "case": case, "crystal": meta.id, "pol": if pol == PolarizationType::Ordinary { "o" } else { "e" },
      "omega": fx(*(beam.frequency() / (RAD / S))), "lambda": fx(lam_o), "dir": [fx(d.x), fx(d.y), fx(d.z)],
      "L": fx(length), "t_c": fx(t_c), "period": signed_period.map(fx),
      "h": fx(h), "n0": fx(n_at(lam_o)), "n_plus": fx(n_at(lam_o + h)), "n_minus": fx(n_at(lam_o - h)),
      "n_self": fx(*beam.refractive_index(beam.frequency(), &setup)),
    });
    match r {
      Ok((ne, vp, vg, ng, tt)) => {
        o["ok"] = json!(true);
        o["n_eff"] = fx(ne);
        o["vp"] = fx(vp);
        o["vg"] = fx(vg);
        o["ng"] = fx(ng);
        o["transit"] = fx(tt);
      }
      Err(msg) => {
        o["ok"] = json!(false);
        o["panic"] = json!(msg);
      }
    }
    emit(o);
  }
}
