//! C06 observations (consumer: props/c06.py).  Also exports the setup generator and the scalar dump shared with C05.
//!
//! kinds:  "pt"     one (setup, omega_s, omega_i): every scalar input of get_pm_integrand / the normalisation (the fields of
//!                  coq/Model/PMParams.v, read through public accessors), the integrand at a few z, fibre-coupled
//!                  amplitude, jsa_raw, norm, jsa, jsi — for the setup and for with_swapped_signal_idler() at (omega_i, omega_s)
//!         "rates"  counts_coincidences / counts_singles_signal / counts_singles_idler and jsi_singles(_idler)_range on a
//!                  small grid, for the setup and its exchanged twin (transposed grid)
//!         "skip"   generator produced a setup the library cannot build (no optimum idler / poling, panic in the constructor)
#![allow(unused_imports, dead_code, non_snake_case)]
use crate::common::*;
use serde_json::{json, Value};
use spdcalc::beam::{Beam, BeamWaist, IdlerBeam, PumpBeam, SignalBeam};
use spdcalc::dim::f64prefixes::*;
use spdcalc::dim::ucum::{self, DEG, HZ, K, M, MILLIW, RAD, S, V};
use spdcalc::jsa::{FrequencySpace, JointSpectrum};
use spdcalc::math::Integrator;
use spdcalc::utils::{from_celsius_to_kelvin, vacuum_wavelength_to_frequency};
use spdcalc::*;

pub struct Gen {
  pub collinear: bool,
  pub min_waist: f64,
  pub max_waist: f64,
  pub apodize: bool,
  pub equal_waists: bool,
  pub elliptic: bool,
}

pub const POLED: [(CrystalType, PMType, f64); 7] = [
  (CrystalType::KTP, PMType::Type2_e_eo, 90.),
  (CrystalType::KTP, PMType::Type2_e_oe, 90.),
  (CrystalType::KTP, PMType::Type0_e_ee, 90.),
  (CrystalType::LiNbO3_1, PMType::Type0_e_ee, 90.),
  (CrystalType::LiNb_MgO, PMType::Type0_e_ee, 90.),
  (CrystalType::KTP, PMType::Type0_o_oo, 90.),
  (CrystalType::BBO_1, PMType::Type1_e_oo, 30.),
];
pub const ANGLE_TUNED: [(CrystalType, PMType); 6] = [
  (CrystalType::BBO_1, PMType::Type1_e_oo),
  (CrystalType::BBO_1, PMType::Type2_e_eo),
  (CrystalType::BBO_1, PMType::Type2_e_oe),
  (CrystalType::KDP_1, PMType::Type1_e_oo),
  (CrystalType::LiIO3_1, PMType::Type1_e_oo),
  (CrystalType::BiBO_1, PMType::Type1_e_oo),
];

pub fn random_apodization(rng: &mut Rng, length_m: f64) -> Apodization {
  match rng.below(8) {
    0 => Apodization::Gaussian { fwhm: rng.range(0.4, 1.5) * length_m * M },
    1 => Apodization::Bartlett(rng.range(1.05, 2.0)),
    2 => Apodization::Blackman(rng.range(1.2, 2.0)),
    3 => Apodization::Connes(rng.range(1.05, 2.0)),
    4 => Apodization::Cosine(rng.range(1.05, 2.0)),
    5 => Apodization::Hamming(rng.range(1.0, 2.0)),
    6 => Apodization::Welch(rng.range(1.05, 2.0)),
    _ => Apodization::Interpolate((0..rng.below(6) + 2).map(|_| rng.range(0.2, 1.0)).collect()),
  }
}

/// A random setup.  Returns Err(reason) when the library cannot build it.
pub fn random_setup(rng: &mut Rng, g: &Gen) -> Result<(SPDC, Value), String> {
  random_setup_with(rng, g, None)
}

/// `force`: crystal and phase-matching type fixed; Some(theta) = periodically poled at that cut angle, None = angle tuned
pub fn random_setup_with(rng: &mut Rng, g: &Gen, force: Option<(CrystalType, PMType, Option<f64>)>) -> Result<(SPDC, Value), String> {
  let mut poled = rng.below(10) < 6;
  let (crystal, pm_type, theta0) = if let Some((c, t, th)) = force {
    poled = th.is_some();
    (c, t, th.unwrap_or(45.))
  } else if poled {
    rng.pick(&POLED).clone()
  } else {
    let (c, t) = rng.pick(&ANGLE_TUNED).clone();
    (c, t, 45.)
  };
  let length = rng.log_range(0.5e-3, 20e-3);
  let temp_c = rng.range(15., 60.);
  let lp = rng.range(380e-9, 800e-9);
  // signal wavelength: non-degenerate by up to +-25 %, exactly degenerate now and then
  let ls = if rng.below(8) == 0 { 2. * lp } else { 2. * lp * rng.range(0.78, 1.25) };
  let wp = rng.log_range(g.min_waist, g.max_waist);
  let ws = rng.log_range(g.min_waist, g.max_waist);
  let wi = if g.equal_waists { ws } else { rng.log_range(g.min_waist, g.max_waist) };
  let phi_s = if g.collinear { 0. } else { rng.range(0., 360.) };
  let theta_s_ext = if g.collinear { 0. } else { rng.range(0.2, 4.0) };
  let phi_c = if rng.coin() { 0. } else { rng.range(0., 90.) };
  let mut cs = CrystalSetup {
    crystal: crystal.clone(),
    pm_type,
    phi: phi_c * DEG,
    theta: theta0 * DEG,
    length: length * M,
    temperature: from_celsius_to_kelvin(temp_c),
    counter_propagation: false,
  };
  let pump_waist = if g.elliptic && rng.coin() { BeamWaist { x: wp * M, y: wp * rng.range(0.6, 1.6) * M } } else { BeamWaist::new(wp * M) };
  let pump: PumpBeam = Beam::new(pm_type.pump_polarization(), 0. * RAD, 0. * RAD, lp * M, pump_waist).into();
  let sig_waist = if g.elliptic && rng.coin() { BeamWaist { x: ws * M, y: ws * rng.range(0.6, 1.6) * M } } else { BeamWaist::new(ws * M) };
  let mut signal: SignalBeam = Beam::new(pm_type.signal_polarization(), phi_s * DEG, 0. * RAD, ls * M, sig_waist).into();
  let apod = if poled && g.apodize && rng.below(4) != 0 { random_apodization(rng, length) } else { Apodization::Off };
  let desc = json!({"crystal": crystal.to_string(), "pm_type": pm_type.to_str(), "poled": poled, "length_m": length, "temp_c": temp_c,
    "lambda_p_m": lp, "lambda_s_m": ls, "wp_m": wp, "ws_m": ws, "wi_m": wi, "phi_s_deg": phi_s, "theta_s_ext_deg": theta_s_ext,
    "phi_c_deg": phi_c, "apodization": apod.kind()});
  let built = guarded(move || -> Result<SPDC, String> {
    if !g_collinear(theta_s_ext) {
      signal.set_theta_external(theta_s_ext * DEG, &cs);
    }
    let pp = if poled {
      PeriodicPoling::try_new_optimum(&signal, &pump, &cs, apod).map_err(|e| format!("poling: {}", e))?
    } else {
      cs.assign_optimum_theta(&signal, &pump);
      if !g_collinear(theta_s_ext) {
        signal.set_theta_external(theta_s_ext * DEG, &cs);
      }
      PeriodicPoling::Off
    };
    let mut idler = IdlerBeam::try_new_optimum(&signal, &pump, &cs, &pp).map_err(|e| format!("idler: {}", e))?;
    idler.set_waist(BeamWaist::new(wi * M));
    let zs = cs.optimal_waist_position(signal.vacuum_wavelength(), signal.polarization());
    let zi = cs.optimal_waist_position(idler.vacuum_wavelength(), idler.polarization());
    Ok(SPDC::new(cs, signal, idler, pump, 1e-9 * M, 100. * MILLIW, 1e-2, pp, zs, zi, 7.6e-12 * M / V))
  });
  let mut spdc = match built {
    Ok(Ok(s)) => s,
    Ok(Err(e)) => return Err(e),
    Err(p) => return Err(format!("panic: {}", p)),
  };
  // pump bandwidth, power, deff, threshold, waist positions: free parameters of the property
  spdc.pump_bandwidth = rng.log_range(0.05e-9, 8e-9) * M;
  spdc.pump_average_power = rng.range(1., 500.) * MILLIW;
  spdc.deff = rng.range(0.5e-12, 12e-12) * M / V;
  spdc.pump_spectrum_threshold = *rng.pick(&[1e-2, 1e-3, 1e-9]);
  if rng.below(3) != 0 {
    spdc.signal_waist_position = -rng.range(0., 1.) * length * M;
    spdc.idler_waist_position = -rng.range(0., 1.) * length * M;
  }
  Ok((spdc, desc))
}

/// The signal/idler-exchanged experiment built through the public constructor, WITHOUT SPDC::with_swapped_signal_idler / PMType::inverse
pub fn exchanged_by_hand(spdc: &SPDC) -> SPDC {
  let mut cs = spdc.crystal_setup.clone();
  cs.pm_type = match cs.pm_type {
    PMType::Type2_e_eo => PMType::Type2_e_oe,
    PMType::Type2_e_oe => PMType::Type2_e_eo,
    t => t,
  };
  SPDC::new(
    cs,
    SignalBeam::new(spdc.idler.clone().as_beam()),
    IdlerBeam::new(spdc.signal.clone().as_beam()),
    spdc.pump.clone(),
    spdc.pump_bandwidth,
    spdc.pump_average_power,
    spdc.pump_spectrum_threshold,
    spdc.pp.clone(),
    spdc.idler_waist_position,
    spdc.signal_waist_position,
    spdc.deff,
  )
}

fn g_collinear(theta_s_ext: f64) -> bool {
  theta_s_ext == 0.
}

/// every scalar the integrand / normalisation reads, through the same public accessors the library uses
pub fn dump_params(spdc: &SPDC, ws: Frequency, wi: Frequency, zs: &[f64]) -> Value {
  let cs = &spdc.crystal_setup;
  let L = spdc.crystal_setup.length;
  let raw = |f: Frequency| *(f / (RAD / S));
  let apod: Vec<Value> = zs.iter().map(|z| fx(spdc.pp.integration_constant(*z, L))).collect();
  let mut a = json!({
    "L": fx(*(L / M)),
    "phi_s": fx(*(spdc.signal.phi() / RAD)), "phi_i": fx(*(spdc.idler.phi() / RAD)),
    "theta_s": fx(*(spdc.signal.theta_internal() / RAD)), "theta_i": fx(*(spdc.idler.theta_internal() / RAD)),
    "theta_s_e": fx(*(spdc.signal.theta_external(cs) / RAD)), "theta_i_e": fx(*(spdc.idler.theta_external(cs) / RAD)),
    "wsx": fx(*(spdc.signal.waist().x / M)), "wsy": fx(*(spdc.signal.waist().y / M)),
    "wix": fx(*(spdc.idler.waist().x / M)), "wiy": fx(*(spdc.idler.waist().y / M)),
    "wpx": fx(*(spdc.pump.waist().x / M)), "wpy": fx(*(spdc.pump.waist().y / M)),
    "z0s": fx(*(spdc.signal_waist_position / M)), "z0i": fx(*(spdc.idler_waist_position / M)),
    "dirz_s": fx(spdc.signal.direction().z), "dirz_i": fx(spdc.idler.direction().z),
    "omega_s": fx(raw(ws)), "omega_i": fx(raw(wi)),
    "n_p": fx(*spdc.pump.refractive_index(ws + wi, cs)),
    "n_s": fx(*spdc.signal.refractive_index(ws, cs)),
    "n_i": fx(*spdc.idler.refractive_index(wi, cs)),
    "rho": fx(*(spdc.pump.walkoff_angle(cs) / RAD)),
    "k_eff": fx(*(spdc.pp.k_eff() / (RAD / M))),
    "apod": apod,
    "pp_on": spdc.pp != PeriodicPoling::Off,
    "lambda_p": fx(*(spdc.pump.vacuum_wavelength() / M)),
    "omega_p0": fx(raw(spdc.pump.frequency())),
    "bw": fx(*(spdc.pump_bandwidth / M)),
    "power": fx(spdc.pump_average_power.value_unsafe),
    "deff": fx(spdc.deff.value_unsafe),
    "thr": fx(spdc.pump_spectrum_threshold),
  });
  let b = json!({
    "lambda_s": fx(*(spdc.signal.vacuum_wavelength() / M)), "lambda_i": fx(*(spdc.idler.vacuum_wavelength() / M)),
    "omega_s0": fx(raw(spdc.signal.frequency())), "omega_i0": fx(raw(spdc.idler.frequency())),
    "n_s0": fx(*spdc.signal.refractive_index(spdc.signal.frequency(), cs)),
    "n_i0": fx(*spdc.idler.refractive_index(spdc.idler.frequency(), cs)),
    "n_p0": fx(*spdc.pump.refractive_index(spdc.pump.frequency(), cs)),
    "ng_s": fx(*spdc.signal.group_index(cs, PeriodicPoling::Off)),
    "ng_i": fx(*spdc.idler.group_index(cs, PeriodicPoling::Off)),
    "ng_p": fx(*spdc.pump.group_index(cs, PeriodicPoling::Off)),
    "pm_type": spdc.crystal_setup.pm_type.to_str(),
    "pol_s": format!("{:?}", spdc.signal.polarization()), "pol_i": format!("{:?}", spdc.idler.polarization()),
  });
  if let (Value::Object(ma), Value::Object(mb)) = (&mut a, b) {
    ma.extend(mb);
  }
  a
}

pub fn cx(c: Complex<f64>) -> Value {
  json!([fx(c.re), fx(c.im)])
}

/// integrand values at the given z, fibre coupling, raw jsa, norm, jsa, jsi at one frequency pair
pub fn dump_values(spdc: &SPDC, js: &JointSpectrum, ws: Frequency, wi: Frequency, zs: &[f64], integ: Integrator) -> Value {
  let f = get_pm_integrand(ws, wi, spdc);
  let vals: Vec<Value> = zs.iter().map(|z| cx(f(*z))).collect();
  let pmf = *(phasematch_fiber_coupling(ws, wi, spdc, integ) / PerMeter4::new(1.));
  // the amplitude the quadrature would give WITHOUT cancellation (= the phase-matched peak of the spectrum): 1/2 Int |integrand|
  let pm_abs = 0.5 * Integrator::Simpson { divs: 50 }.integrate(|z: f64| Complex::new(f(z).norm(), 0.), -1., 1.).re;
  let raw = jsa_raw(ws, wi, spdc, integ);
  let norm = *(jsi_normalization(ws, wi, spdc) / JsiNorm::new(1.));
  let alpha = pump_spectral_amplitude(ws + wi, spdc);
  json!({"integrand": vals, "fiber": cx(pmf), "fiber_abs": fx(pm_abs), "jsa_raw": cx(raw), "norm": fx(norm), "alpha": fx(alpha),
    "jsa": cx(js.jsa(ws, wi)), "jsi": fx(*(js.jsi(ws, wi) / JSIUnits::new(1.))),
    "jsi_singles": fx(*(js.jsi_singles(ws, wi) / JSIUnits::new(1.))),
    "corr": fx(spdc::get_counts_correction(spdc))})
}

pub fn random_zs(rng: &mut Rng, n: usize) -> Vec<f64> {
  let mut zs = vec![-1.0, 1.0];
  for _ in 0..n {
    zs.push(rng.range(-1., 1.));
  }
  zs
}

pub fn run(args: &[String]) {
  let seed = arg_u64(args, 0, 1);
  let n = arg_u64(args, 1, 20) as usize;
  let nrates = arg_u64(args, 2, 2) as usize;
  let mut rng = Rng::new(seed);
  let integ = Integrator::default();
  let mut made = 0usize;
  let mut tries = 0usize;
  while made < n && tries < 20 * n + 20 {
    tries += 1;
    let g = Gen {
      collinear: rng.below(6) == 0,
      min_waist: 30e-6,
      max_waist: 400e-6,
      apodize: true,
      equal_waists: rng.below(6) == 0,
      elliptic: rng.below(4) == 0,
    };
    // the first setups of every run have the phase-matching type whose exchange is NOT itself (e -> oe, poled and angle tuned; e -> eo)
    let force = match tries {
      1 => Some((CrystalType::KTP, PMType::Type2_e_oe, Some(90.))),
      2 => Some((CrystalType::BBO_1, PMType::Type2_e_oe, None)),
      3 => Some((CrystalType::KTP, PMType::Type2_e_eo, Some(90.))),
      _ => None,
    };
    let (spdc, desc) = match random_setup_with(&mut rng, &g, force) {
      Ok(x) => x,
      Err(e) => {
        emit(json!({"kind": "skip", "why": e}));
        continue;
      }
    };
    let swapped = spdc.clone().with_swapped_signal_idler();
    let js = match guarded(|| (JointSpectrum::new(spdc.clone(), integ), JointSpectrum::new(swapped.clone(), integ))) {
      Ok(x) => x,
      Err(e) => {
        emit(json!({"kind": "skip", "why": format!("JointSpectrum::new panicked: {}", e), "setup": desc}));
        continue;
      }
    };
    made += 1;
    let ws0 = spdc.signal.frequency();
    let wi0 = spdc.idler.frequency();
    let lambda_p = spdc.pump.vacuum_wavelength();
    let sigma = fwhm_to_spectral_width(lambda_p, spdc.pump_bandwidth);
    let npts = 3;
    for k in 0..npts {
      // frequency pairs: the centre, then detuned (sum within ~1 pump width, difference anywhere inside a few widths)
      let (ds, di) = if k == 0 { (0., 0.) } else { (rng.range(-1.2, 1.2), rng.range(-1.2, 1.2)) };
      let ws = ws0 + ds * sigma;
      let wi = wi0 + di * sigma;
      let zs = random_zs(&mut rng, 3);
      let a = guarded(|| (dump_params(&spdc, ws, wi, &zs), dump_values(&spdc, &js.0, ws, wi, &zs, integ)));
      let b = guarded(|| (dump_params(&swapped, wi, ws, &zs), dump_values(&swapped, &js.1, wi, ws, &zs, integ)));
      match (a, b) {
        (Ok((pa, va)), Ok((pb, vb))) => emit(json!({"kind": "pt", "setup": desc, "id": made, "k": k,
          "zs": fxs(&zs), "p": pa, "v": va, "p_sw": pb, "v_sw": vb})),
        (a, b) => emit(json!({"kind": "pt_panic", "setup": desc, "id": made, "k": k,
          "orig": a.err(), "swapped": b.err()})),
      }
    }
    {
      // normalized spectra (normalized to the value at the optimum centre, which JointSpectrum::new re-derives from crystal_setup.pm_type):
      // the setup, the library's exchange and an exchange built by hand, on a small grid and its transpose
      let span = 0.7 * sigma;
      let range = FrequencySpace::new((ws0 - span, ws0 + 0.8 * span, 3), (wi0 - 0.9 * span, wi0 + span, 2));
      let range_t = FrequencySpace::new((wi0 - 0.9 * span, wi0 + span, 2), (ws0 - span, ws0 + 0.8 * span, 3));
      let res = guarded(|| {
        let hand = exchanged_by_hand(&spdc);
        let js_hand = JointSpectrum::new(hand.clone(), integ);
        let pts: Vec<(Frequency, Frequency)> = range.as_steps().into_iter().collect();
        let pts_t: Vec<(Frequency, Frequency)> = range_t.as_steps().into_iter().collect();
        let rw = |f: Frequency| *(f / (RAD / S));
        let grid: Vec<Value> = pts.iter().map(|(a, b)| json!([fx(rw(*a)), fx(rw(*b))])).collect();
        let grid_t: Vec<Value> = pts_t.iter().map(|(a, b)| json!([fx(rw(*a)), fx(rw(*b))])).collect();
        let ju = |v: Vec<JSIUnits<f64>>| -> Vec<f64> { v.iter().map(|x| *(*x / JSIUnits::new(1.))).collect() };
        json!({"grid": grid, "grid_t": grid_t,
          "pm_type": spdc.crystal_setup.pm_type.to_str(), "pm_type_sw": swapped.crystal_setup.pm_type.to_str(),
          "pm_type_hand": hand.crystal_setup.pm_type.to_str(),
          "jsi_n": fxs(&js.0.jsi_normalized_range(range)),
          "jsi_n_sw_t": fxs(&js.1.jsi_normalized_range(range_t)),
          "jsi_n_hand_t": fxs(&js_hand.jsi_normalized_range(range_t)),
          "idler_n": fxs(&js.0.jsi_singles_idler_normalized_range(range)),
          "signal_n_sw_t": fxs(&js.1.jsi_singles_normalized_range(range_t)),
          "signal_n_hand_t": fxs(&js_hand.jsi_singles_normalized_range(range_t)),
          "signal_n": fxs(&js.0.jsi_singles_normalized_range(range)),
          "idler_n_hand_t": fxs(&js_hand.jsi_singles_idler_normalized_range(range_t)),
          "jsi": fxs(&ju(js.0.jsi_range(range))),
          "jsi_hand_t": fxs(&ju(js_hand.jsi_range(range_t))),
          "idler": fxs(&ju(js.0.jsi_singles_idler_range(range))),
          "signal_hand_t": fxs(&ju(js_hand.jsi_singles_range(range_t)))})
      });
      match res {
        Ok(v) => emit(json!({"kind": "norm", "setup": desc, "id": made, "r": v})),
        Err(e) => emit(json!({"kind": "norm_panic", "setup": desc, "id": made, "why": e})),
      }
    }
    if made <= nrates {
      // rates on a small grid around the centre; the exchanged setup is evaluated on the transposed grid
      // unequal axis spans AND resolutions (unequal cell widths dws != dwi); the exchanged setup is evaluated on the transposed grid
      let (rs, ri) = *rng.pick(&[(5usize, 4usize), (4, 6), (5, 5), (3, 5)]);
      let span_s = rng.range(0.8, 1.6) * sigma;
      let span_i = rng.range(0.8, 1.6) * sigma;
      let range = FrequencySpace::new((ws0 - span_s, ws0 + span_s, rs), (wi0 - span_i, wi0 + span_i, ri));
      let range_t = FrequencySpace::new((wi0 - span_i, wi0 + span_i, ri), (ws0 - span_s, ws0 + span_s, rs));
      let raw = |h: ucum::Hertz<f64>| *(h / HZ);
      let res = guarded(|| {
        let cc = raw(spdc.counts_coincidences(range, integ));
        let cc_sw = raw(swapped.counts_coincidences(range_t, integ));
        let ss = raw(spdc.counts_singles_signal(range, integ));
        let si = raw(spdc.counts_singles_idler(range, integ));
        let ss_sw = raw(swapped.counts_singles_signal(range_t, integ));
        let si_sw = raw(swapped.counts_singles_idler(range_t, integ));
        let corr = spdc::get_counts_correction(&spdc);
        let corr_sw = spdc::get_counts_correction(&swapped);
        // spectra with their frequency arguments, so the consumer can pair points without knowing the iteration order
        let pts: Vec<(Frequency, Frequency)> = range.as_steps().into_iter().collect();
        let pts_t: Vec<(Frequency, Frequency)> = range_t.as_steps().into_iter().collect();
        let rw = |f: Frequency| *(f / (RAD / S));
        let grid: Vec<Value> = pts.iter().map(|(a, b)| json!([fx(rw(*a)), fx(rw(*b))])).collect();
        let grid_t: Vec<Value> = pts_t.iter().map(|(a, b)| json!([fx(rw(*a)), fx(rw(*b))])).collect();
        let jsi_idler: Vec<f64> = js.0.jsi_singles_idler_range(range).iter().map(|x| *(*x / JSIUnits::new(1.))).collect();
        let sw_sig: Vec<f64> = js.1.jsi_singles_range(range_t).iter().map(|x| *(*x / JSIUnits::new(1.))).collect();
        let jsi: Vec<f64> = js.0.jsi_range(range).iter().map(|x| *(*x / JSIUnits::new(1.))).collect();
        let jsi_sw: Vec<f64> = js.1.jsi_range(range_t).iter().map(|x| *(*x / JSIUnits::new(1.))).collect();
        let (dws, dwi) = range.steps().division_widths();
        json!({"cc": fx(cc), "cc_sw": fx(cc_sw), "ss": fx(ss), "si": fx(si), "ss_sw": fx(ss_sw), "si_sw": fx(si_sw),
          "corr": fx(corr), "corr_sw": fx(corr_sw), "res": [rs, ri], "dws": fx(rw(dws)), "dwi": fx(rw(dwi)),
          "xs": fx(rw(ws0 - span_s)), "xe": fx(rw(ws0 + span_s)), "ys": fx(rw(wi0 - span_i)), "ye": fx(rw(wi0 + span_i)),
          "ng_s": fx(*spdc.signal.group_index(&spdc.crystal_setup, PeriodicPoling::Off)),
          "ng_i": fx(*spdc.idler.group_index(&spdc.crystal_setup, PeriodicPoling::Off)),
          "grid": grid, "grid_t": grid_t,
          "jsi_idler": fxs(&jsi_idler), "sw_signal_t": fxs(&sw_sig), "jsi": fxs(&jsi), "jsi_sw_t": fxs(&jsi_sw)})
      });
      match res {
        Ok(v) => emit(json!({"kind": "rates", "setup": desc, "id": made, "r": v})),
        Err(e) => emit(json!({"kind": "rates_panic", "setup": desc, "id": made, "why": e})),
      }
    }
  }
  emit(json!({"kind": "done", "made": made, "tries": tries}));
}
