//! Shared helpers: SplitMix64 PRNG (every random choice of a run derives from one state), f64 printing.
#![allow(dead_code)]
use serde_json::{json, Value};

pub struct Rng(pub u64);

impl Rng {
  pub fn new(seed: u64) -> Self {
    Rng(seed ^ 0x9E37_79B9_7F4A_7C15)
  }
  pub fn next_u64(&mut self) -> u64 {
    self.0 = self.0.wrapping_add(0x9E37_79B9_7F4A_7C15);
    let mut z = self.0;
    z = (z ^ (z >> 30)).wrapping_mul(0xBF58_476D_1CE4_E5B9);
    z = (z ^ (z >> 27)).wrapping_mul(0x94D0_49BB_1331_11EB);
    z ^ (z >> 31)
  }
  /// uniform in [0,1)
  pub fn unit(&mut self) -> f64 {
    (self.next_u64() >> 11) as f64 / (1u64 << 53) as f64
  }
  pub fn range(&mut self, lo: f64, hi: f64) -> f64 {
    lo + (hi - lo) * self.unit()
  }
  pub fn below(&mut self, n: usize) -> usize {
    (self.next_u64() % (n as u64)) as usize
  }
  pub fn pick<'a, T>(&mut self, xs: &'a [T]) -> &'a T {
    &xs[self.below(xs.len())]
  }
  pub fn coin(&mut self) -> bool {
    self.next_u64() & 1 == 1
  }
  /// log-uniform in [lo, hi], both positive
  pub fn log_range(&mut self, lo: f64, hi: f64) -> f64 {
    (lo.ln() + (hi.ln() - lo.ln()) * self.unit()).exp()
  }
}

/// exact representation of an f64
pub fn fx(x: f64) -> Value {
  json!(format!("0x{:016x}", x.to_bits()))
}

pub fn fxs(xs: &[f64]) -> Value {
  Value::Array(xs.iter().map(|x| fx(*x)).collect())
}

pub fn arg_u64(args: &[String], i: usize, default: u64) -> u64 {
  args.get(i).and_then(|s| s.parse().ok()).unwrap_or(default)
}

pub fn emit(v: Value) {
  println!("{}", v);
}

/// Run a closure, classify a panic.  Returns Err(message) on panic.
pub fn guarded<T, F: FnOnce() -> T + std::panic::UnwindSafe>(f: F) -> Result<T, String> {
  match std::panic::catch_unwind(f) {
    Ok(v) => Ok(v),
    Err(e) => {
      let msg = if let Some(s) = e.downcast_ref::<&str>() {
        s.to_string()
      } else if let Some(s) = e.downcast_ref::<String>() {
        s.clone()
      } else {
        "panic".to_string()
      };
      Err(msg)
    }
  }
}
