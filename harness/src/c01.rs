//! C01 observations: crystal metadata, identifier round trips, principal indices on a (wavelength, temperature) sample.
use crate::common::*;
use serde_json::json;
use spdcalc::dim::ucum::{K, M};
use spdcalc::*;
use std::str::FromStr;

pub fn run(args: &[String]) {
  let seed = arg_u64(args, 0, 1);
  let n = arg_u64(args, 1, 40) as usize;
  let mut rng = Rng::new(seed);
  let metas = CrystalType::get_all_meta();
  for meta in metas.iter() {
    let parsed = CrystalType::from_string(meta.id);
    let (ok, display, meta2_eq, serde_rt) = match &parsed {
      Ok(c) => {
        let js = serde_json::to_string(c).unwrap_or_default();
        let back: Result<CrystalType, _> = serde_json::from_str(&js);
        (
          true,
          c.to_string(),
          c.get_meta() == *meta,
          back.map(|b| b == *c).unwrap_or(false),
        )
      }
      Err(_) => (false, String::new(), false, false),
    };
    let from_str_same = CrystalType::from_str(meta.id).map(|c| c.to_string()).unwrap_or_default();
    let is_expr = matches!(parsed, Ok(CrystalType::Expr(_)));
    emit(json!({
      "kind": "meta", "id": meta.id, "name": meta.name,
      "axis": format!("{:?}", meta.axis_type), "group": format!("{:?}", meta.point_group),
      "range": meta.transmission_range.map(|r| vec![fx(r.0), fx(r.1)]),
      "temp_known": meta.temperature_dependence_known,
      "parse_ok": ok, "is_expr": is_expr, "display": display, "meta_roundtrip": meta2_eq, "serde_roundtrip": serde_rt,
      "from_str_display": from_str_same,
    }));
    let crystal = match parsed {
      Ok(c) => c,
      Err(_) => continue,
    };
    let (lo, hi) = match meta.transmission_range {
      Some(r) => (r.0, r.1),
      None => continue,
    };
    // wavelength sample: both window edges, a log-uniform interior sample, and for every crystal points around
    // 1.2 um (KTP's n_y switches form there) when that lies inside the window
    let mut ls: Vec<f64> = vec![lo, hi];
    for _ in 0..n {
      ls.push(rng.log_range(lo, hi));
    }
    for d in [-1e-7, -1e-9, 1e-9, 1e-7] {
      let l = 1.2e-6 * (1.0 + d);
      if l > lo && l < hi {
        ls.push(l);
      }
    }
    ls.sort_by(|a, b| a.partial_cmp(b).unwrap());
    let temps_fixed = [-50.0, 20.0, 24.5, 200.0];
    for (i, l) in ls.iter().enumerate() {
      let mut ts: Vec<f64> = temps_fixed.to_vec();
      if i % 4 == 0 {
        ts.push(rng.range(-50.0, 200.0));
      }
      for t_c in ts {
        let t_k = utils::from_celsius_to_kelvin(t_c);
        let ind = crystal.get_indices(*l * M, t_k);
        let v = *ind;
        emit(json!({
          "kind": "idx", "id": meta.id, "w": fx(*l), "tk": fx(*(t_k / K)), "tc": fx(t_c),
          "n": [fx(v.x), fx(v.y), fx(v.z)],
        }));
      }
    }
  }
  // user expression crystals: lines `expr <id> <json>` on stdin (written by props/c01.py from the translated formulas)
  let mut input = String::new();
  let _ = std::io::Read::read_to_string(&mut std::io::stdin(), &mut input);
  // replay points: lines `point <id> <wavelength_m> <temperature_c>` (decimal or 0x-bit-pattern floats)
  let parse_f = |t: &str| -> Option<f64> {
    if let Some(h) = t.strip_prefix("0x") {
      u64::from_str_radix(h, 16).ok().map(f64::from_bits)
    } else {
      t.parse::<f64>().ok()
    }
  };
  for line in input.lines() {
    let toks: Vec<&str> = line.split_whitespace().collect();
    if toks.len() == 4 && toks[0] == "point" {
      if let (Ok(c), Some(l), Some(t_c)) = (CrystalType::from_string(toks[1]), parse_f(toks[2]), parse_f(toks[3])) {
        let t_k = utils::from_celsius_to_kelvin(t_c);
        let v = *c.get_indices(l * M, t_k);
        emit(json!({
          "kind": "idx", "id": toks[1], "w": fx(l), "tk": fx(*(t_k / K)), "tc": fx(t_c),
          "n": [fx(v.x), fx(v.y), fx(v.z)], "replay": true,
        }));
      }
    }
  }
  for line in input.lines() {
    let mut it = line.splitn(3, ' ');
    if it.next() != Some("expr") {
      continue;
    }
    let id = it.next().unwrap_or("");
    let js = it.next().unwrap_or("");
    let meta = match metas.iter().find(|m| m.id == id) {
      Some(m) => m,
      None => continue,
    };
    let crystal = match CrystalType::from_string(js) {
      Ok(c) => c,
      Err(e) => {
        emit(json!({"kind": "expr_err", "id": id, "err": e.to_string()}));
        continue;
      }
    };
    let (lo, hi) = match meta.transmission_range {
      Some(r) => (r.0, r.1),
      None => continue,
    };
    let mut ls: Vec<f64> = vec![lo, hi];
    for _ in 0..(n / 2).max(2) {
      ls.push(rng.log_range(lo, hi));
    }
    for l in ls.iter() {
      for t_c in [-50.0, 20.0, 24.5, 200.0] {
        let t_k = utils::from_celsius_to_kelvin(t_c);
        let r = guarded(|| *crystal.get_indices(*l * M, t_k));
        match r {
          Ok(v) => emit(json!({
            "kind": "expr_idx", "id": id, "w": fx(*l), "tk": fx(*(t_k / K)), "tc": fx(t_c),
            "n": [fx(v.x), fx(v.y), fx(v.z)],
          })),
          Err(m) => emit(json!({"kind": "expr_panic", "id": id, "msg": m})),
        }
      }
    }
  }
  // strings that are not identifiers must not resolve to a built-in crystal
  for s in ["bbo_1", "BBO", "KTP ", " KTP", "LiNbO3", "ktp", "BBO_2", ""] {
    let r = CrystalType::from_string(s);
    let disp = match &r {
      Ok(CrystalType::Expr(_)) => "Expr".to_string(),
      Ok(c) => c.to_string(),
      Err(_) => "Err".to_string(),
    };
    emit(json!({"kind": "nonid", "s": s, "result": disp}));
  }
}
