//! Diagnostic copy of src/phasematch/singles.rs::phasematch_singles_fiber_coupling (public API only) with the square root
//! of the six-factor product replaced by the product of the six principal square roots (variant 1), used by `c08 probe`
//! to test whether the non-convergent / too-small singles values come from the branch cut of the complex square root.
#![allow(non_snake_case, unused_imports, dead_code)]
use spdcalc::dim::ucum::{M, RAD};
use spdcalc::math::*;
use spdcalc::utils::frequency_to_wavenumber;
use spdcalc::*;
pub static FLIPS: std::sync::atomic::AtomicUsize = std::sync::atomic::AtomicUsize::new(0);
pub static EVALS: std::sync::atomic::AtomicUsize = std::sync::atomic::AtomicUsize::new(0);

#[allow(non_snake_case)]
pub fn singles_variant(
  variant: u8,
  omega_s: Frequency,
  omega_i: Frequency,
  spdc: &SPDC,
  integrator: Integrator,
) -> PerMeter3<f64> {
  let M2 = M * M; // meters squared
                  // crystal length
  let L = spdc.crystal_setup.length;

  let theta_s = spdc.signal.theta_internal();
  let phi_s = spdc.signal.phi();
  let theta_s_e = spdc.signal.theta_external(&spdc.crystal_setup);

  let Ws_SQ = spdc.signal.waist().x_by_y();

  let Wx_SQ = sq(spdc.pump.waist().x);
  let Wy_SQ = sq(spdc.pump.waist().y);

  // Counter-propagation requires a sign change in the wavenumber but
  // not for the free propagation constants ks_f and ki_f.
  let sign_ks = spdc.signal.direction().z.signum();
  let sign_ki = spdc.idler.direction().z.signum();

  let omega_p = omega_s + omega_i; // spdc.pump.frequency();
  let n_p = spdc.pump.refractive_index(omega_p, &spdc.crystal_setup);
  let k_p = frequency_to_wavenumber(omega_p, n_p);
  let n_s = spdc.signal.refractive_index(omega_s, &spdc.crystal_setup);
  let n_i = spdc.idler.refractive_index(omega_i, &spdc.crystal_setup);
  let k_s = sign_ks * frequency_to_wavenumber(omega_s, n_s);
  let k_i = sign_ki * frequency_to_wavenumber(omega_i, n_i);
  // let k_s = (spdc.signal.wavevector(omega_s, &spdc.crystal_setup) * M / RAD).z * RAD / M;
  // let k_i = (spdc.idler.wavevector(omega_i, &spdc.crystal_setup) * M / RAD).z * RAD / M;

  let PHI_s = cos(theta_s_e).powi(-2);

  let z0 = 0. * M; //put pump in middle of the crystal
  let z0s = spdc.signal_waist_position;

  // Height of the collected spots from the z axis.
  let hs = L * 0.5 * tan(theta_s) * cos(phi_s);
  // let hi = L * 0.5 * tan(theta_i) * cos(phi_i);

  let RHOpx = tan(spdc.pump.walkoff_angle(&spdc.crystal_setup));

  // Now calculate the the coeficients that get repeatedly used. This is from
  // Karina's code. Assume a symmetric pump waist (Wx = Wy)
  use dim::Abs;
  let ks_f = k_s.abs() / n_s; // exact
  let SIN_THETA_s_e = sin(theta_s_e); // 1e-9
  let COS_PHI_s = cos(phi_s);
  let GAM2s = -0.25 * Ws_SQ; // exact
  let GAM1s = GAM2s * PHI_s; // 1e-10
  let GAM3s = -2. * ks_f * GAM1s * SIN_THETA_s_e * COS_PHI_s; // 1e-10
  let GAM4s = -0.5 * ks_f * SIN_THETA_s_e * COS_PHI_s * GAM3s; // 1e-5
  let zhs = z0s + hs * SIN_THETA_s_e * COS_PHI_s; // 1e-13
  let DEL2s = (0.5 / ks_f) * zhs; // 1e-9
  let DEL1s = DEL2s * PHI_s; // 1e-9
  let DEL3s = -hs - zhs * PHI_s * SIN_THETA_s_e * COS_PHI_s; // 1e-11
  let KpKs = *(k_p * k_s * M2 / RAD / RAD); // exact

  let dksi = k_s + k_i + spdc.pp.k_eff();
  let C7 = k_p - dksi; // 1e-7
  let C3 = L * C7; // 1e-10
  let C4 = L * (1. / k_i - 1. / k_p); // 1e-13
  let C5 = k_s / k_p; // exact
  let C9 = Complex::new(*(k_p * Wx_SQ / M / RAD), 0.); // exact
  let C10 = Complex::new(*(k_p * Wy_SQ / M / RAD), 0.); // exact
  let LRho = L * RHOpx; // DIFFERENT SIGN and 1e-5
  let LRho_sq = LRho * LRho;

  let alpha1 = 4. * KpKs * Complex::new(*(GAM1s / M2), -*(DEL1s / M2 * RAD));
  let alpha2 = 4. * KpKs * Complex::new(*(GAM2s / M2), -*(DEL2s / M2 * RAD));
  let alpha3 = Complex::new(*(GAM3s / RAD / M), -*(DEL3s / M));

  let k_p_L = k_p * L;
  let KpKs4inv = 1. / (4. * KpKs);
  let imag = Complex::i();

  let fn_z = |z1: f64, z2: f64| {
    let B0 = z1 - z2;

    // krister broke this out of the integral so that repeat calculations didn't happen
    // over z1. Might not be necessary though.
    let A1 = 2. * z0 - L * z1;
    let B1 = 1. - z1;
    let B3 = 1. + z1;

    let A2 = 2. * z0 - L * z2;
    let B2 = 1. - z2;
    let B4 = 1. + z2;

    let B6a = *(C4 * B0 * RAD / M2);
    let gamma1 = *(-k_p_L * B1 / RAD + k_s * A1 / RAD) * imag; // exact
    let gamma2 = *(-k_p_L * B2 / RAD + k_s * A2 / RAD) * imag; // exact
    let Ha = alpha1 + gamma1;
    let Hb = alpha2 + gamma1;
    let Hc = alpha1.conj() - gamma2;
    let Hd = alpha2.conj() - gamma2;

    let ks = *(k_s * M / RAD);

    let AA1 = (Ha - C9 * ks) * KpKs4inv;
    let AA2 = (Hc - C9 * ks) * KpKs4inv;
    let BB1 = (Hb - C10 * ks) * KpKs4inv;
    let BB2 = (Hd - C10 * ks) * KpKs4inv;

    // TODO: verify with krister that this is correct in the original version
    let X11 = C9 * ks - Ha;
    let X12 = (Hc - C9 * ks) * imag;
    let Y21 = C10 * ks - Hb;
    let Y22 = (Hd - C10 * ks) * imag;

    // Now to calculate the term EE
    // EE = 1/4*(-  2*Wx^2 + I B6a + C5/X11*(C9 - I A1)^2 - I C5/X12*(C9 + I A2)^2  )
    let EE = 0.25
      * (-Complex::new(2. * (*(Wx_SQ / M2)), 0.)
        + imag * B6a
        + (*C5) / X11 * sq(C9 - imag * (*(A1 / M)))
        - imag * (*C5) / X12 * sq(C9 + imag * (*(A2 / M))));

    // Now to calculate the term FF
    // FF = 1/4*(-2*Wy^2 + I B6a - C5/Y21 *(I C10 + A1)^2 + I C5/Y22 *(-I C10 + A2)^2)
    let FF = 0.25
      * (-Complex::new(2. * (*(Wy_SQ / M2)), 0.) + imag * B6a
        - (*C5) / Y21 * sq(imag * C10 + (*(A1 / M)))
        + imag * (*C5) / Y22 * sq(-imag * C10 + (*(A2 / M))));

    // Now to calculate the term GG
    // GG = ks*( \[Alpha]3c/X12 *(I C9 - A2)  +  \[Alpha]3/X11 *(-C9 + I A1));
    let GG = ks
      * (alpha3.conj() / X12 * (imag * C9 - (*(A2 / M)))
        + alpha3 / X11 * (-C9 + imag * (*(A1 / M))));

    // Now to calculate the term HH
    // HH = L * \[Rho]/2 *(I B0 + ks*(B3/Y21 *(-I C10 - A1)  +  B4/Y22 *(C10 + I A2)));
    let HH = 0.5
      * (*(LRho / M))
      * (imag * B0
        + ks * (B3 / Y21 * (-imag * C10 - (*(A1 / M))) + B4 / Y22 * (C10 + imag * (*(A2 / M)))));

    // Now to calculate the term II
    // IIrho = 1/4* ks*kp*L^2*\[Rho]^2 ( -B3^2/Y21 +I B4^2/Y22)
    // IIgam = kp*ks*(\[Alpha]3^2/X11 - I \[Alpha]3c^2/X12)
    // IIdelk = 2 \[CapitalGamma]4s + 0.5 I (C3*B0)
    // II = IIrho + IIgam + IIdelk
    let IIrho = 0.25 * KpKs * (*(LRho_sq / M2)) * (-B3.powi(2) / Y21 + imag * B4.powi(2) / Y22);
    let IIgam = KpKs * (sq(alpha3) / X11 - imag * sq(alpha3.conj()) / X12);
    let IIdelk = 2. * *(GAM4s / RAD / RAD) + 0.5 * imag * *(C3 / RAD) * B0;
    let II = IIrho + IIgam + IIdelk;

    // Now calculate terms in the numerator
    // Exp(-(GG^2/(4 EE)) - HH^2/(4 FF) + II)
    let numerator = (-sq(GG) / (4. * EE) - sq(HH) / (4. * FF) + II).exp();

    // Now calculate terms in the Denominator
    // 8 * Sqrt[AA1 BB1 AA2 BB2 EE FF]
    let denominator = match variant {
      0 => 8. * (AA1 * BB1 * AA2 * BB2 * EE * FF).sqrt(),
      // pairwise roots (x- and y-coefficient of the same Gaussian integral), each taken on the branch nearest to the
      // x-coefficient: for round collinear beams AA1 = BB1 etc. and the analytic value is AA1 * AA2 * EE itself
      3 => {
        let near = |p: Complex<f64>, r: Complex<f64>| {
          let s = p.sqrt();
          if (s * r.conj()).re < 0. {
            -s
          } else {
            s
          }
        };
        8. * near(AA1 * BB1, AA1) * near(AA2 * BB2, AA2) * near(EE * FF, EE)
      }
      // each Gaussian integral contributes the principal square root of its own coefficient
      _ => 8. * AA1.sqrt() * BB1.sqrt() * AA2.sqrt() * BB2.sqrt() * EE.sqrt() * FF.sqrt(),
    };
    if variant == 2 {
      // diagnostic: count how often the two forms differ (sign flip of the integrand)
      let a = (AA1 * BB1 * AA2 * BB2 * EE * FF).sqrt();
      let b = AA1.sqrt() * BB1.sqrt() * AA2.sqrt() * BB2.sqrt() * EE.sqrt() * FF.sqrt();
      if (a - b).norm() > 1e-6 * a.norm() {
        FLIPS.fetch_add(1, std::sync::atomic::Ordering::Relaxed);
      }
      EVALS.fetch_add(1, std::sync::atomic::Ordering::Relaxed);
    }

    // Take into account apodized crystals
    // Apodization 1/e^2
    let pmzcoeff = spdc.pp.integration_constant(z1, L) * spdc.pp.integration_constant(z2, L);

    // Now calculate the full term in the integral.
    pmzcoeff * numerator / denominator
  };

  // let integrator = SimpsonIntegration2D::new(|z1, z2, _| fn_z(z1, z2));

  // // h(\omega_s, \omega_i) = \frac{1}{4} \int_{-1}^{1} d\xi_1 \int_{-1}^{1} d\xi_2 \psi(\xi_1, \xi_2).
  // let result = 0.25
  //   * integrator
  //     .integrate(
  //       (-1., 1.),
  //       (-1., 1.),
  //       steps.unwrap_or_else(|| integration_steps_best_guess(L)),
  //     )
  //     .norm();

  // let integrator = Integrator::AdaptiveSimpson {
  //   tolerance: 1e-5,
  //   max_depth: 1000,
  // };
  //
  // TODO: Where does this factor of 0.25 come from?
  let result = 0.25 * integrator.integrate2d(&fn_z, -1., 1., -1., 1.).norm();

  PerMeter3::new(result)
}

