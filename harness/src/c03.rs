//! C03 observations: wave vectors, phase mismatch and the optimum idler on random setups
//! (all crystals x 5 phase-matching types x poling off / +-period x azimuths x signal polar angle in [-0.3, 0.3]).
//! Every number is printed as the bit pattern the implementation produced; nothing is recomputed here except
//! the *inputs* of the implementation (indices are obtained a second time through `CrystalSetup::index_along`
//! called directly with each beam's own wavelength / direction / polarization, so that a wrong-beam slip inside
//! `delta_k`/`wavevector` shows up in the consumer's recomputation).
#![allow(unused_imports, dead_code)]
use crate::common::*;
use serde_json::{json, Value};
use spdcalc::beam::*;
use spdcalc::dim::ucum::{HZ, K, M, RAD, S, W, V};
use spdcalc::utils::{frequency_to_vacuum_wavelength, from_celsius_to_kelvin};
use spdcalc::*;

pub const PMS: [PMType; 5] = [
  PMType::Type0_o_oo,
  PMType::Type0_e_ee,
  PMType::Type1_e_oo,
  PMType::Type2_e_eo,
  PMType::Type2_e_oe,
];

pub fn v3(v: &na::Vector3<f64>) -> Value {
  json!([fx(v.x), fx(v.y), fx(v.z)])
}

pub fn rad(a: Angle) -> f64 {
  *(a / RAD)
}
pub fn met(a: Wavelength) -> f64 {
  *(a / M)
}
pub fn freq(a: Frequency) -> f64 {
  *(a / (RAD / S))
}
pub fn wvec(k: Wavevector) -> na::Vector3<f64> {
  *(k / Wavenumber::new(1.))
}

pub fn beam_json(b: &Beam, cs: &CrystalSetup) -> Value {
  let d = b.direction().into_inner();
  let w = b.frequency();
  let n_ri = *b.refractive_index(w, cs);
  let n_ia = *cs.index_along(frequency_to_vacuum_wavelength(w), b.direction(), b.polarization());
  let k = wvec(b.wavevector(w, cs));
  json!({
    "phi": fx(rad(b.phi())), "theta": fx(rad(b.theta_internal())), "omega": fx(freq(w)),
    "lambda": fx(met(b.vacuum_wavelength())), "dir": v3(&d), "pol": format!("{:?}", b.polarization()),
    "wx": fx(met(b.waist().x)), "wy": fx(met(b.waist().y)),
    "n": fx(n_ri), "n_index_along": fx(n_ia), "k": v3(&k),
  })
}

pub fn pp_json(pp: &PeriodicPoling) -> Value {
  match pp {
    PeriodicPoling::Off => json!({"on": false, "k_eff": fx(*(pp.k_eff() / (RAD / M))), "signed_period": fx(met(pp.signed_period()))}),
    PeriodicPoling::On { period, sign, .. } => json!({
      "on": true, "period": fx(met(*period)), "positive": *sign == Sign::POSITIVE,
      "k_eff": fx(*(pp.k_eff() / (RAD / M))), "signed_period": fx(met(pp.signed_period())),
    }),
  }
}

pub struct Setup {
  pub cs: CrystalSetup,
  pub signal: SignalBeam,
  pub pump: PumpBeam,
  pub pp: PeriodicPoling,
  pub input: Value,
}

/// window of a crystal (metres); expression crystals have none
pub fn window(meta: &CrystalMeta) -> (f64, f64) {
  match meta.transmission_range {
    Some(r) => (r.0, r.1),
    None => (400e-9, 2000e-9),
  }
}

/// signal beam constructed at (phi0, theta0) and re-aimed to (phi_s, theta_s) through the public setters named by `history`
pub fn build_signal(pm: PMType, phi0: f64, theta0: f64, phi_s: f64, theta_s: f64, history: &str, ls: f64, waist_s: f64) -> SignalBeam {
  let mut b = Beam::new(pm.signal_polarization(), phi0 * RAD, theta0 * RAD, ls * M, waist_s * M);
  match history {
    "theta_then_phi" => {
      b.set_theta_internal(theta_s * RAD);
      b.set_phi(phi_s * RAD);
    }
    "phi_then_theta" => {
      b.set_phi(phi_s * RAD);
      b.set_theta_internal(theta_s * RAD);
    }
    "angles" => {
      b.set_angles(phi_s * RAD, theta_s * RAD);
    }
    "phi_only" => {
      b.set_phi(phi_s * RAD);
    }
    _ => {}
  }
  b.into()
}

/// one random setup inside the property's box.  `class` selects the signal polar angle family.
pub fn gen_setup(rng: &mut Rng, i: usize, theta_lo: f64, theta_hi: f64, allow_cp: bool) -> Setup {
  let metas = CrystalType::get_all_meta();
  let meta = &metas[i % metas.len()];
  let crystal = CrystalType::from_string(meta.id).unwrap();
  let pm = PMS[(i / metas.len()) % 5];
  let (lo, hi) = window(meta);
  // pump in the lower half of the window, signal above it; in 3 of 4 cases the idler wavelength is in-window too
  let lp = rng.log_range(lo, hi / 2.0);
  let ls = if rng.below(4) != 0 {
    let lmin = (lp * hi / (hi - lp)).max(1.02 * lp).min(hi);
    rng.range(lmin, hi)
  } else {
    rng.range(lp * 1.0001, hi)
  };
  let c_theta = match rng.below(10) {
    0 => 0.0,
    1 => std::f64::consts::FRAC_PI_2,
    _ => rng.range(0.0, std::f64::consts::FRAC_PI_2),
  };
  let c_phi = if rng.below(5) == 0 { 0.0 } else { rng.range(0.0, 2.0 * std::f64::consts::PI) };
  let t_c = if rng.coin() { 20.0 } else { rng.range(0.0, 100.0) };
  let length = rng.range(1e-3, 30e-3);
  let cp = allow_cp && rng.below(10) == 0;
  let phi_s = match rng.below(6) {
    0 => 0.0,
    _ => rng.range(0.0, 2.0 * std::f64::consts::PI),
  };
  let theta_s = match rng.below(20) {
    0 | 1 | 2 => 0.0,
    3 => rng.log_range(1e-7, 1e-3) * if theta_lo < 0.0 && rng.coin() { -1.0 } else { 1.0 },
    _ => rng.range(theta_lo, theta_hi),
  };
  let waist_s = rng.range(20e-6, 200e-6);
  let waist_p = rng.range(20e-6, 400e-6);
  let pp = match rng.below(5) {
    0 | 1 => PeriodicPoling::Off,
    _ => {
      let period = rng.log_range(2e-6, 2e-3);
      PeriodicPoling::On {
        period: period * M,
        sign: if rng.coin() { Sign::POSITIVE } else { Sign::NEGATIVE },
        apodization: Apodization::Off,
      }
    }
  };
  let cs = CrystalSetup {
    crystal,
    pm_type: pm,
    theta: c_theta * RAD,
    phi: c_phi * RAD,
    length: length * M,
    temperature: from_celsius_to_kelvin(t_c),
    counter_propagation: cp,
  };
  // one case in three reaches its final aim (phi_s, theta_s) through the setters, starting from other angles
  let history = match rng.below(12) {
    0 => "theta_then_phi",
    1 => "phi_then_theta",
    2 => "angles",
    3 => "phi_only",
    _ => "none",
  };
  let phi0 = if history == "none" { phi_s } else { rng.range(0.0, 2.0 * std::f64::consts::PI) };
  let theta0 = if history == "none" || history == "phi_only" { theta_s } else { rng.range(theta_lo.min(-0.05), theta_hi) };
  let signal = build_signal(pm, phi0, theta0, phi_s, theta_s, history, ls, waist_s);
  // one pump in three is made from a generic beam that is NOT along z: PumpBeam::from must put it on the axis
  let (pump_phi0, pump_theta0) = if rng.below(3) == 0 { (rng.range(0.0, 6.0), rng.range(-0.3, 0.3)) } else { (0.0, 0.0) };
  let pump: PumpBeam = Beam::new(pm.pump_polarization(), pump_phi0 * RAD, pump_theta0 * RAD, lp * M, waist_p * M).into();
  let input = json!({
    "pump_phi0": fx(pump_phi0), "pump_theta0": fx(pump_theta0),
    "signal_phi0": fx(phi0), "signal_theta0": fx(theta0), "history": history,
    "crystal": meta.id, "pm_type": pm.to_str(), "crystal_theta": fx(c_theta), "crystal_phi": fx(c_phi),
    "temperature_c": fx(t_c), "length": fx(length), "counter_propagation": cp,
    "pump_wavelength": fx(lp), "pump_waist": fx(waist_p),
    "signal_wavelength": fx(ls), "signal_phi": fx(phi_s), "signal_theta": fx(theta_s), "signal_waist": fx(waist_s),
    "window": [fx(lo), fx(hi)],
  });
  Setup { cs, signal, pump, pp, input }
}

fn idler_json(r: &Result<IdlerBeam, SPDCError>, cs: &CrystalSetup) -> Value {
  match r {
    Ok(idler) => json!({"ok": true, "beam": beam_json(idler, cs)}),
    Err(e) => json!({"ok": false, "error": e.0.clone()}),
  }
}

/// rebuild a setup from the bit patterns recorded in an observation's "input" / "pp" (used by --replay)
pub fn setup_from_json(input: &Value, pp: &Value) -> Option<Setup> {
  let g = |k: &str| -> Option<f64> { input.get(k).and_then(|v| v.as_str()).map(|_| f64_of(&input[k])) };
  let crystal = CrystalType::from_string(input.get("crystal")?.as_str()?).ok()?;
  let pm = *PMS.iter().find(|p| p.to_str() == input["pm_type"].as_str().unwrap_or(""))?;
  let cs = CrystalSetup {
    crystal,
    pm_type: pm,
    theta: g("crystal_theta")? * RAD,
    phi: g("crystal_phi")? * RAD,
    length: g("length")? * M,
    temperature: from_celsius_to_kelvin(g("temperature_c")?),
    counter_propagation: input.get("counter_propagation").and_then(|v| v.as_bool()).unwrap_or(false),
  };
  let history = input.get("history").and_then(|v| v.as_str()).unwrap_or("none");
  let signal = build_signal(
    pm, g("signal_phi0").unwrap_or(g("signal_phi")?), g("signal_theta0").unwrap_or(g("signal_theta")?), g("signal_phi")?, g("signal_theta")?, history,
    g("signal_wavelength")?, g("signal_waist")?,
  );
  let pump: PumpBeam = Beam::new(
    pm.pump_polarization(), g("pump_phi0").unwrap_or(0.0) * RAD, g("pump_theta0").unwrap_or(0.0) * RAD, g("pump_wavelength")? * M, g("pump_waist")? * M,
  ).into();
  let ppv = if pp.get("on").and_then(|v| v.as_bool()).unwrap_or(false) {
    PeriodicPoling::On {
      period: f64_of(&pp["period"]) * M,
      sign: if pp["positive"].as_bool().unwrap_or(true) { Sign::POSITIVE } else { Sign::NEGATIVE },
      apodization: Apodization::Off,
    }
  } else {
    PeriodicPoling::Off
  };
  Some(Setup { cs, signal, pump, pp: ppv, input: input.clone() })
}

/// run the implementation on one setup and print the observation
pub fn observe(i: usize, s: Setup, d1: f64, d2: f64) {
    let Setup { cs, signal, pump, pp, input } = s;
    let res = guarded(|| {
      let idler_r = IdlerBeam::try_new_optimum(&signal, &pump, &cs, &pp);
      let direct: SignalBeam = Beam::new(
        signal.polarization(), f64_of(&input["signal_phi"]) * RAD, f64_of(&input["signal_theta"]) * RAD,
        f64_of(&input["signal_wavelength"]) * M, signal.waist(),
      ).into();
      let mut o = json!({
        "kind": "case", "i": i, "input": input, "signal": beam_json(&signal, &cs), "pump": beam_json(&pump, &cs),
        "same_as_direct": direct == signal,
        "pp": pp_json(&pp), "idler": idler_json(&idler_r, &cs), "d": [fx(d1), fx(d2)],
      });
      if let Ok(idler) = &idler_r {
        let ws = signal.frequency();
        let wi = idler.frequency();
        let wp = pump.frequency();
        let dk = wvec(delta_k(ws, wi, &signal, idler, &pump, &cs, &pp));
        // an off-centre frequency pair, with the indices at those frequencies obtained directly
        let ws2 = ws * (1.0 + d1);
        let wi2 = wi * (1.0 + d2);
        let dk2 = wvec(delta_k(ws2, wi2, &signal, idler, &pump, &cs, &pp));
        let ns2 = *cs.index_along(frequency_to_vacuum_wavelength(ws2), signal.direction(), signal.polarization());
        let ni2 = *cs.index_along(frequency_to_vacuum_wavelength(wi2), idler.direction(), idler.polarization());
        // the same through the SPDC object
        let spdc = SPDC::new(
          cs.clone(), signal.clone(), idler.clone(), pump.clone(), 5e-9 * M, 1e-3 * W, 1e-2, pp.clone(),
          0. * M, 0. * M, 1e-12 * M / V,
        );
        let dk_obj = wvec(spdc.delta_k(ws, wi));
        let oi = spdc.optimum_idler();
        let same_obj = match &oi {
          Ok(b) => b == idler,
          Err(_) => false,
        };
        let mut spdc2 = spdc.clone();
        // assign_optimum_idler keeps the waist of the idler already present; give it a different one to see that
        spdc2.idler.set_waist(BeamWaist::new(33e-6 * M));
        let assigned = spdc2.assign_optimum_idler().is_ok();
        let ai = &spdc2.idler;
        o["dk"] = json!({
          "center": v3(&dk), "omega_p": fx(freq(wp)),
          "off": {"omega_s": fx(freq(ws2)), "omega_i": fx(freq(wi2)), "ns": fx(ns2), "ni": fx(ni2), "dk": v3(&dk2)},
          "spdc_obj": v3(&dk_obj), "spdc_optimum_idler_same": same_obj,
          "assign_ok": assigned, "assigned_theta": fx(rad(ai.theta_internal())), "assigned_phi": fx(rad(ai.phi())),
          "assigned_lambda": fx(met(ai.vacuum_wavelength())), "assigned_pol": format!("{:?}", ai.polarization()),
          "assigned_wx": fx(met(ai.waist().x)),
        });
      }
      // the JSON configuration route with "idler": "auto": the idler it installs must be try_new_optimum of its own beams
      if i % 3 == 0 {
        let inp = &o["input"];
        let mut cfg = json!({
          "crystal": {"kind": inp["crystal"], "pm_type": inp["pm_type"], "phi_deg": f64_of(&inp["crystal_phi"]).to_degrees(),
                      "theta_deg": f64_of(&inp["crystal_theta"]).to_degrees(), "length_um": f64_of(&inp["length"]) * 1e6,
                      "temperature_c": f64_of(&inp["temperature_c"]), "counter_propagation": inp["counter_propagation"]},
          "pump": {"wavelength_nm": f64_of(&inp["pump_wavelength"]) * 1e9, "waist_um": f64_of(&inp["pump_waist"]) * 1e6, "bandwidth_nm": 0.5, "average_power_mw": 1.0},
          "signal": {"wavelength_nm": f64_of(&inp["signal_wavelength"]) * 1e9, "phi_deg": f64_of(&inp["signal_phi"]).to_degrees(),
                     "theta_deg": f64_of(&inp["signal_theta"]).to_degrees(), "waist_um": f64_of(&inp["signal_waist"]) * 1e6},
          "idler": "auto", "deff_pm_per_volt": 1.0,
        });
        if let PeriodicPoling::On { period, .. } = &pp {
          cfg["periodic_poling"] = json!({"poling_period_um": met(*period) * 1e6});
        }
        o["config"] = match SPDC::from_json(cfg.to_string()) {
          Ok(spdc) => {
            let want = IdlerBeam::try_new_optimum(&spdc.signal, &spdc.pump, &spdc.crystal_setup, &spdc.pp);
            json!({"class": "ok", "idler_is_try_new_optimum": match &want { Ok(w) => *w == spdc.idler, Err(_) => false },
                   "idler_wx": fx(met(spdc.idler.waist().x)), "signal_wx": fx(met(spdc.signal.waist().x)),
                   "idler_phi": fx(rad(spdc.idler.phi())), "signal_phi": fx(rad(spdc.signal.phi())),
                   "idler_lambda": fx(met(spdc.idler.vacuum_wavelength())), "signal_lambda": fx(met(spdc.signal.vacuum_wavelength())),
                   "pump_lambda": fx(met(spdc.pump.vacuum_wavelength())), "idler_pol": format!("{:?}", spdc.idler.polarization())})
          }
          Err(e) => json!({"class": "err", "error": e.to_string()}),
        };
      }
      o
    });
    match res {
      Ok(o) => emit(o),
      Err(msg) => emit(json!({"kind": "panic", "i": i, "message": msg})),
    }
}

pub fn run(args: &[String]) {
  if args.first().map(|s| s.as_str()) == Some("replay") {
    // args[1]: file with one JSON object {"input": .., "pp": .., "d": [..]} (an earlier observation)
    let txt = std::fs::read_to_string(&args[1]).unwrap_or_default();
    let v: Value = serde_json::from_str(&txt).unwrap_or(Value::Null);
    match setup_from_json(&v["input"], &v["pp"]) {
      Some(s) => {
        let d1 = v["d"].get(0).map(f64_of).unwrap_or(0.01);
        let d2 = v["d"].get(1).map(f64_of).unwrap_or(-0.01);
        observe(0, s, d1, d2)
      }
      None => emit(json!({"kind": "bad_replay"})),
    }
    return;
  }
  let seed = arg_u64(args, 0, 1);
  let n = arg_u64(args, 1, 110) as usize;
  // args[2]: 0 = signal polar angle in [-0.3, 0.3] (default), 1 = only [0, 0.3]
  let nonneg = arg_u64(args, 2, 0) == 1;
  let mut rng = Rng::new(seed);
  for i in 0..n {
    let s = gen_setup(&mut rng, i, if nonneg { 0.0 } else { -0.3 }, 0.3, true);
    let d1 = rng.range(-0.02, 0.02);
    let d2 = rng.range(-0.02, 0.02);
    observe(i, s, d1, d2);
  }
  // error rule: signal wavelength not longer than the pump wavelength
  for j in 0..(n / 4).max(8) {
    let s = gen_setup(&mut rng, j, -0.3, 0.3, false);
    let Setup { cs, signal, pump, pp, input } = s;
    let lp = met(pump.vacuum_wavelength());
    let ls_in = match j % 4 {
      0 => f64_of(&input["pump_wavelength"]),
      1 => f64_of(&input["pump_wavelength"]) * (1.0 - 1e-12),
      2 => f64_of(&input["pump_wavelength"]) * rng.range(0.3, 0.999),
      _ => f64_of(&input["pump_wavelength"]) * (1.0 + 1e-9),
    };
    let mut sig2 = signal.clone();
    sig2.set_vacuum_wavelength(ls_in * M);
    let ls = met(sig2.vacuum_wavelength());
    let r = guarded(|| IdlerBeam::try_new_optimum(&sig2, &pump, &cs, &pp));
    let (class, detail) = match &r {
      Ok(Ok(b)) => ("ok", json!({"lambda": fx(met(b.vacuum_wavelength()))})),
      Ok(Err(e)) => ("err", json!({"error": e.0.clone()})),
      Err(m) => ("panic", json!({"message": m})),
    };
    emit(json!({"kind": "errcase", "j": j, "input": input, "ls_requested": fx(ls_in), "ls": fx(ls), "lp": fx(lp),
                "class": class, "detail": detail}));
  }
}

pub fn f64_of(v: &Value) -> f64 {
  let s = v.as_str().unwrap();
  f64::from_bits(u64::from_str_radix(&s[2..], 16).unwrap())
}
