//! Shared by c16 / c17 / c20: panic-location capture, structured + malformed configuration generator, exact dumps of
//! configurations and setups, and the *shadow construction*: the configuration -> setup conversion replayed step by step
//! through the public API (the partial setups are the ones the Coq model Model/Config.v says the code has at each point),
//! so that every oracle of the model gets its answer from the implementation without any hook.
#![allow(dead_code)]
use crate::common::*;
use serde_json::{json, Map, Value};
use spdcalc::beam::*;
use spdcalc::dim::f64prefixes::*;
use spdcalc::dim::ucum::{DEG, M, MILLIW, RAD, V};
use spdcalc::*;
use std::panic::AssertUnwindSafe;
use std::sync::Mutex;

static LAST_LOC: Mutex<String> = Mutex::new(String::new());

pub fn install_hook() {
  std::panic::set_hook(Box::new(|info| {
    let loc = info
      .location()
      .map(|l| {
        // path relative to the crate root wherever the crate lives (/repo, or a scratch copy): cut at the last "src/"
        let f = l.file();
        let rel = match f.rfind("/src/") {
          Some(i) if !f.contains("/.cargo/") && !f.contains("/rustc/") => &f[i + 1..],
          _ => f,
        };
        format!("{}:{}", rel, l.line())
      })
      .unwrap_or_default();
    if let Ok(mut g) = LAST_LOC.lock() {
      *g = loc;
    }
  }));
}

/// run, classify a panic: Err((first line of the message, file:line))
pub fn guarded_loc<T, F: FnOnce() -> T>(f: F) -> Result<T, (String, String)> {
  match std::panic::catch_unwind(AssertUnwindSafe(f)) {
    Ok(v) => Ok(v),
    Err(e) => {
      let msg = if let Some(s) = e.downcast_ref::<&str>() {
        s.to_string()
      } else if let Some(s) = e.downcast_ref::<String>() {
        s.clone()
      } else {
        "panic".to_string()
      };
      let first = msg.lines().next().unwrap_or("").chars().take(220).collect::<String>();
      let loc = LAST_LOC.lock().map(|g| g.clone()).unwrap_or_default();
      Err((first, loc))
    }
  }
}

pub fn fin(x: f64) -> bool {
  x.is_finite()
}

// ------------------------------------------------------------------------------------------------ dumps
pub fn pol_s(p: PolarizationType) -> &'static str {
  match p {
    PolarizationType::Ordinary => "Ordinary",
    PolarizationType::Extraordinary => "Extraordinary",
  }
}

pub fn beam_json(b: &Beam) -> Value {
  json!({
    "pol": pol_s(b.polarization()), "phi": fx(*(b.phi() / RAD)), "theta": fx(*(b.theta_internal() / RAD)),
    "wavelength": fx(*(b.vacuum_wavelength() / M)), "frequency": fx(b.frequency().value_unsafe),
    "waist": fx(*(b.waist().x / M)), "waist_y": fx(*(b.waist().y / M)),
  })
}

pub fn crystal_json(c: &CrystalSetup) -> Value {
  json!({
    "kind": c.crystal.to_string(), "pm": c.pm_type.to_string(), "phi": fx(*(c.phi / RAD)), "theta": fx(*(c.theta / RAD)),
    "length": fx(*(c.length / M)), "temperature": fx(c.temperature.value_unsafe), "counter": c.counter_propagation,
  })
}

pub fn apod_json(a: &Apodization) -> Value {
  match a {
    Apodization::Off => json!({"kind": "Off", "p": []}),
    Apodization::Gaussian { fwhm } => json!({"kind": "Gaussian", "p": [fx(*(*fwhm / M))]}),
    Apodization::Bartlett(x) => json!({"kind": "Bartlett", "p": [fx(*x)]}),
    Apodization::Blackman(x) => json!({"kind": "Blackman", "p": [fx(*x)]}),
    Apodization::Connes(x) => json!({"kind": "Connes", "p": [fx(*x)]}),
    Apodization::Cosine(x) => json!({"kind": "Cosine", "p": [fx(*x)]}),
    Apodization::Hamming(x) => json!({"kind": "Hamming", "p": [fx(*x)]}),
    Apodization::Welch(x) => json!({"kind": "Welch", "p": [fx(*x)]}),
    Apodization::Interpolate(v) => json!({"kind": "Interpolate", "p": fxs(v)}),
  }
}

pub fn pp_json(p: &PeriodicPoling) -> Value {
  match p {
    PeriodicPoling::Off => json!({"on": false}),
    PeriodicPoling::On { period, sign, apodization } => json!({
      "on": true, "period": fx(*(*period / M)),
      "sign": if *sign == Sign::POSITIVE { "Pos" } else { "Neg" }, "apod": apod_json(apodization),
    }),
  }
}

pub fn spdc_json(s: &SPDC) -> Value {
  json!({
    "crystal": crystal_json(&s.crystal_setup), "signal": beam_json(&s.signal), "idler": beam_json(&s.idler),
    "pump": beam_json(&s.pump), "bandwidth": fx(*(s.pump_bandwidth / M)), "power": fx(s.pump_average_power.value_unsafe),
    "threshold": fx(s.pump_spectrum_threshold), "pp": pp_json(&s.pp), "zs": fx(*(s.signal_waist_position / M)),
    "zi": fx(*(s.idler_waist_position / M)), "deff": fx(s.deff.value_unsafe),
  })
}

pub fn spdc_all_finite(s: &SPDC) -> Vec<&'static str> {
  let mut bad = vec![];
  let mut chk = |name: &'static str, x: f64| {
    if !x.is_finite() {
      bad.push(name)
    }
  };
  chk("crystal.theta", *(s.crystal_setup.theta / RAD));
  chk("crystal.phi", *(s.crystal_setup.phi / RAD));
  chk("crystal.length", *(s.crystal_setup.length / M));
  chk("crystal.temperature", s.crystal_setup.temperature.value_unsafe);
  for (n, b) in [("signal", &*s.signal), ("idler", &*s.idler), ("pump", &*s.pump)] {
    let names: [&'static str; 4] = match n {
      "signal" => ["signal.theta", "signal.phi", "signal.wavelength", "signal.waist"],
      "idler" => ["idler.theta", "idler.phi", "idler.wavelength", "idler.waist"],
      _ => ["pump.theta", "pump.phi", "pump.wavelength", "pump.waist"],
    };
    chk(names[0], *(b.theta_internal() / RAD));
    chk(names[1], *(b.phi() / RAD));
    chk(names[2], *(b.vacuum_wavelength() / M));
    chk(names[3], *(b.waist().x / M));
  }
  chk("zs", *(s.signal_waist_position / M));
  chk("zi", *(s.idler_waist_position / M));
  chk("bandwidth", *(s.pump_bandwidth / M));
  chk("deff", s.deff.value_unsafe);
  if let PeriodicPoling::On { period, .. } = &s.pp {
    chk("pp.period", *(*period / M));
  }
  bad
}

fn auto_num(a: &AutoCalcParam<f64>) -> Value {
  match a {
    AutoCalcParam::Auto(_) => json!("auto"),
    AutoCalcParam::Param(x) => fx(*x),
  }
}
fn opt_num(a: &Option<f64>) -> Value {
  match a {
    None => Value::Null,
    Some(x) => fx(*x),
  }
}

pub fn apod_cfg_json(a: &ApodizationConfig) -> Value {
  match a {
    ApodizationConfig::Off => json!({"kind": "Off", "p": []}),
    ApodizationConfig::Gaussian { fwhm_um } => json!({"kind": "Gaussian", "p": [fx(*fwhm_um)]}),
    ApodizationConfig::Bartlett(x) => json!({"kind": "Bartlett", "p": [fx(*x)]}),
    ApodizationConfig::Blackman(x) => json!({"kind": "Blackman", "p": [fx(*x)]}),
    ApodizationConfig::Connes(x) => json!({"kind": "Connes", "p": [fx(*x)]}),
    ApodizationConfig::Cosine(x) => json!({"kind": "Cosine", "p": [fx(*x)]}),
    ApodizationConfig::Hamming(x) => json!({"kind": "Hamming", "p": [fx(*x)]}),
    ApodizationConfig::Welch(x) => json!({"kind": "Welch", "p": [fx(*x)]}),
    ApodizationConfig::Interpolate(v) => json!({"kind": "Interpolate", "p": fxs(v)}),
  }
}

/// exact dump of a parsed configuration (every number as a bit pattern)
pub fn cfg_json(c: &SPDCConfig) -> Value {
  let bc = |wl: f64, phi: f64, th: &Option<f64>, the: &Option<f64>, w: f64, wp: &AutoCalcParam<f64>| {
    json!({"wavelength_nm": fx(wl), "phi_deg": fx(phi), "theta_deg": opt_num(th), "theta_external_deg": opt_num(the),
           "waist_um": fx(w), "waist_position_um": auto_num(wp)})
  };
  json!({
    "crystal": {"kind": c.crystal.kind.to_string(), "pm": c.crystal.pm_type.to_string(), "phi_deg": fx(c.crystal.phi_deg),
                "theta_deg": auto_num(&c.crystal.theta_deg), "length_um": fx(c.crystal.length_um),
                "temperature_c": fx(c.crystal.temperature_c), "counter": c.crystal.counter_propagation},
    "pump": {"wavelength_nm": fx(c.pump.wavelength_nm), "waist_um": fx(c.pump.waist_um), "bandwidth_nm": fx(c.pump.bandwidth_nm),
             "power_mw": fx(c.pump.average_power_mw), "threshold": opt_num(&c.pump.spectrum_threshold)},
    "signal": bc(c.signal.wavelength_nm, c.signal.phi_deg, &c.signal.theta_deg, &c.signal.theta_external_deg,
                 c.signal.waist_um, &c.signal.waist_position_um),
    "idler": match &c.idler {
      AutoCalcParam::Auto(_) => json!("auto"),
      AutoCalcParam::Param(i) => bc(i.wavelength_nm, i.phi_deg, &i.theta_deg, &i.theta_external_deg, i.waist_um, &i.waist_position_um),
    },
    "pp": match &c.periodic_poling {
      PeriodicPolingConfig::Off => json!("off"),
      PeriodicPolingConfig::Config { poling_period_um, apodization } =>
        json!({"period_um": auto_num(poling_period_um), "apod": apod_cfg_json(apodization)}),
    },
    "deff": fx(c.deff_pm_per_volt),
  })
}

pub fn units_json() -> Value {
  let cr: Vec<Value> = crystals().iter().map(|c| json!({"id": c.id, "lo": fx(c.lo), "hi": fx(c.hi)})).collect();
  json!({"milliw": fx(MILLIW.value_unsafe), "volt": fx(V.value_unsafe), "deg": fx(DEG.value_unsafe),
         "min_positive": fx(f64::MIN_POSITIVE), "crystals": cr})
}

// ------------------------------------------------------------------------------------------------ outcome of a fallible call
pub fn outcome<T, F: FnOnce() -> Result<T, SPDCError>>(f: F) -> (String, String, String, Option<T>) {
  match guarded_loc(f) {
    Ok(Ok(v)) => ("ok".into(), String::new(), String::new(), Some(v)),
    Ok(Err(e)) => ("err".into(), e.0.clone(), String::new(), None),
    Err((m, l)) => ("panic".into(), m, l, None),
  }
}
pub fn outcome_plain<T, F: FnOnce() -> T>(f: F) -> (String, String, String, Option<T>) {
  match guarded_loc(f) {
    Ok(v) => ("ok".into(), String::new(), String::new(), Some(v)),
    Err((m, l)) => ("panic".into(), m, l, None),
  }
}

fn step(name: &str, o: &(String, String, String), extra: Value) -> Value {
  let mut m = Map::new();
  m.insert("step".into(), json!(name));
  m.insert("class".into(), json!(o.0));
  m.insert("msg".into(), json!(o.1));
  m.insert("loc".into(), json!(o.2));
  if let Value::Object(e) = extra {
    for (k, v) in e {
      m.insert(k, v);
    }
  }
  Value::Object(m)
}

pub fn fx_or_null(x: f64) -> Value {
  if x.is_finite() {
    fx(x)
  } else {
    Value::Null
  }
}

/// z component of delta k at the optimum idler, poling off (the body of PeriodicPoling::compute_sign, through public API)
pub fn dkz0(signal: &SignalBeam, pump: &PumpBeam, cs: &CrystalSetup) -> Option<f64> {
  let r = guarded_loc(|| {
    let idler = IdlerBeam::try_new_optimum(signal, pump, cs, PeriodicPoling::Off).ok()?;
    let dk = delta_k(signal.frequency(), idler.frequency(), signal, &idler, pump, cs, PeriodicPoling::Off);
    Some((*(dk * M / RAD)).z)
  });
  match r {
    Ok(Some(z)) => Some(z),
    _ => None,
  }
}

/// the simplex search of optimum_poling_period replayed through the public nelder_mead_1d / delta_k / try_new_optimum,
/// with the table of its cost evaluations (x, cost) in evaluation order
pub fn nm_period_replay_traced(signal: &SignalBeam, pump: &PumpBeam, cs: &CrystalSetup, z: f64) -> Option<(f64, Vec<(f64, f64)>, f64, f64)> {
  let table: std::cell::RefCell<Vec<(f64, f64)>> = std::cell::RefCell::new(Vec::new());
  let guess = (std::f64::consts::TAU / z).abs();
  let r = guarded_loc(|| {
    let sign: Sign = z.into();
    let pm = |period: f64| {
      let pp = PeriodicPoling::On { period: period * M, sign, apodization: Apodization::Off };
      let idler = IdlerBeam::try_new_optimum(signal, pump, cs, &pp).unwrap();
      let dk = delta_k(signal.frequency(), idler.frequency(), signal, &idler, pump, cs, &pp);
      let c = (*(dk * M / RAD)).z.abs();
      table.borrow_mut().push((period, c));
      c
    };
    spdcalc::math::nelder_mead_1d(pm, (guess, guess + 1e-6), 1000, f64::MIN_POSITIVE, *(cs.length / M), 1e-12)
  });
  r.ok().map(|p| (p, table.into_inner(), guess, guess + 1e-6))
}

/// does the cost function of the automatic-period search evaluate to NaN at one of the candidate periods of the replayed
/// search (public API only)?  The independent observation of the cause "NaN cost" of a panic in that search.
pub fn nm_period_cost_nan(signal: &SignalBeam, pump: &PumpBeam, cs: &CrystalSetup, z: f64) -> bool {
  let seen_nan = std::cell::Cell::new(false);
  let guess = (std::f64::consts::TAU / z).abs();
  let _ = guarded_loc(|| {
    let sign: Sign = z.into();
    let pm = |period: f64| {
      let pp = PeriodicPoling::On { period: period * M, sign, apodization: Apodization::Off };
      let c = match IdlerBeam::try_new_optimum(signal, pump, cs, &pp) {
        Ok(idler) => (*(delta_k(signal.frequency(), idler.frequency(), signal, &idler, pump, cs, &pp) * M / RAD)).z.abs(),
        Err(_) => f64::NAN,
      };
      if c.is_nan() {
        seen_nan.set(true);
      }
      c
    };
    spdcalc::math::nelder_mead_1d(pm, (guess, guess + 1e-6), 1000, f64::MIN_POSITIVE, *(cs.length / M), 1e-12)
  });
  seen_nan.get()
}

pub fn nm_period_replay(signal: &SignalBeam, pump: &PumpBeam, cs: &CrystalSetup, z: f64) -> Option<f64> {
  nm_period_replay_traced(signal, pump, cs, z).map(|r| r.0)
}

/// argument digests of the public calls behind the recorded oracle answers (Model/ConfigCheck.v checks them against the
/// arguments the MODEL passes)
pub fn beam_args(b: &Beam) -> Vec<f64> {
  vec![*(b.vacuum_wavelength() / M), *(b.theta_internal() / RAD), *(b.phi() / RAD)]
}
pub fn signed_period_of(pp: &PeriodicPoling) -> f64 {
  match pp {
    PeriodicPoling::Off => 0.,
    PeriodicPoling::On { period, sign, .. } => if *sign == Sign::POSITIVE { *(*period / M) } else { -*(*period / M) },
  }
}
pub fn args_snell_ext(signal: &Beam, cs: &CrystalSetup) -> Value {
  let mut v = beam_args(signal);
  v.push(*(cs.theta / RAD));
  v.push(*(cs.phi / RAD));
  fxs_or_null(&v)
}
pub fn args_dkz0(signal: &Beam, pump: &Beam, cs: &CrystalSetup) -> Value {
  let mut v = beam_args(signal);
  v.push(*(pump.vacuum_wavelength() / M));
  v.push(*(cs.theta / RAD));
  v.push(*(cs.phi / RAD));
  fxs_or_null(&v)
}
pub fn args_nm_theta(ext: f64, signal: &Beam, pump: &Beam, cs: &CrystalSetup) -> Value {
  fxs_or_null(&[ext, *(signal.vacuum_wavelength() / M), *(signal.phi() / RAD), *(pump.vacuum_wavelength() / M), *(cs.phi / RAD)])
}
pub fn args_idler_theta(signal: &Beam, pump: &Beam, cs: &CrystalSetup, pp: &PeriodicPoling) -> Value {
  let mut v = beam_args(signal);
  v.push(*(pump.vacuum_wavelength() / M));
  v.push(*(cs.theta / RAD));
  v.push(*(cs.phi / RAD));
  v.push(signed_period_of(pp));
  fxs_or_null(&v)
}
pub fn fxs_or_null(v: &[f64]) -> Value {
  Value::Array(v.iter().map(|x| fx_or_null(*x)).collect())
}

/// which repairs the code under test contains (read off the source by the generator, Gen/ConfigSites.v, and handed to the harness
/// in the environment): the shadow construction has to make the same calls in the same order as the code
pub fn repair_flag(name: &str) -> bool {
  std::env::var("CFG_REPAIR_FLAGS").map(|v| v.split(',').any(|f| f == name)).unwrap_or(false)
}

/// The shadow construction.  Returns {"steps": [...], "oracles": {...}, "shadow": setup or null}
pub fn shadow(cfg: &SPDCConfig) -> Value {
  let mut steps: Vec<Value> = vec![];
  let mut snell_inv: Vec<Value> = vec![];
  let mut waist_pos: Vec<Value> = vec![];
  let mut orc = Map::new();
  let cs0: CrystalSetup = cfg.crystal.clone().into();
  let pump = cfg.pump.clone().as_beam(&cs0);
  let done = |steps: Vec<Value>, orc: Map<String, Value>, snell_inv: Vec<Value>, waist_pos: Vec<Value>, sh: Value| {
    let mut orc = orc;
    orc.insert("snell_inv".into(), Value::Array(snell_inv));
    orc.insert("waist_pos".into(), Value::Array(waist_pos));
    json!({"steps": steps, "oracles": orc, "shadow": sh, "cs0": crystal_json(&cs0)})
  };
  // does the crystal's own index function evaluate at all (an expression crystal with an unbound name does not)?
  orc.insert("index_panics".into(), json!(guarded_loc(|| cs0.crystal.get_indices(cfg.signal.wavelength_nm * NANO * M, cs0.temperature)).is_err()));
  // -- signal
  let so = outcome(|| cfg.signal.clone().try_as_beam(&cs0));
  steps.push(step("signal", &(so.0.clone(), so.1.clone(), so.2.clone()), json!({})));
  if let (None, Some(e)) = (cfg.signal.theta_deg, cfg.signal.theta_external_deg) {
    snell_inv.push(json!({"wavelength": fx(cfg.signal.wavelength_nm * NANO), "ext": fx(e * DEG.value_unsafe),
      "r": match &so.3 { Some(b) => fx_or_null(*(b.theta_internal() / RAD)), None => Value::Null }}));
  }
  let signal = match so.3 {
    Some(s) => s,
    None => return done(steps, orc, snell_inv, waist_pos, Value::Null),
  };
  let ls = signal.vacuum_wavelength();
  let lp = pump.vacuum_wavelength();
  orc.insert("ls_le_lp".into(), json!(ls <= lp));
  // oracles that depend on (signal, pump, cs0)
  let te = guarded_loc(|| *(signal.theta_external(&cs0) / RAD));
  let te_finite = matches!(&te, Ok(x) if x.is_finite());
  let mut args = Map::new();
  args.insert("snell_ext".into(), args_snell_ext(&signal, &cs0));
  args.insert("dkz0".into(), args_dkz0(&signal, &pump, &cs0));
  if let Ok(x) = &te {
    args.insert("nm_theta".into(), args_nm_theta(*x, &signal, &pump, &cs0));
  }
  orc.insert("args".into(), Value::Object(args.clone()));
  orc.insert("snell_ext".into(), match te { Ok(x) => fx_or_null(x), Err(_) => Value::Null });
  // the argument of that asin, n sin(theta_s), through the public index: the composed model's definedness guard is |.| <= 1
  let sa = guarded_loc(|| *signal.refractive_index(signal.frequency(), &cs0) * (*(signal.theta_internal() / RAD)).sin());
  orc.insert("snell_arg".into(), match sa { Ok(x) => fx_or_null(x), Err(_) => Value::Null });
  let z = dkz0(&signal, &pump, &cs0);
  orc.insert("dkz0".into(), match z { Some(z) => fx_or_null(z), None => Value::Null });
  // -- poling
  let mut pp = PeriodicPoling::Off;
  if let PeriodicPolingConfig::Config { poling_period_um, apodization } = &cfg.periodic_poling {
    match poling_period_um {
      AutoCalcParam::Auto(_) => {
        let o = outcome(|| optimum_poling_period(&signal, &pump, &cs0));
        let val = match &o.3 { Some(p) => fx(*(*p / M)), None => Value::Null };
        let mut nm = Value::Null;
        if let Some(z) = z {
          if z.is_finite() && z != 0. && !(ls <= lp) {
            if let Some((p, table, g0, g1)) = nm_period_replay_traced(&signal, &pump, &cs0, z) {
              nm = fx_or_null(p);
              // (NaN costs are recorded too: the solver treats them as +infinity since /repo d569966, and so does Model/NM1d.v)
              if table.len() <= 4000 && table.iter().all(|(x, _)| x.is_finite()) {
                orc.insert("nm_period_trace".into(), json!({"g0": fx(g0), "g1": fx(g1), "min": fx(f64::MIN_POSITIVE), "max": fx(*(cs0.length / M)),
                  "tol": fx(1e-12), "max_iter": 1000, "result": fx(p), "table": table.iter().map(|(x, c)| json!([fx(*x), fx(*c)])).collect::<Vec<_>>()}));
              }
            }
          }
        }
        if nm.is_null() {
          if let Some(z) = z {
            if z.is_finite() && z != 0. && !(ls <= lp) {
              orc.insert("nm_period_cost_nan".into(), json!(nm_period_cost_nan(&signal, &pump, &cs0, z)));
            }
          }
        }
        orc.insert("nm_period".into(), nm);
        steps.push(step("optimum_poling_period", &(o.0.clone(), o.1.clone(), o.2.clone()), json!({"value": val})));
        match o.3 {
          Some(p) => pp = PeriodicPoling::new(p, apodization.clone().into()),
          None => return done(steps, orc, snell_inv, waist_pos, Value::Null),
        }
      }
      AutoCalcParam::Param(period_um) => {
        // does the implementation reject this explicit period before anything else (0 / non-finite)?  Observed through
        // the public one-shot helper, not assumed.
        let pre = outcome(|| cfg.periodic_poling.clone().try_as_periodic_poling(&signal, &pump, &cs0));
        // (the explicit-period arm has no other source of Err: compute_sign returns a Sign, not a Result -- the generator
        // checks the arm's shape -- so the class of the outcome, not the text of the message, decides)
        if pre.0 == "err" {
          steps.push(step("period_check", &(pre.0.clone(), pre.1.clone(), pre.2.clone()), json!({})));
          return done(steps, orc, snell_inv, waist_pos, Value::Null);
        }
        let o = outcome_plain(|| PeriodicPoling::compute_sign(&signal, &pump, &cs0));
        let val = match &o.3 { Some(s) => json!(if *s == Sign::POSITIVE { "Pos" } else { "Neg" }), None => Value::Null };
        steps.push(step("compute_sign", &(o.0.clone(), o.1.clone(), o.2.clone()), json!({"value": val})));
        match o.3 {
          Some(s) => pp = PeriodicPoling::new(s * period_um.abs() * MICRO * M, apodization.clone().into()),
          None => return done(steps, orc, snell_inv, waist_pos, Value::Null),
        }
      }
    }
  }
  // cross-check of the poling value against the public one-shot helper
  let ppo = outcome(|| cfg.periodic_poling.clone().try_as_periodic_poling(&signal, &pump, &cs0));
  orc.insert("pp_helper_agrees".into(), json!(match &ppo.3 { Some(p) => pp_json(p) == pp_json(&pp), None => false }));
  // -- crystal angle
  let mut cs1 = cs0.clone();
  if cfg.crystal.theta_deg.is_auto() {
    if pp == PeriodicPoling::Off {
      if repair_flag("total_reflection") && !te_finite {
        // the code refuses a signal whose external angle does not exist before it searches for the crystal angle
        steps.push(step("external_angle_check", &("err".into(), "total reflection".into(), String::new()), json!({})));
        return done(steps, orc, snell_inv, waist_pos, Value::Null);
      }
      let o = outcome_plain(|| cs0.optimum_theta(&signal, &pump));
      let val = match &o.3 { Some(t) => fx_or_null(*(*t / RAD)), None => Value::Null };
      orc.insert("nm_theta".into(), val.clone());
      steps.push(step("optimum_theta", &(o.0.clone(), o.1.clone(), o.2.clone()), json!({"value": val})));
      match o.3 {
        Some(t) => cs1.theta = t,
        None => return done(steps, orc, snell_inv, waist_pos, Value::Null),
      }
    } else {
      steps.push(step("auto_theta_check", &("err".into(), "auto theta with poling".into(), String::new()), json!({})));
      return done(steps, orc, snell_inv, waist_pos, Value::Null);
    }
  }
  // -- idler
  let idler: IdlerBeam = match &cfg.idler {
    AutoCalcParam::Param(ic) => {
      let o = outcome(|| ic.clone().try_as_beam(&cs1));
      steps.push(step("idler_explicit", &(o.0.clone(), o.1.clone(), o.2.clone()), json!({})));
      if let (None, Some(e)) = (ic.theta_deg, ic.theta_external_deg) {
        snell_inv.push(json!({"wavelength": fx(ic.wavelength_nm * NANO), "ext": fx(e * DEG.value_unsafe),
          "r": match &o.3 { Some(b) => fx_or_null(*(b.theta_internal() / RAD)), None => Value::Null }}));
      }
      match o.3 {
        Some(b) => b,
        None => return done(steps, orc, snell_inv, waist_pos, Value::Null),
      }
    }
    AutoCalcParam::Auto(_) => {
      let o = outcome(|| IdlerBeam::try_new_optimum(&signal, &pump, &cs1, &pp));
      args.insert("idler_theta".into(), args_idler_theta(&signal, &pump, &cs1, &pp));
      orc.insert("args".into(), Value::Object(args.clone()));
      let val = match &o.3 { Some(b) => beam_json(b), None => Value::Null };
      orc.insert("idler_theta".into(), match &o.3 { Some(b) => fx_or_null(*(b.theta_internal() / RAD)), None => Value::Null });
      steps.push(step("idler_optimum", &(o.0.clone(), o.1.clone(), o.2.clone()), json!({"value": val})));
      match o.3 {
        Some(b) => b,
        None => return done(steps, orc, snell_inv, waist_pos, Value::Null),
      }
    }
  };
  // -- waist positions (idler first, as in the code)
  let mut wp = |b: &Beam| -> f64 {
    let z = guarded_loc(|| *(cs1.optimal_waist_position(b.vacuum_wavelength(), b.polarization()) / M)).unwrap_or(f64::NAN);
    waist_pos.push(json!({"wavelength": fx(*(b.vacuum_wavelength() / M)), "pol": pol_s(b.polarization()), "r": fx_or_null(z)}));
    z
  };
  let zi_auto = wp(&idler);
  let zs_auto = wp(&signal);
  let zi = match &cfg.idler {
    AutoCalcParam::Param(ic) => match &ic.waist_position_um {
      AutoCalcParam::Param(f) => -f.abs() * MICRO,
      AutoCalcParam::Auto(_) => zi_auto,
    },
    AutoCalcParam::Auto(_) => zi_auto,
  };
  let zs = match &cfg.signal.waist_position_um {
    AutoCalcParam::Param(f) => -f.abs() * MICRO,
    AutoCalcParam::Auto(_) => zs_auto,
  };
  let sh = json!({"crystal": crystal_json(&cs1), "signal": beam_json(&signal), "idler": beam_json(&idler), "pump": beam_json(&pump),
                  "pp": pp_json(&pp), "zs": fx_or_null(zs), "zi": fx_or_null(zi)});
  done(steps, orc, snell_inv, waist_pos, sh)
}

// ------------------------------------------------------------------------------------------------ generator
pub struct CrystalInfo {
  pub id: &'static str,
  pub lo: f64,
  pub hi: f64,
}

pub fn crystals() -> Vec<CrystalInfo> {
  CrystalType::get_all_meta()
    .iter()
    .filter_map(|m| m.transmission_range.map(|r| CrystalInfo { id: m.id, lo: r.0, hi: r.1 }))
    .collect()
}

pub const PM_FORMS: [[&str; 8]; 5] = [
  ["ooo", "o-oo", "o->oo", "Type0 o oo", "type 0 o->oo", "Type_0_o_oo", "Type0_o_oo", "TYPE0_o_oo"],
  ["eee", "e-ee", "e->ee", "Type0 e ee", "type 0 e->ee", "Type_0_e_ee", "Type0_e_ee", "TYPE0_e_ee"],
  ["eoo", "e-oo", "e->oo", "Type1 e oo", "type 1 e->oo", "Type_1_e_oo", "Type1_e_oo", "TYPE1_e_oo"],
  ["eeo", "e-eo", "e->eo", "Type2 e eo", "type 2 e->eo", "Type_2_e_eo", "Type2_e_eo", "TYPE2_e_eo"],
  ["eoe", "e-oe", "e->oe", "Type2 e oe", "type 2 e->oe", "Type_2_e_oe", "Type2_e_oe", "TYPE2_e_oe"],
];

/// a number with at most 6 significant decimal digits (parsed identically by every correct JSON reader)
pub fn short(x: f64) -> f64 {
  if x == 0. || !x.is_finite() {
    return x;
  }
  let s = format!("{:.5e}", x);
  s.parse().unwrap_or(x)
}

pub struct Gen {
  pub tags: Vec<String>,
}

/// wavelengths (nm) inside the crystal's window with the idler inside too
pub fn pick_wavelengths(rng: &mut Rng, c: &CrystalInfo) -> (f64, f64) {
  let lo = c.lo * 1e9 * 1.02;
  let hi = c.hi * 1e9 * 0.98;
  for _ in 0..200 {
    let lp = rng.log_range(lo, hi / 2.05);
    let ratio = if rng.below(3) == 0 { 2.0 } else { rng.range(1.3, 3.5) };
    let ls = lp * ratio;
    if ls <= lp * 1.05 {
      continue;
    }
    let li = ls * lp / (ls - lp);
    if ls < hi && li < hi && li > lo && ls > lo {
      return (short(lp), short(ls));
    }
  }
  let lp = short((lo * hi / 2.05).sqrt().min(hi / 2.2).max(lo));
  (lp, short(lp * 2.0))
}

fn apod_value(rng: &mut Rng) -> Value {
  match rng.below(10) {
    0 => json!({"kind": "Off"}),
    1 => json!({"kind": "Gaussian", "parameter": {"fwhm_um": short(rng.range(200., 3000.))}}),
    2 => json!({"kind": "Bartlett", "parameter": short(rng.range(0.5, 2.))}),
    3 => json!({"kind": "blackman", "parameter": short(rng.range(0.5, 2.))}),
    4 => json!({"kind": "Connes", "parameter": short(rng.range(0.5, 2.))}),
    5 => json!({"kind": "cosine", "parameter": short(rng.range(0.5, 2.))}),
    6 => json!({"kind": "Hamming", "parameter": short(rng.range(0.5, 2.))}),
    7 => json!({"kind": "Welch", "parameter": short(rng.range(0.5, 2.))}),
    8 => json!({"kind": "Interpolate", "parameter": [short(rng.unit()), short(rng.unit()), 1.0, short(rng.unit())]}),
    _ => json!({"kind": "none"}),
  }
}

/// Structured configuration.  `mal` selects a malformation / boundary class (0 = valid stream).
pub fn gen_config(rng: &mut Rng, mal: usize, tags: &mut Vec<String>) -> Value {
  let cr = crystals();
  let mut c = &cr[rng.below(cr.len())];
  if mal == 8 {
    // the expression crystal below is BBO_1's formula: wavelengths from BBO_1's window
    c = cr.iter().find(|x| x.id == "BBO_1").unwrap_or(c);
  }
  let ty = rng.below(5);
  let form = rng.below(8);
  let (lp, mut ls) = pick_wavelengths(rng, c);
  let length = short(rng.log_range(200., 30000.));
  let mut crystal = Map::new();
  crystal.insert("kind".into(), json!(c.id));
  crystal.insert("pm_type".into(), json!(PM_FORMS[ty][form]));
  if rng.below(4) != 0 {
    crystal.insert("phi_deg".into(), json!(short(if rng.coin() { 0. } else { rng.range(0., 90.) })));
  } else {
    tags.push("omit:crystal.phi_deg".into());
  }
  // poling: off / auto / explicit
  let pp_mode = rng.below(3);
  let theta_auto = pp_mode == 0 && rng.coin();
  if theta_auto {
    if rng.coin() {
      crystal.insert("theta_deg".into(), json!("auto"));
    } else {
      tags.push("omit:crystal.theta_deg".into());
    }
  } else {
    crystal.insert("theta_deg".into(), json!(short(match rng.below(4) { 0 => 90., 1 => 0., _ => rng.range(0., 90.) })));
  }
  crystal.insert("length_um".into(), json!(length));
  crystal.insert("temperature_c".into(), json!(short(rng.range(-20., 150.))));
  // every value of the only boolean field: true / false / omitted (serde default = false)
  match rng.below(4) {
    0 => { crystal.insert("counter_propagation".into(), json!(true)); tags.push("counter_propagation".into()); }
    1 => { crystal.insert("counter_propagation".into(), json!(false)); }
    _ => tags.push("omit:crystal.counter_propagation".into()),
  }
  let mut pump = Map::new();
  pump.insert("waist_um".into(), json!(short(rng.log_range(20., 500.))));
  pump.insert("bandwidth_nm".into(), json!(short(rng.log_range(0.05, 20.))));
  pump.insert("average_power_mw".into(), json!(short(rng.log_range(0.1, 500.))));
  if rng.coin() {
    pump.insert("spectrum_threshold".into(), json!(short(rng.log_range(1e-4, 0.2))));
  } else {
    tags.push("omit:pump.spectrum_threshold".into());
  }
  let mut signal = Map::new();
  if rng.below(3) != 0 {
    signal.insert("phi_deg".into(), json!(short(if rng.coin() { 0. } else { rng.range(0., 360.) })));
  } else {
    tags.push("omit:signal.phi_deg".into());
  }
  let sig_ext = rng.coin();
  let sig_ang = short(match rng.below(3) { 0 => 0., _ => rng.range(0., 4.) });
  signal.insert(if sig_ext { "theta_external_deg" } else { "theta_deg" }.into(), json!(sig_ang));
  signal.insert("waist_um".into(), json!(short(rng.log_range(20., 300.))));
  match rng.below(3) {
    0 => { signal.insert("waist_position_um".into(), json!("auto")); }
    1 => { signal.insert("waist_position_um".into(), json!(short(rng.range(-1., 1.) * length))); }
    _ => tags.push("omit:signal.waist_position_um".into()),
  }
  // idler
  let idler_mode = rng.below(4); // 0 omitted, 1 "auto", 2/3 explicit
  let mut idler_explicit = Map::new();
  let li = if ls > lp { ls * lp / (ls - lp) } else { ls };
  idler_explicit.insert("wavelength_nm".into(), json!(short(li)));
  idler_explicit.insert("phi_deg".into(), json!(short(rng.range(0., 360.))));
  let idl_ext = rng.coin();
  idler_explicit.insert(if idl_ext { "theta_external_deg" } else { "theta_deg" }.into(), json!(short(rng.range(0., 4.))));
  idler_explicit.insert("waist_um".into(), json!(short(rng.log_range(20., 300.))));
  let mut idler_tags: Vec<String> = vec![];
  match rng.below(3) {
    0 => { idler_explicit.insert("waist_position_um".into(), json!("auto")); }
    1 => { idler_explicit.insert("waist_position_um".into(), json!(short(rng.range(-1., 1.) * length))); }
    _ => idler_tags.push("omit:idler.waist_position_um".into()),
  }
  if rng.below(4) == 0 {
    idler_explicit.remove("phi_deg");
    idler_tags.push("omit:idler.phi_deg".into());
  }
  let mut pp = Value::Null;
  let mut pp_present = false;
  if pp_mode == 1 {
    pp = json!({"poling_period_um": "auto"});
    pp_present = true;
  } else if pp_mode == 2 {
    pp = json!({"poling_period_um": short(rng.log_range(2., 200.) * if rng.below(4) == 0 { -1. } else { 1. })});
    pp_present = true;
  } else if rng.below(3) == 0 {
    pp_present = true; // explicit null = off
  }
  let mut apod_omitted = false;
  if pp_mode != 0 {
    if rng.coin() {
      pp.as_object_mut().unwrap().insert("apodization".into(), apod_value(rng));
    } else {
      apod_omitted = true;
    }
  }
  // ---- malformations / boundary classes
  match mal {
    0 => {}
    1 => {
      // lambda_s <= lambda_p in every auto/explicit combination (the combination is already random)
      let f = match rng.below(3) { 0 => 1.0, 1 => 0.9, _ => rng.range(0.3, 0.999) };
      ls = short(lp * f);
      tags.push(if f == 1.0 { "ls_eq_lp" } else { "ls_lt_lp" }.into());
    }
    2 => {
      // both / neither signal angle
      if rng.coin() {
        signal.insert("theta_deg".into(), json!(sig_ang));
        signal.insert("theta_external_deg".into(), json!(sig_ang));
        tags.push("signal_both_angles".into());
      } else {
        signal.remove("theta_deg");
        signal.remove("theta_external_deg");
        tags.push("signal_no_angle".into());
      }
    }
    3 => {
      // auto crystal angle together with poling
      crystal.insert("theta_deg".into(), json!("auto"));
      if pp_mode == 0 {
        pp = if rng.coin() { json!({"poling_period_um": "auto"}) } else { json!({"poling_period_um": short(rng.log_range(2., 200.))}) };
        pp_present = true;
      }
      tags.push("auto_theta_with_poling".into());
    }
    4 => {
      // angles in +-400 degrees (internal or external), also for the crystal
      let a = short(rng.range(-400., 400.));
      signal.remove("theta_deg");
      signal.remove("theta_external_deg");
      signal.insert(if rng.coin() { "theta_external_deg" } else { "theta_deg" }.into(), json!(a));
      signal.insert("phi_deg".into(), json!(short(rng.range(-400., 400.))));
      if !theta_auto {
        crystal.insert("theta_deg".into(), json!(short(rng.range(-400., 400.))));
      }
      crystal.insert("phi_deg".into(), json!(short(rng.range(-400., 400.))));
      tags.push("wide_angles".into());
    }
    5 => {
      // zero angles everywhere
      crystal.insert("phi_deg".into(), json!(0.0));
      if !theta_auto {
        crystal.insert("theta_deg".into(), json!(0.0));
      }
      signal.remove("theta_deg");
      signal.remove("theta_external_deg");
      signal.insert(if rng.coin() { "theta_external_deg" } else { "theta_deg" }.into(), json!(0.0));
      signal.insert("phi_deg".into(), json!(0.0));
      tags.push("zero_angles".into());
    }
    6 => {
      // crystal angle 0 with slightly non-collinear beams
      crystal.insert("theta_deg".into(), json!(0.0));
      signal.remove("theta_deg");
      signal.remove("theta_external_deg");
      signal.insert(if rng.coin() { "theta_external_deg" } else { "theta_deg" }.into(), json!(short(rng.log_range(1e-6, 0.5))));
      if pp.get("poling_period_um").is_none() || rng.coin() {
        // no poling unless already there
      }
      tags.push("theta0_noncollinear".into());
    }
    7 => {
      // explicit poling period longer than the crystal; or auto period for a short crystal
      if rng.coin() {
        pp = json!({"poling_period_um": short(length * rng.range(1.01, 5.))});
        crystal.insert("theta_deg".into(), json!(90.0));
        tags.push("period_gt_length_explicit".into());
      } else {
        pp = json!({"poling_period_um": "auto"});
        crystal.insert("length_um".into(), json!(short(rng.log_range(0.5, 20.))));
        crystal.insert("theta_deg".into(), json!(short(rng.range(0., 90.))));
        tags.push("short_crystal_auto_period".into());
      }
      pp_present = true;
    }
    8 => {
      // expression crystals (CrystalType::Expr): BBO's Sellmeier formula written out (uniaxial, or biaxial with nx = ny),
      // and the same with an unknown variable / an unknown function in one expression -- an invalid configuration
      let no = "sqrt(2.7359+0.01878/(l^2-0.01822)-0.01354*l^2)";
      let ne = "sqrt(2.3753+0.01224/(l^2-0.01667)-0.01516*l^2)";
      let bad = rng.below(3);
      let spoil = |e: &str| -> String {
        match bad { 1 => format!("{}+q", e), 2 => format!("foo({})", e), _ => e.to_string() }
      };
      let kind = if rng.coin() {
        json!({"no": spoil(no), "ne": ne})
      } else {
        json!({"nx": no, "ny": no, "nz": spoil(ne)})
      };
      crystal.insert("kind".into(), kind);
      tags.push(match bad { 1 => "expr_crystal:unknown_variable", 2 => "expr_crystal:unknown_function", _ => "expr_crystal:valid" }.into());
    }
    _ => {}
  }
  pump.insert("wavelength_nm".into(), json!(lp));
  signal.insert("wavelength_nm".into(), json!(ls));
  if mal == 1 && ls <= lp {
    // an explicit idler needs some in-window wavelength
    idler_explicit.insert("wavelength_nm".into(), json!(short(2.0 * lp)));
  }
  let mut cfg = Map::new();
  cfg.insert("crystal".into(), Value::Object(crystal));
  cfg.insert("pump".into(), Value::Object(pump));
  cfg.insert("signal".into(), Value::Object(signal));
  match idler_mode {
    0 => tags.push("omit:idler".into()),
    1 => { cfg.insert("idler".into(), json!("auto")); }
    _ => { cfg.insert("idler".into(), Value::Object(idler_explicit)); tags.extend(idler_tags); }
  }
  if apod_omitted && pp.get("poling_period_um").is_some() && pp.get("apodization").is_none() {
    tags.push("omit:periodic_poling.apodization".into());
  }
  if pp_present {
    cfg.insert("periodic_poling".into(), pp);
  } else {
    tags.push("omit:periodic_poling".into());
  }
  cfg.insert("deff_pm_per_volt".into(), json!(short(rng.log_range(0.1, 30.))));
  Value::Object(cfg)
}
