//! C12 observations (see props/c12.py for the consumer).
#![allow(unused_imports, dead_code)]
use crate::common::*;
use serde_json::json;

pub fn run(_args: &[String]) {
  emit(json!({"kind": "not_implemented", "property": "C12"}));
}
