//! C07 observations (consumer: props/c07.py).
//!   env     pump_spectral_amplitude at the centre, at ± half the FWHM span and at random detunings, several bandwidths
//!   sup     every spectrum function at in-support points and at the boundary points of the support box / threshold
//!   norm    jsi_normalization / jsi_singles_normalization together with every input the translated formula reads
//!   scale   Rust-vs-Rust: spectra, counts, efficiencies, normalised spectra, Schmidt number, HOM visibility for
//!           (power, deff) scaled over six decades
//!   counts  counts_* next to the per-point spectra they sum
use crate::common::*;
use serde_json::{json, Value};
use spdcalc::dim::ucum::{M, RAD, S};
use spdcalc::jsa::FrequencySpace;
use spdcalc::math::Integrator;
use spdcalc::utils::vacuum_wavelength_to_frequency;
use spdcalc::*;

pub fn setups() -> Vec<(&'static str, String)> {
  let mk = |kind: &str, pm: &str, theta: &str, len_um: f64, lp: f64, wp_um: f64, bw: f64, ls: f64, th_s: f64, ws_um: f64, pp: &str| -> String {
    format!(
      r#"{{"crystal":{{"kind":"{kind}","pm_type":"{pm}","phi_deg":0,"theta_deg":{theta},"length_um":{len_um},"temperature_c":20}},
          "pump":{{"wavelength_nm":{lp},"waist_um":{wp_um},"bandwidth_nm":{bw},"average_power_mw":1.5,"spectrum_threshold":0.01}},
          "signal":{{"wavelength_nm":{ls},"phi_deg":0,"theta_external_deg":{th_s},"waist_um":{ws_um},"waist_position_um":"auto"}},
          "idler":"auto",{pp}"deff_pm_per_volt":3.2}}"#
    )
  };
  let pp_auto = r#""periodic_poling":{"poling_period_um":"auto"},"#;
  vec![
    ("ktp_t2_pp", mk("KTP", "e->eo", "90", 6000., 775., 150., 0.5, 1550., 0., 80., pp_auto)),
    ("ktp_t2_pp_nc", mk("KTP", "e->eo", "90", 2000., 775., 200., 2.0, 1550., 1.0, 100., pp_auto)),
    ("bbo_t1", mk("BBO_1", "e->oo", "\"auto\"", 1000., 405., 120., 1.0, 810., 3.0, 90., "")),
    ("bbo_t2", mk("BBO_1", "e->eo", "\"auto\"", 800., 405., 100., 0.3, 810., 0., 60., "")),
    ("ln_t0_pp", mk("LiNbO3_1", "e->ee", "90", 3000., 775., 100., 5.0, 1550., 0., 50., pp_auto)),
  ]
}

pub fn build(json: &str) -> Result<SPDC, String> {
  let j = json.to_string();
  match guarded(move || SPDC::from_json(j).map_err(|e| e.to_string())) {
    Ok(Ok(s)) => Ok(s),
    Ok(Err(e)) => Err(e),
    Err(p) => Err(format!("panic: {}", p)),
  }
}

fn hz(x: Frequency) -> f64 {
  *(x / (RAD / S))
}
fn w(x: f64) -> Frequency {
  x * RAD / S
}
fn cx(z: Complex<f64>) -> Value {
  json!([fx(z.re), fx(z.im)])
}
fn next_up(x: f64) -> f64 {
  if x.is_nan() || x == f64::INFINITY {
    return x;
  }
  if x == 0.0 {
    return f64::from_bits(1);
  }
  let b = x.to_bits();
  f64::from_bits(if x > 0.0 { b + 1 } else { b - 1 })
}
fn next_down(x: f64) -> f64 {
  -next_up(-x)
}

/// the spectral-width span exactly as the code's helpers compute it (for choosing the half-maximum points only; the
/// consumer recomputes the span independently)
fn span_of(spdc: &SPDC) -> f64 {
  let lp = spdc.pump.vacuum_wavelength();
  let f = spdc.pump_bandwidth;
  hz(vacuum_wavelength_to_frequency(lp - 0.5 * f) - vacuum_wavelength_to_frequency(lp + 0.5 * f))
}

fn envelope(name: &str, spdc0: &SPDC, rng: &mut Rng, n: usize) {
  for bw_nm in [0.1, 0.5, 2.0, 5.35, 20.0] {
    let mut spdc = spdc0.clone();
    spdc.pump_bandwidth = bw_nm * 1e-9 * M;
    let wp = hz(spdc.pump.frequency());
    let span = span_of(&spdc);
    let mut pts: Vec<(String, f64)> = vec![
      ("center".into(), wp),
      ("half+".into(), wp + 0.5 * span),
      ("half-".into(), wp - 0.5 * span),
    ];
    for _ in 0..n {
      pts.push(("rand".into(), wp + span * rng.range(-2.5, 2.5)));
    }
    pts.push(("far".into(), wp + 40.0 * span));
    for (tag, om) in pts {
      let sp = spdc.clone();
      let a = guarded(move || pump_spectral_amplitude(w(om), &sp));
      emit(json!({"kind":"env","setup":name,"tag":tag,"wp":fx(wp),"fwhm":fx(*(spdc.pump_bandwidth / M)),"w":fx(om),
        "alpha": a.as_ref().ok().map(|x| fx(*x)), "panic": a.err()}));
    }
  }
}

fn envelope_one(name: &str, spdc: &SPDC, rng: &mut Rng, n: usize) {
  let wp = hz(spdc.pump.frequency());
  let span = span_of(spdc);
  let mut pts: Vec<(String, f64)> = vec![("center".into(), wp), ("half+".into(), wp + 0.5 * span), ("half-".into(), wp - 0.5 * span)];
  for _ in 0..n {
    pts.push(("rand".into(), wp + span * rng.range(-2.5, 2.5)));
  }
  for (tag, om) in pts {
    let sp = spdc.clone();
    let a = guarded(move || pump_spectral_amplitude(w(om), &sp));
    emit(json!({"kind":"env","setup":name,"tag":tag,"wp":fx(wp),"fwhm":fx(*(spdc.pump_bandwidth / M)),"w":fx(om),
      "alpha": a.as_ref().ok().map(|x| fx(*x)), "panic": a.err()}));
  }
}

/// spectrum functions of a setup whose centre frequencies do not add up to the pump frequency: pairs on the pump's
/// anti-diagonal (ws + wi = wp, envelope 1) and at the setup's own centre (envelope far below threshold => exact zeros)
fn support_history(name: &str, spdc: &SPDC, rng: &mut Rng, integ: Integrator) {
  let js = match { let sp = spdc.clone(); guarded(move || JointSpectrum::new(sp, integ)) } {
    Ok(j) => j,
    Err(p) => {
      emit(json!({"kind":"hist_skip","setup":name,"panic":p}));
      return;
    }
  };
  let wp = hz(spdc.pump.frequency());
  let (s0, i0) = (hz(spdc.signal.frequency()), hz(spdc.idler.frequency()));
  let span = span_of(spdc);
  observe_point(name, "hist_pump_diag", spdc, &js, s0, wp - s0, integ, true);
  observe_point(name, "hist_pump_diag", spdc, &js, wp - i0, i0, integ, true);
  observe_point(name, "hist_centre", spdc, &js, s0, i0, integ, true);
  for _ in 0..2 {
    let d = span * rng.range(-0.6, 0.6);
    observe_point(name, "hist_rand", spdc, &js, s0 + d, wp - s0 + span * rng.range(-0.6, 0.6), integ, true);
  }
}

/// all spectrum functions at one point; `pm` only where the point is inside the box (elsewhere the integrand is not
/// meant to be evaluated at all)
fn observe_point(name: &str, tag: &str, spdc: &SPDC, js: &JointSpectrum, os: f64, oi: f64, integ: Integrator, with_pm: bool) {
  let wp = hz(spdc.pump.frequency());
  let thr = spdc.pump_spectrum_threshold;
  let sp = spdc.clone();
  let alpha = guarded(move || pump_spectral_amplitude(w(os) + w(oi), &sp)).ok();
  let sp = spdc.clone();
  let raw = guarded(move || jsa_raw(w(os), w(oi), &sp, integ));
  let sp = spdc.clone();
  let sraw = guarded(move || jsi_singles_raw(w(os), w(oi), &sp, integ));
  let (pm, pms) = if with_pm {
    let sp = spdc.clone();
    let a = guarded(move || *(phasematch_fiber_coupling(w(os), w(oi), &sp, integ) / spdcalc::PerMeter4::new(1.))).ok();
    let sp = spdc.clone();
    let b = guarded(move || *(phasematch_singles_fiber_coupling(w(os), w(oi), &sp, integ) / spdcalc::PerMeter3::new(1.))).ok();
    (a, b)
  } else {
    (None, None)
  };
  let j = js.clone();
  let all = guarded(move || {
    (
      j.jsa(w(os), w(oi)),
      *(j.jsi(w(os), w(oi)) / JSIUnits::new(1.)),
      *(j.jsi_singles(w(os), w(oi)) / JSIUnits::new(1.)),
      j.jsa_normalized(w(os), w(oi)),
      j.jsi_normalized(w(os), w(oi)),
      j.jsi_singles_normalized(w(os), w(oi)),
    )
  });
  let mut o = json!({"kind":"sup","setup":name,"tag":tag,"wp":fx(wp),"fwhm":fx(*(spdc.pump_bandwidth / M)),"thr":fx(thr),
    "ws":fx(os),"wi":fx(oi),"alpha":alpha.map(fx),"pm":pm.map(cx),"pms":pms.map(fx),
    "jsa_raw": raw.as_ref().ok().map(|z| cx(*z)), "jsi_singles_raw": sraw.as_ref().ok().map(|x| fx(*x)),
    "panic": raw.err().or(sraw.err())});
  match all {
    Ok((a, i, s, an, inn, sn)) => {
      o["jsa"] = cx(a);
      o["jsi"] = fx(i);
      o["jsi_singles"] = fx(s);
      o["jsa_n"] = cx(an);
      o["jsi_n"] = fx(inn);
      o["jsi_singles_n"] = fx(sn);
    }
    Err(p) => {
      o["panic_spectrum"] = json!(p);
    }
  }
  emit(o);
}

fn support(name: &str, spdc0: &SPDC, rng: &mut Rng, n: usize, integ: Integrator) {
  // a pump frequency with a short mantissa, so that 3/4, 7/8, 1/8 of it and the differences used below are exact in f64
  let mut spdc = spdc0.clone();
  let wp0 = hz(spdc.pump.frequency());
  let wp = f64::from_bits(wp0.to_bits() & !((1u64 << 30) - 1));
  spdc.pump.set_frequency(w(wp));
  let js = JointSpectrum::new(spdc.clone(), integ);
  let (s0, i0) = (hz(spdc.signal.frequency()), hz(spdc.idler.frequency()));
  let span = span_of(&spdc);
  // in-support points
  observe_point(name, "center", &spdc, &js, s0, wp - s0, integ, true);
  observe_point(name, "center0", &spdc, &js, s0, i0, integ, true);
  for _ in 0..n {
    let ds = span * rng.range(-0.8, 0.8);
    let di = span * rng.range(-0.8, 0.8);
    observe_point(name, "rand_in", &spdc, &js, s0 + ds, i0 + di, integ, true);
  }
  // sum detuned beyond the threshold (alpha < 0.01 needs |d| > 2.15 widths ~ 1.83 spans)
  for k in [1.9, 2.5, 6.0, -2.2] {
    observe_point(name, "below_thr", &spdc, &js, s0 + k * span, i0, integ, true);
  }
  // box boundaries, with the threshold switched off so that a zero can only come from the box
  let mut nothr = spdc.clone();
  nothr.pump_spectrum_threshold = 0.0;
  let jsn = JointSpectrum::new(nothr.clone(), integ);
  // far from the centre but inside every transmission window: pairs on the pump's anti-diagonal, threshold off
  for dlt in [-0.08, -0.03, 0.03, 0.08] {
    let a = s0 * (1.0 + dlt);
    observe_point(name, "wide_in", &nothr, &jsn, a, wp - a, integ, true);
    observe_point(name, "wide_in", &nothr, &jsn, a, i0, integ, true);
  }
  let h = 0.5 * wp;
  let pts: Vec<(&str, f64, f64, bool)> = vec![
    ("ws=wp", wp, h, true),
    ("ws=wp+", next_up(wp), h, false),
    ("wi=wp", h, wp, true),
    ("wi=wp+", h, next_up(wp), false),
    ("ws=0", 0.0, h, false),
    ("ws=-0", -0.0, h, false),
    ("ws=tiny", f64::from_bits(1), h, true),
    ("ws<0", -1e14, h, false),
    ("wi=0", h, 0.0, false),
    ("wi<0", h, -3e13, false),
    ("d=3/4", 0.875 * wp, 0.125 * wp, true),
    ("d=3/4+", next_up(0.875 * wp), 0.125 * wp, false),
    ("d=3/4-", next_down(0.875 * wp), 0.125 * wp, true),
    ("-d=3/4", 0.125 * wp, 0.875 * wp, true),
    ("-d=3/4+", 0.125 * wp, next_up(0.875 * wp), false),
    ("-d=3/4-", 0.125 * wp, next_down(0.875 * wp), true),
    ("both>wp", 1.5 * wp, 1.25 * wp, false),
  ];
  for (tag, a, b, inside) in pts {
    observe_point(name, tag, &nothr, &jsn, a, b, integ, inside);
    // and with the configured threshold (here the envelope is far below it, except nowhere): still exactly zero
    observe_point(name, &format!("{}|thr", tag), &spdc, &js, a, b, integ, false);
  }
  // threshold boundary: threshold = alpha exactly, one ulp above, one ulp below
  for k in 0..3 {
    let (os, oi) = if k == 0 { (s0, i0 + 0.7 * span) } else { (s0 + span * rng.range(-1.2, 1.2), i0 + span * rng.range(-0.5, 0.5)) };
    let sp = spdc.clone();
    let a = match guarded(move || pump_spectral_amplitude(w(os) + w(oi), &sp)) {
      Ok(a) => a,
      Err(_) => continue,
    };
    for (tag, t) in [("thr=alpha", a), ("thr=alpha+", next_up(a)), ("thr=alpha-", next_down(a))] {
      let mut s2 = spdc.clone();
      s2.pump_spectrum_threshold = t;
      let j2 = JointSpectrum::new(s2.clone(), integ);
      observe_point(name, tag, &s2, &j2, os, oi, integ, true);
    }
  }
}

fn norm(name: &str, spdc0: &SPDC, rng: &mut Rng, n: usize) {
  for k in 0..n {
    let mut spdc = spdc0.clone();
    if k > 0 {
      spdc.pump_bandwidth = rng.log_range(0.2e-9, 20e-9) * M;
      spdc.pump_average_power = rng.log_range(1e-3, 1e3) * spdc.pump_average_power;
      spdc.deff = rng.log_range(1e-3, 1e3) * spdc.deff;
    }
    let span = span_of(&spdc);
    let os = hz(spdc.signal.frequency()) + if k == 0 { 0.0 } else { span * rng.range(-1.0, 1.0) };
    let oi = hz(spdc.idler.frequency()) + if k == 0 { 0.0 } else { span * rng.range(-1.0, 1.0) };
    let sp = spdc.clone();
    let r = guarded(move || {
      (
        *(jsi_normalization(w(os), w(oi), &sp) / JsiNorm::new(1.)),
        *(jsi_singles_normalization(w(os), w(oi), &sp) / JsiSinglesNorm::new(1.)),
        *sp.signal.refractive_index(w(os), &sp.crystal_setup),
        *sp.idler.refractive_index(w(oi), &sp.crystal_setup),
        *(sp.signal.theta_external(&sp.crystal_setup) / RAD),
        *(sp.idler.theta_external(&sp.crystal_setup) / RAD),
      )
    });
    let (jn, jsn, ns, ni, ths, thi) = match r {
      Ok(v) => v,
      Err(p) => {
        emit(json!({"kind":"norm_panic","setup":name,"panic":p}));
        continue;
      }
    };
    emit(json!({"kind":"norm","setup":name,"ws":fx(os),"wi":fx(oi),"wp":fx(hz(spdc.pump.frequency())),
      "fwhm":fx(spdc.pump_bandwidth.value_unsafe),"len":fx(spdc.crystal_setup.length.value_unsafe),
      "power":fx(spdc.pump_average_power.value_unsafe),"deff":fx(spdc.deff.value_unsafe),
      "wpx":fx(spdc.pump.waist().x.value_unsafe),"wpy":fx(spdc.pump.waist().y.value_unsafe),
      "wsx":fx(spdc.signal.waist().x.value_unsafe),"wsy":fx(spdc.signal.waist().y.value_unsafe),
      "wix":fx(spdc.idler.waist().x.value_unsafe),"wiy":fx(spdc.idler.waist().y.value_unsafe),
      "ths":fx(ths),"thi":fx(thi),"ns":fx(ns),"ni":fx(ni),"pp_off": spdc.pp == PeriodicPoling::Off,
      "jn":fx(jn),"jsn":fx(jsn)}));
  }
}

fn grid(spdc: &SPDC, res: usize, halfwidth_spans: f64) -> FrequencySpace {
  let span = span_of(spdc);
  let (s0, i0) = (hz(spdc.signal.frequency()), hz(spdc.idler.frequency()));
  // unequal spacings on the two axes (same point count: the Schmidt number needs a square matrix), so that the cell area
  // dws * dwi is distinguishable from dws * dws or dwi * dwi
  let d = halfwidth_spans * span;
  let di = 0.61 * d;
  FrequencySpace::new((w(s0 - d), w(s0 + d), res), (w(i0 - di), w(i0 + di), res))
}

fn rates(spdc: &SPDC, res: usize, integ: Integrator) -> Result<Value, String> {
  let sp = spdc.clone();
  guarded(move || {
    let g = grid(&sp, res, 0.9);
    let js = sp.joint_spectrum(integ);
    let (s0, i0) = (hz(sp.signal.frequency()), hz(sp.idler.frequency()));
    let span = span_of(&sp);
    let p = (w(s0 + 0.21 * span), w(i0 - 0.13 * span));
    let e = sp.efficiencies(g, integ);
    let schmidt = js.schmidt_number(g).ok();
    let hom = sp.hom_visibility(g, integ);
    // every range accessor (the pointwise ones are below) and the sweep iterator
    let cxs = |v: Vec<Complex<f64>>| -> Value { Value::Array(v.iter().flat_map(|z| vec![fx(z.re), fx(z.im)]).collect()) };
    let jsu = |v: Vec<JSIUnits<f64>>| -> Value { Value::Array(v.iter().map(|x| fx(x.value_unsafe)).collect()) };
    let delays = spdcalc::utils::Steps(hom.0 - 3e-13 * S, hom.0 + 3e-13 * S, 5);
    let jsa_values = js.jsa_range(g);
    let jsa_swapped: Vec<Complex<f64>> = g.as_steps().into_iter().map(|(a, b)| js.jsa(b, a)).collect();
    let hom_series_fn = hom_rate_series(g, &jsa_values, &jsa_swapped, delays);
    let hom_series_method = sp.hom_rate_series(delays, g, integ);
    let hom_single = hom_rate(g, &jsa_values, &jsa_swapped, hom.0 + 1e-13 * S, None);
    let two_self = sp.hom_two_source_visibilities(g, integ);
    let two_self_rates = sp.hom_two_source_rate_series(spdcalc::utils::Steps(-1e-13 * S, 1e-13 * S, 3), g, integ);
    let wsu = *(sp.signal.waist().x / (1e-6 * M));
    let lum = *(sp.crystal_setup.length / (1e-6 * M));
    let sweep_steps = spdcalc::utils::Steps2D((0.8 * wsu, 1.3 * wsu, 3).into(), (0.7 * lum, 1.2 * lum, 2).into());
    let sweep_n = SPDCIter::try_new(sp.clone(), "signal.waist_um", "crystal.length_um", sweep_steps).map(|it| it.jsi_values_normalized(integ)).unwrap_or_default();
    let sweep_r = SPDCIter::try_new(sp.clone(), "signal.waist_um", "crystal.length_um", sweep_steps).map(|it| it.jsi_values(integ)).unwrap_or_default();
    let ranges = json!({
      "lin": {"jsi_range": jsu(js.jsi_range(g)), "jsi_singles_range": jsu(js.jsi_singles_range(g)),
              "jsi_singles_idler_range": jsu(js.jsi_singles_idler_range(g)), "sweep_jsi_values": fxs(&sweep_r)},
      "amp": {"jsa_range": cxs(jsa_values.clone())},
      "inv": {"jsa_normalized_range": cxs(js.jsa_normalized_range(g)), "jsi_normalized_range": fxs(&js.jsi_normalized_range(g)),
              "jsi_singles_normalized_range": fxs(&js.jsi_singles_normalized_range(g)),
              "jsi_singles_idler_normalized_range": fxs(&js.jsi_singles_idler_normalized_range(g)),
              "sweep_jsi_values_normalized": fxs(&sweep_n),
              "hom_rate_series": fxs(&hom_series_fn), "SPDC::hom_rate_series": fxs(&hom_series_method), "hom_rate": fxs(&[hom_single]),
              "two_source_self_visibilities": fxs(&[two_self.ss.1, two_self.ii.1, two_self.si.1]),
              "two_source_self_rates_ss": fxs(&two_self_rates.ss), "two_source_self_rates_ii": fxs(&two_self_rates.ii),
              "two_source_self_rates_si": fxs(&two_self_rates.si)}});
    json!({
      "ranges": ranges,
      "power": fx(sp.pump_average_power.value_unsafe), "deff": fx(sp.deff.value_unsafe),
      "jsa_raw": cx(jsa_raw(p.0, p.1, &sp, integ)), "jsi_singles_raw": fx(jsi_singles_raw(p.0, p.1, &sp, integ)),
      "alpha": fx(pump_spectral_amplitude(p.0 + p.1, &sp)),
      "jsa": cx(js.jsa(p.0, p.1)), "jsi": fx(*(js.jsi(p.0, p.1) / JSIUnits::new(1.))),
      "jsi_singles": fx(*(js.jsi_singles(p.0, p.1) / JSIUnits::new(1.))),
      "jsa_n": cx(js.jsa_normalized(p.0, p.1)), "jsi_n": fx(js.jsi_normalized(p.0, p.1)),
      "jsi_singles_n": fx(js.jsi_singles_normalized(p.0, p.1)),
      "jn": fx(*(jsi_normalization(p.0, p.1, &sp) / JsiNorm::new(1.))),
      "jsn": fx(*(jsi_singles_normalization(p.0, p.1, &sp) / JsiSinglesNorm::new(1.))),
      "c": fx(e.coincidences.value_unsafe), "rs": fx(e.signal_singles.value_unsafe), "ri": fx(e.idler_singles.value_unsafe),
      "eff": [fx(e.symmetric), fx(e.signal), fx(e.idler)],
      "schmidt": schmidt.map(fx), "hom_vis": fx(hom.1), "hom_dt": fx(hom.0.value_unsafe),
    })
  })
}

fn scaling(name: &str, spdc: &SPDC, res: usize, integ: Integrator, thorough: bool) {
  let base = match rates(spdc, res, integ) {
    Ok(v) => v,
    Err(p) => {
      emit(json!({"kind":"scale_panic","setup":name,"panic":p}));
      return;
    }
  };
  let dec = [1e-3, 1e-2, 1e-1, 1e1, 1e2, 1e3];
  let mut combos: Vec<(f64, f64)> = vec![];
  for (k, d) in dec.iter().enumerate() {
    combos.push((*d, 1.0));
    combos.push((1.0, *d));
    if thorough {
      combos.push((*d, dec[5 - k]));
      combos.push((*d, dec[(k + 2) % 6]));
    }
  }
  combos.push((3.7e-3, 2.9e2));
  for (a, b) in combos {
    let mut s2 = spdc.clone();
    s2.pump_average_power = a * s2.pump_average_power;
    s2.deff = b * s2.deff;
    match rates(&s2, res, integ) {
      Ok(v) => emit(json!({"kind":"scale","setup":name,"a":fx(a),"b":fx(b),"base":base.clone(),"scaled":v})),
      Err(p) => emit(json!({"kind":"scale_panic","setup":name,"a":fx(a),"b":fx(b),"panic":p})),
    }
  }
}

/// two-source HOM with the two sources scaled INDEPENDENTLY in power / deff (Rust vs Rust): visibilities and rate series
fn hom_two_source(name: &str, spdc: &SPDC, res: usize, integ: Integrator) {
  use spdcalc::utils::Steps;
  let a0 = spdc.clone();
  let mut b0 = spdc.clone();
  b0.pump_bandwidth = 1.3 * b0.pump_bandwidth; // a physically different second source
  let eval = move |a: SPDC, b: SPDC| -> Result<Value, String> {
    guarded(move || {
      let g = grid(&a, res, 0.9);
      let v = hom_two_source_visibilities(&a, &b, g, g, integ);
      let dt = 2e-13 * S;
      let r = hom_two_source_rate_series(&a.joint_spectrum(integ), &b.joint_spectrum(integ), g, g, Steps(-dt, dt, 3));
      json!({"vis": [fx(v.ss.1), fx(v.ii.1), fx(v.si.1)], "dt": [fx(v.ss.0.value_unsafe), fx(v.ii.0.value_unsafe), fx(v.si.0.value_unsafe)],
        "ss": fxs(&r.ss), "ii": fxs(&r.ii), "si": fxs(&r.si)})
    })
  };
  let base = match eval(a0.clone(), b0.clone()) {
    Ok(v) => v,
    Err(p) => {
      emit(json!({"kind":"hom2_panic","setup":name,"panic":p}));
      return;
    }
  };
  // (power factor, deff factor) for source 1 and for source 2
  for (f1, f2) in [((1.0, 1.0), (1e3, 1.0)), ((1.0, 1e-2), (1.0, 1.0)), ((1e-3, 1.0), (1.0, 1e2)), ((10.0, 0.1), (1e-2, 1e3))] {
    let (mut a, mut b) = (a0.clone(), b0.clone());
    a.pump_average_power = f1.0 * a.pump_average_power;
    a.deff = f1.1 * a.deff;
    b.pump_average_power = f2.0 * b.pump_average_power;
    b.deff = f2.1 * b.deff;
    match eval(a, b) {
      Ok(v) => emit(json!({"kind":"hom2","setup":name,"source1":[fx(f1.0), fx(f1.1)],"source2":[fx(f2.0), fx(f2.1)],"base":base.clone(),"scaled":v})),
      Err(p) => emit(json!({"kind":"hom2_panic","setup":name,"panic":p})),
    }
  }
}

fn counts(name: &str, spdc: &SPDC, res: usize, integ: Integrator) {
  let sp = spdc.clone();
  let r = guarded(move || {
    let g = grid(&sp, res, 0.9);
    let js = sp.joint_spectrum(integ);
    let jsi: Vec<f64> = js.jsi_range(g).iter().map(|x| x.value_unsafe).collect();
    let sing: Vec<f64> = js.jsi_singles_range(g).iter().map(|x| x.value_unsafe).collect();
    let sing_i: Vec<f64> = js.jsi_singles_idler_range(g).iter().map(|x| x.value_unsafe).collect();
    let (dws, dwi) = g.steps().division_widths();
    let pts: Vec<Value> = g.as_steps().into_iter().map(|(a, b)| json!([fx(hz(a)), fx(hz(b))])).collect();
    let st = g.as_steps();
    json!({"kind":"counts","setup":name,"res":res,"corr":fx(get_counts_correction(&sp)),"dws":fx(hz(dws)),"dwi":fx(hz(dwi)),
      "xr":[fx(hz(st.0.0)), fx(hz(st.0.1))], "yr":[fx(hz(st.1.0)), fx(hz(st.1.1))], "nx": st.0.2, "ny": st.1.2,
      "pts": pts, "jsi": fxs(&jsi), "jsi_singles": fxs(&sing), "jsi_singles_idler": fxs(&sing_i),
      "c": fx(sp.counts_coincidences(g, integ).value_unsafe), "rs": fx(sp.counts_singles_signal(g, integ).value_unsafe),
      "ri": fx(sp.counts_singles_idler(g, integ).value_unsafe)})
  });
  match r {
    Ok(v) => emit(v),
    Err(p) => emit(json!({"kind":"counts_panic","setup":name,"panic":p})),
  }
}

pub fn run(args: &[String]) {
  let seed = arg_u64(args, 0, 1);
  let n = arg_u64(args, 1, 4) as usize;
  let thorough = arg_u64(args, 2, 0) == 1;
  let mut rng = Rng::new(seed);
  let integ = Integrator::Simpson { divs: if thorough { 30 } else { 16 } };
  let res = if thorough { 6 } else { 4 };
  for (name, js) in setups() {
    let spdc = match build(&js) {
      Ok(s) => s,
      Err(e) => {
        emit(json!({"kind":"setup_fail","setup":name,"error":e}));
        continue;
      }
    };
    emit(json!({"kind":"setup","setup":name,"wp":fx(hz(spdc.pump.frequency())),"ws0":fx(hz(spdc.signal.frequency())),
      "wi0":fx(hz(spdc.idler.frequency())),"pp_off": spdc.pp == PeriodicPoling::Off}));
    envelope(name, &spdc, &mut rng, n);
    support(name, &spdc, &mut rng, n, integ);
    norm(name, &spdc, &mut rng, n + 2);
    scaling(name, &spdc, res, integ, thorough);
    hom_two_source(name, &spdc, res, integ);
    counts(name, &spdc, res, integ);
    // edit histories that leave the setup NOT energy-conserving at its centre (signal or idler retuned without re-deriving
    // the other, pump retuned alone): the envelope must stay centred on the PUMP frequency
    let lam_s = *(spdc.signal.vacuum_wavelength() / M);
    let lam_p = *(spdc.pump.vacuum_wavelength() / M);
    let hists: Vec<(&str, Box<dyn Fn(&mut SPDC)>)> = vec![
      ("signal-1.3%", Box::new(move |s: &mut SPDC| { s.signal.set_vacuum_wavelength(lam_s * 0.987 * M); })),
      ("idler+2%", Box::new(move |s: &mut SPDC| { let l = *(s.idler.vacuum_wavelength() / M); s.idler.set_vacuum_wavelength(l * 1.02 * M); })),
      ("pump+0.4%", Box::new(move |s: &mut SPDC| { s.pump.set_vacuum_wavelength(lam_p * 1.004 * M); })),
      ("signal+idler-1%", Box::new(move |s: &mut SPDC| {
        let l = *(s.idler.vacuum_wavelength() / M);
        s.signal.set_vacuum_wavelength(lam_s * 0.99 * M);
        s.idler.set_vacuum_wavelength(l * 0.99 * M);
      })),
    ];
    for (h, f) in hists.iter() {
      let mut s2 = spdc.clone();
      f(&mut s2);
      let hname = format!("{}|{}", name, h);
      emit(json!({"kind":"setup","setup":hname,"wp":fx(hz(s2.pump.frequency())),"ws0":fx(hz(s2.signal.frequency())),
        "wi0":fx(hz(s2.idler.frequency())),"pp_off": s2.pp == PeriodicPoling::Off, "history": h}));
      envelope_one(&hname, &s2, &mut rng, 2);
      support_history(&hname, &s2, &mut rng, integ);
    }
  }
}
