//! C07 observations (see props/c07.py for the consumer).
#![allow(unused_imports, dead_code)]
use crate::common::*;
use serde_json::json;

pub fn run(_args: &[String]) {
  emit(json!({"kind": "not_implemented", "property": "C07"}));
}
