//! Observations for the generated definitions of Gen/PMSimple.v and Gen/Wrappers.v (consumer: props/wrappers.py):
//! phasematch_sinc, phasematch_gaussian, math::{sinc, tan, csc, cot}, gaussian_pm, integration_steps_best_guess, and the
//! forwarding of SPDC::delta_k to spdcalc::delta_k (the same call written out with the fields of the object, in both orders of
//! the two frequencies).
//!
//! usage: vharness pms <seed> <n>
#![allow(unused_imports, dead_code, deprecated)]
use crate::common::*;
use serde_json::json;
use spdcalc::dim::ucum::{M, RAD, S};
use spdcalc::math::{cot, csc, sinc, tan};
use spdcalc::phasematch::{gaussian_pm, integration_steps_best_guess, phasematch_gaussian, phasematch_sinc};
use spdcalc::*;

pub fn run(args: &[String]) {
  let seed = arg_u64(args, 0, 1);
  let n = arg_u64(args, 1, 40) as usize;
  let mut rng = Rng::new(seed);
  for case in 0..n {
    let mut spdc = SPDC::default();
    let length = rng.log_range(2e-4, 2e-2);
    spdc.crystal_setup.length = length * M;
    let (wx, wy) = (rng.log_range(20e-6, 300e-6), rng.log_range(20e-6, 300e-6));
    spdc.pump.set_waist(spdcalc::beam::BeamWaist { x: wx * M, y: wy * M });
    if rng.below(3) != 0 {
      // non-collinear signal, arbitrary azimuth: Delta k gets transverse components
      spdc.signal.set_angles(rng.range(0.0, 6.28) * RAD, rng.range(0.0, 0.04) * RAD);
      let _ = spdc.assign_optimum_idler();
    }
    if rng.coin() {
      spdc.pp = PeriodicPoling::new(rng.log_range(5e-6, 80e-6) * M, Apodization::Off);
    }
    let w0s = *(spdc.signal.frequency() / (RAD / S));
    let w0i = *(spdc.idler.frequency() / (RAD / S));
    let ws = w0s * (1.0 + rng.range(-2e-3, 2e-3));
    let wi = w0i * (1.0 + rng.range(-2e-3, 2e-3));
    let (fs, fi) = (ws * RAD / S, wi * RAD / S);
    let x = if rng.below(8) == 0 { 0.0 } else { rng.range(-12.0, 12.0) };
    let a = rng.range(-1.4, 1.4);
    let l_steps = if rng.below(5) == 0 { rng.log_range(5e-6, 5e-4) } else { length };
    let r = guarded(std::panic::AssertUnwindSafe(|| {
      let dk = *(spdc.delta_k(fs, fi) / Wavenumber::new(1.));
      let direct = *(delta_k(fs, fi, &spdc.signal, &spdc.idler, &spdc.pump, &spdc.crystal_setup, &spdc.pp) / Wavenumber::new(1.));
      let swapped = *(delta_k(fi, fs, &spdc.signal, &spdc.idler, &spdc.pump, &spdc.crystal_setup, &spdc.pp) / Wavenumber::new(1.));
      let ps = *(phasematch_sinc(fs, fi, &spdc) / PerMeter4::new(1.));
      let pg = *(phasematch_gaussian(fs, fi, &spdc) / PerMeter4::new(1.));
      (dk, direct, swapped, ps, pg)
    }));
    let mut o = json!({
      "kind": "pms", "case": case, "omega_s": fx(ws), "omega_i": fx(wi), "L": fx(length), "wx": fx(wx), "wy": fx(wy),
      "poled": !matches!(spdc.pp, PeriodicPoling::Off),
      "x": fx(x), "sinc": fx(sinc(x * RAD)), "gaussian_pm": fx(gaussian_pm(x)),
      "a": fx(a), "tan": fx(tan(a * RAD)), "csc": fx(csc(a * RAD)), "cot": fx(cot(a * RAD)),
      "L_steps": fx(l_steps), "steps": integration_steps_best_guess(l_steps * M),
    });
    match r {
      Ok((dk, direct, swapped, ps, pg)) => {
        o["ok"] = json!(true);
        o["dk"] = fxs(&[dk.x, dk.y, dk.z]);
        o["dk_direct"] = fxs(&[direct.x, direct.y, direct.z]);
        o["dk_swapped"] = fxs(&[swapped.x, swapped.y, swapped.z]);
        o["pm_sinc"] = fxs(&[ps.re, ps.im]);
        o["pm_gaussian"] = fxs(&[pg.re, pg.im]);
      }
      Err(msg) => {
        o["ok"] = json!(false);
        o["panic"] = json!(msg);
      }
    }
    emit(o);
  }
}

/// usage: vharness effchain <seed> <n>
/// SPDC::efficiencies against efficiencies_from_counts applied to the three rates obtained through SPDC::counts_* and through the
/// free functions of spdc/counts.rs, on a small grid (consumer: props/wrappers.py, part "efficiencies").
pub fn run_eff(args: &[String]) {
  use spdcalc::math::Integrator;
  let seed = arg_u64(args, 0, 1);
  let n = arg_u64(args, 1, 4) as usize;
  let mut rng = Rng::new(seed);
  for case in 0..n {
    let mut spdc = SPDC::default();
    let length = rng.log_range(5e-4, 5e-3);
    spdc.crystal_setup.length = length * M;
    let w = rng.log_range(40e-6, 200e-6);
    spdc.signal.set_waist(w * M);
    spdc.idler.set_waist(w * rng.range(0.7, 1.4) * M);
    let res = 3 + rng.below(3);
    let divs = 4 + 2 * rng.below(3);
    let integrator = Integrator::Simpson { divs };
    let r = guarded(std::panic::AssertUnwindSafe(|| {
      let ranges = spdc.optimum_range(res);
      let e = spdc.efficiencies(ranges, integrator);
      let e_free = efficiencies(&spdc, ranges, integrator);
      let (c, rs, ri) = (
        spdc.counts_coincidences(ranges, integrator),
        spdc.counts_singles_signal(ranges, integrator),
        spdc.counts_singles_idler(ranges, integrator),
      );
      let (c2, rs2, ri2) = (
        counts_coincidences(&spdc, ranges, integrator),
        counts_singles_signal(&spdc, ranges, integrator),
        counts_singles_idler(&spdc, ranges, integrator),
      );
      let e_from = efficiencies_from_counts(c, rs, ri);
      let hz = |x: spdcalc::dim::ucum::Hertz<f64>| *(x / spdcalc::dim::ucum::HZ);
      let v = |e: &Efficiencies| vec![e.symmetric, e.signal, e.idler, hz(e.coincidences), hz(e.signal_singles), hz(e.idler_singles)];
      (v(&e), v(&e_free), v(&e_from), vec![hz(c), hz(rs), hz(ri)], vec![hz(c2), hz(rs2), hz(ri2)])
    }));
    let mut o = json!({"kind": "effchain", "case": case, "L": fx(length), "waist": fx(w), "resolution": res, "divs": divs});
    match r {
      Ok((e, e_free, e_from, m, f)) => {
        o["ok"] = json!(true);
        o["method"] = fxs(&e);
        o["free"] = fxs(&e_free);
        o["from_counts"] = fxs(&e_from);
        o["rates_method"] = fxs(&m);
        o["rates_free"] = fxs(&f);
      }
      Err(msg) => {
        o["ok"] = json!(false);
        o["panic"] = json!(msg);
      }
    }
    emit(o);
  }
}
