//! Observations for the generated definitions of Gen/PMSimple.v and Gen/Wrappers.v (consumer: props/wrappers.py):
//! phasematch_sinc, phasematch_gaussian, math::{sinc, tan, csc, cot}, gaussian_pm, integration_steps_best_guess, and the
//! forwarding of SPDC::delta_k to spdcalc::delta_k (the same call written out with the fields of the object, in both orders of
//! the two frequencies).
//!
//! usage: vharness pms <seed> <n>
#![allow(unused_imports, dead_code, deprecated)]
use crate::common::*;
use serde_json::json;
use spdcalc::dim::ucum::{M, RAD, S};
use spdcalc::math::{cot, csc, sinc, tan};
use spdcalc::phasematch::{gaussian_pm, integration_steps_best_guess, phasematch_gaussian, phasematch_sinc};
use spdcalc::*;

pub fn run(args: &[String]) {
  let seed = arg_u64(args, 0, 1);
  let n = arg_u64(args, 1, 40) as usize;
  let mut rng = Rng::new(seed);
  for case in 0..n {
    let mut spdc = SPDC::default();
    let length = rng.log_range(2e-4, 2e-2);
    spdc.crystal_setup.length = length * M;
    let (wx, wy) = (rng.log_range(20e-6, 300e-6), rng.log_range(20e-6, 300e-6));
    spdc.pump.set_waist(spdcalc::beam::BeamWaist { x: wx * M, y: wy * M });
    if rng.below(3) != 0 {
      // non-collinear signal, arbitrary azimuth: Delta k gets transverse components
      spdc.signal.set_angles(rng.range(0.0, 6.28) * RAD, rng.range(0.0, 0.04) * RAD);
      let _ = spdc.assign_optimum_idler();
    }
    if rng.coin() {
      spdc.pp = PeriodicPoling::new(rng.log_range(5e-6, 80e-6) * M, Apodization::Off);
    }
    let w0s = *(spdc.signal.frequency() / (RAD / S));
    let w0i = *(spdc.idler.frequency() / (RAD / S));
    let ws = w0s * (1.0 + rng.range(-2e-3, 2e-3));
    let wi = w0i * (1.0 + rng.range(-2e-3, 2e-3));
    let (fs, fi) = (ws * RAD / S, wi * RAD / S);
    let x = if rng.below(8) == 0 { 0.0 } else { rng.range(-12.0, 12.0) };
    let a = rng.range(-1.4, 1.4);
    let l_steps = if rng.below(5) == 0 { rng.log_range(5e-6, 5e-4) } else { length };
    let r = guarded(std::panic::AssertUnwindSafe(|| {
      let dk = *(spdc.delta_k(fs, fi) / Wavenumber::new(1.));
      let direct = *(delta_k(fs, fi, &spdc.signal, &spdc.idler, &spdc.pump, &spdc.crystal_setup, &spdc.pp) / Wavenumber::new(1.));
      let swapped = *(delta_k(fi, fs, &spdc.signal, &spdc.idler, &spdc.pump, &spdc.crystal_setup, &spdc.pp) / Wavenumber::new(1.));
      let ps = *(phasematch_sinc(fs, fi, &spdc) / PerMeter4::new(1.));
      let pg = *(phasematch_gaussian(fs, fi, &spdc) / PerMeter4::new(1.));
      (dk, direct, swapped, ps, pg)
    }));
    let mut o = json!({
      "kind": "pms", "case": case, "omega_s": fx(ws), "omega_i": fx(wi), "L": fx(length), "wx": fx(wx), "wy": fx(wy),
      "poled": !matches!(spdc.pp, PeriodicPoling::Off),
      "x": fx(x), "sinc": fx(sinc(x * RAD)), "gaussian_pm": fx(gaussian_pm(x)),
      "a": fx(a), "tan": fx(tan(a * RAD)), "csc": fx(csc(a * RAD)), "cot": fx(cot(a * RAD)),
      "L_steps": fx(l_steps), "steps": integration_steps_best_guess(l_steps * M),
    });
    match r {
      Ok((dk, direct, swapped, ps, pg)) => {
        o["ok"] = json!(true);
        o["dk"] = fxs(&[dk.x, dk.y, dk.z]);
        o["dk_direct"] = fxs(&[direct.x, direct.y, direct.z]);
        o["dk_swapped"] = fxs(&[swapped.x, swapped.y, swapped.z]);
        o["pm_sinc"] = fxs(&[ps.re, ps.im]);
        o["pm_gaussian"] = fxs(&[pg.re, pg.im]);
      }
      Err(msg) => {
        o["ok"] = json!(false);
        o["panic"] = json!(msg);
      }
    }
    emit(o);
  }
}
