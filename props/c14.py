"""C14 — grids, index maps, space conversions, transpose.

S2  tools/gen/grid.py regenerates coq/Gen/Grid.v from src/utils.rs + src/jsa/si_iterator.rs + src/math/mod.rs
S3  Props/C14.v (theorems over the generated definitions) + Findings/C14_transpose.v (reported, never an obligation)
S4  the Q instance of the generated model is RUN in Coq (vm_compute) on the harness inputs and compared with the Rust outputs
    (exactly on dyadic inputs, within 4.5 ulp otherwise); the real-valued conversions are compared by `interval`
S5  the property's own clauses evaluated in Python on the Rust outputs
"""
from vlib.common import *
from vlib import auxprops

ULP = Fraction(1, 2**52)
TOL_MODEL = Fraction(1, 10**15)          # 4.5 ulp of the axis scale: correspondence tolerance (DESIGN: "within 4 ulp")
TOL_CONV = Fraction(1, 10**12)           # conversions and their round trips (relative)
IMPORTS = ("From Coq Require Import List Arith Bool ZArith QArith.\n"
           "From SpdVerif Require Import Base.GridOps Gen.Grid Model.Grid Model.Producer Model.GridCheck.\nImport ListNotations.\nLocal Close Scope Q_scope.\n")


def H(s):
    return frac_of_hex(s)


def cq(fr):
    fr = Fraction(fr)
    n = f"({fr.numerator})" if fr.numerator < 0 else str(fr.numerator)
    return f"(Qmake {n}%Z {fr.denominator}%positive)"


def qshow(fr):
    """how Coq prints a Q value built with Qmake"""
    fr = Fraction(fr)
    return f"{fr.numerator} # {fr.denominator}"


def cqlist(xs):
    return "[" + "; ".join(cq(x) for x in xs) + "]"


def cqpairs(ps):
    return "[" + "; ".join(f"({cq(a)}, {cq(b)})" for a, b in ps) + "]"


def cbools(s):
    return "[" + "; ".join("true" if c == "F" else "false" for c in s) + "]%list"


def pairs(flat):
    return [(flat[i], flat[i + 1]) for i in range(0, len(flat), 2)]


def close(a, b, tol, scale):
    return abs(Fraction(a) - Fraction(b)) <= tol * scale


def finite(h):
    return h is not None and is_finite_hex(h)


# ---------------------------------------------------------------------------------------------------- S5 oracle
def oracle_steps(ctx, o):
    s, e, n = o["s"], o["e"], o["n"]
    S, E = H(s), H(e)
    scale = max(abs(S), abs(E))
    fwd = o["fwd"]
    inp = {"call": f"Steps({f64_of_hex(s)!r}, {f64_of_hex(e)!r}, {n})", "start": s, "end": e, "n": n}
    sig = lambda k: {"kind": k, "cls": o["cls"]}
    ctx.seen(("steps", s, e, n), nontrivial=n >= 1)
    ctx.count(f"steps:{o['cls']}:n={'0' if n == 0 else '1' if n == 1 else '2' if n == 2 else '3+'}")
    if len(fwd) != n or o["len"] != n:
        ctx.violation("S5", f"1-D range of {n} points yields {len(fwd)} values (len() = {o['len']})", sig("steps_count"), dict(inp, got=len(fwd)))
        return
    if fwd != o["by_value"]:
        ctx.violation("S5", "1-D range: the iterator does not deliver value(0), value(1), …", sig("steps_iter_vs_value"), inp)
    if o["rev"] != list(reversed(fwd)):
        ctx.violation("S5", "1-D range traversed from the back is not the reversed forward sequence", sig("steps_rev"), dict(inp, fwd=fwd[:4], rev=o["rev"][:4]))
    if o["fwd_dim"] != fwd:
        ctx.violation("S5", "1-D range over a dimensioned quantity differs from the same range over plain floats", sig("steps_dim"), inp)
    if n >= 1:
        vals = [H(x) for x in fwd]
        # value(0) = start*d/d and value(n-1) = end*d/d: two roundings each, relative to the endpoint ITSELF (so that the small endpoint of a
        # range spanning many decades is checked too)
        if not close(vals[0], S, 2 * ULP, abs(S)) or (n >= 2 and not close(vals[-1], E, 2 * ULP, abs(E))):
            ctx.violation("S5", f"1-D range endpoints: first = {f64_of_hex(fwd[0])!r} (start {f64_of_hex(s)!r}), last = {f64_of_hex(fwd[-1])!r} (end {f64_of_hex(e)!r}): more than 2 ulp of the endpoint itself",
                          sig("steps_endpoint_relative"), inp)
        if not close(vals[0], S, 4 * ULP, scale):
            ctx.violation("S5", f"1-D range does not start at the first endpoint: {f64_of_hex(fwd[0])!r} vs {f64_of_hex(s)!r}", sig("steps_first"), inp)
        if n >= 2:
            if not close(vals[-1], E, 4 * ULP, scale):
                ctx.violation("S5", f"1-D range of {n} points does not end at the second endpoint: {f64_of_hex(fwd[-1])!r} vs {f64_of_hex(e)!r}", sig("steps_last"), inp)
            step = (E - S) / (n - 1)
            for i in range(n):
                # 2 ulp = 4 u of the range scale: the bound PROVED for the float model (C14_steps_value_float_partial); the
                # implementation meeting it on every sample validates that model (no fused or reassociated operations)
                if not close(vals[i], S + step * i, 2 * ULP, scale):
                    ctx.violation("S5", f"1-D range is not evenly spaced: point {i} of {n} is {f64_of_hex(fwd[i])!r}, expected {float(S + step * i)!r}",
                                  sig("steps_spacing"), dict(inp, index=i, got=fwd[i]))
                    break
            if o["dw"] is not None and not close(H(o["dw"]), step, 4 * ULP, max(abs(step), scale / (n - 1))):
                ctx.violation("S5", "division_width is not (end - start)/(n - 1)", sig("steps_dw"), inp)
        elif vals[0] != S:
            ctx.violation("S5", "a 1-point range must yield exactly the first endpoint", sig("steps_single"), inp)
    # interleaving: front calls deliver fwd[0], fwd[1], …; back calls fwd[n-1], fwd[n-2], …; None only after exhaustion
    i, j = 0, n
    for c, r in zip(o["sched"], o["mixed"]):
        if i >= j:
            exp = None
        elif c == "F":
            exp = fwd[i]
            i += 1
        else:
            j -= 1
            exp = fwd[j]
        if r != exp:
            ctx.violation("S5", f"1-D range: interleaving next()/next_back() as {o['sched']} does not deliver each point exactly once from the two ends",
                          sig("steps_interleave"), dict(inp, sched=o["sched"], mixed=o["mixed"][:8]))
            break


def oracle_steps2d(ctx, o):
    nx, ny = o["nx"], o["ny"]
    X0, X1, Y0, Y1 = H(o["x0"]), H(o["x1"]), H(o["y0"]), H(o["y1"])
    sx, sy = max(abs(X0), abs(X1)), max(abs(Y0), abs(Y1))
    inp = {"call": f"Steps2D(({f64_of_hex(o['x0'])!r}, {f64_of_hex(o['x1'])!r}, {nx}), ({f64_of_hex(o['y0'])!r}, {f64_of_hex(o['y1'])!r}, {ny}))",
           "x0": o["x0"], "x1": o["x1"], "nx": nx, "y0": o["y0"], "y1": o["y1"], "ny": ny}
    sig = lambda k: {"kind": k}
    ctx.seen(("steps2d", o["x0"], o["x1"], nx, o["y0"], o["y1"], ny), nontrivial=nx * ny > 0)
    ctx.count("steps2d:" + ("empty" if nx * ny == 0 else "single-axis" if min(nx, ny) == 1 else "non-square" if nx != ny else "square"))
    if not (o["count"] == nx * ny == o["len"] == o["steps_len"]):
        ctx.violation("S5", f"2-D range {nx}x{ny} yields {o['count']} points (len() = {o['len']}, Steps2D::len() = {o['steps_len']})", sig("steps2d_count"), dict(inp, got=o["count"]))
        return
    for k, what in (("by_value_same", "the iterator does not deliver value(0), value(1), …"),
                    ("rev_same", "traversal from the back is not the reversed forward sequence"),
                    ("dim_same", "the grid over a dimensioned quantity differs from the same grid over plain floats")):
        if not o[k]:
            ctx.violation("S5", "2-D range: " + what, sig("steps2d_" + k), inp)

    def expect(k):
        i, j = k % nx, k // nx
        ex = X0 if nx <= 1 else X0 + (X1 - X0) * i / (nx - 1)
        ey = Y0 if ny <= 1 else Y0 + (Y1 - Y0) * j / (ny - 1)
        return ex, ey

    def check_point(k, px, py):
        ex, ey = expect(k)
        if not (close(H(px), ex, 4 * ULP, sx) and close(H(py), ey, 4 * ULP, sy)):
            ctx.violation("S5", f"2-D range {nx}x{ny}: point {k} is ({f64_of_hex(px)!r}, {f64_of_hex(py)!r}), expected column {k % nx} / row {k // nx} "
                                f"= ({float(ex)!r}, {float(ey)!r}) (first axis fastest)", sig("steps2d_order"), dict(inp, index=k, got=[px, py]))
            return False
        return True
    if "pts" in o:
        pts = pairs(o["pts"])
        for k, (px, py) in enumerate(pts):
            if not check_point(k, px, py):
                break
            if px != pts[k % nx][0] or py != pts[(k // nx) * nx][1]:
                ctx.violation("S5", f"2-D range {nx}x{ny}: point {k} does not share its column's x / its row's y bit-for-bit", sig("steps2d_rowcol"), dict(inp, index=k))
                break
        i, j = 0, len(pts)
        mixed = pairs(o["mixed"])
        for c, r in zip(o["sched"], mixed):
            if i >= j:
                exp = (None, None)
            elif c == "F":
                exp = pts[i]
                i += 1
            else:
                j -= 1
                exp = pts[j]
            if tuple(r) != tuple(exp):
                ctx.violation("S5", f"2-D range: interleaving next()/next_back() as {o['sched']} does not deliver each point exactly once from the two ends",
                              sig("steps2d_interleave"), dict(inp, sched=o["sched"]))
                break
    else:
        for k, (px, py) in zip(o["sample_idx"], pairs(o["sample_pts"])):
            if not check_point(k, px, py):
                break
        if not (o["rows_share_y"] and o["cols_share_x"]):
            ctx.violation("S5", f"2-D range {nx}x{ny}: points of one row / column do not share y / x bit-for-bit", sig("steps2d_rowcol"), inp)


def oracle_idx(ctx, o):
    cols = o["cols"]
    for index, c, r in o["to2d"]:
        ctx.seen(("to2d", index, cols))
        if (c, r) != (index % cols, index // cols) or not (c < cols) or r * cols + c != index:
            ctx.violation("S5", f"get_2d_indices({index}, {cols}) = ({c}, {r}) is not (column, row) of the flat index", {"kind": "idx_2d"}, {"index": index, "cols": cols, "got": [c, r]})
            return
    for col, row, k in o["to1d"]:
        ctx.seen(("to1d", col, row, cols))
        if k != row * cols + col or (k % cols, k // cols) != (col, row):
            ctx.violation("S5", f"get_1d_index({col}, {row}, {cols}) = {k} does not invert get_2d_indices", {"kind": "idx_1d"}, {"col": col, "row": row, "cols": cols, "got": k})
            return
    ctx.count("idx:" + ("table" if len(o["to2d"]) > 1 else "random"))


def oracle_transpose(ctx, obs):
    bad_nonsquare, n_square = [], 0
    for o in obs:
        if o["kind"] == "transpose":
            rows, cols = o["rows"], o["cols"]
            ctx.seen(("transpose", rows, cols))
            ctx.count("transpose:" + ("square" if rows == cols else "non-square"))
            exp = [(k % rows) * cols + k // rows for k in range(rows * cols)]
            okk = o["out"] == exp
            if rows == cols:
                n_square += 1
                if not okk:
                    ctx.violation("S5", f"transpose_vec of a {rows}x{cols} matrix is not its transpose" + (f" (panic: {o['panic']})" if o["panic"] else ""),
                                  {"kind": "transpose_square", "n": rows}, {"call": f"transpose_vec((0..{rows * cols}).collect(), {cols})", "got": o["out"], "panic": o["panic"], "expected": exp})
            elif not okk:
                bad_nonsquare.append({"rows": rows, "cols": cols, "panic": o["panic"], "got": o["out"], "expected": exp})
        elif o["kind"] == "transpose_f":
            n = o["n"]
            ctx.seen(("transpose_f", n, tuple(o["inp"][:2])))
            exp = [o["inp"][(k % n) * n + k // n] for k in range(n * n)]
            if o["out"] != exp:
                ctx.violation("S5", f"transpose_vec of a random {n}x{n} matrix is not its transpose", {"kind": "transpose_square", "n": n}, o)
    if bad_nonsquare:
        first = min(bad_nonsquare, key=lambda b: (min(b["rows"], b["cols"]) < 2, b["rows"] * b["cols"], b["rows"]))
        npanic = sum(1 for b in bad_nonsquare if b["panic"])
        ctx.violation("S5", f"transpose_vec is not the matrix transpose on non-square matrices: e.g. transpose_vec((0..{first['rows'] * first['cols']}).collect(), {first['cols']}) "
                            f"({first['rows']}x{first['cols']}) " + (f"panics: {first['panic']}" if first["panic"] else f"returns {first['got']} instead of {first['expected']}") +
                            f"; {len(bad_nonsquare)} of the non-square shapes up to 12x12 fail ({npanic} panic, {len(bad_nonsquare) - npanic} return a non-transpose)",
                      {"kind": "transpose_nonsquare"},
                      {"call": f"spdcalc::utils::transpose_vec((0..{first['rows'] * first['cols']}u32).collect(), {first['cols']})", "first": first,
                       "failing_shapes": [[b["rows"], b["cols"], "panic" if b["panic"] else "wrong"] for b in bad_nonsquare],
                       "theorem": "coq/Props/C14.v: C14_transpose (all shapes)"})
    return bad_nonsquare


TWO_PI_C = None


def w_of(x):
    """2*pi*c/x as an exact-enough rational (pi to 60 digits)"""
    global TWO_PI_C
    if TWO_PI_C is None:
        pi = Fraction("3.14159265358979323846264338327950288419716939937510582097494")
        TWO_PI_C = 2 * pi * 299792458
    return TWO_PI_C / Fraction(x)


def axis_vals(a):
    return H(a[0]), H(a[1]), a[2]


def oracle_space(ctx, o):
    ctx.seen(("space", o["from"], json.dumps(o.get("ws") or o.get("fs") or o.get("sd"))))
    ctx.count("space:" + o["from"])
    sig = lambda k: {"kind": k, "from": o["from"]}

    def relclose(a, b):
        return close(a, b, TOL_CONV, max(abs(Fraction(a)), abs(Fraction(b))))

    def same_space(a, b):
        return all(relclose(H(a[i][k]), H(b[i][k])) for i in (0, 1) for k in (0, 1)) and a[0][2] == b[0][2] and a[1][2] == b[1][2]

    def check_wf(src, dst, name):
        # endpoints to endpoints, swapped inside each axis; counts preserved; ascending stays ascending
        for i in (0, 1):
            lo, hi, n = axis_vals(src[i])
            dlo, dhi, dn = axis_vals(dst[i])
            if dn != n or not (relclose(dlo, w_of(hi)) and relclose(dhi, w_of(lo))):
                ctx.violation("S5", f"{name}: axis {i} endpoints are not the converted endpoints of the source axis (or the count changed)", sig("space_endpoints"),
                              {"conversion": name, "source": src, "result": dst})
                return
            if 0 < lo < hi and not (0 < dlo < dhi):
                ctx.violation("S5", f"{name}: an ascending axis is not ascending after conversion", sig("space_ascending"), {"conversion": name, "source": src, "result": dst})
                return

    def check_sd(fs, sd, name):
        (s0, s1, ns), (i0, i1, ni) = axis_vals(fs[0]), axis_vals(fs[1])
        (a0, a1, na), (d0, d1, nd) = axis_vals(sd[0]), axis_vals(sd[1])
        cs, ci = (s0 + s1) / 2, (i0 + i1) / 2
        ca, cd = (a0 + a1) / 2, (d0 + d1) / 2
        scale = max(abs(cs), abs(ci))
        if (na, nd) != (ns, ni) or not (close(ca - cd, cs, TOL_CONV, scale) and close(ca + cd, ci, TOL_CONV, scale)):
            ctx.violation("S5", f"{name}: the grid centre or the point counts are not preserved between frequency and sum/difference axes", sig("space_sd_centre"),
                          {"conversion": name, "frequency": fs, "sumdiff": sd})
    # the constructor keeps its arguments: first tuple = first (signal) axis, second tuple = second (idler) axis
    for raw, key, cname in (("ws_raw", "ws", "WavelengthSpace::new"), ("fs_raw", "fs", "FrequencySpace::new"), ("sd_raw", "sd", "SumDiffFrequencySpace::new")):
        if raw in o and o[raw] != o[key]:
            ctx.violation("S5", f"{cname}({o[raw][0]}, {o[raw][1]}) reads back through as_steps() as {o[key]}: the axes are not the constructor's arguments in order",
                          {"kind": "space_constructor", "which": cname}, {"call": cname, "arguments": o[raw], "as_steps": o[key]})
    if o["from"] == "wavelength":
        # the From impls must be the named conversions, bit for bit
        for key, ref, what in (("fs_from_ws", o["fs"], "FrequencySpace::from(WavelengthSpace)"), ("fs_from_sd", o["fs2"], "FrequencySpace::from(SumDiffFrequencySpace)"),
                               ("sd_from_ws", o["sd_from_ws"], "SumDiffFrequencySpace::from(WavelengthSpace)"), ("sd_from_fs", o["sd"], "SumDiffFrequencySpace::from(FrequencySpace)"),
                               ("ws_from_fs", o["ws2"], "WavelengthSpace::from(FrequencySpace)"), ("ws_from_sd", o["ws_from_sd"], "WavelengthSpace::from(SumDiffFrequencySpace)"),
                               ("ws_from_steps", o["ws"], "WavelengthSpace::from(Steps2D)")):
            if o["into"][key] != ref:
                ctx.violation("S5", f"{what} (`.into()`) differs from the named conversion: {o['into'][key]} vs {ref}", {"kind": "space_from_impl", "which": key},
                              {"conversion": what, "source_wavelength_space": o["ws"], "into": o["into"][key], "named": ref})
        # orientation: the conversion swaps the endpoints of each axis; ascending stays ascending, descending stays descending
        for i in (0, 1):
            lo, hi, _ = axis_vals(o["ws"][i])
            dlo, dhi, _ = axis_vals(o["fs"][i])
            if 0 < hi < lo:
                ctx.count("space:descending_axis:" + ("stays_descending" if dhi < dlo else "becomes_ascending"))
                if not (0 < dhi < dlo):
                    ctx.violation("S5", "a descending wavelength axis does not keep its orientation in frequency (the code swaps endpoints; proved: C14_wavelength_frequency_descending)",
                                  sig("space_orientation"), {"source": o["ws"], "result": o["fs"]})
            elif 0 < lo < hi:
                ctx.count("space:ascending_axis:" + ("stays_ascending" if dlo < dhi else "becomes_descending"))
        check_wf(o["ws"], o["fs"], "WavelengthSpace::as_frequency_space")
        check_wf(o["fs"], o["ws2"], "FrequencySpace::as_wavelength_space")
        if not same_space(o["ws"], o["ws2"]):
            ctx.violation("S5", "wavelength -> frequency -> wavelength is not the identity", sig("space_wf_roundtrip"), {"ws": o["ws"], "back": o["ws2"]})
        check_sd(o["fs"], o["sd"], "FrequencySpace::as_sum_diff_space")
        check_sd(o["fs2"], o["sd"], "SumDiffFrequencySpace::as_frequency_space")
        if not same_space(o["sd"], o["sd_from_ws"]):
            ctx.violation("S5", "WavelengthSpace::as_sum_diff_space differs from converting through the frequency space", sig("space_compose"), {"a": o["sd"], "b": o["sd_from_ws"]})
        check_wf(o["fs2"], o["ws_from_sd"], "SumDiffFrequencySpace::as_wavelength_space")
        if not same_space(o["sd"], o["sd2"]):
            ctx.violation("S5", "sum/diff -> frequency -> sum/diff is not the identity on a space produced from a frequency space (equal spans)", sig("space_sd_roundtrip"),
                          {"sd": o["sd"], "back": o["sd2"]})
    elif o["from"] == "frequency":
        check_sd(o["fs"], o["sd"], "FrequencySpace::as_sum_diff_space")
        check_sd(o["fs2"], o["sd"], "SumDiffFrequencySpace::as_frequency_space")
        if o["equal_spans"] and not same_space(o["fs"], o["fs2"]):
            ctx.violation("S5", "frequency -> sum/diff -> frequency is not the identity although signal and idler spans are equal", sig("space_sd_roundtrip"),
                          {"fs": o["fs"], "back": o["fs2"]})
        if not same_space(o["sd"], o["sd2"]):
            ctx.violation("S5", "sum/diff -> frequency -> sum/diff is not the identity on a space produced from a frequency space", sig("space_sd_roundtrip"), {"sd": o["sd"], "back": o["sd2"]})
        check_wf(o["fs"], o["ws"], "FrequencySpace::as_wavelength_space")
        if not same_space(o["fs"], o["fs3"]):
            ctx.violation("S5", "frequency -> wavelength -> frequency is not the identity", sig("space_wf_roundtrip"), {"fs": o["fs"], "back": o["fs3"]})
    else:
        check_sd(o["fs"], o["sd"], "SumDiffFrequencySpace::as_frequency_space")
        if not same_space(o["fs"], o["fs2"]):
            ctx.violation("S5", "frequency -> sum/diff -> frequency is not the identity on a space produced from a sum/diff space (equal spans)", sig("space_sd_roundtrip"),
                          {"fs": o["fs"], "back": o["fs2"]})
    # the (signal, idler) pairs each representation iterates over
    for rep, key in (("frequency", "fs"), ("sumdiff", "sd"), ("wavelength", "ws")):
        if key + "_si" not in o:
            continue
        pts = pairs(o[key + "_si"])
        (x0, x1, nx), (y0, y1, ny) = axis_vals(o[key][0]), axis_vals(o[key][1])
        if len(pts) != nx * ny:
            ctx.violation("S5", f"{rep} space iterates over {len(pts)} pairs for a {nx}x{ny} grid", sig("space_si_count"), {"rep": rep, "space": o[key]})
            continue
        for k, (a, b) in enumerate(pts):
            i, j = k % nx, k // nx
            gx = x0 if nx <= 1 else x0 + (x1 - x0) * i / (nx - 1)
            gy = y0 if ny <= 1 else y0 + (y1 - y0) * j / (ny - 1)
            if rep == "frequency":
                ex = (gx, gy)
            elif rep == "sumdiff":
                ex = (gx - gy, gx + gy)
            else:
                ex = (w_of(gx), w_of(gy))
            sc = max(abs(ex[0]), abs(ex[1]), abs(gx), abs(gy))
            if not (close(H(a), ex[0], TOL_CONV, sc) and close(H(b), ex[1], TOL_CONV, sc)):
                ctx.violation("S5", f"{rep} space: pair {k} is ({f64_of_hex(a)!r}, {f64_of_hex(b)!r}), expected the image of grid point (column {i}, row {j}) = ({float(ex[0])!r}, {float(ex[1])!r})",
                              sig("space_si_points"), {"rep": rep, "space": o[key], "index": k, "got": [a, b]})
                break


def oracle_array(ctx, o):
    """flat (signal, idler) arrays: consecutive pairs, a trailing odd element dropped; the parallel iterator delivers the same pairs in the same order"""
    n = o["len"]
    ctx.seen(("array_iter", n, o["freq_list"][0] if o["freq_list"] else ""))
    ctx.count("array_iter:" + ("odd" if n % 2 else "even"))
    exp_f = [x for k in range(n // 2) for x in (o["freq_list"][2 * k], o["freq_list"][2 * k + 1])]
    if o["freq_seq"] != exp_f:
        ctx.violation("S5", f"SignalIdlerFrequencyArray of {n} values iterates over {pairs(o['freq_seq'])[:3]}… instead of the consecutive (signal, idler) pairs", {"kind": "array_pairs", "which": "frequency"}, o)
    if o["freq_par"] != o["freq_seq"] or o["wl_par"] != o["wl_seq"]:
        ctx.violation("S5", f"the parallel iterator of a flat (signal, idler) array of {n} values differs from its sequential iterator", {"kind": "array_par_vs_seq"}, o)
    if len(o["wl_seq"]) != 2 * (n // 2):
        ctx.violation("S5", f"SignalIdlerWavelengthArray of {n} values iterates over {len(o['wl_seq']) // 2} pairs", {"kind": "array_pairs", "which": "wavelength"}, o)
    else:
        for k, x in enumerate(o["wl_seq"]):
            ex = w_of(H(o["wl_list"][k]))
            if not close(H(x), ex, TOL_CONV, ex):
                ctx.violation("S5", f"SignalIdlerWavelengthArray: element {k} is {f64_of_hex(x)!r}, expected 2 pi c / lambda = {float(ex)!r}", {"kind": "array_pairs", "which": "wavelength"}, o)
                break


def oracle_range(ctx, o):
    n = o["nx"] * o["ny"]
    ctx.seen(("range", o["rep"], o["spdc"], o["nx"], o["ny"], o["pts"][0] if o["pts"] else ""))
    ctx.count("range:" + o["rep"])
    inp = {"rep": o["rep"], "grid": o["grid"], "spdc": "SPDC::default()" if o["spdc"] == 0 else "KTP type-2 periodically poled (harness c14::spdc_for)"}
    for name, a, b, w in (("jsa_range", "jsa", "jsa_pt", 2), ("jsi_range", "jsi", "jsi_pt", 1), ("jsi_normalized_range", "jsin", "jsin_pt", 1),
                          ("jsi_singles_range", "jsis", "jsis_pt", 1)):
        if o[a] is None:
            continue
        if len(o[a]) != n * w:
            ctx.violation("S5", f"{name} over a {o['nx']}x{o['ny']} {o['rep']} grid returns {len(o[a]) // w} values", {"kind": "range_count", "fn": name, "rep": o["rep"]}, inp)
        elif o[a] != o[b]:
            k = next(i for i in range(len(o[a])) if o[a][i] != o[b][i]) // w
            if name == "jsi_singles_range" and all(
                    close(H(x), H(y), Fraction(1, 10**12), max(abs(H(y)) for y in o[b])) for x, y in zip(o[a], o[b]) if finite(x) and finite(y)):
                continue   # the singles integrand contains a parallel quadrature: reassociation noise is allowed (C15: 1e-12)
            ctx.violation("S5", f"{name} over a {o['rep']} grid differs from evaluating point by point in grid order (first difference at point {k})",
                          {"kind": "range_vs_pointwise", "fn": name, "rep": o["rep"]}, dict(inp, index=k, range_value=o[a][k * w:(k + 1) * w], pointwise=o[b][k * w:(k + 1) * w]))
    if o["flat_jsi"] != o["jsi"]:
        ctx.violation("S5", f"jsi_range over the flat (signal, idler) list differs from jsi_range over the equivalent {o['rep']} grid", {"kind": "range_flat", "rep": o["rep"]}, inp)


def range_table():
    """range functions of the generated call table coq/Gen/Ranges.v"""
    try:
        txt = open(os.path.join(COQ, "Gen", "Ranges.v")).read()
    except OSError:
        return []
    return re.findall(r'\("(\w+_range)", \("', txt)


def oracle_range_all(ctx, o, table):
    n = o["nx"] * o["ny"]
    setup = "SPDC::default()" if o["spdc"] == 0 else "KTP type-II (e->eo) periodically poled, 775 -> 1550 nm (harness c14::spdc_for(1))"
    pts = pairs(o["pts"])
    ctx.seen(("range_all", o["rep"], o["spdc"], o["nx"], o["ny"], o["pts"][0] if o["pts"] else ""))
    ctx.count("range_all:" + o["rep"])
    got = {e["fn"]: e for e in o["fns"]}
    for fn in table:
        if fn not in got:
            ctx.proof_failures.append(("Gen/Ranges.v", fn, f"range function {fn} of the generated call table is not exercised by the harness (harness/src/c14.rs::range_table_case)"))
    if o["swapped_args_differ_idler"] == 0 or o["swapped_args_differ_own"] == 0:
        ctx.note(f"range_all ({o['rep']}, setup {o['spdc']}): no grid point distinguishes (ws, wi) from (wi, ws) — the argument-order check is vacuous on this grid")
    for fn, e in got.items():
        w = e["width"]
        inp = {"setup": setup, "integrator": f"Simpson {{ divs: {o['divs']} }}", "representation": o["rep"], "frequency_grid": o["grid"], "nx": o["nx"], "ny": o["ny"],
               "call": f"JointSpectrum::{fn}(<{o['rep']} space of the frequency grid>) on a 1-thread rayon pool"}
        if len(e["range"]) != n * w:
            ctx.violation("S5", f"{fn} over a {o['nx']}x{o['ny']} {o['rep']} grid returns {len(e['range']) // w} values instead of {n}", {"kind": "range_count", "fn": fn, "rep": o["rep"]}, inp)
            continue
        if e["range"] != e["pointwise"]:
            k = next(i for i in range(len(e["range"])) if e["range"][i] != e["pointwise"][i]) // w
            nbad = sum(1 for i in range(n) if e["range"][i * w:(i + 1) * w] != e["pointwise"][i * w:(i + 1) * w])
            ws, wi = pts[k]
            ctx.violation("S5", f"{fn} ({setup}; {o['nx']}x{o['ny']} {o['rep']} grid): value {k} = {[f64_of_hex(x) for x in e['range'][k * w:(k + 1) * w]]} is not the point-by-point value "
                                f"{[f64_of_hex(x) for x in e['pointwise'][k * w:(k + 1) * w]]} at grid point {k} (column {k % o['nx']}, row {k // o['nx']}: ws = {f64_of_hex(ws)!r}, wi = {f64_of_hex(wi)!r} rad/s); "
                                f"{nbad} of {n} points differ",
                          {"kind": "range_vs_pointwise", "fn": fn, "rep": o["rep"]},
                          dict(inp, index=k, ws=ws, wi=wi, range_value=e["range"][k * w:(k + 1) * w], pointwise=e["pointwise"][k * w:(k + 1) * w], points_differing=nbad))


HEXRE = re.compile(r"^0x[0-9a-f]{16}$")


def nonfinite_in(o, path=""):
    out = []
    if isinstance(o, str):
        if HEXRE.match(o) and not is_finite_hex(o):
            out.append((path, f64_of_hex(o)))
    elif isinstance(o, list):
        for i, x in enumerate(o):
            out += nonfinite_in(x, f"{path}[{i}]")
            if len(out) > 8:
                break
    elif isinstance(o, dict):
        for k, x in o.items():
            out += nonfinite_in(x, f"{path}.{k}" if path else k)
    return out


def brief(o, limit=12):
    if isinstance(o, list):
        return [brief(x, limit) for x in o[:limit]] + (["…(%d more)" % (len(o) - limit)] if len(o) > limit else [])
    if isinstance(o, dict):
        return {k: brief(v, limit) for k, v in o.items()}
    return o


def describe(o):
    k = o.get("kind")
    if k == "steps":
        return f"Steps({f64_of_hex(o['s'])!r}, {f64_of_hex(o['e'])!r}, {o['n']})"
    if k == "steps2d":
        return f"Steps2D(({f64_of_hex(o['x0'])!r}, {f64_of_hex(o['x1'])!r}, {o['nx']}), ({f64_of_hex(o['y0'])!r}, {f64_of_hex(o['y1'])!r}, {o['ny']}))"
    if k == "space":
        return f"space conversions from a {o['from']} space {o.get('ws') or o.get('fs') or o.get('sd')}"
    if k in ("range", "range_all"):
        return f"range evaluators over a {o['nx']}x{o['ny']} {o['rep']} grid {o['grid']}"
    return f"observation of kind {k}"


def oracle(ctx, obs):
    """every observation is evaluated on its own: non-finite results and unexpected exceptions become violations carrying the input"""
    clean = []
    for o in obs:
        if o.get("kind") in ("steps", "steps2d", "space", "range", "range_all", "array_iter", "transpose_f"):
            bad = nonfinite_in(o)
            if bad:
                ctx.violation("S5", f"{describe(o)}: the implementation delivered a non-finite value ({bad[0][1]!r} at {bad[0][0]}" + (f", and {len(bad) - 1} more)" if len(bad) > 1 else ")"),
                              {"kind": "non_finite", "obs": o["kind"]}, {"call": describe(o), "non_finite_at": [b[0] for b in bad], "observation": brief(o)})
                continue
        clean.append(o)
    try:
        return oracle_inner(ctx, clean)
    except Exception:
        import traceback
        tb = traceback.format_exc()
        ctx.log(f"   oracle raised: {tb.splitlines()[-1]}")
        ctx.violation("S5", f"the oracle could not evaluate the harness output ({tb.splitlines()[-1][:160]})", {"kind": "oracle_exception"}, {"trace": tb[-3000:]}, found_input=False)
        return []


def oracle_inner(ctx, obs):
    table = range_table()
    if not any(o["kind"] == "range_all" for o in obs) and any(o["kind"] == "range" for o in obs):
        ctx.proof_failures.append(("harness", "range_all", "no observation of the full range-function table was produced"))
    if any(o["kind"] == "range_all" for o in obs) and not any(o["kind"] == "range_all" and o["nx"] * o["ny"] <= max(o["nx"], o["ny"]) for o in obs):
        ctx.note("no degenerate (0 or 1 point per axis) grid among the range-function cases of this run")
    for o in obs:
        k = o["kind"]
        if k == "harness_crash":
            ctx.violation("S5", "harness crashed", {"kind": "crash"}, o)
        elif k == "case_panic":
            call = (o.get("input") or {}).get("call", "?")
            ctx.violation("S5", f"{call}: the implementation panicked: {o['message'][:200]}", {"kind": "panic", "case": o["case"]}, {"call": call, "input": o.get("input"), "message": o["message"]})
        elif k == "steps":
            oracle_steps(ctx, o)
        elif k == "steps2d":
            oracle_steps2d(ctx, o)
        elif k == "idx":
            oracle_idx(ctx, o)
        elif k == "idx_guard" and not o["panicked"]:
            ctx.note("get_1d_index(3,0,3) did not panic: the col < cols assertion is gone")
        elif k == "space":
            oracle_space(ctx, o)
        elif k == "array_iter":
            oracle_array(ctx, o)
        elif k == "steps_overflow" and not o["finite"]:
            ctx.note(f"outside the stated guard: {o['call']} = {f64_of_hex(o['value'])!r} — start * (d - i) overflows binary64 when |endpoint| * (n - 1) exceeds f64::MAX; "
                     "the value clauses (theorem C14_steps_value_float_partial, manifest) are claimed only below that magnitude")
        elif k == "range":
            oracle_range(ctx, o)
        elif k == "range_all":
            oracle_range_all(ctx, o, table)
        elif k == "range_all_failed":
            ctx.violation("S5", "evaluating the range functions on a 1-thread pool did not finish within 600 s", {"kind": "timeout", "what": "range_all"}, o)
    return oracle_transpose(ctx, obs)


# ---------------------------------------------------------------------------------------------------- S4 correspondence
def correspondence(ctx, obs, quick):
    exprs, meta = [], {}

    def add(kind, o, expr, exact=False):
        cid = f"{kind}{len(exprs)}"
        exprs.append((cid, expr))
        meta[cid] = (kind, o, exact)
    nsteps = n2d = nsp = 0
    for o in obs:
        k = o["kind"]
        if k == "steps" and nsteps < (40 if quick else 600):
            nsteps += 1
            s, e, n = H(o["s"]), H(o["e"]), o["n"]
            exact = o["cls"] == "dyadic"
            tol = cq(0) if exact else cq(TOL_MODEL)
            add("steps", o, f"check_seq1d {cq(s)} {cq(e)} {n} {cqlist(H(x) for x in o['fwd'])} {tol}", exact)
            mixed = "[" + "; ".join("None" if x is None else f"Some {cq(H(x))}" for x in o["mixed"]) + "]"
            add("sched", o, f"check_sched1d {cq(s)} {cq(e)} {n} {cbools(o['sched'])} {mixed} {tol}", exact)
        elif k == "steps2d" and n2d < (14 if quick else 160):
            n2d += 1
            a = f"{cq(H(o['x0']))} {cq(H(o['x1']))} {o['nx']} {cq(H(o['y0']))} {cq(H(o['y1']))} {o['ny']}"
            if "pts" in o:
                if len(o["pts"]) > 1200:
                    continue
                add("grid", o, f"check_seq2d {a} {cqpairs((H(x), H(y)) for x, y in pairs(o['pts']))} {cq(TOL_MODEL)}")
                mixed = "[" + "; ".join("None" if x is None else f"Some ({cq(H(x))}, {cq(H(y))})" for x, y in pairs(o["mixed"])) + "]"
                add("sched2", o, f"check_sched2d {a} {cbools(o['sched'])} {mixed} {cq(TOL_MODEL)}")
            else:
                idx = "[" + "; ".join(str(i) for i in o["sample_idx"][:60]) + "]%list"
                add("gridat", o, f"check_at2d {a} {idx} {cqpairs((H(x), H(y)) for x, y in pairs(o['sample_pts'])[:60])} {cq(TOL_MODEL)}")
        elif k == "idx" and len(o["to2d"]) > 1:
            cols = o["cols"]
            add("idx2", o, "(" + f"map (fun i => get_2d_indices i {cols}) (seq 0 {len(o['to2d'])})" + ")")
            add("idx1", o, "(" + f"flat_map (fun c => map (fun r => get_1d_index c r {cols}) (seq 0 12)) (seq 0 {cols})" + ")")
        elif k == "transpose":
            add("tr", o, f"transpose_vec (seq 0 {o['rows'] * o['cols']}) {o['cols']}")
        elif k == "array_iter":
            lst = "[" + "; ".join(cq(H(x)) for x in o["freq_list"]) + "]"
            add("arr", o, f"bad_idx (ok2 {cq(0)} {cq(1)} {cq(1)}) (map (fun p => farr_point (fst p) (snd p)) (array_pairs farr_chunk {lst})) {cqpairs((H(a), H(b)) for a, b in pairs(o['freq_seq']))} 0%nat")
        elif k == "transpose_ragged":
            add("tr", o, f"transpose_vec (seq 0 {o['len']}) {o['cols']}")
        elif k == "space" and nsp < (12 if quick else 120):
            nsp += 1
            sp = lambda s: "((%s, %s, %d), (%s, %s, %d))" % (cq(H(s[0][0])), cq(H(s[0][1])), s[0][2], cq(H(s[1][0])), cq(H(s[1][1])), s[1][2])
            if o["from"] in ("frequency", "wavelength"):
                add("tosd", o, f"check_to_sd {sp(o['fs'])} {sp(o['sd'])} {cq(TOL_MODEL)}")
                add("ofsd", o, f"check_of_sd {sp(o['sd'])} {sp(o['fs2'])} {cq(TOL_MODEL)}")
            else:
                add("ofsd", o, f"check_of_sd {sp(o['sd'])} {sp(o['fs'])} {cq(TOL_MODEL)}")
            if "sd_si" in o:
                add("sdsi", o, f"check_points (sd_point Qops) {sp(o['sd'])} {cqpairs((H(x), H(y)) for x, y in pairs(o['sd_si']))} {cq(TOL_MODEL * 2)}")
            if "fs_si" in o:
                add("fssi", o, f"check_points (fs_point (T:=Q)) {sp(o['fs'])} {cqpairs((H(x), H(y)) for x, y in pairs(o['fs_si']))} {cq(TOL_MODEL)}")
    # canaries: deliberately wrong expectations must be rejected by the model comparison
    canaries = [("canary1", f"check_seq1d {cq(0)} {cq(4)} 5 [{cq(0)}; {cq(1)}; {cq(2)}; {cq(3)}; {cq(5)}] {cq(TOL_MODEL)}", "[4]"),
                ("canary2", f"check_seq2d {cq(0)} {cq(1)} 2 {cq(0)} {cq(2)} 3 {cqpairs([(0, 0), (0, 1), (0, 2), (1, 0), (1, 1), (1, 2)])} {cq(TOL_MODEL)}", None),
                ("canary3", "transpose_vec (seq 0 7) 3", "Ok [0; 3; 1; 4; 2; 5]")]
    res = run_compute_cases(ctx, "C14", IMPORTS, "", exprs + [(c[0], c[1]) for c in canaries])
    missing = [(c, e) for c, e in exprs + [(c[0], c[1]) for c in canaries] if c not in res]
    if missing:    # a shard that died (time-out under load): evaluate its cases once more before calling anything a disagreement
        ctx.log(f"   {len(missing)} evaluations without a result: retried")
        res.update(run_compute_cases(ctx, "C14retry", IMPORTS, "", missing, shards=min(NCPU, max(1, len(missing) // 4))))
    for cid, _, expect in canaries:
        got = (res.get(cid) or "").replace("%nat", "")
        if (expect is not None and got.replace(" ", "") != expect.replace(" ", "")) or (expect is None and got in ("", "[]")):
            ctx.proof_failures.append(("Cases/C14", cid, f"the model comparison gave {got!r} on a deliberately wrong expectation"))
    nok = 0
    for cid, (kind, o, exact) in meta.items():
        got = res.get(cid)
        ctx.cov["obligations"] += 1
        good = False
        if got is None:
            pass
        elif kind in ("steps", "sched", "grid", "sched2", "gridat", "sdsi", "fssi"):
            good = got == "[]"
        elif kind in ("tosd", "ofsd"):
            good = got == "true"
        elif kind == "arr":
            good = got == "[]"
        elif kind == "idx2":
            exp = "[" + "; ".join(f"({c}, {r})" for _, c, r in o["to2d"]) + "]"
            good = got.replace(" ", "") == exp.replace(" ", "")
        elif kind == "idx1":
            exp = "[" + "; ".join(str(k) for _, _, k in o["to1d"]) + "]"
            good = got.replace(" ", "") == exp.replace(" ", "")
        elif kind == "tr":
            exp = "Panic" if o["out"] is None else "Ok [" + "; ".join(str(x) for x in o["out"]) + "]"
            good = got.replace(" ", "") == exp.replace(" ", "")
        if good:
            nok += 1
            ctx.cov["discharged"] += 1
        else:
            brief = {kk: vv for kk, vv in o.items() if kk in ("kind", "cls", "s", "e", "n", "nx", "ny", "x0", "x1", "y0", "y1", "rows", "cols", "len", "from", "sched")}
            ctx.case_failures.append({"case": cid, "model_says": (got or "no result")[:300], "input": brief})
            ctx.violation("S4", f"generated model and implementation disagree ({kind}: {json.dumps(brief)[:200]}; model check returned {(got or 'nothing')[:80]})",
                          {"kind": "model_mismatch", "what": kind}, {"case": cid, "model": (got or "")[:2000], "observation": brief}, found_input=False)
    ctx.log(f"S4 C14: {nok}/{len(meta)} model evaluations agree with the implementation")
    # real-valued conversions (2*pi*c/x): interval
    goals, gmeta = [], {}
    for o in [x for x in obs if x["kind"] == "space" and x["from"] in ("wavelength", "frequency")][: (6 if quick else 40)]:
        src, dst, fn = (o["ws"], o["fs"], "to_fs") if o["from"] == "wavelength" else (o["fs"], o["ws"], "to_ws")
        mk = "(mk_space %s %s %d %s %s %d)" % (coq_hex(src[0][0]), coq_hex(src[0][1]), src[0][2], coq_hex(src[1][0]), coq_hex(src[1][1]), src[1][2])
        for i, proj in ((0, "fst"), (1, "snd")):
            for j, end in ((0, "ax_lo"), (1, "ax_hi")):
                cid = f"w{len(goals)}"
                v = coq_hex(dst[i][j])
                goals.append((cid, f"Rabs ({end} ({proj} ({fn} {mk})) - {v}) <= 1e-14 * Rabs {v}", "case_space"))
                gmeta[cid] = (o, fn, i, j)
    res = run_interval_cases(ctx, "C14i", "From SpdVerif Require Import Base.GridOps Gen.Grid Model.Grid Proofs.C14_spaces Proofs.C14_casetac.\n", goals, shards=min(NCPU, 8))
    for cid, ok in res.items():
        if not ok and cid in gmeta:
            o, fn, i, j = gmeta[cid]
            ctx.violation("S4", f"generated conversion {fn} and implementation disagree (axis {i}, endpoint {j})", {"kind": "model_mismatch", "what": fn},
                          {"case": cid, "observation": {k: o[k] for k in ("ws", "fs", "from")}}, found_input=False)


def selftest(ctx, obs):
    """feed the oracle deliberately wrong observations; every one must be flagged (guards against a vacuous oracle)"""
    import copy
    probe = Ctx("C14", ctx.tier, ctx.seed)
    n_expected = 0
    st = next((o for o in obs if o["kind"] == "steps" and o["n"] >= 5), None)
    if st:
        a = copy.deepcopy(st); a["fwd"] = a["fwd"][1:] + a["fwd"][:1]; a["by_value"] = a["fwd"]; a["rev"] = list(reversed(a["fwd"])); a["fwd_dim"] = a["fwd"]
        b = copy.deepcopy(st); b["fwd"] = b["fwd"][:-1]
        c = copy.deepcopy(st); c["mixed"] = list(reversed(c["mixed"]))
        for x in (a, b, c):
            before = len(probe.violations); oracle_steps(probe, x); n_expected += 1
            if len(probe.violations) == before:
                ctx.note("oracle self-test: a corrupted 1-D observation was not flagged")
    g = next((o for o in obs if o["kind"] == "steps2d" and "pts" in o and o["nx"] >= 2 and o["ny"] >= 2 and o["nx"] != o["ny"]), None)
    if g:
        a = copy.deepcopy(g)
        p = pairs(a["pts"]); nx, ny = a["nx"], a["ny"]
        tp = [p[(k % ny) * nx + k // ny] for k in range(nx * ny)]      # column-major instead of row-major
        a["pts"] = [x for q in tp for x in q]
        before = len(probe.violations); oracle_steps2d(probe, a); n_expected += 1
        if len(probe.violations) == before:
            ctx.note("oracle self-test: a column-major 2-D observation was not flagged")
    # a range function that evaluates the swapped spectrum at (ws, wi) instead of (wi, ws) must be reported with its index
    ra = next((o for o in obs if o["kind"] == "range_all"), None)
    if ra:
        a = copy.deepcopy(ra)
        for e in a["fns"]:
            if e["fn"] == "jsi_singles_idler_normalized_range":
                e["range"] = a["selftest_idler_normalized_unswapped"]
        before = len(probe.violations); oracle_range_all(probe, a, range_table()); n_expected += 1
        if not any(v["sig"] == {"kind": "range_vs_pointwise", "fn": "jsi_singles_idler_normalized_range", "rep": a["rep"]} for v in probe.violations[before:]):
            ctx.note("oracle self-test: an idler range function with unswapped arguments was not flagged")
    # a non-square shape behaving like the former in-place swap (2x3 panics, 3x2 wrong) must be reported
    tr = [copy.deepcopy(o) for o in obs if o["kind"] == "transpose"]
    for o in tr:
        if (o["rows"], o["cols"]) == (2, 3):
            o["out"], o["panic"] = None, "index out of bounds: the len is 6 but the index is 6"
        if (o["rows"], o["cols"]) == (3, 2):
            o["out"] = [0, 2, 1, 3, 4, 5]
    before = len(probe.violations); bad = oracle_transpose(probe, tr); n_expected += 1
    if len(probe.violations) == before or len(bad) != 2:
        ctx.note("oracle self-test: a wrong non-square transpose was not flagged")
    return n_expected, len(probe.violations)


def require_complete(ctx, obs, mode, minimum):
    """a harness run that crashed, timed out or produced too little must not leave its clauses silently unchecked"""
    counts = {}
    for o in obs:
        counts[o.get("kind")] = counts.get(o.get("kind"), 0) + 1
    missing = {k: (counts.get(k, 0), m) for k, m in minimum.items() if counts.get(k, 0) + (counts.get("case_panic", 0) if k in ("steps", "steps2d", "space", "range", "range_all") else 0) < m}
    done = any(o.get("kind") == "done" and o.get("mode") == mode for o in obs)
    if missing or not done:
        ctx.violation("S5", f"harness mode `{mode}` did not deliver its observations (" + ("no completion marker; " if not done else "") +
                            ", ".join(f"{k}: {a} of at least {m}" for k, (a, m) in missing.items()) + "): the clauses it feeds are unchecked",
                      {"kind": "harness_incomplete", "mode": mode}, {"counts": counts, "required": minimum, "done_marker": done,
                                                                      "crash": next((o for o in obs if o.get("kind") == "harness_crash"), None)}, found_input=False)
        return False
    return True


def replay_setup(ctx):
    """--replay <file>: re-run the generated stream the replay came from (same seed and tier) and keep only that finding"""
    if not getattr(ctx, "replay", None):
        return None
    d = json.load(open(ctx.replay))
    ctx.seed, ctx.tier = int(d.get("seed", ctx.seed)), d.get("tier", ctx.tier)
    ctx.log(f"replaying {ctx.replay}: seed {ctx.seed}, tier {ctx.tier}, signature {d.get('signature')}")
    return d.get("signature")


def replay_filter(ctx, want):
    if want is None:
        return
    keep = [v for v in ctx.violations if v["sig"] == want]
    ctx.log(f"replay: {'REPRODUCED' if keep else 'not reproduced'} ({len(ctx.violations)} finding(s) in the stream, {len(keep)} with the replayed signature)")
    ctx.violations = keep
    if not keep:
        ctx.proof_failures = []


def run(ctx):
    want = replay_setup(ctx)
    quick = ctx.tier == "quick"
    binp = build_harness(ctx)
    msgs, spans = regen(ctx, ["grid", "ranges"])
    ctx.cov["translated_spans"] = {k: v for k, v in spans.items() if k.startswith("grid.") or k.startswith("ranges.")}
    for m in msgs:
        ctx.proof_failures.append(("Gen/Ranges.v" if "generator ranges" in m else "Gen/Grid.v", "translator", m))
    proved = (not msgs) and prove(ctx, "C14", extra_targets=["Model/GridCheck.vo", "Proofs/C14_casetac.vo", "Props/C14_pins.vo"])
    # auxiliary composition (Props/C14_aux.v): set_resolution / with_resolution, constructors and ranges (generated, Gen/GridRes.v)
    auxprops.prove_aux(ctx, "C14", ["gridres"])
    # F6 is fixed (fd4cfc7); its historical record is built separately and a failure there is only a note
    okf, _, _ = coq_build(ctx, ["Findings/C14_transpose.vo"]) if not msgs else (True, [], "")
    if not okf:
        ctx.note("Findings/C14_transpose.v (historical record of the fixed finding F6) did not build")
    n = 1 if quick else 6
    obs = run_harness(ctx, binp, ["c14", ctx.seed, n, "grid"])
    require_complete(ctx, obs, "grid", {"steps": 64 * n, "steps2d": 20 * n, "space": 30 * n, "idx": 12, "transpose": 144, "transpose_ragged": 70, "array_iter": 10, "steps_overflow": 1})
    if not quick:
        # a second, independent stream (only the randomised observation kinds add information)
        obs += [o for o in run_harness(ctx, binp, ["c14", ctx.seed + 7919, n, "grid"]) if o["kind"] in ("steps", "steps2d", "space", "transpose_f")]
    robs = run_harness(ctx, binp, ["c14", ctx.seed, 2 if quick else 12, "range"], timeout=900)
    require_complete(ctx, robs, "range", {"range": 6 if quick else 36, "range_all": 3 if quick else 12})
    obs += robs
    if not quick:
        # debug profile (overflow checks on, as `cargo test` builds): usize arithmetic of divisions(), index maps, transpose must not trip on any generated case
        try:
            bind = build_harness(ctx, profile="debug")
            dobs = run_harness(ctx, bind, ["c14", ctx.seed + 31, 1, "grid"], timeout=1800)
            oracle(ctx, dobs)
        except CheckError as e:
            ctx.note("debug-profile harness could not be built: " + str(e)[:200])
    bad_nonsquare = oracle(ctx, obs)
    for o in obs:
        if o["kind"] == "steps" and o["n"] >= 3:
            ctx.sample({"call": f"Steps({f64_of_hex(o['s'])!r}, {f64_of_hex(o['e'])!r}, {o['n']})", "first": f64_of_hex(o["fwd"][0]), "last": f64_of_hex(o["fwd"][-1])}, limit=3)
    ne, nf = selftest(ctx, obs)
    ctx.log(f"S5 oracle self-test: {nf} violations raised on {ne} corrupted observations")
    if os.path.exists(os.path.join(COQ, "Model", "GridCheck.vo")):
        try:
            correspondence(ctx, [o for o in obs if o.get("kind") == "steps_overflow" or not nonfinite_in(o)], quick)
        except Exception:
            import traceback
            tb = traceback.format_exc()
            ctx.proof_failures.append(("Cases/C14", "correspondence", "could not be generated: " + tb.splitlines()[-1][:200]))
    else:
        ctx.note("correspondence cases skipped: generated model did not compile")
    if not proved and not any(v["found_input"] and v["sig"].get("kind") != "transpose_nonsquare" for v in ctx.violations):
        ctx.log("S5 deep search for a failing input (proof obligations are broken)")
        for k in range(2):
            obs2 = run_harness(ctx, binp, ["c14", ctx.seed + 1000 + k, 8, "grid"])
            obs2 += run_harness(ctx, binp, ["c14", ctx.seed + 1000 + k, 6, "range"], timeout=900)
            oracle(ctx, obs2)
            if any(v["found_input"] and v["sig"].get("kind") != "transpose_nonsquare" for v in ctx.violations):
                break
    ctx.cov["rule"] = ("1-D: 8 endpoint classes (ascending, descending, degenerate, dyadic, optical frequencies, wavelengths, mixed sign, 18 decades) x counts "
                       "{0,1,2,3,300, uniform 0..300}; 2-D: the same classes per axis, counts incl. 0, 1, 2x3, 300; index maps: full table for cols 1..12 plus random up to 2^40; "
                       "transpose: every shape 1..12 x 1..12, plus lengths 0..13 x num_cols 0..4 (ragged / zero columns, model correspondence only); spaces: random wavelength / frequency (equal and unequal spans) / sum-diff spaces with counts 0..300; "
                       "range evaluators: two SPDC setups x three representations x flat lists; every range function of the generated call table (incl. normalized and idler variants) against point-by-point evaluation, bit-exact on a 1-thread pool, on an asymmetric type-II setup with non-square grids whose axes differ in centre, span and count.  distinct = distinct input bits; empty grids count as trivial")
    ctx.cov["clauses"] = {
        "set_resolution / with_resolution of the three spaces (generated, Gen/GridRes.v): counts become (res, res), end points kept, res^2 points with the "
        "original corners, commutes with every conversion; constructors and Steps2D::ranges keep the axis order":
            "proved (C14_set_resolution, C14_set_resolution_grid, C14_set_resolution_corners, C14_set_resolution_commutes_with_conversions, "
            "C14_constructors_and_ranges); tied to the source by generation only (pure tuple shuffles, not executed against the implementation)",
        "1-D: n values, first, last, even spacing": "proved (reals, generated Steps::value); float error proved <= 4u of the range scale (Flocq; binary64 under a no-underflow guard) and checked on every sample",
        "1-D/2-D from either end, any interleaving": "proved (any carrier, generated next/next_back)",
        "2-D: nx*ny points, first axis fastest": "proved (any carrier: exact)",
        "index maps mutually inverse": "proved",
        "range evaluators = pointwise, in grid order": "pinned + validated: the generated call table (every *_range = map of its point function, argument order) is checked by "
                                                       "vm_compute against the expected table, the parallel collect is C15_collect / C15_par_sites_sound; all eight range functions "
                                                       "validated bit-exact Rust-vs-Rust against point-by-point evaluation",
        "flat (signal, idler) list = grid": "proved for the pairing model, which is tied to the GENERATED description of SignalIdler*Array (chunks_exact(2), (a[0], a[1]), point maps, "
                                            "sequential = parallel) by C14_flat_list_generated; sequential/parallel array iterators incl. odd lengths validated and compared with the model",
        "wavelength <-> frequency endpoints, round trip": "proved (reals) + interval correspondence 1e-14; From impls proved to be the named conversions",
        "'each axis re-sorted ascending'": "READING: the code swaps the endpoints (no sort): ascending stays ascending and descending stays descending (both proved, both observed); "
                                           "sorting would be incompatible with the round-trip clause on a descending axis",
        "frequency <-> sum/diff centre, counts, round trip iff equal spans": "proved (iff, both directions, plus idempotence)",
        "transpose of any shape": "proved (all rows x cols incl. 0; generated early return / ranges / read index of the out-of-place loop); ragged lengths and num_cols = 0 characterised; "
                                  "every shape up to 12x12 observed and compared with the model",
    }
    replay_filter(ctx, want)
    return finish(ctx, assumptions=["binary64 rounding of Steps::value is PROVED <= 4u of the range scale for FLX-53 and, under the stated no-underflow guard, for binary64 (C14_steps_value_float_partial); "
                                    "it is assumed that no intermediate overflows; the 2-D lerp form and the conversions are measured (<= 4.5 ulp / 1e-12), not proved",
                                    "JointSpectrum point evaluation is a black box here: only the order/identity of the points handed to it is covered"])
