"""C17 — invalid configurations give an error, never a panic or a non-finite setup.

S3: Props/C17.v (decision rules, no-panic for the non-failing class, panic-site characterisation, finiteness) over
    Model/Config.v; Findings/C17_F7.v (refuted lemmas) built separately.
S4: the model is run (vm_compute, Q instance) on every configuration of the stream with the oracle answers recorded by the
    harness' shadow construction through the public API; outcome class, panic site, level-2 trace, non-finite fields and
    every field of the resulting setup must agree with SPDCConfig::try_as_spdc.
S5: the property's own clauses on the implementation's outcomes (window-valid configurations only)."""
from vlib.common import *
from props import _cfgcoq as cc


def site_function(spans, loc):
    """source function enclosing a panic location `file:line`"""
    if not loc or ":" not in loc:
        return "?"
    f, ln = loc.rsplit(":", 1)
    try:
        ln = int(ln)
    except ValueError:
        return "?"
    best = None
    for k, v in spans.items():
        if k.startswith("site::") and v["file"] == f and v["lines"][0] <= ln <= v["lines"][1]:
            best = k.rsplit("::", 1)[-1].split("@")[0]
    return best or f


MODEL_SITE = {"panic:optimum_theta": "optimum_theta", "panic:compute_sign": "compute_sign",
              "panic:optimum_poling_period": "optimum_poling_period", "panic:nelder_mead": "nelder_mead_1d"}
NF_NAME = {"idler.theta": "idler.theta", "zs": "zs", "zi": "zi", "pp.period": "pp.period"}


def coarse_real(spans, r):
    c = cc.real_class(r)
    if c.startswith("panic@"):
        return "panic:" + site_function(spans, r.get("loc", ""))
    return c


def coarse_model(label):
    if label.startswith("panic:"):
        return "panic:" + MODEL_SITE.get(label, label[6:])
    return label


def classify(o, windows):
    """facts about a configuration that the property's clauses refer to (computed from the parsed configuration)"""
    c = o["cfg"]
    lp = f64_of_hex(c["pump"]["wavelength_nm"])
    ls = f64_of_hex(c["signal"]["wavelength_nm"])
    # an expression crystal has no window of its own; the stream's expressions are BBO_1's Sellmeier formula
    w = windows.get("BBO_1" if c["crystal"]["kind"] == "Expr" else c["crystal"]["kind"])
    lam = [lp, ls]
    if c["idler"] != "auto":
        lam.append(f64_of_hex(c["idler"]["wavelength_nm"]))
    elif ls > lp:
        lam.append(ls * lp / (ls - lp))
    inside = w is not None and all(w[0] * 1e9 <= x <= w[1] * 1e9 for x in lam)
    sig = c["signal"]
    both = sig["theta_deg"] is not None and sig["theta_external_deg"] is not None
    neither = sig["theta_deg"] is None and sig["theta_external_deg"] is None
    idl_bad = False
    if c["idler"] != "auto":
        i = c["idler"]
        idl_bad = (i["theta_deg"] is None) == (i["theta_external_deg"] is None)
    return {"lp": lp, "ls": ls, "inside": inside, "both": both, "neither": neither, "idler_angle_bad": idl_bad,
            "theta_auto": c["crystal"]["theta_deg"] == "auto", "pp": "off" if c["pp"] == "off" else ("auto" if c["pp"]["period_um"] == "auto" else "explicit"),
            "idler": "auto" if c["idler"] == "auto" else "explicit", "ls_le_lp": ls <= lp,
            "length_m": f64_of_hex(c["crystal"]["length_um"]) * 1e-6}


def sig_internal(o):
    """the signal direction is given by its INTERNAL angle (theta_deg), not by theta_external_deg"""
    sg = o["cfg"]["signal"]
    return sg["theta_deg"] is not None and sg["theta_external_deg"] is None


def oracle(ctx, obs, spans, windows):
    """S5: the property's clauses on the implementation."""
    for o in obs:
        if o.get("kind") == "harness_crash":
            ctx.violation("S5", "harness crashed", {"kind": "crash"}, o)
        if o.get("kind") != "cfg":
            continue
        if o["parse"] != "ok":
            if o["parse"] == "panic":
                ctx.violation("S5", "deserialising a configuration panicked: " + o.get("parse_msg", ""), {"kind": "parse_panic"}, o)
            ctx.count("parse:" + o["parse"])
            continue
        k = classify(o, windows)
        r = o["real"]
        key = ("cfg", json.dumps(o["json"], sort_keys=True))
        ctx.seen(key)
        combo = f"theta={'auto' if k['theta_auto'] else 'explicit'},pp={k['pp']},idler={k['idler']}"
        ctx.count("class:" + r["class"])
        ctx.count("stream:" + (",".join(t for t in o["tags"] if not t.startswith("omit:")) or "valid"))
        detail = {"config": o["json"], "outcome": {kk: r[kk] for kk in ("class", "msg", "loc", "nonfinite")}, "combination": combo,
                  "tags": o["tags"]}
        if not k["inside"]:
            ctx.count("outside_window")
            continue
        fn = site_function(spans, r.get("loc", "")) if r["class"] == "panic" else None
        # the cause is OBSERVED, not inferred from the panic site: "nan_cost" only when the public call
        # signal.theta_external(crystal at the placeholder angle) -- the quantity optimum_theta feeds into its cost function --
        # is itself non-finite on this input; a panic in the same function on any other input is a different defect
        orc = o["shadow"]["oracles"]
        ext_nonfinite = "snell_ext" in orc and orc["snell_ext"] is None and not orc.get("index_panics")
        internal = sig_internal(o)
        # likewise "crystal_expression_unevaluable": the crystal's own public index function (CrystalType::get_indices at the
        # signal wavelength) panics for this configuration's crystal
        index_panics = bool(orc.get("index_panics"))
        # which of the two searches panicked: the last step of the shadow construction
        steps = o["shadow"]["steps"]
        search = {"optimum_theta": "crystal_angle", "optimum_poling_period": "poling_period"}.get(steps[-1]["step"] if steps else "", "none")
        period_nan = search == "poling_period" and (orc.get("dkz0") is None or bool(orc.get("nm_period_cost_nan")))
        cause = ("signal_le_pump" if k["ls_le_lp"] else
                 "crystal_expression_unevaluable" if index_panics and o["cfg"]["crystal"]["kind"] == "Expr" else
                 "nan_cost" if fn == "nelder_mead_1d" and search == "crystal_angle" and ext_nonfinite else
                 "nan_cost_period_search" if fn == "nelder_mead_1d" and period_nan else "other")
        if internal:
            angle = "internal_beyond_tir" if ext_nonfinite else "internal"
        else:
            te = o["cfg"]["signal"]["theta_external_deg"]
            angle = "external_beyond_90deg" if te is not None and abs(f64_of_hex(te)) >= 90.0 else "external"
        if r["class"] == "panic":
            ctx.violation("S5", f"try_as_spdc panics ({r['loc']}: {r['msg'][:100]}) for a window-valid configuration [{combo}, "
                          f"signal {k['ls']} nm, pump {k['lp']} nm, signal angle {angle}]; the property requires Ok or Err",
                          {"kind": "panic", "site": fn, "cause": cause, "theta": "auto" if k["theta_auto"] else "explicit",
                           "signal_angle": angle, "search": search}, detail)
        if r["class"] == "ok" and r["nonfinite"]:
            zero_period = o["cfg"]["pp"] != "off" and o["cfg"]["pp"]["period_um"] != "auto" and f64_of_hex(o["cfg"]["pp"]["period_um"]) == 0.0
            cause = "zero_period" if zero_period else ("waist_position_infinite" if set(r["nonfinite"]) <= {"zs", "zi"} else "other")
            why = {"zero_period": " (poling period 0)", "waist_position_infinite": " (index_along returns 0 for the z direction, so -L/(2n) is -inf; cf. C02)"}.get(cause, "")
            ctx.violation("S5", f"try_as_spdc returns Ok with non-finite {r['nonfinite']}{why} [{combo}]",
                          {"kind": "nonfinite", "cause": cause}, detail)
        # every refractive index of a constructed setup is finite and positive (inside the window)
        if r["class"] == "ok" and isinstance(r.get("indices"), dict):
            ctx.count("indices_checked")
            badix = [b for b, v in r["indices"].items() if v is None or v == "panic" or not (f64_of_hex(v) > 0.0)]
            if badix and not bool(orc.get("index_panics")):
                ctx.violation("S5", f"try_as_spdc returns Ok but the refractive index of {badix} is not a finite positive number [{combo}]",
                              {"kind": "nonfinite", "cause": "refractive_index"}, dict(detail, indices=r["indices"]))
        # the repairs of F7b / F7f / F7g are in the code: the outcome is an ERROR (rules stated whatever the source-derived flags say:
        # a flag that flips back is reported here with the concrete configuration, besides the broken obligation C17_repairs_now)
        fl = {"validates_crystal": True, "external_range": True, "total_reflection": True}
        if fl.get("validates_crystal") and bool(orc.get("index_panics")) and not k["ls_le_lp"] and r["class"] != "err":
            ctx.violation("S5", f"a crystal whose expressions cannot be evaluated is not rejected (outcome {r['class']})",
                          {"kind": "rule_bad_crystal"}, detail)
        sg0 = o["cfg"]["signal"]
        if fl.get("external_range") and sg0["theta_deg"] is None and sg0["theta_external_deg"] is not None \
                and abs(f64_of_hex(sg0["theta_external_deg"])) >= 90.0 and not k["ls_le_lp"] and not bool(orc.get("index_panics")) \
                and r["class"] != "err":
            ctx.violation("S5", f"an external signal angle of 90 degrees or more is not rejected (outcome {r['class']})",
                          {"kind": "rule_external_range"}, detail)
        idl0 = o["cfg"]["idler"]
        if idl0 != "auto" and idl0["theta_deg"] is None and idl0["theta_external_deg"] is not None \
                and abs(f64_of_hex(idl0["theta_external_deg"])) >= 90.0 and not k["ls_le_lp"] and not bool(orc.get("index_panics")) \
                and r["class"] != "err":
            ctx.violation("S5", f"an external IDLER angle of 90 degrees or more is not rejected (outcome {r['class']})",
                          {"kind": "rule_external_range", "beam": "idler"}, detail)
        if fl.get("total_reflection") and k["theta_auto"] and k["pp"] == "off" and "snell_ext" in orc and orc["snell_ext"] is None \
                and not bool(orc.get("index_panics")) and not k["ls_le_lp"] and r["class"] != "err":
            ctx.violation("S5", f"automatic crystal angle for a signal beyond total internal reflection is not rejected (outcome {r['class']})",
                          {"kind": "rule_total_reflection"}, detail)
        # the four named error rules
        if (k["both"] or k["neither"]) and r["class"] != "err":
            ctx.violation("S5", f"both/neither signal angle given but the outcome is {r['class']}", {"kind": "rule_signal_angles"}, detail)
        if k["theta_auto"] and k["pp"] != "off" and not (k["both"] or k["neither"]) and r["class"] == "ok":
            ctx.violation("S5", "automatic crystal angle together with periodic poling is accepted", {"kind": "rule_auto_theta_poling"}, detail)
        if k["ls_le_lp"] and not (k["both"] or k["neither"]) and r["class"] == "ok":
            ctx.violation("S5", f"signal wavelength {k['ls']} nm <= pump wavelength {k['lp']} nm is accepted (Ok) [{combo}]; the property "
                          "requires an error", {"kind": "signal_le_pump_accepted"}, detail)
        pp0 = o["cfg"]["pp"]
        if pp0 != "off" and pp0["period_um"] != "auto" and f64_of_hex(pp0["period_um"]) == 0.0 and not (k["both"] or k["neither"]) \
                and not k["ls_le_lp"] and r["class"] != "err":
            ctx.violation("S5", f"an explicit poling period of 0 is not rejected (outcome {r['class']})", {"kind": "rule_zero_period"}, detail)
        nm = o["shadow"]["oracles"].get("nm_period")
        if k["pp"] == "auto" and nm is not None and not k["ls_le_lp"] and f64_of_hex(nm) > k["length_m"] and r["class"] == "ok":
            ctx.violation("S5", "automatic poling period longer than the crystal is accepted", {"kind": "rule_impossible_period"}, detail)
        # ... independently of the search: for a COLLINEAR signal the period that phase-matches is 2 pi / |delta k_z| of the unpoled
        # crystal (closed form, C04_collinear_root); if that is longer than the crystal (by more than the 1 um zone of the known C04
        # finding F4b) the automatic period cannot phase-match within the crystal and the outcome has to be the error
        dk0 = o["shadow"]["oracles"].get("dkz0")
        if k["pp"] == "auto" and dk0 is not None and not k["ls_le_lp"] and sg0["theta_deg"] is not None and f64_of_hex(sg0["theta_deg"]) == 0.0 \
                and sg0["theta_external_deg"] is None and not k["theta_auto"] and f64_of_hex(dk0) != 0.0:
            need = 2 * 3.141592653589793 / abs(f64_of_hex(dk0))
            ctx.count("collinear_period_vs_length:" + ("longer" if need > k["length_m"] else "fits"))
            if need > k["length_m"] + 1.5e-6 and r["class"] == "ok":
                got = f64_of_hex(r["setup"]["pp"]["period"]) if r["setup"]["pp"].get("on") else None
                ctx.violation("S5", f"automatic poling period accepted (period {got!r} m) although the crystal ({k['length_m']!r} m) is shorter than the "
                              f"period that phase-matches ({need!r} m = 2 pi / |delta k_z|, collinear signal)",
                              {"kind": "rule_impossible_period", "cause": "collinear_root_beyond_length"}, detail)
        # the JSON entry point must behave like try_as_spdc
        fj = o["from_json"]
        if fj["class"] != r["class"] or (fj["class"] == "ok" and not fj.get("same")):
            if not (r["class"] == "ok" and r["nonfinite"]):  # NaN != NaN
                ctx.violation("S5", f"SPDC::from_json ends {fj['class']} but try_as_spdc ends {r['class']} on the same configuration",
                              {"kind": "from_json_differs"}, detail)
        calls = o.get("calls")
        if calls:
            ctx.count("calls")
            if calls["class"] != "ok":
                msg = calls.get("msg", "")
                # the cause by the class of the error that was unwrapped (text read from the source by the generator) and by the
                # panic's location, not by message texts
                cfn = site_function(spans, calls.get("loc", ""))
                cause = ("optimum_period_does_not_fit" if cc.error_class(msg) == "err:impossible_period" else
                         "search_failed" if calls.get("loc", "").startswith("src/math/nelder_mead.rs") else
                         "derivative_assert" if calls.get("loc", "").startswith("src/math/differentiation.rs") else "other")
                ctx.violation("S5", f"spectrum/rate/HOM call panics on a successfully constructed setup: {msg[:120]} at {calls.get('loc')}",
                              {"kind": "calls_panic", "site": site_function(spans, calls.get("loc", "")), "cause": cause}, dict(detail, calls=calls))
            elif calls["inside_window"] and calls.get("normalized_nonfinite") and not calls["nonfinite"]:
                # the normalised spectrum divides by the optimised setup's JSI at its own centre: x/0 when that is exactly 0
                cause = "reference_zero" if calls.get("reference_zero") else "other"
                ctx.violation("S5", "non-finite jsi_normalized_range from a successfully constructed setup on an in-window grid"
                              + (" (the reference -- the optimised setup's JSI at its centre -- is exactly 0)" if cause != "other" else ""),
                              {"kind": "calls_nonfinite", "what": "jsi_normalized", "cause": cause}, dict(detail, calls=calls))
            elif calls["inside_window"] and calls["nonfinite"]:
                # the OBSERVED cause: the coincidence rate over the grid is exactly 0 (an identically zero JSA is the extreme case); or
                # the first intermediate quantity of the JSA at the setup's centre that is not finite (public accessors, in the code's
                # order: external angles, delta k, pump amplitude, phase-matching integrand)
                fnf = calls.get("first_nonfinite", "none")
                cause = "zero_coincidence_counts" if f64_of_hex(calls["cc"]) == 0.0 else \
                    ("idler_external_angle_undefined" if "jsa" in calls["nonfinite"] and fnf == "idler_external_angle" else
                     ("first_nonfinite:" + fnf if fnf != "none" else "other"))
                ctx.violation("S5", f"non-finite {calls['nonfinite']} from a successfully constructed setup on an in-window grid"
                              + (" (the coincidence JSA integrates to 0 on the grid: 0/0 in the rate normalisation)" if cause == "zero_coincidence_counts" else
                                 " (the idler is beyond total internal reflection: idler.theta_external is NaN and enters the phase-matching integrand)"
                                 if cause == "idler_external_angle_undefined" else ""),
                              {"kind": "calls_nonfinite", "what": "jsa" if cause == "idler_external_angle_undefined" else ",".join(calls["nonfinite"]),
                               "cause": cause}, dict(detail, calls=calls))


def orc_of(o):
    return o["shadow"]["oracles"]


def api_oracle(ctx, obs):
    """S5 at the Beam / IdlerBeam / SPDC level: a signal wavelength not longer than the pump's is an error there too"""
    for o in obs:
        if o.get("kind") != "api":
            continue
        ls, lp = f64_of_hex(o["ls"]), f64_of_hex(o["lp"])
        for call in ("try_new_optimum", "try_new_optimum_unpoled", "optimum_idler", "with_optimum_idler"):
            ctx.seen(("api", o["case"], call))
            c = o[call]
            detail = {"call": call, "signal_wavelength_m": ls, "pump_wavelength_m": lp, "outcome": c}
            if ls <= lp and c["class"] != "err":
                ctx.violation("S5", f"{call} with signal wavelength {ls!r} m <= pump wavelength {lp!r} m ends {c['class']} "
                              f"({c.get('msg', '')[:80]}); the property requires an error", {"kind": "api_signal_le_pump", "call": call}, detail)
            if ls > lp and (c["class"] != "ok" or c.get("wavelength_ok") is False):
                ctx.violation("S5", f"{call} fails or gives a non-finite idler for a valid signal/pump pair: {c}", {"kind": "api_valid_rejected", "call": call}, detail)


def api_correspondence(ctx, obs, units):
    """S4: the model's IdlerBeam::try_new_optimum (Model/Config.v: idler_optimum) vs the implementation on the API cases"""
    cases, index = [], {}
    for i, o in enumerate(x for x in obs if x.get("kind") == "api"):
        tbl = cc.otable_term({"idler_theta": "0x0000000000000000", "snell_inv": [], "waist_pos": []})
        e = (f"cls (idler_optimum Q_ops (oracles_of_table {tbl}) {cc.beam_term(o['signal'])} {cc.beam_term(o['pump'])} "
             f"{cc.crystal_term(o['crystal'])} PolOff)")
        cases.append((f"api{i}", e))
        index[f"api{i}"] = o
    if not cases:
        return 0
    res = run_compute_cases(ctx, "C17api", cc.IMPORTS, "", cases, shards=1)
    ctx.cov["obligations"] += len(cases)
    nbad = 0
    for cid, o in index.items():
        m = res.get(cid, "").replace("%string", "").strip().strip('"')
        r = cc.real_class(o["try_new_optimum_unpoled"])
        if m != r:
            nbad += 1
            detail = {"case": o["case"], "model": m, "implementation": o["try_new_optimum_unpoled"]}
            ctx.case_failures.append(detail)
            ctx.violation("S4", f"IdlerBeam::try_new_optimum: model {m} vs implementation {r} ({o['case']})",
                          {"kind": "model_mismatch", "what": "api_idler_optimum"}, detail, found_input=False)
        else:
            ctx.cov["discharged"] += 1
    return nbad


def composed_checks(ctx, obs, label="C17nm", limit=40):
    """S4 for the COMPOSED model (Model/Cfg_Composed.v: the oracle record instantiated with C03/C04's generated models):
    (a) the binary64 instance of Model/NM1d.v, run by vm_compute on the recorded cost table of the automatic-period search of this
        very configuration, must return the implementation's result and evaluation sequence bit for bit (so the recorded oracle
        answer IS the composed model's);  (b) predictions of the composition theorems on the implementation's values:
        accepted automatic period: MIN_POSITIVE <= |p| <= L and sign p = sign of the unpoled mismatch (C04_sign_and_bound through
        C17_period_is_C04); collinear signal: |p| = 2 pi / |dkz| (C04_collinear_root); automatic crystal angle in [0, pi/2]."""
    from props import c04 as c04mod
    cases, index = [], {}
    pending = []
    nbad = 0
    for o in obs:
        if o.get("kind") != "cfg" or o["parse"] != "ok":
            continue
        orc = o["shadow"]["oracles"]
        detail = {"config": o["json"], "tags": o["tags"]}
        tr = orc.get("nm_period_trace")
        if tr:
            # tables with NaN costs (undefined candidates: the F7h class; the solver and Model/NM1d.v treat them as +infinity) first
            has_nan = any(f64_of_hex(c_) != f64_of_hex(c_) for _, c_ in tr["table"])
            pending.append((0 if has_nan else 1, len(pending), o, tr, has_nan))
        st = {s["step"]: s for s in o["shadow"]["steps"]}
        sp = st.get("optimum_poling_period")
        z = orc.get("dkz0")
        problems = []
        if sp and sp["class"] == "ok" and sp.get("value") and z and is_finite_hex(sp["value"]):
            p, zz = f64_of_hex(sp["value"]), f64_of_hex(z)
            L = f64_of_hex(o["cfg"]["crystal"]["length_um"]) * 1e-6
            ctx.count("composed_period_predictions")
            if not (2.2250738585072014e-308 <= abs(p) <= L * (1 + 1e-12)):
                problems.append(f"accepted automatic period {p!r} outside [MIN_POSITIVE, L = {L!r}]")
            if zz != 0 and (p > 0) != (zz > 0):
                problems.append(f"sign of the automatic period {p!r} differs from the sign of the unpoled mismatch {zz!r}")
            sig = o["cfg"]["signal"]
            collinear = (sig["theta_deg"] is not None and f64_of_hex(sig["theta_deg"]) == 0.0) or \
                        (sig["theta_external_deg"] is not None and f64_of_hex(sig["theta_external_deg"]) == 0.0 and sig["theta_deg"] is None)
            if collinear and zz != 0:
                root = 2 * 3.141592653589793 / abs(zz)
                if root <= L * (1 - 1e-9) and abs(abs(p) - root) > 1e-6 * root:
                    problems.append(f"collinear signal: automatic period |p| = {abs(p)!r} is not 2 pi / |dkz| = {root!r}")
        # the definedness guard of the composed external angle: asin(n sin theta_s) is defined iff |n sin theta_s| <= 1
        if "snell_ext" in orc and orc.get("snell_arg") is not None and not orc.get("index_panics"):
            a = abs(f64_of_hex(orc["snell_arg"]))
            ctx.count("composed_guard_predictions")
            if abs(a - 1.0) > 1e-9 and (a <= 1.0) != (orc["snell_ext"] is not None):
                problems.append(f"external angle: |n sin theta_s| = {a!r} but signal.theta_external is "
                                f"{'defined' if orc['snell_ext'] is not None else 'not finite'} (composed guard: defined iff <= 1)")
        th = st.get("optimum_theta")
        if th and th["class"] == "ok" and th.get("value"):
            t = f64_of_hex(th["value"])
            ctx.count("composed_theta_predictions")
            if not (0.0 <= t <= 1.5707963267948966 * (1 + 1e-15)):
                problems.append(f"automatic crystal angle {t!r} rad outside [0, pi/2]")
        for pr in problems:
            nbad += 1
            ctx.case_failures.append(dict(detail, problem=pr))
            ctx.violation("S4", "prediction of the composed model (C03/C04 kernels) fails on the implementation: " + pr,
                          {"kind": "composed_prediction", "what": pr.split(":")[0][:40]}, dict(detail, problem=pr), found_input=False)
    for _, _, o, tr, has_nan in sorted(pending, key=lambda t: t[:2])[:limit]:
        cid = f"n{o['id']}"
        cases.append((cid, c04mod.nm_expr_table(dict(tr, result={"x": tr["result"]}))))
        index[cid] = o
        if has_nan:
            ctx.count("nm_period_tables_with_nan_costs")
    if cases:
        imports = ("From Coq Require Import List Bool ZArith Floats.\nFrom SpdVerif Require Import Model.NM1d Proofs.C04_cases.\n"
                   "Import ListNotations.\nLocal Open Scope float_scope.\n")
        res = run_compute_cases(ctx, label, imports, "", cases, shards=min(NCPU, len(cases)))
        ctx.cov["obligations"] += len(cases)
        for cid, o in index.items():
            txt = res.get(cid, "")
            if txt.replace(" ", "").startswith("(true,true"):
                ctx.cov["discharged"] += 1
            else:
                nbad += 1
                detail = {"config": o["json"], "tags": o["tags"], "model_output": txt[:300]}
                ctx.case_failures.append(detail)
                ctx.violation("S4", f"binary64 Nelder-Mead model (Model/NM1d.v) and nelder_mead_1d disagree on the automatic-period search of configuration {o['id']}",
                              {"kind": "model_mismatch", "what": "nm1d_period_search"}, detail, found_input=False)
    return nbad


def correspondence(ctx, obs, spans, units, label="C17"):
    """S4: model (Coq, Q instance, recorded oracle answers) vs implementation."""
    defs = f"Definition UU : units Q := {cc.units_term(units)}.\nDefinition MP : Q := {cc.qh(units['min_positive'])}.\n"
    cases, index = [], {}
    for o in obs:
        if o.get("kind") != "cfg" or o["parse"] != "ok" or not cc.numeric_ok(o["cfg"]):
            continue
        orc = o["shadow"]["oracles"]
        r = o["real"]
        if orc.get("index_panics"):
            # outside the model: its refractive-index oracle is a total function; a crystal whose own public index function
            # panics (expression with an unbound name) is judged by S5 alone (finding F7g)
            ctx.count("outside_model:index_function_panics")
            if r["class"] != "panic":
                ctx.count("outside_model:unevaluable_crystal_" + r["class"])   # no index needed on this path (everything explicit)
            continue
        real = "None"
        if r["class"] == "ok":
            real = f"(Some {cc.spdc_term(r['setup'])})"
        cid = f"c{o['id']}"
        cases.append((cid, f"run_try_as_spdc UU MP {cc.otable_term(orc)} {cc.cfg_term(o['cfg'])} {real}"))
        index[cid] = o
    res = run_compute_cases(ctx, label, cc.IMPORTS, defs, cases, shards=min(NCPU, max(1, len(cases))))
    nbad = 0
    ctx.cov["obligations"] += len(cases)
    for cid, o in index.items():
        rep = cc.parse_report(res.get(cid, ""))
        r = o["real"]
        detail = {"config": o["json"], "tags": o["tags"], "model": rep, "implementation": {kk: r[kk] for kk in ("class", "msg", "loc", "nonfinite")},
                  "steps": [(s["step"], s["class"], s.get("loc", "")) for s in o["shadow"]["steps"]]}
        if rep is None:
            nbad += 1
            ctx.case_failures.append(detail)
            ctx.violation("S4", f"model run produced no result for configuration {o['id']}", {"kind": "model_run"}, detail, found_input=False)
            continue
        problems = []
        # the simplex search may return exactly the upper bound L (binary64 product length_um * 1e-6); the model compares with the
        # exact rational L: within rounding of that branch boundary the two may legitimately differ
        nmp = orc_of(o).get("nm_period")
        if nmp is not None:
            lm = f64_of_hex(o["cfg"]["crystal"]["length_um"]) * 1e-6
            if abs(f64_of_hex(nmp) - lm) <= 1e-12 * lm and {coarse_model(rep["class"]), coarse_real(spans, r)} == {"ok", "err:impossible_period"}:
                ctx.count("branch_boundary_skipped")
                ctx.cov["discharged"] += 1
                continue
        if coarse_model(rep["class"]) != coarse_real(spans, r):
            problems.append(f"outcome: model {coarse_model(rep['class'])} vs implementation {coarse_real(spans, r)}")
        if r["class"] == "ok":
            want_nf = sorted(NF_NAME.get(x, x) for x in r["nonfinite"])
            if sorted(rep["nf"]) != want_nf:
                problems.append(f"non-finite fields: model {sorted(rep['nf'])} vs implementation {want_nf}")
            if rep["mis"]:
                problems.append("fields differ: " + ",".join(rep["mis"]))
        mt = [(a, coarse_model(b)) for a, b in rep["trace"]]
        it = [(s["step"], coarse_real(spans, s)) for s in o["shadow"]["steps"]]
        if mt and mt[0][0] == "validate":
            it = mt   # the code rejects the wavelengths before any of the steps the shadow construction replays
        if mt != it:
            problems.append(f"call trace: model {mt} vs implementation {it}")
        if problems:
            nbad += 1
            detail["problems"] = problems
            ctx.case_failures.append(detail)
            ctx.violation("S4", f"model and implementation disagree on configuration {o['id']}: " + "; ".join(problems)[:400],
                          {"kind": "model_mismatch", "what": problems[0].split(":")[0]}, detail, found_input=False)
        else:
            ctx.cov["discharged"] += 1
    return nbad


def run(ctx):
    binp = build_harness(ctx)
    msgs, spans = regen(ctx, ["config_tables", "config_sites", "config_steps"])
    try:
        ctx.cov["repair_flags"] = cc.repair_flags()     # also exported to the harness (CFG_REPAIR_FLAGS)
    except OSError:
        ctx.cov["repair_flags"] = {}
    ctx.cov["translated_spans"] = {k: v for k, v in spans.items() if k.startswith(("pm_type", "polarization", "math::sigfigs", "config::", "site::"))}
    for m in msgs:
        ctx.proof_failures.append(("Gen/Config*.v", "translator", m))
    # Model/ConfigCheck.vo (the executable side of S4) is an explicit build target: S4 runs whenever Props and Model compile
    proved = (not msgs) and prove(ctx, "C17", extra_targets=["Model/ConfigCheck.vo", "Proofs/C04_cases.vo"])
    # historical records of repaired defects (flags pinned to their old values); no stage depends on them
    okf, ff, _ = coq_build(ctx, ["Findings/C17_F7.vo", "Findings/C17_F7b_composed.vo"])
    if not okf:
        ctx.note("records Findings/C17_F7.v / Findings/C17_F7b_composed.v do not compile (no check depends on them)")
    n = 400 if ctx.tier == "quick" else 4000
    ncalls = 40 if ctx.tier == "quick" else 300
    if getattr(ctx, "replay", None):
        rp = json.load(open(ctx.replay if os.path.isabs(ctx.replay) else os.path.join(VERIF, ctx.replay)))
        obs = run_harness(ctx, binp, ["c17", "replay"], stdin=json.dumps(rp["detail"].get("config", {})))
    else:
        obs = run_harness(ctx, binp, ["c17", ctx.seed, n, ncalls])
    units = next((o["u"] for o in obs if o.get("kind") == "units"), None)
    if units is None:
        raise CheckError("harness printed no units record")
    windows = {c["id"]: (f64_of_hex(c["lo"]), f64_of_hex(c["hi"])) for c in units["crystals"]}
    for o in obs[:40]:
        if o.get("kind") == "cfg" and o["parse"] == "ok":
            ctx.sample({"config": o["json"], "outcome": o["real"]["class"], "message": o["real"]["msg"][:80], "location": o["real"]["loc"]}, limit=5)
    nbad = correspondence(ctx, obs, spans, units) + api_correspondence(ctx, obs, units)
    if os.path.exists(os.path.join(COQ, "Proofs", "C04_cases.v")):
        nbad += composed_checks(ctx, obs, limit=40 if ctx.tier == "quick" else 400)
    oracle(ctx, obs, spans, windows)
    api_oracle(ctx, obs)
    if (not proved or nbad) and not cc.unknown_failing_input(ctx):
        ctx.log("S5 deep search for a failing input (proof obligations / correspondence are broken)")
        for k in range(3):
            obs2 = run_harness(ctx, binp, ["c17", ctx.seed + 7919 * (k + 1), 3000, 40])
            oracle(ctx, obs2, spans, windows)
            if cc.unknown_failing_input(ctx):
                break
    ctx.cov["rule"] = ("structured JSON configurations: 11 crystals x 5 types x 8 spellings x auto/explicit crystal angle x poling off/auto/explicit "
                       "(+apodization kinds) x idler omitted/auto/explicit x internal/external angles x waist positions auto/explicit/omitted x "
                       "counter_propagation true/false/omitted, wavelengths drawn inside the crystal's window; boundary/malformed classes: "
                       "lambda_s <= lambda_p (=, 0.9x, random) in every combination, both/neither signal angle, auto angle + poling, angles in "
                       "+-400 deg, all-zero angles, crystal angle 0 with 1e-6..0.5 deg beams, explicit period > L, auto period in a 0.5-20 um "
                       "crystal, expression crystals (valid / unknown variable / unknown function); plus a fixed corpus; spectrum/rate/HOM calls "
                       "on constructed setups with 3x3 and 5x5 grids, Simpson 6/10 and the default integrator. distinct = distinct JSON text")
    ctx.cov["clauses"] = {
        "both/neither signal angle is an error": "proved (all configs, all oracles) + validated on the stream",
        "auto crystal angle with poling is an error": "proved + validated",
        "lambda_s <= lambda_p is an error": "proved for every configuration (C17_rule_signal_le_pump: the entry validation read off the source by the generator) + validated in every auto/explicit combination",
        "an explicit poling period of 0 is an error": "proved (C17_rule_bad_period) + validated",
        "auto poling period that does not fit is an error": "proved (rule on the simplex result) + validated with the replayed search",
        "never panics": "proved for every configuration and EVERY oracle record on the repaired code (C17_no_panic_full; the only hypothesis is "
                        "the carrier law scale_order): the wavelengths are validated first, no nelder_mead_1d call can fail (the flag "
                        "searches_cannot_fail, read off Cost1d::cost, is applied to all three searches of the model), a signal beyond total "
                        "internal reflection / an external angle >= 90 deg (signal or idler) / a period search that finds nothing / an unevaluable "
                        "crystal expression are ERRORS (rules 6, 7, 4', S5 rule_bad_crystal); C17_flags_now / C17_repairs_now pin the flags and "
                        "reverting a repair gives a concrete-input violation; panic sites scanned over the whole call graph",
        "all derived values finite / period infinite only when poling off": "proved_partial (C17_ok_finite_or_err_partial / _composed_partial: needs, per configuration, the results of its searches finite, its idler angle defined, the index along z not 0, the unpoled mismatch not exactly 0) + validated incl. the three refractive indices",
        "spectrum/rate/HOM calls finite": "validated_only (in-window 3x3 / 5x5 grids, three integrators, on constructed setups; normalised spectrum included; known: F7d, F7e)"}
    return finish(ctx, assumptions=[
        "L4 structural model: numerical kernels (Snell maps, simplex searches, delta k, idler angle, waist position) are oracles; their "
        "answers are recorded from the implementation through the public API and the model's outcome/fields/trace are compared per input; "
        "COMPOSED (Model/Cfg_Composed.v): the oracle record instantiated over the reals with C03/C04's generated models (optimum idler, "
        "auto period, auto angle, Nelder-Mead), each partial operation guarded by its definedness (asin argument in [-1, 1], sqrt argument "
        "> 0, divisor <> 0); what remains assumed: the Snell inverse (C13), binary64 rounding inside the guards, the index function outside "
        "the built-in crystals' windows, crystal expressions that evaluate (F7g)",
        "panic sites: the generator scans every function reachable from try_as_spdc / try_as_optimum / from_json (name-based call graph) "
        "for unwrap/expect/assert*/panic!/todo!/unimplemented!/unreachable!/indexing and refuses when the set differs from the modelled one; "
        "integer overflow and slice bounds inside dependencies are not scanned",
        "binary64 overflow/underflow not modelled; finiteness clauses are validated on the stream"])
