"""C07 — spectrum scales with power·deff², Gaussian pump envelope, exact zero off-support.

S2  tools/gen/spectrum.py regenerates Gen/Spectrum.v + Gen/Efficiencies.v from the Rust source (incl. the frame scan:
    power/deff are read only by common_norm)
S3  Props/C07.v: linearity / invariance of ratios, envelope (1 at centre, 1/2 at ± half the FWHM span, only there),
    support box exactly the property's, exact zeros, definedness (partial)
S4  generated model vs implementation: envelope values and normalisation constants by `interval`, the box test by `lra`
    on exact rationals (boundary points ± 1 ulp), counts = corr·Σ jsi·dw2
S5  the property's clauses on the Rust results: scaling over six decades (Rust vs Rust, 1e-12), exact zeros, product
    form, envelope against an independent 50-digit evaluation, finiteness in-window
"""
from decimal import Decimal, getcontext
from vlib.common import *
from vlib import auxprops

getcontext().prec = 60
PI_D = Decimal("3.14159265358979323846264338327950288419716939937510582097494")
C_D = Decimal(299792458)
IMPORTS = ("From SpdVerif Require Import Base.Rx Base.GridOps Gen.Grid Model.SpectrumSetup Gen.Spectrum Model.Spectrum Proofs.C07_support Proofs.C07_counts Proofs.C07_tac.\n"
           "Import ListNotations.\n")
IN_WINDOW_TAGS = ("center", "center0", "rand_in", "wide_in", "below_thr", "thr=alpha", "thr=alpha+", "thr=alpha-",
                  "hist_pump_diag", "hist_centre", "hist_rand")


def fh(s):
    return None if s is None else f64_of_hex(s)


def finite(x):
    return x is not None and x == x and abs(x) != float("inf")


def span_exact(wp_hex, fwhm_hex):
    """frequency span of the wavelength FWHM, from the pump frequency and FWHM, 60 digits, no cancellation"""
    wp, f = Decimal(frac_of_hex(wp_hex).numerator) / Decimal(frac_of_hex(wp_hex).denominator), \
        Decimal(frac_of_hex(fwhm_hex).numerator) / Decimal(frac_of_hex(fwhm_hex).denominator)
    lam = 2 * PI_D * C_D / wp
    return 2 * PI_D * C_D * f / ((lam - f / 2) * (lam + f / 2))


def dec_of_hex(h):
    fr = frac_of_hex(h)
    return Decimal(fr.numerator) / Decimal(fr.denominator)


def cond_tol(base, wp_hex, fwhm_hex):
    """tolerance = base + 2^-50 · ωp/span: the spectral width is a difference of two frequencies ≈ ωp, so binary64
    carries a relative error of about ε·ωp/span into the width, hence into every quantity divided by it"""
    k = Decimal(dec_of_hex(wp_hex)) / span_exact(wp_hex, fwhm_hex)
    return Fraction(base) + Fraction(1, 2**50) * Fraction(int(k) + 1)


# ------------------------------------------------------------------------------------------------ S5 oracle
def obs_key(o):
    """what identifies one observation within the output of a harness call with the same arguments (bit patterns included)"""
    k = o.get("kind")
    if k == "env":
        return ["env", o["setup"], o["fwhm"], o["w"], o["tag"]]
    if k == "sup":
        return ["sup", o["setup"], o["tag"], o["ws"], o["wi"], o["thr"]]
    if k == "scale":
        return ["scale", o["setup"], o["a"], o["b"]]
    if k == "hom2":
        return ["hom2", o["setup"], o["source1"], o["source2"]]
    if k == "counts":
        return ["counts", o["setup"], o["res"]]
    return [k, o.get("setup")]


def oracle(ctx, obs, args=None):
    for o in obs:
        n0 = len(ctx.violations)
        oracle_one(ctx, o)
        for v in ctx.violations[n0:]:     # how to re-run exactly this input: ./check C07 --replay <file>
            if isinstance(v.get("detail"), dict):
                v["detail"]["replay"] = {"harness_args": [str(a) for a in (args or [])], "key": obs_key(o)}


def oracle_one(ctx, o):
    if True:
        k = o["kind"]
        if k == "harness_crash":
            ctx.violation("S5", "harness crashed", {"kind": "crash"}, o)
        elif k in ("setup_fail", "scale_panic", "counts_panic", "norm_panic"):
            ctx.violation("S5", f"{k} on setup {o.get('setup')}: {str(o.get('error') or o.get('panic'))[:200]}",
                          {"kind": k, "setup": o.get("setup")}, o)
        elif k == "env":
            oracle_env(ctx, o)
        elif k == "sup":
            oracle_sup(ctx, o)
        elif k == "scale":
            oracle_scale(ctx, o)
        elif k == "counts":
            oracle_counts(ctx, o)
        elif k == "hom2":
            oracle_hom2(ctx, o)
        elif k == "hom2_panic":
            ctx.violation("S5", f"two-source HOM panicked on setup {o.get('setup')}: {str(o.get('panic'))[:200]}", {"kind": "hom2_panic", "setup": o.get("setup")}, o)
        elif k == "hist_skip":
            ctx.count("skipped:history:" + o["setup"])


def oracle_env(ctx, o):
    ctx.seen(("env", o["setup"], o["fwhm"], o["w"]))
    ctx.count("env:" + o["tag"])
    rep = {"setup": o["setup"], "pump_frequency": fh(o["wp"]), "pump_bandwidth_m": fh(o["fwhm"]), "omega": fh(o["w"]),
           "call": "pump_spectral_amplitude(omega, &spdc)"}
    if o.get("alpha") is None:
        ctx.violation("S5", f"pump_spectral_amplitude panicked: {o.get('panic')}", {"kind": "env_panic", "setup": o["setup"]}, rep)
        return
    a = fh(o["alpha"])
    rep["alpha"] = a
    if o["tag"] == "center" and a != 1.0:
        ctx.violation("S5", f"pump envelope at the pump centre frequency is {a!r}, not 1", {"kind": "env_center", "setup": o["setup"]}, rep)
        return
    span = span_exact(o["wp"], o["fwhm"])
    d = dec_of_hex(o["w"]) - dec_of_hex(o["wp"])
    # property form: intensity halves at |Δ| = span/2  <=>  amplitude = 2^(-2 (Δ/span)²)
    expo = -2 * (d / span) ** 2 * Decimal(2).ln()
    exp_a = expo.exp() if expo > -800 else Decimal(0)
    tol = Decimal(float(cond_tol(Fraction(1, 10**13), o["wp"], o["fwhm"])))
    if abs(Decimal(a) - exp_a) > 4 * tol:
        rep.update({"expected": float(exp_a), "frequency_span_of_fwhm": float(span)})
        what = (f"pump intensity at ± half the frequency span of the wavelength FWHM is {a*a!r}, not 1/2" if o["tag"].startswith("half")
                else f"pump envelope {a!r} differs from the Gaussian with half-maximum at ± half the FWHM span ({float(exp_a)!r})")
        ctx.violation("S5", what, {"kind": "envelope", "setup": o["setup"], "tag": o["tag"]}, rep)


def exact_outside(o):
    wp, ws, wi = frac_of_hex(o["wp"]), Fraction(fh(o["ws"])), Fraction(fh(o["wi"]))
    return ws <= 0 or wi <= 0 or ws > wp or wi > wp or abs(ws - wi) > Fraction(3, 4) * wp


ZERO_FIELDS = ["jsa_raw", "jsi_singles_raw", "jsa", "jsi", "jsi_singles", "jsa_n", "jsi_n", "jsi_singles_n"]


def is_zero(v):
    if isinstance(v, list):
        return all(fh(x) == 0.0 for x in v)
    return fh(v) == 0.0


def oracle_sup(ctx, o):
    ctx.seen(("sup", o["setup"], o["ws"], o["wi"], o["thr"]))
    ctx.count("sup:" + o["tag"].split("|")[0])
    rep = {"setup": o["setup"], "tag": o["tag"], "pump_frequency": fh(o["wp"]), "omega_s": fh(o["ws"]), "omega_i": fh(o["wi"]),
           "threshold": fh(o["thr"]), "alpha": fh(o.get("alpha")),
           "values": {f: ([fh(x) for x in o[f]] if isinstance(o.get(f), list) else fh(o.get(f))) for f in ZERO_FIELDS if o.get(f) is not None}}
    if o.get("panic") or o.get("panic_spectrum"):
        ctx.count("sup:panic:" + o["tag"].split("|")[0])
        if o["tag"] in IN_WINDOW_TAGS or exact_outside(o):
            ctx.violation("S5", f"spectrum evaluation panicked at ({fh(o['ws'])!r}, {fh(o['wi'])!r}): {o.get('panic') or o.get('panic_spectrum')}",
                          {"kind": "sup_panic", "setup": o["setup"], "tag": o["tag"]}, rep)
        return
    outside = exact_outside(o)
    alpha, thr = fh(o.get("alpha")), fh(o["thr"])
    below = (not outside) and alpha is not None and alpha < thr
    if outside or below:
        bad = [f for f in ZERO_FIELDS if o.get(f) is not None and not is_zero(o[f])]
        if bad:
            why = "outside the support box" if outside else f"where the envelope {alpha!r} is below the threshold {thr!r}"
            ctx.violation("S5", f"{', '.join(bad)} not exactly zero {why} at omega_s={fh(o['ws'])!r}, omega_i={fh(o['wi'])!r} (pump {fh(o['wp'])!r})",
                          {"kind": "support_zero", "setup": o["setup"], "tag": o["tag"].split('|')[0], "fields": bad}, rep)
        return
    # on the support: product form (bitwise: the code multiplies the same two doubles)
    if o.get("pm") is not None and alpha is not None and o.get("jsa_raw") is not None:
        pm = [fh(x) for x in o["pm"]]
        raw = [fh(x) for x in o["jsa_raw"]]
        exp = [alpha * pm[0], alpha * pm[1]]

        def same(x, y):
            # the phase-matching value comes from a SECOND call; simpson2d / the 1-D rules are rayon parallel sums whose
            # association depends on scheduling, so only agreement to 1e-12 is required.  NaN never counts as agreement.
            if x != x or y != y:
                return False
            return x == y or abs(x - y) <= 1e-12 * max(abs(x), abs(y))
        if any(v != v for v in raw + exp):
            ctx.count("sup:nan_product:" + o["tag"].split("|")[0])
            if o["tag"] in IN_WINDOW_TAGS:
                ctx.violation("S5", f"NaN in jsa_raw / phase matching inside the transmission window at ({fh(o['ws'])!r}, {fh(o['wi'])!r})",
                              {"kind": "finite", "setup": o["setup"]}, rep)
            return
        if not (same(raw[0], exp[0]) and same(raw[1], exp[1])):
            rep.update({"phasematch": pm, "expected": exp})
            ctx.violation("S5", f"jsa_raw {raw} is not envelope {alpha!r} x phasematching {pm} on the support",
                          {"kind": "product", "setup": o["setup"], "tag": o["tag"]}, rep)
        if o.get("pms") is not None and o.get("jsi_singles_raw") is not None:
            e2 = alpha * alpha * fh(o["pms"])
            if not same(fh(o["jsi_singles_raw"]), e2):
                rep.update({"phasematch_singles": fh(o["pms"]), "expected": e2})
                ctx.violation("S5", f"jsi_singles_raw {fh(o['jsi_singles_raw'])!r} is not envelope^2 x singles phasematching ({e2!r})",
                              {"kind": "product_singles", "setup": o["setup"], "tag": o["tag"]}, rep)
    if o["tag"] in IN_WINDOW_TAGS:
        vals = []
        for f in ZERO_FIELDS:
            v = o.get(f)
            vals += ([fh(x) for x in v] if isinstance(v, list) else [fh(v)])
        if not all(finite(x) for x in vals):
            ctx.violation("S5", f"joint spectrum not finite inside the transmission window at omega_s={fh(o['ws'])!r}, omega_i={fh(o['wi'])!r}",
                          {"kind": "finite", "setup": o["setup"]}, rep)


LINEAR = ["jsi", "jsi_singles", "jn", "jsn", "c", "rs", "ri"]
INVARIANT = ["jsi_n", "jsi_singles_n", "alpha", "jsi_singles_raw"]


def rel(x, y):
    if x == y:
        return 0.0
    if not (finite(x) and finite(y)):
        return float("inf")
    return abs(x - y) / max(abs(x), abs(y))


def oracle_scale(ctx, o):
    a, b = fh(o["a"]), fh(o["b"])
    ctx.seen(("scale", o["setup"], o["a"], o["b"]))
    ctx.count("scale")
    k = a * b * b
    B, S = o["base"], o["scaled"]
    rep = {"setup": o["setup"], "power_factor": a, "deff_factor": b, "expected_factor": k,
           "base": {f: fh(B[f]) for f in LINEAR + INVARIANT + ["schmidt", "hom_vis"] if B.get(f)},
           "scaled": {f: fh(S[f]) for f in LINEAR + INVARIANT + ["schmidt", "hom_vis"] if S.get(f)},
           "efficiencies_base": [fh(x) for x in B["eff"]], "efficiencies_scaled": [fh(x) for x in S["eff"]]}
    bad = []
    for f in LINEAR:
        if rel(fh(S[f]), k * fh(B[f])) > 1e-12:
            bad.append(f"{f}: {fh(S[f])!r} vs {k!r} x {fh(B[f])!r}")
    jb, jsc = [fh(x) for x in B["jsa"]], [fh(x) for x in S["jsa"]]
    c = (a ** 0.5) * abs(b)
    for i in range(2):
        if rel(jsc[i], c * jb[i]) > 1e-12:
            bad.append(f"jsa[{i}]: {jsc[i]!r} vs sqrt(a)|b| x {jb[i]!r}")
    for f in INVARIANT:
        if fh(S[f]) != fh(B[f]) and rel(fh(S[f]), fh(B[f])) > 1e-12:
            bad.append(f"{f} changes: {fh(B[f])!r} -> {fh(S[f])!r}")
    if [fh(x) for x in B["jsa_raw"]] != [fh(x) for x in S["jsa_raw"]]:
        bad.append("jsa_raw depends on power/deff")
    for i, nm in enumerate(["symmetric", "signal", "idler"]):
        if rel(fh(S["eff"][i]), fh(B["eff"][i])) > 1e-12:
            bad.append(f"{nm} efficiency changes: {fh(B['eff'][i])!r} -> {fh(S['eff'][i])!r}")
    for i in range(2):
        if rel(fh(S["jsa_n"][i]), fh(B["jsa_n"][i])) > 1e-12 and abs(fh(S["jsa_n"][i]) - fh(B["jsa_n"][i])) > 1e-13:
            bad.append(f"normalised jsa changes: {fh(B['jsa_n'][i])!r} -> {fh(S['jsa_n'][i])!r}")
    if B.get("schmidt") and S.get("schmidt"):
        if rel(fh(S["schmidt"]), fh(B["schmidt"])) > 1e-9:
            bad.append(f"Schmidt number changes: {fh(B['schmidt'])!r} -> {fh(S['schmidt'])!r}")
    elif bool(B.get("schmidt")) != bool(S.get("schmidt")):
        bad.append("Schmidt number computable for only one of the two setups")
    if abs(fh(S["hom_vis"]) - fh(B["hom_vis"])) > 1e-10:
        bad.append(f"HOM visibility changes: {fh(B['hom_vis'])!r} -> {fh(S['hom_vis'])!r}")
    if fh(S["hom_dt"]) != fh(B["hom_dt"]):
        bad.append("HOM time delay depends on power/deff")
    rb, rs_ = B.get("ranges"), S.get("ranges")
    if rb and rs_:
        def arr(v):
            return [fh(x) for x in v]
        for nm in rb["lin"]:
            xb, xs = arr(rb["lin"][nm]), arr(rs_["lin"][nm])
            if len(xb) != len(xs) or not xb or any(rel(y, k * x) > 1e-12 for x, y in zip(xb, xs)):
                i = next((i for i, (x, y) in enumerate(zip(xb, xs)) if rel(y, k * x) > 1e-12), 0)
                bad.append(f"{nm}[{i}]: {xs[i] if xs else None!r} vs {k!r} x {xb[i] if xb else None!r}")
        for nm in rb["amp"]:
            xb, xs = arr(rb["amp"][nm]), arr(rs_["amp"][nm])
            if len(xb) != len(xs) or not xb or any(rel(y, c * x) > 1e-12 for x, y in zip(xb, xs)):
                bad.append(f"{nm} does not scale with sqrt(a)|b|")
        for nm in rb["inv"]:
            xb, xs = arr(rb["inv"][nm]), arr(rs_["inv"][nm])
            if "hom" in nm or ("two_source" in nm and "rates" in nm):
                # rates are 1/2 - (interference term): compare the interference term relatively (a rate close to 1/2 hides it)
                def differs(x, y):
                    return not (finite(x) and finite(y)) or abs(x - y) > 1e-6 * max(abs(0.5 - x), abs(0.5 - y)) + 1e-13
            elif "two_source" in nm:
                def differs(x, y):
                    return not (finite(x) and finite(y)) or abs(x - y) > 1e-6 * max(abs(x), abs(y)) + 1e-12
            else:
                def differs(x, y):
                    return not (finite(x) and finite(y)) or abs(x - y) > 1e-10 * max(abs(x), abs(y))
            if len(xb) != len(xs) or not xb or any(differs(x, y) for x, y in zip(xb, xs)):
                i = next((i for i, (x, y) in enumerate(zip(xb, xs)) if differs(x, y)), 0)
                bad.append(f"{nm}[{i}] changes: {xb[i] if xb else None!r} -> {xs[i] if xs else None!r}")
        rep["ranges_base"] = {g: {nm: [fh(x) for x in v][:6] for nm, v in rb[g].items()} for g in rb}
        rep["ranges_scaled"] = {g: {nm: [fh(x) for x in v][:6] for nm, v in rs_[g].items()} for g in rs_}
    if bad:
        ctx.violation("S5", f"scaling power by {a:g} and deff by {b:g} ({o['setup']}): " + "; ".join(bad[:4]),
                      {"kind": "scaling", "setup": o["setup"], "fields": sorted({x.split(':')[0].split(' ')[0] for x in bad})}, rep)


def oracle_hom2(ctx, o):
    """two-source HOM with the sources scaled independently: visibilities and rates must not move"""
    ctx.seen(("hom2", o["setup"], tuple(o["source1"]), tuple(o["source2"])))
    ctx.count("hom2")
    B, S = o["base"], o["scaled"]
    f1, f2 = [fh(x) for x in o["source1"]], [fh(x) for x in o["source2"]]
    rep = {"setup": o["setup"], "source1_power_deff_factors": f1, "source2_power_deff_factors": f2,
           "call": "hom_two_source_visibilities(&a, &b, grid, grid, integrator) / hom_two_source_rate_series(&a.joint_spectrum(i), &b.joint_spectrum(i), grid, grid, Steps(-0.2 ps, 0.2 ps, 3)); "
                   "b = a with 1.3 x pump bandwidth; then a.pump_average_power *= f1[0], a.deff *= f1[1], b likewise with f2",
           "base": {k: [fh(x) for x in B[k]] for k in ("vis", "ss", "ii", "si", "dt")},
           "scaled": {k: [fh(x) for x in S[k]] for k in ("vis", "ss", "ii", "si", "dt")}}
    bad = []
    for k in ("vis", "ss", "ii", "si"):
        for i, (x, y) in enumerate(zip(B[k], S[k])):
            x, y = fh(x), fh(y)
            if not (finite(x) and finite(y)) or abs(x - y) > 1e-9 * max(1.0, abs(x)):
                bad.append(f"{k}[{i}]: {x!r} -> {y!r}")
    if [fh(x) for x in B["dt"]] != [fh(x) for x in S["dt"]]:
        bad.append("time delays depend on power/deff")
    if bad:
        ctx.violation("S5", f"two-source HOM ({o['setup']}): scaling source 1 by (P x{f1[0]:g}, deff x{f1[1]:g}) and source 2 by (P x{f2[0]:g}, deff x{f2[1]:g}) "
                            f"changes " + "; ".join(bad[:4]), {"kind": "hom2_scaling", "setup": o["setup"]}, rep)


def oracle_counts(ctx, o):
    ctx.seen(("counts", o["setup"], o["res"]))
    corr, dw2 = Fraction(fh(o["corr"])), Fraction(fh(o["dws"])) * Fraction(fh(o["dwi"]))
    for key, lst in (("c", "jsi"), ("rs", "jsi_singles"), ("ri", "jsi_singles_idler")):
        vals = [fh(x) for x in o[lst]]
        if not all(finite(v) and v >= 0 for v in vals):
            ctx.violation("S5", f"{lst} has a negative or non-finite value on the grid", {"kind": "counts_values", "setup": o["setup"]},
                          {"setup": o["setup"], lst: vals})
            continue
        model = float(corr * sum(Fraction(v) for v in vals) * dw2)
        if rel(model, fh(o[key])) > 1e-12:
            ctx.violation("S5", f"counts ({key}) {fh(o[key])!r} is not correction x sum of the spectrum x dws x dwi = {model!r}",
                          {"kind": "counts_sum", "setup": o["setup"], "which": key},
                          {"setup": o["setup"], "rate": fh(o[key]), "expected": model, "correction": fh(o["corr"])})


# ------------------------------------------------------------------------------------------------ S4 correspondence
def correspondence(ctx, obs, quick):
    goals, meta = [], {}

    def add(cid, goal, tac, m):
        goals.append((cid, goal, tac))
        meta[cid] = m
    envs = [o for o in obs if o["kind"] == "env" and o.get("alpha") and finite(fh(o["alpha"]))]
    if quick:   # centre / half-maximum / far points always, one random detuning per (setup, bandwidth)
        seen_r, keep = set(), []
        for o in envs:
            if o["tag"] == "rand":
                if "|" in o["setup"] or (o["setup"], o["fwhm"]) in seen_r:
                    continue
                seen_r.add((o["setup"], o["fwhm"]))
            keep.append(o)
        envs = keep
    for i, o in enumerate(envs):
        tol = cond_tol(Fraction(1, 10**13), o["wp"], o["fwhm"])
        add(f"e{i}", f"Rabs (pump_spectral_amplitude {coq_hex(o['w'])} (env_setup {coq_hex(o['wp'])} {coq_hex(o['fwhm'])} 0) - {coq_hex(o['alpha'])}) <= {coq_q(tol)}",
            "case_env", ("env", o))
    sups = [o for o in obs if o["kind"] == "sup" and not o.get("panic") and o.get("jsa_raw") is not None]
    for i, o in enumerate(sups):
        if "|thr" in o["tag"] or o["tag"].startswith("hist"):
            continue
        raw_zero = is_zero(o["jsa_raw"]) and is_zero(o["jsi_singles_raw"])
        alpha, thr = fh(o.get("alpha")), fh(o["thr"])
        st = f"(env_setup {coq_hex(o['wp'])} {coq_hex(o['fwhm'])} {coq_hex(o['thr'])})"
        W = f"{coq_hex(o['ws'])} {coq_hex(o['wi'])}"
        pm_nonzero = o.get("pm") is not None and any(fh(x) != 0 and finite(fh(x)) for x in o["pm"])
        if raw_zero and thr == 0.0 and not (alpha == 0.0 and not exact_outside(o)):
            # only the box can have produced this zero
            add(f"b{i}", f"invalid_frequencies {W} {st} = true", "case_box_true", ("box", o))
        elif not raw_zero:
            add(f"b{i}", f"invalid_frequencies {W} {st} = false", "case_box_false", ("box", o))
            if alpha is not None and thr > 0 and abs(alpha - thr) > 1e-9 * thr + float(cond_tol(0, o["wp"], o["fwhm"])) * 4:
                add(f"t{i}", f"0 < pump_spectral_amplitude ({coq_hex(o['ws'])} + {coq_hex(o['wi'])}) {st} - {coq_hex(o['thr'])}", "case_env", ("thr", o))
        elif raw_zero and pm_nonzero and alpha is not None and alpha > 0 and thr > 0 and not exact_outside(o):
            if abs(alpha - thr) > 1e-9 * thr + float(cond_tol(0, o["wp"], o["fwhm"])) * 4:
                add(f"t{i}", f"0 < {coq_hex(o['thr'])} - pump_spectral_amplitude ({coq_hex(o['ws'])} + {coq_hex(o['wi'])}) {st}", "case_env", ("thr", o))
    norms = [o for o in obs if o["kind"] == "norm"]
    for i, o in enumerate(norms):
        args = " ".join(coq_hex(o[x]) for x in ["wp", "fwhm", "len", "power", "deff", "wpx", "wpy", "wsx", "wsy", "wix", "wiy", "ths", "thi", "ns", "ni"])
        st = f"(norm_setup {args} {'true' if o['pp_off'] else 'false'})"
        tol = cond_tol(Fraction(1, 10**12), o["wp"], o["fwhm"])
        for fn, key in (("jsi_normalization", "jn"), ("jsi_singles_normalization", "jsn")):
            add(f"n{i}{key}", f"Rabs ({fn} {coq_hex(o['ws'])} {coq_hex(o['wi'])} {st} - {coq_hex(o[key])}) <= {coq_q(tol)} * {coq_hex(o[key])}",
                "case_norm", ("norm", o, key))
    for i, o in enumerate(x for x in obs if x["kind"] == "counts"):
        dw2 = f"({coq_hex(o['dws'])} * {coq_hex(o['dwi'])})"
        if o.get("xr"):
            # the cell area as the generated division widths give it, against the two widths the code returned
            add(f"a{i}", f"Rabs (cell_area {coq_hex(o['xr'][0])} {coq_hex(o['xr'][1])} {int(o['nx'])} {coq_hex(o['yr'][0])} {coq_hex(o['yr'][1])} {int(o['ny'])} - {dw2}) <= 1e-14 * {dw2}",
                "case_area", ("counts", o, "cell_area"))
        for key, lst in (("c", "jsi"), ("rs", "jsi_singles"), ("ri", "jsi_singles_idler")):
            if not all(finite(fh(v)) for v in o[lst]) or not finite(fh(o[key])):
                continue
            pts = "; ".join(f"({k}, {coq_hex(v)})" for k, v in enumerate(o[lst]))
            add(f"c{i}{key}", f"Rabs ({coq_hex(o['corr'])} * grid_sum (fun _ v => v) [{pts}] {dw2} - {coq_hex(o[key])}) <= 1e-12 * {coq_hex(o[key])}",
                "case_sum", ("counts", o, key))
    res = run_interval_cases(ctx, "C07", IMPORTS, goals)
    for cid, ok in res.items():
        if ok or cid not in meta:
            continue
        m = meta[cid]
        o = m[1]
        if m[0] == "env":
            rep = {"setup": o["setup"], "pump_frequency": fh(o["wp"]), "pump_bandwidth_m": fh(o["fwhm"]), "omega": fh(o["w"]), "rust": fh(o["alpha"]), "case": cid}
            ctx.violation("S4", f"translated envelope and pump_spectral_amplitude disagree at omega={fh(o['w'])!r} (rust {fh(o['alpha'])!r})",
                          {"kind": "model_env", "setup": o["setup"], "tag": o["tag"]}, rep, found_input=False)
        elif m[0] in ("box", "thr"):
            rep = {"setup": o["setup"], "tag": o["tag"], "pump_frequency": fh(o["wp"]), "omega_s": fh(o["ws"]), "omega_i": fh(o["wi"]),
                   "threshold": fh(o["thr"]), "rust_jsa_raw": [fh(x) for x in o["jsa_raw"]], "case": cid}
            ctx.violation("S4", f"translated short-circuit logic and jsa_raw disagree at ({fh(o['ws'])!r}, {fh(o['wi'])!r}) [{o['tag']}]",
                          {"kind": "model_support", "setup": o["setup"], "tag": o["tag"]}, rep, found_input=False)
        elif m[0] == "norm":
            rep = {k: (fh(v) if isinstance(v, str) and v.startswith("0x") else v) for k, v in o.items()}
            rep["case"] = cid
            ctx.violation("S4", f"translated normalisation and {'jsi_normalization' if m[2]=='jn' else 'jsi_singles_normalization'} disagree ({o['setup']})",
                          {"kind": "model_norm", "setup": o["setup"], "which": m[2]}, rep, found_input=False)
        else:
            ctx.violation("S4", f"counts model (correction x sum jsi x dw2) and counts_* disagree ({o['setup']}, {m[2]})",
                          {"kind": "model_counts", "setup": o["setup"], "which": m[2]}, {"setup": o["setup"], "case": cid}, found_input=False)
    return res


def real_found(ctx):
    """a concrete failing input that is NOT one of the listed known findings (those must not mask a broken obligation)"""
    fnd = load_findings()
    return any(v["found_input"] and not match_finding(v, fnd, ctx.prop) for v in ctx.violations)


def tag_obligations(ctx, n0, args):
    for v in ctx.violations[n0:]:
        if isinstance(v.get("detail"), dict) and "replay" not in v["detail"]:
            v["detail"]["replay"] = {"harness_args": [str(a) for a in args], "obligation": True}


def replay(ctx, binp):
    """./check C07 --replay <file>: re-run exactly the recorded input against the implementation and re-evaluate the recorded
    clause (exit 1 + VIOLATION if it still fails, 0 if not); a record that names only a broken theorem / correspondence case
    re-checks the obligations (S2-S4 on the recorded harness arguments).  Unreadable / foreign files: message, then a normal run."""
    path = ctx.replay if os.path.isabs(ctx.replay) else os.path.join(VERIF, ctx.replay)
    try:
        rec = json.load(open(path))
        det, sig = rec.get("detail") or {}, rec.get("signature") or {}
        if rec.get("property") not in (None, ctx.prop) or not isinstance(det, dict) or not isinstance(sig, dict):
            raise ValueError(f"not a {ctx.prop} replay record")
    except (OSError, ValueError) as e:
        ctx.note(f"replay file {ctx.replay} unreadable or not a {ctx.prop} record ({e}); running the normal check instead")
        return None
    rp = det.get("replay") or {}
    args = rp.get("harness_args") or []
    ctx.log(f"REPLAY recorded violation: {rec.get('what')}")
    if sig.get("kind") in ("proof", "check_error", "internal") or rp.get("obligation") or not rp.get("key") or not args:
        ctx.log("REPLAY: the record names a proof obligation / correspondence case, not an input: re-checking S2-S4")
        msgs, spans = regen(ctx, GENERATORS)
        for m in msgs:
            ctx.proof_failures.append(("Gen/Spectrum.v", "translator", m))
        if not msgs:
            prove(ctx, "C07", extra_targets=["Proofs/C07_tac.vo"])
        hargs = args or ["c07", rec.get("seed", ctx.seed), 4, 0]
        obs = run_harness(ctx, binp, hargs)
        if all(os.path.exists(os.path.join(COQ, p)) for p in ("Proofs/C07_tac.vo", "Gen/Spectrum.vo")):
            correspondence(ctx, obs, True)
        ctx.log("REPLAY verdict: " + ("the obligations are still broken" if (ctx.proof_failures or ctx.violations) else "all obligations check on this tree"))
        return finish(ctx)
    obs = run_harness(ctx, binp, args)
    hit = [o for o in obs if obs_key(o) == rp["key"]]
    if not hit:
        ctx.log(f"REPLAY: the recorded input {rp['key']} is no longer produced by `vharness {' '.join(args)}` (setup construction changed); "
                "evaluating every observation of that harness call instead")
        hit = obs
    ctx.log(f"REPLAY: re-evaluating {len(hit)} observation(s)")
    oracle(ctx, hit, args)
    ctx.log("REPLAY verdict: " + ("reproduces on this tree" if ctx.violations else "does NOT reproduce on this tree"))
    ctx.cov["rule"] = "replay of one recorded input"
    return finish(ctx)


GENERATORS = ["spectrum", "efficiencies", "pm_integrand", "grid", "hom"]


def run(ctx):
    binp = build_harness(ctx)
    if getattr(ctx, "replay", None):
        r = replay(ctx, binp)
        if r is not None:
            return r
    msgs, spans = regen(ctx, ["spectrum", "efficiencies", "pm_integrand", "grid", "hom"])
    keys = ("phasematch", "jsa", "utils", "math", "beam", "spdc::efficiencies")
    ctx.cov["translated_spans"] = {k: v for k, v in spans.items() if k.startswith(keys)}
    for m in msgs:
        ctx.proof_failures.append(("Gen/Spectrum.v", "translator", m))
    proved = (not msgs) and prove(ctx, "C07", extra_targets=["Proofs/C07_tac.vo"])
    # auxiliary composition (Props/C07_aux.v): the SPDC::counts_* / efficiencies methods forward to the functions modelled here
    auxprops.prove_aux(ctx, "C07", ["wrapbase", "wrap_SPDC_counts_coincidences", "wrap_SPDC_counts_singles_signal", "wrap_SPDC_counts_singles_idler",
                                    "wrap_SPDC_efficiencies", "wrap_efficiencies"])
    quick = ctx.tier == "quick"
    n = 4 if quick else 16
    hargs = ["c07", ctx.seed, n, 0 if quick else 1]
    obs = run_harness(ctx, binp, hargs)
    oracle(ctx, obs, hargs)
    for o in obs:
        if o["kind"] == "sup" and o["tag"] in ("d=3/4+", "thr=alpha+", "rand_in"):
            ctx.sample({"setup": o["setup"], "tag": o["tag"], "omega_s": fh(o["ws"]), "omega_i": fh(o["wi"]), "pump": fh(o["wp"]),
                        "threshold": fh(o["thr"]), "jsi": fh(o.get("jsi"))})
    tac_ok = all(os.path.exists(os.path.join(COQ, p)) for p in ("Proofs/C07_tac.vo", "Gen/Spectrum.vo"))
    if tac_ok:
        n0 = len(ctx.violations)
        correspondence(ctx, obs, quick)
        tag_obligations(ctx, n0, hargs)
    else:
        ctx.note("correspondence cases skipped: generated model / case tactics did not compile")
    if (not proved or any(not v["found_input"] for v in ctx.violations)) and not real_found(ctx):
        ctx.log("S5 deep search for a failing input (proof obligations or correspondence are broken)")
        for k in range(2):
            a2 = ["c07", ctx.seed + 1000 + k, 24, 1]
            obs2 = run_harness(ctx, binp, a2)
            oracle(ctx, obs2, a2)
            if real_found(ctx):
                break
    ctx.cov["rule"] = ("5 phase-matched setups (KTP/BBO/LiNbO3, types 0/1/2, poled and not, collinear and not) plus 4 edit histories of each that break energy conservation at the centre (signal / idler / pump retuned alone); two-source HOM with the sources scaled independently; per setup: envelope at centre, "
                       "± half span, random and far detunings for 5 bandwidths; spectrum functions at in-support points, at every box "
                       "boundary (= and ± 1 ulp, threshold off and on), at threshold = alpha and ± 1 ulp; normalisation at random "
                       "bandwidth/power/deff; (power, deff) scaled over six decades; distinct = distinct (setup, input bits)")
    ctx.cov["clauses"] = {
        "the methods SPDC::counts_* / SPDC::efficiencies hand (self, ranges, integrator) unchanged to the functions of counts.rs / efficiencies.rs the "
        "rate theorems are about": "proved on the generated forwarders (C07_counts_methods_forward over Gen/W_*.v; Props/C07_aux.v, auxiliary composition); implementation compared bit for "
                                   "bit by the wrappers stage of ./check C08",
        "intensities/rates proportional to power x deff^2": "proved (generated normalisation; raw amplitudes syntactically independent: frame scan; rates = generated rendering of counts.rs with the generated correction factor and cell area dws*dwi) + Rust-vs-Rust 1e-12 over six decades; grids with unequal axis spacings",
        "efficiencies / normalised spectra / Schmidt / HOM independent of power, deff": "proved over the GENERATED definitions (Gen/Spectrum.v amplitude composed with Gen/HomSrc.v, Gen/SchmidtSrc.v via grpF's models; two sources scaled independently; normalised amplitude and intensities) + Rust-vs-Rust on every *_range accessor, sweep, hom_rate(_series), two-source (self and independent)",
        "envelope 1 at centre, 1/2 at +- half FWHM span": "proved (exact, and only there) + interval correspondence",
        "jsa_raw = envelope x phasematching": "proved + bitwise on Rust",
        "exact zero off support (box, threshold)": "proved, box proved equal to the property's (strictness included) + exact-zero comparison incl. 1-ulp boundary points",
        "finite inside the transmission window": "normalisations / envelope: proved for every built-in crystal, in-window wavelengths, T in [-50,200] C, every orientation and unit beam direction with the index oracles instantiated by the generated index_along over the generated crystal tables (C07_defined_builtin, no index hypothesis); finiteness of the two fibre-coupling integrals themselves validated_only",
    }
    return finish(ctx, assumptions=[
        "oracle fields of `setup` (refractive indices, Snell angles, fibre-coupling integrals, counts correction, optimum and swapped setups) do not depend on "
        "pump power or deff: enforced syntactically by the frame scan of tools/gen/spectrum.py and measured Rust-vs-Rust",
        "binary64 evaluation error of envelope / normalisation measured (<= 1e-13 resp. 1e-12 relative, plus eps x pump frequency / FWHM span for the width's cancellation), not proved",
        "SVD and the parallel sums are modelled as lists (Model/Spectrum.v)"])
