"""C11 — Schmidt number: proof obligations (Props/C11.v), correspondence of the executable trace-form twin with
spdcalc::math::schmidt_number on generated arrays (Coq vm_compute on the magnitudes Rust computed; interval goals for the
complex-modulus step), the SVD-oracle contract per input, and the property oracle (length check, bounds, extremes,
invariances, setup-level = array-level)."""
import math
from vlib.common import *
from props import c09_replaylib as RL

TOL = Fraction(1, 10**9)          # agreement of K with the exact trace form / between invariant variants (relative)
TOL_SV = Fraction(1, 10**10)      # SVD oracle contract: power sums of singular values vs tr G, tr G^2 (relative)


def qlit(fr):
    fr = Fraction(fr)
    n = f"({fr.numerator})" if fr.numerator < 0 else f"{fr.numerator}"
    return f"({n} # {fr.denominator})"


def isqrt_exact(v):
    r = math.isqrt(v)
    return r if r * r == v else None


def k_exact(n, mags):
    """(tr G, tr G^2, K) exactly, G = M^T M, M row-major n x n (Fractions)"""
    M = [mags[r * n:(r + 1) * n] for r in range(n)]
    G = [[sum(M[i][j] * M[i][jp] for i in range(n)) for jp in range(n)] for j in range(n)]
    t = sum(G[j][j] for j in range(n))
    t2 = sum(G[j][jp] * G[jp][j] for j in range(n) for jp in range(n))
    return t, t2, (t * t / t2 if t2 != 0 else None)


def kval(o):
    return f64_of_hex(o["k"]) if o["class"] == "ok" else None


def finite(x):
    return x is not None and x == x and abs(x) != float("inf")


def close(a, b, tol=1e-9):
    return finite(a) and finite(b) and abs(a - b) <= tol * max(1.0, abs(a), abs(b))


def describe(o):
    """the full input of a value case, replayable: entries as exact (re, im) pairs"""
    if o["kind"] == "val":
        s = f64_of_hex(o["scale"])
        return {"n": o["n"], "family": o["family"], "entries_re": [x * s for x in o["re"]], "entries_im": [x * s for x in o["im"]],
                "call": "spdcalc::math::schmidt_number(entries as Vec<Complex<f64>>, row-major)"}
    if o["kind"] == "fval":
        return {"n": o["n"], "entries_re_bits": o["re"], "entries_im_bits": o["im"],
                "call": "spdcalc::math::schmidt_number(entries as Vec<Complex<f64>>, row-major)"}
    return {k: v for k, v in o.items() if k != "mag"}


def dumped(o, count):
    """the moduli the harness dumped, as exact rationals; a dump whose length is not the sample count the observation reports is an
    inconsistency of the HARNESS (the oracle would silently judge a different matrix than the library saw), never a verdict on /repo"""
    if len(o["mag"]) != count:
        raise CheckError(f"harness inconsistency in a C11 '{o['kind']}' observation: {len(o['mag'])} moduli dumped for a reported sample count of {count} "
                         f"({ {k: o[k] for k in ('setup', 'n', 'nx', 'ny') if k in o} }); the oracle refuses to judge a matrix the library did not see")
    return [frac_of_hex(h) for h in o["mag"]]


def oracle(ctx, obs):
    """S5: the property's own clauses on the Rust results"""
    for c in [o for o in obs if o["kind"] == "harness_crash"]:
        ctx.violation("S5", "harness crashed", {"kind": "crash"}, c)
    for o in obs:
        RL.cur(ctx, o)
        k = o["kind"]
        if k == "lens":
            mx = o["max"]
            squares = {d * d for d in range(0, math.isqrt(mx) + 1)}
            ok, err = set(o["ok"]), set(o["err"])
            for L in range(1, mx + 1):
                ctx.seen(("len", L))
                ctx.count("len:square" if L in squares else "len:nonsquare")
                if L in squares and L not in ok:
                    ctx.violation("S5", f"schmidt_number rejects/fails an array of perfect-square length {L}",
                                  {"kind": "len_square_rejected", "len": L}, {"len": L, "call": f"schmidt_number(vec of {L} entries)"})
                if L not in squares and L not in err:
                    what = [x for x in o["other"] if x[0] == L]
                    ctx.violation("S5", f"an array of non-square length {L} is not rejected with an error ({'accepted' if L in ok else what})",
                                  {"kind": "len_nonsquare_accepted", "len": L}, {"len": L, "outcome": "ok" if L in ok else what,
                                                                                   "call": f"schmidt_number(vec of {L} entries 1+k%3 + i(k%2))"})
            for x in o["other"]:
                if x[0] == 0:
                    ctx.note_once = getattr(ctx, "note_once", set())
                    if "len0" not in ctx.note_once:
                        ctx.note_once.add("len0")
                        ctx.note(f"schmidt_number on the empty array: {x[1]} ({x[2]}) — length 0 is a perfect square; outside the property (side >= 1)")
            for L, kh in o["ks"]:
                n = math.isqrt(L)
                kv = f64_of_hex(kh)
                if not (finite(kv) and 1 - 1e-9 <= kv <= n * (1 + 1e-9)):
                    ctx.violation("S5", f"K = {kv!r} outside [1, {n}] for the {n}x{n} test pattern", {"kind": "bounds", "n": n},
                                  {"len": L, "k": kv, "entries": "1 + k%3 + i (k%2), k = 0..len-1"})
        elif k == "biglens":
            for L, cls, msg in o["cases"]:
                ctx.seen(("len", L))
                sq = isqrt_exact(L) is not None
                ctx.count("len:big_square" if sq else "len:big_nonsquare")
                if sq and cls != "ok":
                    ctx.violation("S5", f"perfect-square length {L} not accepted ({cls}: {msg})", {"kind": "len_square_rejected", "len": L}, {"len": L})
                if not sq and cls != "err":
                    ctx.violation("S5", f"non-square length {L} not rejected with an error ({cls})", {"kind": "len_nonsquare_accepted", "len": L},
                                  {"len": L, "outcome": cls, "msg": msg, "call": f"schmidt_number(vec of {L} entries, 1 at k%7==0)"})
        elif k in ("val", "fval"):
            n = o["n"]
            mags = dumped(o, n * n)
            fam = o.get("family", f"float{o.get('shape')}")
            ctx.seen((k, n, tuple(o["mag"])))
            ctx.count(f"{k}:{fam}")
            ctx.count(f"side:{n}")
            base = kval(o["base"])
            rep = dict(describe(o), rust_k=base, outcome=o["base"])
            if all(m == 0 for m in mags):
                continue
            if not finite(base):
                ctx.violation("S5", f"schmidt_number gives {o['base']} on a non-zero {n}x{n} array ({fam})", {"kind": "not_ok", "family": fam, "n": n}, rep)
                continue
            if k == "val":
                # the integer entries have integer moduli and Rust's norm() returned exactly those
                s = frac_of_hex(o["scale"])
                for idx, (x, y) in enumerate(zip(o["re"], o["im"])):
                    r = isqrt_exact(x * x + y * y)
                    if r is None or r * s != mags[idx]:
                        ctx.note(f"generator: entry {idx} of a val case has a non-integer modulus (harness bug)")
                        break
            t, t2, kx = k_exact(n, mags)
            if kx is None or abs(Fraction(base) - kx) > TOL * kx:
                ctx.violation("S5", f"K = {base!r} differs from (sum s^2)^2/sum s^4 = (tr G)^2/tr G^2 = {float(kx) if kx else None!r} of the magnitude matrix ({fam}, n={n})",
                              {"kind": "value", "family": fam, "n": n}, dict(rep, expected=float(kx) if kx else None))
            if not (1 - 1e-9 <= base <= n * (1 + 1e-9)):
                ctx.violation("S5", f"K = {base!r} outside [1, {n}] ({fam})", {"kind": "bounds", "family": fam, "n": n}, rep)
            if fam == "rank1" and not close(base, 1.0):
                ctx.violation("S5", f"K = {base!r} for a separable (outer-product) {n}x{n} array, expected 1", {"kind": "separable", "n": n}, rep)
            if fam in ("diag", "perm") and not close(base, float(n)):
                ctx.violation("S5", f"K = {base!r} for an equal-magnitude {'permuted ' if fam == 'perm' else ''}diagonal {n}x{n} array, expected {n}",
                              {"kind": "diagonal", "family": fam, "n": n}, rep)
            for var in ("scaled", "phased", "transposed", "conj"):
                if var not in o:
                    continue
                kv = kval(o[var])
                if not close(kv, base):
                    ctx.violation("S5", f"K changes under '{var}': {base!r} -> {kv!r} ({o[var]['class']}) ({fam}, n={n})",
                                  {"kind": "invariance", "variant": var, "family": fam, "n": n},
                                  dict(rep, variant=var, variant_k=kv, scale_c=[f64_of_hex(x) for x in o.get("scale_c", [])]))
            for r in o.get("scaled_extreme", []):
                kv = kval(r["result"])
                if not close(kv, base):
                    ctx.violation("S5", f"K changes under the global scale factor 1e{r['exp10']}: {base!r} -> {kv!r} ({r['result']['class']}) ({fam}, n={n})",
                                  {"kind": "invariance", "variant": "scaled_extreme", "family": fam, "n": n},
                                  dict(rep, variant=f"every entry multiplied by 1e{r['exp10']}", variant_k=kv))
        elif k == "extreme":
            base = kval(o["rows"][0]["result"])
            entries = "[1, 0.5, 0.25, 2+i] (2x2, row-major) times 10^e"
            for r in o["rows"]:
                e = r["scale_exp10"]
                if close(kval(r["result"]), base):
                    continue
                rep = {"entries": entries, "scale_exp10": e, "k_unscaled": base, "k_scaled": kval(r["result"]), "outcome": r["result"],
                       "call": "spdcalc::math::schmidt_number(vec![c*1, c*0.5, c*0.25, c*(2+i)]), c = 10^e",
                       "why": "sigma^4 (and (sum sigma^2)^2) under/overflow binary64: the power sums are not normalised by the largest singular value"}
                if abs(e) >= 75:
                    ctx.violation("S5", f"K is not invariant under the global scale factor 1e{e}: {base!r} -> {kval(r['result'])!r} (sigma^4 under/overflows binary64)",
                                  {"kind": "scale_invariance", "cause": "sigma4_over_underflow", "scale_exp_abs_ge": 75}, rep)
                else:
                    ctx.violation("S5", f"K is not invariant under the global scale factor 1e{e}: {base!r} -> {kval(r['result'])!r}",
                                  {"kind": "scale_invariance", "cause": "unexplained", "scale_exp10": e}, rep)
            ctx.note(f"schmidt_number of the all-zero 2x2 array: {o['zero']} (Ok(NaN): C11_nan_iff_zero; outside the property: non-zero arrays)")
        elif k == "setup":
            nx, ny = o.get("nx", o["n"]), o.get("ny", o["n"])
            n = isqrt_exact(nx * ny)
            ctx.seen(("setup", o["setup"], nx, ny, tuple(o["xs"] + o["ys"])))
            if nx != ny:
                ctx.count("setup:unequal_counts")
            ctx.count(f"setup:{o['setup']}")
            d, v = o["direct"], o["via_array"]
            rep = {"setup": o["setup"], "signal_steps": nx, "idler_steps": ny, "signal_axis_rad_per_s": [f64_of_hex(x) for x in o["xs"]],
                   "idler_axis_rad_per_s": [f64_of_hex(x) for x in o["ys"]], "direct": d, "via_array": v,
                   "call": "spdc.joint_spectrum(Integrator::default()).schmidt_number(FrequencySpace) vs math::schmidt_number(jsa_range(..))"}
            same = d["class"] == v["class"] and (d["class"] != "ok" or close(kval(d), kval(v)) or (kval(d) != kval(d) and kval(v) != kval(v)))
            if not same:
                ctx.violation("S5", f"JointSpectrum::schmidt_number ({d}) differs from schmidt_number(jsa_range) ({v}) for setup {o['setup']}, n={n}",
                              {"kind": "setup_vs_array", "setup": o["setup"], "n": n}, rep)
            mags = dumped(o, nx * ny)
            if n is None:
                if d["class"] != "err":
                    ctx.violation("S5", f"JointSpectrum::schmidt_number on a {nx}x{ny} range ({nx * ny} samples, not a perfect square) is not rejected: {d}",
                                  {"kind": "setup_nonsquare", "setup": o["setup"]}, rep)
                continue
            if d["class"] == "ok" and any(m != 0 for m in mags):
                t, t2, kx = k_exact(n, mags)
                if kx is None or not finite(kval(d)) or abs(Fraction(kval(d)) - kx) > TOL * kx:
                    ctx.violation("S5", f"setup-level K = {kval(d)!r} differs from the trace form {float(kx) if kx else None!r} of the sampled amplitudes ({o['setup']}, n={n})",
                                  {"kind": "setup_value", "setup": o["setup"], "n": n}, dict(rep, expected=float(kx) if kx else None))


IMPORTS = ("From Coq Require Import QArith Qabs List ZArith Bool.\nFrom SpdVerif Require Import Model.FinSum Model.Schmidt.\nImport ListNotations.\n")
DEFS = """
Definition chk (n : nat) (mags : list Q) (k sv2 sv4 tol tolsv : Q) :=
  let M := mat_of n (arr 0%Q mags) in
  let t := trG QOps n M in let t2 := trG2 QOps n M in
  let K := odiv QOps (omul QOps t t) t2 in
  (Qle_bool (Qabs (K - k)) (tol * K), true, true,
   Qle_bool 1 K && Qle_bool K (inject_Z (Z.of_nat n)), K).
(* [chk] evaluates the same term as the twin of Props/C11.v *)
Goal forall n mags, odiv QOps (omul QOps (trG_Q n mags) (trG_Q n mags)) (trG2_Q n mags) = schmidt_K_Q n mags.
Proof. reflexivity. Qed.
"""


def correspondence(ctx, obs, max_n_float):
    """S4: run the executable twin in Coq on the magnitudes Rust computed"""
    exprs, meta = [], {}
    for o in obs:
        RL.cur(ctx, o)
        if o["kind"] not in ("val", "fval") or o["base"]["class"] != "ok":
            continue
        if o["kind"] == "fval" and o["n"] > max_n_float:
            continue
        mags = dumped(o, o["n"] * o["n"])
        if all(m == 0 for m in mags) or not is_finite_hex(o["base"]["k"]):
            continue
        cid = f"k{len(exprs)}"
        lst = "; ".join(qlit(m) for m in mags)
        exprs.append((cid, f"chk {o['n']} [{lst}] {qlit(frac_of_hex(o['base']['k']))} 0 0 {qlit(TOL)} {qlit(TOL_SV)}"))
        meta[cid] = o
    # big cases last in each shard would serialise; interleave by size
    order = sorted(range(len(exprs)), key=lambda i: -meta[exprs[i][0]]["n"])
    exprs = [exprs[i] for i in order]
    res = run_compute_cases(ctx, "C11", IMPORTS, DEFS, exprs, shards=min(NCPU, max(1, len(exprs) // 4)))
    nbad = 0
    ctx.cov["obligations"] += len(exprs)
    for cid, _ in exprs:
        o = meta[cid]
        RL.cur(ctx, o)
        txt = res.get(cid)
        m = re.match(r"\((true|false), (true|false), (true|false), (true|false), (.*)\)$", txt or "")
        if not m:
            unchecked_eval(ctx, "C11", cid)     # no output (time limit / crash): an unchecked obligation, not a disagreement
            continue
        okk, oks2, oks4, okb = (m.group(i) == "true" for i in (1, 2, 3, 4))
        fam = o.get("family", "float")
        if okk and oks2 and oks4 and okb:
            ctx.cov["discharged"] += 1
            continue
        nbad += 1
        rep = dict(describe(o), rust_k=kval(o["base"]), model_k=m.group(5), case=cid)
        if not okk:
            # the trace form IS the property's (sum s^2)^2/sum s^4 (C11_svd_link), so this is a failing input of the property text
            ctx.violation("S4", f"executable model K = {m.group(5)} and schmidt_number = {kval(o['base'])!r} disagree beyond 1e-9 ({fam}, n={o['n']})",
                          {"kind": "value", "family": fam, "n": o["n"]}, rep)
        if not okb:
            ctx.violation("S4", f"model K outside [1, n] — contradicts C11_bounds (model bug) ({fam}, n={o['n']})", {"kind": "model_bounds"}, rep, found_input=False)
    return nbad


def interval_cases(ctx, obs, limit):
    """S4 (real-valued model incl. the complex modulus): |schmidt_K ROps n (mag_matrix n a) - rust| <= 1e-9 by interval"""
    goals, meta = [], {}
    for o in obs:
        RL.cur(ctx, o)
        if len(goals) >= limit:
            break
        if o["kind"] not in ("val", "fval") or o["n"] > 3 or o["n"] < 2 or o["base"]["class"] != "ok":
            continue
        if o["kind"] == "val":
            s = frac_of_hex(o["scale"])
            ent = [(Fraction(x) * s, Fraction(y) * s) for x, y in zip(o["re"], o["im"])]
        else:
            ent = [(frac_of_hex(x), frac_of_hex(y)) for x, y in zip(o["re"], o["im"])]
        if all(x == 0 and y == 0 for x, y in ent):
            continue
        lst = "; ".join(f"({coq_q(x)}, {coq_q(y)})" for x, y in ent)
        cid = f"i{len(goals)}"
        goals.append((cid, f"Rabs (schmidt_K ROps {o['n']} (mag_matrix {o['n']} (arr (0, 0) [{lst}])) - {coq_hex(o['base']['k'])}) <= 1e-9",
                      "schmidt_case"))
        meta[cid] = o
    setup = ("Import ListNotations.\n"
             "Ltac schmidt_case := unfold schmidt_K, trG2, trG, gram, mag_matrix, mat_of, arr, cmod; "
             "cbn [gsum ROps o0 oadd omul odiv nth fst snd Nat.mul Nat.add]; interval with (i_prec 80).\n")
    res = run_interval_cases(ctx, "C11i", "From SpdVerif Require Import Model.FinSum Model.Schmidt.\n", goals, setup=setup, shards=min(NCPU, max(1, len(goals))))
    for cid, ok in res.items():
        if ok or cid not in meta:
            continue
        o = meta[cid]
        RL.cur(ctx, o)
        ctx.case_failures.append({"case": cid})
        ctx.violation("S4", f"real-valued model (complex moduli, trace form) and schmidt_number = {kval(o['base'])!r} disagree beyond 1e-9 (n={o['n']})",
                      {"kind": "value", "family": o.get("family", "float"), "n": o["n"]}, dict(describe(o), rust_k=kval(o["base"]), case=cid), found_input=False)


def unchecked_eval(ctx, name, cid):
    """a vm_compute evaluation that printed no result: counted as an unchecked obligation (like vlib's no-verdict goals)"""
    ctx.cov["unchecked_cases"] = ctx.cov.get("unchecked_cases", 0) + 1
    tag = (f"Cases/{name}", "no-verdict")
    for i, f in enumerate(ctx.proof_failures):
        if (f[0], f[1]) == tag:
            ctx.proof_failures[i] = (f[0], f[1], f[2] + f", {cid}")
            return
    ctx.proof_failures.append((tag[0], tag[1], f"model evaluation(s) without output from coqc (time limit): {cid}"))


def unknown_failing(ctx):
    """a concrete failing input that is NOT a known finding (a known finding firing on the same run must not stop the search)"""
    fs = load_findings()
    return any(v["found_input"] and match_finding(v, fs, ctx.prop) is None for v in ctx.violations)


def replay_evaluate(ctx, obs):
    oracle(ctx, obs)
    if os.path.exists(os.path.join(COQ, "Model", "Schmidt.vo")):
        correspondence(ctx, obs, 14)
        interval_cases(ctx, obs, 8)


def run(ctx):
    binp = build_harness(ctx)
    RL.install(ctx)
    if getattr(ctx, "replay", None):
        status = RL.replay(ctx, binp, "C11", ["schmidt"], replay_evaluate)
        if status is not None:
            return status
        ctx.violations.clear()
        ctx.proof_failures.clear()
        ctx.cov["obligations"] = ctx.cov["discharged"] = 0
    msgs, spans = regen(ctx, ["schmidt"])
    ctx.cov["translated_spans"] = {k: v for k, v in spans.items() if "schmidt" in v["file"]}
    for m in msgs:
        ctx.proof_failures.append(("Gen/SchmidtSrc.v", "translator", m))
    proved = (not msgs) and prove(ctx, "C11")
    quick = ctx.tier == "quick"
    ncases, max_side, nsetup, nbig = (70, 16, 12, 3) if quick else (260, 40, 32, 10)
    obs = RL.harvest(ctx, binp, ["c11", ctx.seed, ncases, max_side, nsetup, 2000, nbig])
    oracle(ctx, obs)
    for o in [x for x in obs if x["kind"] == "val"][7:10]:
        RL.cur(ctx, o)
        ctx.sample({"family": o["family"], "n": o["n"], "re": o["re"][:9], "im": o["im"][:9], "rust_k": kval(o["base"])})
    if os.path.exists(os.path.join(COQ, "Model", "Schmidt.vo")):
        correspondence(ctx, obs, 8 if quick else 12)
        interval_cases(ctx, obs, 12 if quick else 40)
    else:
        ctx.note("correspondence skipped: Model/Schmidt.v did not compile")
    if (not proved or ctx.case_failures) and not unknown_failing(ctx):
        ctx.log("S5 deep search for a failing input (obligations broken or model/implementation disagree)")
        for k in range(3):
            obs2 = RL.harvest(ctx, binp, ["c11", ctx.seed + 7919 * (k + 1), 400, 24, 8, 3000])
            oracle(ctx, obs2)
            if unknown_failing(ctx):
                break
    ctx.cov["rule"] = ("lengths: every length 1..2000 plus neighbours d^2-1, d^2+1, d^2+d of squares (d <= 1005), random lengths < 10^6 and four large "
                       "squares; values: families random / sparse / rank-1 / equal diagonal / permuted diagonal / unequal diagonal / two-block with "
                       "Gaussian-integer entries (integer moduli, powers-of-two scale) of sides 1..max, plus binary64 arrays with random phases; each "
                       "with scaled, phased, transposed and conjugated variants; setups: 4 configurations x optimum/wavelength ranges; distinct = "
                       "distinct (side, magnitude bits) resp. distinct length")
    ctx.cov["clauses"] = {
        "K = (sum s^2)^2 / sum s^4 over singular values of the magnitude matrix": "validated_only for the binary64 implementation: schmidt_number is compared on "
            "every generated array (sides 1..16 plus 24..40) with the exact trace form evaluated in Q (1e-9) — that comparison IS the accuracy contract of "
            "nalgebra's try_svd (arguments pinned by C11_svd_call_pinned); proved only for the real-valued model with an exact SVD oracle, which no float "
            "SVD is (C11_svd_link, C11_code_path), and for the rounding of the post-SVD arithmetic in any summation order (C11_rounding_partial)",
        "1 <= K <= n": "proved (C11_bounds)", "K = 1 for separable arrays": "proved (C11_separable)",
        "K = n for equal-magnitude (permuted) diagonal": "proved (C11_diagonal, C11_perm_diagonal)",
        "invariance under complex scale / phases / transposition": "proved on the real model (C11_scale, C11_phases, C11_moduli_only, C11_transpose); in binary64 "
            "validated for scale factors 1e-100..1e100 on every generated array and 1e-160..1e160 on a 2x2 array (the singular values are normalised by the largest "
            "one before the power sums since /repo 4fb41e7, finding F20 fixed; C11_normalisation_invariant, C11_rounding_partial)",
        "non-square length rejected": "proved for the modelled check (C11_square_check, C11_rejects_nonsquare); implementation checked exhaustively to 2000",
        "setup-level = array-level on sampled amplitudes": "validated_only (Rust-vs-Rust and exact recomputation from the sampled moduli)",
        "binary64 result within 1e-9 of the real value": "validated_only (Coq vm_compute on exact rationals, interval goals)"}
    return finish(ctx, assumptions=[
        "nalgebra try_svd(false, false, f64::EPSILON, 10_000) is accurate enough that K agrees with the exact trace form to 1e-9 (measured per input, not proved)",
        "binary64 rounding of norm(), of the power sums and of the final quotient is measured (<= 1e-9), not proved",
        "Model/Schmidt.v is hand-written; tied to src/math/schmidt.rs by Gen/SchmidtSrc.v (shape translation) and by the correspondence cases"])
